// C11 — Aztec: conforming symbols of every size decode to their text.
//
// Symbols come from the independent reference encoder verif/ref/aztec (the library has no Aztec
// writer). Bounded-exhaustive product over: all 36 shapes x a scripted text family that drives
// every table, latch edge, shift, binary-shift form, punctuation pair and FLG(0) x fill levels x
// rotation x integer scale, read through AztecReader.Decode; the same matrices through
// decoder.Decode; codeword damage up to the correction capacity over position families and
// exhaustive single positions; every 1/2(/3)-nibble corruption of the mode message; the raw bit
// strings through HighLevelDecode. Oracle: exact text equality with Script.Expected().
package main

import (
	"fmt"
	"hash/fnv"
	"strings"
	"sync/atomic"

	"verif/mc"
	az "verif/ref/aztec"

	"github.com/makiuchi-d/gozxing"
	gzaztec "github.com/makiuchi-d/gozxing/aztec"
	"github.com/makiuchi-d/gozxing/aztec/decoder"
	"github.com/makiuchi-d/gozxing/aztec/detector"
)

var chk *mc.Check

var hlDriverFailures int32 // number of driver (non-fill) scripts that failed HighLevelDecode

var readerNotes int32 // number of failing reader cases listed in the evidence notes

type shape struct {
	Compact bool
	Layers  int
}

func (s shape) String() string {
	if s.Compact {
		return fmt.Sprintf("compact-L%d", s.Layers)
	}
	return fmt.Sprintf("full-L%d", s.Layers)
}

func (s shape) kind() string {
	if s.Compact {
		return "compact"
	}
	return "full"
}

func (s shape) wordSize() int   { return az.WordSizeFor(s.Layers) }
func (s shape) totalWords() int { return az.TotalBits(s.Compact, s.Layers) / s.wordSize() }

// maxData is the largest number of data codewords of a conforming symbol: at least three check
// words remain, and the mode message can state the count (6 bits compact, 11 bits full).
func (s shape) maxData() int {
	m := s.totalWords() - 3
	lim := 2048
	if s.Compact {
		lim = 64
	}
	if m > lim {
		m = lim
	}
	return m
}

// grid is the number of reference-grid lines on each side of the centre line.
func (s shape) grid() int {
	if s.Compact {
		return 0
	}
	return ((14+4*s.Layers)/2 - 1) / 15
}

// cause is the part of a violation key that names what, as far as visible from outside,
// selects the code path in the bit extraction / correction: symbol kind, codeword size, grid lines.
func (s shape) cause() string {
	return fmt.Sprintf("%s/w=%d/grid=%d", s.kind(), s.wordSize(), s.grid())
}

func allShapes() []shape {
	var out []shape
	for l := 1; l <= 4; l++ {
		out = append(out, shape{true, l})
	}
	for l := 1; l <= 32; l++ {
		out = append(out, shape{false, l})
	}
	return out
}

// rcase is the replayable description of one executed case.
type rcase struct {
	Sub     string // reader | decode | damage | modemsg | highlevel
	Compact bool
	Layers  int
	Text    string
	Rot     int    `json:",omitempty"`
	Scale   int    `json:",omitempty"`
	Quiet   int    `json:",omitempty"`
	Pos     []int  `json:",omitempty"` // damaged codeword indices
	Val     []int  `json:",omitempty"` // the values they are replaced with
	Nib     []int  `json:",omitempty"` // mode message: nibble index, xor value, ...
	Pad     int    `json:",omitempty"` // highlevel: number of 1-bits appended
	Via     string `json:",omitempty"`
	Family  string `json:",omitempty"`
}

func (c rcase) shape() shape { return shape{c.Compact, c.Layers} }

// ------------------------------------------------------------------ library wrappers

func toBitMatrix(m [][]bool) *gozxing.BitMatrix {
	bm, _ := gozxing.NewBitMatrix(len(m), len(m))
	for r := range m {
		for c, v := range m[r] {
			if v {
				bm.Set(c, r)
			}
		}
	}
	return bm
}

// outcome of one library call
type outcome struct {
	text   string
	format gozxing.BarcodeFormat
	err    error
	panicM string
	site   string
}

func (o outcome) ok(want string) bool { return o.panicM == "" && o.err == nil && o.text == want }

// class names the outcome for keys and outcome statistics.
func (o outcome) class(want string) string {
	switch {
	case o.panicM != "":
		return "panic/" + o.site
	case o.err != nil:
		switch o.err.(type) {
		case gozxing.NotFoundException:
			return "notfound"
		case gozxing.FormatException:
			return "format-error"
		case gozxing.ChecksumException:
			return "checksum-error"
		}
		return "other-error"
	case o.text != want:
		return "wrong-text"
	}
	return "ok"
}

func (o outcome) describe() string {
	switch {
	case o.panicM != "":
		return "panic: " + o.panicM
	case o.err != nil:
		return "error: " + clip(fmt.Sprint(o.err), 120)
	}
	return fmt.Sprintf("text %q", clip(o.text, 60))
}

func clip(s string, n int) string {
	if len(s) > n {
		return s[:n] + "..."
	}
	return s
}

func hashStr(s string) uint64 {
	h := fnv.New64a()
	h.Write([]byte(s))
	return h.Sum64()
}

// libDecode: decoder.Decode on the module matrix (no image, no detector).
func libDecode(l *mc.Local, m [][]bool, sh shape, dataWords int) (o outcome) {
	pts := []gozxing.ResultPoint{
		gozxing.NewResultPoint(0, 0), gozxing.NewResultPoint(1, 0),
		gozxing.NewResultPoint(1, 1), gozxing.NewResultPoint(0, 1),
	}
	l.Beat("")
	o.panicM, o.site = mc.Guard(func() {
		res, e := decoder.NewDecoder().Decode(detector.NewAztecDetectorResult(toBitMatrix(m), pts, sh.Compact, dataWords, sh.Layers))
		if e != nil {
			o.err = e
			return
		}
		o.text = res.GetText()
	})
	o.format = gozxing.BarcodeFormat_AZTEC
	l.Count("evaluations", 1)
	return o
}

// libRead: the complete reader on a rendered image.
func libRead(l *mc.Local, m [][]bool, scale, quiet, rot int) (o outcome) {
	img := az.Render(m, scale, quiet, rot)
	l.Beat("")
	o.panicM, o.site = mc.Guard(func() {
		bmp, e := gozxing.NewBinaryBitmapFromImage(img)
		if e != nil {
			o.err = e
			return
		}
		res, e := gzaztec.NewAztecReader().Decode(bmp, nil)
		if e != nil {
			o.err = e
			return
		}
		o.text = res.GetText()
		o.format = res.GetBarcodeFormat()
	})
	l.Count("evaluations", 1)
	return o
}

func libHighLevel(l *mc.Local, bits []bool) (o outcome) {
	l.Beat("")
	o.panicM, o.site = mc.Guard(func() {
		o.text, o.err = decoder.NewDecoder().HighLevelDecode(bits)
	})
	o.format = gozxing.BarcodeFormat_AZTEC
	l.Count("evaluations", 1)
	return o
}

// ------------------------------------------------------------------ oracles

func textKeyPart(tx text) string {
	switch tx.Class {
	case "latin1":
		return "binary-latin1"
	case "usbs":
		return "us-bs"
	}
	return tx.Fam
}

// checkHighLevel: HighLevelDecode(bits + pad one-bits) must equal the expected text.
func checkHighLevel(l *mc.Local, sh shape, tx text, pad int) bool {
	bits := append([]bool{}, tx.Bits...)
	for i := 0; i < pad; i++ {
		bits = append(bits, true)
	}
	o := libHighLevel(l, bits)
	l.Distinct("outcomes", "hl/"+o.class(tx.Want))
	if o.ok(tx.Want) {
		l.Distinct("nontrivial", fmt.Sprint("hl/", sh, "/", tx.Name, "/", pad))
		return true
	}
	switch {
	case tx.Fam == "fill" && atomic.LoadInt32(&hlDriverFailures) > 0:
		// the fill texts are mixtures of what the driver scripts exercise one by one: a failure is
		// a consequence of the (already reported) driver failure, not a new cause
		l.Count("fill text failures explained by a failing driver script", 1)
		return false
	case tx.Class != "main" && !hlControlsOK(l):
		// plain binary shift fails as well: that is the cause, and it is reported on the main-class scripts
		l.Count("non-main class failures explained by a failing plain binary shift", 1)
		return false
	}
	if tx.Fam != "fill" {
		atomic.AddInt32(&hlDriverFailures, 1)
	}
	key := "C11/highlevel/" + o.class(tx.Want) + "/" + textKeyPart(tx)
	if tx.Class == "latin1" {
		key = "C11/binary-latin1/highlevel/" + o.class(tx.Want)
	}
	chk.Violation(key, fmt.Sprintf("HighLevelDecode of script %s (%d bits + %d pad ones): %s, expected %q", tx.Name, len(tx.Bits), pad, o.describe(), clip(tx.Want, 60)),
		rcase{Sub: "highlevel", Compact: sh.Compact, Layers: sh.Layers, Text: tx.Name, Pad: pad})
	return false
}

// hlControlsOK: the main-class binary shifts in both length forms decode through HighLevelDecode.
func hlControlsOK(l *mc.Local) bool {
	for _, d := range drivers() {
		switch d.Name {
		case "bs/Upper/n1", "bs/Upper/n31", "bs/Upper/n32", "bs/Lower/n1", "bs/Lower/n32", "us/Lower", "us/Digit":
			if o := libHighLevel(l, d.Bits); !o.ok(d.Want) {
				return false
			}
		}
	}
	return true
}

// checkDecode: decoder.Decode on the (undamaged) matrix must give the text. A failure is
// attributed to the high-level decoder when HighLevelDecode of the same bits fails too.
func checkDecode(l *mc.Local, sh shape, sym *az.Symbol, tx text) bool {
	o := libDecode(l, sym.Matrix, sh, sym.DataWords)
	l.Distinct("outcomes", "decode/"+o.class(tx.Want))
	if o.ok(tx.Want) {
		l.Distinct("nontrivial", fmt.Sprint("decode/", sh, "/", tx.Name))
		return true
	}
	if !checkHighLevel(l, sh, tx, 0) {
		return false // reported there
	}
	key := "C11/decode/" + o.class(tx.Want) + "/" + sh.cause()
	if tx.Class != "main" {
		// control: the smallest main-class text in the same shape. If that fails too, the cause is not
		// the text class, and it is reported on the main-class texts of this shape.
		ctl, _ := findText(sh, "tiny/A")
		if !libDecode(l, encodeRef(sh, ctl).Matrix, sh, 1).ok(ctl.Want) {
			l.Count("non-main class failures explained by a failing main-class control", 1)
			return false
		}
		key = "C11/" + textKeyPart(tx) + "/decode/" + o.class(tx.Want)
	}
	chk.Violation(key, fmt.Sprintf("decoder.Decode of %v (%d data + %d check words of %d bits) holding script %s: %s, expected %q", sh, sym.DataWords, sym.CheckWords, sym.WordSize, tx.Name, o.describe(), clip(tx.Want, 60)),
		rcase{Sub: "decode", Compact: sh.Compact, Layers: sh.Layers, Text: tx.Name})
	return false
}

// checkRead: AztecReader.Decode on the rendered matrix. positive=false (outside the positive
// obligation): only a different text is a violation.
func checkRead(l *mc.Local, sh shape, sym *az.Symbol, tx text, rot, scale, quiet int, positive bool) bool {
	o := libRead(l, sym.Matrix, scale, quiet, rot)
	cls := o.class(tx.Want)
	if cls == "ok" && o.format != gozxing.BarcodeFormat_AZTEC {
		cls = "wrong-format"
	}
	l.Count(fmt.Sprintf("reader/quiet=%d/scale=%d/%s", quiet, scale, cls), 1)
	l.Distinct("outcomes", fmt.Sprintf("reader/q%d/s%d/%s", quiet, scale, cls))
	if cls == "ok" {
		l.Distinct("nontrivial", fmt.Sprint("reader/", sh, "/", tx.Name, "/", rot, scale, quiet))
		return true
	}
	if !positive && cls != "wrong-text" && cls != "wrong-format" {
		return true
	}
	if cls != "notfound" {
		// a decode problem shows without the image as well: report it there, once
		if !checkDecode(l, sh, sym, tx) {
			return false
		}
	}
	key := fmt.Sprintf("C11/reader/%s/scale=%d", cls, scale)
	if cls == "notfound" && scale == 2 && positive {
		// the locating heuristic has a resolution limit at 2 pixels per module (see
		// known_findings.txt): instances are keyed individually so that a listed instance never hides
		// another one
		key = strings.ReplaceAll(fmt.Sprintf("C11/reader/notfound/scale=2/%v/%s/rot%d", sh, tx.Name, rot*90), " ", "_")
	}
	if !positive {
		key = fmt.Sprintf("C11/reader/%s/quiet=%d/scale=%d", cls, quiet, scale)
	}
	if atomic.AddInt32(&readerNotes, 1) <= 40 {
		chk.Note(fmt.Sprintf("%s: %v script %s scale %d quiet %d rot %d: %s", key, sh, tx.Name, scale, quiet, rot*90, o.describe()))
	}
	chk.Violation(key, fmt.Sprintf("AztecReader.Decode of %v (%dx%d modules) script %s rendered at scale %d, quiet zone %d modules, rotated %d deg: %s, expected %q", sh, sym.Size, sym.Size, tx.Name, scale, quiet, rot*90, o.describe(), clip(tx.Want, 60)),
		rcase{Sub: "reader", Compact: sh.Compact, Layers: sh.Layers, Text: tx.Name, Rot: rot, Scale: scale, Quiet: quiet})
	return false
}

func main() {
	chk = mc.New("C11", "fault_enumeration")
	chk.Rule = "product of all 36 shapes x scripted text family (tables, 5x5 latch edges and 5x5x5 latch histories, every shift, binary shift short/long, punctuation pairs latched and shifted, FLG(0), fills tiny/half/full) x rotation x scale x quiet zone for the reader; the same symbols through decoder.Decode; codeword damage: position families x replacement menu at exactly floor(check/2) errors, every single position; every 1-, 2- (and for full symbols 3-) nibble corruption of the mode message; every script bit string x 0..11 pad ones through HighLevelDecode. A case is non-trivial when the library returned the complete expected (non-empty) text; distinct = distinct (sub-space, shape, text, rotation, scale, quiet, damage pattern)"
	chk.Assume("reference encoder verif/ref/aztec is trusted (written from ISO/IEC 24778; cross-checked against sample symbols and its own tests)")
	chk.Assume("conforming symbol = at least 3 check codewords and a data codeword count the mode message can state (<=64 compact, <=2048 full); 'exactly full' = largest scripted text whose stuffed bits leave exactly that minimum")
	chk.Assume("weaker reading (DESIGN 7): the positive obligation of the reader is a clean image at integer scales 2..5 with a quiet zone of 2 modules; with quiet zone 0 only a different text (never not-found) is a violation")
	chk.Assume("canvas sub-space: 'located in a clean image' is required for symbols whose bull's-eye covers the image centre (centred or displaced by up to two modules) on canvases of any aspect ratio; a symbol far from the image centre is outside the obligation because the detector, by design, searches from the image centre")
	chk.Assume("the property promises nothing beyond the correction capacity floor(check/2): t+1 damaged codewords are executed and their outcomes counted (observed-only/...), but no outcome is a violation")
	chk.Assume("binary-shift bytes >= 0x80 are expected as ISO-8859-1 converted to UTF-8 and keyed separately (C11/binary-latin1); the U/S B/S construction is keyed separately (C11/us-bs); FLG(0) is expected as GS (0x1D) and never placed first; inputs that belong to C06 (HighLevelDecode of 0/1 bits, FLG(n) with unregistered ECI) are not generated")
	drivers()
	if chk.ReplayFile() != "" {
		replay()
		chk.Finish()
	}
	prepare()
	runHighLevel() // first: later sub-spaces attribute failures of mixed texts to failing driver scripts
	runDecode()
	runCheckWordValues()
	runDamage()
	runModeMessage()
	runReader()
	runCanvas()
	runAsymMargins()
	runSweep()
	runObjectHistories()
	chk.Finish()
}

func encodeRef(sh shape, tx text) *az.Symbol {
	sym, err := az.EncodeBits(tx.Bits, sh.Compact, sh.Layers)
	if err != nil {
		panic(fmt.Sprintf("C11 harness: reference encoder refused %v %s: %v", sh, tx.Name, err))
	}
	if sym.CheckWords < 3 {
		panic(fmt.Sprintf("C11 harness: %v %s has only %d check words", sh, tx.Name, sym.CheckWords))
	}
	return sym
}
