package main

import (
	"fmt"
	"sort"
	"strings"

	"verif/mc"
	az "verif/ref/aztec"
)

// shapeTexts: drivers that fit (all classes) followed by the fills, per shape; built once.
type shapeSet struct {
	sh      shape
	drivers []text // fitting drivers, all classes
	fills   []text
	damage  []text
}

var sets []shapeSet

func prepare() {
	shapes := allShapes()
	// largest symbols first, so that the expensive cases do not form the tail of a Range
	sort.SliceStable(shapes, func(a, b int) bool {
		return az.TotalBits(shapes[a].Compact, shapes[a].Layers) > az.TotalBits(shapes[b].Compact, shapes[b].Layers)
	})
	sets = make([]shapeSet, len(shapes))
	nv := chk.Pick(2, 4)
	chk.Range("(preparation) build the fill texts of the 36 shapes", len(shapes),
		func(i int) string { return shapes[i].String() },
		func(l *mc.Local, i int) {
			sh := shapes[i]
			sets[i] = shapeSet{sh, fitting(sh, drivers()), fills(sh, nv), damageTexts(sh)}
		})
}

// ------------------------------------------------------------------ (e) HighLevelDecode

func runHighLevel() {
	type job struct {
		sh shape
		ts []text
	}
	var jobs []job
	ds := drivers()
	for lo := 0; lo < len(ds); lo += 16 {
		hi := lo + 16
		if hi > len(ds) {
			hi = len(ds)
		}
		jobs = append(jobs, job{shape{false, 32}, ds[lo:hi]})
	}
	run := func(name string) {
		chk.Range(name, len(jobs),
			func(i int) string {
				return fmt.Sprint("highlevel ", jobs[i].sh, " ", jobs[i].ts[0].Name, " +", len(jobs[i].ts)-1)
			},
			func(l *mc.Local, i int) {
				for _, tx := range jobs[i].ts {
					for pad := 0; pad <= 11; pad++ {
						checkHighLevel(l, jobs[i].sh, tx, pad)
					}
				}
			})
	}
	run(fmt.Sprintf("(e) HighLevelDecode: every driver script of the family (%d scripts, all classes) x 0..11 appended pad one-bits", len(ds)))
	jobs = nil
	for _, s := range sets {
		jobs = append(jobs, job{s.sh, append(append([]text{}, s.fills...), s.damage...)})
	}
	run("(e) HighLevelDecode: the fill texts (half, full, damage bases) of all 36 shapes x 0..11 appended pad one-bits")
	chk.Sample("highlevel", rcase{Sub: "highlevel", Layers: 32, Text: "latch/Digit-Punct", Pad: 7})
}

// ------------------------------------------------------------------ (b) decoder.Decode

func runDecode() {
	type job struct {
		si     int
		lo, hi int
	}
	var jobs []job
	all := make([][]text, len(sets))
	for si, s := range sets {
		for di, d := range s.drivers {
			// quick: the complete driver family on the 14 shapes of up to 300 codewords (all compact,
			// full 1-10: 6-, 8- and 10-bit words, 0-1 grid lines); on larger shapes every 8th driver
			if chk.Quick() && s.sh.totalWords() > 300 && di%8 != s.sh.Layers%8 && d.Fam != "tiny" {
				continue
			}
			all[si] = append(all[si], d)
		}
		all[si] = append(all[si], s.fills...)
		for lo := 0; lo < len(all[si]); lo += 24 {
			hi := lo + 24
			if hi > len(all[si]) {
				hi = len(all[si])
			}
			jobs = append(jobs, job{si, lo, hi})
		}
	}
	name := "(b) decoder.Decode(AztecDetectorResult) on the reference matrix: 36 shapes x every fitting text of the family (all classes) + fills half/full in 4 variants"
	if chk.Quick() {
		name = "(b) decoder.Decode(AztecDetectorResult) on the reference matrix: shapes of <= 300 codewords x every fitting text of the family (all classes), larger shapes x every 8th text (offset by layer count); all 36 shapes x tiny + fills half/full in 2 variants"
	}
	chk.Range(name, len(jobs),
		func(i int) string {
			return fmt.Sprint("decode ", sets[jobs[i].si].sh, " texts ", jobs[i].lo, "..", jobs[i].hi)
		},
		func(l *mc.Local, i int) {
			j := jobs[i]
			sh := sets[j.si].sh
			for _, tx := range all[j.si][j.lo:j.hi] {
				sym := encodeRef(sh, tx)
				checkDecode(l, sh, sym, tx)
				if strings.HasPrefix(tx.Name, "fill/full") {
					if sym.DataWords == sh.maxData() {
						l.Distinct("exactly-full symbols", sh.String())
					} else {
						l.Count("fill/full not reaching the maximum data word count", 1)
					}
				}
			}
		})
	chk.Sample("decode", rcase{Sub: "decode", Layers: 23, Text: "fill/full/v0"})
}

// ------------------------------------------------------------------ (a) the reader

func runReader() {
	type job struct {
		si     int
		tx     text
		scale  int
		quiets []int
	}
	var jobs []job
	for si, s := range sets {
		var ts, extra []text
		nmain := 0
		for _, d := range s.drivers {
			if d.Class != "main" || strings.HasPrefix(d.Name, "latch3/") {
				continue // latch histories do not change the image class; they are covered in (b) and (e)
			}
			nmain++
			switch {
			case !chk.Quick() || d.Name == "tiny/A" || s.sh.totalWords() <= 100:
				ts = append(ts, d)
			case nmain%12 == s.sh.Layers%12:
				extra = append(extra, d)
			}
		}
		if chk.Quick() {
			ts = append(ts, s.fills[0], s.fills[1]) // half, full
		} else {
			ts = append(ts, s.fills...)
		}
		for _, tx := range ts {
			for scale := 2; scale <= 5; scale++ {
				jobs = append(jobs, job{si, tx, scale, []int{2, 0}})
			}
		}
		for _, tx := range extra {
			jobs = append(jobs, job{si, tx, 3, []int{2, 0}})
		}
	}
	name := "(a) AztecReader.Decode: 36 shapes x {tiny/A, fill half v0, fill full v0} x rotation {0,90,180,270} x scale {2,3,4,5} x quiet zone {2 (positive obligation), 0 (wrong text only)}; on the 8 shapes of <= 100 codewords (compact 1-4, full 1-4) every fitting main-class text (without latch histories) in the same product; on the others every 12th such text (offset by layer count) at scale 3"
	if !chk.Quick() {
		name = "(a) AztecReader.Decode: 36 shapes x every fitting main-class text of the family (without the 125 latch histories) + fills half/full in 4 variants x rotation {0,90,180,270} x scale {2,3,4,5} x quiet zone {2 (positive obligation), 0 (wrong text only)}"
	}
	chk.Range(name, len(jobs),
		func(i int) string {
			return fmt.Sprint("reader ", sets[jobs[i].si].sh, " ", jobs[i].tx.Name, " scale ", jobs[i].scale)
		},
		func(l *mc.Local, i int) {
			j := jobs[i]
			sh := sets[j.si].sh
			sym := encodeRef(sh, j.tx)
			for _, q := range j.quiets {
				for rot := 0; rot < 4; rot++ {
					checkRead(l, sh, sym, j.tx, rot, j.scale, q, q >= 2)
				}
			}
		})
	chk.Sample("reader", rcase{Sub: "reader", Layers: 12, Text: "fill/half/v0", Rot: 3, Scale: 2, Quiet: 2})
}

// ------------------------------------------------------------------ (c) damage

func applyWords(sym *az.Symbol, mods [][][2]int, pos, val []int) [][]bool {
	m := make([][]bool, len(sym.Matrix))
	for i := range m {
		m[i] = append([]bool{}, sym.Matrix[i]...)
	}
	for k, p := range pos {
		for b, rc := range mods[p] {
			m[rc[0]][rc[1]] = (val[k]>>uint(sym.WordSize-1-b))&1 == 1
		}
	}
	return m
}

var replNames = []string{"xor-1", "xor-ones", "fixed-1010"}

// replace returns the damaged value of codeword v under replacement rule r (never v itself).
func replace(v, r, ws int) int {
	ones := 1<<uint(ws) - 1
	switch r {
	case 0:
		return v ^ 1
	case 1:
		return v ^ ones
	}
	f := 0
	for b := 0; b < ws; b++ {
		f = f<<1 | (b+1)&1
	}
	if f == v {
		f ^= ones
	}
	return f
}

type posFamily struct {
	name string
	pos  []int
}

// families returns the position families of e damaged codewords among n (k data words).
func families(n, k, e int, all bool) []posFamily {
	if e < 1 || e > n {
		return nil
	}
	seq := func(start, step int) []int {
		p := make([]int, e)
		for i := range p {
			p[i] = start + i*step
		}
		return p
	}
	out := []posFamily{{"first", seq(0, 1)}, {"last", seq(n-e, 1)}}
	sp := make([]int, e)
	for i := range sp {
		sp[i] = i * n / e
	}
	out = append(out, posFamily{"spread", sp})
	if all {
		if k >= e {
			out = append(out, posFamily{"data-only", seq(k-e, 1)})
		}
		if n-k >= e {
			out = append(out, posFamily{"check-only", seq(k, 1)})
		}
	}
	return out
}

// checkDamaged decodes a symbol damaged within its capacity directly or through the reader: the
// exact text must come back.
func checkDamaged(l *mc.Local, sh shape, sym *az.Symbol, mods [][][2]int, tx text, c rcase, keyBase, what string) {
	m := applyWords(sym, mods, c.Pos, c.Val)
	var o outcome
	via := ""
	if c.Via == "reader" {
		o = libRead(l, m, c.Scale, c.Quiet, c.Rot)
		via = "reader-"
	} else {
		o = libDecode(l, m, sh, sym.DataWords)
	}
	cls := o.class(tx.Want)
	l.Distinct("outcomes", c.Sub+"/"+via+cls)
	l.Count(c.Sub+"/"+via+cls, 1)
	if cls == "ok" {
		l.Distinct("nontrivial", fmt.Sprint(c.Sub, sh, tx.Name, c.Via, c.Rot, hashStr(fmt.Sprint(c.Pos, c.Val))))
		return
	}
	chk.Violation(keyBase+"/"+via+cls, fmt.Sprintf("%v (%d data + %d check words of %d bits, capacity %d) script %s, %s: %s, expected %q", sh, sym.DataWords, sym.CheckWords, sym.WordSize, sym.CheckWords/2, tx.Name, what, o.describe(), clip(tx.Want, 60)), c)
}

func runDamage() {
	// position families at exactly t errors, and guaranteed-detectable overload
	type job struct {
		si int
		ti int
	}
	var jobs []job
	for si, s := range sets {
		for ti := range s.damage {
			jobs = append(jobs, job{si, ti})
		}
	}
	chk.Range("(c) damage at capacity: 36 shapes x {check count odd near half, minimum (3), minimum+1} x t=floor(check/2) codewords in families {first, last, spread, data-only, check-only} x replacement {xor 1, xor all-ones, fixed 1010..} through decoder.Decode; family spread x xor all-ones also through the reader (scale 3, quiet 2)", len(jobs),
		func(i int) string {
			return fmt.Sprint("damage ", sets[jobs[i].si].sh, sets[jobs[i].si].damage[jobs[i].ti].Name)
		},
		func(l *mc.Local, i int) {
			s := sets[jobs[i].si]
			sh, tx := s.sh, s.damage[jobs[i].ti]
			sym := encodeRef(sh, tx)
			if !checkDecode(l, sh, sym, tx) {
				return
			}
			mods := sym.WordModules()
			n, k, r := sym.TotalWords, sym.DataWords, sym.CheckWords
			t := r / 2
			mk := func(f posFamily, repl int) ([]int, []int) {
				val := make([]int, len(f.pos))
				for j, p := range f.pos {
					val[j] = replace(sym.Words[p], repl, sym.WordSize)
				}
				return f.pos, val
			}
			for _, f := range families(n, k, t, true) {
				for repl := 0; repl < 3; repl++ {
					pos, val := mk(f, repl)
					c := rcase{Sub: "damage", Compact: sh.Compact, Layers: sh.Layers, Text: tx.Name, Pos: pos, Val: val, Via: "decode", Family: f.name}
					what := fmt.Sprintf("%d codewords (family %s) replaced by %s", t, f.name, replNames[repl])
					checkDamaged(l, sh, sym, mods, tx, c, "C11/damage/t-errors/"+f.name, what)
					if f.name == "spread" && repl == 1 {
						rots := []int{sh.Layers % 4}
						if !chk.Quick() {
							rots = []int{0, 1, 2, 3}
						}
						for _, rot := range rots {
							if !checkRead(l, sh, sym, tx, rot, 3, 2, true) {
								continue // the undamaged image is not read: reported as a reader failure
							}
							c.Via, c.Rot, c.Scale, c.Quiet = "reader", rot, 3, 2
							checkDamaged(l, sh, sym, mods, tx, c, "C11/damage/t-errors/"+f.name, what+fmt.Sprintf(", read at scale 3 rotated %d deg", rot*90))
						}
					}
				}
			}
			// Observation only (no oracle): one codeword more than the capacity. The property promises
			// nothing here, and the library's Reed-Solomon decoder tries ceil(r/2) errors when r is odd,
			// so a different codeword at the same distance can be returned. Counted, never reported.
			for _, f := range families(n, k, t+1, false) {
				pos, val := mk(f, 1)
				o := libDecode(l, applyWords(sym, mods, pos, val), sh, k)
				l.Count("evaluations", -1)
				l.Count(fmt.Sprintf("observed-only/t+1 errors/check words odd=%v/%s", r%2 == 1, strings.SplitN(o.class(tx.Want), "/", 2)[0]), 1)
			}
		})
	chk.Sample("damage", rcase{Sub: "damage", Layers: 9, Text: "dmg/full", Pos: []int{0}, Val: []int{1}, Via: "decode", Family: "first"})

	// every single codeword position
	type sjob struct {
		si     int
		lo, hi int
	}
	var sjobs []sjob
	for si, s := range sets {
		if chk.Quick() && s.sh.Layers > 4 {
			continue
		}
		n := s.sh.totalWords()
		for lo := 0; lo < n; lo += 64 {
			hi := lo + 64
			if hi > n {
				hi = n
			}
			sjobs = append(sjobs, sjob{si, lo, hi})
		}
	}
	name := "(c) single damaged codeword: compact 1-4 and full 1-4, exactly-full symbol (minimum check words), EVERY codeword position x replacement {xor 1, xor all-ones} through decoder.Decode"
	if !chk.Quick() {
		name = "(c) single damaged codeword: all 36 shapes, exactly-full symbol (minimum check words), EVERY codeword position x replacement {xor 1, xor all-ones} through decoder.Decode"
	}
	chk.Range(name, len(sjobs),
		func(i int) string { return fmt.Sprint("single ", sets[sjobs[i].si].sh, sjobs[i].lo) },
		func(l *mc.Local, i int) {
			j := sjobs[i]
			s := sets[j.si]
			sh := s.sh
			var tx text
			for _, d := range s.damage {
				if d.Name == "dmg/full" {
					tx = d
				}
			}
			sym := encodeRef(sh, tx)
			if !checkDecode(l, sh, sym, tx) {
				return // the undamaged symbol fails: reported there
			}
			mods := sym.WordModules()
			for p := j.lo; p < j.hi; p++ {
				for repl := 0; repl < 2; repl++ {
					c := rcase{Sub: "damage", Compact: sh.Compact, Layers: sh.Layers, Text: tx.Name, Pos: []int{p}, Val: []int{replace(sym.Words[p], repl, sym.WordSize)}, Via: "decode", Family: "single"}
					checkDamaged(l, sh, sym, mods, tx, c, "C11/damage/single/"+sh.cause(), fmt.Sprintf("codeword %d replaced by %s", p, replNames[repl]))
				}
			}
		})
}

// ------------------------------------------------------------------ (d) mode message

func runModeMessage() {
	type job struct {
		sh  shape
		nib []int // index, xor, index, xor ...
	}
	var jobs []job
	for _, sh := range []shape{{true, 2}, {false, 5}} {
		nn := 10
		if sh.Compact {
			nn = 7
		}
		for a := 0; a < nn; a++ {
			for x := 1; x < 16; x++ {
				jobs = append(jobs, job{sh, []int{a, x}})
			}
		}
		menuA, menuB := []int{1, 15, 10}, []int{8, 15, 6}
		for a := 0; a < nn; a++ {
			for b := a + 1; b < nn; b++ {
				for _, x := range menuA {
					for _, y := range menuB {
						jobs = append(jobs, job{sh, []int{a, x, b, y}})
					}
				}
			}
		}
		if !sh.Compact { // six check nibbles: three errors are within the capacity
			for a := 0; a < nn; a++ {
				for b := a + 1; b < nn; b++ {
					for c := b + 1; c < nn; c++ {
						for v := 0; v < 3; v++ {
							jobs = append(jobs, job{sh, []int{a, menuA[v], b, menuB[(v+1)%3], c, 1 + (a+b+c+v*4)%15}})
						}
					}
				}
			}
		}
	}
	scales := []int{3}
	if !chk.Quick() {
		scales = []int{2, 3, 4, 5}
	}
	// baseline: the uncorrupted symbols must read (otherwise the failure is not about the mode message)
	base := map[string]bool{}
	bl := chk.NewLocal()
	for _, sh := range []shape{{true, 2}, {false, 5}} {
		tx := fillText(sh, sh.totalWords()/2, 0, "fill/half/v0")
		for _, scale := range scales {
			for rot := 0; rot < 4; rot++ {
				base[fmt.Sprint(sh, scale, rot)] = checkRead(bl, sh, encodeRef(sh, tx), tx, rot, scale, 2, true)
			}
		}
	}
	bl.Merge()
	chk.Range(fmt.Sprintf("(d) mode message: compact-L2 and full-L5, every nibble x all 15 xor values; every nibble pair x 3x3 xor menu; full: every nibble triple x 3 value vectors; read through AztecReader at scales %v, quiet 2, 4 rotations", scales), len(jobs),
		func(i int) string { return fmt.Sprint("modemsg ", jobs[i].sh, jobs[i].nib) },
		func(l *mc.Local, i int) {
			j := jobs[i]
			tx := fillText(j.sh, j.sh.totalWords()/2, 0, "fill/half/v0")
			for _, scale := range scales {
				for rot := 0; rot < 4; rot++ {
					if !base[fmt.Sprint(j.sh, scale, rot)] {
						continue
					}
					checkModeMsg(l, j.sh, tx, rcase{Sub: "modemsg", Compact: j.sh.Compact, Layers: j.sh.Layers, Text: tx.Name, Nib: j.nib, Rot: rot, Scale: scale, Quiet: 2})
				}
			}
		})
	chk.Sample("modemsg", rcase{Sub: "modemsg", Layers: 5, Text: "fill/half/v0", Nib: []int{0, 15, 9, 6}, Rot: 1, Scale: 3, Quiet: 2})
}

func checkModeMsg(l *mc.Local, sh shape, tx text, c rcase) {
	sym := encodeRef(sh, tx)
	m := make([][]bool, len(sym.Matrix))
	for i := range m {
		m[i] = append([]bool{}, sym.Matrix[i]...)
	}
	mm := az.ModeMessage(sh.Compact, sh.Layers, sym.DataWords)
	mods := az.ModeModules(sh.Compact, sh.Layers)
	for i := 0; i+1 < len(c.Nib); i += 2 {
		for b := 0; b < 4; b++ {
			if c.Nib[i+1]>>uint(3-b)&1 == 1 {
				p := mods[4*c.Nib[i]+b]
				m[p[0]][p[1]] = !mm[4*c.Nib[i]+b]
			}
		}
	}
	o := libRead(l, m, c.Scale, c.Quiet, c.Rot)
	cls := o.class(tx.Want)
	l.Distinct("outcomes", "modemsg/"+cls)
	if cls == "ok" {
		l.Distinct("nontrivial", fmt.Sprint("modemsg", sh, c.Nib, c.Rot, c.Scale))
		return
	}
	chk.Violation(fmt.Sprintf("C11/modemsg/%s/%d-nibbles/%s", sh.kind(), len(c.Nib)/2, cls),
		fmt.Sprintf("%v with mode message nibbles (index,xor) %v corrupted (capacity %d nibbles), scale %d rotated %d deg: %s, expected %q", sh, c.Nib, map[bool]int{true: 2, false: 3}[sh.Compact], c.Scale, c.Rot*90, o.describe(), clip(tx.Want, 60)), c)
}

// ------------------------------------------------------------------ replay

func replay() {
	var c rcase
	if err := mc.LoadReplay(chk.ReplayFile(), &c); err != nil {
		fmt.Println("cannot load replay:", err)
		return
	}
	fmt.Printf("replay %+v\n", c)
	if c.Sub == "sweep" {
		var a sweepCase
		mc.LoadReplay(chk.ReplayFile(), &a)
		l := chk.NewLocal()
		defer l.Merge()
		sweepOne(l, a)
		return
	}
	if c.Sub == "checkwords" {
		l := chk.NewLocal()
		defer l.Merge()
		checkWordsOne(l, c.shape(), c.Family)
		return
	}
	if c.Sub == "asym" {
		var a asymCase
		mc.LoadReplay(chk.ReplayFile(), &a)
		l := chk.NewLocal()
		defer l.Merge()
		asymOne(l, a)
		return
	}
	sh := c.shape()
	tx, ok := findText(sh, c.Text)
	if !ok {
		fmt.Println("unknown text", c.Text)
		return
	}
	l := chk.NewLocal()
	defer l.Merge()
	if c.Sub == "highlevel" {
		fmt.Println("ok:", checkHighLevel(l, sh, tx, c.Pad))
		return
	}
	sym := encodeRef(sh, tx)
	fmt.Printf("symbol %v: %d data + %d check words of %d bits; expected text %q\n", sh, sym.DataWords, sym.CheckWords, sym.WordSize, clip(tx.Want, 200))
	switch c.Sub {
	case "decode":
		fmt.Println("ok:", checkDecode(l, sh, sym, tx))
	case "reader":
		fmt.Println("ok:", checkRead(l, sh, sym, tx, c.Rot, c.Scale, c.Quiet, c.Quiet >= 2))
	case "damage":
		base := "C11/damage/t-errors/" + c.Family
		if c.Family == "single" {
			base = "C11/damage/single/" + sh.cause()
		}
		checkDamaged(l, sh, sym, sym.WordModules(), tx, c, base, fmt.Sprintf("codewords %v replaced by %v", c.Pos, c.Val))
	case "modemsg":
		checkModeMsg(l, sh, tx, c)
	}
}
