package main

// Content sweep of the locating path. Whether the bull's-eye walk of the detector accepts or rejects
// the ring around the bull's eye depends on the mode message and on the data modules next to it -
// that is, on the CONTENT - and on the module size. The other reader families use a few dozen
// texts per shape; here every upper-case text of length 1..3 (and a stride of the length-4 texts)
// is put into the smallest compact symbol that holds it (33 % check words as a minimum) and read
// at 4 pixels per module (thorough: 3, 4 and 5, four rotations).

import (
	"fmt"
	"strings"

	"verif/mc"
	az "verif/ref/aztec"

	"github.com/makiuchi-d/gozxing"
)

type sweepCase struct {
	Sub   string // "sweep"
	Text  string
	Scale int
	Rot   int
}

func sweepOne(l *mc.Local, c sweepCase) {
	sym, err := az.EncodeAuto(az.AutoEncode([]byte(c.Text)), 33)
	if err != nil {
		panic("C11 harness: " + err.Error())
	}
	o := libRead(l, sym.Matrix, c.Scale, 2, c.Rot)
	cls := o.class(c.Text)
	if cls == "ok" && o.format != gozxing.BarcodeFormat_AZTEC {
		cls = "wrong-format"
	}
	l.Distinct("outcomes", fmt.Sprintf("sweep/s%d/%s", c.Scale, cls))
	if cls == "ok" {
		l.Distinct("nontrivial", fmt.Sprint("sweep/", c))
		return
	}
	kind := "compact"
	if !sym.Compact {
		kind = "full"
	}
	// keyed by the instance, so that a listed limitation of the locating heuristic never hides
	// another text
	chk.Violation(strings.ReplaceAll(fmt.Sprintf("C11/sweep/%s/%s-L%d/scale=%d/rot%d/%q", cls, kind, sym.Layers, c.Scale, c.Rot*90, c.Text), " ", "_"),
		fmt.Sprintf("AztecReader.Decode of the %s %d-layer symbol of %q at scale %d, quiet zone 2, rotated %d deg: %s", kind, sym.Layers, c.Text, c.Scale, c.Rot*90, o.describe()), c)
}

func runSweep() {
	const alpha = "ABCDEFGHIJKLMNOPQRSTUVWXYZ "
	var texts []string
	var gen func(cur string, n int)
	gen = func(cur string, n int) {
		if cur != "" {
			texts = append(texts, cur)
		}
		if n == 0 {
			return
		}
		for i := 0; i < len(alpha); i++ {
			gen(cur+alpha[i:i+1], n-1)
		}
	}
	gen("", 3)
	stride := chk.Pick(37, 5)
	for i := 0; i < 27*27*27*27; i += stride {
		t := []byte{alpha[i%27], alpha[i/27%27], alpha[i/729%27], alpha[i/19683%27]}
		texts = append(texts, string(t))
	}
	var cases []sweepCase
	for _, t := range texts {
		if chk.Quick() {
			cases = append(cases, sweepCase{"sweep", t, 4, 0})
			continue
		}
		for _, sc := range []int{3, 4, 5} {
			for rot := 0; rot < 4; rot++ {
				cases = append(cases, sweepCase{"sweep", t, sc, rot})
			}
		}
	}
	const chunk = 128
	chk.Range(fmt.Sprintf("reader, CONTENT sweep: every text of length 1..3 over {A..Z, space} and every %dth text of length 4 (%d texts) in the smallest symbol with >= 33 %% check words, scale 4 upright (thorough: scales 3, 4, 5 x 4 rotations): read exactly", stride, len(texts)), (len(cases)+chunk-1)/chunk,
		func(i int) string { return fmt.Sprintf("%+v", cases[i*chunk]) },
		func(l *mc.Local, i int) {
			for k := i * chunk; k < (i+1)*chunk && k < len(cases); k++ {
				sweepOne(l, cases[k])
			}
		})
	chk.Sample("sweep", sweepCase{"sweep", "JGD ", 4, 0})
}
