package main

// Canvas shapes: "located in a clean image" must not depend on the image being square or on the
// symbol being centred. Every shape (one text each) is rendered at scale 3, rotated by each quarter
// turn, and pasted into wide (up to 5:1), tall (1:5) and large canvases, centred or displaced by up to two
// modules (the detector starts from the image centre, so the obligation is a symbol whose
// bull's-eye covers the image centre; always with the 2-module quiet zone inside the canvas).

import (
	"fmt"
	"image"
	"image/color"

	"verif/mc"
	az "verif/ref/aztec"

	"github.com/makiuchi-d/gozxing"
	gzaztec "github.com/makiuchi-d/gozxing/aztec"
)

type canvasCase struct {
	Compact   bool
	Layers    int
	Text      string
	Rot       int
	CanvasW   int
	CanvasH   int
	Left, Top int
}

func runCanvas() {
	type job struct {
		si  int
		rot int
	}
	var jobs []job
	for si := range sets {
		if chk.Quick() && sets[si].sh.totalWords() > 400 && sets[si].sh.Layers%5 != 0 {
			continue
		}
		for rot := 0; rot < 4; rot++ {
			jobs = append(jobs, job{si, rot})
		}
	}
	chk.Range(fmt.Sprintf("reader on non-square canvases: %d (shape, rotation) pairs at scale 3 x canvases {3:1, 5:1 wide, 1:3, 1:5 tall, 2x larger square} x up to 9 placements (centre +-2 modules)", len(jobs)), len(jobs),
		func(i int) string { return fmt.Sprint(sets[jobs[i].si].sh, " rot ", jobs[i].rot) },
		func(l *mc.Local, i int) {
			j := jobs[i]
			s := sets[j.si]
			tx := s.fills[0]
			sym := encodeRef(s.sh, tx)
			img := az.Render(sym.Matrix, 3, 2, j.rot)
			sw, sh := img.Bounds().Dx(), img.Bounds().Dy()
			for _, cv := range [][2]int{{3 * sw, sh}, {5*sw + 7, sh + 3}, {sw, 3 * sh}, {sw + 5, 5*sh + 1}, {2 * sw, 2 * sh}} {
				cw, ch := cv[0], cv[1]
				// the detector starts from the image centre: the positive obligation is a symbol whose
				// bull's-eye covers the image centre (centred, or off by up to two modules)
				for _, px := range []int{(cw-sw)/2 - 6, (cw - sw) / 2, (cw-sw)/2 + 6} {
					for _, py := range []int{(ch-sh)/2 - 6, (ch - sh) / 2, (ch-sh)/2 + 6} {
						if px < 0 || py < 0 || px+sw > cw || py+sh > ch {
							continue
						}
						canvas := image.NewGray(image.Rect(0, 0, cw, ch))
						for k := range canvas.Pix {
							canvas.Pix[k] = 255
						}
						for y := 0; y < sh; y++ {
							for x := 0; x < sw; x++ {
								canvas.SetGray(px+x, py+y, color.Gray{Y: img.GrayAt(x, y).Y})
							}
						}
						var text string
						var err error
						var format gozxing.BarcodeFormat
						l.Beat("")
						pm, site := mc.Guard(func() {
							bmp, e := gozxing.NewBinaryBitmapFromImage(canvas)
							if e != nil {
								err = e
								return
							}
							res, e := gzaztec.NewAztecReader().Decode(bmp, nil)
							if e != nil {
								err = e
								return
							}
							text, format = res.GetText(), res.GetBarcodeFormat()
						})
						l.Count("evaluations", 1)
						cs := canvasCase{s.sh.Compact, s.sh.Layers, tx.Name, j.rot, cw, ch, px, py}
						aspect := "square"
						if cw > 2*ch {
							aspect = "wide"
						} else if ch > 2*cw {
							aspect = "tall"
						}
						switch {
						case pm != "":
							chk.Violation("C11/canvas/panic/"+site, fmt.Sprintf("%v rot %d on a %dx%d canvas at (%d,%d): panic %s", s.sh, j.rot*90, cw, ch, px, py, pm), cs)
						case err != nil:
							chk.Violation("C11/canvas/"+aspect+"/not-read", fmt.Sprintf("%v (%dx%d px at scale 3, quiet zone 2) rotated %d deg placed at (%d,%d) on a clean %dx%d canvas: %v", s.sh, sw, sh, j.rot*90, px, py, cw, ch, err), cs)
						case text != tx.Want || format != gozxing.BarcodeFormat_AZTEC:
							chk.Violation("C11/canvas/"+aspect+"/wrong-text", fmt.Sprintf("%v rot %d on a %dx%d canvas: read %q", s.sh, j.rot*90, cw, ch, clip(text, 40)), cs)
						default:
							l.Distinct("nontrivial", fmt.Sprint("canvas/", s.sh, j.rot, cw, ch, px, py))
							l.Distinct("outcomes", "canvas/"+aspect+"/ok")
						}
					}
				}
			}
		})
	chk.Sample("canvas", canvasCase{true, 2, "fill/half", 1, 285, 95, 190, 0})
}

// Object histories: ONE AztecReader object and ONE decoder.Decoder object read every ordered triple
// of symbols of five different shapes (all four codeword sizes, compact and full); each text exact.
func runObjectHistories() {
	want := []shape{{true, 1}, {true, 4}, {false, 2}, {false, 9}, {false, 23}}
	var idx []int
	for _, w := range want {
		for si := range sets {
			if sets[si].sh == w {
				idx = append(idx, si)
			}
		}
	}
	n := len(idx)
	chk.Range(fmt.Sprintf("object histories: ONE AztecReader object (images, scale 3, rotating poses) reads every ordered triple of %d symbols of different shapes: every text exact", n), n*n*n,
		func(i int) string { return fmt.Sprint("triple ", i) },
		func(l *mc.Local, i int) {
			seq := []int{idx[i%n], idx[i/n%n], idx[i/n/n%n]}
			rd := gzaztec.NewAztecReader()
			var names []string
			for k, si := range seq {
				s := sets[si]
				tx := s.fills[(k+i)%len(s.fills)]
				sym := encodeRef(s.sh, tx)
				names = append(names, fmt.Sprint(s.sh))
				img := az.Render(sym.Matrix, 3, 2, (k+i)%4)
				var text string
				var err error
				l.Beat("")
				pm, site := mc.Guard(func() {
					bmp, e := gozxing.NewBinaryBitmapFromImage(img)
					if e != nil {
						err = e
						return
					}
					res, e := rd.Decode(bmp, nil)
					if e != nil {
						err = e
						return
					}
					text = res.GetText()
				})
				l.Count("evaluations", 1)
				cs := map[string]interface{}{"shapes": names, "call": k + 1}
				switch {
				case pm != "":
					chk.Violation("C11/object-history/panic/"+site, fmt.Sprintf("one AztecReader object, shapes %v: panic %s", names, pm), cs)
					return
				case err != nil || text != tx.Want:
					// is it the history? a fresh reader decides
					o := libRead(l, sym.Matrix, 3, 2, (k+i)%4)
					if o.err == nil && o.panicM == "" && o.text == tx.Want {
						chk.Violation("C11/object-history/reader", fmt.Sprintf("one AztecReader object after reading %v: symbol %d gives (%q, %v); a fresh reader reads it", names[:k], k+1, clip(text, 30), err), cs)
					}
					return
				}
			}
			l.Distinct("nontrivial", fmt.Sprint("ohist", seq))
		})
}

// Margins on one pair of sides only. Aztec needs no quiet zone, and white space next to a symbol
// cannot make a clean image less clean: if a symbol is read when it fills a square image completely
// (quiet zone 0) and when the same image has m white modules on all four sides, it must also be
// read with the m modules only above and below it (a tall image), and only left and right of it
// (a wide image) - the symbol stays centred in all four. The expectation comes from the library's
// own two square readings (a differential oracle); a text other than the encoded one is a
// violation in any case.
type asymCase struct {
	Sub     string // "asym"
	Compact bool
	Layers  int
	Text    string
	Rot     int
	Scale   int
	M       int
}

func readGray(l *mc.Local, img *image.Gray) (o outcome) {
	l.Beat("")
	o.panicM, o.site = mc.Guard(func() {
		bmp, e := gozxing.NewBinaryBitmapFromImage(img)
		if e != nil {
			o.err = e
			return
		}
		res, e := gzaztec.NewAztecReader().Decode(bmp, nil)
		if e != nil {
			o.err = e
			return
		}
		o.text = res.GetText()
		o.format = res.GetBarcodeFormat()
	})
	l.Count("evaluations", 1)
	return o
}

func padGray(src *image.Gray, lr, tb int) *image.Gray {
	sw, sh := src.Bounds().Dx(), src.Bounds().Dy()
	dst := image.NewGray(image.Rect(0, 0, sw+2*lr, sh+2*tb))
	for k := range dst.Pix {
		dst.Pix[k] = 255
	}
	for y := 0; y < sh; y++ {
		copy(dst.Pix[(y+tb)*dst.Stride+lr:(y+tb)*dst.Stride+lr+sw], src.Pix[y*src.Stride:y*src.Stride+sw])
	}
	return dst
}

func asymOne(l *mc.Local, c asymCase) {
	var s *shapeSet
	for i := range sets {
		if sets[i].sh == (shape{c.Compact, c.Layers}) {
			s = &sets[i]
		}
	}
	if s == nil {
		return
	}
	tx := s.fills[0]
	sym := encodeRef(s.sh, tx)
	bare := az.Render(sym.Matrix, c.Scale, 0, c.Rot)
	px := c.M * c.Scale
	sq0, sqm := readGray(l, bare), readGray(l, padGray(bare, px, px))
	for _, v := range []struct {
		name   string
		lr, tb int
	}{{"tall", 0, px}, {"wide", px, 0}} {
		o := readGray(l, padGray(bare, v.lr, v.tb))
		cls := o.class(tx.Want)
		desc := fmt.Sprintf("%v script %s at scale %d rotated %d deg with %d white modules only %s", s.sh, tx.Name, c.Scale, c.Rot*90, c.M, map[string]string{"tall": "above and below", "wide": "left and right"}[v.name])
		switch {
		case o.panicM != "":
			chk.Violation("C11/canvas/panic/"+o.site, desc+": panic "+o.panicM, c)
		case cls == "wrong-text":
			chk.Violation("C11/canvas/"+v.name+"/wrong-text", desc+": "+o.describe(), c)
		case cls != "ok" && sq0.ok(tx.Want) && sqm.ok(tx.Want):
			chk.Violation("C11/canvas/"+v.name+"/margin-on-one-pair-of-sides", desc+": "+o.describe()+", although the symbol is read both without any margin and with that margin on all four sides", c)
		case cls == "ok":
			l.Distinct("nontrivial", fmt.Sprint("asym/", s.sh, c.Rot, c.Scale, c.M, v.name))
			l.Distinct("outcomes", "asym/"+v.name+"/ok")
		default:
			l.Count(fmt.Sprintf("asym/premise-not-met/scale=%d (a square reading fails as well)", c.Scale), 1)
			l.Distinct("outcomes", "asym/"+v.name+"/premise-not-met")
		}
	}
}

func runAsymMargins() {
	var jobs []asymCase
	scales := []int{2, 3, 4}
	ms := []int{1, 2, 5, 11}
	for si := range sets {
		sh := sets[si].sh
		if chk.Quick() && sh.totalWords() > 400 && sh.Layers%5 != 0 {
			continue
		}
		for rot := 0; rot < 4; rot++ {
			for _, sc := range scales {
				for _, m := range ms {
					if chk.Quick() && !sh.Compact && (rot+sc+m)%2 == 0 {
						continue
					}
					jobs = append(jobs, asymCase{"asym", sh.Compact, sh.Layers, sets[si].fills[0].Name, rot, sc, m})
				}
			}
		}
	}
	chk.Range(fmt.Sprintf("reader, white margin on ONE pair of sides only (tall and wide images, symbol centred): shapes x 4 rotations x scales {2,3,4} x margins {1,2,5,11} modules [%d cases, 4 readings each]: read whenever both square readings (no margin, margin all round) succeed", len(jobs)), len(jobs),
		func(i int) string { return fmt.Sprintf("%+v", jobs[i]) },
		func(l *mc.Local, i int) { asymOne(l, jobs[i]) })
	if len(jobs) > 0 {
		chk.Sample("asym", jobs[0])
	}
}
