package main

// Canvas shapes: "located in a clean image" must not depend on the image being square or on the
// symbol being centred. Every shape (one text each) is rendered at scale 3, rotated by each quarter
// turn, and pasted into wide (up to 5:1), tall (1:5) and large canvases, centred or displaced by up to two
// modules (the detector starts from the image centre, so the obligation is a symbol whose
// bull's-eye covers the image centre; always with the 2-module quiet zone inside the canvas).

import (
	"fmt"
	"image"
	"image/color"

	"verif/mc"
	az "verif/ref/aztec"

	"github.com/makiuchi-d/gozxing"
	gzaztec "github.com/makiuchi-d/gozxing/aztec"
)

type canvasCase struct {
	Compact   bool
	Layers    int
	Text      string
	Rot       int
	CanvasW   int
	CanvasH   int
	Left, Top int
}

func runCanvas() {
	type job struct {
		si  int
		rot int
	}
	var jobs []job
	for si := range sets {
		if chk.Quick() && sets[si].sh.totalWords() > 400 && sets[si].sh.Layers%5 != 0 {
			continue
		}
		for rot := 0; rot < 4; rot++ {
			jobs = append(jobs, job{si, rot})
		}
	}
	chk.Range(fmt.Sprintf("reader on non-square canvases: %d (shape, rotation) pairs at scale 3 x canvases {3:1, 5:1 wide, 1:3, 1:5 tall, 2x larger square} x up to 9 placements (centre +-2 modules)", len(jobs)), len(jobs),
		func(i int) string { return fmt.Sprint(sets[jobs[i].si].sh, " rot ", jobs[i].rot) },
		func(l *mc.Local, i int) {
			j := jobs[i]
			s := sets[j.si]
			tx := s.fills[0]
			sym := encodeRef(s.sh, tx)
			img := az.Render(sym.Matrix, 3, 2, j.rot)
			sw, sh := img.Bounds().Dx(), img.Bounds().Dy()
			for _, cv := range [][2]int{{3 * sw, sh}, {5*sw + 7, sh + 3}, {sw, 3 * sh}, {sw + 5, 5*sh + 1}, {2 * sw, 2 * sh}} {
				cw, ch := cv[0], cv[1]
				// the detector starts from the image centre: the positive obligation is a symbol whose
				// bull's-eye covers the image centre (centred, or off by up to two modules)
				for _, px := range []int{(cw-sw)/2 - 6, (cw - sw) / 2, (cw-sw)/2 + 6} {
					for _, py := range []int{(ch-sh)/2 - 6, (ch - sh) / 2, (ch-sh)/2 + 6} {
						if px < 0 || py < 0 || px+sw > cw || py+sh > ch {
							continue
						}
						canvas := image.NewGray(image.Rect(0, 0, cw, ch))
						for k := range canvas.Pix {
							canvas.Pix[k] = 255
						}
						for y := 0; y < sh; y++ {
							for x := 0; x < sw; x++ {
								canvas.SetGray(px+x, py+y, color.Gray{Y: img.GrayAt(x, y).Y})
							}
						}
						var text string
						var err error
						var format gozxing.BarcodeFormat
						l.Beat("")
						pm, site := mc.Guard(func() {
							bmp, e := gozxing.NewBinaryBitmapFromImage(canvas)
							if e != nil {
								err = e
								return
							}
							res, e := gzaztec.NewAztecReader().Decode(bmp, nil)
							if e != nil {
								err = e
								return
							}
							text, format = res.GetText(), res.GetBarcodeFormat()
						})
						l.Count("evaluations", 1)
						cs := canvasCase{s.sh.Compact, s.sh.Layers, tx.Name, j.rot, cw, ch, px, py}
						aspect := "square"
						if cw > 2*ch {
							aspect = "wide"
						} else if ch > 2*cw {
							aspect = "tall"
						}
						switch {
						case pm != "":
							chk.Violation("C11/canvas/panic/"+site, fmt.Sprintf("%v rot %d on a %dx%d canvas at (%d,%d): panic %s", s.sh, j.rot*90, cw, ch, px, py, pm), cs)
						case err != nil:
							chk.Violation("C11/canvas/"+aspect+"/not-read", fmt.Sprintf("%v (%dx%d px at scale 3, quiet zone 2) rotated %d deg placed at (%d,%d) on a clean %dx%d canvas: %v", s.sh, sw, sh, j.rot*90, px, py, cw, ch, err), cs)
						case text != tx.Want || format != gozxing.BarcodeFormat_AZTEC:
							chk.Violation("C11/canvas/"+aspect+"/wrong-text", fmt.Sprintf("%v rot %d on a %dx%d canvas: read %q", s.sh, j.rot*90, cw, ch, clip(text, 40)), cs)
						default:
							l.Distinct("nontrivial", fmt.Sprint("canvas/", s.sh, j.rot, cw, ch, px, py))
							l.Distinct("outcomes", "canvas/"+aspect+"/ok")
						}
					}
				}
			}
		})
	chk.Sample("canvas", canvasCase{true, 2, "fill/half", 1, 285, 95, 190, 0})
}

// Object histories: ONE AztecReader object and ONE decoder.Decoder object read every ordered triple
// of symbols of five different shapes (all four codeword sizes, compact and full); each text exact.
func runObjectHistories() {
	want := []shape{{true, 1}, {true, 4}, {false, 2}, {false, 9}, {false, 23}}
	var idx []int
	for _, w := range want {
		for si := range sets {
			if sets[si].sh == w {
				idx = append(idx, si)
			}
		}
	}
	n := len(idx)
	chk.Range(fmt.Sprintf("object histories: ONE AztecReader object (images, scale 3, rotating poses) reads every ordered triple of %d symbols of different shapes: every text exact", n), n*n*n,
		func(i int) string { return fmt.Sprint("triple ", i) },
		func(l *mc.Local, i int) {
			seq := []int{idx[i%n], idx[i/n%n], idx[i/n/n%n]}
			rd := gzaztec.NewAztecReader()
			var names []string
			for k, si := range seq {
				s := sets[si]
				tx := s.fills[(k+i)%len(s.fills)]
				sym := encodeRef(s.sh, tx)
				names = append(names, fmt.Sprint(s.sh))
				img := az.Render(sym.Matrix, 3, 2, (k+i)%4)
				var text string
				var err error
				l.Beat("")
				pm, site := mc.Guard(func() {
					bmp, e := gozxing.NewBinaryBitmapFromImage(img)
					if e != nil {
						err = e
						return
					}
					res, e := rd.Decode(bmp, nil)
					if e != nil {
						err = e
						return
					}
					text = res.GetText()
				})
				l.Count("evaluations", 1)
				cs := map[string]interface{}{"shapes": names, "call": k + 1}
				switch {
				case pm != "":
					chk.Violation("C11/object-history/panic/"+site, fmt.Sprintf("one AztecReader object, shapes %v: panic %s", names, pm), cs)
					return
				case err != nil || text != tx.Want:
					// is it the history? a fresh reader decides
					o := libRead(l, sym.Matrix, 3, 2, (k+i)%4)
					if o.err == nil && o.panicM == "" && o.text == tx.Want {
						chk.Violation("C11/object-history/reader", fmt.Sprintf("one AztecReader object after reading %v: symbol %d gives (%q, %v); a fresh reader reads it", names[:k], k+1, clip(text, 30), err), cs)
					}
					return
				}
			}
			l.Distinct("nontrivial", fmt.Sprint("ohist", seq))
		})
}
