package main

// Check codewords with SPECIAL VALUES. Bit stuffing keeps the all-zero and the all-one word out of
// the data codewords; nothing keeps them out of the Reed-Solomon check codewords, and with ordinary
// texts a check word takes such a value once in 2^(b-1) words. Here the last r data codewords are
// solved in the reference field so that the r check codewords are exactly a chosen pattern: all
// zero, all ones, alternating, and "more than half zero". The symbol is clean and conforming; the
// expected text is what HighLevelDecode (judged against the reference in its own sub-space) gives
// for the unstuffed data bits.

import (
	"fmt"

	"verif/mc"
	az "verif/ref/aztec"
	"verif/ref/gf"
)

var checkWordTargets = []string{"all-zero", "all-ones", "alternating", "half-zero", "half-ones"}

func aztecField(w int) gf.Field {
	switch w {
	case 6:
		return gf.Field{Poly: 0x43, Size: 64}
	case 8:
		return gf.Field{Poly: 0x12D, Size: 256}
	case 10:
		return gf.Field{Poly: 0x409, Size: 1024}
	}
	return gf.Field{Poly: 0x1069, Size: 4096}
}

func checkWordsOne(l *mc.Local, sh shape, target string) {
	w := sh.wordSize()
	total := sh.totalWords()
	F := aztecField(w)
	max := F.Size - 1
	r := total*23/100 + 3
	if r > 24 {
		r = 24 // the linear system is solved in the naive reference field
	}
	if total-r < r+2 {
		r = (total - 2) / 2
	}
	if r < 3 {
		return
	}
	k := total - r
	if (sh.Compact && k > 64) || k > 2048 {
		k = 64
		if !sh.Compact {
			k = 2048
		}
		r = total - k // more check words than planned: still a conforming symbol
		if r > 40 {
			return
		}
	}
	tg := make([]int, r)
	for i := range tg {
		switch target {
		case "all-ones":
			tg[i] = max
		case "alternating":
			tg[i] = max * (i % 2)
		case "half-zero":
			if i > r/2 {
				tg[i] = 1 + (i*7+3)%(max-1)
			}
		case "half-ones":
			tg[i] = max
			if i > r/2 {
				tg[i] = 1 + (i*5+1)%(max-1)
			}
		}
	}
	rc := rcase{Sub: "checkwords", Compact: sh.Compact, Layers: sh.Layers, Family: target}
	for variant := 0; variant < 60; variant++ {
		// prefix: the first k-r stuffed words of an upper-case text (a prefix of a stuffed stream is one)
		txt := make([]byte, (k-r)*w/5+8)
		for i := range txt {
			txt[i] = 'A' + byte((i*7+variant*3+i/5)%26)
		}
		pw := az.Stuff(az.AutoEncode(txt), w)
		if len(pw) < k-r {
			panic("harness: prefix too short")
		}
		prefix := pw[:k-r]
		tail := F.TailForParity(prefix, r, 1, tg)
		bad := false
		for _, v := range tail {
			if v == 0 || v == max {
				bad = true
			}
		}
		if bad {
			l.Count("check-word variants skipped: the solved data words contain an all-zero or all-one word", 1)
			continue
		}
		data := append(append([]int{}, prefix...), tail...)
		sym, err := az.Encode(data, sh.Compact, sh.Layers)
		if err != nil {
			panic("harness: " + err.Error())
		}
		for i := 0; i < r; i++ {
			if sym.Words[k+i] != tg[i] {
				panic(fmt.Sprintf("harness: check word %d is %d, wanted %d", i, sym.Words[k+i], tg[i]))
			}
		}
		bits, err := az.Unstuff(data, w)
		if err != nil {
			panic("harness: " + err.Error())
		}
		hl := libHighLevel(l, bits)
		if hl.panicM != "" || hl.err != nil {
			l.Count("check-word variants skipped: the solved data words are no valid high-level stream", 1)
			continue
		}
		o := libDecode(l, sym.Matrix, sh, k)
		if o.panicM != "" {
			chk.Violation("C11/panic/"+o.site, fmt.Sprintf("decoder.Decode of a clean %v whose %d check words are %s: panic %s", sh, r, target, o.panicM), rc)
			return
		}
		if o.err != nil || o.text != hl.text {
			chk.Violation("C11/decode/check-words-"+target+"/"+sh.kind(), fmt.Sprintf("clean, conforming %v (%d data + %d check words of %d bits) whose check words are %s (%v): %s, expected %q", sh, k, r, w, target, tg, o.describe(), clip(hl.text, 60)), rc)
			return
		}
		l.Distinct("nontrivial", fmt.Sprint("checkwords/", sh, "/", target))
		l.Distinct("outcomes", "checkwords/ok")
		return
	}
	l.Count("check-word cases without an admissible variant among 60", 1)
}

func runCheckWordValues() {
	type job struct {
		sh shape
		tg string
	}
	var jobs []job
	for _, sh := range allShapes() {
		if chk.Quick() && !sh.Compact && sh.Layers > 12 && sh.Layers != 22 && sh.Layers != 23 {
			continue
		}
		for _, tg := range checkWordTargets {
			jobs = append(jobs, job{sh, tg})
		}
	}
	chk.Range("check codewords with special values: shapes (quick: compact 1-4, full 1-12, 22, 23; thorough: all 36) x check-word pattern {all zero, all ones, alternating, first half zero, first half ones} obtained by solving the last data words; clean symbol through decoder.Decode, expected = HighLevelDecode of the data bits", len(jobs),
		func(i int) string { return fmt.Sprint(jobs[i].sh, " ", jobs[i].tg) },
		func(l *mc.Local, i int) { checkWordsOne(l, jobs[i].sh, jobs[i].tg) })
}
