package main

// The scripted text family. Every member is produced with the reference's explicit-control
// Script (the caller decides every latch and shift), so each table, each edge of the mode
// graph, each shift and both binary-shift length forms are driven deliberately.

import (
	"fmt"

	az "verif/ref/aztec"
)

// text is one member of the family: the high-level bit stream and the text a conforming
// decoder must return.
type text struct {
	Name  string
	Class string // "main": the positive obligation; "latin1": binary bytes >= 0x80; "usbs": U/S B/S construction
	Fam   string // cause family used in violation keys
	Bits  []bool
	Want  string
}

func must(err error) {
	if err != nil {
		panic("C11 harness: script error: " + err.Error())
	}
}

var tabs = []az.Table{az.Upper, az.Lower, az.Mixed, az.Punct, az.Digit}

// run2: two characters per table, lowest and highest single-character code that is not the
// shared space, so that decoding in a wrong table or with a shifted index is visible.
var run2 = map[az.Table]string{az.Upper: "AZ", az.Lower: "az", az.Mixed: "\x01\x7f", az.Punct: "!}", az.Digit: "09"}

func tableChars(t az.Table) []byte {
	var out []byte
	for code := 0; code < 32; code++ {
		if c, ok := az.CharOf(t, code); ok {
			out = append(out, c)
		}
	}
	return out
}

// lowBytes / highBytes: deterministic byte runs below / at or above 0x80.
func lowBytes(n int) []byte {
	b := make([]byte, n)
	for i := range b {
		b[i] = byte((i*37 + 11) % 128)
	}
	return b
}

func highBytes(n int) []byte {
	b := lowBytes(n)
	for i := range b {
		b[i] |= 0x80
	}
	return b
}

var driverCache []text

// drivers returns the shape-independent part of the family.
func drivers() []text {
	if driverCache != nil {
		return driverCache
	}
	var out []text
	add := func(name, class, fam string, f func(s *az.Script)) {
		s := az.NewScript()
		f(s)
		out = append(out, text{name, class, fam, s.Bits(), s.Expected()})
	}
	// tiny texts: about one data codeword
	add("tiny/A", "main", "tiny", func(s *az.Script) { must(s.Char('A')) })
	add("tiny/digit", "main", "tiny", func(s *az.Script) { must(s.Latch(az.Digit)); must(s.Char('7')) })
	add("tiny/bs1", "main", "tiny", func(s *az.Script) { must(s.Binary([]byte{0x40})) })

	// every single-character code of every table, in chunks of 12 so that they fit the smallest symbol
	for _, t := range tabs {
		t := t
		cs := tableChars(t)
		for lo, k := 0, 0; lo < len(cs); lo, k = lo+12, k+1 {
			hi := lo + 12
			if hi > len(cs) {
				hi = len(cs)
			}
			part := string(cs[lo:hi])
			add(fmt.Sprintf("table/%v/%d", t, k), "main", "table-"+t.String(), func(s *az.Script) {
				must(s.Latch(t))
				must(s.Text(part))
			})
		}
	}
	// all 5x5 ordered table pairs as latch edges, runs of two characters
	for _, a := range tabs {
		for _, b := range tabs {
			a, b := a, b
			add(fmt.Sprintf("latch/%v-%v", a, b), "main", "latch", func(s *az.Script) {
				must(s.Latch(a))
				must(s.Text(run2[a]))
				must(s.Latch(b))
				must(s.Text(run2[b]))
			})
		}
	}
	// all 5x5x5 latch histories of length two, one character per stop
	for _, a := range tabs {
		for _, b := range tabs {
			for _, c := range tabs {
				a, b, c := a, b, c
				add(fmt.Sprintf("latch3/%v-%v-%v", a, b, c), "main", "latch", func(s *az.Script) {
					must(s.Latch(a))
					must(s.Text(run2[a][:1]))
					must(s.Latch(b))
					must(s.Text(run2[b][1:]))
					must(s.Latch(c))
					must(s.Text(run2[c][:1]))
				})
			}
		}
	}
	// punctuation shift from the four tables that have one
	for _, t := range []az.Table{az.Upper, az.Lower, az.Mixed, az.Digit} {
		t := t
		c1, c2 := run2[t][0], run2[t][1]
		fam := "ps-" + t.String()
		add(fmt.Sprintf("ps/%v/char", t), "main", fam, func(s *az.Script) {
			must(s.Latch(t))
			must(s.Char(c1))
			must(s.ShiftPunct('!'))
			must(s.Char(c2))
			must(s.ShiftPunct('}'))
			must(s.Char(c1))
			must(s.ShiftPunct('\r'))
			must(s.Char(c2))
		})
		add(fmt.Sprintf("ps/%v/twice", t), "main", fam, func(s *az.Script) {
			must(s.Latch(t))
			must(s.Char(c1))
			must(s.ShiftPunct('?'))
			must(s.ShiftPunct('['))
			must(s.Char(c2))
		})
		for _, pair := range []int{az.PairCRLF, az.PairDotSpace, az.PairCommaSpace, az.PairColonSpace} {
			pair := pair
			add(fmt.Sprintf("ps/%v/pair%d", t, pair), "main", "pair-shifted", func(s *az.Script) {
				must(s.Latch(t))
				must(s.Char(c1))
				must(s.ShiftPunctPair(pair))
				must(s.Char(c2))
			})
		}
		add(fmt.Sprintf("ps/%v/flg0", t), "main", "flg0", func(s *az.Script) {
			must(s.Latch(t))
			must(s.Char(c1))
			must(s.FLG0())
			must(s.Char(c2))
		})
	}
	add("ps/Upper/first", "main", "ps-Upper", func(s *az.Script) {
		must(s.ShiftPunct('!'))
		must(s.Char('A'))
	})
	// upper shift from Lower and Digit
	for _, t := range []az.Table{az.Lower, az.Digit} {
		t := t
		c1, c2 := run2[t][0], run2[t][1]
		add(fmt.Sprintf("us/%v", t), "main", "us-"+t.String(), func(s *az.Script) {
			must(s.Latch(t))
			must(s.Char(c1))
			must(s.ShiftUpper('A'))
			must(s.Char(c2))
			must(s.ShiftUpper('Z'))
			must(s.Char(c1))
			must(s.ShiftUpper(' '))
			must(s.Char(c2))
		})
		add(fmt.Sprintf("us/%v/then-ps", t), "main", "us-"+t.String(), func(s *az.Script) {
			must(s.Latch(t))
			must(s.Char(c1))
			must(s.ShiftUpper('Q'))
			must(s.ShiftPunct(','))
			must(s.Char(c2))
		})
	}
	// binary shift from Upper, Lower, Mixed; short form (1..31) and long form (32..2078)
	for _, t := range []az.Table{az.Upper, az.Lower, az.Mixed} {
		t := t
		c1, c2 := run2[t][0], run2[t][1]
		for _, n := range []int{1, 2, 30, 31, 32, 33, 63, 64, 300, 2078} {
			n := n
			fam := "bs-short"
			if n > 31 {
				fam = "bs-long"
			}
			add(fmt.Sprintf("bs/%v/n%d", t, n), "main", fam, func(s *az.Script) {
				must(s.Latch(t))
				must(s.Char(c1))
				must(s.Binary(lowBytes(n)))
				must(s.Char(c2))
			})
		}
		for _, n := range []int{1, 31, 32} {
			n := n
			fam := "bs-short"
			if n > 31 {
				fam = "bs-long"
			}
			add(fmt.Sprintf("bs/%v/last/n%d", t, n), "main", fam, func(s *az.Script) {
				must(s.Latch(t))
				must(s.Char(c1))
				must(s.Binary(lowBytes(n)))
			})
		}
		add(fmt.Sprintf("bs/%v/all7bit", t), "main", "bs-long", func(s *az.Script) {
			must(s.Latch(t))
			b := make([]byte, 128)
			for i := range b {
				b[i] = byte(i)
			}
			must(s.Binary(b))
			must(s.Char(c2))
		})
		add(fmt.Sprintf("bs/%v/double", t), "main", "bs-short", func(s *az.Script) {
			must(s.Latch(t))
			must(s.Char(c1))
			must(s.Binary([]byte("b:3")))
			must(s.Binary([]byte("2b")))
			must(s.Char(c2))
		})
		add(fmt.Sprintf("bs/%v/then-ps", t), "main", "bs-short", func(s *az.Script) {
			must(s.Latch(t))
			must(s.Char(c1))
			must(s.Binary([]byte("xy")))
			must(s.ShiftPunct('!'))
			must(s.Char(c2))
		})
		// bytes >= 0x80: separately classified (charset representation)
		for _, n := range []int{1, 31, 32} {
			n := n
			add(fmt.Sprintf("bs8/%v/n%d", t, n), "latin1", "latin1", func(s *az.Script) {
				must(s.Latch(t))
				must(s.Char(c1))
				must(s.Binary(highBytes(n)))
				must(s.Char(c2))
			})
		}
	}
	add("bs8/Upper/all", "latin1", "latin1", func(s *az.Script) {
		b := make([]byte, 128)
		for i := range b {
			b[i] = byte(0x80 + i)
		}
		must(s.Binary(b))
		must(s.Char('A'))
	})
	// binary bytes >= 0x80 that happen to be WELL-FORMED UTF-8: without an ECI they are still
	// ISO-8859-1 (C3 A9 reads as two characters, not as e-acute); every lead-byte class, the shortest
	// and the longest continuation, alone and inside text, and next to a stray high byte
	for i, b := range [][]byte{
		{0xC3, 0xA9}, {'n', 0xC2, 0xB0, '1'}, {0xE2, 0x82, 0xAC, '5'}, {0xF0, 0x9F, 0x98, 0x80}, {'c', 'a', 'f', 0xC3, 0xA9},
		{0xC2, 0x80}, {0xDF, 0xBF}, {0xE0, 0xA0, 0x80}, {0xEF, 0xBF, 0xBD}, {0xEF, 0xBB, 0xBF, 'x'}, {0xF4, 0x8F, 0xBF, 0xBF},
		{0xC3, 0xA9, 0xC3, 0xA9, 0xC3, 0xA9}, {0xC3, 0xA9, 0xE9}, {0xE9, 0xC3, 0xA9}, {0xD0, 0x9F, 0xD1, 0x80, 0xD0, 0xB8},
	} {
		b := b
		add(fmt.Sprintf("bs8/utf8-shaped/%d", i), "latin1", "latin1", func(s *az.Script) {
			must(s.Char('A'))
			must(s.Binary(b))
			must(s.Char('Z'))
		})
		add(fmt.Sprintf("bs8/utf8-shaped/only/%d", i), "latin1", "latin1", func(s *az.Script) {
			must(s.Binary(b))
		})
	}
	// "U/S B/S" from Lower and Digit (what ZXing-family encoders emit to reach binary from Digit)
	for _, t := range []az.Table{az.Lower, az.Digit} {
		t := t
		for _, n := range []int{1, 5, 32} {
			n := n
			add(fmt.Sprintf("usbs/%v/n%d", t, n), "usbs", "us-bs", func(s *az.Script) {
				must(s.Latch(t))
				must(s.Char(run2[t][0]))
				must(s.ShiftUpperBinary(lowBytes(n)))
				must(s.Text("IT"))
			})
		}
	}
	// two-character punctuation codes and FLG(0), latched
	add("pp/latched", "main", "pair-latched", func(s *az.Script) {
		must(s.Latch(az.Punct))
		must(s.Char('!'))
		must(s.PunctPair(az.PairCRLF))
		must(s.PunctPair(az.PairDotSpace))
		must(s.PunctPair(az.PairCommaSpace))
		must(s.PunctPair(az.PairColonSpace))
		must(s.Char('}'))
	})
	// runs of two-character codes and nothing else: the densest text there is (two characters per
	// five bits), in every length 1..12 and a few long ones, from the start and after other text
	for _, n := range []int{1, 2, 3, 4, 5, 6, 7, 8, 9, 10, 11, 12, 20, 40, 100} {
		n := n
		for v := 0; v < 3; v++ {
			v := v
			add(fmt.Sprintf("pp/run%d/v%d", n, v), "main", "pair-run", func(s *az.Script) {
				if v == 1 {
					must(s.Text("OK"))
				}
				must(s.Latch(az.Punct))
				for i := 0; i < n; i++ {
					must(s.PunctPair([]int{az.PairCRLF, az.PairDotSpace, az.PairCommaSpace, az.PairColonSpace}[(i*(1+v))%4]))
				}
				if v == 2 {
					must(s.Latch(az.Upper))
					must(s.Char('Z'))
				}
			})
		}
	}
	add("flg0/latched", "main", "flg0", func(s *az.Script) {
		must(s.Latch(az.Punct))
		must(s.Char('!'))
		must(s.FLG0())
		must(s.Char('}'))
		must(s.Latch(az.Upper))
		must(s.Char('A'))
	})
	driverCache = out
	return out
}

// mixOps is a cycle of operations that walks all 20 latch edges and uses every shift, both
// binary length forms, the punctuation pairs and FLG(0); every op starts with a Latch so that
// it is valid after any other op. Used to fill symbols to a target number of codewords.
var mixOps = []func(s *az.Script){
	func(s *az.Script) { must(s.Latch(az.Upper)); must(s.Text("AZ MIX")) },
	func(s *az.Script) { must(s.Latch(az.Lower)); must(s.Text("az low")) },
	func(s *az.Script) { must(s.Latch(az.Lower)); must(s.Char('x')); must(s.ShiftUpper('Q')) },
	func(s *az.Script) { must(s.Latch(az.Lower)); must(s.ShiftPunct('!')) },
	func(s *az.Script) { must(s.Latch(az.Mixed)); must(s.Text("\x01@\x7f\x1b\\^_`|~\r\x1f")) },
	func(s *az.Script) { must(s.Latch(az.Mixed)); must(s.ShiftPunctPair(az.PairCRLF)) },
	func(s *az.Script) { must(s.Latch(az.Punct)); must(s.Text("{}")); must(s.PunctPair(az.PairDotSpace)) },
	func(s *az.Script) { must(s.Latch(az.Digit)); must(s.Text("09,. ")) },
	func(s *az.Script) { must(s.Latch(az.Digit)); must(s.ShiftUpper('M')) },
	func(s *az.Script) {
		must(s.Latch(az.Digit))
		must(s.ShiftPunct('?'))
		must(s.ShiftPunctPair(az.PairCommaSpace))
	},
	func(s *az.Script) { must(s.Latch(az.Lower)); must(s.Char('q')) },
	func(s *az.Script) { must(s.Latch(az.Upper)); must(s.Binary([]byte("\x00\x7f~"))); must(s.Text("B ")) },
	func(s *az.Script) { must(s.Latch(az.Upper)); must(s.ShiftPunct(':')) },
	func(s *az.Script) { must(s.Latch(az.Mixed)); must(s.Binary([]byte("bin[mixed]"))); must(s.Char(' ')) },
	func(s *az.Script) { must(s.Latch(az.Digit)); must(s.Char('7')) },
	func(s *az.Script) { must(s.Latch(az.Punct)); must(s.Char(']')); must(s.PunctPair(az.PairColonSpace)) },
	func(s *az.Script) {
		must(s.Latch(az.Lower))
		must(s.Binary([]byte("0123456789abcdefghijklmnopqrstuvwxyz")))
		must(s.Char('z'))
	},
	func(s *az.Script) { must(s.Latch(az.Digit)); must(s.Char('1')) },
	func(s *az.Script) { must(s.Latch(az.Mixed)); must(s.Char(2)) },
	func(s *az.Script) { must(s.Latch(az.Lower)); must(s.Char('m')) },
	func(s *az.Script) {
		must(s.Latch(az.Punct))
		must(s.Text("\r("))
		must(s.PunctPair(az.PairCRLF))
		must(s.PunctPair(az.PairCommaSpace))
	},
	func(s *az.Script) { must(s.Latch(az.Mixed)); must(s.Char('~')) },
	func(s *az.Script) { must(s.Latch(az.Upper)); must(s.Char('K')) },
	func(s *az.Script) { must(s.Latch(az.Digit)); must(s.Char('5')) },
	func(s *az.Script) { must(s.Latch(az.Upper)); must(s.Char('W')) },
	func(s *az.Script) { must(s.Latch(az.Punct)); must(s.Char(')')); must(s.FLG0()) },
	func(s *az.Script) { must(s.Latch(az.Upper)); must(s.Char('Y')) },
}

func buildMix(nOps, variant int) *az.Script {
	s := az.NewScript()
	for i := 0; i < nOps; i++ {
		mixOps[(i+variant*5)%len(mixOps)](s)
	}
	return s
}

// fillText returns the longest mix text (whole ops, then single characters of the table in
// force) whose stuffed bit stream occupies at most target codewords of the shape.
func fillText(sh shape, target, variant int, name string) text {
	w := sh.wordSize()
	fits := func(bits []bool) bool { return len(az.Stuff(bits, w)) <= target }
	lo, hi := 0, 1
	for fits(buildMix(hi, variant).Bits()) {
		lo, hi = hi, hi*2
	}
	for lo+1 < hi {
		mid := (lo + hi) / 2
		if fits(buildMix(mid, variant).Bits()) {
			lo = mid
		} else {
			hi = mid
		}
	}
	s := buildMix(lo, variant)
	for j := 0; ; j++ {
		cs := tableChars(s.Cur())
		c := cs[(j*5+1)%len(cs)]
		code, _ := az.CodeOf(s.Cur(), c)
		cand := s.Bits()
		for b := s.Cur().Width() - 1; b >= 0; b-- {
			cand = append(cand, (code>>uint(b))&1 == 1)
		}
		if !fits(cand) {
			break
		}
		must(s.Char(c))
	}
	return text{name, "main", "fill", s.Bits(), s.Expected()}
}

// fills returns the shape-dependent texts: half of the capacity and exactly full (the largest
// text that leaves the minimum of three check words), in nv variants that start the op cycle at
// different points.
func fills(sh shape, nv int) []text {
	var out []text
	half := sh.totalWords() / 2
	if half > sh.maxData() {
		half = sh.maxData()
	}
	for v := 0; v < nv; v++ {
		out = append(out, fillText(sh, half, v, fmt.Sprintf("fill/half/v%d", v)))
		out = append(out, fillText(sh, sh.maxData(), v, fmt.Sprintf("fill/full/v%d", v)))
	}
	return out
}

// damageTexts: the symbols that are damaged in sub-space (c): check-word count odd near half of
// the capacity (so that t+1 errors are guaranteed detectable), the minimum number of check words,
// and one more than the minimum (even count).
func damageTexts(sh shape) []text {
	var out []text
	n := sh.totalWords()
	half := n / 2
	if half > sh.maxData() {
		half = sh.maxData()
	}
	for d := 0; d < 3 && half-d >= 1; d++ {
		tx := fillText(sh, half-d, 1, "dmg/half-odd")
		if (n-len(az.Stuff(tx.Bits, sh.wordSize())))%2 == 1 {
			out = append(out, tx)
			break
		}
	}
	out = append(out, fillText(sh, sh.maxData(), 2, "dmg/full"))
	if sh.maxData() > 1 {
		out = append(out, fillText(sh, sh.maxData()-1, 3, "dmg/full-1"))
	}
	return out
}

// fitting returns the members of ts whose stuffed bits leave at least three check words in sh.
func fitting(sh shape, ts []text) []text {
	var out []text
	for _, t := range ts {
		if len(az.Stuff(t.Bits, sh.wordSize())) <= sh.maxData() {
			out = append(out, t)
		}
	}
	return out
}

// findText rebuilds a text by name (replay).
func findText(sh shape, name string) (text, bool) {
	for _, t := range drivers() {
		if t.Name == name {
			return t, true
		}
	}
	for _, t := range append(fills(sh, 4), damageTexts(sh)...) {
		if t.Name == name {
			return t, true
		}
	}
	return text{}, false
}
