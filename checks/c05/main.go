// C05 — damaged QR Code / Data Matrix symbols decode exactly, up to the promised capacity.
//
// Fault enumeration on the real decoders. Pristine symbols are written by the library and
// confirmed module for module by the reference constructors (verif/ref/qr, verif/ref/dm); the
// damage is applied as module flips at addresses taken from the reference (codeword -> modules,
// codeword -> block, format / version bit -> modules), never from the code under test.
// Deviation-bounded sub-spaces: one damaged codeword (every position of every block), t_b
// damaged codewords in every block at once (position families), t_b+1 in one block (must not
// give different text), <=3 flipped bits per copy of the format and of the version information.
package main

import (
	"fmt"
	"sort"
	"strings"
	"sync"

	"verif/mc"
	"verif/ref/dm"
)

var chk *mc.Check

// rcase is the replay record of every sub-space.
type rcase struct {
	Symbol string   // human readable
	Kind   string   // "qr" | "dm"
	V      int      `json:",omitempty"`
	Level  int      `json:",omitempty"` // 0..3 = L M Q H
	Mask   int      `json:",omitempty"`
	Twin   bool     `json:",omitempty"` // QR symbol with near-identical data blocks (twinText)
	Pad    []int    `json:",omitempty"` // QR symbol of padText(v, level, Pad[0], Pad[1])
	DM     int      `json:",omitempty"` // index into the 30 sizes (ascending capacity)
	DMVal  int      `json:",omitempty"` // Data Matrix value-coverage symbol: kind of dmValueText
	QRVal  bool     `json:",omitempty"` // QR value-coverage symbol (qrValueText)
	Key    string   // violation key template (%s = optional size class)
	Expect string   // "exact" | "not-different" | "info"
	CW     []int    `json:",omitempty"` // damaged positions of the interleaved codeword sequence
	XOR    []int    `json:",omitempty"` // value XORed into each
	Blocks string   `json:",omitempty"` // the same positions as (block:index) pairs
	Flips  [][2]int `json:",omitempty"` // flipped modules (row, col)
}

var (
	qrSyms  []*symbol         // all usable QR symbols; the first 160 slots are (version, level) order
	qrMain  [41][4]*symbol    // the rotating-mask symbol of every (version, level); nil if unusable
	qrMasks [41][4][8]*symbol // versions 1, 7, 21, 40: one symbol per mask
	dmSyms  []*symbol
)

var maskVersions = []int{1, 7, 21, 40}

func main() {
	chk = mc.New("C05", "fault_enumeration")
	chk.Rule = "pristine symbol (library-built, reference-confirmed) x reference-addressed damage; one case = one (symbol, set of damaged codeword positions with XOR values, set of flipped format/version modules) decoded by the real decoder; non-trivial = distinct case with at least one module actually flipped that the decoder restored to the exact text"
	chk.Assume("capacity per block is t_b = floor(ec_b/2) as the property states (the library's RS decoder is used at full distance, without the misdecode-protection reserve of ISO/IEC 18004 table 9)")
	chk.Assume("damage beyond capacity (t_b+1 codewords in one block): only 'different text' is a violation, and not when the returned data codewords are the unique RS codeword within t_b of the received block (any bounded-distance decoder must return it); such cases are counted as miscorrected-legit")
	chk.Assume("the property promises <=3 flipped bits in EACH copy; the sub-space 'one version-information copy obliterated, the other with <=3 flips' goes beyond the literal statement (it is what the two copies exist for and what BitMatrixParser.ReadVersion documents) and is reported under its own key .../one-copy-destroyed; no such extension is made for the format information, where an obliterated copy can legitimately be nearer to another format word")
	chk.Assume("payloads are printable ASCII in byte mode (QR) / library-chosen encodation (Data Matrix), one payload per symbol, close to the symbol's capacity; which text is carried does not influence the de-interleaving and correction under test")
	if err := validateInfoMaps(); err != nil {
		chk.Violation("C05/harness/info-maps", err.Error(), nil)
		chk.Finish()
	}
	if chk.ReplayFile() != "" {
		replay()
		chk.Finish()
	}
	buildSymbols()
	runUndamaged()
	runSingle()
	runFull()
	runOver()
	runEuclidShapes()
	runCosetErrors()
	runFullCapacityShapes()
	runDMValues()
	runQRValues()
	runTwinBlocks()
	runPadMimic()
	runSelfTest()
	runFormat()
	runVersion()
	runDecoderHistories()
	chk.Finish()
}

// ---------------------------------------------------------------------------------------
// failures are collected per sub-space and reported after it, so that the key can name the
// size class when (and only when) the failure is confined to a few classes

type failure struct {
	sym  *symbol
	ord  int64
	what string
	rc   rcase
}

var (
	failMu sync.Mutex
	fails  = map[string]map[string]*failure{} // key template -> class -> first failure
	failN  = map[string]int{}
)

func fail(key string, s *symbol, ord int64, what string, rc rcase) {
	failMu.Lock()
	defer failMu.Unlock()
	m := fails[key]
	if m == nil {
		m = map[string]*failure{}
		fails[key] = m
	}
	failN[key]++
	full := int64(s.ord)<<40 | ord
	if f, ok := m[s.Class]; !ok || full < f.ord {
		m[s.Class] = &failure{s, full, what, rc}
	}
}

// flush reports what the finished sub-space collected. classesTested = number of size classes
// the sub-space covered for that kind of symbol.
func flush(classesTested map[string]int) {
	failMu.Lock()
	defer failMu.Unlock()
	var keys []string
	for k := range fails {
		keys = append(keys, k)
	}
	sort.Strings(keys)
	for _, k := range keys {
		m := fails[k]
		var classes []string
		for c := range m {
			classes = append(classes, c)
		}
		sort.Slice(classes, func(i, j int) bool { return m[classes[i]].ord < m[classes[j]].ord })
		kind := m[classes[0]].sym.Kind
		if len(classes) <= 3 && len(classes) < classesTested[kind] {
			for _, c := range classes {
				f := m[c]
				key := fmt.Sprintf(k, c+"/")
				f.rc.Key = k
				chk.Violation(key, f.what+fmt.Sprintf(" [only size class(es) %s of %d tested fail here]", strings.Join(classes, ","), classesTested[kind]), f.rc)
			}
		} else {
			f := m[classes[0]]
			key := fmt.Sprintf(k, "")
			f.rc.Key = k
			show := classes
			if len(show) > 12 {
				show = append(append([]string{}, show[:12]...), "...")
			}
			chk.Violation(key, f.what+fmt.Sprintf(" [%d failing cases in %d size classes: %s]", failN[k], len(classes), strings.Join(show, ",")), f.rc)
		}
	}
	fails = map[string]map[string]*failure{}
	failN = map[string]int{}
}

func classCount(syms ...[]*symbol) map[string]int {
	seen := map[string]bool{}
	n := map[string]int{}
	for _, l := range syms {
		for _, s := range l {
			if !seen[s.Kind+s.Class] {
				seen[s.Kind+s.Class] = true
				n[s.Kind]++
			}
		}
	}
	return n
}

// ---------------------------------------------------------------------------------------
// one case

func (s *symbol) rcase(key, expect string, f *fault) rcase {
	rc := rcase{Symbol: s.name(), Kind: s.Kind, V: s.V, Level: s.L, Mask: s.Mask, Twin: s.Twin, Pad: s.pad, DM: s.DMi, DMVal: s.dmValues, QRVal: s.qrValues, Key: key, Expect: expect,
		CW: f.CW, XOR: f.XOR, Flips: f.Flips}
	var sb strings.Builder
	for i, p := range f.CW {
		if i > 0 {
			sb.WriteByte(' ')
		}
		w := s.where[p]
		part := "d"
		if w[1] >= s.dataLen[w[0]] {
			part = "e"
		}
		fmt.Fprintf(&sb, "%d:%s%d^%02x", w[0], part, w[1], f.XOR[i])
	}
	rc.Blocks = sb.String()
	return rc
}

func describe(s *symbol, f *fault) string {
	var sb strings.Builder
	sb.WriteString(s.name())
	if len(f.CW) > 0 {
		fmt.Fprintf(&sb, "; %d damaged codeword(s) (block:index^xor, d=data e=ec)", len(f.CW))
		rc := s.rcase("", "", f)
		b := rc.Blocks
		if len(b) > 160 {
			b = b[:160] + " ..."
		}
		sb.WriteString(" " + b)
	}
	if len(f.Flips) > 0 {
		sb.WriteString("; flipped")
		for _, rc := range f.Flips {
			if a, ok := s.area[rc]; ok {
				if a.kind == 1 {
					fmt.Fprintf(&sb, " format copy %d bit %d", a.cp+1, a.bit)
				} else {
					fmt.Fprintf(&sb, " version %s bit %d", verCopyName[a.cp], a.bit)
				}
			} else {
				fmt.Fprintf(&sb, " module %v", rc)
			}
		}
	}
	return sb.String()
}

var verCopyName = [2]string{"top-right", "bottom-left"}

// try executes one case and judges it. key is the violation key template ("%s" is replaced by
// nothing or by the size class); sub names the sub-space for the outcome statistics.
// expect: "exact" (inside capacity), "not-different" (beyond capacity), "info" (no obligation).
func try(l *mc.Local, s *symbol, f *fault, sub, key, expect string, ord int64) string {
	l.Beat("")
	if expect == "exact" {
		ld := s.load(f)
		if !s.within(ld) && !strings.Contains(key, "one-copy-destroyed") {
			panic("harness: a case beyond capacity was given the obligation 'exact': " + describe(s, f))
		}
	}
	o := s.decode(f)
	l.Count("evaluations", 1)
	res := o.Kind
	switch {
	case o.Kind == "panic":
		fail("C05/panic/"+o.Site+"%.0s", s, ord, "decoder panicked: "+o.Err+"; "+describe(s, f), s.rcase(key, expect, f))
	case expect == "exact" && o.Kind != "exact":
		detail := "decoder error: " + o.Err
		if o.Kind == "different" {
			detail = fmt.Sprintf("decoded DIFFERENT text %q", clip(o.Text))
		}
		fail(key, s, ord, describe(s, f)+": inside the promised capacity, expected the original text; "+detail, s.rcase(key, expect, f))
	case expect == "not-different" && o.Kind == "different":
		if s.legitMiscorrection(f, o.Raw) {
			res = "miscorrected-legit"
		} else {
			fail(key, s, ord, describe(s, f)+fmt.Sprintf(": beyond capacity the decoder returned different text %q although the returned data is not within t of the received block", clip(o.Text)), s.rcase(key, expect, f))
		}
	}
	l.Count(sub+": "+res, 1)
	l.Distinct("outcomes", sub+"/"+res)
	if res == "exact" && (len(f.CW) > 0 || len(f.Flips) > 0) {
		l.Distinct("nontrivial", fmt.Sprint(s.Kind, s.V, s.L, s.Mask, s.DMi, f.CW, f.XOR, f.Flips))
	}
	return res
}

// ---------------------------------------------------------------------------------------
// symbols

func buildSymbols() {
	type job struct {
		kind       string
		v, l, mask int
		di         int
		main       bool
	}
	var jobs []job
	for v := 1; v <= 40; v++ {
		for l := 0; l < 4; l++ {
			jobs = append(jobs, job{"qr", v, l, (v + l) % 8, 0, true})
		}
	}
	for _, v := range maskVersions {
		for l := 0; l < 4; l++ {
			for m := 0; m < 8; m++ {
				if m != (v+l)%8 {
					jobs = append(jobs, job{"qr", v, l, m, 0, false})
				}
			}
		}
	}
	for di := range dm.Symbols {
		jobs = append(jobs, job{kind: "dm", di: di})
	}
	out := make([]*symbol, len(jobs))
	chk.Range("setup: 160 QR (version, level) symbols with rotating mask + all 8 masks on versions 1,7,21,40 + 30 Data Matrix sizes, each built by the library and confirmed module for module by the reference", len(jobs),
		func(i int) string { return fmt.Sprint(jobs[i]) },
		func(l *mc.Local, i int) {
			j := jobs[i]
			var s *symbol
			var p string
			if j.kind == "qr" {
				s, p = buildQR(j.v, j.l, j.mask)
			} else {
				s, p = buildDM(j.di)
			}
			l.Count("evaluations", 1)
			if p != "" {
				chk.Violation("C05/pristine-mismatch/"+s.Kind+"/"+s.Class, s.name()+": "+p+" (symbol skipped; conformance is C07/C08's subject)",
					rcase{Symbol: s.name(), Kind: s.Kind, V: s.V, Level: s.L, Mask: s.Mask, DM: s.DMi, Key: "C05/pristine-mismatch", Expect: "info"})
				return
			}
			out[i] = s
		})
	for i, s := range out {
		if s == nil {
			continue
		}
		s.ord = i
		j := jobs[i]
		if s.Kind == "dm" {
			dmSyms = append(dmSyms, s)
			continue
		}
		qrSyms = append(qrSyms, s)
		if j.main {
			qrMain[j.v][j.l] = s
		}
		for _, mv := range maskVersions {
			if mv == j.v {
				qrMasks[j.v][j.l][j.mask] = s
			}
		}
	}
	if len(qrSyms) > 0 {
		chk.Sample("symbol", qrSyms[0].name())
	}
	if len(dmSyms) > 0 {
		chk.Sample("symbol", dmSyms[len(dmSyms)-1].name())
	}
}

func mainQR() []*symbol {
	var out []*symbol
	for v := 1; v <= 40; v++ {
		for l := 0; l < 4; l++ {
			if s := qrMain[v][l]; s != nil {
				out = append(out, s)
			}
		}
	}
	return out
}

func keyKind(s *symbol) string { return "C05/" + s.Kind + "/%s" }

// runUndamaged: deviation 0. A symbol that does not decode undamaged is reported here and
// taken out of the damage sub-spaces (every case on it would fail for the same reason).
func runUndamaged() {
	all := append(append([]*symbol{}, qrSyms...), dmSyms...)
	bad := make([]bool, len(all))
	chk.Range("deviation 0: every pristine symbol decodes to its text", len(all),
		func(i int) string { return all[i].name() },
		func(l *mc.Local, i int) {
			s := all[i]
			if try(l, s, &fault{}, s.Kind+"/undamaged", keyKind(s)+"undamaged", "exact", 0) != "exact" {
				bad[i] = true
			}
		})
	flush(classCount(all))
	drop := map[*symbol]bool{}
	for i, b := range bad {
		if b {
			drop[all[i]] = true
		}
	}
	if len(drop) == 0 {
		return
	}
	filter := func(in []*symbol) (out []*symbol) {
		for _, s := range in {
			if !drop[s] {
				out = append(out, s)
			}
		}
		return
	}
	qrSyms, dmSyms = filter(qrSyms), filter(dmSyms)
	for v := range qrMain {
		for l := range qrMain[v] {
			if drop[qrMain[v][l]] {
				qrMain[v][l] = nil
			}
			for m := range qrMasks[v][l] {
				if drop[qrMasks[v][l][m]] {
					qrMasks[v][l][m] = nil
				}
			}
		}
	}
	chk.Note(fmt.Sprintf("%d symbol(s) do not decode undamaged and were excluded from the damage sub-spaces", len(drop)))
}
