package main

import (
	"fmt"

	"verif/mc"
	"verif/ref/dm"
	"verif/ref/qr"
)

// replacement menu: value XORed into a codeword (applied as flips of the corresponding modules)
var menu = []int{0x01, 0x80, 0xFF, 0x55}

const mixed = -1 // a different non-zero value at every position

func xorFor(m, j, idx, b int) int {
	if m == mixed {
		return 1 + (j*7+idx*13+b*29)%255
	}
	return m
}

func menuName(m int) string {
	if m == mixed {
		return "mixed"
	}
	return fmt.Sprintf("^%02X", m)
}

// ---------------------------------------------------------------------------------------
// 1. deviation 1

func singleKey(s *symbol, p int) string {
	if s.Kind == "dm" {
		return "C05/dm/%ssingle"
	}
	w := s.where[p]
	if w[1] < s.dataLen[w[0]] {
		return "C05/qr/%ssingle/data"
	}
	return "C05/qr/%ssingle/ec"
}

func exhaustiveInQuick(s *symbol) bool {
	if s.Kind == "qr" {
		return s.V <= 6 && qrMain[s.V][s.L] == s
	}
	d := dm.Symbols[s.DMi]
	return d.Rows <= 32 && d.Cols <= 32
}

func runSingle() {
	type job struct {
		s   *symbol
		pos []int
	}
	var jobs []job
	all := append(append([]*symbol{}, qrSyms...), dmSyms...)
	// heavy symbols first, so that the tail of the range is made of cheap jobs
	order := append([]*symbol{}, all...)
	for i := 1; i < len(order); i++ {
		for j := i; j > 0 && len(order[j].mods) > len(order[j-1].mods); j-- {
			order[j], order[j-1] = order[j-1], order[j]
		}
	}
	total := 0
	for _, s := range order {
		var pos []int
		if !chk.Quick() || exhaustiveInQuick(s) {
			for p := range s.mods {
				pos = append(pos, p)
			}
		} else {
			seen := map[int]bool{}
			for _, ps := range s.blocks {
				n := len(ps)
				for _, idx := range []int{0, n / 2, n - 1} {
					if !seen[ps[idx]] {
						seen[ps[idx]] = true
						pos = append(pos, ps[idx])
					}
				}
			}
		}
		total += len(pos)
		chunk := 12000 / len(s.mods)
		if chunk < 2 {
			chunk = 2
		}
		for lo := 0; lo < len(pos); lo += chunk {
			hi := lo + chunk
			if hi > len(pos) {
				hi = len(pos)
			}
			jobs = append(jobs, job{s, pos[lo:hi]})
		}
	}
	name := fmt.Sprintf("deviation 1: one damaged codeword x {^01,^80,^FF,^55}; %s; %d symbols, %d codeword positions", pickS(
		"first, middle and last codeword of every block of every symbol (160 QR (version, level) pairs, all 8 masks on versions 1,7,21,40, 30 Data Matrix sizes) + EVERY position on QR versions 1..6 and Data Matrix sizes <= 32x32",
		"EVERY codeword position of every block of every symbol (160 QR (version, level) pairs, all 8 masks on versions 1,7,21,40 at all levels, 30 Data Matrix sizes)"), len(all), total)
	chk.Range(name, len(jobs),
		func(i int) string { return fmt.Sprint(jobs[i].s.name(), " positions ", jobs[i].pos) },
		func(l *mc.Local, i int) {
			j := jobs[i]
			for _, p := range j.pos {
				for _, m := range menu {
					f := &fault{CW: []int{p}, XOR: []int{m}}
					try(l, j.s, f, j.s.Kind+"/single", singleKey(j.s, p), "exact", int64(p)<<8|int64(m))
				}
			}
		})
	flush(classCount(all))
	if len(qrSyms) > 0 {
		s := qrSyms[len(qrSyms)/2]
		chk.Sample("single", s.rcase("C05/qr/%ssingle/data", "exact", &fault{CW: []int{0}, XOR: []int{0x55}}))
	}
}

// ---------------------------------------------------------------------------------------
// 2. / 3. position families inside a block

var families = []string{"first", "last", "spread", "data-only", "ec-only"}

// family returns cnt indices (fewer for data-only when the block has fewer data codewords)
// inside a block of n codewords of which the first k are data.
func family(name string, n, k, cnt int) []int {
	var out []int
	switch name {
	case "first":
		for i := 0; i < cnt; i++ {
			out = append(out, i)
		}
	case "last":
		for i := n - cnt; i < n; i++ {
			out = append(out, i)
		}
	case "spread":
		for i := 0; i < cnt; i++ {
			out = append(out, i*n/cnt)
		}
	case "data-only":
		m := cnt
		if m > k {
			m = k
		}
		for i := k - m; i < k; i++ {
			out = append(out, i)
		}
	case "ec-only":
		m := cnt
		if m > n-k {
			m = n - k
		}
		for i := k; i < k+m; i++ {
			out = append(out, i)
		}
	}
	return out
}

var menu5 = []int{0x01, 0x80, 0xFF, 0x55, mixed}

func runFull() {
	all := append(mainQR(), dmSyms...)
	chk.Range(fmt.Sprintf("deviation t_b = floor(ec/2) in EVERY block simultaneously: position families {first t, last t, evenly spread, data-only, ec-only} x {^01,^80,^FF,^55,mixed}; %d symbols (160 QR (version, level) pairs + 30 Data Matrix sizes)", len(all)), len(all),
		func(i int) string { return all[i].name() },
		func(l *mc.Local, i int) {
			s := all[i]
			for fi, fam := range families {
				for mi, m := range menu5 {
					f := &fault{}
					for b, ps := range s.blocks {
						for j, idx := range family(fam, len(ps), s.dataLen[b], s.t()) {
							f.CW = append(f.CW, ps[idx])
							f.XOR = append(f.XOR, xorFor(m, j, idx, b))
						}
					}
					try(l, s, f, s.Kind+"/t-errors", "C05/"+s.Kind+"/%st-errors/"+fam, "exact", int64(fi*8+mi))
				}
			}
		})
	flush(classCount(all))
	if len(dmSyms) > 0 {
		s := dmSyms[len(dmSyms)-1]
		f := &fault{}
		for b, ps := range s.blocks {
			for j, idx := range family("spread", len(ps), s.dataLen[b], s.t()) {
				f.CW = append(f.CW, ps[idx])
				f.XOR = append(f.XOR, xorFor(mixed, j, idx, b))
			}
		}
		rc := s.rcase("C05/dm/%st-errors/spread", "exact", f)
		if len(rc.CW) > 12 {
			rc.CW, rc.XOR, rc.Blocks = rc.CW[:12], rc.XOR[:12], rc.Blocks[:80]+" ..."
		}
		chk.Sample("t-errors (truncated)", rc)
	}
}

func runOver() {
	type job struct {
		s *symbol
		b int
	}
	var jobs []job
	all := append(mainQR(), dmSyms...)
	for _, s := range all {
		nb := len(s.blocks)
		for b := 0; b < nb; b++ {
			if chk.Quick() && b != 0 && b != nb-1 {
				continue
			}
			jobs = append(jobs, job{s, b})
		}
	}
	chk.Range(fmt.Sprintf("deviation t_b+1 in ONE block (must never give different text): same five families x five replacements; %s; %d (symbol, block) pairs", pickS("first and last block of every symbol", "every block of every symbol"), len(jobs)), len(jobs),
		func(i int) string { return fmt.Sprint(jobs[i].s.name(), " block ", jobs[i].b) },
		func(l *mc.Local, i int) {
			s, b := jobs[i].s, jobs[i].b
			ps := s.blocks[b]
			for fi, fam := range families {
				idxs := family(fam, len(ps), s.dataLen[b], s.t()+1)
				expect := "not-different"
				if len(idxs) <= s.t() {
					expect = "exact" // a block with fewer than t+1 data codewords: still inside capacity
				}
				for mi, m := range menu5 {
					f := &fault{}
					for j, idx := range idxs {
						f.CW = append(f.CW, ps[idx])
						f.XOR = append(f.XOR, xorFor(m, j, idx, b))
					}
					key := "C05/" + s.Kind + "/%st+1/different-text"
					if expect == "exact" {
						key = "C05/" + s.Kind + "/%st-errors/" + fam
					}
					try(l, s, f, s.Kind+"/t+1", key, expect, int64(b)<<8|int64(fi*8+mi))
				}
			}
		})
	flush(classCount(all))
}

// runSelfTest exercises the beyond-capacity oracle on cases where a different text is the
// REQUIRED answer: one block is moved to within t_b of another valid codeword (its data with one
// bit changed, re-encoded by the reference). The decoder must return that codeword's data; the
// case has to be classified "miscorrected-legit" (or "error" if the changed stream no longer
// parses), never as a violation. Guards the classifier's raw-byte bookkeeping for uneven and
// interleaved blocks.
func runSelfTest() {
	type job struct {
		s *symbol
		b int
	}
	var jobs []job
	add := func(s *symbol) {
		if s == nil {
			return
		}
		jobs = append(jobs, job{s, 0})
		if n := len(s.blocks); n > 1 {
			jobs = append(jobs, job{s, n - 1}, job{s, n / 2})
		}
	}
	add(qrMain[1][0])
	add(qrMain[5][2])
	add(qrMain[15][1])
	add(qrMain[40][3])
	for _, s := range dmSyms {
		d := dm.Symbols[s.DMi]
		if d.Rows == 10 || d.Rows == 52 || d.Rows == 72 || d.Rows == 144 || (d.Rows == 16 && d.Cols == 48) {
			add(s)
		}
	}
	legit := make([]int, len(jobs))
	chk.Range("oracle self-test: one block moved to within t_b of a different valid codeword (one data bit changed, re-encoded by the reference): must be classified as the legitimate nearest-codeword answer", len(jobs),
		func(i int) string { return fmt.Sprint(jobs[i].s.name(), " block ", jobs[i].b) },
		func(l *mc.Local, i int) {
			s, b := jobs[i].s, jobs[i].b
			ps := s.blocks[b]
			k := s.dataLen[b]
			for _, di := range []int{k / 3, k / 2, k - 1} {
				d := make([]byte, k)
				for x := 0; x < k; x++ {
					d[x] = s.ref[ps[x]]
				}
				d[di] ^= 0x01
				var par []byte
				if s.Kind == "qr" {
					par = qr.ECC(d, s.ec)
				} else {
					par = dm.RSParity(d, s.ec)
				}
				other := append(d, par...)
				var diff []int
				for x, p := range ps {
					if other[x] != s.ref[p] {
						diff = append(diff, x)
					}
				}
				f := &fault{}
				for _, x := range diff[:len(diff)-s.t()] { // leave the last t differences unchanged
					f.CW = append(f.CW, ps[x])
					f.XOR = append(f.XOR, int(other[x]^s.ref[ps[x]]))
				}
				res := try(l, s, f, "self-test", "C05/"+s.Kind+"/%st+1/different-text", "not-different", int64(b)<<8|int64(di))
				if res == "miscorrected-legit" {
					legit[i]++
				}
			}
		})
	flush(map[string]int{})
	n := 0
	for _, x := range legit {
		n += x
	}
	if len(jobs) > 0 && n == 0 {
		chk.Violation("C05/harness/self-test-vacuous", "no forced miscorrection was classified as legitimate: the beyond-capacity oracle is not exercised", nil)
	}
}

// ---------------------------------------------------------------------------------------
// 4. / 5. format and version information

// subsets returns all subsets of {0..n-1} with at most maxk elements, by size then lexicographic.
func subsets(n, maxk int) [][]int {
	out := [][]int{{}}
	for k := 1; k <= maxk; k++ {
		cur := make([]int, k)
		var rec func(start, d int)
		rec = func(start, d int) {
			if d == k {
				out = append(out, append([]int{}, cur...))
				return
			}
			for i := start; i <= n-(k-d); i++ {
				cur[d] = i
				rec(i+1, d+1)
			}
		}
		rec(0, 0)
	}
	return out
}

var (
	fmtAll  = subsets(15, 3) // 576
	fmtLow  = subsets(15, 1) // 16
	verAll  = subsets(18, 3) // 988
	verLow  = subsets(18, 1) // 19
	fmtTrio = [][]int{{0, 1, 2}, {12, 13, 14}, {0, 7, 14}, {4, 5, 6}, {2, 8, 11}, {6, 7, 8}}
	verTrio = [][]int{{0, 1, 2}, {15, 16, 17}, {0, 8, 17}, {5, 6, 7}, {3, 9, 13}, {10, 11, 12}}
)

func atLeast(all [][]int, k int) (out [][]int) {
	for _, s := range all {
		if len(s) >= k {
			out = append(out, s)
		}
	}
	return
}

// infoJob is the product as x bs of bit subsets of copy 0 and copy 1 of the format (kind 1) or
// version (kind 2) information of one symbol; pre are module flips applied in every case
// (the obliterated copy of the one-copy-destroyed sub-space).
type infoJob struct {
	s      *symbol
	kind   int
	as, bs [][]int
	pre    [][2]int
	same   bool   // bs is ignored; copy 1 gets the same bits as copy 0
	key    string // "" = by which copies are touched
	expect string
	sub    string
	ord    int64
}

func (j *infoJob) run(l *mc.Local) {
	s := j.s
	n := int64(0)
	for _, a := range j.as {
		bs := j.bs
		if j.same {
			bs = [][]int{a}
		}
		for _, b := range bs {
			f := &fault{Flips: append([][2]int{}, j.pre...)}
			for _, i := range a {
				if j.kind == 1 {
					f.Flips = append(f.Flips, s.fmtPos[0][i])
				} else {
					f.Flips = append(f.Flips, s.verPos[0][i])
				}
			}
			for _, i := range b {
				if j.kind == 1 {
					f.Flips = append(f.Flips, s.fmtPos[1][i])
				} else {
					f.Flips = append(f.Flips, s.verPos[1][i])
				}
			}
			key := j.key
			if key == "" {
				which := "both"
				switch {
				case len(b) == 0 && j.kind == 1:
					which = "copy1"
				case len(a) == 0 && j.kind == 1:
					which = "copy2"
				case len(b) == 0:
					which = "top-right"
				case len(a) == 0:
					which = "bottom-left"
				}
				if j.kind == 1 {
					key = "C05/qr/%sformat/" + which
				} else {
					key = "C05/qr/%sversion-info/" + which
				}
			}
			try(l, s, f, j.sub, key, j.expect, j.ord<<24|n)
			n++
		}
	}
}

// split cuts as into chunks so that one job is roughly 100 ms of decoding.
func split(jobs []infoJob, j infoJob) []infoJob {
	per := len(j.bs) * (len(j.s.mods)/40 + 1) // ~ cost units of one element of as
	chunk := 6000/per + 1
	for lo := 0; lo < len(j.as); lo += chunk {
		hi := lo + chunk
		if hi > len(j.as) {
			hi = len(j.as)
		}
		c := j
		c.as = j.as[lo:hi]
		c.ord = int64(len(jobs))
		jobs = append(jobs, c)
	}
	return jobs
}

func runInfo(name string, jobs []infoJob) {
	if len(jobs) == 0 {
		return
	}
	cases := 0
	var syms []*symbol
	for _, j := range jobs {
		cases += len(j.as) * len(j.bs)
		syms = append(syms, j.s)
	}
	chk.Range(fmt.Sprintf("%s; %d cases", name, cases), len(jobs),
		func(i int) string {
			return fmt.Sprint(jobs[i].s.name(), " ", jobs[i].sub, " copy-0 subsets ", len(jobs[i].as), " from ", jobs[i].as[0], " x copy-1 subsets ", len(jobs[i].bs))
		},
		func(l *mc.Local, i int) { jobs[i].run(l) })
	flush(classCount(syms))
}

func pickVersions(quick []int, lo int) []int {
	if chk.Quick() {
		return quick
	}
	var out []int
	for v := lo; v <= 40; v++ {
		out = append(out, v)
	}
	return out
}

func runFormat() {
	none := [][]int{{}}
	// 4a: one copy damaged, the other intact, on many versions (level and mask rotate with the version)
	var jobs []infoJob
	vs := pickVersions([]int{1, 2, 7, 14, 27, 40}, 1)
	for _, v := range vs {
		s := qrMain[v][v%4]
		if s == nil {
			continue
		}
		jobs = split(jobs, infoJob{s: s, kind: 1, as: fmtAll, bs: none, expect: "exact", sub: "qr/format/one-copy"})
		jobs = split(jobs, infoJob{s: s, kind: 1, as: none, bs: fmtAll[1:], expect: "exact", sub: "qr/format/one-copy"})
	}
	runInfo(fmt.Sprintf("QR format information: ALL subsets of <=3 of the 15 bits of one copy, other copy intact, each copy in turn; versions %v", vs), jobs)

	// 4b: both copies damaged, version 1, two (level, mask) combinations
	jobs = nil
	combos := [][2]int{{1, 0}, {3, 6}} // (M, mask 0): the all-zero data word; (H, mask 6)
	for _, c := range combos {
		s := qrMasks[1][c[0]][c[1]]
		if s == nil {
			continue
		}
		if chk.Quick() {
			jobs = split(jobs, infoJob{s: s, kind: 1, as: fmtLow, bs: fmtAll, expect: "exact", sub: "qr/format/joint"})
			jobs = split(jobs, infoJob{s: s, kind: 1, as: atLeast(fmtAll, 2), bs: append(append([][]int{}, fmtLow...), fmtTrio...), expect: "exact", sub: "qr/format/joint"})
			jobs = split(jobs, infoJob{s: s, kind: 1, as: fmtTrio, bs: atLeast(fmtAll, 2), expect: "exact", sub: "qr/format/joint"})
		} else {
			jobs = split(jobs, infoJob{s: s, kind: 1, as: fmtAll, bs: fmtAll, expect: "exact", sub: "qr/format/joint"})
		}
	}
	runInfo("QR format information, both copies damaged, version 1, (level, mask) in {(M,0),(H,6)}: "+pickS(
		"(<=1 bit in copy 1) x (ALL <=3 in copy 2), (ALL <=3 in copy 1) x (<=1 bit or one of 6 fixed triples in copy 2), (6 fixed triples) x (ALL <=3)",
		"(ALL 576 subsets of <=3 bits in copy 1) x (ALL 576 in copy 2)"), jobs)

	// 4c: every one of the 32 format words with three flips in both copies
	jobs = nil
	trio := fmtTrio[:chk.Pick(2, 6)]
	for l := 0; l < 4; l++ {
		for m := 0; m < 8; m++ {
			s := qrMasks[1][l][m]
			if s == nil {
				continue
			}
			jobs = split(jobs, infoJob{s: s, kind: 1, as: fmtAll, bs: trio, expect: "exact", sub: "qr/format/all-words"})
			jobs = split(jobs, infoJob{s: s, kind: 1, as: trio, bs: fmtAll, expect: "exact", sub: "qr/format/all-words"})
		}
	}
	runInfo(fmt.Sprintf("QR format information, all 32 (level, mask) words on version 1: (ALL <=3 in one copy) x (%d fixed triples in the other), both ways", len(trio)), jobs)

	// 4d: beyond the promise, for information only: the same 4 bits flipped in both copies
	if s := qrMasks[1][1][0]; s != nil {
		var four [][]int
		for _, q := range subsets(15, 4) {
			if len(q) == 4 {
				four = append(four, q)
			}
		}
		jobs = split(nil, infoJob{s: s, kind: 1, as: four, bs: none, same: true, expect: "info", key: "C05/qr/%sformat/info", sub: "qr/format/4-bits-in-both-copies (beyond the promise, no obligation)"})
		runInfo("QR format information beyond the promise (informational, no obligation): the same 4 bits flipped in both copies, version 1 (M, mask 0)", jobs)
	}
}

func runVersion() {
	none := [][]int{{}}
	// 5a: one copy damaged, the other intact
	var jobs []infoJob
	vs := pickVersions([]int{7, 8, 20, 33, 40}, 7)
	for _, v := range vs {
		s := qrMain[v][v%4]
		if s == nil {
			continue
		}
		jobs = split(jobs, infoJob{s: s, kind: 2, as: verAll, bs: none, expect: "exact", sub: "qr/version-info/one-copy"})
		jobs = split(jobs, infoJob{s: s, kind: 2, as: none, bs: verAll[1:], expect: "exact", sub: "qr/version-info/one-copy"})
	}
	runInfo(fmt.Sprintf("QR version information: ALL 988 subsets of <=3 of the 18 bits of one copy, other copy intact, each copy in turn; versions %v", vs), jobs)

	// 5b: both copies damaged, version 7
	jobs = nil
	if s := qrMain[7][1]; s != nil {
		if chk.Quick() {
			jobs = split(jobs, infoJob{s: s, kind: 2, as: verLow, bs: verAll, expect: "exact", sub: "qr/version-info/joint"})
			jobs = split(jobs, infoJob{s: s, kind: 2, as: atLeast(verAll, 2), bs: append(append([][]int{}, verLow...), verTrio[:3]...), expect: "exact", sub: "qr/version-info/joint"})
			jobs = split(jobs, infoJob{s: s, kind: 2, as: verTrio[:3], bs: atLeast(verAll, 2), expect: "exact", sub: "qr/version-info/joint"})
		} else {
			jobs = split(jobs, infoJob{s: s, kind: 2, as: verAll, bs: verAll, expect: "exact", sub: "qr/version-info/joint"})
		}
	}
	runInfo("QR version information, both copies damaged, version 7-M: "+pickS(
		"(<=1 bit top right) x (ALL <=3 bottom left), (ALL <=3 top right) x (<=1 bit or one of 3 fixed triples bottom left), (3 fixed triples) x (ALL <=3)",
		"(ALL 988 subsets of <=3 bits top right) x (ALL 988 bottom left)"), jobs)

	// 5c: three flips in both copies on every version
	jobs = nil
	// (two disjoint triples: whichever single bit a wrong table entry differs in, one of them avoids it)
	vs = pickVersions([]int{8, 20, 33, 40}, 8)
	trio := verTrio[:2]
	one := verAll
	if chk.Quick() {
		one = atLeast(verAll, 3)
	}
	for _, v := range vs {
		s := qrMain[v][(v+1)%4]
		if s == nil {
			continue
		}
		jobs = split(jobs, infoJob{s: s, kind: 2, as: one, bs: trio, expect: "exact", sub: "qr/version-info/all-versions"})
		jobs = split(jobs, infoJob{s: s, kind: 2, as: trio, bs: one, expect: "exact", sub: "qr/version-info/all-versions"})
	}
	runInfo(fmt.Sprintf("QR version information, versions %v: (%s in one copy) x (2 fixed disjoint triples in the other), both ways", vs, pickS("ALL 816 triples", "ALL 988 subsets of <=3 bits")), jobs)

	// 5e: EVERY version 7..40 in both tiers: three flips in BOTH copies, the triples taken from two
	// partitions of the 18 bits into six disjoint triples ({0,1,2},{3,4,5},... and the same shifted by
	// one). Whatever bit set a wrong entry of the decoder's version table differs in, some pair of
	// triples is at distance >= 4 from it in both copies while staying within the promised 3 flips
	// of the true word, so a single wrong table row on ANY version fails here (found necessary by a
	// seeded change that transposed two digits of the version-30 entry).
	jobs = nil
	var part [][]int
	for shift := 0; shift < 2; shift++ {
		for t := 0; t < 6; t++ {
			part = append(part, []int{(3*t + shift) % 18, (3*t + 1 + shift) % 18, (3*t + 2 + shift) % 18})
		}
	}
	var allv []int
	for v := 7; v <= 40; v++ {
		allv = append(allv, v)
		s := qrMain[v][(v+3)%4]
		if s == nil {
			continue
		}
		jobs = split(jobs, infoJob{s: s, kind: 2, as: part, bs: part, expect: "exact", sub: "qr/version-info/every-version"})
	}
	runInfo("QR version information, EVERY version 7..40: all ordered pairs of 12 triples (two partitions of the 18 bits into disjoint triples), one triple flipped in each copy", jobs)

	// 5d: one copy obliterated (all light / all dark / inverted), the other with few flips
	jobs = nil
	vs = pickVersions([]int{7, 8, 20, 33, 40}, 7)
	for _, v := range vs {
		s := qrMain[v][(v+2)%4]
		if s == nil {
			continue
		}
		w := qr.VersionWord(v)
		other := append(append([][]int{}, verLow...), verTrio[:3]...)
		if v == 7 && !chk.Quick() {
			other = verAll
		}
		for cp := 0; cp < 2; cp++ {
			for pat := 0; pat < 3; pat++ { // 0 all light, 1 all dark, 2 inverted
				var pre [][2]int
				for i := 0; i < 18; i++ {
					dark := w>>uint(i)&1 == 1
					if pat == 2 || (pat == 0) == dark {
						pre = append(pre, s.verPos[cp][i])
					}
				}
				j := infoJob{s: s, kind: 2, pre: pre, expect: "exact", key: "C05/qr/%sversion-info/one-copy-destroyed", sub: "qr/version-info/one-copy-destroyed"}
				if cp == 0 {
					j.as, j.bs = none, other
				} else {
					j.as, j.bs = other, none
				}
				jobs = split(jobs, j)
			}
		}
	}
	runInfo(fmt.Sprintf("QR version information, one copy obliterated (all light / all dark / inverted), the other with <=1 flipped bit or one of 3 fixed triples (version 7 thorough: ALL <=3); each copy in turn; versions %v", vs), jobs)
}

// ---------------------------------------------------------------------------------------

func replay() {
	var rc rcase
	if err := mc.LoadReplay(chk.ReplayFile(), &rc); err != nil {
		fmt.Println("cannot read replay file:", err)
		return
	}
	var s *symbol
	var p string
	if rc.Kind == "qr" && len(rc.Pad) == 2 {
		s, p = buildQRLatin1(rc.V, rc.Level, rc.Mask, padText(rc.V, rc.Level, rc.Pad[0], rc.Pad[1]), false, true)
		if s != nil {
			s.pad = rc.Pad
		}
	} else if rc.Kind == "qr" && rc.QRVal {
		s, p = buildQRLatin1(rc.V, rc.Level, rc.Mask, qrValueText(rc.V, rc.Level), false, true)
		if s != nil {
			s.qrValues = true
		}
	} else if rc.Kind == "qr" && rc.Twin {
		s, p = buildQRText(rc.V, rc.Level, rc.Mask, twinText(rc.V, rc.Level), true)
	} else if rc.Kind == "qr" {
		s, p = buildQR(rc.V, rc.Level, rc.Mask)
	} else if rc.DMVal > 0 {
		s, p = buildDMText(rc.DM, dmValueText(rc.DM, rc.DMVal), rc.DMVal)
	} else {
		s, p = buildDM(rc.DM)
	}
	if p != "" {
		fmt.Println("pristine symbol:", p)
		chk.Violation("C05/pristine-mismatch/"+s.Kind+"/"+s.Class, s.name()+": "+p, rc)
		return
	}
	f := &fault{CW: rc.CW, XOR: rc.XOR, Flips: rc.Flips}
	fmt.Println("replay:", describe(s, f))
	o := s.decode(f)
	fmt.Printf("outcome: %s err=%q text=%q\n", o.Kind, o.Err, clip(o.Text))
	expect := rc.Expect
	if expect == "" {
		expect = "not-different"
		if s.within(s.load(f)) {
			expect = "exact"
		}
	}
	key := rc.Key
	if key == "" || !containsVerb(key) {
		key = "C05/" + s.Kind + "/%sreplay"
	}
	l := chk.NewLocal()
	try(l, s, f, "replay", key, expect, 0)
	l.Merge()
	flush(map[string]int{})
}

func containsVerb(k string) bool {
	for i := 0; i+1 < len(k); i++ {
		if k[i] == '%' {
			return true
		}
	}
	return false
}

func pickS(q, t string) string {
	if chk.Quick() {
		return q
	}
	return t
}

// runTwinBlocks: symbols whose data blocks are near twins (twinText), damaged - within the capacity
// of the block - so that the data part of a block READS like the data of the block before it (the
// few differing codewords are overwritten with the neighbour's values; also like the block after
// it, and with every second differing codeword only). A decoder that judges a block by comparing
// it with a neighbour instead of by its own check codewords goes wrong exactly here.
func runTwinBlocks() {
	type job struct{ v, l int }
	var jobs []job
	for v := 2; v <= 40; v++ {
		for l := 0; l < 4; l++ {
			if _, nb := qr.ECInfo(v, qr.Level(l)); nb >= 2 {
				if chk.Quick() && v > 12 && (v+l)%4 != 0 {
					continue
				}
				jobs = append(jobs, job{v, l})
			}
		}
	}
	chk.Range(fmt.Sprintf("near-twin data blocks: %d multi-block QR (version, level) pairs with a text whose period is the block length; in every block the codewords that differ from the PREVIOUS (and from the NEXT) block are overwritten with that block's values (all of them if within capacity, else the first t; and every second one): exact text", len(jobs)), len(jobs),
		func(i int) string { return fmt.Sprint(jobs[i]) },
		func(l *mc.Local, i int) {
			j := jobs[i]
			s, p := buildQRText(j.v, j.l, (j.v+j.l)%8, twinText(j.v, j.l), true)
			if p != "" {
				l.Count("twin symbols the library does not build as the reference does (reported by the setup family)", 1)
				return
			}
			s.ord = 100000 + j.v*4 + j.l
			for b := range s.blocks {
				for _, nb := range []int{b - 1, b + 1} {
					if nb < 0 || nb >= len(s.blocks) {
						continue
					}
					var diff []int
					n := s.dataLen[b]
					if s.dataLen[nb] < n {
						n = s.dataLen[nb]
					}
					for k := 0; k < n; k++ {
						if s.ref[s.blocks[b][k]] != s.ref[s.blocks[nb][k]] {
							diff = append(diff, k)
						}
					}
					if len(diff) == 0 {
						l.Count("twin blocks with identical data (nothing to damage)", 1)
						continue
					}
					for variant := 0; variant < 2; variant++ {
						f := &fault{}
						for q, k := range diff {
							if variant == 1 && q%2 == 1 {
								continue
							}
							if len(f.CW) == s.t() {
								break
							}
							f.CW = append(f.CW, s.blocks[b][k])
							f.XOR = append(f.XOR, int(s.ref[s.blocks[b][k]]^s.ref[s.blocks[nb][k]]))
						}
						if len(diff) <= s.t() && variant == 0 {
							l.Count("twin blocks made to read exactly like the neighbour", 1)
						}
						try(l, s, f, "qr/twin-blocks", "C05/qr/%stwin-blocks", "exact", int64(b*8+variant*2+(nb-b+1)/2))
					}
				}
			}
		})
	flush(map[string]int{})
}

// runPadMimic: message data that LOOKS like padding. A whole data block (not the first) spells the
// pad codeword sequence EC 11 EC 11 ... although it is text ("ì" and a control character in
// ISO-8859-1), and text follows in the later blocks. One codeword, and t codewords, of every LATER
// block are damaged: a decoder that takes the pad-like block for the end of the message and stops
// correcting would hand back the damage.
func runPadMimic() {
	type job struct{ v, l, b, phase int }
	var jobs []job
	for v := 3; v <= 40; v++ {
		for l := 0; l < 4; l++ {
			_, nb := qr.ECInfo(v, qr.Level(l))
			if nb < 3 || (chk.Quick() && v > 14 && (v+l)%5 != 0) {
				continue
			}
			for _, b := range []int{1, nb - 2} {
				for phase := 0; phase < 2; phase++ {
					if b >= 1 && b < nb-1 {
						jobs = append(jobs, job{v, l, b, phase})
					}
				}
			}
		}
	}
	chk.Range(fmt.Sprintf("pad-mimicking data: %d QR (version, level, block, phase) cases with >= 3 blocks whose block b holds text that spells the pad sequence EC 11 ... (or 11 EC ...); one codeword and t codewords damaged in every later block: exact text", len(jobs)), len(jobs),
		func(i int) string { return fmt.Sprint(jobs[i]) },
		func(l *mc.Local, i int) {
			j := jobs[i]
			s, p := buildQRLatin1(j.v, j.l, (j.v+j.b)%8, padText(j.v, j.l, j.b, j.phase), false, true)
			if p != "" {
				l.Count("pad-mimic symbols the library does not build as the reference does (not judged here)", 1)
				return
			}
			s.pad = []int{j.b, j.phase}
			s.ord = 200000 + j.v*16 + j.l*4 + j.b
			for later := j.b + 1; later < len(s.blocks); later++ {
				for _, n := range []int{1, s.t()} {
					f := &fault{}
					for q := 0; q < n; q++ {
						idx := (q*3 + 1) % s.dataLen[later]
						dup := false
						for _, c := range f.CW {
							dup = dup || c == s.blocks[later][idx]
						}
						if !dup {
							f.CW = append(f.CW, s.blocks[later][idx])
							f.XOR = append(f.XOR, 0x55+q)
						}
					}
					try(l, s, f, "qr/pad-mimic", "C05/qr/%spad-mimic", "exact", int64(later*4+n))
				}
			}
		})
	flush(map[string]int{})
}
