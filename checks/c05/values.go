package main

// Codeword VALUES. The ordinary payloads are printable ASCII: in the Data Matrix ASCII encodation a
// data codeword is the character + 1, a digit pair + 130 or a pad - never 0 and never most values
// above 230. Whatever a decoder does with a corrected codeword that depends on its value (a
// plausibility test, a table lookup) is invisible to them. Here texts are written whose data
// codewords take the missing values: C40 / Text triplets whose packed value has a zero low byte
// ("02B" = 0x1A00) or a zero high byte (control characters), and Base 256 runs whose bytes are
// chosen so that the randomised codewords run through 0, 1, 2, ... 255. The symbols are library-built
// and reference-confirmed like all others; every data and error-correction codeword is damaged
// alone with {^01, ^80, ^FF, its own value (it becomes 0), its complement (it becomes FF)} and
// t codewords per block are damaged together. The evidence reports how many of the 256 values
// occur among the data codewords of these symbols.

import (
	"fmt"
	"strings"

	"verif/mc"
	"verif/ref/dm"
	"verif/ref/qr"
)

// dmValueText: the text of value-coverage kind k for the symbol size with index di.
func dmValueText(di, kind int) string {
	d := dm.Symbols[di]
	n := d.DataCW
	switch kind {
	case 1: // C40 triplets with a zero low byte: 1600*c1 + 40*c2 + c3 + 1 = 0 mod 256
		trips := []string{"02B", "0DN", "1C2"}
		var good []string
		val := func(c byte) int {
			switch {
			case c == ' ':
				return 3
			case c >= '0' && c <= '9':
				return int(c-'0') + 4
			}
			return int(c-'A') + 14
		}
		for _, t := range trips {
			if (1600*val(t[0])+40*val(t[1])+val(t[2])+1)%256 == 0 {
				good = append(good, t)
			}
		}
		if len(good) == 0 {
			good = []string{"02B"}
		}
		var sb strings.Builder
		for i := 0; sb.Len()+3 <= (n-2)/2*3 && sb.Len() < 3*n; i++ {
			sb.WriteString(good[i%len(good)])
		}
		return sb.String()
	case 2: // Base 256 run whose randomised codewords are 0, 1, 2, ...
		// codeword at 1-based position P of the stream = (byte + (149*P mod 255) + 1) mod 256;
		// the run starts at position 3 (latch, one length byte) or 4 (two length bytes)
		ln := n - 2
		first := 3
		if ln > 249 {
			ln = n - 3
			first = 4
		}
		b := make([]rune, ln)
		for i := range b {
			P := first + i
			want := i % 256
			b[i] = rune((want - (149*P)%255 - 1 + 512) % 256)
		}
		return string(b)
	case 3: // control characters and upper case: C40 shift-1 triplets (zero high byte) if the writer packs them
		var sb strings.Builder
		for i := 0; sb.Len() < n-2; i++ {
			sb.WriteString("AB\x00\x00\x01CD\x1f")
		}
		return sb.String()[:n-2]
	}
	return ""
}

func runDMValues() {
	sizes := []int{}
	for di, d := range dm.Symbols {
		switch fmt.Sprintf("%dx%d", d.Rows, d.Cols) {
		case "12x12", "16x16", "20x20", "26x26", "8x32", "16x48", "32x32", "52x52", "88x88", "144x144":
			sizes = append(sizes, di)
		}
	}
	type job struct{ di, kind int }
	var jobs []job
	for _, di := range sizes {
		for k := 1; k <= 3; k++ {
			jobs = append(jobs, job{di, k})
		}
	}
	syms := make([]*symbol, len(jobs))
	chk.Range("Data Matrix symbols whose data codewords take the values ordinary text never produces (C40 triplets with a zero byte, Base 256 runs randomised to 0,1,2,...,255, control characters): 10 sizes x 3 texts, library-built and reference-confirmed; every codeword damaged alone x {^01,^80,^FF, to 00, to FF} and t per block together (first, last, spread)", len(jobs),
		func(i int) string { return fmt.Sprint(jobs[i]) },
		func(l *mc.Local, i int) {
			j := jobs[i]
			s, p := buildDMText(j.di, dmValueText(j.di, j.kind), j.kind)
			l.Count("evaluations", 1)
			if p != "" {
				// the writer may choose another encodation or refuse the size: not this check's subject
				l.Count("dm_value_texts_not_usable", 1)
				return
			}
			s.ord = 100000 + i
			syms[i] = s
			d := dm.Symbols[j.di]
			for p := range s.mods {
				if d.DataCW > 400 && p%7 != 0 && p >= 16 && int(s.ref[p]) != 0 {
					continue // the largest symbols: every seventh position, the first 16 and every zero codeword
				}
				for _, x := range []int{0x01, 0x80, 0xFF, int(s.ref[p]), int(s.ref[p]) ^ 0xFF} {
					if x == 0 {
						continue
					}
					f := &fault{CW: []int{p}, XOR: []int{x}}
					try(l, s, f, "dm/values-single", "C05/dm/%svalues/single", "exact", int64(p)<<8|int64(x))
				}
			}
			for fi, fam := range []string{"first", "last", "spread"} {
				f := &fault{}
				for b, ps := range s.blocks {
					for jx, idx := range family(fam, len(ps), s.dataLen[b], s.t()) {
						f.CW = append(f.CW, ps[idx])
						f.XOR = append(f.XOR, xorFor(mixed, jx, idx, b))
					}
				}
				try(l, s, f, "dm/values-t", "C05/dm/%svalues/t-errors/"+fam, "exact", int64(fi))
			}
		})
	var used []*symbol
	seen := [256]bool{}
	for _, s := range syms {
		if s == nil {
			continue
		}
		used = append(used, s)
		d := dm.Symbols[s.DMi]
		for _, v := range s.ref[:d.DataCW] {
			seen[v] = true
		}
	}
	n := 0
	for _, b := range seen {
		if b {
			n++
		}
	}
	chk.Subspace("Data Matrix value-coverage symbols", map[string]interface{}{"symbols_built": len(used), "distinct_data_codeword_values": n, "value_00_present": seen[0], "value_ff_present": seen[255]})
	flush(classCount(used))
}

// qrValueText: with the ISO-8859-1 hint the byte segment is byte-aligned (see buildQRLatin1), so
// a text that runs through the code points U+0000..U+00FF puts every value 0..255 into the data
// codewords.
func qrValueText(v, l int) string {
	hdr := 3
	if v >= 10 {
		hdr = 4
	}
	n := qr.DataCodewords(v, qr.Level(l)) - hdr
	rs := make([]rune, n)
	for i := range rs {
		rs[i] = rune((i + 251*(i/256)) % 256)
	}
	return string(rs)
}

func runQRValues() {
	type job struct{ v, l int }
	jobs := []job{{10, 0}, {13, 1}, {20, 1}, {27, 2}, {34, 0}, {40, 3}}
	syms := make([]*symbol, len(jobs))
	chk.Range("QR symbols whose data codewords run through every value 0..255 (byte-aligned ISO-8859-1 segment of the code points U+0000..U+00FF): versions 10-L, 13-M, 20-M, 27-Q, 34-L, 40-H, library-built and reference-confirmed; codewords damaged alone x {^01,^80,^FF, to 00, to FF} and t per block together (first, last, spread)", len(jobs),
		func(i int) string { return fmt.Sprint(jobs[i]) },
		func(l *mc.Local, i int) {
			j := jobs[i]
			s, p := buildQRLatin1(j.v, j.l, (j.v+j.l)%8, qrValueText(j.v, j.l), false, true)
			l.Count("evaluations", 1)
			if p != "" {
				chk.Violation("C05/pristine-mismatch/qr/values", s.name()+": "+p, rcase{Symbol: s.name(), Kind: "qr", V: j.v, Level: j.l, Mask: (j.v + j.l) % 8, QRVal: true, Key: "C05/pristine-mismatch", Expect: "info"})
				return
			}
			s.qrValues = true
			s.ord = 200000 + i
			syms[i] = s
			seenVal := map[byte]bool{}
			for p := range s.mods {
				// every value once (the first position holding it), every seventh position, and the first 16
				if seenVal[s.ref[p]] && p%7 != 0 && p >= 16 {
					continue
				}
				seenVal[s.ref[p]] = true
				for _, x := range []int{0x01, 0x80, 0xFF, int(s.ref[p]), int(s.ref[p]) ^ 0xFF} {
					if x == 0 {
						continue
					}
					f := &fault{CW: []int{p}, XOR: []int{x}}
					try(l, s, f, "qr/values-single", "C05/qr/%svalues/single", "exact", int64(p)<<8|int64(x))
				}
			}
			for fi, fam := range []string{"first", "last", "spread"} {
				f := &fault{}
				for b, ps := range s.blocks {
					for jx, idx := range family(fam, len(ps), s.dataLen[b], s.t()) {
						f.CW = append(f.CW, ps[idx])
						f.XOR = append(f.XOR, xorFor(mixed, jx, idx, b))
					}
				}
				try(l, s, f, "qr/values-t", "C05/qr/%svalues/t-errors/"+fam, "exact", int64(fi))
			}
		})
	var used []*symbol
	seen := [256]bool{}
	for _, s := range syms {
		if s == nil {
			continue
		}
		used = append(used, s)
		for p, v := range s.ref {
			if w := s.where[p]; w[1] < s.dataLen[w[0]] {
				seen[v] = true
			}
		}
	}
	n := 0
	for _, b := range seen {
		if b {
			n++
		}
	}
	chk.Subspace("QR value-coverage symbols", map[string]interface{}{"symbols_built": len(used), "distinct_data_codeword_values": n})
	flush(classCount(used))
}
