package main

import (
	"fmt"

	"verif/mc"
	"verif/ref/dm"
	"verif/ref/qr"

	"github.com/makiuchi-d/gozxing"
	"github.com/makiuchi-d/gozxing/common"
	"github.com/makiuchi-d/gozxing/datamatrix"
	dmdecoder "github.com/makiuchi-d/gozxing/datamatrix/decoder"
	dmencoder "github.com/makiuchi-d/gozxing/datamatrix/encoder"
	qrdecoder "github.com/makiuchi-d/gozxing/qrcode/decoder"
	qrencoder "github.com/makiuchi-d/gozxing/qrcode/encoder"
)

var libLevels = [4]qrdecoder.ErrorCorrectionLevel{
	qrdecoder.ErrorCorrectionLevel_L, qrdecoder.ErrorCorrectionLevel_M,
	qrdecoder.ErrorCorrectionLevel_Q, qrdecoder.ErrorCorrectionLevel_H,
}

const levelNames = "LMQH"

// symbol is one pristine symbol (built by the library, confirmed module for module by the
// reference) together with the reference address maps used to damage it.
type symbol struct {
	Kind     string // "qr" | "dm"
	Class    string // "v7" | "144x144": the size class used in violation keys
	V        int    // QR version
	L        int    // QR level 0..3 = L M Q H
	Mask     int    // QR mask
	DMi      int    // index into dm.Symbols
	Text     string
	ord      int   // position in the symbol list (deterministic tie-break)
	Twin     bool  // the text is twinText (near-identical data blocks)
	Latin1   bool  // written with the ISO-8859-1 hint (byte-aligned data: padText)
	pad      []int // (block, phase) of padText, for replay records
	qrValues bool  // QR value-coverage symbol (qrValueText, ISO-8859-1 hint)
	dmValues int   // Data Matrix value-coverage symbol: 1.. = kind of dmValueText (0 = the ordinary payload)

	w, h    int
	rows    []*gozxing.BitArray // pristine rows; every decode gets a fresh matrix
	mods    [][8][2]int         // interleaved codeword position -> 8 x (row, col), MSB first
	where   [][2]int            // interleaved codeword position -> (block, index in block)
	blocks  [][]int             // block -> index in block -> interleaved position
	dataLen []int               // data codewords per block
	ec      int                 // error correction codewords per block
	ref     []byte              // reference codeword values, interleaved order

	fmtPos [2][15][2]int   // QR: copy -> bit (LSB = 0) -> (row, col)
	verPos [2][18][2]int   // QR v>=7: copy (0 = top right, 1 = bottom left) -> bit -> (row, col)
	area   map[[2]int]area // QR: (row, col) -> which format / version bit lives there
}

type area struct {
	kind int // 1 = format, 2 = version
	cp   int
	bit  int
}

func (s *symbol) t() int { return s.ec / 2 }

func (s *symbol) name() string {
	if s.Kind == "qr" {
		return fmt.Sprintf("QR v%d-%c mask %d (%d chars)", s.V, levelNames[s.L], s.Mask, len(s.Text))
	}
	d := dm.Symbols[s.DMi]
	return fmt.Sprintf("DataMatrix %dx%d (%d chars)", d.Rows, d.Cols, len(s.Text))
}

const alphabet = "abcdefghijklmnopqrstuvwxyz ABCDEFGHIJKLMNOPQRSTUVWXYZ0123456789.,:-/"

// payload is a fixed printable-ASCII text of n characters determined by (n, seed); the first
// character is a lower-case letter so that the QR encoder must use byte mode.
func payload(n, seed int) string {
	b := make([]byte, n)
	x := seed*131 + 7
	for i := range b {
		x = (x*73 + 41 + i) % 9973
		b[i] = alphabet[x%len(alphabet)]
	}
	if n > 0 {
		b[0] = alphabet[seed%26]
	}
	return string(b)
}

// formatPositions: ISO/IEC 18004 figure "format information positioning". Bit 14 is the most
// significant bit. Copy 1 surrounds the top left finder: bits 0..5 go down column 8 from row 0,
// bit 6 at (7,8), bit 7 at (8,8), bit 8 at (8,7), bits 9..14 in row 8, columns 5..0 (row 6 and
// column 6 hold the timing patterns). Copy 2: bits 0..7 in row 8 from the right edge leftwards,
// bits 8..14 in column 8 from row size-7 down to the bottom edge.
func formatPositions(size int) (p [2][15][2]int) {
	for i := 0; i < 15; i++ {
		switch {
		case i <= 5:
			p[0][i] = [2]int{i, 8}
		case i == 6:
			p[0][i] = [2]int{7, 8}
		case i == 7:
			p[0][i] = [2]int{8, 8}
		case i == 8:
			p[0][i] = [2]int{8, 7}
		default:
			p[0][i] = [2]int{8, 14 - i}
		}
		if i <= 7 {
			p[1][i] = [2]int{8, size - 1 - i}
		} else {
			p[1][i] = [2]int{size - 15 + i, 8}
		}
	}
	return
}

// versionPositions: the 18 bits fill a 6x3 block, least significant bit first. Top right block
// (copy 0): 6 rows x 3 columns left of the top right finder, bit i at (i/3, size-11+i%3).
// Bottom left block (copy 1): 3 rows x 6 columns above the bottom left finder, the transpose.
func versionPositions(size int) (p [2][18][2]int) {
	for i := 0; i < 18; i++ {
		p[0][i] = [2]int{i / 3, size - 11 + i%3}
		p[1][i] = [2]int{size - 11 + i%3, i / 3}
	}
	return
}

// validateInfoMaps checks the two position maps against the reference constructor for every
// (level, mask) on three versions and every version >= 7. A mismatch is a harness error.
func validateInfoMaps() error {
	for _, v := range []int{1, 7, 40} {
		fp := formatPositions(qr.Size(v))
		for l := 0; l < 4; l++ {
			for mask := 0; mask < 8; mask++ {
				m := qr.Build(make([]byte, qr.DataCodewords(v, qr.Level(l))), v, qr.Level(l), mask)
				w := qr.FormatWord(qr.Level(l), mask)
				for cp := 0; cp < 2; cp++ {
					for i := 0; i < 15; i++ {
						rc := fp[cp][i]
						if m[rc[0]][rc[1]] != (w>>uint(i)&1 == 1) {
							return fmt.Errorf("format map: v%d level %d mask %d copy %d bit %d at %v", v, l, mask, cp+1, i, rc)
						}
						if !qr.FunctionModules(v)[rc[0]][rc[1]] {
							return fmt.Errorf("format map: %v is not a function module", rc)
						}
					}
				}
			}
		}
	}
	for v := 7; v <= 40; v++ {
		vp := versionPositions(qr.Size(v))
		m := qr.Build(make([]byte, qr.DataCodewords(v, qr.M)), v, qr.M, v%8)
		w := qr.VersionWord(v)
		for cp := 0; cp < 2; cp++ {
			for i := 0; i < 18; i++ {
				rc := vp[cp][i]
				if m[rc[0]][rc[1]] != (w>>uint(i)&1 == 1) {
					return fmt.Errorf("version map: v%d copy %d bit %d at %v", v, cp, i, rc)
				}
				if !qr.FunctionModules(v)[rc[0]][rc[1]] {
					return fmt.Errorf("version map: %v is not a function module", rc)
				}
			}
		}
	}
	return nil
}

func (s *symbol) setMatrix(bm *gozxing.BitMatrix) {
	s.w, s.h = bm.GetWidth(), bm.GetHeight()
	s.rows = make([]*gozxing.BitArray, s.h)
	for y := 0; y < s.h; y++ {
		s.rows[y] = bm.GetRow(y, nil)
	}
}

func (s *symbol) fresh() *gozxing.BitMatrix {
	bm, _ := gozxing.NewBitMatrix(s.w, s.h)
	for y, r := range s.rows {
		bm.SetRow(y, r)
	}
	return bm
}

func (s *symbol) indexBlocks() {
	nb := len(s.dataLen)
	s.blocks = make([][]int, nb)
	for b := range s.blocks {
		s.blocks[b] = make([]int, s.dataLen[b]+s.ec)
		for i := range s.blocks[b] {
			s.blocks[b][i] = -1
		}
	}
	for p, w := range s.where {
		if s.blocks[w[0]][w[1]] != -1 {
			panic("harness: codeword index map is not injective")
		}
		s.blocks[w[0]][w[1]] = p
	}
	for b := range s.blocks {
		for _, p := range s.blocks[b] {
			if p < 0 {
				panic("harness: codeword index map is not surjective")
			}
		}
	}
}

// buildQR builds the pristine QR symbol with the library and confirms it against qr.Build.
// problem != "" means the symbol must be skipped (reported by the caller).
func buildQR(v, l, mask int) (s *symbol, problem string) {
	L := qr.Level(l)
	n := qr.Capacity(v, L, qr.Byte) - (v+l)%3
	if n < 1 {
		n = 1
	}
	return buildQRText(v, l, mask, payload(n, v*4+l), false)
}

// twinText is a byte-mode text of exactly the capacity whose period is the length of the (short)
// data blocks: every data block then carries the same codewords as the block before it, except
// for the two codewords that hold the mode and count header (first block) and, in long blocks, the
// extra last codeword.
func twinText(v, l int) string {
	L := qr.Level(l)
	n := qr.Capacity(v, L, qr.Byte)
	per := qr.Blocks(v, L)[0]
	b := make([]byte, n)
	for i := range b {
		b[i] = alphabet[(i%per*7+3)%len(alphabet)]
	}
	b[0] = 'q'
	return string(b)
}

func buildQRText(v, l, mask int, text string, twin bool) (s *symbol, problem string) {
	return buildQRLatin1(v, l, mask, text, twin, false)
}

// buildQRLatin1: with latin1 set the text (code points <= U+00FF) is written with the ISO-8859-1
// hint: the 12-bit ECI header makes the byte segment byte-aligned, so every data codeword after
// the three header codewords is one text byte - the data blocks can then be chosen freely.
func buildQRLatin1(v, l, mask int, text string, twin, latin1 bool) (s *symbol, problem string) {
	L := qr.Level(l)
	s = &symbol{Kind: "qr", Class: fmt.Sprintf("v%d", v), V: v, L: l, Mask: mask, Text: text, Twin: twin, Latin1: latin1}
	var code *qrencoder.QRCode
	var err error
	msg, site := mc.Guard(func() {
		h := map[gozxing.EncodeHintType]interface{}{
			gozxing.EncodeHintType_QR_VERSION:      v,
			gozxing.EncodeHintType_QR_MASK_PATTERN: mask,
		}
		if latin1 {
			h[gozxing.EncodeHintType_CHARACTER_SET] = "ISO-8859-1"
		}
		c, e := qrencoder.Encoder_encode(text, libLevels[l], h)
		code = c
		if e != nil {
			err = e
		}
	})
	if msg != "" {
		return s, "library encoder panicked at " + site + ": " + msg
	}
	if err != nil || code == nil || code.GetMatrix() == nil {
		return s, fmt.Sprintf("library encoder refused the payload: %v", err)
	}
	seg := qr.Segment{Mode: qr.Byte, Data: []byte(text), ECI: -1}
	if latin1 {
		b := make([]byte, 0, len(text))
		for _, r := range text {
			b = append(b, byte(r))
		}
		seg = qr.Segment{Mode: qr.Byte, Data: b, ECI: 1}
		if code.GetMatrix() != nil {
			// the designator for ISO-8859-1 may be 1 or 3 (both are registered for it): follow the symbol
			if _, _, _, d0, e0 := qr.Read(toBoolsByteMatrix(code.GetMatrix())); e0 == nil && len(d0) > 1 && d0[0] == 0x70 && d0[1]>>4 == 3 {
				seg.ECI = 3
			}
		}
	}
	data, e := qr.DataCodewordsFor([]qr.Segment{seg}, v, L)
	if e != nil {
		panic("harness: reference cannot encode the payload: " + e.Error())
	}
	want := qr.Build(data, v, L, mask)
	bmx := code.GetMatrix()
	size := qr.Size(v)
	if bmx.GetWidth() != size || bmx.GetHeight() != size {
		return s, fmt.Sprintf("library matrix is %dx%d, expected %d", bmx.GetWidth(), bmx.GetHeight(), size)
	}
	bm, _ := gozxing.NewSquareBitMatrix(size)
	for r := 0; r < size; r++ {
		for c := 0; c < size; c++ {
			got := bmx.Get(c, r) == 1
			if got != want[r][c] {
				return s, fmt.Sprintf("module (row %d, col %d) is %v in the library symbol, %v in the reference symbol", r, c, got, want[r][c])
			}
			if got {
				bm.Set(c, r)
			}
		}
	}
	s.setMatrix(bm)
	s.mods = qr.CodewordModules(v)
	s.where = qr.CodewordIndex(v, L)
	s.dataLen = qr.Blocks(v, L)
	ec, nb := qr.ECInfo(v, L)
	s.ec = ec
	if nb != len(s.dataLen) || len(s.mods) != qr.TotalCodewords(v) || len(s.where) != len(s.mods) {
		panic("harness: inconsistent reference tables")
	}
	s.ref = qr.Interleave(data, v, L)
	s.indexBlocks()
	// the address map must read back the reference codewords from the reference symbol
	for p := range s.mods {
		var b byte
		for k := 0; k < 8; k++ {
			rc := s.mods[p][k]
			bit := want[rc[0]][rc[1]] != qr.MaskBit(mask, rc[0], rc[1])
			b <<= 1
			if bit {
				b |= 1
			}
		}
		if b != s.ref[p] {
			panic(fmt.Sprintf("harness: codeword %d reads %02x through the module map, reference stream has %02x", p, b, s.ref[p]))
		}
	}
	// every block, gathered through the index map, must be data followed by its parity
	for b, ps := range s.blocks {
		k := s.dataLen[b]
		d := make([]byte, k)
		for i := 0; i < k; i++ {
			d[i] = s.ref[ps[i]]
		}
		par := qr.ECC(d, s.ec)
		for i := range par {
			if par[i] != s.ref[ps[k+i]] {
				panic("harness: block map does not select data+parity")
			}
		}
	}
	s.fmtPos = formatPositions(size)
	s.area = map[[2]int]area{}
	for cp := 0; cp < 2; cp++ {
		for i := 0; i < 15; i++ {
			s.area[s.fmtPos[cp][i]] = area{1, cp, i}
		}
	}
	if v >= 7 {
		s.verPos = versionPositions(size)
		for cp := 0; cp < 2; cp++ {
			for i := 0; i < 18; i++ {
				s.area[s.verPos[cp][i]] = area{2, cp, i}
			}
		}
	}
	return s, ""
}

func toBoolsByteMatrix(m *qrencoder.ByteMatrix) [][]bool {
	out := make([][]bool, m.GetHeight())
	for y := range out {
		out[y] = make([]bool, m.GetWidth())
		for x := range out[y] {
			out[y][x] = m.Get(x, y) == 1
		}
	}
	return out
}

// padText: a Latin-1 text of exactly the byte capacity (behind the ECI header) in which ONE whole
// data block - block b - spells the pad codeword sequence EC 11 EC 11 ... (phase 0) or 11 EC 11 EC ...
// (phase 1); everything else is ordinary text.
func padText(v, l, b, phase int) string {
	L := qr.Level(l)
	sizes := qr.Blocks(v, L)
	hdr := 3
	if v >= 10 {
		hdr = 4
	}
	n := qr.DataCodewords(v, L) - hdr
	rs := make([]rune, n)
	for i := range rs {
		rs[i] = rune(alphabet[(i*11+5)%len(alphabet)])
	}
	off := 0
	for k := 0; k < b; k++ {
		off += sizes[k]
	}
	for i := 0; i < sizes[b]; i++ {
		if p := off + i - hdr; p >= 0 && p < n {
			rs[p] = rune([]int{0xEC, 0x11}[(i+phase)%2])
		}
	}
	return string(rs)
}

func toBools(bm *gozxing.BitMatrix) [][]bool {
	m := make([][]bool, bm.GetHeight())
	for r := range m {
		m[r] = make([]bool, bm.GetWidth())
		for c := range m[r] {
			m[r][c] = bm.Get(c, r)
		}
	}
	return m
}

// dmWhere gives (block, index in block) of every position of the Data Matrix codeword stream
// (data then error correction). Data codeword i belongs to block i mod B; error codeword k (counted
// from the first error codeword) sits at interleave offset k mod B, which belongs to block k mod B
// except in 144x144 where the block cycle continues after the 1558 data codewords: offset j
// belongs to block (j+8) mod 10 (ISO/IEC 16022 interleaves the whole stream; see
// dm.CodewordsSkewed144).
func dmWhere(d dm.Symbol) [][2]int {
	B := d.Blocks
	sizes := d.BlockDataSizes()
	w := make([][2]int, d.TotalCW())
	for i := 0; i < d.DataCW; i++ {
		w[i] = [2]int{i % B, i / B}
	}
	for k := 0; k < d.ECCW; k++ {
		b := k % B
		if d.Rows == 144 {
			b = (k%B + 8) % 10
		}
		w[d.DataCW+k] = [2]int{b, sizes[b] + k/B}
	}
	return w
}

func encodeDM(text string, d dm.Symbol) (bm *gozxing.BitMatrix, problem string) {
	dim, _ := gozxing.NewDimension(d.Cols, d.Rows)
	var err error
	msg, site := mc.Guard(func() {
		bm, err = datamatrix.NewDataMatrixWriter().Encode(text, gozxing.BarcodeFormat_DATA_MATRIX, 0, 0,
			map[gozxing.EncodeHintType]interface{}{
				gozxing.EncodeHintType_DATA_MATRIX_SHAPE: dmencoder.SymbolShapeHint_FORCE_NONE,
				gozxing.EncodeHintType_MIN_SIZE:          dim,
				gozxing.EncodeHintType_MAX_SIZE:          dim,
			})
	})
	if msg != "" {
		return nil, "library writer panicked at " + site + ": " + msg
	}
	if err != nil || bm == nil {
		return nil, fmt.Sprintf("library writer refused the payload: %v", err)
	}
	if bm.GetWidth() != d.Cols || bm.GetHeight() != d.Rows {
		return nil, fmt.Sprintf("library symbol is %dx%d (rows x cols), asked for %dx%d", bm.GetHeight(), bm.GetWidth(), d.Rows, d.Cols)
	}
	return bm, ""
}

// confirmDM checks a library symbol against the reference: the reference reader extracts the
// codewords, the reference stream decoder must give the text, the error codewords must be the
// reference's, and the reference constructor must redraw the same modules.
func confirmDM(bm *gozxing.BitMatrix, text string, d dm.Symbol) (cw []byte, padStart int, problem string) {
	m := toBools(bm)
	cw, d2, err := dm.ReadCodewords(m)
	if err != nil || d2.Rows != d.Rows || d2.Cols != d.Cols {
		return nil, 0, fmt.Sprintf("reference reader: %v", err)
	}
	got, pad, err := dm.DecodeStreamPad(cw[:d.DataCW])
	if err != nil || got != text {
		return nil, 0, fmt.Sprintf("reference stream decoder reads %q (err %v) from the library symbol", clip(got), err)
	}
	full := dm.CodewordsSkewed144(cw[:d.DataCW], d)
	for i := range full {
		if full[i] != cw[i] {
			return nil, 0, fmt.Sprintf("codeword %d of the library symbol is %02x, reference error correction gives %02x", i, cw[i], full[i])
		}
	}
	want := dm.Build(cw, d)
	for r := range want {
		for c := range want[r] {
			if want[r][c] != m[r][c] {
				return nil, 0, fmt.Sprintf("module (row %d, col %d) is %v in the library symbol, %v in the reference symbol", r, c, m[r][c], want[r][c])
			}
		}
	}
	return cw, pad, ""
}

// buildDM finds the longest payload (a few adaptive steps, deterministic) that the library
// writes into exactly symbol size d and that the reference confirms.
func buildDM(di int) (s *symbol, problem string) {
	d := dm.Symbols[di]
	s = &symbol{Kind: "dm", Class: fmt.Sprintf("%dx%d", d.Rows, d.Cols), DMi: di}
	var best *gozxing.BitMatrix
	var bestCW []byte
	n := d.DataCW
	firstProblem := ""
	for step := 0; step < 8 && n >= 1; step++ {
		text := payload(n, 1000+di)
		bm, p := encodeDM(text, d)
		var cw []byte
		pad := 0
		if p == "" {
			cw, pad, p = confirmDM(bm, text, d)
		}
		if p != "" {
			if firstProblem == "" {
				firstProblem = fmt.Sprintf("%d chars: %s", n, p)
			}
			if best != nil {
				break
			}
			n = n * 3 / 4
			continue
		}
		if best == nil || len(text) > len(s.Text) {
			best, bestCW, s.Text = bm, cw, text
		}
		room := d.DataCW - pad
		if room <= 1 {
			break
		}
		n = len(text) + room - 1
	}
	if best == nil {
		return s, firstProblem
	}
	finishDM(s, d, best, bestCW)
	return s, ""
}

// buildDMText: the library's symbol of size di for exactly this text (value-coverage family).
func buildDMText(di int, text string, valueKind int) (s *symbol, problem string) {
	d := dm.Symbols[di]
	s = &symbol{Kind: "dm", Class: fmt.Sprintf("%dx%d", d.Rows, d.Cols), DMi: di, Text: text, dmValues: valueKind}
	bm, p := encodeDM(text, d)
	if p != "" {
		return s, p
	}
	cw, _, p := confirmDM(bm, text, d)
	if p != "" {
		return s, p
	}
	finishDM(s, d, bm, cw)
	return s, ""
}

func finishDM(s *symbol, d dm.Symbol, best *gozxing.BitMatrix, bestCW []byte) {
	s.setMatrix(best)
	s.mods = dm.ModulePositions(d)
	s.where = dmWhere(d)
	s.dataLen = d.BlockDataSizes()
	s.ec = d.ECPerBlock()
	s.ref = bestCW
	if len(s.mods) != d.TotalCW() {
		panic("harness: dm module map size")
	}
	s.indexBlocks()
	for b, ps := range s.blocks {
		blk := make([]byte, len(ps))
		for i, p := range ps {
			blk[i] = s.ref[p]
		}
		for _, x := range dm.Syndromes(blk, s.ec) {
			if x != 0 {
				panic(fmt.Sprintf("harness: dm block map: block %d of %s is not a codeword", b, s.Class))
			}
		}
	}
	// the module map must read the reference codewords back
	m := toBools(best)
	for p := range s.mods {
		var b byte
		for k := 0; k < 8; k++ {
			rc := s.mods[p][k]
			b <<= 1
			if m[rc[0]][rc[1]] {
				b |= 1
			}
		}
		if b != s.ref[p] {
			panic("harness: dm module map does not read back the codewords")
		}
	}
}

func clip(t string) string {
	if len(t) > 60 {
		return t[:60] + "..."
	}
	return t
}

// ---------------------------------------------------------------------------------------
// damage and decode

// fault is one damage pattern: codeword replacements (applied as module flips at the reference
// positions) plus individual module flips (format / version information bits).
type fault struct {
	CW    []int    // interleaved codeword positions
	XOR   []int    // value XORed into each
	Flips [][2]int // (row, col)
}

type outcome struct {
	Kind string // exact | error | different | panic
	Text string
	Err  string
	Site string
	Raw  []byte
}

func (s *symbol) decode(f *fault) outcome {
	bm := s.fresh()
	for i, p := range f.CW {
		x := f.XOR[i]
		for k := 0; k < 8; k++ {
			if x&(0x80>>uint(k)) != 0 {
				rc := s.mods[p][k]
				bm.Flip(rc[1], rc[0])
			}
		}
	}
	for _, rc := range f.Flips {
		bm.Flip(rc[1], rc[0])
	}
	var res *common.DecoderResult
	var err error
	msg, site := mc.Guard(func() {
		if s.Kind == "qr" {
			res, err = qrdecoder.NewDecoder().Decode(bm, nil)
		} else {
			res, err = dmdecoder.NewDecoder().Decode(bm)
		}
	})
	switch {
	case msg != "":
		return outcome{Kind: "panic", Err: msg, Site: site}
	case err != nil || res == nil:
		return outcome{Kind: "error", Err: fmt.Sprint(err)}
	case res.GetText() == s.Text:
		return outcome{Kind: "exact"}
	}
	return outcome{Kind: "different", Text: res.GetText(), Raw: res.GetRawBytes()}
}

// load tells how heavy a fault is: the number of damaged codewords per block, the number of
// flipped bits per copy of the format and of the version information, and whether any flip
// lies elsewhere.
type load struct {
	perBlock []int
	fmtBits  [2]int
	verBits  [2]int
	other    int
}

func (s *symbol) load(f *fault) load {
	ld := load{perBlock: make([]int, len(s.blocks))}
	seen := map[int]bool{}
	for i, p := range f.CW {
		if f.XOR[i]&0xFF == 0 || seen[p] {
			continue
		}
		seen[p] = true
		ld.perBlock[s.where[p][0]]++
	}
	cnt := map[[2]int]int{}
	for _, rc := range f.Flips {
		cnt[rc]++
	}
	for rc, n := range cnt {
		if n%2 == 0 {
			continue
		}
		a, ok := s.area[rc]
		switch {
		case !ok:
			ld.other++
		case a.kind == 1:
			ld.fmtBits[a.cp]++
		default:
			ld.verBits[a.cp]++
		}
	}
	return ld
}

// within reports whether the fault is inside the capacity the property promises.
func (s *symbol) within(ld load) bool {
	for _, n := range ld.perBlock {
		if n > s.t() {
			return false
		}
	}
	return ld.other == 0 && ld.fmtBits[0] <= 3 && ld.fmtBits[1] <= 3 && ld.verBits[0] <= 3 && ld.verBits[1] <= 3
}

// legitMiscorrection decides, for a decode that returned different text from a symbol damaged
// beyond capacity in its codewords only, whether the returned data codewords are what ANY
// bounded-distance Reed-Solomon decoder has to return: in every block the returned data,
// re-encoded by the reference, must lie within t codewords of the received block (the codeword
// within distance t of a word is unique).
func (s *symbol) legitMiscorrection(f *fault, raw []byte) bool {
	if len(f.Flips) != 0 {
		return false
	}
	total := 0
	for _, k := range s.dataLen {
		total += k
	}
	if len(raw) != total {
		return false
	}
	rcv := append([]byte{}, s.ref...)
	for i, p := range f.CW {
		rcv[p] ^= byte(f.XOR[i])
	}
	nb := len(s.blocks)
	off := 0
	for b, ps := range s.blocks {
		k := s.dataLen[b]
		d := make([]byte, k)
		for i := 0; i < k; i++ {
			if s.Kind == "qr" {
				d[i] = raw[off+i] // blocks one after the other
			} else {
				d[i] = raw[i*nb+b] // re-interleaved data stream
			}
		}
		off += k
		var par []byte
		if s.Kind == "qr" {
			par = qr.ECC(d, s.ec)
		} else {
			par = dm.RSParity(d, s.ec)
		}
		dist := 0
		for i, p := range ps {
			v := byte(0)
			if i < k {
				v = d[i]
			} else {
				v = par[i-k]
			}
			if v != rcv[p] {
				dist++
			}
		}
		if dist > s.t() {
			return false
		}
	}
	return true
}
