package main

// Decoder-object histories: ONE qrcode/decoder.Decoder (resp. datamatrix/decoder.Decoder) object
// decodes a sequence of damaged symbols whose blocks carry DIFFERENT numbers of error-correction
// codewords, in every order; each symbol is damaged within the promised capacity (t codewords in
// every block) and must decode to its own text exactly as with a fresh decoder object.

import (
	"fmt"

	"verif/mc"

	"github.com/makiuchi-d/gozxing"
	"github.com/makiuchi-d/gozxing/common"
	dmdecoder "github.com/makiuchi-d/gozxing/datamatrix/decoder"
	qrdecoder "github.com/makiuchi-d/gozxing/qrcode/decoder"
)

type histCase struct {
	Kind  string
	Names []string
}

// damaged returns the symbol with t codewords damaged in every block (family "first").
func (s *symbol) damagedFull() *gozxing.BitMatrix {
	bm := s.fresh()
	for _, b := range s.blocks {
		for i := 0; i < s.t() && i < len(b); i++ {
			p := b[i]
			for k := 0; k < 8; k++ {
				if 0xA5&(0x80>>uint(k)) != 0 {
					rc := s.mods[p][k]
					bm.Flip(rc[1], rc[0])
				}
			}
		}
	}
	return bm
}

func runDecoderHistories() {
	type fam struct {
		kind string
		syms []*symbol
	}
	var qs, ds []*symbol
	for _, vl := range [][2]int{{1, 3}, {1, 0}, {2, 2}, {5, 3}, {7, 0}, {3, 1}} {
		if s := qrMain[vl[0]][vl[1]]; s != nil {
			qs = append(qs, s)
		}
	}
	for i, s := range dmSyms {
		if s != nil && (i == 0 || i == 3 || i == 7 || i == 12 || i == 16 || i == len(dmSyms)-6) {
			ds = append(ds, s)
		}
	}
	fams := []fam{{"qr", qs}, {"dm", ds}}
	type job struct {
		f       int
		a, b, c int
	}
	var jobs []job
	for fi, f := range fams {
		n := len(f.syms)
		for a := 0; a < n; a++ {
			for b := 0; b < n; b++ {
				for c := 0; c < n; c++ {
					jobs = append(jobs, job{fi, a, b, c})
				}
			}
		}
	}
	chk.Range(fmt.Sprintf("decoder-object histories: ONE decoder object decodes every ordered triple of %d QR / %d Data Matrix symbols with different error-correction sizes, each damaged with t codewords in every block (and, as a second pass, the first of the three undamaged): every text exact", len(qs), len(ds)), len(jobs),
		func(i int) string { return fmt.Sprint(jobs[i]) },
		func(l *mc.Local, i int) {
			j := jobs[i]
			f := fams[j.f]
			for pass := 0; pass < 2; pass++ {
				var qd *qrdecoder.Decoder
				var dd *dmdecoder.Decoder
				if f.kind == "qr" {
					qd = qrdecoder.NewDecoder()
				} else {
					dd = dmdecoder.NewDecoder()
				}
				var names []string
				for ci, si := range []int{j.a, j.b, j.c} {
					s := f.syms[si]
					names = append(names, s.name())
					bm := s.damagedFull()
					if pass == 1 && ci == 0 {
						bm = s.fresh()
					}
					var res *common.DecoderResult
					var err error
					l.Beat("")
					msg, site := mc.Guard(func() {
						if qd != nil {
							res, err = qd.Decode(bm, nil)
						} else {
							res, err = dd.Decode(bm)
						}
					})
					l.Count("evaluations", 1)
					hc := histCase{f.kind, append([]string{}, names...)}
					switch {
					case msg != "":
						chk.Violation("C05/"+f.kind+"/decoder-history/panic/"+site, fmt.Sprintf("one %s decoder object, symbols %v: panic %s", f.kind, names, msg), hc)
						return
					case err != nil || res == nil:
						chk.Violation("C05/"+f.kind+"/decoder-history", fmt.Sprintf("one %s decoder object, after %v: symbol %d (t damaged codewords in every block) gives error %v; a fresh decoder object restores it", f.kind, names[:ci], ci+1, err), hc)
						return
					case res.GetText() != s.Text:
						chk.Violation("C05/"+f.kind+"/decoder-history", fmt.Sprintf("one %s decoder object, after %v: symbol %d decodes to different text", f.kind, names[:ci], ci+1), hc)
						return
					}
				}
			}
			l.Distinct("nontrivial", fmt.Sprint("dhist", j))
		})
	chk.Sample("decoder history", histCase{"qr", []string{"QR 1-H damaged", "QR 1-L damaged"}})
}
