package main

// Decoder-object histories: ONE qrcode/decoder.Decoder (resp. datamatrix/decoder.Decoder) object
// decodes a sequence of damaged symbols whose blocks carry DIFFERENT numbers of error-correction
// codewords, in every order; each symbol is damaged within the promised capacity (t codewords in
// every block) and must decode to its own text exactly as with a fresh decoder object.

import (
	"fmt"

	"verif/mc"

	"github.com/makiuchi-d/gozxing"
	"github.com/makiuchi-d/gozxing/common"
	dmdecoder "github.com/makiuchi-d/gozxing/datamatrix/decoder"
	qrdecoder "github.com/makiuchi-d/gozxing/qrcode/decoder"
)

func errClassOf(err error) string {
	if err == nil {
		return "some text"
	}
	return fmt.Sprintf("%T", err)
}

type histCase struct {
	Kind  string
	Names []string
}

// damaged returns the symbol with t codewords damaged in every block (family "first").
func (s *symbol) damagedFull() *gozxing.BitMatrix {
	bm := s.fresh()
	for _, b := range s.blocks {
		for i := 0; i < s.t() && i < len(b); i++ {
			p := b[i]
			for k := 0; k < 8; k++ {
				if 0xA5&(0x80>>uint(k)) != 0 {
					rc := s.mods[p][k]
					bm.Flip(rc[1], rc[0])
				}
			}
		}
	}
	return bm
}

// damagedOver: t+2 codewords replaced in every block - beyond the promise; the outcome of that
// call is not judged (error or any text), only that the decoder object stays usable.
func (s *symbol) damagedOver(kind int) *gozxing.BitMatrix {
	bm := s.fresh()
	if kind == 1 { // every module inverted: function patterns, format information and data are all wrong
		for y := 0; y < bm.GetHeight(); y++ {
			for x := 0; x < bm.GetWidth(); x++ {
				bm.Flip(x, y)
			}
		}
		return bm
	}
	for _, b := range s.blocks {
		for i := 0; i < s.t()+2 && i < len(b); i++ {
			p := b[len(b)-1-i]
			for k := 0; k < 8; k++ {
				if (0x3C+17*i)&(0x80>>uint(k)) != 0 {
					rc := s.mods[p][k]
					bm.Flip(rc[1], rc[0])
				}
			}
		}
	}
	return bm
}

func runDecoderHistories() {
	type fam struct {
		kind string
		syms []*symbol
	}
	var qs, ds []*symbol
	for _, vl := range [][2]int{{1, 3}, {1, 0}, {2, 2}, {5, 3}, {7, 0}, {3, 1}} {
		if s := qrMain[vl[0]][vl[1]]; s != nil {
			qs = append(qs, s)
		}
	}
	for i, s := range dmSyms {
		if s != nil && (i == 0 || i == 3 || i == 7 || i == 12 || i == 16 || i == len(dmSyms)-6) {
			ds = append(ds, s)
		}
	}
	fams := []fam{{"qr", qs}, {"dm", ds}}
	type job struct {
		f       int
		a, b, c int
	}
	var jobs []job
	for fi, f := range fams {
		n := len(f.syms)
		for a := 0; a < n; a++ {
			for b := 0; b < n; b++ {
				for c := 0; c < n; c++ {
					jobs = append(jobs, job{fi, a, b, c})
				}
			}
		}
	}
	chk.Range(fmt.Sprintf("decoder-object histories: ONE decoder object decodes every ordered triple of %d QR / %d Data Matrix symbols with different error-correction sizes, each damaged with t codewords in every block (and, as further passes, the first of the three undamaged, and the first / the second damaged BEYOND capacity - t+2 codewords per block, or every module inverted - whose own outcome is not judged): every other text exact", len(qs), len(ds)), len(jobs),
		func(i int) string { return fmt.Sprint(jobs[i]) },
		func(l *mc.Local, i int) {
			j := jobs[i]
			f := fams[j.f]
			// pass 0: all damaged within capacity; 1: first one clean; 2..5: the first / the second symbol
			// is damaged BEYOND capacity (t+2 codewords per block, or every module inverted): that
			// call may fail in any way short of a panic, the following ones must still decode
			for pass := 0; pass < 6; pass++ {
				var qd *qrdecoder.Decoder
				var dd *dmdecoder.Decoder
				if f.kind == "qr" {
					qd = qrdecoder.NewDecoder()
				} else {
					dd = dmdecoder.NewDecoder()
				}
				var names []string
				for ci, si := range []int{j.a, j.b, j.c} {
					s := f.syms[si]
					names = append(names, s.name())
					bm := s.damagedFull()
					if pass == 1 && ci == 0 {
						bm = s.fresh()
					}
					over := pass >= 2 && ci == (pass-2)/2
					if over {
						bm = s.damagedOver(pass % 2)
					}
					var res *common.DecoderResult
					var err error
					l.Beat("")
					msg, site := mc.Guard(func() {
						if qd != nil {
							res, err = qd.Decode(bm, nil)
						} else {
							res, err = dd.Decode(bm)
						}
					})
					l.Count("evaluations", 1)
					hc := histCase{f.kind, append([]string{}, names...)}
					switch {
					case msg != "":
						chk.Violation("C05/"+f.kind+"/decoder-history/panic/"+site, fmt.Sprintf("one %s decoder object, symbols %v: panic %s", f.kind, names, msg), hc)
						return
					case over:
						names[len(names)-1] += " (damaged beyond capacity)"
						l.Distinct("outcomes", fmt.Sprint("over-damaged call: ", errClassOf(err)))
					case err != nil || res == nil:
						chk.Violation("C05/"+f.kind+"/decoder-history", fmt.Sprintf("one %s decoder object, after %v: symbol %d (t damaged codewords in every block) gives error %v; a fresh decoder object restores it", f.kind, names[:ci], ci+1, err), hc)
						return
					case res.GetText() != s.Text:
						chk.Violation("C05/"+f.kind+"/decoder-history", fmt.Sprintf("one %s decoder object, after %v: symbol %d decodes to different text", f.kind, names[:ci], ci+1), hc)
						return
					}
				}
			}
			l.Distinct("nontrivial", fmt.Sprint("dhist", j))
		})
	chk.Sample("decoder history", histCase{"qr", []string{"QR 1-H damaged", "QR 1-L damaged"}})
}
