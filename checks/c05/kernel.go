package main

// Errors chosen for the SHAPE of the decoder's first division. The Euclidean run of the
// Reed-Solomon decoder starts by dividing x^ec by the syndrome polynomial; with random or
// menu-driven magnitudes every quotient has degree 1. Here the magnitudes of 3 or 4 damaged
// codewords per block are solved (verif/ref/gf, linear algebra over the symbol's field) so that
// chosen syndromes vanish: the top one and every second below it (first quotient of degree 2 with
// a zero middle coefficient and a non-zero one after it), or the top two and then every second
// (degree 3 with an inner zero). The damage is far inside the capacity floor(ec/2) and must be
// corrected exactly. Position families first / last / evenly spread, in every block at once.

import (
	"fmt"

	"verif/mc"
	"verif/ref/gf"
)

func runEuclidShapes() {
	all := append(mainQR(), dmSyms...)
	chk.Range(fmt.Sprintf("3 or 4 errors per block with magnitudes solved so that chosen syndromes vanish (top and every second below; top two and every second below): shapes of the decoder's first quotient; position families {first, last, spread}; in every block simultaneously; %d symbols", len(all)), len(all),
		func(i int) string { return all[i].name() },
		func(l *mc.Local, i int) {
			s := all[i]
			f, base := gf.Field{Poly: 0x11D, Size: 256}, 0
			if s.Kind == "dm" {
				f, base = gf.Field{Poly: 0x12D, Size: 256}, 1
			}
			r := s.ec
			for tp := 3; tp <= 4 && tp <= s.t(); tp++ {
				for si := 0; si < 2; si++ {
					var rows []int
					for q := 0; q < tp-1; q++ {
						switch {
						case si == 0:
							rows = append(rows, r-1-2*q)
						case q < 2:
							rows = append(rows, r-1-q)
						default:
							rows = append(rows, r-2*q)
						}
					}
					if rows[len(rows)-1] < 0 {
						continue
					}
					for fi, fam := range []string{"first", "last", "spread"} {
						ft := &fault{}
						usable := true
						for b, ps := range s.blocks {
							pos := family(fam, len(ps), s.dataLen[b], tp)
							mag := f.KernelErrors(len(ps), pos, rows, base)
							if mag == nil {
								usable = false
								break
							}
							for j, idx := range pos {
								if mag[j] == 0 {
									usable = false
								}
								ft.CW = append(ft.CW, ps[idx])
								ft.XOR = append(ft.XOR, mag[j])
							}
						}
						if !usable {
							l.Count("euclid_shapes_unusable_kernel", 1)
							continue
						}
						l.Count("euclid_shape_cases", 1)
						try(l, s, ft, s.Kind+"/euclid-shapes", "C05/"+s.Kind+"/%seuclid-shapes/"+fam, "exact", int64(tp*16+si*4+fi))
					}
				}
			}
		})
	flush(classCount(all))
}

// runCosetErrors: 3 (5, 15, 17) damaged codewords of one block at block positions p, p+85, p+170
// (p+51.., p+17.., p+15..): their locators are a coset of roots of unity and the error-locator
// polynomial has a single non-constant term, whatever the damage values are. Only blocks of at
// least 171 codewords can hold such a pattern - the Data Matrix sizes from 88x88 up; the longest QR
// block has 153 codewords. Every such block of every symbol, three start positions, two damage
// value sets, the other blocks undamaged.
func runCosetErrors() {
	all := append(mainQR(), dmSyms...)
	type job struct {
		s    *symbol
		b, e int
	}
	var jobs []job
	for _, s := range all {
		for b, ps := range s.blocks {
			for _, e := range []int{3, 5, 15, 17} {
				if (e-1)*(255/e)+1 <= len(ps) && e <= s.t() {
					jobs = append(jobs, job{s, b, e})
				}
			}
		}
	}
	chk.Range(fmt.Sprintf("e = 3, 5, 15, 17 damaged codewords of ONE block at spacing 255/e (locator polynomial 1 + c*x^e): every block long enough (171 / 205 / 239 / 241 codewords: Data Matrix 88x88 and larger) x start positions {0, 1, last possible} x 2 damage value sets [%d block cases]", len(jobs)), len(jobs),
		func(i int) string { return fmt.Sprint(jobs[i].s.name(), " block ", jobs[i].b, " e=", jobs[i].e) },
		func(l *mc.Local, i int) {
			j := jobs[i]
			ps := j.s.blocks[j.b]
			sp := 255 / j.e
			last := len(ps) - 1 - (j.e-1)*sp
			for pi, p0 := range []int{0, 1, last} {
				if p0 > last || (pi > 0 && p0 == 0) {
					continue
				}
				for m := 0; m < 2; m++ {
					f := &fault{}
					for q := 0; q < j.e; q++ {
						f.CW = append(f.CW, ps[p0+q*sp])
						f.XOR = append(f.XOR, []int{0x01, 1 + (q*37+p0*11+5)%255}[m])
					}
					try(l, j.s, f, j.s.Kind+"/coset-errors", "C05/"+j.s.Kind+"/%scoset-errors", "exact", int64(j.b*1000+j.e*10+pi*2+m))
					l.Count("coset_error_cases", 1)
				}
			}
		})
	flush(classCount(all))
}

// runFullCapacityShapes: exactly t = floor(ec/2) damaged codewords per block - the full capacity -
// whose damage values are solved so that the two highest syndromes (and, second variant, the
// highest and the third) vanish: the stop rule of the Euclidean run is decided by degrees that are
// then two lower than usual, at the very limit of what may be corrected. t-2 values are fixed, the
// last two solved in the symbol's field. Position families first / last / spread, all blocks at once.
func runFullCapacityShapes() {
	all := append(mainQR(), dmSyms...)
	chk.Range(fmt.Sprintf("t = floor(ec/2) errors per block (full capacity) with damage values solved so that two chosen high syndromes vanish ({top, top-1}, {top, top-2}); position families {first, last, spread}; every block simultaneously; %d symbols", len(all)), len(all),
		func(i int) string { return all[i].name() },
		func(l *mc.Local, i int) {
			s := all[i]
			F, base := gf.Field{Poly: 0x11D, Size: 256}, 0
			if s.Kind == "dm" {
				F, base = gf.Field{Poly: 0x12D, Size: 256}, 1
			}
			r, t := s.ec, s.t()
			if t < 3 {
				return
			}
			for vi, rows := range [][2]int{{r - 1, r - 2}, {r - 1, r - 3}} {
				for fi, fam := range []string{"first", "last", "spread"} {
					ft := &fault{}
					usable := true
					for b, ps := range s.blocks {
						n := len(ps)
						pos := family(fam, n, s.dataLen[b], t)
						if len(pos) != t {
							usable = false
							break
						}
						loc := make([]int, t)
						for q, p := range pos {
							loc[q] = F.Pow(gf.Alpha, n-1-p)
						}
						mag := make([]int, t)
						for q := 0; q < t-2; q++ {
							mag[q] = 1 + (q*37+b*11+fi*5)%255
						}
						A := [][]int{{0, 0}, {0, 0}}
						rhs := []int{0, 0}
						for e, row := range rows {
							for q := 0; q < t-2; q++ {
								rhs[e] ^= F.Mul(mag[q], F.Pow(loc[q], row+base))
							}
							A[e][0] = F.Pow(loc[t-2], row+base)
							A[e][1] = F.Pow(loc[t-1], row+base)
						}
						x, ok := F.Solve(A, rhs)
						if !ok || x[0] == 0 || x[1] == 0 {
							usable = false
							break
						}
						mag[t-2], mag[t-1] = x[0], x[1]
						for q, idx := range pos {
							ft.CW = append(ft.CW, ps[idx])
							ft.XOR = append(ft.XOR, mag[q])
						}
					}
					if !usable {
						l.Count("full_capacity_shapes_unusable", 1)
						continue
					}
					l.Count("full_capacity_shape_cases", 1)
					try(l, s, ft, s.Kind+"/full-capacity-shapes", "C05/"+s.Kind+"/%sfull-capacity-shapes/"+fam, "exact", int64(vi*8+fi))
				}
			}
		})
	flush(classCount(all))
}
