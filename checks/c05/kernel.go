package main

// Errors chosen for the SHAPE of the decoder's first division. The Euclidean run of the
// Reed-Solomon decoder starts by dividing x^ec by the syndrome polynomial; with random or
// menu-driven magnitudes every quotient has degree 1. Here the magnitudes of 3 or 4 damaged
// codewords per block are solved (verif/ref/gf, linear algebra over the symbol's field) so that
// chosen syndromes vanish: the top one and every second below it (first quotient of degree 2 with
// a zero middle coefficient and a non-zero one after it), or the top two and then every second
// (degree 3 with an inner zero). The damage is far inside the capacity floor(ec/2) and must be
// corrected exactly. Position families first / last / evenly spread, in every block at once.

import (
	"fmt"

	"verif/mc"
	"verif/ref/gf"
)

func runEuclidShapes() {
	all := append(mainQR(), dmSyms...)
	chk.Range(fmt.Sprintf("3 or 4 errors per block with magnitudes solved so that chosen syndromes vanish (top and every second below; top two and every second below): shapes of the decoder's first quotient; position families {first, last, spread}; in every block simultaneously; %d symbols", len(all)), len(all),
		func(i int) string { return all[i].name() },
		func(l *mc.Local, i int) {
			s := all[i]
			f, base := gf.Field{Poly: 0x11D, Size: 256}, 0
			if s.Kind == "dm" {
				f, base = gf.Field{Poly: 0x12D, Size: 256}, 1
			}
			r := s.ec
			for tp := 3; tp <= 4 && tp <= s.t(); tp++ {
				for si := 0; si < 2; si++ {
					var rows []int
					for q := 0; q < tp-1; q++ {
						switch {
						case si == 0:
							rows = append(rows, r-1-2*q)
						case q < 2:
							rows = append(rows, r-1-q)
						default:
							rows = append(rows, r-2*q)
						}
					}
					if rows[len(rows)-1] < 0 {
						continue
					}
					for fi, fam := range []string{"first", "last", "spread"} {
						ft := &fault{}
						usable := true
						for b, ps := range s.blocks {
							pos := family(fam, len(ps), s.dataLen[b], tp)
							mag := f.KernelErrors(len(ps), pos, rows, base)
							if mag == nil {
								usable = false
								break
							}
							for j, idx := range pos {
								if mag[j] == 0 {
									usable = false
								}
								ft.CW = append(ft.CW, ps[idx])
								ft.XOR = append(ft.XOR, mag[j])
							}
						}
						if !usable {
							l.Count("euclid_shapes_unusable_kernel", 1)
							continue
						}
						l.Count("euclid_shape_cases", 1)
						try(l, s, ft, s.Kind+"/euclid-shapes", "C05/"+s.Kind+"/%seuclid-shapes/"+fam, "exact", int64(tp*16+si*4+fi))
					}
				}
			}
		})
	flush(classCount(all))
}
