//go:build !verif || blackbox

package main

// libExpand is unavailable without the white-box hook; the expansion is then decided only
// black-box (8-digit UPC-E accepted by writer and reader iff the reference expansion checks).
func libExpand(s string) (string, bool) { return "", false }
