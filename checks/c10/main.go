// C10 — check digits and checksums are computed, demanded and enforced.
//
// Fault enumeration on independently constructed symbols: every symbol that is read is drawn
// by the reference model verif/ref/oned (never by the library's writers), so that numbers with
// WRONG check characters can be drawn, rendered with generous quiet zones and handed to the
// library's readers. The writers are decided separately (the module pattern they draw is
// compared with the reference drawing for each possible check digit), and the UPC-E expansion
// is compared with the reference both white-box (hook) and black-box.
package main

import (
	"fmt"
	"sort"
	"strings"

	ref "verif/ref/oned"

	"verif/mc"

	"github.com/makiuchi-d/gozxing"
	"github.com/makiuchi-d/gozxing/oned"
)

func sweep(name string, n, chunk int, f func(l *mc.Local, i int)) {
	nch := (n + chunk - 1) / chunk
	chk.Range(name, nch,
		func(c int) string { return fmt.Sprintf("%s: items %d..%d", name, c*chunk, min(n, (c+1)*chunk)-1) },
		func(l *mc.Local, c int) {
			for i := c * chunk; i < n && i < (c+1)*chunk; i++ {
				f(l, i)
			}
		})
}

// sweepR is sweep with one library reader per Range case (chunk), for the 10^7..10^8 sweeps.
func sweepR(name string, kind string, n, chunk int, f func(l *mc.Local, rd gozxing.Reader, i int)) {
	nch := (n + chunk - 1) / chunk
	chk.Range(name, nch,
		func(c int) string { return fmt.Sprintf("%s: items %d..%d", name, c*chunk, min(n, (c+1)*chunk)-1) },
		func(l *mc.Local, c int) {
			rd := newReader(kind)
			for i := c * chunk; i < n && i < (c+1)*chunk; i++ {
				f(l, rd, i)
			}
		})
}

func dig(v, n int) string {
	b := make([]byte, n)
	for i := n - 1; i >= 0; i-- {
		b[i] = byte('0' + v%10)
		v /= 10
	}
	return string(b)
}

// ------------------------------------------------------------------ digit families (as in C03)

func upceStrat(i int) string { // i in [0, 200000): number system, d1..d4 free, d5 = sum, every d6
	ns, r := i/100000, i%100000
	d6, q := r%10, r/10
	d1, d2, d3, d4 := q/1000, q/100%10, q/10%10, q%10
	d5 := (d1 + d2 + d3 + d4) % 10
	return string([]byte{byte('0' + ns), byte('0' + d1), byte('0' + d2), byte('0' + d3), byte('0' + d4), byte('0' + d5), byte('0' + d6)})
}

func ean8Strat(i int) string { // i in [0,100000): d1..d5 free, d6 = 2*d1+d2, d7 = d3+2*d4 (every (position, digit, check) triple)
	d := []int{i / 10000, i / 1000 % 10, i / 100 % 10, i / 10 % 10, i % 10, 0, 0}
	d[5] = (2*d[0] + d[1]) % 10
	d[6] = (d[2] + 2*d[3]) % 10
	b := make([]byte, 7)
	for k := range d {
		b[k] = byte('0' + d[k])
	}
	return string(b)
}

func le2(n int) []string {
	var out []string
	base := strings.Repeat("0", n)
	out = append(out, base)
	for p := 0; p < n; p++ {
		for d := 1; d <= 9; d++ {
			b := []byte(base)
			b[p] = byte('0' + d)
			out = append(out, string(b))
			for q := p + 1; q < n; q++ {
				for e := 1; e <= 9; e++ {
					c := append([]byte(nil), b...)
					c[q] = byte('0' + e)
					out = append(out, string(c))
				}
			}
		}
	}
	return out
}

func triples(n int) []string {
	var out []string
	for _, fill := range []byte{'0', '5'} {
		for f := 0; f <= 9; f++ {
			for p := 1; p < n; p++ {
				for d := 0; d <= 9; d++ {
					b := []byte(strings.Repeat(string(fill), n))
					b[0] = byte('0' + f)
					b[p] = byte('0' + d)
					out = append(out, string(b))
				}
			}
		}
	}
	return out
}

func quad(n int) []string {
	var out []string
	for a := 0; a < 10; a++ {
		for b := 0; b < 10; b++ {
			for c := 0; c < 10; c++ {
				s := make([]byte, n)
				for i := range s {
					s[i] = byte('0' + (a*i*i+b*i+c)%10)
				}
				out = append(out, string(s))
			}
		}
	}
	return out
}

func uniq(lists ...[]string) []string {
	seen := map[string]bool{}
	var out []string
	for _, l := range lists {
		for _, s := range l {
			if !seen[s] {
				seen[s] = true
				out = append(out, s)
			}
		}
	}
	sort.Strings(out)
	return out
}

// ------------------------------------------------------------------ drawing and expectation per kind

func parityBools(p string) []bool {
	out := make([]bool, len(p))
	for i := range p {
		out[i] = p[i] == 'G'
	}
	return out
}

func parityString(b []bool) string {
	s := make([]byte, len(b))
	for i := range b {
		s[i] = 'L'
		if b[i] {
			s[i] = 'G'
		}
	}
	return string(s)
}

// upceFromParity returns the 8-digit number a UPC-E symbol with this parity pattern carries,
// or "" if the pattern is none of the 20 assigned ones.
func upceFromParity(d6, parity string) string {
	for ns := 0; ns <= 1; ns++ {
		for c := 0; c <= 9; c++ {
			p := ref.UPCEParity(ns, c)
			if parityString(p[:]) == parity {
				return string(rune('0'+ns)) + d6 + string(rune('0'+c))
			}
		}
	}
	return ""
}

func mainMods(num string) []bool {
	if len(num) == 12 {
		return ref.UPCA(num)
	}
	return ref.EAN13(num)
}

func draw(c *fcase) []bool {
	switch c.Kind {
	case "ean8":
		return ref.EAN8(c.Num)
	case "upce":
		return ref.UPCE(c.Num)
	case "upce-parity":
		var p [6]bool
		copy(p[:], parityBools(c.Parity))
		return ref.UPCEWithParity(c.Num, p)
	case "ean13":
		return ref.EAN13(c.Num)
	case "upca":
		return ref.UPCA(c.Num)
	case "code128":
		return ref.Code128FromValues(append(append([]int(nil), c.Vals...), ref.C128Stop))
	case "code93":
		return ref.Code93FromValues(c.Vals)
	case "code39":
		m, err := ref.Code39(c.Str, c.Wide)
		if err != nil {
			panic(err)
		}
		return m
	case "addon2":
		var p [2]bool
		copy(p[:], parityBools(c.Parity))
		return ref.WithAddOn(mainMods(c.Num), ref.AddOn2WithParity(c.Addon, p), 9)
	case "addon5":
		var p [5]bool
		copy(p[:], parityBools(c.Parity))
		return ref.WithAddOn(mainMods(c.Num), ref.AddOn5WithParity(c.Addon, p), 9)
	}
	panic("draw: unknown kind " + c.Kind)
}

// expectation returns whether the drawn symbol is valid per the reference, and what it says.
func expectation(c *fcase) (valid bool, want string, format gozxing.BarcodeFormat) {
	switch c.Kind {
	case "ean8":
		return mod10(c.Num[:7]) == c.Num[7:], c.Num, gozxing.BarcodeFormat_EAN_8
	case "upce":
		return mod10(ref.UPCEExpand(c.Num[:7])) == c.Num[7:], c.Num, gozxing.BarcodeFormat_UPC_E
	case "upce-parity":
		d8 := upceFromParity(c.Num, c.Parity)
		if d8 == "" {
			return false, "", gozxing.BarcodeFormat_UPC_E
		}
		return mod10(ref.UPCEExpand(d8[:7])) == d8[7:], d8, gozxing.BarcodeFormat_UPC_E
	case "ean13":
		return mod10(c.Num[:12]) == c.Num[12:], c.Num, gozxing.BarcodeFormat_EAN_13
	case "upca":
		if c.Reader == "multi" { // without POSSIBLE_FORMATS the multi-format reader names the symbol EAN-13
			return mod10(c.Num[:11]) == c.Num[11:], "0" + c.Num, gozxing.BarcodeFormat_EAN_13
		}
		return mod10(c.Num[:11]) == c.Num[11:], c.Num, gozxing.BarcodeFormat_UPC_A
	case "code128":
		n := len(c.Vals)
		if n < 3 || c.Vals[0] < ref.C128StartA || c.Vals[0] > ref.C128StartC || ref.Code128Check(c.Vals[:n-1]) != c.Vals[n-1] {
			return false, "", gozxing.BarcodeFormat_CODE_128
		}
		t, err := ref.Code128Decode(c.Vals[:n-1])
		return err == nil && t != "", t, gozxing.BarcodeFormat_CODE_128
	case "code93":
		n := len(c.Vals)
		if n < 3 {
			return false, "", gozxing.BarcodeFormat_CODE_93
		}
		cc, kk := ref.Code93Checks(c.Vals[:n-2])
		return cc == c.Vals[n-2] && kk == c.Vals[n-1], c.Text, gozxing.BarcodeFormat_CODE_93
	case "code39":
		n := len(c.Str)
		return n >= 2 && ref.Code39Check(c.Str[:n-1]) == c.Str[n-1], c.Str[:n-1], gozxing.BarcodeFormat_CODE_39
	}
	panic("expectation: unknown kind " + c.Kind)
}

var badKey = map[string]string{
	"ean8": "C10/ean8/accepts-wrong-check", "upce": "C10/upce/check-on-expanded/accepts-wrong-check", "upce-parity": "C10/upce/unassigned-parity-read",
	"ean13": "C10/ean13/accepts-wrong-check", "upca": "C10/upca/accepts-wrong-check",
	"code128": "C10/code128/substitution", "code93": "C10/code93/substitution", "code39": "C10/code39/substitution",
}
var goodKey = map[string]string{
	"ean8": "C10/ean8/valid-not-read", "upce": "C10/upce/check-on-expanded/valid-not-read", "upce-parity": "C10/upce/check-on-expanded/valid-not-read",
	"ean13": "C10/ean13/valid-not-read", "upca": "C10/upca/valid-not-read",
	"code128": "C10/code128/valid-not-read", "code93": "C10/code93/valid-not-read", "code39": "C10/code39/valid-not-read",
}

// symbolCase draws, reads and judges one UPC/EAN/Code symbol.
func symbolCase(l *mc.Local, rd gozxing.Reader, c *fcase) {
	valid, want, format := expectation(c)
	o := read(rd, c.Reader, draw(c), c.Scale, c.Path)
	bad := badKey[c.Kind]
	if c.Orig != "" { // substitution in a Code 128 / 93 / 39 symbol
		startInside := false
		if c.Kind == "code128" {
			for _, v := range c.Vals[1:] {
				if v >= ref.C128StartA && v <= ref.C128StartC {
					startInside = true // the start characters are congruent to 0, 1, 2 modulo 103: only the structure rule rejects them
				}
			}
		}
		if n := len(c.Vals); c.Kind == "code128" && n >= 3 && !startInside && ref.Code128Check(c.Vals[:n-1]) == c.Vals[n-1] {
			// the substituted character carries a weight that is a multiple of 103 (symbols of more than 103
			// characters): the check character still verifies, so no reader can tell - outside the property
			l.Count("evaluations", 1)
			l.Count("substitutions that the mod-103 check cannot see (weight = 0 mod 103)", 1)
			return
		}
		if valid {
			// cannot happen for a single substitution (proved in the Assume text); counted, not judged
			l.Count("evaluations", 1)
			l.Count("substitutions that yield a valid symbol", 1)
			return
		}
		if o.err == nil && o.panicM == "" {
			if o.text == c.Orig {
				bad += "/bad-check-accepted"
			} else {
				bad += "/different-text"
			}
		}
	}
	judge(l, c, o, valid, want, format, bad, goodKey[c.Kind])
}

// ------------------------------------------------------------------ sub-spaces: EAN-8, UPC-E

func runEAN8() {
	if chk.Quick() {
		sweepR("EAN-8 readers, row level, scale 1: stratified 10^6 eight-digit strings (10^5 payloads with every (position, digit, check) triple x all ten last digits): read iff the check digit is the reference one", "ean8", 1000000, 20000, func(l *mc.Local, rd gozxing.Reader, i int) {
			c := fcase{Kind: "ean8", Num: ean8Strat(i/10) + dig(i%10, 1), Reader: "ean8", Scale: 1, Path: "row"}
			symbolCase(l, rd, &c)
		})
	} else {
		sweepR("EAN-8 readers, row level, scale 1: ALL 10^8 eight-digit strings: read iff the check digit is the reference one", "ean8", 100000000, 100000, func(l *mc.Local, rd gozxing.Reader, i int) {
			c := fcase{Kind: "ean8", Num: dig(i, 8), Reader: "ean8", Scale: 1, Path: "row"}
			symbolCase(l, rd, &c)
			if i%1000 == 0 {
				l.DistinctU("nontrivial", uint64(i/1000)|4<<40) // one per block of 100 valid symbols
			}
		})
	}
	sweepR("EAN-8 readers, row level, scale 2: stratified 10^6 eight-digit strings", "ean8", 1000000, 20000, func(l *mc.Local, rd gozxing.Reader, i int) {
		c := fcase{Kind: "ean8", Num: ean8Strat(i/10) + dig(i%10, 1), Reader: "ean8", Scale: 2, Path: "row"}
		symbolCase(l, rd, &c)
		if c.Num[7] == mod10(c.Num[:7])[0] {
			l.DistinctU("nontrivial", uint64(i)|1<<40)
		}
	})
	fam := uniq(le2(7), quad(7))
	sweep(fmt.Sprintf("EAN-8 and multi-format readers, image path, scale 1 and 2: %d payloads (<=2 non-zero digits; quadratic family) x all ten last digits", len(fam)), len(fam), 20, func(l *mc.Local, i int) {
		for d := 0; d < 10; d++ {
			for _, rdk := range []string{"ean8", "multi"} {
				for scale := 1; scale <= 2; scale++ {
					c := fcase{Kind: "ean8", Num: fam[i] + dig(d, 1), Reader: rdk, Scale: scale, Path: "image"}
					symbolCase(l, nil, &c)
				}
			}
		}
	})
}

func runUPCE() {
	if chk.Quick() {
		sweepR("UPC-E reader, row level, scale 1: stratified 2*10^6 (number system, six digits, check) symbols (2*10^5 numbers x all ten check digits): read iff the check digit is that of the reference EXPANSION", "upce", 2000000, 20000, func(l *mc.Local, rd gozxing.Reader, i int) {
			c := fcase{Kind: "upce", Num: upceStrat(i/10) + dig(i%10, 1), Reader: "upce", Scale: 1, Path: "row"}
			symbolCase(l, rd, &c)
			if c.Num[7] == mod10(ref.UPCEExpand(c.Num[:7]))[0] {
				l.DistinctU("nontrivial", uint64(i)|2<<40)
			}
		})
	} else {
		sweepR("UPC-E reader, row level, scale 1: ALL 2*10^7 (number system, six digits, check) symbols: read iff the check digit is that of the reference EXPANSION", "upce", 20000000, 100000, func(l *mc.Local, rd gozxing.Reader, i int) {
			c := fcase{Kind: "upce", Num: dig(i, 8), Reader: "upce", Scale: 1, Path: "row"}
			symbolCase(l, rd, &c)
			if i%100 == 0 {
				l.DistinctU("nontrivial", uint64(i/100)|2<<40) // one per block of 10 valid symbols
			}
		})
	}
	fam := le2(6)
	sweep(fmt.Sprintf("UPC-E and multi-format readers, row scale 2 and image path scale 1 and 2: %d six-digit bodies (<=2 non-zero digits) x number system 0/1 x all ten check digits", len(fam)), len(fam)*2, 20, func(l *mc.Local, i int) {
		for d := 0; d < 10; d++ {
			num := dig(i%2, 1) + fam[i/2] + dig(d, 1)
			for _, rdk := range []string{"upce", "multi"} {
				for _, v := range []struct {
					s int
					p string
				}{{2, "row"}, {1, "image"}, {2, "image"}} {
					c := fcase{Kind: "upce", Num: num, Reader: rdk, Scale: v.s, Path: v.p}
					symbolCase(l, nil, &c)
				}
			}
		}
	})
	sweep("UPC-E reader: all 64 L/G parity patterns (20 assigned to (number system, check digit), 44 unassigned) x 1000 six-digit bodies (d1..d3 free, d4 = d1+d2, d5 = d2+d3, d6 = d1+d3 mod 10)", 1000, 10, func(l *mc.Local, i int) {
		d1, d2, d3 := i/100, i/10%10, i%10
		body := dig(i, 3) + dig((d1+d2)%10, 1) + dig((d2+d3)%10, 1) + dig((d1+d3)%10, 1)
		for p := 0; p < 64; p++ {
			par := make([]byte, 6)
			for k := 0; k < 6; k++ {
				par[k] = "LG"[p>>uint(5-k)&1]
			}
			c := fcase{Kind: "upce-parity", Num: body, Parity: string(par), Reader: "upce", Scale: 1, Path: "row"}
			symbolCase(l, nil, &c)
		}
	})
}

// ------------------------------------------------------------------ EAN-13 / UPC-A: every single-digit substitution

func runSubstEAN() {
	f13 := uniq(le2(12), triples(12), quad(12))
	sweep(fmt.Sprintf("EAN-13, EAN-13 and multi-format readers: %d numbers (<=2 non-zero digits; (first digit, digit, position) triples; quadratic family), each valid and with every single-digit substitution (13 positions x 9 digits; a substituted first digit changes the parity pattern)", len(f13)), len(f13), 20, func(l *mc.Local, i int) {
		n := f13[i] + mod10(f13[i])
		for _, rdk := range []string{"ean13", "multi"} {
			c := fcase{Kind: "ean13", Num: n, Reader: rdk, Scale: 1, Path: "row"}
			symbolCase(l, nil, &c)
			l.Distinct("nontrivial", "ean13"+n)
			for p := 0; p < 13; p++ {
				for d := byte('0'); d <= '9'; d++ {
					if d != n[p] {
						c := fcase{Kind: "ean13", Num: n[:p] + string(d) + n[p+1:], Reader: rdk, Scale: 1, Path: "row"}
						symbolCase(l, nil, &c)
					}
				}
			}
		}
	})
	f12 := uniq(le2(11), triples(11), quad(11))
	sweep(fmt.Sprintf("UPC-A, UPC-A and multi-format readers: %d numbers (same families on 11 digits), each valid and with every single-digit substitution (12 positions x 9 digits)", len(f12)), len(f12), 20, func(l *mc.Local, i int) {
		n := f12[i] + mod10(f12[i])
		for _, rdk := range []string{"upca", "multi"} {
			c := fcase{Kind: "upca", Num: n, Reader: rdk, Scale: 1, Path: "row"}
			symbolCase(l, nil, &c)
			l.Distinct("nontrivial", "upca"+n)
			for p := 0; p < 12; p++ {
				for d := byte('0'); d <= '9'; d++ {
					if d != n[p] {
						c := fcase{Kind: "upca", Num: n[:p] + string(d) + n[p+1:], Reader: rdk, Scale: 1, Path: "row"}
						symbolCase(l, nil, &c)
					}
				}
			}
		}
	})
	// image path and scale 2 on the quadratic family
	q := quad(12)[:chk.Pick(200, 1000)]
	sweep(fmt.Sprintf("EAN-13 reader, image path scale 1 and 2: the first %d numbers of the quadratic family, each valid and with every single-digit substitution", len(q)), len(q), 5, func(l *mc.Local, i int) {
		n := q[i] + mod10(q[i])
		for scale := 1; scale <= 2; scale++ {
			c := fcase{Kind: "ean13", Num: n, Reader: "ean13", Scale: scale, Path: "image"}
			symbolCase(l, nil, &c)
			for p := 0; p < 13; p++ {
				for d := byte('0'); d <= '9'; d++ {
					if d != n[p] {
						c := fcase{Kind: "ean13", Num: n[:p] + string(d) + n[p+1:], Reader: "ean13", Scale: scale, Path: "image"}
						symbolCase(l, nil, &c)
					}
				}
			}
		}
	})
}

// ------------------------------------------------------------------ writers

var writerOf = map[string]func() gozxing.Writer{"ean13": oned.NewEAN13Writer, "ean8": oned.NewEAN8Writer, "upca": oned.NewUPCAWriter, "upce": oned.NewUPCEWriter}
var payloadLen = map[string]int{"ean13": 12, "ean8": 7, "upca": 11, "upce": 7}

func refCheck(sym, payload string) string {
	if sym == "upce" {
		return mod10(ref.UPCEExpand(payload))
	}
	return mod10(payload)
}

func refDraw(sym, full string) []bool {
	switch sym {
	case "ean13":
		return ref.EAN13(full)
	case "ean8":
		return ref.EAN8(full)
	case "upca":
		return ref.UPCA(full)
	}
	return ref.UPCE(full)
}

// writerCase: input is payload (without check digit) or payload + any digit.
func writerCase(l *mc.Local, sym, input string) {
	n := payloadLen[sym]
	right := refCheck(sym, input[:n])
	mustAccept := len(input) == n || input[n:] == right
	c := &fcase{Kind: "writer", Sym: sym, Num: input}
	var m *gozxing.BitMatrix
	var err error
	pm, site := mc.Guard(func() {
		m, err = writerOf[sym]().Encode(input, formats[sym], 0, 0, map[gozxing.EncodeHintType]interface{}{gozxing.EncodeHintType_MARGIN: 0})
	})
	l.Count("evaluations", 1)
	if pm != "" {
		chk.Violation("C10/panic/"+site, fmt.Sprintf("panic %q in the %s writer for %q", pm, sym, input), c)
		return
	}
	if !mustAccept {
		if err == nil {
			chk.Violation("C10/writer/"+sym+"/accepts-wrong-check-digit", fmt.Sprintf("%s writer draws %q although the check digit of %s is %s", sym, input, input[:n], right), c)
		} else {
			l.Count("wrong check digits refused by a writer", 1)
		}
		return
	}
	if err != nil || m == nil {
		key := "C10/writer/" + sym + "/refuses-right-check-digit"
		if len(input) == n {
			key = "C10/writer/" + sym + "/refuses-payload"
		}
		chk.Violation(key, fmt.Sprintf("%s writer refuses %q (%v); the check digit of %s is %s", sym, input, err, input[:n], right), c)
		return
	}
	mods := make([]bool, m.GetWidth())
	for x := range mods {
		mods[x] = m.Get(x, 0)
	}
	if sameMods(mods, refDraw(sym, input[:n]+right)) {
		l.Count("writer symbols identical to the reference symbol with the reference check digit", 1)
		return
	}
	for d := 0; d <= 9; d++ {
		if sameMods(mods, refDraw(sym, input[:n]+dig(d, 1))) {
			on := "the payload"
			if sym == "upce" {
				on = "the expanded number " + ref.UPCEExpand(input[:n])
			}
			chk.Violation("C10/writer/"+sym+"/wrong-check-digit", fmt.Sprintf("%s writer given %q draws the symbol of %s%d; the check digit is %s (computed on %s)", sym, input, input[:n], d, right, on), c)
			return
		}
	}
	chk.Violation("C10/writer/"+sym+"/unrecognised-symbol", fmt.Sprintf("%s writer given %q draws a symbol that is the reference symbol of %s with no check digit 0..9", sym, input, input[:n]), c)
}

func runWriters() {
	all := func(l *mc.Local, sym, p string) {
		writerCase(l, sym, p)
		for d := 0; d <= 9; d++ {
			writerCase(l, sym, p+dig(d, 1))
		}
	}
	f13 := uniq(le2(12), triples(12), quad(12))
	f12 := uniq(le2(11), triples(11), quad(11))
	sweep(fmt.Sprintf("writers EAN-13 (%d payloads) and UPC-A (%d payloads): payload alone and with each of the ten last digits: the drawn symbol is the reference symbol with the reference check digit; the nine wrong digits are refused", len(f13), len(f12)), len(f13)+len(f12), 50, func(l *mc.Local, i int) {
		if i < len(f13) {
			all(l, "ean13", f13[i])
		} else {
			all(l, "upca", f12[i-len(f13)])
		}
	})
	if chk.Quick() {
		sweep("writer EAN-8: stratified 10^5 payloads, alone and with each of the ten last digits", 100000, 2000, func(l *mc.Local, i int) { all(l, "ean8", ean8Strat(i)) })
		sweep("writer UPC-E: stratified 2*10^5 seven-digit numbers, alone and with each of the ten last digits (8-digit input accepted iff the reference expansion checks)", 200000, 2000, func(l *mc.Local, i int) { all(l, "upce", upceStrat(i)) })
	} else {
		sweep("writer EAN-8: ALL 10^7 payloads alone; the stratified 10^5 also with each of the ten last digits", 10000000, 10000, func(l *mc.Local, i int) {
			writerCase(l, "ean8", dig(i, 7))
			if i < 100000 {
				all(l, "ean8", ean8Strat(i))
			}
		})
		sweep("writer UPC-E: ALL 2*10^6 seven-digit numbers, alone and with each of the ten last digits (8-digit input accepted iff the reference expansion checks)", 2000000, 5000, func(l *mc.Local, i int) { all(l, "upce", dig(i, 7)) })
	}
}

// runWriters128: the check character of every Code 128 symbol the writer draws, judged on the
// symbol's OWN symbol characters (read off the modules by table lookup): (start + sum i*v_i) mod 103.
// Contents: every sequence of 1..5 tokens from {1, 2, 12, 34, a, A, SOH, FNC1, FNC2, FNC3, FNC4} -
// digits, pairs that select code set C, both letter cases, a control character and the four
// function characters (written as U+00F1..U+00F4), in every position next to each other. A content
// the writer refuses is not judged here.
func runWriters128() {
	tokens := []string{"1", "2", "12", "34", "a", "A", "\x01", "\u00f1", "\u00f2", "\u00f3", "\u00f4"}
	var contents []string
	var gen func(cur string, n int)
	gen = func(cur string, n int) {
		if cur != "" {
			contents = append(contents, cur)
		}
		if n == 0 {
			return
		}
		for _, t := range tokens {
			gen(cur+t, n-1)
		}
	}
	gen("", chk.Pick(4, 5))
	contents = uniq(contents)
	sweep(fmt.Sprintf("writer Code 128: %d contents (all sequences of up to %d tokens from {1, 2, 12, 34, a, A, SOH, FNC1..FNC4}): the check character of the drawn symbol verifies on the symbol's own characters", len(contents), chk.Pick(4, 5)), len(contents), 500, func(l *mc.Local, i int) { writer128Case(l, contents[i]) })
}

func writer128Case(l *mc.Local, input string) {
	c := &fcase{Kind: "writer", Sym: "code128", Num: input}
	var m *gozxing.BitMatrix
	var err error
	pm, site := mc.Guard(func() {
		m, err = oned.NewCode128Writer().Encode(input, gozxing.BarcodeFormat_CODE_128, 0, 0, map[gozxing.EncodeHintType]interface{}{gozxing.EncodeHintType_MARGIN: 0})
	})
	l.Count("evaluations", 1)
	if pm != "" {
		chk.Violation("C10/panic/"+site, fmt.Sprintf("panic %q in the Code 128 writer for %q", pm, input), c)
		return
	}
	if err != nil || m == nil {
		l.Count("Code 128 contents refused by the writer (not judged)", 1)
		return
	}
	mods := make([]bool, m.GetWidth())
	for x := range mods {
		mods[x] = m.Get(x, 0)
	}
	vals, verr := ref.Code128ValuesOf(mods)
	n := len(vals)
	if verr != nil || n < 4 || vals[n-1] != ref.C128Stop || vals[0] < ref.C128StartA || vals[0] > ref.C128StartC {
		chk.Violation("C10/writer/code128/unrecognised-symbol", fmt.Sprintf("Code 128 writer given %q draws modules that are no start .. stop sequence of symbol characters (%v, %v)", input, vals, verr), c)
		return
	}
	if want := ref.Code128Check(vals[:n-2]); vals[n-2] != want {
		chk.Violation("C10/writer/code128/wrong-check-character", fmt.Sprintf("Code 128 writer given %q draws the symbol characters %v: the check character is %d, (start + sum i*v_i) mod 103 = %d", input, vals[:n-1], vals[n-2], want), c)
		return
	}
	l.Distinct("nontrivial", "w128|"+input)
}

// ------------------------------------------------------------------ expansion / zero-suppression

func runExpand() {
	if _, ok := libExpand("0000000"); !ok {
		chk.Note("built without the white-box accessor: convertUPCEtoUPCA is decided only black-box (writer and reader sub-spaces)")
		return
	}
	tens := chk.Pick(1, 10)
	sweep(fmt.Sprintf("UPC-E expansion (white-box convertUPCEtoUPCA): all 2*10^6 seven-digit numbers (and with %d check digit(s) appended) against the reference expansion; expand(suppress(n)) == n for every zero-suppressible 11-digit UPC-A number n (the 1 820 000 expansions of canonical UPC-E numbers)", tens), 2000000, 20000, func(l *mc.Local, i int) {
		u := dig(i, 7)
		want := ref.UPCEExpand(u)
		got, _ := libExpand(u)
		l.Count("evaluations", 1)
		if got != want {
			chk.Violation(fmt.Sprintf("C10/expand-suppress/expansion/last-digit-%c", u[6]), fmt.Sprintf("convertUPCEtoUPCA(%q) = %q, reference expansion %q", u, got, want), &fcase{Kind: "expand", Num: u})
		}
		for d := 0; d < tens; d++ {
			u8 := u + dig((int(u[6]-'0')+d)%10, 1)
			if g, _ := libExpand(u8); g != want+u8[7:] {
				chk.Violation("C10/expand-suppress/expansion/with-check-digit", fmt.Sprintf("convertUPCEtoUPCA(%q) = %q, reference expansion %q", u8, g, want+u8[7:]), &fcase{Kind: "expand", Num: u8})
			}
			l.Count("evaluations", 1)
		}
		if ref.UPCECanonical(u) {
			// n = want is zero-suppressible; suppress it with the reference and expand with the library
			su, ok := ref.UPCESuppress(want)
			if !ok || su != u {
				chk.Violation("C10/harness/reference-suppress", fmt.Sprintf("reference: suppress(expand(%s)) = %q, %v", u, su, ok), &fcase{Kind: "expand", Num: u})
				return
			}
			l.Count("zero-suppressible UPC-A numbers", 1)
			if g, _ := libExpand(su); g != want {
				chk.Violation("C10/expand-suppress", fmt.Sprintf("expand(suppress(%s)) = %s: suppress gives %s", want, g, su), &fcase{Kind: "expand", Num: su})
			}
			if i%16 == 0 {
				l.DistinctU("nontrivial", uint64(i)|3<<40)
			}
		}
	})
}

// ------------------------------------------------------------------ Code 128 / Code 93 / Code 39 substitutions

func words(alpha string, lo, hi int) []string {
	var out []string
	var rec func(cur string)
	rec = func(cur string) {
		if len(cur) >= lo {
			out = append(out, cur)
		}
		if len(cur) == hi {
			return
		}
		for i := 0; i < len(alpha); i++ {
			rec(cur + alpha[i:i+1])
		}
	}
	rec("")
	return out
}

type vsym struct {
	text string
	vals []int // complete: Code 128 start..check, Code 93 data..C,K
}

func c128Symbols() []vsym {
	cls := map[byte]string{'D': "0123456789", 'U': "AZ _@M[/", 'L': "az`~{\x7fmq", 'C': "\x00\x01\x1f\x0d\x0a\x1b\x09\x10"}
	ws := words("DULC", 1, chk.Pick(4, 5))
	ws = append(ws, "DDDDD", "DDDDDD", "UUUUU", "UUUUUU", "LLLLL", "LLLLLL", "CCCCC", "CCCCCC", "DDDDU", "UDDDD", "LDDDDD", "DDDDDL", "CDDDD", "DDDDCC",
		"UDDDDU", "LDDDDL", "CDDDDC", "DDLLDD", "DDCCDD", "ULCULC", "CLUCLU", "DUDUDU", "UDDDL", "LUDDC", "DDDUD", "DDLDD", "DDCDD")
	seen := map[string]bool{}
	var out []vsym
	for _, w := range ws {
		t := make([]byte, len(w))
		for i := range t {
			s := cls[w[i]]
			t[i] = s[(3*i+len(w))%len(s)]
		}
		text := string(t)
		var plans []string
		if p, err := ref.Code128AutoSets(text); err == nil {
			plans = append(plans, p)
		}
		for _, set := range []string{"A", "B", "C"} {
			plans = append(plans, strings.Repeat(set, len(text)))
		}
		// digit pairs in set C wherever two digits are adjacent, everything else in A (controls) or B
		pp := make([]byte, len(text))
		for i := 0; i < len(text); i++ {
			if i+1 < len(text) && w[i] == 'D' && w[i+1] == 'D' {
				pp[i], pp[i+1] = 'C', 'C'
				i++
			} else if text[i] < 32 {
				pp[i] = 'A'
			} else {
				pp[i] = 'B'
			}
		}
		plans = append(plans, string(pp))
		for _, p := range plans {
			v, err := ref.Code128Plan(text, p)
			if err != nil {
				continue
			}
			v = append(v, ref.Code128Check(v))
			k := fmt.Sprint(v)
			if !seen[k] {
				seen[k] = true
				out = append(out, vsym{text, v})
			}
		}
	}
	// code set C with the digit pairs 00, 01, 02 (values 0, 1, 2): the three start characters 103, 104,
	// 105 are congruent to them modulo 103, so replacing one by the other leaves the check character
	// valid at EVERY position - only the rule "no start character inside a symbol" rejects it. In
	// sets A and B the values 0, 1, 2 are space, ! and ".
	for _, text := range []string{"00", "01", "02", "0001", "0102", "0200", "120034", "120134", "120234", "001234", "123400", "000102", "010101", "990200", " !\"", "A !\"B", "a\"! b"} {
		plans := []string{strings.Repeat("B", len(text))}
		if p, err := ref.Code128AutoSets(text); err == nil {
			plans = append(plans, p)
		}
		if len(text)%2 == 0 && strings.Trim(text, "0123456789") == "" {
			plans = append(plans, strings.Repeat("C", len(text)))
		}
		for _, p := range plans {
			if v, err := ref.Code128Plan(text, p); err == nil {
				v = append(v, ref.Code128Check(v))
				if k := fmt.Sprint(v); !seen[k] {
					seen[k] = true
					out = append(out, vsym{text, v})
				}
			}
		}
	}
	// long symbols: the check character is a weighted sum modulo 103 whose weights reach 103 after 103
	// symbol characters and 206 after 206: lengths on both sides of those marks (uniform code set B and
	// a plan that alternates sets A and B with a switch character before every character)
	for _, n := range []int{99, 100, 101, 102, 103, 104, 110, 204, 205, 206, 207} {
		t := make([]byte, n)
		for i := range t {
			t[i] = "Code 128 ~ long SYMBOL|"[i%22]
		}
		if v, err := ref.Code128Plan(string(t), strings.Repeat("B", n)); err == nil {
			v = append(v, ref.Code128Check(v))
			out = append(out, vsym{string(t), v})
		}
	}
	for _, n := range []int{50, 51, 52, 60, 103} {
		t := make([]byte, n)
		plan := make([]byte, n)
		for i := range t {
			t[i], plan[i] = 'a', 'B'
			if i%2 == 1 {
				t[i], plan[i] = 1, 'A'
			}
		}
		if v, err := ref.Code128Plan(string(t), string(plan)); err == nil {
			v = append(v, ref.Code128Check(v))
			out = append(out, vsym{string(t), v})
		}
	}
	return out
}

func c93Symbols() []vsym {
	cls := map[byte]string{'N': "0A-Z9 .$/+%", 'S': "\x01\x1a\x0d", 'P': "\x00\x1b;@[`{\x7f", 'X': "!#&,:*", 'L': "azmq"}
	ws := words("NSPXL", 1, chk.Pick(3, 4))
	ws = append(ws, words("NL", 4, 5)...)
	ws = append(ws, "NNNN", "NNNNN", "NNNNNN", "LLLL", "LLLLL", "LLLLLL", "SSSS", "PPPPP", "XXXXXX", "NLNL", "NSPXL", "LXPSN", "NNLLNN", "NPNPNP", "SNNNNS", "NNNNL", "LNNNN")
	var out []vsym
	seen := map[string]bool{}
	for _, w := range ws {
		t := make([]byte, len(w))
		for i := range t {
			s := cls[w[i]]
			t[i] = s[(5*i+len(w))%len(s)]
		}
		v, err := ref.Code93Values(string(t))
		if err != nil {
			panic(err)
		}
		c, k := ref.Code93Checks(v)
		v = append(v, c, k)
		if key := fmt.Sprint(v); !seen[key] {
			seen[key] = true
			out = append(out, vsym{string(t), v})
		}
	}
	// long symbols: the C weights wrap after 20, the K weights after 15 symbol characters
	for _, n := range []int{13, 14, 15, 16, 19, 20, 21, 22, 30, 31, 40, 41, 45, 46, 60, 61} {
		t := make([]byte, n)
		for i := range t {
			t[i] = "CODE 93-LONG.$/+%Z9"[i%19]
		}
		if v, err := ref.Code93Values(string(t)); err == nil {
			c, k := ref.Code93Checks(v)
			out = append(out, vsym{string(t), append(v, c, k)})
		}
	}
	return out
}

func runSubstCode() {
	s128 := c128Symbols()
	sweep(fmt.Sprintf("Code 128: %d reference symbols (texts of length 1..6 over digit/upper/lower/control classes; automatic plan, each uniform code set the text admits, digit pairs in set C), each valid and with every symbol-character position (start, data, check) x every replacement value 0..105, scale 1 and 2", len(s128)), len(s128), 1, func(l *mc.Local, i int) {
		s := s128[i]
		for scale := 1; scale <= 2; scale++ {
			c := fcase{Kind: "code128", Vals: s.vals, Reader: "code128", Scale: scale, Path: "row"}
			symbolCase(l, nil, &c)
			l.Distinct("nontrivial", fmt.Sprint("c128", s.vals))
			for p := range s.vals {
				for v := 0; v <= 105; v++ {
					if v == s.vals[p] {
						continue
					}
					vv := append([]int(nil), s.vals...)
					vv[p] = v
					c := fcase{Kind: "code128", Vals: vv, Orig: s.text, Reader: "code128", Scale: scale, Path: "row"}
					symbolCase(l, nil, &c)
				}
			}
		}
		c := fcase{Kind: "code128", Vals: s.vals, Reader: "code128", Scale: 2, Path: "image"}
		symbolCase(l, nil, &c)
	})
	// very long symbols: the weighted sum start + sum(k * code_k) itself passes 2^31 after about 6760
	// and 2^32 after about 9560 characters '~' (value 94) - a sum kept in a 32-bit integer, signed or
	// not, wraps there, and 2^32 is not a multiple of 103
	lens := []int{6800, 9600}
	subPos := func(n int) []int { return []int{1, 40, n} }
	subVals := func(orig int) []int { return []int{orig - 1, orig - 2, 0, 50, 93, 95, 101} }
	if !chk.Quick() {
		lens = []int{6700, 6800, 9500, 9600, 9700, 13600}
		subPos = func(n int) []int { return []int{1, 2, 40, 102, 103, n / 2, n - 1, n, n + 1} }
		subVals = func(orig int) []int {
			var v []int
			for x := 0; x <= 102; x++ {
				if x != orig {
					v = append(v, x)
				}
			}
			return v
		}
	}
	type vjob struct{ n, pos int }
	var vjobs []vjob
	for _, n := range lens {
		vjobs = append(vjobs, vjob{n, -1})
		for _, p := range subPos(n) {
			vjobs = append(vjobs, vjob{n, p})
		}
	}
	sweep(fmt.Sprintf("Code 128, very long symbols (weighted sum beyond 2^31 and 2^32): %v characters '~' in code set B from the reference encoder: the valid symbol is read, and substitutions at symbol-character positions {first, 40th, last, check; thorough: 9 positions} x replacement values (quick: 7; thorough: every value) are never read as a different text", lens), len(vjobs), 1, func(l *mc.Local, i int) {
		j := vjobs[i]
		t := strings.Repeat("~", j.n)
		v, err := ref.Code128Plan(t, strings.Repeat("B", j.n))
		if err != nil {
			panic(err)
		}
		v = append(v, ref.Code128Check(v))
		if j.pos < 0 {
			c := fcase{Kind: "code128", Vals: v, Reader: "code128", Scale: 1, Path: "row"}
			symbolCase(l, nil, &c)
			l.Distinct("nontrivial", fmt.Sprint("c128-very-long", j.n))
			return
		}
		for _, x := range subVals(v[j.pos]) {
			if x < 0 || x == v[j.pos] {
				continue
			}
			vv := append([]int(nil), v...)
			vv[j.pos] = x
			c := fcase{Kind: "code128", Vals: vv, Orig: t, Reader: "code128", Scale: 1, Path: "row"}
			symbolCase(l, nil, &c)
		}
	})
	s93 := c93Symbols()
	sweep(fmt.Sprintf("Code 93: %d reference symbols (texts of length 1..6 over native / ($) / (%%) / (/) / (+) classes), each valid and with every symbol-character position (data, C, K) x every replacement value 0..46, scale 1 and 2", len(s93)), len(s93), 1, func(l *mc.Local, i int) {
		s := s93[i]
		for scale := 1; scale <= 2; scale++ {
			c := fcase{Kind: "code93", Vals: s.vals, Text: s.text, Reader: "code93", Scale: scale, Path: "row"}
			symbolCase(l, nil, &c)
			l.Distinct("nontrivial", fmt.Sprint("c93", s.vals))
			for p := range s.vals {
				for v := 0; v <= 46; v++ {
					if v == s.vals[p] {
						continue
					}
					vv := append([]int(nil), s.vals...)
					vv[p] = v
					c := fcase{Kind: "code93", Vals: vv, Orig: s.text, Reader: "code93", Scale: scale, Path: "row"}
					symbolCase(l, nil, &c)
				}
			}
		}
	})
	// very long Code 93 symbols (from a foreign encoder; the library's writer stops at 80 characters):
	// the weights 1..20 and 1..15 cycle hundreds of times - 256 is a multiple of neither period
	l93 := []int{80, 200, 254, 255, 256, 257, 258, 300, 511, 512, 513, 1025}
	sweep(fmt.Sprintf("Code 93, very long symbols %v characters from the reference encoder: the valid symbol is read, and substitutions at the first character, at the characters 254..258 places in front of C and of K, at the last data character, at C and at K x three replacement values are never read as a different text", l93), len(l93), 1, func(l *mc.Local, i int) {
		n := l93[i]
		t := make([]byte, n)
		for q := range t {
			t[q] = "CODE 93-LONG.$/+%Z9X"[(q*7+q/20)%20]
		}
		v, err := ref.Code93Values(string(t))
		if err != nil {
			panic(err)
		}
		cc, kk := ref.Code93Checks(v)
		v = append(v, cc, kk)
		c := fcase{Kind: "code93", Vals: v, Text: string(t), Reader: "code93", Scale: 1, Path: "row"}
		symbolCase(l, nil, &c)
		l.Distinct("nontrivial", fmt.Sprint("c93-very-long", n))
		pos := map[int]bool{0: true, n - 1: true, n: true, n + 1: true}
		for d := 254; d <= 258; d++ {
			pos[n-d] = true   // d places in front of C
			pos[n+1-d] = true // d places in front of K
		}
		for p := range pos {
			if p < 0 || p >= len(v) {
				continue
			}
			for _, x := range []int{(v[p] + 1) % 47, (v[p] + 23) % 47, 46 - v[p]} {
				if x == v[p] {
					continue
				}
				vv := append([]int(nil), v...)
				vv[p] = x
				c := fcase{Kind: "code93", Vals: vv, Orig: string(t), Reader: "code93", Scale: 1, Path: "row"}
				symbolCase(l, nil, &c)
			}
		}
	})
	// Two-character changes after which ONE of the two check characters verifies and the other does
	// not: (1) a wrong C with K computed over the data followed by that wrong C; (2) a data character
	// replaced, C left as it was, K fitted; (3) a data character replaced, C recomputed, K left.
	sweep(fmt.Sprintf("Code 93, one check character verifies and the other does not: %d reference symbols x {every wrong C with K fitted to it; every data position x every replacement with the old C and K fitted; the same with C recomputed and the old K}", len(s93)), len(s93), 1, func(l *mc.Local, i int) {
		s := s93[i]
		n := len(s.vals) - 2
		fitK := func(vals []int, c int) int { // K over vals followed by c: weights 1 (c), 2.. cycling at 15
			k, w := c, 2
			for q := len(vals) - 1; q >= 0; q-- {
				k += w * vals[q]
				if w++; w > 15 {
					w = 1
				}
			}
			return k % 47
		}
		one := func(vv []int) {
			cc, _ := ref.Code93Checks(vv[:n])
			if (cc == vv[n]) == (fitK(vv[:n], vv[n]) == vv[n+1]) { // K is computed over the C the symbol shows
				l.Count("code93 partial-check cases that verify both or neither (not judged here)", 1)
				return
			}
			c := fcase{Kind: "code93", Vals: vv, Orig: s.text, Reader: "code93", Scale: 1, Path: "row"}
			symbolCase(l, nil, &c)
			l.Count("code93 cases where exactly one check character verifies", 1)
		}
		for c := 0; c <= 46; c++ {
			if c == s.vals[n] {
				continue
			}
			vv := append([]int(nil), s.vals...)
			vv[n] = c
			vv[n+1] = fitK(vv[:n], c)
			one(vv)
		}
		for p := 0; p < n; p++ {
			for v := 0; v <= 46; v++ {
				if v == s.vals[p] {
					continue
				}
				vv := append([]int(nil), s.vals...)
				vv[p] = v
				vv[n+1] = fitK(vv[:n], vv[n])
				one(vv)
				v3 := append([]int(nil), s.vals...)
				v3[p] = v
				v3[n], _ = ref.Code93Checks(v3[:n])
				one(v3)
			}
		}
	})
	// Code 39 with the optional modulo-43 check character, reader created with usingCheckDigit
	al := ref.Code39Alphabet
	var data []string
	for i := 0; i < 43; i++ {
		data = append(data, al[i:i+1], al[i:i+1]+al[i:i+1])
		roll := al + al
		for n := 3; n <= 6; n++ {
			data = append(data, roll[i:i+n])
		}
	}
	data = uniq(data)
	sweep(fmt.Sprintf("Code 39 with check character (reader flag usingCheckDigit): %d data strings of length 1..6, each valid and with every position (data, check) x every other of the 43 characters, wide:narrow 2 and 3", len(data)), len(data), 2, func(l *mc.Local, i int) {
		full := data[i] + string(ref.Code39Check(data[i]))
		for wide := 2; wide <= 3; wide++ {
			c := fcase{Kind: "code39", Str: full, Reader: "code39chk", Scale: 1, Wide: wide, Path: "row"}
			symbolCase(l, nil, &c)
			l.Distinct("nontrivial", "c39"+full)
			for p := 0; p < len(full); p++ {
				for v := 0; v < 43; v++ {
					if al[v] == full[p] {
						continue
					}
					c := fcase{Kind: "code39", Str: full[:p] + al[v:v+1] + full[p+1:], Orig: data[i], Reader: "code39chk", Scale: 1, Wide: wide, Path: "row"}
					symbolCase(l, nil, &c)
				}
			}
		}
	})
}

// ------------------------------------------------------------------ add-ons

func addonCase(l *mc.Local, c *fcase) {
	n := len(c.Addon)
	var natural []bool
	if n == 2 {
		natural = ref.AddOn2(c.Addon)
	} else {
		natural = ref.AddOn5(c.Addon)
	}
	all := draw(c)
	matches := sameMods(all, ref.WithAddOn(mainMods(c.Num), natural, 9))
	o := read(nil, c.Reader, all, c.Scale, c.Path)
	l.Count("evaluations", 1)
	tag := fmt.Sprintf("C10/addon%d", n)
	if o.panicM != "" {
		chk.Violation("C10/panic/"+o.site, fmt.Sprintf("panic %q reading %s", o.panicM, c), c)
		return
	}
	if o.err != nil || o.text != c.Num {
		chk.Violation(tag+"/main-symbol-lost", fmt.Sprintf("main symbol not read (got %q, %v): %s", o.text, o.err, c), c)
		return
	}
	if matches {
		if !o.hasExt || o.ext != c.Addon {
			chk.Violation(tag+"/valid-addon-not-reported", fmt.Sprintf("UPC_EAN_EXTENSION = %q (present %v), want %q: %s", o.ext, o.hasExt, c.Addon, c), c)
			return
		}
		l.Count("add-ons with matching parity reported", 1)
		l.Distinct("nontrivial", "addon"+c.Num+c.Addon)
		return
	}
	if o.hasExt && len(o.ext) == n {
		chk.Violation(tag+"/parity", fmt.Sprintf("add-on drawn with a parity pattern that does not encode its value is reported as UPC_EAN_EXTENSION %q: %s", o.ext, c), c)
		return
	}
	if o.hasExt {
		l.Count("5-digit add-ons with wrong parity whose first two digits were reported as a 2-digit add-on (not judged)", 1)
		chk.Sample("wrong-parity EAN-5 reported as EAN-2 (noted, not judged)", map[string]string{"case": c.String(), "extension": o.ext})
		return
	}
	l.Count("add-ons with wrong parity ignored", 1)
}

func runAddons() {
	mains := []struct{ num, reader string }{{"5901234123457", "ean13"}, {"036000291452", "upca"}}
	sweep("EAN-2 add-on: all 100 values x all 4 parity patterns after a fixed EAN-13 and a fixed UPC-A (gap 9 modules), row and image path, scale 1 and 2: UPC_EAN_EXTENSION is reported iff the parity encodes value mod 4", 100, 5, func(l *mc.Local, v int) {
		for _, m := range mains {
			for p := 0; p < 4; p++ {
				for scale := 1; scale <= 2; scale++ {
					for _, path := range []string{"row", "image"} {
						c := fcase{Kind: "addon2", Num: m.num, Addon: dig(v, 2), Parity: string([]byte{"LG"[p>>1&1], "LG"[p&1]}), Reader: m.reader, Scale: scale, Path: path}
						addonCase(l, &c)
					}
				}
			}
		}
	})
	n := chk.Pick(2000, 100000)
	name := "EAN-5 add-on: ALL 10^5 values x all 32 parity patterns after a fixed EAN-13 (gap 9 modules), row level: a 5-digit UPC_EAN_EXTENSION is reported iff the parity encodes the value's checksum"
	gen := func(i int) string { return dig(i, 5) }
	if chk.Quick() {
		name = "EAN-5 add-on: 2000 stratified values (d1..d3 free, two derived digits, two variants) x all 32 parity patterns after a fixed EAN-13 (gap 9 modules), row level: a 5-digit UPC_EAN_EXTENSION is reported iff the parity encodes the value's checksum"
		gen = func(i int) string {
			d1, d2, d3, k := i/100%10, i/10%10, i%10, i/1000
			return dig(i%1000, 3) + dig((d1+2*d2+3*d3+k)%10, 1) + dig((d1+d2+d3+7*k)%10, 1)
		}
	}
	sweep(name, n, 100, func(l *mc.Local, i int) {
		v := gen(i)
		for p := 0; p < 32; p++ {
			par := make([]byte, 5)
			for k := 0; k < 5; k++ {
				par[k] = "LG"[p>>uint(4-k)&1]
			}
			c := fcase{Kind: "addon5", Num: mains[0].num, Addon: v, Parity: string(par), Reader: "ean13", Scale: 1, Path: "row"}
			addonCase(l, &c)
		}
	})
	// the MAIN symbol varies: GS1 prefixes with a meaning of their own (977 serials, 978/979 books,
	// 02 / 2x in-store, 471, 00 = UPC-A range) - what is read of the add-on must not depend on them
	var prefixMains []string
	for _, body := range []string{"977123456700", "978123456789", "979012345678", "021234567890", "211234567890", "471234567890", "001234567890"} {
		prefixMains = append(prefixMains, body+dig(ref.Mod10Check(body), 1))
	}
	sweep(fmt.Sprintf("EAN-5 and EAN-2 add-ons after %d EAN-13 main symbols with special GS1 prefixes (977, 978, 979, 02, 21, 471, 00): EAN-5 values v = 41*i (2440 values) with their natural parity and with one wrong parity, all 100 EAN-2 values, row level", len(prefixMains)), 2440, 61, func(l *mc.Local, i int) {
		v := dig(41*i, 5)
		row := ref.AddOn5Parity(v)
		wrong := []byte(row)
		wrong[i%5] ^= 'L' ^ 'G'
		for _, m := range prefixMains {
			for _, par := range []string{row, string(wrong)} {
				c := fcase{Kind: "addon5", Num: m, Addon: v, Parity: par, Reader: "ean13", Scale: 1, Path: "row"}
				addonCase(l, &c)
			}
			if i < 100 {
				n := i % 4
				c := fcase{Kind: "addon2", Num: m, Addon: dig(i, 2), Parity: string([]byte{"LG"[n>>1&1], "LG"[n&1]}), Reader: "ean13", Scale: 1, Path: "row"}
				addonCase(l, &c)
			}
		}
	})
	sweep("EAN-5 add-on after a UPC-A, image path scale 2: 200 values (v = 499*i+7) x all 32 parity patterns", 200, 5, func(l *mc.Local, i int) {
		v := dig((499*i+7)%100000, 5)
		for p := 0; p < 32; p++ {
			par := make([]byte, 5)
			for k := 0; k < 5; k++ {
				par[k] = "LG"[p>>uint(4-k)&1]
			}
			c := fcase{Kind: "addon5", Num: mains[1].num, Addon: v, Parity: string(par), Reader: "upca", Scale: 2, Path: "image"}
			addonCase(l, &c)
		}
	})
}

// ------------------------------------------------------------------ main

func replay() {
	var c fcase
	if err := mc.LoadReplay(chk.ReplayFile(), &c); err != nil {
		fmt.Println("cannot load replay:", err)
		return
	}
	l := chk.NewLocal()
	defer l.Merge()
	fmt.Println("replay:", c.String())
	switch c.Kind {
	case "writer":
		if c.Sym == "code128" {
			writer128Case(l, c.Num)
		} else {
			writerCase(l, c.Sym, c.Num)
		}
	case "expand":
		got, ok := libExpand(c.Num)
		fmt.Printf("convertUPCEtoUPCA(%q) = %q (available %v), reference %q\n", c.Num, got, ok, ref.UPCEExpand(c.Num))
		if ok && got != ref.UPCEExpand(c.Num) {
			chk.Violation("C10/expand-suppress", fmt.Sprintf("convertUPCEtoUPCA(%q) = %q, reference expansion %q", c.Num, got, ref.UPCEExpand(c.Num)), &c)
		}
	case "addon2", "addon5":
		addonCase(l, &c)
	default:
		symbolCase(l, nil, &c)
	}
}

func main() {
	chk = mc.New("C10", "fault_enumeration")
	chk.Rule = "symbols are drawn by the reference model for EVERY number / value sequence of the stated families, valid or not (fault = one substituted digit or symbol character, a wrong check digit, a wrong parity pattern), and read by the library; writers are compared module by module with the reference drawing; non-trivial = distinct VALID symbols that were read correctly (the faults are generated from them; in the exhaustive thorough sweeps one per block of 100 EAN-8 / 10 UPC-E valid symbols, to bound memory) and one in 16 of the distinct zero-suppressible numbers"
	chk.Assume("verif/ref/oned is the trusted drawing and checksum model (its tables are cross-checked in its own init and tests); symbols are rendered exactly (no noise) with 12 light modules on each side")
	chk.Assume("a single substitution can never produce another valid symbol: UPC/EAN weights 3 and 1 are units modulo 10; Code 128 weights 1..102 are units modulo the prime 103 and the only value pairs that differ by 103 involve a start code, which is invalid inside a symbol and needed at its start; Code 93 C and K weights 1..20 are units modulo 47; Code 39 weight 1 modulo 43. Should the reference nevertheless judge a substituted symbol valid it is counted and not judged")
	chk.Assume("a substituted symbol must give an ERROR: returning the original text although a check character does not verify is also a violation ('readers never return a symbol whose check characters do not verify'), reported under .../bad-check-accepted; returning other text under .../different-text")
	chk.Assume("the multi-format UPC/EAN reader without POSSIBLE_FORMATS names a UPC-A symbol EAN_13 with a leading 0 (same bars)")
	chk.Assume("weaker reading of 'reported as an error rather than as a different number': the property is about the check digit of the number that is drawn. The matching reader applied to the row must give an error. When an invalid symbol is handed to the multi-format reader, or to the image path (which retries every row reversed), those may find a second reading of the same bars in a different framing - another UPC/EAN format, or upside down (ORIENTATION 180) - whose own check digit verifies; such alias readings do not show a check digit being ignored and are counted and sampled in the evidence, not judged. Returning the DRAWN number, or any other number in the same format and orientation, is a violation; so is an EAN-8 number delivered upside down from an EAN-8 row (the mirror image of an EAN-8 symbol is never a well-formed EAN-8 symbol: reversed odd-parity L codes are not R codes)")
	chk.Assume("add-ons, weaker reading: a 5-digit add-on drawn with a parity pattern that does not encode its checksum must not be reported as a 5-digit UPC_EAN_EXTENSION; the library's fallback that then reads its first two digits as a 2-digit add-on (whose own parity rule they may satisfy) is counted and sampled in the evidence, not judged")
	if chk.ReplayFile() != "" {
		replay()
		chk.Finish()
	}
	runExpand()
	runWriters()
	runWriters128()
	runUPCE()
	runEAN8()
	runSubstEAN()
	runSubstCode()
	runAddons()
	chk.Sample("reader", fcase{Kind: "upce", Num: "04252610", Reader: "upce", Scale: 1, Path: "row"})
	chk.Sample("reader", fcase{Kind: "ean8", Num: "96385074", Reader: "ean8", Scale: 1, Path: "row"})
	chk.Sample("writer", fcase{Kind: "writer", Sym: "upce", Num: "0425261"})
	runHistory()
	chk.Finish()
}
