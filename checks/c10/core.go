package main

import (
	"errors"
	"fmt"

	ref "verif/ref/oned"

	"verif/mc"

	"github.com/makiuchi-d/gozxing"
	"github.com/makiuchi-d/gozxing/oned"
)

var chk *mc.Check

// fcase is one executed case and the replay record: everything needed to draw the symbol
// again with the reference and to read it with the library.
type fcase struct {
	Kind   string // ean8 | upce | upce-parity | ean13 | upca | code128 | code93 | code39 | addon2 | addon5 | writer | expand
	Num    string `json:",omitempty"` // digits drawn (UPC/EAN), or writer input / number to expand
	Parity string `json:",omitempty"` // explicit L/G pattern (upce-parity, add-ons)
	Addon  string `json:",omitempty"` // add-on value
	Vals   []int  `json:",omitempty"` // symbol character values drawn (Code 128: start..check; Code 93: data..K)
	Str    string `json:",omitempty"` // Code 39 characters drawn between the asterisks
	Orig   string `json:",omitempty"` // text of the unmodified reference symbol (substitution cases)
	Text   string `json:",omitempty"` // Code 93: text of this (valid, unmodified) symbol
	Sym    string `json:",omitempty"` // writer cases: ean13 ean8 upca upce
	Reader string // ean13 ean8 upca upce multi code128 code93 code39chk
	Scale  int
	Wide   int    `json:",omitempty"` // wide:narrow ratio for Code 39
	Path   string // row | image
}

type rowDecoder interface {
	DecodeRow(rowNumber int, row *gozxing.BitArray, hints map[gozxing.DecodeHintType]interface{}) (*gozxing.Result, error)
}

func newReader(kind string) gozxing.Reader {
	switch kind {
	case "ean13":
		return oned.NewEAN13Reader()
	case "ean8":
		return oned.NewEAN8Reader()
	case "upca":
		return oned.NewUPCAReader()
	case "upce":
		return oned.NewUPCEReader()
	case "multi":
		return oned.NewMultiFormatUPCEANReader(nil)
	case "code128":
		return oned.NewCode128Reader()
	case "code93":
		return oned.NewCode93Reader()
	case "code39chk":
		return oned.NewCode39ReaderWithFlags(true, false)
	}
	panic("unknown reader " + kind)
}

const quiet = 12 // light modules on each side of every reference symbol (>= 10)

func bitRow(mod []bool, scale int) *gozxing.BitArray {
	px := ref.Row(mod, scale, quiet, quiet)
	row := gozxing.NewBitArray(len(px))
	for i, b := range px {
		if b {
			row.Set(i)
		}
	}
	return row
}

type outcome struct {
	text   string
	format gozxing.BarcodeFormat
	ext    string
	hasExt bool
	upside bool // ORIENTATION 180: the image path read the row reversed
	err    error
	panicM string
	site   string
}

// read reads reference modules with a library reader (rd == nil: a fresh one of the kind).
func read(rd gozxing.Reader, kind string, mod []bool, scale int, path string, hints ...map[gozxing.DecodeHintType]interface{}) (o outcome) {
	var h map[gozxing.DecodeHintType]interface{}
	if len(hints) > 0 {
		h = hints[0]
	}
	if rd == nil {
		rd = newReader(kind)
	}
	var res *gozxing.Result
	o.panicM, o.site = mc.Guard(func() {
		if path == "image" {
			bmp, e := gozxing.NewBinaryBitmapFromImage(ref.Image(mod, scale, quiet, quiet, 12))
			if e != nil {
				o.err = e
				return
			}
			res, o.err = rd.Decode(bmp, h)
		} else {
			res, o.err = rd.(rowDecoder).DecodeRow(0, bitRow(mod, scale), h)
		}
	})
	if o.panicM == "" && o.err == nil && res != nil {
		o.text, o.format = res.GetText(), res.GetBarcodeFormat()
		if v, ok := res.GetResultMetadata()[gozxing.ResultMetadataType_ORIENTATION]; ok && fmt.Sprint(v) == "180" {
			o.upside = true
		}
		if v, ok := res.GetResultMetadata()[gozxing.ResultMetadataType_UPC_EAN_EXTENSION]; ok {
			o.hasExt = true
			o.ext = fmt.Sprint(v)
		}
	} else if o.panicM == "" && o.err == nil {
		o.err = errors.New("neither result nor error")
	}
	return o
}

func errKind(err error) string {
	var nf gozxing.NotFoundException
	var ce gozxing.ChecksumException
	var fe gozxing.FormatException
	switch {
	case errors.As(err, &nf):
		return "notfound"
	case errors.As(err, &ce):
		return "checksum"
	case errors.As(err, &fe):
		return "format"
	}
	return "other"
}

func mod10(s string) string { return string(rune('0' + ref.Mod10Check(s))) }

func sameMods(a, b []bool) bool {
	if len(a) != len(b) {
		return false
	}
	for i := range a {
		if a[i] != b[i] {
			return false
		}
	}
	return true
}

var formats = map[string]gozxing.BarcodeFormat{
	"ean13": gozxing.BarcodeFormat_EAN_13, "ean8": gozxing.BarcodeFormat_EAN_8,
	"upca": gozxing.BarcodeFormat_UPC_A, "upce": gozxing.BarcodeFormat_UPC_E,
	"code128": gozxing.BarcodeFormat_CODE_128, "code93": gozxing.BarcodeFormat_CODE_93, "code39": gozxing.BarcodeFormat_CODE_39,
}

func (c *fcase) String() string {
	s := c.Kind
	if c.Num != "" {
		s += " number " + c.Num
	}
	if c.Parity != "" {
		s += " parity " + c.Parity
	}
	if c.Addon != "" {
		s += " add-on " + c.Addon
	}
	if c.Vals != nil {
		s += fmt.Sprint(" values ", c.Vals)
	}
	if c.Str != "" {
		s += fmt.Sprintf(" characters %q", c.Str)
	}
	if c.Orig != "" {
		s += fmt.Sprintf(" (substitution in the symbol for %q)", c.Orig)
	}
	if c.Reader != "" {
		s += fmt.Sprintf(", reader %s, scale %d, %s path", c.Reader, c.Scale, c.Path)
	}
	return s
}

// judge evaluates the common oracle: a symbol that is valid (per the reference) must be read
// as (want, format); any other must give an error. keyBad / keyGood are the violation keys.
func judge(l *mc.Local, c *fcase, o outcome, valid bool, want string, format gozxing.BarcodeFormat, keyBad, keyGood string) {
	l.Count("evaluations", 1)
	if o.panicM != "" {
		chk.Violation("C10/panic/"+o.site, fmt.Sprintf("panic %q reading %s", o.panicM, c), c)
		return
	}
	if valid {
		if o.err != nil {
			chk.Violation(keyGood, fmt.Sprintf("valid reference symbol is not read (%v): %s", o.err, c), c)
			l.Count("violations "+keyGood, 1)
			return
		}
		if o.text != want || o.format != format {
			chk.Violation(keyGood+"/wrong-result", fmt.Sprintf("valid reference symbol read as %q (%v), want %q (%v): %s", o.text, o.format, want, format, c), c)
			l.Count("violations "+keyGood+"/wrong-result", 1)
			return
		}
		l.Count("valid symbols read", 1)
		return
	}
	if o.err == nil {
		// EAN-8 has no mirror image: its left half uses only the odd-parity L codes, whose reversal
		// has odd parity too and so is none of the even-parity R codes a right half is made of. An
		// EAN-8 number delivered "upside down" from an EAN-8 row is therefore never a second reading
		// of the same bars, it is a misread of a symbol whose check digit does not verify.
		ean8Mirror := c.Kind == "ean8" && o.upside && o.format == gozxing.BarcodeFormat_EAN_8
		if o.text != want && (o.upside || o.format != format) && !ean8Mirror {
			// not the drawn number with its wrong check digit, but another, self-consistent reading of the
			// same bars in a different framing (see the Assume text): counted and sampled, not judged
			how := "as another format by the multi-format reader"
			if o.upside {
				how = "upside down (ORIENTATION 180)"
			}
			l.Count("invalid symbols that have a second, self-consistent reading "+how+" (not judged)", 1)
			chk.Sample("alias reading "+how, map[string]string{"case": c.String(), "read as": fmt.Sprintf("%q (%v)", o.text, o.format)})
			return
		}
		chk.Violation(keyBad, fmt.Sprintf("symbol whose check character(s) do not verify is read as %q (%v): %s", o.text, o.format, c), c)
		l.Count("violations "+keyBad, 1)
		return
	}
	l.Count("invalid symbols refused", 1)
	l.Distinct("outcomes", c.Kind+"/"+c.Reader+"/refused-"+errKind(o.err))
}
