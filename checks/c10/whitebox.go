//go:build verif && !blackbox

package main

import "github.com/makiuchi-d/gozxing/oned"

// libExpand calls the library's unexported convertUPCEtoUPCA through the add-only hook
// /verif/hooks/oned/zz_verif_c10.go.
func libExpand(s string) (string, bool) { return oned.VerifConvertUPCEtoUPCA(s), true }
