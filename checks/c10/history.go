package main

// Reader-object histories: a reader's verdict on a symbol (number, add-on, error) must not depend
// on what the same reader object read before. For the EAN-13, UPC-A, EAN-8, UPC-E and multi-format
// readers ALL sequences of up to three reads from a menu of reference-drawn symbols (plain, valid
// and wrong-parity 2- and 5-digit add-ons, a wrong check digit, another number) are made on ONE
// reader object; the outcome of the last read must equal the outcome of a fresh reader object.

import (
	"fmt"

	"verif/mc"
	ref "verif/ref/oned"

	"github.com/makiuchi-d/gozxing"
)

type hsym struct {
	Name  string
	mod   []bool
	hints map[gozxing.DecodeHintType]interface{} // the hints of THIS read (nil = none)
}

func parityOf(bits string) []bool { return parityBools(bits) }

func historyMenu() []hsym {
	main13 := "5901234123457"
	var p2 [2]bool
	var p5 [5]bool
	menu := []hsym{
		{"ean13", ref.EAN13(main13), nil},
		{"ean13-other", ref.EAN13("4006381333931"), nil},
		{"ean13-wrong-check", ref.EAN13("5901234123450"), nil},
		{"ean13+2", ref.WithAddOn(ref.EAN13(main13), ref.AddOn2("12"), 9), nil},
		{"ean13+2b", ref.WithAddOn(ref.EAN13(main13), ref.AddOn2("07"), 9), nil},
		{"ean13+5", ref.WithAddOn(ref.EAN13(main13), ref.AddOn5("52495"), 9), nil},
		{"ean13+5b", ref.WithAddOn(ref.EAN13(main13), ref.AddOn5("01999"), 9), nil},
		{"ean13+5c", ref.WithAddOn(ref.EAN13(main13), ref.AddOn5("52995"), 9), nil},
	}
	copy(p2[:], parityOf("GG"))
	menu = append(menu, hsym{"ean13+2-wrong-parity", ref.WithAddOn(ref.EAN13(main13), ref.AddOn2WithParity("12", p2), 9), nil})
	copy(p5[:], parityOf("LLLLL"))
	menu = append(menu, hsym{"ean13+5-wrong-parity", ref.WithAddOn(ref.EAN13(main13), ref.AddOn5WithParity("52495", p5), 9), nil})
	menu = append(menu,
		hsym{"upca", ref.UPCA("036000291452"), nil},
		hsym{"upca+5", ref.WithAddOn(ref.UPCA("036000291452"), ref.AddOn5("12345"), 9), nil},
		hsym{"ean8", ref.EAN8("96385074"), nil},
		hsym{"upce", ref.UPCE("04252614"), nil},
		hsym{"blank", make([]bool, 40), nil},
	)
	// reads under ALLOWED_EAN_EXTENSIONS: a symbol whose add-on is missing or of another length is
	// given up AFTER its check digit was verified - a failure exit of its own
	ext := func(n ...int) map[gozxing.DecodeHintType]interface{} {
		return map[gozxing.DecodeHintType]interface{}{gozxing.DecodeHintType_ALLOWED_EAN_EXTENSIONS: n}
	}
	menu = append(menu,
		hsym{"ean13@ext5", ref.EAN13(main13), ext(5)},
		hsym{"ean13+2@ext5", ref.WithAddOn(ref.EAN13(main13), ref.AddOn2("12"), 9), ext(5)},
		hsym{"ean13+5@ext5", ref.WithAddOn(ref.EAN13(main13), ref.AddOn5("52495"), 9), ext(5)},
		hsym{"upca@ext2", ref.UPCA("036000291452"), ext(2)},
		hsym{"upca-wrong-check", ref.UPCA("036000291459"), nil},
		hsym{"ean8-wrong-check", ref.EAN8("96385071"), nil},
		hsym{"ean8@ext2", ref.EAN8("96385074"), ext(2)},
	)
	// cross-symbology twins: EAN-8 and UPC-E both carry eight digits and verify them by different
	// rules (UPC-E on its UPC-A expansion). The same eight digits as a valid EAN-8 symbol and as a
	// UPC-E symbol (whose check digit is then wrong), and the other way round.
	e8 := "0425261" + fmt.Sprint(ref.Mod10Check("0425261"))
	if e8 == "04252614" {
		panic("harness: the EAN-8 and UPC-E check digits of 0425261 coincide; choose another number")
	}
	menu = append(menu,
		hsym{"ean8-twin", ref.EAN8(e8), nil},
		hsym{"upce-with-the-twin's-digits", ref.UPCE(e8), nil},
		hsym{"ean8-with-the-upce-digits", ref.EAN8("04252614"), nil},
	)
	return menu
}

func outcomeKey(o outcome) string {
	if o.panicM != "" {
		return "panic " + o.panicM
	}
	if o.err != nil {
		return "error " + errKind(o.err)
	}
	return fmt.Sprintf("%q %v ext=%v %q", o.text, o.format, o.hasExt, o.ext)
}

type hcase struct {
	Reader string
	Path   string
	Seq    []string
}

func runHistory() {
	menu := historyMenu()
	depth := chk.Pick(3, 3)
	type job struct {
		reader, path string
		first        int
	}
	var jobs []job
	for _, rd := range []string{"ean13", "upca", "ean8", "upce", "multi"} {
		for _, path := range []string{"row", "image"} {
			for f := range menu {
				jobs = append(jobs, job{rd, path, f})
			}
		}
	}
	chk.Range(fmt.Sprintf("reader-object histories: 5 readers x {row, image} x ALL sequences of <=%d reads from a %d-symbol menu (plain, valid / wrong-parity 2- and 5-digit add-ons, wrong check digit, other number, other symbologies, EAN-8 / UPC-E symbols carrying the same eight digits, blank) on ONE reader object (pairs also with Reset() between the reads): the last outcome == the outcome of a fresh reader", depth, len(menu)), len(jobs),
		func(i int) string {
			return fmt.Sprint(jobs[i].reader, " ", jobs[i].path, " first ", menu[jobs[i].first].Name)
		},
		func(l *mc.Local, i int) {
			j := jobs[i]
			scale := 1
			if j.path == "image" {
				scale = 2
			}
			fresh := make([]string, len(menu))
			for k, s := range menu {
				fresh[k] = outcomeKey(read(nil, j.reader, s.mod, scale, j.path, s.hints))
			}
			var rec func(seq []int)
			rec = func(seq []int) {
				rd := newReader(j.reader)
				var last outcome
				for _, k := range seq {
					last = read(rd, j.reader, menu[k].mod, scale, j.path, menu[k].hints)
				}
				l.Count("evaluations", 1)
				final := seq[len(seq)-1]
				if got := outcomeKey(last); got != fresh[final] {
					var names []string
					for _, k := range seq {
						names = append(names, menu[k].Name)
					}
					cls := "result"
					if last.hasExt || (fresh[final] != "" && len(fresh[final]) > 0 && containsExt(fresh[final])) {
						cls = "add-on"
					}
					chk.Violation("C10/reader-history/"+j.reader+"/"+cls, fmt.Sprintf("%s reader (%s path) after reading %v on the same object: the last symbol gives %s, a fresh reader gives %s", j.reader, j.path, names, got, fresh[final]), hcase{j.reader, j.path, names})
				} else if len(seq) > 1 && last.err == nil {
					l.Distinct("nontrivial", fmt.Sprint("hist", j.reader, j.path, seq))
				}
				if len(seq) == 2 {
					// the same pair with the documented Reset() between the two reads
					rd2 := newReader(j.reader)
					read(rd2, j.reader, menu[seq[0]].mod, scale, j.path, menu[seq[0]].hints)
					mc.Guard(func() { rd2.Reset() })
					l2 := read(rd2, j.reader, menu[seq[1]].mod, scale, j.path, menu[seq[1]].hints)
					l.Count("evaluations", 1)
					if got := outcomeKey(l2); got != fresh[seq[1]] {
						names := []string{menu[seq[0]].Name, "Reset()", menu[seq[1]].Name}
						chk.Violation("C10/reader-history/"+j.reader+"/after-reset", fmt.Sprintf("%s reader (%s path) after reading %v on the same object: the last symbol gives %s, a fresh reader gives %s", j.reader, j.path, names, got, fresh[seq[1]]), hcase{j.reader, j.path, names})
					}
				}
				if len(seq) < depth {
					for k := range menu {
						rec(append(append([]int{}, seq...), k))
					}
				}
			}
			rec([]int{j.first})
		})
	chk.Sample("reader history", hcase{"ean13", "row", []string{"ean13+2", "ean13+5"}})
	_ = gozxing.BarcodeFormat_EAN_13
	_ = mc.VerifDir
}

func containsExt(s string) bool {
	for i := 0; i+8 <= len(s); i++ {
		if s[i:i+8] == "ext=true" {
			return true
		}
	}
	return false
}
