package main

// Values of the NEED_RESULT_POINT_CALLBACK hint. The hint "maps to a ResultPointCallback"
// (decode_hint_type.go); the values a caller can write for it are
//   - a gozxing.ResultPointCallback,
//   - a nil gozxing.ResultPointCallback (no callback wanted),
//   - untyped nil (a hint map built from optional settings), and
//   - a function literal func(gozxing.ResultPoint) placed in the map directly: Go lets that value be
//     used wherever a ResultPointCallback is expected, but inside an interface{} it keeps its
//     unnamed function type.
// Every image reader reads a valid symbol of its own symbology - upright, upside down (the row
// readers drop the hint for the reversed attempt), and sideways under TRY_HARDER - with each value,
// alone and together with TRY_HARDER; the row decoders get the same hints through DecodeRow. The
// callback itself is also given a body that panics never and one that records points.

import (
	"fmt"

	"verif/mc"
	refaz "verif/ref/aztec"
	refoned "verif/ref/oned"

	"github.com/makiuchi-d/gozxing"
	"github.com/makiuchi-d/gozxing/datamatrix"
	"github.com/makiuchi-d/gozxing/qrcode"
)

type cbValue struct {
	name string
	mk   func(n *int) interface{}
}

var cbValues = []cbValue{
	{"ResultPointCallback", func(n *int) interface{} { return gozxing.ResultPointCallback(func(p gozxing.ResultPoint) { *n++ }) }},
	{"ResultPointCallback(nil)", func(n *int) interface{} { return gozxing.ResultPointCallback(nil) }},
	{"untyped nil", func(n *int) interface{} { return nil }},
	{"func(ResultPoint) literal", func(n *int) interface{} { return func(p gozxing.ResultPoint) { *n++ } }},
}

func boolsToMatrix(rows [][]bool, scale, quiet int) *gozxing.BitMatrix {
	h, w := len(rows), len(rows[0])
	m, _ := gozxing.NewBitMatrix((w+2*quiet)*scale, (h+2*quiet)*scale)
	for y := range rows {
		for x := range rows[y] {
			if rows[y][x] {
				m.SetRegion((x+quiet)*scale, (y+quiet)*scale, scale, scale)
			}
		}
	}
	return m
}

func turn(m *gozxing.BitMatrix, quarter int) *gozxing.BitMatrix {
	w, h := m.GetWidth(), m.GetHeight()
	nw, nh := w, h
	if quarter%2 == 1 {
		nw, nh = h, w
	}
	o, _ := gozxing.NewBitMatrix(nw, nh)
	for y := 0; y < h; y++ {
		for x := 0; x < w; x++ {
			if m.Get(x, y) {
				switch quarter {
				case 0:
					o.Set(x, y)
				case 1:
					o.Set(h-1-y, x)
				case 2:
					o.Set(w-1-x, h-1-y)
				default:
					o.Set(y, w-1-x)
				}
			}
		}
	}
	return o
}

func runCallbackHints() {
	type sy struct {
		name    string
		m       *gozxing.BitMatrix
		readers []string
	}
	var syms []sy
	for _, w := range oneDWriters {
		m, err := w.mk().Encode(w.contents[0], w.f, 0, 12, nil)
		if err != nil {
			panic("harness: " + err.Error())
		}
		rs := []string{w.name}
		switch w.name {
		case "EAN13", "EAN8", "UPCA", "UPCE":
			rs = append(rs, "MultiUPCEAN")
		case "Code39":
			rs = append(rs, "Code39+check+ext")
		}
		syms = append(syms, sy{w.name, m, rs})
	}
	qm, _ := qrcode.NewQRCodeWriter().Encode("HELLO callback", gozxing.BarcodeFormat_QR_CODE, 90, 90, nil)
	syms = append(syms, sy{"QR", qm, []string{"QR", "QRMulti"}})
	// version 7 has alignment patterns: the alignment finder reports points too
	q7, _ := qrcode.NewQRCodeWriter().Encode("The quick brown fox jumps over the lazy dog, the quick brown fox jumps over the lazy dog, 0123456789", gozxing.BarcodeFormat_QR_CODE, 150, 150, nil)
	syms = append(syms, sy{"QRv7", q7, []string{"QR", "QRMulti"}})
	dmm, _ := datamatrix.NewDataMatrixWriter().Encode("HELLO", gozxing.BarcodeFormat_DATA_MATRIX, 60, 60, nil)
	syms = append(syms, sy{"DM", dmm, []string{"DataMatrix"}})
	sc := refaz.NewScript()
	if err := sc.Text("HELLO"); err != nil {
		panic("harness: " + err.Error())
	}
	as, err := refaz.EncodeBits(sc.Bits(), true, 1)
	if err != nil {
		panic("harness: " + err.Error())
	}
	syms = append(syms, sy{"Aztec", boolsToMatrix(as.Matrix, 4, 3), []string{"Aztec"}})
	syms = append(syms, sy{"Aztec-mirrored", boolsToMatrix(refaz.Mirror(as.Matrix), 4, 3), []string{"Aztec"}})
	if mods, err := refoned.RSS14FromCharacters(160, 336, 961, 1036); err == nil {
		row := append(append(make([]bool, 12), mods...), make([]bool, 12)...)
		rows := [][]bool{}
		for i := 0; i < 12; i++ {
			rows = append(rows, row)
		}
		syms = append(syms, sy{"RSS14", boolsToMatrix(rows, 2, 0), []string{"RSS14"}})
	} else {
		panic("harness: " + err.Error())
	}
	type job struct {
		s, v, turn int
		th         bool
	}
	var jobs []job
	for s := range syms {
		for v := range cbValues {
			for t := 0; t < 4; t++ {
				for _, th := range []bool{false, true} {
					jobs = append(jobs, job{s, v, t, th})
				}
			}
		}
	}
	chk.Range(fmt.Sprintf("hint values: NEED_RESULT_POINT_CALLBACK over {callback, nil callback, untyped nil, func(ResultPoint) literal} x %d valid symbols (all 16 image readers; QR with alignment patterns, Aztec mirrored) x 4 quarter turns x {alone, with TRY_HARDER}, and through DecodeRow of the row decoders", len(syms)), len(jobs),
		func(i int) string {
			j := jobs[i]
			return fmt.Sprint(syms[j.s].name, " ", cbValues[j.v].name, " turn ", j.turn, " th ", j.th)
		},
		func(l *mc.Local, i int) {
			j := jobs[i]
			s := syms[j.s]
			m := turn(s.m, j.turn)
			calls := 0
			h := map[gozxing.DecodeHintType]interface{}{gozxing.DecodeHintType_NEED_RESULT_POINT_CALLBACK: cbValues[j.v].mk(&calls)}
			desc := "NEED_RESULT_POINT_CALLBACK=" + cbValues[j.v].name
			if j.th {
				h[gozxing.DecodeHintType_TRY_HARDER] = true
				desc += " TRY_HARDER"
			}
			g := grayOf(m)
			for _, ir := range imgReaders {
				use := false
				for _, r := range s.readers {
					use = use || r == ir.name
				}
				if !use {
					continue
				}
				for _, hybrid := range []bool{true, false} {
					src := gozxing.NewLuminanceSourceFromImage(g)
					var bmp *gozxing.BinaryBitmap
					if hybrid {
						bmp, _ = gozxing.NewBinaryBitmap(gozxing.NewHybridBinarizer(src))
					} else {
						bmp, _ = gozxing.NewBinaryBitmap(gozxing.NewGlobalHistgramBinarizer(src))
					}
					var res interface{}
					var err error
					dec := ir.mk()
					l.Beat("")
					pm, site := mc.Guard(func() { res, err = dec(bmp, h) })
					cs := rcase{Kind: "hint-value", Target: ir.name, W: m.GetWidth(), H: m.GetHeight(), Pixels: pix(m), Hints: desc, Extra: fmt.Sprint(s.name, " turn ", j.turn, " hybrid=", hybrid)}
					outcome(l, "hint-value/callback/"+ir.name, pm, site, res, err, cs, true)
					if err == nil && pm == "" {
						l.Count("callback-hint reads that decoded", 1)
					}
				}
			}
			l.Count("result points reported to callbacks", int64(calls))
			// row level (1-D symbols only, upright and reversed)
			if j.turn%2 == 0 && j.s < len(oneDWriters)+0 || s.name == "RSS14" && j.turn%2 == 0 {
				b := firstRow(m)
				for _, rd := range rowDecoders {
					if (len(rd.name) < len(s.name) || rd.name[:len(s.name)] != s.name) && !(rd.name == "MultiUPCEAN" && len(s.readers) > 1 && s.readers[1] == "MultiUPCEAN") {
						continue
					}
					var res *gozxing.Result
					var err error
					row := toBitArray(b)
					dec := rd.mk().(rowDecoder)
					l.Beat("")
					pm, site := mc.Guard(func() { res, err = dec.DecodeRow(3, row, h) })
					cs := rcase{Kind: "hint-value", Target: rd.name, Bits: rowStr(b), Hints: desc, Extra: fmt.Sprint(s.name, " row, turn ", j.turn)}
					outcome(l, "hint-value/callback/row/"+rd.name, pm, site, res, err, cs, false)
				}
			}
		})
}
