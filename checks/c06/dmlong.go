package main

// Long Data Matrix codeword streams. The exported parser takes any byte slice; the largest symbol
// holds 1558 data codewords, so anything sized "for the largest symbol" (a scratch array, a length
// table) is first exceeded by a longer slice. Streams of 1000 .. 5000 codewords: one Base 256
// segment in the "to the end of the stream" form and with explicit lengths on both sides of 249/250,
// 1555 and 1558 (fully present, and one byte short), and long C40, Text, X12, EDIFACT, digit-pair
// and pad runs. The parser must return a result or an error.

import (
	"fmt"

	"verif/mc"

	azdec "github.com/makiuchi-d/gozxing/aztec/decoder"
)

// rand255 applies the 255-state randomising of Base 256 codewords (pos = 1-based stream position).
func rand255(v, pos int) byte {
	return byte((v + (149*pos)%255 + 1) % 256)
}

func runDMLongStreams() {
	var streams [][]byte
	var names []string
	add := func(name string, b []byte) {
		streams = append(streams, b)
		names = append(names, name)
	}
	fill := func(n int, f func(i int) byte) []byte {
		b := make([]byte, n)
		for i := range b {
			b[i] = f(i)
		}
		return b
	}
	for _, L := range []int{1000, 1555, 1556, 1557, 1558, 1559, 1560, 1561, 1562, 1600, 1749, 1760, 2000, 3000, 5000} {
		// Base 256 to the end of the stream: latch, length 0 (randomised), payload
		b := []byte{231, rand255(0, 2)}
		for i := 0; len(b) < L; i++ {
			b = append(b, rand255(i%256, len(b)+1))
		}
		add(fmt.Sprintf("base256/to-end/%d", L), b)
		for latch, nm := range map[byte]string{230: "c40", 239: "text", 238: "x12", 240: "edifact"} {
			add(fmt.Sprintf("%s/%d", nm, L), append([]byte{latch}, fill(L-1, func(i int) byte { return byte(37 + (i*73)%180) })...))
			add(fmt.Sprintf("%s/extremes/%d", nm, L), append([]byte{latch}, fill(L-1, func(i int) byte { return []byte{0xFA, 0x00, 0x00, 0x01, 0xFF, 0xFF}[i%6] })...))
		}
		add(fmt.Sprintf("digit-pairs/%d", L), fill(L, func(i int) byte { return byte(130 + i%100) }))
		add(fmt.Sprintf("ascii/%d", L), fill(L, func(i int) byte { return byte(1 + i%128) }))
		add(fmt.Sprintf("pads/%d", L), fill(L, func(i int) byte { return 129 }))
		add(fmt.Sprintf("upper-shift/%d", L), fill(L, func(i int) byte { return []byte{235, byte(1 + i%128)}[i%2] }))
	}
	for _, c := range []int{1, 249, 250, 251, 499, 500, 1000, 1554, 1555, 1556, 1557, 1558, 1559, 1560, 1600, 1749} {
		for _, short := range []int{0, 1} {
			for _, tail := range []int{0, 3} {
				b := []byte{231}
				if c < 250 {
					b = append(b, rand255(c, 2))
				} else {
					b = append(b, rand255(249+c/250, 2), rand255(c%250, 3))
				}
				for i := 0; i < c-short; i++ {
					b = append(b, rand255((i*7)%256, len(b)+1))
				}
				for i := 0; i < tail && short == 0; i++ {
					b = append(b, byte('A'+1+i))
				}
				add(fmt.Sprintf("base256/explicit/%d/short=%d/tail=%d", c, short, tail), b)
			}
		}
	}
	chk.Range(fmt.Sprintf("Data Matrix codeword parser on LONG streams (1000..5000 codewords, beyond the 1558 of the largest symbol): Base 256 to the end and with explicit lengths around 250, 1555, 1558 (complete / one byte short / followed by ASCII), long C40 / Text / X12 / EDIFACT / digit-pair / ASCII / pad / upper-shift runs [%d streams]", len(streams)), len(streams),
		func(i int) string { return names[i] },
		func(l *mc.Local, i int) {
			dmParse(l, streams[i], "long/"+names[i])
			l.Count("dm_long_streams", 1)
		})
}

var _ = mc.Guard

// runAztecLongStreams: corrected-bit arrays longer than any symbol carries (the largest full-range
// symbol has 1437 twelve-bit codewords, 17244 bits): 4096 .. 40000 bits of zeros, ones, alternating
// bits, a counter, and binary shifts announcing 31, 62, 2078 (the largest 11-bit extended length)
// bytes, present and cut short.
func runAztecLongStreams() {
	type st struct {
		name string
		bits []bool
	}
	var ss []st
	mk := func(n int, f func(i int) bool) []bool {
		b := make([]bool, n)
		for i := range b {
			b[i] = f(i)
		}
		return b
	}
	for _, n := range []int{4096, 17244, 17245, 19968, 25000, 40000} {
		ss = append(ss,
			st{fmt.Sprint("zeros/", n), mk(n, func(i int) bool { return false })},
			st{fmt.Sprint("ones/", n), mk(n, func(i int) bool { return true })},
			st{fmt.Sprint("alternating/", n), mk(n, func(i int) bool { return i%2 == 0 })},
			st{fmt.Sprint("counter/", n), mk(n, func(i int) bool { return (i/13+i%7)%3 == 0 })},
			st{fmt.Sprint("upper-text/", n), mk(n, func(i int) bool { return []bool{false, false, true, false, true}[i%5] })})
		for _, ext := range []int{0, 1, 1000, 2047} {
			// B/S (11111), length 0 (00000), 11-bit extended length, then the bytes (or fewer)
			b := append(mkbits(31, 5), mkbits(0, 5)...)
			b = append(b, mkbits(ext, 11)...)
			for len(b) < n {
				b = append(b, (len(b)/3)%2 == 0)
			}
			ss = append(ss, st{fmt.Sprintf("bs-extended/%d/%d", ext, n), b})
		}
	}
	chk.Range(fmt.Sprintf("Aztec HighLevelDecode on LONG bit arrays (4096..40000 bits, beyond the 17244 of the largest symbol): uniform, alternating, counter, upper-case text, binary shifts with extended lengths [%d arrays]", len(ss)), len(ss),
		func(i int) string { return ss[i].name },
		func(l *mc.Local, i int) {
			var s string
			var err error
			bits := ss[i].bits
			cs := rcase{Kind: "aztec-highlevel", Target: "aztec", Extra: "long/" + ss[i].name}
			pm, site := mc.Guard(func() { s, err = azdec.NewDecoder().HighLevelDecode(bits) })
			var res interface{} = &s
			if err != nil {
				res = nil
			}
			outcome(l, "aztec-highlevel/long", pm, site, res, err, cs, false)
		})
}
