package main

// Long QR segments. The short-string enumeration of the bit-stream parser stays far below the sizes
// at which its result buffers grow (50 bytes at first, then by doubling): text of EVERY length
// 1..1300 characters per segment kind, with the characters that the post-processing rewrites
// (the GS1 separator '%' in an alphanumeric segment under FNC1, Kanji pairs, ECI-designated bytes)
// at the end, at the start and throughout. Numeric, alphanumeric (plain and under FNC1 in first and
// second position), byte (plain, after ECI 26 and ECI 20) and Kanji segments; version 40 count widths.

import (
	"fmt"

	"verif/mc"

	"github.com/makiuchi-d/gozxing"
	qrdec "github.com/makiuchi-d/gozxing/qrcode/decoder"
)

const alnumQR = "0123456789ABCDEFGHIJKLMNOPQRSTUVWXYZ $%*+-./:"

func alnumIndex(c byte) int {
	for i := 0; i < len(alnumQR); i++ {
		if alnumQR[i] == c {
			return i
		}
	}
	return 0
}

func putAlnum(w *bitw, s string) {
	w.put(2, 4)
	w.put(len(s), 13)
	for i := 0; i+1 < len(s); i += 2 {
		w.put(alnumIndex(s[i])*45+alnumIndex(s[i+1]), 11)
	}
	if len(s)%2 == 1 {
		w.put(alnumIndex(s[len(s)-1]), 6)
	}
}

func runQRLongSegments() {
	maxN := chk.Pick(1300, 4200)
	type job struct{ kind, from int }
	kinds := []string{"fnc1-first alnum A..A%", "fnc1-first alnum A..A%%", "fnc1-first alnum %A..A", "fnc1-first alnum %A%A..", "fnc1-second alnum A..A%", "plain alnum A..A%", "numeric", "byte", "eci26 byte", "eci20 byte", "kanji", "fnc1-first alnum x2 (two segments)"}
	var jobs []job
	for k := range kinds {
		for f := 1; f <= maxN; f += 100 {
			jobs = append(jobs, job{k, f})
		}
	}
	chk.Range(fmt.Sprintf("QR bit-stream parser, long segments: %d segment kinds (FNC1 + alphanumeric with the GS1 separator %% at the end / doubled / at the start / alternating, plain alphanumeric, numeric, byte, ECI 26 and 20 + byte, Kanji, two FNC1 alphanumeric segments) x EVERY length 1..%d, version 40", len(kinds), maxN), len(jobs),
		func(i int) string { return fmt.Sprint(kinds[jobs[i].kind], " from ", jobs[i].from) },
		func(l *mc.Local, i int) {
			j := jobs[i]
			for n := j.from; n < j.from+100 && n <= maxN; n++ {
				var w bitw
				rep := func(unit string, n int) string {
					b := make([]byte, n)
					for k := range b {
						b[k] = unit[k%len(unit)]
					}
					return string(b)
				}
				switch j.kind {
				case 0:
					w.put(5, 4)
					putAlnum(&w, rep("A", n-1)+"%")
				case 1:
					w.put(5, 4)
					putAlnum(&w, rep("A", n-1)+"%%")
				case 2:
					w.put(5, 4)
					putAlnum(&w, "%"+rep("A", n-1))
				case 3:
					w.put(5, 4)
					putAlnum(&w, rep("%A", n))
				case 4:
					w.put(9, 4)
					w.put(37, 8)
					putAlnum(&w, rep("B", n-1)+"%")
				case 5:
					putAlnum(&w, rep("C", n-1)+"%")
				case 6:
					w.put(1, 4)
					w.put(n, 14)
					for k := 0; k+2 < n; k += 3 {
						w.put(123, 10)
					}
					switch n % 3 {
					case 1:
						w.put(7, 4)
					case 2:
						w.put(42, 7)
					}
				case 7, 8, 9:
					if j.kind == 8 {
						w.put(7, 4)
						w.put(26, 8)
					}
					if j.kind == 9 {
						w.put(7, 4)
						w.put(20, 8)
					}
					w.put(4, 4)
					w.put(n, 16)
					for k := 0; k < n; k++ {
						w.put(int("a%b"[k%3]), 8)
					}
				case 10:
					w.put(8, 4)
					w.put(n, 12)
					for k := 0; k < n; k++ {
						w.put(0x0100+k%0x1000, 13)
					}
				case 11:
					w.put(5, 4)
					putAlnum(&w, rep("A", n/2)+"%")
					putAlnum(&w, "%"+rep("Z", n-n/2))
				}
				w.put(0, 4)
				qrParse(l, w.b, 40, qrdec.ErrorCorrectionLevel_L, nil, fmt.Sprint(kinds[j.kind], " n=", n))
				if n%7 == 0 {
					qrParse(l, w.b, 40, qrdec.ErrorCorrectionLevel_L, map[gozxing.DecodeHintType]interface{}{gozxing.DecodeHintType_CHARACTER_SET: "ISO-8859-1"}, fmt.Sprint(kinds[j.kind], " n=", n, " hint"))
				}
			}
		})
}
