package main

// Canvases carrying SEVERAL QR symbols. The other image families show every reader at most one
// symbol, so the multi-symbol reader never gets past "three finder patterns": the grouping of
// finder-pattern candidates into triples (multi/qrcode/detector selectMultipleBestPatterns) and the
// merging of structured-append parts (multi/qrcode processStructuredAppend) stay unexecuted. Here
// every ordered pair, and every triple and quadruple over a smaller menu, of symbols is placed
// side by side, stacked, diagonally and on a 2x2 grid, at equal and at different module sizes and
// with quiet zones of 4, 1 and 0 modules between them, and read by the multi-symbol reader and the
// single-symbol QR reader under {no hints, PURE_BARCODE, TRY_HARDER} with both binarisers.
//
// The menu holds symbols of the library's writer (versions 1, 2, 5; mirrored) and symbols the
// reference constructor verif/ref/qr builds around a STRUCTURED APPEND header (mode 0011, which the
// library cannot write): parts 1..3 of one message with equal parity, a part with another parity,
// a repeated sequence number, a part whose total is smaller than its index, a header without any
// data after it, a header followed by an ECI-designated byte segment, by a Kanji segment, and a
// header that is cut off by the end of the data codewords.
//
// The oracle is the property's: the call returns, without panic, either results or an error of a
// documented kind.

import (
	"fmt"

	"verif/mc"
	refqr "verif/ref/qr"

	"github.com/makiuchi-d/gozxing"
	multiqr "github.com/makiuchi-d/gozxing/multi/qrcode"
	"github.com/makiuchi-d/gozxing/qrcode"
)

type multiSym struct {
	name string
	m    [][]bool
}

// saSymbol builds a QR symbol whose data stream is head bits followed by the segments.
func saSymbol(v int, lvl refqr.Level, mask int, head []bool, segs []refqr.Segment, cut int) [][]bool {
	bits := append([]bool{}, head...)
	if len(segs) > 0 {
		sb, err := refqr.SegmentBits(segs, v)
		if err != nil {
			panic("harness: " + err.Error())
		}
		bits = append(bits, sb...)
	}
	n := refqr.DataCodewords(v, lvl)
	if cut >= 0 { // the stream ends cut bits into the head: fill the symbol with byte segments first
		pre := []bool{}
		// one byte segment that leaves exactly `cut` bits of room: 4 + ccb + 8k bits
		ccb := refqr.CharCountBits(refqr.Byte, v)
		k := (8*n - cut - 4 - ccb) / 8
		sb, err := refqr.SegmentBits([]refqr.Segment{{Mode: refqr.Byte, Data: make([]byte, k), ECI: -1}}, v)
		if err != nil {
			panic("harness: " + err.Error())
		}
		pre = append(pre, sb...)
		bits = append(pre, head...)
		if len(bits) > 8*n {
			bits = bits[:8*n]
		}
	}
	if len(bits) > 8*n {
		panic("harness: structured-append payload too long")
	}
	for i := 0; i < 4 && len(bits) < 8*n; i++ {
		bits = append(bits, false)
	}
	for len(bits)%8 != 0 {
		bits = append(bits, false)
	}
	data := make([]byte, 0, n)
	for i := 0; i < len(bits); i += 8 {
		var b byte
		for k := 0; k < 8; k++ {
			b <<= 1
			if bits[i+k] {
				b |= 1
			}
		}
		data = append(data, b)
	}
	for k := 0; len(data) < n; k++ {
		data = append(data, []byte{0xEC, 0x11}[k%2])
	}
	return refqr.Build(data, v, lvl, mask)
}

func saHead(seq, total, parity int) []bool {
	var b []bool
	put := func(v, n int) {
		for i := n - 1; i >= 0; i-- {
			b = append(b, v>>uint(i)&1 == 1)
		}
	}
	put(3, 4)
	put(seq, 4)
	put(total, 4)
	put(parity, 8)
	return b
}

func libQR(content string, hints map[gozxing.EncodeHintType]interface{}) [][]bool {
	h := map[gozxing.EncodeHintType]interface{}{gozxing.EncodeHintType_MARGIN: 0}
	for k, v := range hints {
		h[k] = v
	}
	m, err := qrcode.NewQRCodeWriter().Encode(content, gozxing.BarcodeFormat_QR_CODE, 0, 0, h)
	if err != nil {
		panic("harness: " + err.Error())
	}
	out := make([][]bool, m.GetHeight())
	for y := range out {
		out[y] = make([]bool, m.GetWidth())
		for x := range out[y] {
			out[y][x] = m.Get(x, y)
		}
	}
	return out
}

func transpose(m [][]bool) [][]bool {
	out := make([][]bool, len(m[0]))
	for x := range out {
		out[x] = make([]bool, len(m))
		for y := range m {
			out[x][y] = m[y][x]
		}
	}
	return out
}

func multiMenu() []multiSym {
	byteSeg := func(s string) []refqr.Segment {
		return []refqr.Segment{{Mode: refqr.Byte, Data: []byte(s), ECI: -1}}
	}
	menu := []multiSym{
		{"lib-v1", libQR("A", nil)},
		{"lib-v2", libQR("hello, world 12", nil)},
		{"sa-1of3", saSymbol(1, refqr.M, 2, saHead(0, 2, 0x5a), byteSeg("part one,"), -1)},
		{"sa-2of3", saSymbol(1, refqr.M, 5, saHead(1, 2, 0x5a), byteSeg(" part two,"), -1)},
		{"sa-3of3", saSymbol(2, refqr.L, 0, saHead(2, 2, 0x5a), []refqr.Segment{{Mode: refqr.Numeric, Data: []byte("0123456789"), ECI: -1}}, -1)},
		{"sa-other-parity", saSymbol(1, refqr.L, 1, saHead(0, 1, 0xa5), byteSeg("other"), -1)},
		{"sa-repeat-2of3", saSymbol(1, refqr.Q, 3, saHead(1, 2, 0x5a), byteSeg("again"), -1)},
		{"sa-index-beyond-total", saSymbol(1, refqr.L, 4, saHead(9, 3, 0), byteSeg("9 of 4"), -1)},
		{"sa-header-only", saSymbol(1, refqr.H, 6, saHead(15, 15, 0xff), nil, -1)},
		{"sa-eci-utf8", saSymbol(2, refqr.M, 7, saHead(0, 0, 1), []refqr.Segment{{Mode: refqr.Byte, Data: []byte("\xe2\x82\xac10"), ECI: 26}}, -1)},
		{"sa-kanji", saSymbol(1, refqr.L, 2, saHead(3, 4, 7), []refqr.Segment{{Mode: refqr.Kanji, Data: []byte{0x93, 0x5f, 0xe4, 0xaa}, ECI: -1}}, -1)},
		{"sa-cut-12", saSymbol(1, refqr.L, 0, saHead(1, 1, 0x33), nil, 12)},
		{"sa-cut-4", saSymbol(1, refqr.L, 0, saHead(1, 1, 0x33), nil, 4)},
		{"lib-v5", libQR("The quick brown fox jumps over the lazy dog 0123456789 THE QUICK BROWN FOX", map[gozxing.EncodeHintType]interface{}{gozxing.EncodeHintType_ERROR_CORRECTION: "Q"})},
	}
	menu = append(menu, multiSym{"lib-v2-mirrored", transpose(menu[1].m)}, multiSym{"sa-2of3-mirrored", transpose(menu[3].m)})
	return menu
}

type placed struct {
	sym   int
	scale int
}

// layOut draws the symbols on one canvas. layout: 0 row, 1 column, 2 diagonal, 3 2x2 grid (row-major).
func layOut(menu []multiSym, ps []placed, layout, gapModules int) *gozxing.BitMatrix {
	const outer = 4 // quiet zone around the whole group, in modules of the largest scale
	maxScale := 0
	for _, p := range ps {
		if p.scale > maxScale {
			maxScale = p.scale
		}
	}
	gap := gapModules * maxScale
	type box struct{ x, y, s int }
	boxes := make([]box, len(ps))
	x, y := outer*maxScale, outer*maxScale
	w, h := 0, 0
	rowH := 0
	for i, p := range ps {
		sz := len(menu[p.sym].m) * p.scale
		switch layout {
		case 0:
			boxes[i] = box{x, outer * maxScale, sz}
			x += sz + gap
		case 1:
			boxes[i] = box{outer * maxScale, y, sz}
			y += sz + gap
		case 2:
			boxes[i] = box{x, y, sz}
			x += sz + gap
			y += sz + gap
		default:
			if i == 2 {
				x = outer * maxScale
				y += rowH + gap
				rowH = 0
			}
			boxes[i] = box{x, y, sz}
			x += sz + gap
			if sz > rowH {
				rowH = sz
			}
		}
		if boxes[i].x+sz > w {
			w = boxes[i].x + sz
		}
		if boxes[i].y+sz > h {
			h = boxes[i].y + sz
		}
	}
	w += outer * maxScale
	h += outer * maxScale
	bm, _ := gozxing.NewBitMatrix(w, h)
	for i, p := range ps {
		m := menu[p.sym].m
		for my := range m {
			for mx := range m[my] {
				if m[my][mx] {
					bm.SetRegion(boxes[i].x+mx*p.scale, boxes[i].y+my*p.scale, p.scale, p.scale)
				}
			}
		}
	}
	return bm
}

type multiCase struct {
	Kind   string
	Syms   []placed
	Layout int
	Gap    int
}

func runMultiSymbol() {
	menu := multiMenu()
	var jobs []multiCase
	scales := [][2]int{{2, 2}, {3, 2}, {2, 3}}
	gaps := []int{4, 1, 0}
	if !chk.Quick() {
		scales = [][2]int{{2, 2}, {3, 2}, {2, 3}, {3, 3}, {4, 3}, {1, 1}, {5, 2}}
		gaps = []int{4, 2, 1, 0, 9}
	}
	// every ordered pair
	for a := range menu {
		for b := range menu {
			for _, sc := range scales {
				for lay := 0; lay < 3; lay++ {
					for _, g := range gaps {
						if chk.Quick() && (a+b+lay+g+sc[0])%3 != 0 && !(a >= 2 && a <= 4 && b >= 2 && b <= 4) {
							continue
						}
						jobs = append(jobs, multiCase{"multi", []placed{{a, sc[0]}, {b, sc[1]}}, lay, g})
					}
				}
			}
		}
	}
	// triples and quadruples over the structured-append parts and the library symbols
	small := []int{0, 1, 2, 3, 4, 5, 6, 14}
	if !chk.Quick() {
		small = []int{0, 1, 2, 3, 4, 5, 6, 7, 8, 9, 10, 14, 15}
	}
	for _, a := range small {
		for _, b := range small {
			for _, c := range small {
				for lay := 0; lay < 4; lay++ {
					if chk.Quick() && (a+2*b+3*c+lay)%4 != 0 {
						continue
					}
					jobs = append(jobs, multiCase{"multi", []placed{{a, 2}, {b, 2}, {c, 2 + (a+b)%2}}, lay, 4 - 3*(lay%2)})
				}
				if a < b && !chk.Quick() || (a == 2 && b == 3) {
					for _, d := range small {
						jobs = append(jobs, multiCase{"multi", []placed{{a, 2}, {b, 2}, {c, 2}, {d, 2}}, 3, 4})
					}
				}
			}
		}
	}
	chk.Range(fmt.Sprintf("canvases with SEVERAL QR symbols: every ordered pair of %d symbols (library v1/v2/v5, mirrored, and reference-built structured-append parts incl. malformed headers) x 3 layouts x module-size pairs x quiet zones {4,1,0} (quick: a third), triples and quadruples over %d of them on 4 layouts — multi-symbol reader and QR reader, hints {none, PURE_BARCODE, TRY_HARDER}, both binarisers", len(menu), len(small)), len(jobs),
		func(i int) string { return fmt.Sprintf("%+v", jobs[i]) },
		func(l *mc.Local, i int) { multiOne(l, menu, jobs[i]) })
	if len(jobs) > 0 {
		chk.Sample("multi", rcase{Kind: "multi", Extra: fmt.Sprintf("%+v", jobs[0])})
	}
}

func multiOne(l *mc.Local, menu []multiSym, c multiCase) {
	bm := layOut(menu, c.Syms, c.Layout, c.Gap)
	names := ""
	for _, p := range c.Syms {
		names += fmt.Sprintf("%s@%d ", menu[p.sym].name, p.scale)
	}
	extra := fmt.Sprintf("multi %slayout=%d gap=%d", names, c.Layout, c.Gap)
	readImageAll(l, bm, []int{0, 2}, extra, "QRMulti")
	readImageAll(l, bm, []int{1}, extra, "QRMulti")
	// how many results, and whether a merged structured-append result is among them (coverage
	// evidence only: shows that the grouping and merging code is reached)
	var rs []*gozxing.Result
	bmp, _ := gozxing.NewBinaryBitmap(gozxing.NewGlobalHistgramBinarizer(gozxing.NewLuminanceSourceFromImage(grayOf(bm))))
	if pm, _ := mc.Guard(func() { rs, _ = multiqr.NewQRCodeMultiReader().DecodeMultiple(bmp, nil) }); pm == "" {
		merged := false
		for _, r := range rs {
			if len(r.GetResultPoints()) == 0 {
				merged = true
			}
		}
		l.Distinct("outcomes", fmt.Sprint("QRMulti/results=", len(rs), "/merged=", merged))
		l.Count(fmt.Sprint("multi-symbol canvases with ", len(rs), " results"), 1)
		if merged {
			l.Count("multi-symbol canvases with a merged structured-append result", 1)
		}
	}
	readImageAll(l, bm, []int{0, 2}, extra, "QR")
}
