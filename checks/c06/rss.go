package main

// Valid GS1 DataBar Omnidirectional (RSS-14) symbols. The library has no writer for this
// symbology, so the other families reach its reader only with arbitrary rows; here the rows come
// from the reference encoder verif/ref/oned (written from ISO/IEC 24724): every combination of the
// first and last member of every (outside group, inside group) of both symbol halves - 10 x 8 x 10
// x 8 = 6400 symbols, values from 0 up to the largest the character ranges allow (above 10^13 no
// GTIN exists, but the symbol is well formed) - each shown THREE times to one reader object (the
// reader reports a pair only after it has seen it repeatedly), forwards and reversed, at row level
// and as an image of identical rows, without hints and with TRY_HARDER.

import (
	"fmt"

	"verif/mc"
	refoned "verif/ref/oned"

	"github.com/makiuchi-d/gozxing"
	"github.com/makiuchi-d/gozxing/oned/rss"
)

func runRSS14() {
	outs := []int{0, 160, 161, 960, 961, 2014, 2015, 2714, 2715, 2840}
	ins := []int{0, 335, 336, 1035, 1036, 1515, 1516, 1596}
	type job struct{ lo, li int }
	var jobs []job
	for _, lo := range outs {
		for _, li := range ins {
			jobs = append(jobs, job{lo, li})
		}
	}
	chk.Range("valid RSS-14 symbols from the reference encoder: first and last member of every outside / inside group in all four data characters (6400 symbols, values 0 .. 2.06e13) x {three DecodeRow calls on ONE reader, reversed row, image of 6 identical rows plain and TRY_HARDER}", len(jobs),
		func(i int) string { return fmt.Sprint(jobs[i]) },
		func(l *mc.Local, i int) {
			j := jobs[i]
			for _, ro := range outs {
				for _, ri := range ins {
					mods, err := refoned.RSS14FromCharacters(j.lo, j.li, ro, ri)
					if err != nil {
						panic("harness: reference RSS-14 encoder refuses in-range characters: " + err.Error())
					}
					b := make([]bool, 0, len(mods)+24)
					b = append(b, make([]bool, 12)...)
					b = append(b, mods...)
					b = append(b, make([]bool, 12)...)
					extra := fmt.Sprintf("rss14 characters %d,%d,%d,%d", j.lo, j.li, ro, ri)
					for _, rev := range []bool{false, true} {
						bb := b
						if rev {
							bb = make([]bool, len(b))
							for k := range b {
								bb[len(b)-1-k] = b[k]
							}
						}
						rd := rss.NewRSS14Reader()
						dec := rd.(rowDecoder)
						for call := 0; call < 3; call++ {
							var r *gozxing.Result
							var e error
							row := toBitArray(bb)
							cs := rcase{Kind: "row", Target: "RSS14", Bits: rowStr(bb), Extra: fmt.Sprint(extra, " call ", call+1, " on one reader, reversed=", rev)}
							l.Beat("")
							pm, site := mc.Guard(func() { r, e = dec.DecodeRow(call, row, nil) })
							outcome(l, "row/RSS14/valid-symbol", pm, site, r, e, cs, false)
							if pm != "" {
								break
							}
						}
					}
					if (ro+ri)%3 == 0 { // image level on a third of the symbols (identical code path above the row loop)
						m, _ := gozxing.NewBitMatrix(len(b), 6)
						for y := 0; y < 6; y++ {
							for x, v := range b {
								if v {
									m.Set(x, y)
								}
							}
						}
						readImageAll(l, m, []int{0, 2}, extra, "RSS14")
					}
				}
			}
		})
}

// runRSS14Distorted shows the reader printed-and-scanned variants of valid symbols: the symbol at
// 2, 3 and 5 pixels per module with every single element (bar or space) one pixel wider or
// narrower, and every adjacent pair of elements with the edge between them moved by one pixel.
// These are the inputs for which the reader has to ADJUST the rounded element widths of a data
// character to the odd/even sums its group demands (adjustOddEvenCounts) - with exact multiples
// that code never does anything. One reader object sees the row three times, as an image reader
// would over three rows.
func runRSS14Distorted() {
	outs := []int{0, 160, 161, 960, 961, 2014, 2015, 2714, 2715, 2840}
	ins := []int{0, 335, 336, 1035, 1036, 1515, 1516, 1596}
	type job struct{ lo, li, ro, ri, scale int }
	var jobs []job
	for a, lo := range outs {
		for b, li := range ins {
			// pair every left half with two right halves (all group combinations of a half are covered)
			for k := 0; k < 2; k++ {
				ro, ri := outs[(a+3*k+1)%len(outs)], ins[(b+5*k+2)%len(ins)]
				for _, sc := range []int{2, 3, 5} {
					if chk.Quick() && (a+b+k+sc)%3 != 0 {
						continue
					}
					jobs = append(jobs, job{lo, li, ro, ri, sc})
				}
			}
		}
	}
	chk.Range("valid RSS-14 symbols at 2, 3 and 5 pixels per module with every single element +-1 pixel and every edge between two elements moved by one pixel (quick: a third of 480 symbol/scale pairs), three DecodeRow calls on one reader", len(jobs),
		func(i int) string { return fmt.Sprint(jobs[i]) },
		func(l *mc.Local, i int) {
			j := jobs[i]
			mods, err := refoned.RSS14FromCharacters(j.lo, j.li, j.ro, j.ri)
			if err != nil {
				panic("harness: reference RSS-14 encoder refuses in-range characters: " + err.Error())
			}
			b := append(append(make([]bool, 10), mods...), make([]bool, 10)...)
			base := runs(scaleRow(b, j.scale))
			one := func(r []int, what string) {
				bb := fromRuns(r, false)
				rd := rss.NewRSS14Reader().(rowDecoder)
				for call := 0; call < 3; call++ {
					var res *gozxing.Result
					var e error
					row := toBitArray(bb)
					cs := rcase{Kind: "row", Target: "RSS14", Bits: rowStr(bb), Extra: fmt.Sprintf("rss14 characters %d,%d,%d,%d scale %d %s call %d", j.lo, j.li, j.ro, j.ri, j.scale, what, call+1)}
					l.Beat("")
					pm, site := mc.Guard(func() { res, e = rd.DecodeRow(call, row, nil) })
					outcome(l, "row/RSS14/distorted-symbol", pm, site, res, e, cs, false)
					if pm != "" {
						return
					}
					if e == nil {
						l.Count("distorted RSS-14 rows decoded", 1)
					}
				}
			}
			for k := 1; k+1 < len(base); k++ {
				for _, d := range []int{1, -1} {
					r := append([]int{}, base...)
					r[k] += d
					if r[k] > 0 {
						one(r, fmt.Sprintf("element %d %+d", k, d))
					}
					if k+2 < len(base) {
						r = append([]int{}, base...)
						r[k] += d
						r[k+1] -= d
						if r[k] > 0 && r[k+1] > 0 {
							one(r, fmt.Sprintf("edge after element %d moved %+d", k, d))
						}
					}
				}
			}
		})
}

// runRSS14LongHistory: ONE RSS-14 reader object kept for many symbols (no Reset): it remembers every
// pair it has seen, so its candidate lists grow with the history. 150 distinct valid symbols, three
// scan lines each (every pair becomes a confirmed one), then the same symbols reversed, then
// garbage rows; afterwards Reset and one more symbol. Every call returns a result or an error.
func runRSS14LongHistory() {
	outs := []int{0, 160, 161, 960, 961, 2014, 2015, 2714, 2715, 2840}
	ins := []int{0, 335, 336, 1035, 1036, 1515, 1516, 1596}
	chk.Range("ONE RSS-14 reader kept for 150 distinct valid symbols x 3 scan lines (no Reset), their reversals, garbage rows, then Reset and another symbol: every DecodeRow call returns a result or an error", 2,
		func(i int) string { return fmt.Sprint("history variant ", i) },
		func(l *mc.Local, variant int) {
			rd := rss.NewRSS14Reader()
			dec := rd.(rowDecoder)
			call := 0
			show := func(b []bool, what string) bool {
				var r *gozxing.Result
				var e error
				row := toBitArray(b)
				cs := rcase{Kind: "row", Target: "RSS14", Bits: rowStr(b), Extra: fmt.Sprintf("call %d on ONE reader kept for many symbols (history variant %d): %s", call+1, variant, what)}
				l.Beat("")
				pm, site := mc.Guard(func() { r, e = dec.DecodeRow(call%7, row, nil) })
				call++
				outcome(l, "row/RSS14/long-history", pm, site, r, e, cs, false)
				return pm == ""
			}
			n := 0
			for a := 0; a < len(outs) && n < 150; a++ {
				for b := 0; b < len(ins) && n < 150; b++ {
					for c := 0; c < 2 && n < 150; c++ {
						lo, li := outs[(a+variant)%len(outs)], ins[b]
						ro, ri := outs[(a*3+b+c*5)%len(outs)], ins[(b*5+a+c*3+variant)%len(ins)]
						mods, err := refoned.RSS14FromCharacters(lo, li, ro, ri)
						if err != nil {
							panic("harness: " + err.Error())
						}
						row := append(append(make([]bool, 12), mods...), make([]bool, 12)...)
						for k := 0; k < 3; k++ {
							if !show(row, fmt.Sprintf("symbol %d (characters %d,%d,%d,%d), scan line %d", n+1, lo, li, ro, ri, k+1)) {
								return
							}
						}
						if n%10 == 9 {
							rev := make([]bool, len(row))
							for k := range row {
								rev[len(row)-1-k] = row[k]
							}
							if !show(rev, "the same symbol reversed") || !show(make([]bool, 90), "a blank row") {
								return
							}
						}
						n++
					}
				}
			}
			rd.Reset()
			mods, _ := refoned.RSS14FromCharacters(5, 7, 11, 13)
			show(append(append(make([]bool, 12), mods...), make([]bool, 12)...), "after Reset")
			l.Count("RSS-14 symbols shown to one reader", int64(n))
		})
}
