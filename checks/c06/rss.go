package main

// Valid GS1 DataBar Omnidirectional (RSS-14) symbols. The library has no writer for this
// symbology, so the other families reach its reader only with arbitrary rows; here the rows come
// from the reference encoder verif/ref/oned (written from ISO/IEC 24724): every combination of the
// first and last member of every (outside group, inside group) of both symbol halves - 10 x 8 x 10
// x 8 = 6400 symbols, values from 0 up to the largest the character ranges allow (above 10^13 no
// GTIN exists, but the symbol is well formed) - each shown THREE times to one reader object (the
// reader reports a pair only after it has seen it repeatedly), forwards and reversed, at row level
// and as an image of identical rows, without hints and with TRY_HARDER.

import (
	"fmt"

	"verif/mc"
	refoned "verif/ref/oned"

	"github.com/makiuchi-d/gozxing"
	"github.com/makiuchi-d/gozxing/oned/rss"
)

func runRSS14() {
	outs := []int{0, 160, 161, 960, 961, 2014, 2015, 2714, 2715, 2840}
	ins := []int{0, 335, 336, 1035, 1036, 1515, 1516, 1596}
	type job struct{ lo, li int }
	var jobs []job
	for _, lo := range outs {
		for _, li := range ins {
			jobs = append(jobs, job{lo, li})
		}
	}
	chk.Range("valid RSS-14 symbols from the reference encoder: first and last member of every outside / inside group in all four data characters (6400 symbols, values 0 .. 2.06e13) x {three DecodeRow calls on ONE reader, reversed row, image of 6 identical rows plain and TRY_HARDER}", len(jobs),
		func(i int) string { return fmt.Sprint(jobs[i]) },
		func(l *mc.Local, i int) {
			j := jobs[i]
			for _, ro := range outs {
				for _, ri := range ins {
					mods, err := refoned.RSS14FromCharacters(j.lo, j.li, ro, ri)
					if err != nil {
						panic("harness: reference RSS-14 encoder refuses in-range characters: " + err.Error())
					}
					b := make([]bool, 0, len(mods)+24)
					b = append(b, make([]bool, 12)...)
					b = append(b, mods...)
					b = append(b, make([]bool, 12)...)
					extra := fmt.Sprintf("rss14 characters %d,%d,%d,%d", j.lo, j.li, ro, ri)
					for _, rev := range []bool{false, true} {
						bb := b
						if rev {
							bb = make([]bool, len(b))
							for k := range b {
								bb[len(b)-1-k] = b[k]
							}
						}
						rd := rss.NewRSS14Reader()
						dec := rd.(rowDecoder)
						for call := 0; call < 3; call++ {
							var r *gozxing.Result
							var e error
							row := toBitArray(bb)
							cs := rcase{Kind: "row", Target: "RSS14", Bits: rowStr(bb), Extra: fmt.Sprint(extra, " call ", call+1, " on one reader, reversed=", rev)}
							l.Beat("")
							pm, site := mc.Guard(func() { r, e = dec.DecodeRow(call, row, nil) })
							outcome(l, "row/RSS14/valid-symbol", pm, site, r, e, cs, false)
							if pm != "" {
								break
							}
						}
					}
					if (ro+ri)%3 == 0 { // image level on a third of the symbols (identical code path above the row loop)
						m, _ := gozxing.NewBitMatrix(len(b), 6)
						for y := 0; y < 6; y++ {
							for x, v := range b {
								if v {
									m.Set(x, y)
								}
							}
						}
						readImageAll(l, m, []int{0, 2}, extra, "RSS14")
					}
				}
			}
		})
}
