package main

import dmenc "github.com/makiuchi-d/gozxing/datamatrix/encoder"

var dmRect = dmenc.SymbolShapeHint_FORCE_RECTANGLE
