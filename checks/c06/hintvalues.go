package main

// Hint VALUES. The flag hints are enumerated as subsets elsewhere; here the hints that carry a
// value get every kind of well-typed value: the decode-side CHARACTER_SET hint with registered
// names, names the IANA index knows but x/text does not implement, unknown names, the empty
// string, and encoding.Encoding values; ALLOWED_LENGTHS / ALLOWED_EAN_EXTENSIONS with empty,
// negative and huge entries; POSSIBLE_FORMATS with every format. Readers must return a result or
// a typed error.

import (
	"errors"
	"fmt"

	"golang.org/x/text/transform"

	"golang.org/x/text/encoding"
	"golang.org/x/text/encoding/charmap"
	"golang.org/x/text/encoding/japanese"
	"golang.org/x/text/encoding/unicode"

	"verif/mc"

	"github.com/makiuchi-d/gozxing"
	"github.com/makiuchi-d/gozxing/datamatrix"
	"github.com/makiuchi-d/gozxing/oned"
	"github.com/makiuchi-d/gozxing/qrcode"
	qrdec "github.com/makiuchi-d/gozxing/qrcode/decoder"
)

var charsetNames = []string{
	"UTF-8", "UTF8", "Shift_JIS", "SJIS", "ISO-8859-1", "ISO8859_1", "ISO-8859-15", "Cp437", "Cp1252", "windows-1252", "US-ASCII", "ASCII", "GB18030", "GB2312", "EUC-KR", "EUC_KR", "Big5", "UTF-16BE", "UnicodeBig", "UnicodeBigUnmarked",
	// known to the IANA index
	"UTF-7", "UTF-16", "UTF-16LE", "UTF-32", "UTF-32BE", "UTF-32LE", "ISO-2022-CN", "ISO-2022-CN-EXT", "ISO-2022-JP", "ISO-2022-KR", "EUC-JP", "TIS-620", "ISO-8859-11", "ISO-10646-UCS-2", "ISO-10646-UCS-4", "SCSU", "BOCU-1", "CESU-8", "HZ-GB-2312",
	"IBM037", "IBM273", "IBM850", "IBM866", "EBCDIC-US", "KOI8-R", "KOI8-U", "macintosh", "windows-874", "windows-1258", "KS_C_5601-1987", "Big5-HKSCS", "GBK", "ISO_8859-1:1987", "csISOLatin1", "latin1", "l1", "cp819", "ANSI_X3.4-1968", "NATS-SEFI", "JIS_C6226-1983", "VISCII", "Adobe-Standard-Encoding",
	// not names at all
	"", " ", "nope", "utf-8 ", "\x00", "UTF-8\x00", "Shift_JIS;", "ＵＴＦ－８",
}

func charsetValues() []interface{} {
	var v []interface{}
	for _, n := range charsetNames {
		v = append(v, n)
	}
	v = append(v, encoding.Encoding(unicode.UTF8), encoding.Encoding(japanese.ShiftJIS), encoding.Encoding(charmap.ISO8859_1), encoding.Encoding(unicode.UTF16(unicode.BigEndian, unicode.IgnoreBOM)), encoding.Encoding(encoding.Nop), encoding.Encoding(encoding.Replacement),
		// encodings whose DECODER can fail or consumes a signature
		encoding.Encoding(unicode.UTF16(unicode.BigEndian, unicode.ExpectBOM)), encoding.Encoding(unicode.UTF16(unicode.LittleEndian, unicode.ExpectBOM)),
		encoding.Encoding(unicode.UTF16(unicode.BigEndian, unicode.UseBOM)), encoding.Encoding(unicode.UTF8BOM), encoding.Encoding(failingEncoding{}),
		nil, 7, true, []string{"UTF-8"})
	return v
}

// failingEncoding: a well-typed encoding.Encoding whose decoder reports an error on every input.
type failingEncoding struct{}

type failingTransformer struct{ transform.NopResetter }

func (failingTransformer) Transform(dst, src []byte, atEOF bool) (int, int, error) {
	return 0, 0, errors.New("verif: this decoder always fails")
}
func (failingEncoding) NewDecoder() *encoding.Decoder {
	return &encoding.Decoder{Transformer: failingTransformer{}}
}
func (failingEncoding) NewEncoder() *encoding.Encoder {
	return &encoding.Encoder{Transformer: failingTransformer{}}
}

func runHintValues() {
	qrw := qrcode.NewQRCodeWriter()
	texts := []string{"hello world", "café äöü", "日本語"}
	var imgs []*gozxing.BitMatrix
	for _, t := range texts {
		m, err := qrw.Encode(t, gozxing.BarcodeFormat_QR_CODE, 0, 0, nil)
		if err == nil {
			imgs = append(imgs, m)
		}
	}
	// ECI-designated symbols too: the hint must not matter there, whatever its value
	for _, cs := range []struct{ charset, text string }{{"ISO-8859-7", "αβγ δεζ"}, {"Shift_JIS", "abc金魚"}, {"UTF-8", "é漢 x"}, {"windows-1251", "Привет"}} {
		m, err := qrw.Encode(cs.text, gozxing.BarcodeFormat_QR_CODE, 0, 0, map[gozxing.EncodeHintType]interface{}{gozxing.EncodeHintType_CHARACTER_SET: cs.charset})
		if err == nil {
			imgs = append(imgs, m)
		}
	}
	vals := charsetValues()
	chk.Range(fmt.Sprintf("hint values: decode-side CHARACTER_SET over %d values (registered names and aliases, %d names of the IANA index that x/text may not implement, malformed names, encoding.Encoding values) x 3 QR symbols with an undesignated byte segment and 4 ECI-designated ones (image level, pure and located) and the byte-segment parser on 4 byte strings", len(vals), 44), len(vals),
		func(i int) string { return fmt.Sprintf("CHARACTER_SET=%v", vals[i]) },
		func(l *mc.Local, i int) {
			v := vals[i]
			for k, m := range imgs {
				for _, pure := range []bool{true, false} {
					h := map[gozxing.DecodeHintType]interface{}{gozxing.DecodeHintType_CHARACTER_SET: v}
					if pure {
						h[gozxing.DecodeHintType_PURE_BARCODE] = true
					}
					bmp, _ := gozxing.NewBinaryBitmapFromImage(grayOf(m))
					var res *gozxing.Result
					var err error
					l.Beat("")
					pm, site := mc.Guard(func() { res, err = qrcode.NewQRCodeReader().Decode(bmp, h) })
					cs := rcase{Kind: "hint-value", Target: "QR", W: m.GetWidth(), H: m.GetHeight(), Pixels: pix(m), Hints: fmt.Sprintf("CHARACTER_SET=%T(%v) pure=%v", v, v, pure), Extra: fmt.Sprint("text ", k)}
					outcome(l, "hint-value/CHARACTER_SET/QR", pm, site, res, err, cs, true)
				}
			}
			for _, b := range [][]byte{[]byte("abc"), {0xE9, 0xE4}, {0x93, 0xFA, 0x96, 0x7B}, {0xFE, 0xFF, 0x00, 0x41}} {
				qrParse(l, byteSegment(b), 1, qrdec.ErrorCorrectionLevel_L, map[gozxing.DecodeHintType]interface{}{gozxing.DecodeHintType_CHARACTER_SET: v}, fmt.Sprintf("CHARACTER_SET=%T(%v)", v, v))
			}
		})

	// list-valued hints
	ean, _ := oned.NewEAN13Writer().Encode("590123412345", gozxing.BarcodeFormat_EAN_13, 0, 4, nil)
	itf, _ := oned.NewITFWriter().Encode("123456", gozxing.BarcodeFormat_ITF, 0, 4, nil)
	dm, _ := datamatrix.NewDataMatrixWriter().Encode("HELLO", gozxing.BarcodeFormat_DATA_MATRIX, 0, 0, nil)
	lists := [][]int{nil, {}, {0}, {-1}, {2}, {5}, {2, 5}, {6}, {6, 4}, {1 << 30}, {-1 << 31, 7}, {6, 6, 6}}
	var formats []gozxing.BarcodeFormat
	for f := gozxing.BarcodeFormat(-1); f <= 18; f++ {
		formats = append(formats, f)
	}
	chk.Range("hint values: ALLOWED_LENGTHS and ALLOWED_EAN_EXTENSIONS over 12 int lists (nil, empty, zero, negative, huge, repeated) and POSSIBLE_FORMATS over every single format value -1..18 and the full list, on EAN-13 / ITF / Data Matrix / QR images through their readers and the multi-format UPC/EAN reader", len(lists)+len(formats)+1,
		func(i int) string { return fmt.Sprint("list-hint case ", i) },
		func(l *mc.Local, i int) {
			h := map[gozxing.DecodeHintType]interface{}{}
			desc := ""
			switch {
			case i < len(lists):
				h[gozxing.DecodeHintType_ALLOWED_LENGTHS] = lists[i]
				h[gozxing.DecodeHintType_ALLOWED_EAN_EXTENSIONS] = lists[i]
				desc = fmt.Sprint("ALLOWED_LENGTHS=ALLOWED_EAN_EXTENSIONS=", lists[i])
			case i < len(lists)+len(formats):
				h[gozxing.DecodeHintType_POSSIBLE_FORMATS] = []gozxing.BarcodeFormat{formats[i-len(lists)]}
				desc = fmt.Sprint("POSSIBLE_FORMATS=[", int(formats[i-len(lists)]), "]")
			default:
				h[gozxing.DecodeHintType_POSSIBLE_FORMATS] = formats
				desc = "POSSIBLE_FORMATS=all"
			}
			type rd struct {
				name string
				mk   func() gozxing.Reader
				m    *gozxing.BitMatrix
			}
			for _, r := range []rd{
				{"EAN13", oned.NewEAN13Reader, ean}, {"ITF", oned.NewITFReader, itf}, {"MultiUPCEAN", func() gozxing.Reader { return oned.NewMultiFormatUPCEANReader(h) }, ean},
				{"DataMatrix", func() gozxing.Reader { return datamatrix.NewDataMatrixReader() }, dm}, {"QR", qrcode.NewQRCodeReader, imgs[0]},
			} {
				bmp, _ := gozxing.NewBinaryBitmapFromImage(grayOf(r.m))
				var res *gozxing.Result
				var err error
				l.Beat("")
				pm, site := mc.Guard(func() { res, err = r.mk().Decode(bmp, h) })
				cs := rcase{Kind: "hint-value", Target: r.name, W: r.m.GetWidth(), H: r.m.GetHeight(), Pixels: pix(r.m), Hints: desc}
				outcome(l, "hint-value/list/"+r.name, pm, site, res, err, cs, true)
			}
		})
}

// byteSegment is a QR data stream holding one byte-mode segment without ECI (version 1..9 widths).
func byteSegment(b []byte) []byte {
	var w bitw
	w.put(4, 4)
	w.put(len(b), 8)
	for _, c := range b {
		w.put(int(c), 8)
	}
	w.put(0, 4)
	return w.b
}
