// C06 — decoding is total: every reader, decoder and bit-stream parser returns a result or
// an error on any input; it never panics, never returns neither, never hangs; image readers'
// errors are of the documented not-found / checksum / format kinds.
// Bounded-exhaustive input enumeration: all byte strings / bit strings / pixel rows / tiny images
// up to a length bound, all sizes up to a bound with structured fills, and deviation-bounded
// mutation (0, 1, 2 deviations) of valid symbols.
package main

import (
	"errors"
	"fmt"
	"image"
	"image/color"
	"reflect"

	"verif/mc"

	"github.com/makiuchi-d/gozxing"
	"github.com/makiuchi-d/gozxing/aztec"
	azdec "github.com/makiuchi-d/gozxing/aztec/decoder"
	azdet "github.com/makiuchi-d/gozxing/aztec/detector"
	"github.com/makiuchi-d/gozxing/common"
	"github.com/makiuchi-d/gozxing/datamatrix"
	dmdec "github.com/makiuchi-d/gozxing/datamatrix/decoder"
	multiqr "github.com/makiuchi-d/gozxing/multi/qrcode"
	"github.com/makiuchi-d/gozxing/oned"
	"github.com/makiuchi-d/gozxing/oned/rss"
	"github.com/makiuchi-d/gozxing/qrcode"
	qrdec "github.com/makiuchi-d/gozxing/qrcode/decoder"
)

var chk *mc.Check

type rcase struct {
	Kind   string // which entry point
	Target string
	Bytes  []byte `json:",omitempty"`
	Bits   string `json:",omitempty"`
	W, H   int    `json:",omitempty"`
	Pixels string `json:",omitempty"` // rows of X and . separated by /
	Hints  string `json:",omitempty"`
	Extra  string `json:",omitempty"`
}

// outcome checks "exactly one of result / error"; res must be a pointer (possibly nil).
func outcome(l *mc.Local, key string, pm, site string, res interface{}, err error, cs rcase, imageLevel bool) {
	l.Count("evaluations", 1)
	if pm != "" {
		chk.Violation("C06/panic/"+site+"/"+key, fmt.Sprintf("panic %q on %s", pm, brief(cs)), cs)
		l.Distinct("outcomes", "panic/"+site)
		return
	}
	isNil := res == nil || (reflect.ValueOf(res).Kind() == reflect.Ptr && reflect.ValueOf(res).IsNil())
	if isNil == (err == nil) {
		chk.Violation("C06/neither-or-both/"+key, fmt.Sprintf("result nil=%v, err=%v on %s", isNil, err, brief(cs)), cs)
		return
	}
	if err != nil {
		var nf gozxing.NotFoundException
		var ce gozxing.ChecksumException
		var fe gozxing.FormatException
		kind := "other"
		switch {
		case errors.As(err, &nf):
			kind = "notfound"
		case errors.As(err, &ce):
			kind = "checksum"
		case errors.As(err, &fe):
			kind = "format"
		}
		if imageLevel && kind == "other" {
			chk.Violation("C06/error-kind/"+key, fmt.Sprintf("error %T %q is not a NotFound/Checksum/Format exception on %s", err, err.Error(), brief(cs)), cs)
		}
		l.Distinct("outcomes", cs.Target+"/err/"+kind)
	} else {
		l.Distinct("outcomes", cs.Target+"/ok")
		l.Distinct("nontrivial", cs.Kind+"/"+cs.Target+"/ok/"+cs.Bits+cs.Pixels+string(cs.Bytes)+cs.Extra)
	}
}

func brief(c rcase) string {
	s := fmt.Sprintf("%+v", c)
	if len(s) > 600 {
		s = s[:600] + "…"
	}
	return s
}

// ------------------------------------------------------------------ bit-stream parsers

func qrParse(l *mc.Local, b []byte, v int, lvl qrdec.ErrorCorrectionLevel, hints map[gozxing.DecodeHintType]interface{}, extra string) {
	ver, _ := qrdec.Version_GetVersionForNumber(v)
	var r *common.DecoderResult
	var err error
	cs := rcase{Kind: "qr-bitstream", Target: fmt.Sprintf("v%d", v), Bytes: b, Extra: extra}
	l.Beat("")
	pm, site := mc.Guard(func() { r, err = qrdec.DecodedBitStreamParser_Decode(b, ver, lvl, hints) })
	outcome(l, "qr-bitstream", pm, site, r, err, cs, false)
}

type bitw struct {
	b []byte
	n int
}

func (w *bitw) put(v, n int) {
	for i := n - 1; i >= 0; i-- {
		if w.n%8 == 0 {
			w.b = append(w.b, 0)
		}
		if v&(1<<uint(i)) != 0 {
			w.b[w.n/8] |= 0x80 >> uint(w.n%8)
		}
		w.n++
	}
}

func allBytes(maxLen int, fn func(b []byte)) {
	buf := make([]byte, 0, maxLen)
	var rec func()
	rec = func() {
		fn(buf)
		if len(buf) == maxLen {
			return
		}
		for v := 0; v < 256; v++ {
			buf = append(buf, byte(v))
			rec()
			buf = buf[:len(buf)-1]
		}
	}
	rec()
}

func runQRBitstream() {
	maxLen := chk.Pick(2, 3)
	// shard on the first byte
	chk.Range(fmt.Sprintf("QR bit-stream parser: every byte string of length 0..%d x versions {1,10,27,40}", maxLen), 256,
		func(i int) string { return fmt.Sprintf("first byte %02x", i) },
		func(l *mc.Local, i int) {
			for _, v := range []int{1, 10, 27, 40} {
				if i == 0 {
					qrParse(l, []byte{}, v, qrdec.ErrorCorrectionLevel_L, nil, "")
				}
				buf := []byte{byte(i)}
				var rec func()
				rec = func() {
					qrParse(l, append([]byte{}, buf...), v, qrdec.ErrorCorrectionLevel_H, nil, "")
					if len(buf) == maxLen {
						return
					}
					for x := 0; x < 256; x++ {
						buf = append(buf, byte(x))
						rec()
						buf = buf[:len(buf)-1]
					}
				}
				rec()
			}
		})
	// every mode nibble followed by every truncation of a valid segment of every kind
	type seg struct {
		name string
		w    func(w *bitw, v int)
	}
	cc := func(v, a, b, c int) int {
		if v <= 9 {
			return a
		}
		if v <= 26 {
			return b
		}
		return c
	}
	segs := []seg{
		{"numeric", func(w *bitw, v int) {
			w.put(1, 4)
			w.put(8, cc(v, 10, 12, 14))
			w.put(12, 10)
			w.put(345, 10)
			w.put(67, 7)
		}},
		{"numeric-bad", func(w *bitw, v int) { w.put(1, 4); w.put(3, cc(v, 10, 12, 14)); w.put(1001, 10) }},
		{"alnum", func(w *bitw, v int) {
			w.put(2, 4)
			w.put(5, cc(v, 9, 11, 13))
			w.put(45*10+11, 11)
			w.put(45*44+44, 11)
			w.put(38, 6)
		}},
		{"alnum-bad", func(w *bitw, v int) { w.put(2, 4); w.put(2, cc(v, 9, 11, 13)); w.put(2047, 11) }},
		{"byte", func(w *bitw, v int) {
			w.put(4, 4)
			w.put(3, cc(v, 8, 16, 16))
			w.put(0x41, 8)
			w.put(0xe9, 8)
			w.put(0x00, 8)
		}},
		{"kanji", func(w *bitw, v int) { w.put(8, 4); w.put(2, cc(v, 8, 10, 12)); w.put(0x0D9F, 13); w.put(0x1AAA, 13) }},
		{"hanzi", func(w *bitw, v int) {
			w.put(13, 4)
			w.put(1, 4)
			w.put(2, cc(v, 8, 10, 12))
			w.put(0x0D9F, 13)
			w.put(0x1AAA, 13)
		}},
		{"hanzi-subset2", func(w *bitw, v int) { w.put(13, 4); w.put(2, 4); w.put(1, cc(v, 8, 10, 12)); w.put(0x0D9F, 13) }},
		{"eci-byte", func(w *bitw, v int) {
			w.put(7, 4)
			w.put(26, 8)
			w.put(4, 4)
			w.put(2, cc(v, 8, 16, 16))
			w.put(0xC3, 8)
			w.put(0xA9, 8)
		}},
		{"eci-unregistered", func(w *bitw, v int) {
			w.put(7, 4)
			w.put(14, 8)
			w.put(4, 4)
			w.put(1, cc(v, 8, 16, 16))
			w.put(0x41, 8)
		}},
		{"fnc1-first-alnum", func(w *bitw, v int) {
			w.put(3, 4)
			w.put(2, 4)
			w.put(3, cc(v, 9, 11, 13))
			w.put(45*37+37, 11)
			w.put(37, 6)
		}},
		{"fnc1-second", func(w *bitw, v int) {
			w.put(9, 4)
			w.put(165, 8)
			w.put(1, 4)
			w.put(2, cc(v, 10, 12, 14))
			w.put(42, 7)
		}},
		{"structured-append", func(w *bitw, v int) {
			w.put(5, 4)
			w.put(0x12, 8)
			w.put(0xAB, 8)
			w.put(4, 4)
			w.put(1, cc(v, 8, 16, 16))
			w.put(0x42, 8)
		}},
		{"terminator-then-data", func(w *bitw, v int) { w.put(0, 4); w.put(4, 4); w.put(1, 8); w.put(0x41, 8) }},
		{"byte-count-overrun", func(w *bitw, v int) { w.put(4, 4); w.put(200, cc(v, 8, 16, 16)); w.put(0x41, 8) }},
		{"kanji-count-overrun", func(w *bitw, v int) { w.put(8, 4); w.put(100, cc(v, 8, 10, 12)); w.put(0x0D9F, 13) }},
		{"byte-empty", func(w *bitw, v int) { w.put(4, 4); w.put(0, cc(v, 8, 16, 16)) }},
		{"byte-sjis-like", func(w *bitw, v int) {
			w.put(4, 4)
			w.put(4, cc(v, 8, 16, 16))
			w.put(0x93, 8)
			w.put(0xfa, 8)
			w.put(0x96, 8)
			w.put(0x7b, 8)
		}},
	}
	type job struct {
		s, v, nib int
	}
	var jobs []job
	for si := range segs {
		for _, v := range []int{1, 10, 27} {
			for nib := -1; nib < 16; nib++ {
				jobs = append(jobs, job{si, v, nib})
			}
		}
	}
	hintSets := []map[gozxing.DecodeHintType]interface{}{nil,
		{gozxing.DecodeHintType_CHARACTER_SET: "UTF-8"}, {gozxing.DecodeHintType_CHARACTER_SET: "Shift_JIS"}, {gozxing.DecodeHintType_CHARACTER_SET: "no-such-charset"}, {gozxing.DecodeHintType_CHARACTER_SET: 7}}
	chk.Range("QR bit-stream parser: every mode nibble (and none) before each of 18 segment kinds x every byte truncation x trailing byte {none,00,EC,FF} x 5 charset hints x versions {1,10,27}", len(jobs),
		func(i int) string { return fmt.Sprint(segs[jobs[i].s].name, jobs[i]) },
		func(l *mc.Local, i int) {
			j := jobs[i]
			w := &bitw{}
			if j.nib >= 0 {
				w.put(j.nib, 4)
			}
			segs[j.s].w(w, j.v)
			full := w.b
			for cut := 0; cut <= len(full); cut++ {
				for _, tail := range [][]byte{nil, {0}, {0xEC}, {0xFF}, {0x40, 0x14}} {
					b := append(append([]byte{}, full[:cut]...), tail...)
					for hi, h := range hintSets {
						qrParse(l, b, j.v, qrdec.ErrorCorrectionLevel_M, h, fmt.Sprint(segs[j.s].name, " nib=", j.nib, " cut=", cut, " hint#", hi))
					}
				}
			}
		})
	// every ECI designator in its 1-, 2- and 3-byte form followed by a byte segment
	total := 128 + 16384
	if !chk.Quick() {
		total += 1 << 21
	} else {
		total += 1 << 14 // quick: the 3-byte form on 0..16383 plus the values around 999999 below
	}
	const chunk = 4096
	nchunks := (total + chunk - 1) / chunk
	chk.Range("QR bit-stream parser: every ECI designator value in its 1-byte (0..127), 2-byte (0..16383) and 3-byte form (quick: 0..16383 and 990000..1000100; thorough: all 2^21) followed by a byte segment", nchunks+1,
		func(i int) string { return fmt.Sprint("eci chunk ", i) },
		func(l *mc.Local, i int) {
			emit := func(form, val int) {
				w := &bitw{}
				w.put(7, 4)
				switch form {
				case 1:
					w.put(val, 8)
				case 2:
					w.put(0x8000|val, 16)
				case 3:
					w.put(0xC00000|val, 24)
				}
				w.put(4, 4)
				w.put(2, 8)
				w.put(0xC3, 8)
				w.put(0xA9, 8)
				w.put(0, 4)
				qrParse(l, w.b, 1, qrdec.ErrorCorrectionLevel_L, nil, fmt.Sprintf("eci form %d value %d", form, val))
			}
			if i == nchunks {
				for v := 990000; v <= 1000100; v++ {
					emit(3, v)
				}
				return
			}
			for k := i * chunk; k < (i+1)*chunk && k < total; k++ {
				switch {
				case k < 128:
					emit(1, k)
				case k < 128+16384:
					emit(2, k-128)
				default:
					emit(3, k-128-16384)
				}
			}
		})
	chk.Sample("qr-bitstream", rcase{Kind: "qr-bitstream", Target: "v1", Bytes: []byte{0x70, 0xE4, 0x01, 0x41}})
}

func dmParse(l *mc.Local, b []byte, extra string) {
	var r *common.DecoderResult
	var err error
	cs := rcase{Kind: "dm-bitstream", Target: "dm", Bytes: b, Extra: extra}
	l.Beat("")
	pm, site := mc.Guard(func() { r, err = dmdec.DecodedBitStreamParser_decode(b) })
	outcome(l, "dm-bitstream", pm, site, r, err, cs, false)
}

func runDMBitstream() {
	maxLen := chk.Pick(2, 3)
	chk.Range(fmt.Sprintf("Data Matrix codeword parser: every byte string of length 0..%d; every latch/control codeword followed by every byte string of length <=2 (quick: <=1 plus structured tails)", maxLen), 256,
		func(i int) string { return fmt.Sprintf("first byte %02x", i) },
		func(l *mc.Local, i int) {
			if i == 0 {
				dmParse(l, []byte{}, "")
			}
			buf := []byte{byte(i)}
			var rec func()
			rec = func() {
				dmParse(l, append([]byte{}, buf...), "")
				if len(buf) == maxLen {
					return
				}
				for x := 0; x < 256; x++ {
					buf = append(buf, byte(x))
					rec()
					buf = buf[:len(buf)-1]
				}
			}
			rec()
			// latch codeword, one free byte i, then every (a,b) tail from a structured menu or all
			for _, latch := range []byte{230, 231, 232, 233, 234, 235, 236, 237, 238, 239, 240, 241} {
				if chk.Quick() {
					for _, t := range [][]byte{{}, {0}, {254}, {129}, {255, 255}, {0, 0, 0}, {254, 66}, {13, 13, 13, 13}} {
						dmParse(l, append([]byte{latch, byte(i)}, t...), "latch")
						dmParse(l, append([]byte{66, latch, byte(i)}, t...), "latch")
					}
				} else {
					for a := 0; a < 256; a++ {
						dmParse(l, []byte{latch, byte(i), byte(a)}, "latch")
						for _, b := range []byte{0, 1, 13, 30, 31, 63, 64, 124, 128, 129, 230, 231, 240, 254, 255} {
							dmParse(l, []byte{latch, byte(i), byte(a), b}, "latch")
							dmParse(l, []byte{latch, byte(i), byte(a), b, 254, 66}, "latch")
						}
					}
				}
			}
		})
	chk.Sample("dm-bitstream", rcase{Kind: "dm-bitstream", Target: "dm", Bytes: []byte{231, 44, 108, 59}})
}

func runAztecHighLevel() {
	maxLen := chk.Pick(16, 20)
	n := 1 << 8
	chk.Range(fmt.Sprintf("Aztec HighLevelDecode: every bit string of length 0..%d", maxLen), n,
		func(i int) string { return fmt.Sprint("aztec bits prefix ", i) },
		func(l *mc.Local, i int) {
			// strings of length >= 8 are sharded by their first 8 bits; shorter ones go to shard 0
			do := func(bits []bool) {
				var s string
				var err error
				cs := rcase{Kind: "aztec-highlevel", Target: "aztec", Bits: bitstr(bits)}
				pm, site := mc.Guard(func() { s, err = azdec.NewDecoder().HighLevelDecode(bits) })
				var res interface{} = &s
				if err != nil {
					res = nil
				}
				key := "aztec-highlevel"
				if len(bits) < 2 {
					key += "/len<2"
				}
				outcome(l, key, pm, site, res, err, cs, false)
			}
			if i == 0 {
				for ln := 0; ln < 8; ln++ {
					for v := 0; v < 1<<uint(ln); v++ {
						do(mkbits(v, ln))
					}
				}
			}
			for ln := 8; ln <= maxLen; ln++ {
				rest := ln - 8
				for v := 0; v < 1<<uint(rest); v++ {
					do(append(mkbits(i, 8), mkbits(v, rest)...))
				}
			}
		})
	// structured streams: FLG(n) with every digit sequence class, binary shifts with every length field
	type job struct{ a, b int }
	var jobs []job
	for a := 0; a < 8; a++ {
		for b := 0; b < 1<<12; b++ {
			jobs = append(jobs, job{a, b})
		}
	}
	chk.Range("Aztec HighLevelDecode: P/S FLG(n) for n=0..7 followed by every 12-bit pattern (three ECI digit codes) and a tail; B/S with every 5-bit length and every 11-bit extended length", len(jobs)/64,
		func(i int) string { return fmt.Sprint("flg job ", i) },
		func(l *mc.Local, i int) {
			for k := i * 64; k < (i+1)*64; k++ {
				j := jobs[k]
				var bits []bool
				bits = append(bits, mkbits(2, 5)...) // 'A'
				bits = append(bits, mkbits(0, 5)...) // P/S
				bits = append(bits, mkbits(0, 5)...) // FLG
				bits = append(bits, mkbits(j.a, 3)...)
				bits = append(bits, mkbits(j.b, 12)...)
				for _, tail := range [][]bool{nil, mkbits(3, 5), append(mkbits(31, 5), append(mkbits(1, 5), mkbits(0xE9, 8)...)...)} {
					full := append(append([]bool{}, bits...), tail...)
					var s string
					var err error
					cs := rcase{Kind: "aztec-highlevel", Target: "aztec", Bits: bitstr(full), Extra: "flg"}
					pm, site := mc.Guard(func() { s, err = azdec.NewDecoder().HighLevelDecode(full) })
					var res interface{} = &s
					if err != nil {
						res = nil
					}
					outcome(l, "aztec-highlevel/flg", pm, site, res, err, cs, false)
				}
				if j.a == 0 {
					// binary shift: 5-bit length = low 5 bits of b; if 0, 11-bit length from b
					var bs []bool
					bs = append(bs, mkbits(31, 5)...)
					bs = append(bs, mkbits(j.b&31, 5)...)
					if j.b&31 == 0 {
						bs = append(bs, mkbits(j.b>>1, 11)...)
					}
					for n := 0; n < 40; n++ {
						bs = append(bs, mkbits(0x41+n, 8)...)
					}
					var s string
					var err error
					cs := rcase{Kind: "aztec-highlevel", Target: "aztec", Bits: bitstr(bs), Extra: "bs"}
					pm, site := mc.Guard(func() { s, err = azdec.NewDecoder().HighLevelDecode(bs) })
					var res interface{} = &s
					if err != nil {
						res = nil
					}
					outcome(l, "aztec-highlevel/bs", pm, site, res, err, cs, false)
				}
			}
		})
}

func mkbits(v, n int) []bool {
	b := make([]bool, n)
	for i := 0; i < n; i++ {
		b[i] = v&(1<<uint(n-1-i)) != 0
	}
	return b
}

func bitstr(b []bool) string {
	s := make([]byte, len(b))
	for i, v := range b {
		s[i] = '0'
		if v {
			s[i] = '1'
		}
	}
	return string(s)
}

// ------------------------------------------------------------------ module matrices

func fill(w, h, kind int, sym *gozxing.BitMatrix) *gozxing.BitMatrix {
	m, _ := gozxing.NewBitMatrix(w, h)
	for y := 0; y < h; y++ {
		for x := 0; x < w; x++ {
			v := false
			switch kind {
			case 0:
			case 1:
				v = true
			case 2:
				v = (x+y)%2 == 0
			case 3:
				v = x%2 == 0
			case 4:
				v = y%2 == 0
			case 5: // valid symbol cropped / padded to this size
				v = sym != nil && sym.Get(x, y)
			case 6: // valid symbol shifted by one module
				v = sym != nil && sym.Get(x+1, y+1)
			case 7: // finder-like nested squares
				d := x
				if y < d {
					d = y
				}
				if w-1-x < d {
					d = w - 1 - x
				}
				if h-1-y < d {
					d = h - 1 - y
				}
				v = d%2 == 0
			}
			if v {
				m.Set(x, y)
			}
		}
	}
	return m
}

func pix(m *gozxing.BitMatrix) string {
	if m.GetWidth()*m.GetHeight() > 2500 {
		return fmt.Sprintf("(%dx%d matrix)", m.GetWidth(), m.GetHeight())
	}
	b := make([]byte, 0, (m.GetWidth()+1)*m.GetHeight())
	for y := 0; y < m.GetHeight(); y++ {
		for x := 0; x < m.GetWidth(); x++ {
			if m.Get(x, y) {
				b = append(b, 'X')
			} else {
				b = append(b, '.')
			}
		}
		b = append(b, '/')
	}
	return string(b)
}

func parsePix(s string) *gozxing.BitMatrix {
	var rows []string
	cur := ""
	for _, c := range s {
		if c == '/' {
			rows = append(rows, cur)
			cur = ""
		} else {
			cur += string(c)
		}
	}
	if len(rows) == 0 || len(rows[0]) == 0 {
		return nil
	}
	m, _ := gozxing.NewBitMatrix(len(rows[0]), len(rows))
	for y, r := range rows {
		for x := 0; x < len(r); x++ {
			if r[x] == 'X' {
				m.Set(x, y)
			}
		}
	}
	return m
}

func bareSymbol(w gozxing.Writer, f gozxing.BarcodeFormat, content string) *gozxing.BitMatrix {
	m, err := w.Encode(content, f, 0, 0, map[gozxing.EncodeHintType]interface{}{gozxing.EncodeHintType_MARGIN: 0})
	if err != nil {
		panic("harness: cannot build a valid symbol: " + err.Error())
	}
	return m
}

func cloneM(m *gozxing.BitMatrix) *gozxing.BitMatrix {
	c, _ := gozxing.NewBitMatrix(m.GetWidth(), m.GetHeight())
	for y := 0; y < m.GetHeight(); y++ {
		for x := 0; x < m.GetWidth(); x++ {
			if m.Get(x, y) {
				c.Set(x, y)
			}
		}
	}
	return c
}

func sizeClass(w, h int) string {
	if w != h {
		return "non-square"
	}
	return "square"
}

func qrMatrix(l *mc.Local, m *gozxing.BitMatrix, extra string) {
	var r *common.DecoderResult
	var err error
	cs := rcase{Kind: "qr-matrix", Target: "qrcode/decoder", W: m.GetWidth(), H: m.GetHeight(), Pixels: pix(m), Extra: extra}
	l.Beat("")
	in := cloneM(m)
	pm, site := mc.Guard(func() { r, err = qrdec.NewDecoder().Decode(in, nil) })
	outcome(l, "qr-matrix/"+sizeClass(m.GetWidth(), m.GetHeight()), pm, site, r, err, cs, false)
}

func dmMatrix(l *mc.Local, m *gozxing.BitMatrix, extra string) {
	var r *common.DecoderResult
	var err error
	cs := rcase{Kind: "dm-matrix", Target: "datamatrix/decoder", W: m.GetWidth(), H: m.GetHeight(), Pixels: pix(m), Extra: extra}
	l.Beat("")
	in := cloneM(m)
	pm, site := mc.Guard(func() { r, err = dmdec.NewDecoder().Decode(in) })
	outcome(l, "dm-matrix", pm, site, r, err, cs, false)
}

func runMatrices() {
	qrw := qrcode.NewQRCodeWriter()
	dmw := datamatrix.NewDataMatrixWriter()
	qr1 := bareSymbol(qrw, gozxing.BarcodeFormat_QR_CODE, "HELLO")
	qr2 := bareSymbol(qrw, gozxing.BarcodeFormat_QR_CODE, "HELLO WORLD HELLO WORLD HELLO W")
	qr7 := bareSymbol(qrw, gozxing.BarcodeFormat_QR_CODE, string(make7()))
	dm10 := bareSymbol(dmw, gozxing.BarcodeFormat_DATA_MATRIX, "123456")
	dm32 := bareSymbol(dmw, gozxing.BarcodeFormat_DATA_MATRIX, "The quick brown fox jumps over the lazy dog 0123456789 ABC")
	dmr, _ := dmw.Encode("ABCDE", gozxing.BarcodeFormat_DATA_MATRIX, 0, 0, map[gozxing.EncodeHintType]interface{}{gozxing.EncodeHintType_DATA_MATRIX_SHAPE: dmShapeRect()})
	type sz struct{ w, h int }
	var sizes []sz
	maxS := chk.Pick(40, 50)
	for w := 1; w <= maxS; w++ {
		for h := 1; h <= maxS; h++ {
			sizes = append(sizes, sz{w, h})
		}
	}
	for _, d := range []int{52, 64, 88, 96, 104, 120, 132, 144, 145, 173, 177, 181} {
		sizes = append(sizes, sz{d, d}, sz{d, d - 4}, sz{d - 4, d})
	}
	chk.Range(fmt.Sprintf("qrcode/decoder and datamatrix/decoder on every width x height in 1..%d^2 plus {52..181} x 8 fills (white, black, checker, stripes, nested squares, valid symbol cropped/padded, shifted)", maxS), len(sizes),
		func(i int) string { return fmt.Sprint(sizes[i]) },
		func(l *mc.Local, i int) {
			s := sizes[i]
			for k := 0; k < 8; k++ {
				for _, sym := range []*gozxing.BitMatrix{qr1, qr7} {
					qrMatrix(l, fill(s.w, s.h, k, sym), fmt.Sprint("fill", k))
					if k < 5 || k == 7 {
						break
					}
				}
				for _, sym := range []*gozxing.BitMatrix{dm10, dmr, dm32} {
					dmMatrix(l, fill(s.w, s.h, k, sym), fmt.Sprint("fill", k))
					if k < 5 || k == 7 {
						break
					}
				}
			}
		})
	// single and double module flips of valid symbols
	type sym struct {
		name string
		m    *gozxing.BitMatrix
		qr   bool
		dbl  bool
	}
	syms := []sym{{"qr-v1", qr1, true, true}, {"qr-v2", qr2, true, false}, {"qr-v7", qr7, true, false}, {"dm-10x10", dm10, false, true}, {"dm-rect", dmr, false, true}, {"dm-32x32", dm32, false, false}}
	type fj struct {
		s, a int
	}
	var fjobs []fj
	for si, s := range syms {
		n := s.m.GetWidth() * s.m.GetHeight()
		for a := 0; a < n; a++ {
			fjobs = append(fjobs, fj{si, a})
		}
	}
	dblNote := "double flips for QR v1 and DM 10x10 / rectangular (all pairs)"
	if chk.Quick() {
		dblNote = "double flips: every module paired with the 8 format-information-adjacent and 8 evenly spread partners"
	}
	chk.Range("every single module flip of valid symbols {QR v1,v2,v7; DM 10x10, rectangular, 32x32}; "+dblNote, len(fjobs),
		func(i int) string { return fmt.Sprint(syms[fjobs[i].s].name, " flip ", fjobs[i].a) },
		func(l *mc.Local, i int) {
			j := fjobs[i]
			s := syms[j.s]
			w := s.m.GetWidth()
			n := w * s.m.GetHeight()
			m := cloneM(s.m)
			m.Flip(j.a%w, j.a/w)
			if s.qr {
				qrMatrix(l, m, "flip1")
			} else {
				dmMatrix(l, m, "flip1")
			}
			if !s.dbl {
				return
			}
			var partners []int
			if chk.Quick() {
				for k := 1; k <= 16; k++ {
					partners = append(partners, (j.a+k*n/17)%n)
				}
			} else {
				for b := j.a + 1; b < n; b++ {
					partners = append(partners, b)
				}
			}
			for _, b := range partners {
				if b == j.a {
					continue
				}
				m2 := cloneM(m)
				m2.Flip(b%w, b/w)
				if s.qr {
					qrMatrix(l, m2, "flip2")
				} else {
					dmMatrix(l, m2, "flip2")
				}
			}
		})
	// Aztec decoder on every (compact, layers, data blocks) with fills
	type aj struct {
		compact bool
		layers  int
	}
	var ajs []aj
	for L := 0; L <= 5; L++ {
		ajs = append(ajs, aj{true, L})
	}
	for L := 0; L <= 33; L++ {
		ajs = append(ajs, aj{false, L})
	}
	chk.Range("aztec/decoder.Decode on every (compact layers 0..5, full layers 0..33) x every data-block count 0..capacity+1 x 5 fills, on matrices of the nominal size and of size-1 / size+1", len(ajs),
		func(i int) string { return fmt.Sprint(ajs[i]) },
		func(l *mc.Local, i int) {
			a := ajs[i]
			base := 14 + 4*a.layers
			size := base + 1 + 2*((base/2-1)/15)
			total := (112 + 16*a.layers) * a.layers
			if a.compact {
				size = 11 + 4*a.layers
				total = (88 + 16*a.layers) * a.layers
			}
			ws := 6
			switch {
			case a.layers > 22:
				ws = 12
			case a.layers > 8:
				ws = 10
			case a.layers > 2:
				ws = 8
			}
			capw := total / ws
			var blocks []int
			if chk.Quick() && capw > 40 {
				blocks = []int{0, 1, 2, capw / 2, capw - 3, capw - 1, capw, capw + 1}
			} else {
				for b := 0; b <= capw+1; b++ {
					blocks = append(blocks, b)
				}
			}
			for _, ds := range []int{0, -1, 1} {
				if size+ds < 1 {
					continue
				}
				for k := 0; k < 5; k++ {
					m := fill(size+ds, size+ds, k, nil)
					for _, nb := range blocks {
						if ds != 0 && nb != 1 && nb != capw/2 {
							continue
						}
						var r *common.DecoderResult
						var err error
						cs := rcase{Kind: "aztec-matrix", Target: "aztec/decoder", W: size + ds, H: size + ds, Extra: fmt.Sprintf("compact=%v layers=%d blocks=%d fill=%d", a.compact, a.layers, nb, k)}
						l.Beat(cs.Extra)
						pm, site := mc.Guard(func() {
							r, err = azdec.NewDecoder().Decode(azdet.NewAztecDetectorResult(m, nil, a.compact, nb, a.layers))
						})
						key := "aztec-matrix"
						if a.layers == 0 || a.layers > 32 || (a.compact && a.layers > 4) {
							key += "/layers-out-of-range"
						} else if ds != 0 {
							key += "/wrong-size"
						} else if nb == 0 || nb > capw {
							key += "/blocks-out-of-range"
						}
						outcome(l, key, pm, site, r, err, cs, false)
					}
				}
			}
		})
}

func make7() []byte {
	b := make([]byte, 120)
	for i := range b {
		b[i] = 'a' + byte(i%26)
	}
	return b
}

// ------------------------------------------------------------------ row decoders

type rowDecoder interface {
	DecodeRow(rowNumber int, row *gozxing.BitArray, hints map[gozxing.DecodeHintType]interface{}) (*gozxing.Result, error)
}

type rdDef struct {
	name string
	mk   func() gozxing.Reader
}

var rowDecoders = []rdDef{
	{"EAN13", oned.NewEAN13Reader}, {"EAN8", oned.NewEAN8Reader}, {"UPCA", oned.NewUPCAReader}, {"UPCE", oned.NewUPCEReader},
	{"MultiUPCEAN", func() gozxing.Reader { return oned.NewMultiFormatUPCEANReader(nil) }},
	{"Code39", oned.NewCode39Reader},
	{"Code39+check", func() gozxing.Reader { return oned.NewCode39ReaderWithFlags(true, false) }},
	{"Code39+ext", func() gozxing.Reader { return oned.NewCode39ReaderWithFlags(false, true) }},
	{"Code39+check+ext", func() gozxing.Reader { return oned.NewCode39ReaderWithFlags(true, true) }},
	{"Code93", oned.NewCode93Reader}, {"Code128", oned.NewCode128Reader}, {"ITF", oned.NewITFReader}, {"Codabar", oned.NewCodaBarReader},
	{"RSS14", rss.NewRSS14Reader},
}

func rowStr(b []bool) string {
	s := make([]byte, len(b))
	for i, v := range b {
		s[i] = '.'
		if v {
			s[i] = 'X'
		}
	}
	return string(s)
}

func toBitArray(b []bool) *gozxing.BitArray {
	r := gozxing.NewBitArray(len(b))
	for i, v := range b {
		if v {
			r.Set(i)
		}
	}
	return r
}

func decodeRowAll(l *mc.Local, b []bool, extra string, only string) {
	for _, rd := range rowDecoders {
		if only != "" && len(rd.name) >= len(only) && rd.name[:len(only)] != only && only != "*" {
			continue
		}
		dec, ok := rd.mk().(rowDecoder)
		if !ok {
			chk.Violation("C06/harness/not-a-row-decoder/"+rd.name, "reader does not expose DecodeRow", rcase{Kind: "row", Target: rd.name})
			continue
		}
		for hi, hints := range []map[gozxing.DecodeHintType]interface{}{nil, {gozxing.DecodeHintType_RETURN_CODABAR_START_END: true, gozxing.DecodeHintType_ASSUME_GS1: true}} {
			if hi == 1 && rd.name != "Codabar" && rd.name != "Code128" {
				continue
			}
			var r *gozxing.Result
			var err error
			row := toBitArray(b)
			cs := rcase{Kind: "row", Target: rd.name, Bits: rowStr(b), Extra: extra, Hints: fmt.Sprint(hi)}
			l.Beat("")
			pm, site := mc.Guard(func() { r, err = dec.DecodeRow(0, row, hints) })
			outcome(l, "row/"+rd.name, pm, site, r, err, cs, false)
		}
	}
}

func firstRow(m *gozxing.BitMatrix) []bool {
	b := make([]bool, m.GetWidth())
	for x := range b {
		b[x] = m.Get(x, 0)
	}
	return b
}

func scaleRow(b []bool, s int) []bool {
	var o []bool
	for _, v := range b {
		for k := 0; k < s; k++ {
			o = append(o, v)
		}
	}
	return o
}

func runs(b []bool) []int {
	var r []int
	for i := 0; i < len(b); {
		j := i
		for j < len(b) && b[j] == b[i] {
			j++
		}
		r = append(r, j-i)
		i = j
	}
	return r
}

func fromRuns(r []int, first bool) []bool {
	var b []bool
	c := first
	for _, n := range r {
		for k := 0; k < n; k++ {
			b = append(b, c)
		}
		c = !c
	}
	return b
}

type wDef struct {
	name     string
	mk       func() gozxing.Writer
	f        gozxing.BarcodeFormat
	contents []string
}

var oneDWriters = []wDef{
	{"EAN13", oned.NewEAN13Writer, gozxing.BarcodeFormat_EAN_13, []string{"590123412345", "000000000000"}},
	{"EAN8", oned.NewEAN8Writer, gozxing.BarcodeFormat_EAN_8, []string{"9638507"}},
	{"UPCA", oned.NewUPCAWriter, gozxing.BarcodeFormat_UPC_A, []string{"03600029145"}},
	{"UPCE", oned.NewUPCEWriter, gozxing.BarcodeFormat_UPC_E, []string{"01234565"}},
	{"Code39", oned.NewCode39Writer, gozxing.BarcodeFormat_CODE_39, []string{"A", "AB+", "%", "$/+%", "a"}},
	{"Code93", oned.NewCode93Writer, gozxing.BarcodeFormat_CODE_93, []string{"A", "a", "AB12"}},
	{"Code128", oned.NewCode128Writer, gozxing.BarcodeFormat_CODE_128, []string{"A", "1234", "a\x01b", "ñ12"}},
	{"ITF", oned.NewITFWriter, gozxing.BarcodeFormat_ITF, []string{"123456", "00"}},
	{"Codabar", oned.NewCodaBarWriter, gozxing.BarcodeFormat_CODABAR, []string{"A12B", "T1N"}},
}

func runRows() {
	maxLen := chk.Pick(14, 20)
	type job struct {
		n      int
		lo, hi int
	}
	var jobs []job
	for n := 1; n <= maxLen; n++ {
		total := 1 << uint(n)
		for lo := 0; lo < total; lo += 512 {
			hi := lo + 512
			if hi > total {
				hi = total
			}
			jobs = append(jobs, job{n, lo, hi})
		}
	}
	chk.Range(fmt.Sprintf("14 row decoders (EAN-13/8, UPC-A/E, multi UPC/EAN, Code 39 in 4 flag combinations, Code 93, Code 128, ITF, Codabar, RSS-14) on every pixel row of length 1..%d", maxLen), len(jobs),
		func(i int) string { return fmt.Sprint(jobs[i]) },
		func(l *mc.Local, i int) {
			j := jobs[i]
			for v := j.lo; v < j.hi; v++ {
				b := make([]bool, j.n)
				for k := 0; k < j.n; k++ {
					b[k] = v&(1<<uint(k)) != 0
				}
				decodeRowAll(l, b, "", "*")
			}
		})
	// valid symbols: scales 1..3, every single run +-1, every prefix/suffix truncation
	type sj struct {
		w, c, scale int
	}
	var sjs []sj
	for wi, w := range oneDWriters {
		for ci := range w.contents {
			for s := 1; s <= 3; s++ {
				sjs = append(sjs, sj{wi, ci, s})
			}
		}
	}
	chk.Range("all row decoders on valid symbol rows of the nine 1-D writers at scales 1..3: pristine, every single run lengthened/shortened by one pixel, every prefix and suffix truncation, reversed; at scale 1 every cut at a run boundary x 0..63 white pixels in front / behind (every width residue modulo 64)", len(sjs),
		func(i int) string { return fmt.Sprint(oneDWriters[sjs[i].w].name, sjs[i]) },
		func(l *mc.Local, i int) {
			j := sjs[i]
			w := oneDWriters[j.w]
			m, err := w.mk().Encode(w.contents[j.c], w.f, 0, 0, nil)
			if err != nil {
				return
			}
			base := scaleRow(firstRow(m), j.scale)
			decodeRowAll(l, base, "pristine", "*")
			rev := make([]bool, len(base))
			for k := range base {
				rev[len(base)-1-k] = base[k]
			}
			decodeRowAll(l, rev, "reversed", "*")
			rs := runs(base)
			for k := range rs {
				for _, d := range []int{-1, 1} {
					if rs[k]+d < 0 {
						continue
					}
					r2 := append([]int{}, rs...)
					r2[k] += d
					decodeRowAll(l, fromRuns(r2, base[0]), fmt.Sprintf("run %d %+d", k, d), "*")
				}
			}
			step := 1
			if chk.Quick() {
				step = j.scale
			}
			for cut := 1; cut < len(base); cut += step {
				decodeRowAll(l, base[:cut], fmt.Sprint("prefix ", cut), "*")
				decodeRowAll(l, base[cut:], fmt.Sprint("suffix ", cut), "*")
			}
			// the row ends (or begins) exactly at an element boundary of the symbol AND its width takes
			// every residue modulo 64: cut at every run boundary, with 0..63 white pixels added in
			// front (prefixes) or behind (suffixes); read by the symbology's own decoders
			if j.scale == 1 {
				pos := 0
				for _, n := range rs {
					pos += n
					if pos >= len(base) {
						break
					}
					for pad := 0; pad < 64; pad++ {
						if chk.Quick() && (pad+pos)%2 == 1 && pad%32 > 1 && pad%32 < 31 {
							continue
						}
						white := make([]bool, pad)
						decodeRowAll(l, append(append([]bool{}, white...), base[:pos]...), fmt.Sprint("prefix up to run boundary ", pos, " behind ", pad, " white pixels"), w.name)
						decodeRowAll(l, append(append([]bool{}, base[pos:]...), white...), fmt.Sprint("suffix from run boundary ", pos, " followed by ", pad, " white pixels"), w.name)
					}
				}
			}
		})
	// Code 39: every string of length <= 2 (quick) / 3 over the 43-character alphabet, written by the
	// Code 39 writer, read by all four flag combinations (this reaches "escape at end of data")
	alpha := "0123456789ABCDEFGHIJKLMNOPQRSTUVWXYZ-. $/+%"
	deep := chk.Pick(2, 3)
	var strs []string
	var gen func(cur string)
	gen = func(cur string) {
		if cur != "" {
			strs = append(strs, cur)
		}
		if len(cur) == deep {
			return
		}
		for k := 0; k < len(alpha); k++ {
			gen(cur + string(alpha[k]))
		}
	}
	gen("")
	chk.Range(fmt.Sprintf("Code 39 symbols for every string of length 1..%d over the 43-character alphabet, read with every flag combination (plain, check digit, extended, both)", deep), (len(strs)+63)/64,
		func(i int) string { return fmt.Sprintf("code39 strings from %q", strs[i*64]) },
		func(l *mc.Local, i int) {
			w := oned.NewCode39Writer()
			for k := i * 64; k < (i+1)*64 && k < len(strs); k++ {
				m, err := w.Encode(strs[k], gozxing.BarcodeFormat_CODE_39, 0, 0, nil)
				if err != nil {
					continue
				}
				decodeRowAll(l, firstRow(m), "code39 "+strs[k], "Code39")
			}
		})
	// reuse: ONE decoder object per kind runs through a whole sequence of rows (every row of length
	// 1..9, then valid symbol rows and their truncations) — state left behind by a failed or
	// successful call must not make a later call panic or return neither/both
	reuseLen := chk.Pick(9, 12)
	chk.Range(fmt.Sprintf("row decoders REUSED: one decoder object per kind decodes every pixel row of length 1..%d in order, then the valid rows of all nine writers, their reversals and every truncation", reuseLen), len(rowDecoders),
		func(i int) string { return "reuse " + rowDecoders[i].name },
		func(l *mc.Local, i int) {
			rd := rowDecoders[i]
			dec, ok := rd.mk().(rowDecoder)
			if !ok {
				return
			}
			one := func(b []bool, extra string) {
				var r *gozxing.Result
				var err error
				row := toBitArray(b)
				cs := rcase{Kind: "row", Target: rd.name, Bits: rowStr(b), Extra: "reused decoder object; " + extra}
				l.Beat("")
				pm, site := mc.Guard(func() { r, err = dec.DecodeRow(0, row, nil) })
				outcome(l, "row-reuse/"+rd.name, pm, site, r, err, cs, false)
			}
			for n := 1; n <= reuseLen; n++ {
				for v := 0; v < 1<<uint(n); v++ {
					b := make([]bool, n)
					for k := 0; k < n; k++ {
						b[k] = v&(1<<uint(k)) != 0
					}
					one(b, "")
				}
			}
			for _, w := range oneDWriters {
				for _, c := range w.contents {
					m, err := w.mk().Encode(c, w.f, 0, 0, nil)
					if err != nil {
						continue
					}
					base := firstRow(m)
					one(base, "valid "+w.name)
					rev := make([]bool, len(base))
					for k := range base {
						rev[len(base)-1-k] = base[k]
					}
					one(rev, "reversed "+w.name)
					for cut := 1; cut < len(base); cut += 3 {
						one(base[:cut], "prefix")
						one(base[cut:], "suffix")
						one(base, "valid again")
					}
				}
			}
		})
	// bare guards: Code 39 "**" (no data), Codabar start/stop only
	chk.Subspace("hand-built rows", "Code 39 with empty payload (start/stop only)")
	l := chk.NewLocal()
	star := "100101101101" // '*' as modules (narrow=1, wide=2): bar space bar bar(w)? built below from the writer instead
	_ = star
	if m, err := oned.NewCode39Writer().Encode("A", gozxing.BarcodeFormat_CODE_39, 0, 0, map[gozxing.EncodeHintType]interface{}{gozxing.EncodeHintType_MARGIN: 0}); err == nil {
		row := firstRow(m)
		// a Code 39 character is 12 modules + 1 gap with wide=2 (three wide of nine elements): '*' 'A' '*'
		per := (len(row) + 1) / 3
		if per*3-1 == len(row) {
			var b []bool
			for k := 0; k < 10; k++ {
				b = append(b, false)
			}
			b = append(b, row[:per]...)
			b = append(b, row[2*per:]...)
			for k := 0; k < 10; k++ {
				b = append(b, false)
			}
			decodeRowAll(l, b, "code39 start+stop only", "Code39")
		}
	}
	l.Merge()
	chk.Sample("row", rcase{Kind: "row", Target: "Code39+ext", Bits: "(Code 39 symbol for \"A+\")"})
	// every three-digit number-system prefix: the readers look the prefix of a successfully read
	// EAN-13 / UPC-A number up in a table of issuing organisations (result metadata)
	chk.Range("all row decoders on valid EAN-13 symbols with EVERY three-digit prefix 000..999 (two bodies each), scale 1", 1000,
		func(i int) string { return fmt.Sprintf("prefix %03d", i) },
		func(l *mc.Local, i int) {
			for _, body := range []string{"000000000", "123456789"} {
				m, err := oned.NewEAN13Writer().Encode(fmt.Sprintf("%03d%s", i, body), gozxing.BarcodeFormat_EAN_13, 0, 0, nil)
				if err != nil {
					return
				}
				decodeRowAll(l, firstRow(m), "prefix", "*")
			}
		})
}

// ------------------------------------------------------------------ image readers

type imgReader struct {
	name string
	mk   func() func(*gozxing.BinaryBitmap, map[gozxing.DecodeHintType]interface{}) (interface{}, error)
}

func wrap(mk func() gozxing.Reader) func() func(*gozxing.BinaryBitmap, map[gozxing.DecodeHintType]interface{}) (interface{}, error) {
	return func() func(*gozxing.BinaryBitmap, map[gozxing.DecodeHintType]interface{}) (interface{}, error) {
		r := mk()
		return func(b *gozxing.BinaryBitmap, h map[gozxing.DecodeHintType]interface{}) (interface{}, error) {
			if isNoHintEntry(h) {
				res, err := r.DecodeWithoutHints(b)
				return res, err
			}
			res, err := r.Decode(b, h)
			return res, err
		}
	}
}

var imgReaders = []imgReader{
	{"QR", wrap(qrcode.NewQRCodeReader)},
	{"DataMatrix", wrap(func() gozxing.Reader { return datamatrix.NewDataMatrixReader() })},
	{"Aztec", wrap(func() gozxing.Reader { return aztec.NewAztecReader() })},
	{"QRMulti", func() func(*gozxing.BinaryBitmap, map[gozxing.DecodeHintType]interface{}) (interface{}, error) {
		r := multiqr.NewQRCodeMultiReader()
		return func(b *gozxing.BinaryBitmap, h map[gozxing.DecodeHintType]interface{}) (interface{}, error) {
			// a multi-reader's outcome is a (possibly empty) list or an error; an empty list that
			// accompanies an error is not a result
			var res []*gozxing.Result
			var err error
			if isNoHintEntry(h) {
				res, err = r.DecodeMultipleWithoutHint(b)
			} else {
				res, err = r.DecodeMultiple(b, h)
			}
			if len(res) == 0 && err != nil {
				return nil, err
			}
			return &res, err
		}
	}},
	{"EAN13", wrap(oned.NewEAN13Reader)}, {"EAN8", wrap(oned.NewEAN8Reader)}, {"UPCA", wrap(oned.NewUPCAReader)}, {"UPCE", wrap(oned.NewUPCEReader)},
	{"MultiUPCEAN", wrap(func() gozxing.Reader { return oned.NewMultiFormatUPCEANReader(nil) })},
	{"Code39", wrap(oned.NewCode39Reader)}, {"Code39+check+ext", wrap(func() gozxing.Reader { return oned.NewCode39ReaderWithFlags(true, true) })},
	{"Code93", wrap(oned.NewCode93Reader)}, {"Code128", wrap(oned.NewCode128Reader)}, {"ITF", wrap(oned.NewITFReader)}, {"Codabar", wrap(oned.NewCodaBarReader)},
	{"RSS14", wrap(rss.NewRSS14Reader)},
}

func grayOf(m *gozxing.BitMatrix) *image.Gray {
	g := image.NewGray(image.Rect(0, 0, m.GetWidth(), m.GetHeight()))
	for y := 0; y < m.GetHeight(); y++ {
		for x := 0; x < m.GetWidth(); x++ {
			c := color.Gray{255}
			if m.Get(x, y) {
				c.Y = 0
			}
			g.SetGray(x, y, c)
		}
	}
	return g
}

var flagHints = []gozxing.DecodeHintType{gozxing.DecodeHintType_PURE_BARCODE, gozxing.DecodeHintType_TRY_HARDER, gozxing.DecodeHintType_ALSO_INVERTED,
	gozxing.DecodeHintType_ASSUME_GS1, gozxing.DecodeHintType_ASSUME_CODE_39_CHECK_DIGIT, gozxing.DecodeHintType_RETURN_CODABAR_START_END}

// noHintEntry stands for "call the entry point that takes no hints" (DecodeWithoutHints /
// DecodeMultipleWithoutHint); the readers' wrappers recognise the map by its identity.
var noHintEntry = map[gozxing.DecodeHintType]interface{}{}

func isNoHintEntry(h map[gozxing.DecodeHintType]interface{}) bool {
	return h != nil && reflect.ValueOf(h).Pointer() == reflect.ValueOf(noHintEntry).Pointer()
}

func hintSubset(mask int) (map[gozxing.DecodeHintType]interface{}, string) {
	if mask == 0 {
		return nil, "-"
	}
	if mask < 0 {
		return noHintEntry, "entry-point-without-hints"
	}
	h := map[gozxing.DecodeHintType]interface{}{}
	s := ""
	for i, f := range flagHints {
		if mask&(1<<uint(i)) != 0 {
			// "Doesn't matter what it maps to": the value rotates over true, untyped nil, struct{}{}, 1, false
			h[f] = []interface{}{true, nil, struct{}{}, 1, false}[(mask+i)%5]
			s += fmt.Sprint(i)
		}
	}
	if mask&64 != 0 {
		h[gozxing.DecodeHintType_CHARACTER_SET] = "Shift_JIS"
		s += "c"
	}
	if mask&128 != 0 {
		h[gozxing.DecodeHintType_ALLOWED_LENGTHS] = []int{6, 4}
		h[gozxing.DecodeHintType_ALLOWED_EAN_EXTENSIONS] = []int{2}
		h[gozxing.DecodeHintType_POSSIBLE_FORMATS] = []gozxing.BarcodeFormat{gozxing.BarcodeFormat_EAN_13, gozxing.BarcodeFormat_QR_CODE}
		s += "v"
	}
	return h, s
}

func readImageAll(l *mc.Local, m *gozxing.BitMatrix, masks []int, extra string, only string) {
	g := grayOf(m)
	for _, ir := range imgReaders {
		if only != "" && ir.name != only {
			continue
		}
		for _, mask := range masks {
			hints, hs := hintSubset(mask)
			for _, hybrid := range []bool{true, false} {
				src := gozxing.NewLuminanceSourceFromImage(g)
				var bmp *gozxing.BinaryBitmap
				if hybrid {
					bmp, _ = gozxing.NewBinaryBitmap(gozxing.NewHybridBinarizer(src))
				} else {
					bmp, _ = gozxing.NewBinaryBitmap(gozxing.NewGlobalHistgramBinarizer(src))
				}
				var res interface{}
				var err error
				cs := rcase{Kind: "image", Target: ir.name, W: m.GetWidth(), H: m.GetHeight(), Pixels: pix(m), Hints: hs, Extra: fmt.Sprint(extra, " hybrid=", hybrid)}
				l.Beat("")
				dec := ir.mk()
				pm, site := mc.Guard(func() { res, err = dec(bmp, hints) })
				outcome(l, "image/"+ir.name, pm, site, res, err, cs, true)
				if m.GetWidth() >= 40 && m.GetHeight() >= 40 && extra != "tiny" {
					continue
				}
				if !hybrid {
					break
				}
			}
		}
	}
}

func dmShapeRect() interface{} { return dmRect }

func runImages() {
	// every bilevel image up to 3x3 (quick) / 4x4 (thorough), default hints and pure-barcode
	maxPix := chk.Pick(9, 16)
	type job struct{ w, h, lo, hi int }
	var jobs []job
	for w := 1; w <= 4; w++ {
		for h := 1; h <= 4; h++ {
			if w*h > maxPix {
				continue
			}
			total := 1 << uint(w*h)
			for lo := 0; lo < total; lo += 256 {
				hi := lo + 256
				if hi > total {
					hi = total
				}
				jobs = append(jobs, job{w, h, lo, hi})
			}
		}
	}
	chk.Range(fmt.Sprintf("16 image readers on every bilevel image with w,h<=4 and <=%d pixels, hints {none, PURE_BARCODE, TRY_HARDER} and the entry point that takes no hints", maxPix), len(jobs),
		func(i int) string { return fmt.Sprint(jobs[i]) },
		func(l *mc.Local, i int) {
			j := jobs[i]
			for v := j.lo; v < j.hi; v++ {
				m, _ := gozxing.NewBitMatrix(j.w, j.h)
				for k := 0; k < j.w*j.h; k++ {
					if v&(1<<uint(k)) != 0 {
						m.Set(k%j.w, k/j.w)
					}
				}
				readImageAll(l, m, []int{0, 1, 2, -1}, "tiny", "")
			}
		})
	// every size 1..48 x 1..48 with fills
	qrw := qrcode.NewQRCodeWriter()
	qrsym, _ := qrw.Encode("HELLO", gozxing.BarcodeFormat_QR_CODE, 0, 0, nil)
	dmsym, _ := datamatrix.NewDataMatrixWriter().Encode("HELLO", gozxing.BarcodeFormat_DATA_MATRIX, 0, 0, nil)
	c128, _ := oned.NewCode128Writer().Encode("AB", gozxing.BarcodeFormat_CODE_128, 0, 12, nil)
	type sz struct{ w, h int }
	var sizes []sz
	maxS := chk.Pick(30, 48)
	for w := 1; w <= maxS; w++ {
		for h := 1; h <= maxS; h++ {
			if chk.Quick() && w > 12 && h > 12 && (w+h)%3 != 0 {
				continue
			}
			sizes = append(sizes, sz{w, h})
		}
	}
	chk.Range(fmt.Sprintf("16 image readers on every size in 1..%d^2 (quick: every size with min<=12, a third of the rest) x fills {white, black, checker, stripes, nested squares, QR/DM/Code128 symbol cropped}, hints {none, PURE_BARCODE}", maxS), len(sizes),
		func(i int) string { return fmt.Sprint(sizes[i]) },
		func(l *mc.Local, i int) {
			s := sizes[i]
			for k := 0; k < 8; k++ {
				if k == 6 {
					continue
				}
				syms := []*gozxing.BitMatrix{nil}
				if k == 5 {
					syms = []*gozxing.BitMatrix{qrsym, dmsym, c128}
				}
				for _, sym := range syms {
					readImageAll(l, fill(s.w, s.h, k, sym), []int{0, 1}, fmt.Sprint("fill", k), "")
				}
			}
		})
	// rendered symbols: every single module flip, every row/column deleted, crop windows, all hint subsets
	type sym struct {
		name string
		m    *gozxing.BitMatrix
	}
	var syms []sym
	add := func(name string, w gozxing.Writer, f gozxing.BarcodeFormat, c string, wd, ht int) {
		m, err := w.Encode(c, f, wd, ht, nil)
		if err == nil {
			syms = append(syms, sym{name, m})
		}
	}
	add("QR", qrw, gozxing.BarcodeFormat_QR_CODE, "HELLO", 0, 0)
	add("QRx2", qrw, gozxing.BarcodeFormat_QR_CODE, "HELLO", 58, 58)
	add("DM", datamatrix.NewDataMatrixWriter(), gozxing.BarcodeFormat_DATA_MATRIX, "HELLO", 0, 0)
	add("DMpad", datamatrix.NewDataMatrixWriter(), gozxing.BarcodeFormat_DATA_MATRIX, "HELLO", 44, 44)
	for _, w := range oneDWriters {
		add(w.name, w.mk(), w.f, w.contents[0], 0, 6)
	}
	// further poses of the same symbols: mirrored (transposed), rotated by quarter turns, negative
	pose := func(name string, src *gozxing.BitMatrix, f func(x, y, w, h int) (int, int), swap, invert bool) {
		w, h := src.GetWidth(), src.GetHeight()
		nw, nh := w, h
		if swap {
			nw, nh = h, w
		}
		m, _ := gozxing.NewBitMatrix(nw, nh)
		for y := 0; y < h; y++ {
			for x := 0; x < w; x++ {
				if src.Get(x, y) != invert {
					nx, ny := f(x, y, w, h)
					m.Set(nx, ny)
				}
			}
		}
		syms = append(syms, sym{name, m})
	}
	if len(syms) >= 3 {
		qr, qr2, dm := syms[0].m, syms[1].m, syms[2].m
		pose("QR", qr, func(x, y, w, h int) (int, int) { return y, x }, true, false)                  // mirrored
		pose("QRx2", qr2, func(x, y, w, h int) (int, int) { return y, x }, true, false)               // mirrored, scaled
		pose("QR", qr, func(x, y, w, h int) (int, int) { return h - 1 - y, x }, true, false)          // rotated 90
		pose("QR", qr, func(x, y, w, h int) (int, int) { return w - 1 - x, h - 1 - y }, false, false) // rotated 180
		pose("QR", qr, func(x, y, w, h int) (int, int) { return x, y }, false, true)                  // negative
		pose("DM", dm, func(x, y, w, h int) (int, int) { return h - 1 - y, x }, true, false)
		pose("DM", dm, func(x, y, w, h int) (int, int) { return y, x }, true, false)
		pose("DM", dm, func(x, y, w, h int) (int, int) { return x, y }, false, true)
		for _, s1 := range append([]sym{}, syms[4:13]...) {
			pose(s1.name, s1.m, func(x, y, w, h int) (int, int) { return w - 1 - x, h - 1 - y }, false, false) // upside down
			pose(s1.name, s1.m, func(x, y, w, h int) (int, int) { return h - 1 - y, x }, true, false)          // sideways
		}
	}
	type mj struct {
		s    int
		kind string
		a    int
	}
	var mjs []mj
	for si, s := range syms {
		w, h := s.m.GetWidth(), s.m.GetHeight()
		for m := 0; m < 256; m++ {
			mjs = append(mjs, mj{si, "hints", m})
		}
		n := w * h
		stride := 1
		if chk.Quick() && n > 900 {
			stride = 5
		}
		for a := 0; a < n; a += stride {
			mjs = append(mjs, mj{si, "flip", a})
		}
		for x := 0; x < w; x++ {
			mjs = append(mjs, mj{si, "delcol", x})
		}
		for y := 0; y < h; y++ {
			mjs = append(mjs, mj{si, "delrow", y})
		}
		for a := 0; a < 4*6; a++ {
			mjs = append(mjs, mj{si, "crop", a})
		}
	}
	chk.Range(fmt.Sprintf("rendered symbols of %d writers: all 256 subsets of 6 flag hints + 2 valued-hint groups; every single pixel flip (quick: every 5th on large images); every row/column deleted; 24 crop windows — read by the matching reader and by all readers for the hint subsets", len(syms)), len(mjs),
		func(i int) string { return fmt.Sprint(syms[mjs[i].s].name, mjs[i]) },
		func(l *mc.Local, i int) {
			j := mjs[i]
			s := syms[j.s]
			w, h := s.m.GetWidth(), s.m.GetHeight()
			match := s.name
			switch s.name {
			case "QRx2":
				match = "QR"
			case "DMpad", "DM":
				match = "DataMatrix"
			}
			switch j.kind {
			case "hints":
				readImageAll(l, s.m, []int{j.a}, "hints", "")
				if j.a == 0 {
					readImageAll(l, s.m, []int{-1}, "hints", "") // the entry point without hints on every valid symbol
				}
			case "flip":
				m := cloneM(s.m)
				m.Flip(j.a%w, j.a/w)
				readImageAll(l, m, []int{0, 1, -1}, fmt.Sprint("flip ", j.a), match)
				if match == "QR" {
					readImageAll(l, m, []int{0}, fmt.Sprint("flip ", j.a), "QRMulti")
				}
			case "delcol":
				if w < 2 {
					return
				}
				m, _ := gozxing.NewBitMatrix(w-1, h)
				for y := 0; y < h; y++ {
					for x := 0; x < w-1; x++ {
						sx := x
						if x >= j.a {
							sx = x + 1
						}
						if s.m.Get(sx, y) {
							m.Set(x, y)
						}
					}
				}
				readImageAll(l, m, []int{0, 1, 2}, fmt.Sprint("delcol ", j.a), match)
			case "delrow":
				if h < 2 {
					return
				}
				m, _ := gozxing.NewBitMatrix(w, h-1)
				for y := 0; y < h-1; y++ {
					sy := y
					if y >= j.a {
						sy = y + 1
					}
					for x := 0; x < w; x++ {
						if s.m.Get(x, sy) {
							m.Set(x, y)
						}
					}
				}
				readImageAll(l, m, []int{0, 1, 2}, fmt.Sprint("delrow ", j.a), match)
			case "crop":
				side, k := j.a/6, j.a%6+1
				x0, y0, x1, y1 := 0, 0, w, h
				switch side {
				case 0:
					x0 = w * k / 8
				case 1:
					x1 = w - w*k/8
				case 2:
					y0 = h * k / 8
				case 3:
					y1 = h - h*k/8
				}
				if x1-x0 < 1 || y1-y0 < 1 {
					return
				}
				m, _ := gozxing.NewBitMatrix(x1-x0, y1-y0)
				for y := y0; y < y1; y++ {
					for x := x0; x < x1; x++ {
						if s.m.Get(x, y) {
							m.Set(x-x0, y-y0)
						}
					}
				}
				readImageAll(l, m, []int{0, 1, 2}, fmt.Sprint("crop ", j.a), "")
			}
		})
	chk.Sample("image", rcase{Kind: "image", Target: "QR", W: 3, H: 3, Pixels: "X.X/.X./X.X/", Hints: "0"})
}

func main() {
	chk = mc.New("C06", "exploration")
	chk.Rule = "every byte/bit string, pixel row and tiny image up to the stated length, every size up to the stated bound with structured fills, and valid symbols with 0/1/2 deviations (module flips, run +-1, truncations, deleted rows/columns, crops) x hint subsets; non-trivial = distinct inputs that were DECODED successfully plus distinct (target, error kind) outcomes"
	chk.Assume("'documented kinds' is decided on the error chain: an error whose Unwrap chain contains a NotFound/Checksum/Format exception is accepted (image-level readers only)")
	chk.Assume("QRCodeMultiReader: the outcome is a list (possibly empty) or an error; an empty list returned together with an error counts as the error outcome")
	chk.Assume("pixel rows have length >= 1 as the property states; hints are well typed")
	chk.Assume("'any input whatsoever' includes an image delivered by a LuminanceSource (an interface the application implements) whose GetRow / Crop / Rotate calls report errors: the readers must still return a result or an error and not panic; the KIND of the error is not judged then (it is the source's)")
	chk.Assume("NEED_RESULT_POINT_CALLBACK 'maps to a ResultPointCallback': a typed callback, a nil callback, untyped nil and a func(ResultPoint) literal are taken as well-typed values")
	if chk.ReplayFile() != "" {
		replay()
		chk.Finish()
	}
	runQRBitstream()
	runQRLongSegments()
	runDMBitstream()
	runDMLongStreams()
	runAztecHighLevel()
	runAztecLongStreams()
	runMatrices()
	runRows()
	runImages()
	runTall()
	runHintValues()
	runCallbackHints()
	runRSS14()
	runRSS14Distorted()
	runRSS14LongHistory()
	runMultiSymbol()
	runSourceFaults()
	chk.Finish()
}

func replay() {
	var c rcase
	if err := mc.LoadReplay(chk.ReplayFile(), &c); err != nil {
		fmt.Println("cannot load replay:", err)
		return
	}
	l := chk.NewLocal()
	defer l.Merge()
	fmt.Printf("replay %s\n", brief(c))
	switch c.Kind {
	case "qr-bitstream":
		v := 1
		fmt.Sscanf(c.Target, "v%d", &v)
		qrParse(l, c.Bytes, v, qrdec.ErrorCorrectionLevel_M, nil, "replay")
	case "dm-bitstream":
		dmParse(l, c.Bytes, "replay")
	case "aztec-highlevel":
		bits := make([]bool, len(c.Bits))
		for i := range c.Bits {
			bits[i] = c.Bits[i] == '1'
		}
		var s string
		var err error
		pm, site := mc.Guard(func() { s, err = azdec.NewDecoder().HighLevelDecode(bits) })
		var res interface{} = &s
		if err != nil {
			res = nil
		}
		outcome(l, "aztec-highlevel", pm, site, res, err, c, false)
	case "qr-matrix":
		if m := parsePix(c.Pixels); m != nil {
			qrMatrix(l, m, "replay")
		}
	case "dm-matrix":
		if m := parsePix(c.Pixels); m != nil {
			dmMatrix(l, m, "replay")
		}
	case "row":
		b := make([]bool, len(c.Bits))
		for i := range c.Bits {
			b[i] = c.Bits[i] == 'X'
		}
		decodeRowAll(l, b, "replay", c.Target)
	case "image":
		if m := parsePix(c.Pixels); m != nil {
			readImageAll(l, m, []int{0, 1, 2, 3, -1}, "replay", c.Target)
		}
	case "hint-value":
		fmt.Println("replay of a hint-value case re-runs the whole hint-value family (the hint value is not serialisable in general)")
		runHintValues()
		runCallbackHints()
	default:
		fmt.Println("replay of kind", c.Kind, "is re-run through the full check")
	}
}
