package main

// Environment faults. A LuminanceSource is an interface the application implements (a camera
// frame, a decoder of some file format); its GetRow, Crop and RotateCounterClockwise report errors.
// Every image reader is run on a valid symbol (and on a blank image) behind a source whose k-th
// call of one of these operations fails - for EVERY k up to the number of calls the fault-free run
// makes (one deviation from the fault-free environment), and with every call from the k-th on
// failing. The reader must return - a result or an error - and never panic; with a failing source
// the error is of course whatever the source reported, so the kind of the error is not judged here.

import (
	"errors"
	"fmt"

	"verif/mc"

	"github.com/makiuchi-d/gozxing"
	"github.com/makiuchi-d/gozxing/datamatrix"
	"github.com/makiuchi-d/gozxing/qrcode"
)

type faultSource struct {
	gozxing.LuminanceSource
	calls   *int // shared by the views derived from one source
	failAt  int  // 1-based index of the first failing call, 0 = never
	sticky  bool // every call from failAt on fails
	nilRow  bool // a failing GetRow returns (nil, err); otherwise (the caller's buffer, err)
	tripped *bool
}

var errSource = errors.New("harness: the luminance source reports an I/O error")

func (f *faultSource) fail() bool {
	*f.calls++
	if f.failAt > 0 && (*f.calls == f.failAt || (f.sticky && *f.calls > f.failAt)) {
		*f.tripped = true
		return true
	}
	return false
}

func (f *faultSource) wrap(s gozxing.LuminanceSource) gozxing.LuminanceSource {
	c := *f
	c.LuminanceSource = s
	return &c
}

func (f *faultSource) GetRow(y int, row []byte) ([]byte, error) {
	if f.fail() {
		if f.nilRow {
			return nil, errSource
		}
		return row, errSource
	}
	return f.LuminanceSource.GetRow(y, row)
}

func (f *faultSource) Crop(l, t, w, h int) (gozxing.LuminanceSource, error) {
	if f.fail() {
		return nil, errSource
	}
	s, e := f.LuminanceSource.Crop(l, t, w, h)
	if e != nil {
		return nil, e
	}
	return f.wrap(s), nil
}

func (f *faultSource) RotateCounterClockwise() (gozxing.LuminanceSource, error) {
	if f.fail() {
		return nil, errSource
	}
	s, e := f.LuminanceSource.RotateCounterClockwise()
	if e != nil {
		return nil, e
	}
	return f.wrap(s), nil
}

func (f *faultSource) RotateCounterClockwise45() (gozxing.LuminanceSource, error) {
	if f.fail() {
		return nil, errSource
	}
	s, e := f.LuminanceSource.RotateCounterClockwise45()
	if e != nil {
		return nil, e
	}
	return f.wrap(s), nil
}

func (f *faultSource) Invert() gozxing.LuminanceSource { return f.wrap(f.LuminanceSource.Invert()) }

// faultBinarizer fails the k-th GetBlackRow / GetBlackMatrix call of the binariser it wraps (a
// Binarizer is an interface as well: applications plug in their own thresholding).
type faultBinarizer struct {
	gozxing.Binarizer
	calls   *int
	failAt  int
	sticky  bool
	tripped *bool
}

func (f *faultBinarizer) fail() bool {
	*f.calls++
	if f.failAt > 0 && (*f.calls == f.failAt || (f.sticky && *f.calls > f.failAt)) {
		*f.tripped = true
		return true
	}
	return false
}

func (f *faultBinarizer) GetBlackRow(y int, row *gozxing.BitArray) (*gozxing.BitArray, error) {
	if f.fail() {
		return nil, errSource
	}
	return f.Binarizer.GetBlackRow(y, row)
}

func (f *faultBinarizer) GetBlackMatrix() (*gozxing.BitMatrix, error) {
	if f.fail() {
		return nil, errSource
	}
	return f.Binarizer.GetBlackMatrix()
}

func (f *faultBinarizer) CreateBinarizer(source gozxing.LuminanceSource) gozxing.Binarizer {
	c := *f
	c.Binarizer = f.Binarizer.CreateBinarizer(source)
	return &c
}

type faultCase struct {
	Kind   string // "source-fault"
	Symbol string
	Reader string
	Hybrid bool
	Hints  string
	FailAt int
	Sticky bool
	NilRow bool
}

func runSourceFaults() {
	type sy struct {
		name   string
		m      *gozxing.BitMatrix
		reader string
	}
	var syms []sy
	for _, w := range oneDWriters {
		m, err := w.mk().Encode(w.contents[0], w.f, 0, 12, nil)
		if err != nil {
			panic("harness: " + err.Error())
		}
		syms = append(syms, sy{w.name, m, w.name})
		syms = append(syms, sy{w.name + "-sideways", turn(m, 1), w.name})
	}
	syms = append(syms,
		sy{"QR", bareSymbolPadded(fmtQR(), 4, 3), "QR"}, sy{"QR", bareSymbolPadded(fmtQR(), 4, 3), "QRMulti"},
		sy{"QR-small", bareSymbolPadded(fmtQR(), 4, 1), "QR"},
		sy{"DM", bareSymbolPadded(fmtDM(), 3, 4), "DataMatrix"}, sy{"blank", fill(50, 50, 0, nil), "Aztec"}, sy{"blank", fill(30, 30, 0, nil), "QR"},
		sy{"stripes", fill(60, 45, 3, nil), "RSS14"}, sy{"stripes", fill(60, 45, 3, nil), "EAN13"})
	type job struct {
		s      int
		hybrid bool
		mask   int
	}
	var jobs []job
	for s := range syms {
		for _, hy := range []bool{true, false} {
			for _, mask := range []int{0, 2, 4} {
				jobs = append(jobs, job{s, hy, mask})
			}
		}
	}
	chk.Range(fmt.Sprintf("environment faults: %d (symbol, reader) pairs x {hybrid, global} x hints {none, TRY_HARDER, ALSO_INVERTED} behind a LuminanceSource whose k-th GetRow / Crop / Rotate call fails, for EVERY k up to the number of calls of the fault-free run, single and sticky failures, failing rows returned as nil and as the caller's buffer; and behind a Binarizer whose k-th GetBlackRow / GetBlackMatrix call fails: the reader returns (result xor error), never panics", len(syms)), len(jobs),
		func(i int) string { return fmt.Sprint(syms[jobs[i].s].name, jobs[i]) },
		func(l *mc.Local, i int) {
			j := jobs[i]
			s := syms[j.s]
			var ir imgReader
			for _, r := range imgReaders {
				if r.name == s.reader {
					ir = r
				}
			}
			hints, hs := hintSubset(j.mask)
			g := grayOf(s.m)
			one := func(failAt int, sticky, nilRow bool) (calls int, tripped bool) {
				fs := &faultSource{LuminanceSource: gozxing.NewLuminanceSourceFromImage(g), calls: new(int), failAt: failAt, sticky: sticky, nilRow: nilRow, tripped: new(bool)}
				var bmp *gozxing.BinaryBitmap
				if j.hybrid {
					bmp, _ = gozxing.NewBinaryBitmap(gozxing.NewHybridBinarizer(fs))
				} else {
					bmp, _ = gozxing.NewBinaryBitmap(gozxing.NewGlobalHistgramBinarizer(fs))
				}
				var res interface{}
				var err error
				dec := ir.mk()
				l.Beat("")
				pm, site := mc.Guard(func() { res, err = dec(bmp, hints) })
				cs := faultCase{"source-fault", s.name, s.reader, j.hybrid, hs, failAt, sticky, nilRow}
				rc := rcase{Kind: "source-fault", Target: ir.name, W: s.m.GetWidth(), H: s.m.GetHeight(), Hints: hs, Extra: fmt.Sprintf("%+v", cs)}
				outcome(l, "source-fault/"+ir.name, pm, site, res, err, rc, false)
				return *fs.calls, *fs.tripped
			}
			oneB := func(failAt int, sticky bool) (calls int, tripped bool) {
				src := gozxing.NewLuminanceSourceFromImage(g)
				var inner gozxing.Binarizer
				if j.hybrid {
					inner = gozxing.NewHybridBinarizer(src)
				} else {
					inner = gozxing.NewGlobalHistgramBinarizer(src)
				}
				fb := &faultBinarizer{Binarizer: inner, calls: new(int), failAt: failAt, sticky: sticky, tripped: new(bool)}
				bmp, _ := gozxing.NewBinaryBitmap(fb)
				var res interface{}
				var err error
				dec := ir.mk()
				l.Beat("")
				pm, site := mc.Guard(func() { res, err = dec(bmp, hints) })
				cs := faultCase{"binarizer-fault", s.name, s.reader, j.hybrid, hs, failAt, sticky, false}
				rc := rcase{Kind: "source-fault", Target: ir.name, W: s.m.GetWidth(), H: s.m.GetHeight(), Hints: hs, Extra: fmt.Sprintf("%+v", cs)}
				outcome(l, "binarizer-fault/"+ir.name, pm, site, res, err, rc, false)
				return *fb.calls, *fb.tripped
			}
			nb, _ := oneB(0, false)
			for k := 1; k <= nb; k++ {
				for _, sticky := range []bool{false, true} {
					if _, tripped := oneB(k, sticky); tripped {
						l.Count("runs with an injected binariser fault", 1)
					}
				}
			}
			n, _ := one(0, false, false)
			l.Count("source calls in fault-free runs", int64(n))
			for k := 1; k <= n; k++ {
				for _, sticky := range []bool{false, true} {
					for _, nilRow := range []bool{true, false} {
						if _, tripped := one(k, sticky, nilRow); tripped {
							l.Count("runs with an injected source fault", 1)
						}
					}
				}
			}
		})
}

func fmtQR() *gozxing.BitMatrix {
	return bareSymbol(qrcode.NewQRCodeWriter(), gozxing.BarcodeFormat_QR_CODE, "HELLO source faults")
}

func fmtDM() *gozxing.BitMatrix {
	return bareSymbol(datamatrix.NewDataMatrixWriter(), gozxing.BarcodeFormat_DATA_MATRIX, "HELLO")
}

// bareSymbolPadded scales a bare symbol and adds a quiet zone of q modules.
func bareSymbolPadded(m *gozxing.BitMatrix, q, scale int) *gozxing.BitMatrix {
	w, h := m.GetWidth(), m.GetHeight()
	o, _ := gozxing.NewBitMatrix((w+2*q)*scale, (h+2*q)*scale)
	for y := 0; y < h; y++ {
		for x := 0; x < w; x++ {
			if m.Get(x, y) {
				o.SetRegion((x+q)*scale, (y+q)*scale, scale, scale)
			}
		}
	}
	return o
}
