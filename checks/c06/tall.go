package main

// Tall and wide images. The row readers choose their scan lines from the image height
// (height>>5 apart, height>>8 apart when asked to try harder) and the 2-D detectors their skip
// distances from both dimensions, so the scan arithmetic has residue classes that small images
// never reach. EVERY height 1..1100 (thorough 1..2200) at a fixed small width, and every width in
// the same range at a fixed small height, is given to every image reader, blank and striped and
// with a Code 128 symbol in the top rows only, without hints and with TRY_HARDER.

import (
	"fmt"

	"verif/mc"

	"github.com/makiuchi-d/gozxing"
	"github.com/makiuchi-d/gozxing/oned"
)

func runTall() {
	maxN := chk.Pick(1100, 2200)
	c128, _ := oned.NewCode128Writer().Encode("AB", gozxing.BarcodeFormat_CODE_128, 0, 12, nil)
	type job struct {
		w, h int
		kind int
	}
	var jobs []job
	for n := 1; n <= maxN; n++ {
		jobs = append(jobs, job{8, n, 0}, job{8, n, 3}, job{c128.GetWidth(), n, 5})
		if n > 48 {
			jobs = append(jobs, job{n, 8, 0}, job{n, 8, 3}, job{n, 3, 5})
		}
	}
	chk.Range(fmt.Sprintf("16 image readers on EVERY height 1..%d at width 8 (white, striped) and at the width of a Code 128 symbol drawn into the top 12 rows only, and every width 49..%d at height 8 / 3 likewise; hints {none, TRY_HARDER}", maxN, maxN), len(jobs),
		func(i int) string { return fmt.Sprint(jobs[i]) },
		func(l *mc.Local, i int) {
			j := jobs[i]
			var sym *gozxing.BitMatrix
			if j.kind == 5 {
				sym = c128
			}
			readImageAll(l, fill(j.w, j.h, j.kind, sym), []int{0, 2}, fmt.Sprint("tall fill", j.kind), "")
		})
}

var _ = mc.Guard
