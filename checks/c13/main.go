// C13 — smallest adequate symbol chosen; size hints and capacity limits honoured.
//
// QR: every content length of every (mode, level) is encoded by the library (forced mask, the
// mask does not take part in the version choice) and the chosen version is compared with
// min{v : n <= Capacity(v, level, mode)} from the independent reference verif/ref/qr; forced
// versions are accepted iff the content fits and then used exactly; header variants (ECI, FNC1)
// are checked against the reference bit-stream length. Data Matrix: SymbolInfo_Lookup for every
// codeword count x shape x (min,max) pair against the first admissible row of verif/ref/dm's
// table, and the writer's output size for digit strings of every codeword count.
package main

import (
	"fmt"
	"sort"
	"strings"

	"verif/mc"
	"verif/ref/dm"
	"verif/ref/qr"

	"github.com/makiuchi-d/gozxing"
	"github.com/makiuchi-d/gozxing/datamatrix"
	dmenc "github.com/makiuchi-d/gozxing/datamatrix/encoder"
	"github.com/makiuchi-d/gozxing/qrcode"
	qrdec "github.com/makiuchi-d/gozxing/qrcode/decoder"
	qrenc "github.com/makiuchi-d/gozxing/qrcode/encoder"
)

var chk *mc.Check

// ------------------------------------------------------------------ QR

type levelDef struct {
	name string
	ref  qr.Level
	lib  qrdec.ErrorCorrectionLevel
}

var levels = []levelDef{
	{"L", qr.L, qrdec.ErrorCorrectionLevel_L},
	{"M", qr.M, qrdec.ErrorCorrectionLevel_M},
	{"Q", qr.Q, qrdec.ErrorCorrectionLevel_Q},
	{"H", qr.H, qrdec.ErrorCorrectionLevel_H},
}

type modeDef struct {
	name    string
	ref     qr.Mode
	lib     *qrdec.Mode
	unit    string // one character of the mode
	charset string // CHARACTER_SET hint needed to make the library choose the mode ("" = none)
}

var modes = []modeDef{
	{"numeric", qr.Numeric, qrdec.Mode_NUMERIC, "7", ""},
	{"alphanumeric", qr.Alphanumeric, qrdec.Mode_ALPHANUMERIC, "A", ""},
	{"byte", qr.Byte, qrdec.Mode_BYTE, "a", ""}, // no hint: no ECI header, one byte per character
	{"kanji", qr.Kanji, qrdec.Mode_KANJI, "漢", "Shift_JIS"},
}

// qrCase is one library call (also the replay record).
type qrCase struct {
	Kind    string // "auto" | "forced" | "writer" | "header"
	Mode    int
	Level   int
	N       int    // content length in characters of the mode
	Forced  int    // QR_VERSION hint, -1 = none
	Spell   string `json:",omitempty"` // when set, the hint is the STRING fmt.Sprintf(Spell, Forced): "%d", "%02d", "%03d", "+%d"
	Header  string // "" | "eci" | "eci-euro" | "gs1" | "eci+gs1"
	Margin  int    // writer only; -1 = default
	ModeS   string `json:",omitempty"`
	LevelS  string `json:",omitempty"`
	Comment string `json:",omitempty"`
}

func (c qrCase) String() string {
	return fmt.Sprintf("%s mode=%s level=%s n=%d forced=%d%s header=%q margin=%d", c.Kind, modes[c.Mode].name, levels[c.Level].name, c.N, c.Forced, map[bool]string{true: " as string " + c.Spell, false: ""}[c.Spell != ""], c.Header, c.Margin)
}

// refMinVersion: lowest version that holds n characters of mode m at level l with the given
// extra header, 0 if none. For the plain case this is qr.Capacity; with a header the reference
// bit stream (ECI header + mode + count + data) must fit the data codewords.
func refFits(c qrCase, v int) bool {
	m, l := modes[c.Mode], levels[c.Level]
	switch c.Header {
	case "":
		return c.N <= qr.Capacity(v, l.ref, m.ref)
	case "eci", "eci-euro":
		bits, err := qr.SegmentBits([]qr.Segment{{Mode: m.ref, Data: refData(m, c.N), ECI: 1}}, v)
		if err != nil { // count does not fit its indicator
			return false
		}
		return len(bits) <= 8*qr.DataCodewords(v, l.ref)
	case "eci+gs1": // both: ECI header, then the FNC1 indicator, then the segment
		bits, err := qr.SegmentBits([]qr.Segment{{Mode: m.ref, Data: refData(m, c.N), ECI: 1}}, v)
		if err != nil {
			return false
		}
		return 4+len(bits) <= 8*qr.DataCodewords(v, l.ref)
	case "gs1": // FNC1 in first position: one more 4-bit mode indicator (0101)
		bits, err := qr.SegmentBits([]qr.Segment{{Mode: m.ref, Data: refData(m, c.N), ECI: -1}}, v)
		if err != nil {
			return false
		}
		return 4+len(bits) <= 8*qr.DataCodewords(v, l.ref)
	}
	panic("header")
}

func refData(m modeDef, n int) []byte {
	if m.ref == qr.Kanji {
		return []byte(strings.Repeat("\x8a\xbf", n))
	}
	return []byte(strings.Repeat(m.unit, n))
}

func refMinVersion(c qrCase) int {
	for v := 1; v <= 40; v++ {
		if refFits(c, v) {
			return v
		}
	}
	return 0
}

func qrHints(c qrCase) map[gozxing.EncodeHintType]interface{} {
	h := map[gozxing.EncodeHintType]interface{}{gozxing.EncodeHintType_QR_MASK_PATTERN: 0}
	m := modes[c.Mode]
	if m.charset != "" {
		h[gozxing.EncodeHintType_CHARACTER_SET] = m.charset
	}
	if c.Header == "eci" {
		h[gozxing.EncodeHintType_CHARACTER_SET] = "ISO-8859-1"
	}
	if c.Header == "eci-euro" {
		// the euro sign: ONE byte (0xA4) in ISO-8859-15, three bytes in the UTF-8 Go string
		h[gozxing.EncodeHintType_CHARACTER_SET] = "ISO-8859-15"
	}
	if c.Header == "gs1" {
		h[gozxing.EncodeHintType_GS1_FORMAT] = true
	}
	if c.Header == "eci+gs1" {
		h[gozxing.EncodeHintType_CHARACTER_SET] = "ISO-8859-1"
		h[gozxing.EncodeHintType_GS1_FORMAT] = "true"
	}
	if c.Forced >= 0 {
		h[gozxing.EncodeHintType_QR_VERSION] = c.Forced
		if c.Spell != "" {
			h[gozxing.EncodeHintType_QR_VERSION] = fmt.Sprintf(c.Spell, c.Forced)
		}
	}
	return h
}

// runQR executes one case on the library and evaluates the oracle.
func runQR(l *mc.Local, c qrCase) {
	m, lv := modes[c.Mode], levels[c.Level]
	content := strings.Repeat(m.unit, c.N)
	if c.Header == "eci-euro" {
		content = strings.Repeat("€", c.N)
	}
	hints := qrHints(c)
	rc := c
	rc.ModeS, rc.LevelS = m.name, lv.name
	want := refMinVersion(c) // 0 = does not fit any version
	var got int              // 0 = refused
	var gotMode *qrdec.Mode
	var err error
	l.Beat(c.String())
	if c.Kind == "writer" {
		hints[gozxing.EncodeHintType_ERROR_CORRECTION] = lv.lib
		margin := 4
		if c.Margin >= 0 {
			hints[gozxing.EncodeHintType_MARGIN] = c.Margin
			margin = c.Margin
		}
		var bm *gozxing.BitMatrix
		pm, site := mc.Guard(func() { bm, err = qrcode.NewQRCodeWriter().Encode(content, gozxing.BarcodeFormat_QR_CODE, 0, 0, hints) })
		l.Count("evaluations", 1)
		if pm != "" {
			chk.Violation("C13/panic/"+site, fmt.Sprintf("panic %q in QRCodeWriter.Encode %v", pm, c), rc)
			return
		}
		if bm == nil {
			if want != 0 {
				chk.Violation("C13/qr/writer-dimension", fmt.Sprintf("%v: refused (%v) although version %d holds it", c, err, want), rc)
			}
			return
		}
		if want == 0 {
			chk.Violation("C13/qr/cap40+1-accepted", fmt.Sprintf("%v: writer returned a %dx%d matrix although the content exceeds version 40", c, bm.GetWidth(), bm.GetHeight()), rc)
			return
		}
		wd := 17 + 4*want + 2*margin
		l.Distinct("outcomes", fmt.Sprint("writer-dim/", bm.GetWidth()))
		l.Distinct("nontrivial", "w/"+c.String())
		if bm.GetWidth() != wd || bm.GetHeight() != wd {
			chk.Violation("C13/qr/writer-dimension", fmt.Sprintf("%v: matrix %dx%d, expected %d = 17+4*%d+2*%d", c, bm.GetWidth(), bm.GetHeight(), wd, want, margin), rc)
		}
		return
	}
	var code *qrenc.QRCode
	pm, site := mc.Guard(func() { code, err = qrenc.Encoder_encode(content, lv.lib, hints) })
	l.Count("evaluations", 1)
	if pm != "" {
		chk.Violation("C13/panic/"+site, fmt.Sprintf("panic %q in Encoder_encode %v", pm, c), rc)
		return
	}
	if code != nil && err == nil {
		got = code.GetVersion().GetVersionNumber()
		gotMode = code.GetMode()
		if gotMode != m.lib {
			// premise of the case (one segment of the intended mode) does not hold: harness error
			chk.Violation("C13/harness/mode", fmt.Sprintf("%v: library used mode %v, the case needs %s", c, gotMode, m.name), rc)
			return
		}
		if d := code.GetMatrix().GetWidth(); d != 17+4*got {
			chk.Violation("C13/qr/matrix-dimension", fmt.Sprintf("%v: version %d reported, matrix width %d", c, got, d), rc)
		}
	}
	l.Distinct("outcomes", fmt.Sprint(c.Kind, "/v", got))
	if c.Forced >= 0 {
		// accepted iff the content fits the forced version, and then that version is used exactly
		fits := c.Forced >= 1 && c.Forced <= 40 && refFits(c, c.Forced)
		l.Distinct("nontrivial", "f/"+c.String())
		switch {
		case fits && got == 0:
			chk.Violation("C13/qr/forced-version/refused-though-fits", fmt.Sprintf("%v: refused (%v) although version %d holds %d %s characters at level %s", c, err, c.Forced, c.N, m.name, lv.name), rc)
		case !fits && got != 0:
			chk.Violation("C13/qr/forced-version/accepted-though-too-small", fmt.Sprintf("%v: version %d symbol returned although the content does not fit version %d (smallest adequate: %d)", c, got, c.Forced, want), rc)
		case fits && got != c.Forced:
			chk.Violation("C13/qr/forced-version/other-version-used", fmt.Sprintf("%v: version %d used instead of the forced %d", c, got, c.Forced), rc)
		}
		return
	}
	l.Distinct("nontrivial", "a/"+c.String())
	switch {
	case want == 0 && got != 0:
		chk.Violation("C13/qr/cap40+1-accepted", fmt.Sprintf("%v: version %d symbol returned although the content exceeds the capacity of version 40", c, got), rc)
	case want != 0 && got == 0:
		key := "C13/qr/refused-though-fits"
		chk.Violation(key, fmt.Sprintf("%v: refused (%v) although version %d holds it", c, err, want), rc)
	case want != got:
		key := "C13/qr/not-smallest"
		if got < want {
			key = "C13/qr/too-small-version"
		}
		if c.Header != "" {
			key += "/" + c.Header
		}
		chk.Violation(key, fmt.Sprintf("%v: version %d chosen, smallest adequate version is %d (capacity(%d)=%d, capacity(%d)=%d)", c, got, want,
			want, qr.Capacity(want, lv.ref, m.ref), got, qr.Capacity(got, lv.ref, m.ref)), rc)
	}
}

func runQRCases(name string, cases []qrCase, chunk int) {
	n := (len(cases) + chunk - 1) / chunk
	chk.Range(fmt.Sprintf("%s [%d library calls]", name, len(cases)), n,
		func(i int) string { return cases[i*chunk].String() },
		func(l *mc.Local, i int) {
			for k := i * chunk; k < (i+1)*chunk && k < len(cases); k++ {
				runQR(l, cases[k])
			}
		})
	if len(cases) > 0 {
		chk.Sample(name, cases[len(cases)/2])
	}
}

// interleave orders the cases so that cheap (short) and expensive (long) ones alternate and the
// workers finish together; the set of cases is unchanged.
func byCost(cases []qrCase) []qrCase {
	sort.SliceStable(cases, func(a, b int) bool { return cases[a].N > cases[b].N })
	return cases
}

func qrSweep() {
	maxV := chk.Pick(10, 40)
	var cases []qrCase
	for mi, m := range modes {
		for li, lv := range levels {
			top := qr.Capacity(maxV, lv.ref, m.ref)
			if maxV == 40 {
				top++ // one beyond version 40: must be refused
			}
			for n := 1; n <= top; n++ {
				cases = append(cases, qrCase{Kind: "auto", Mode: mi, Level: li, N: n, Forced: -1, Margin: -1})
			}
		}
	}
	runQRCases(fmt.Sprintf("QR automatic version: every content length 1..capacity(%d)%s x 4 modes x 4 levels", maxV, map[bool]string{true: "+1", false: ""}[maxV == 40]), byCost(cases), 8)
}

func qrBoundaries() {
	var cases, wcases []qrCase
	for mi, m := range modes {
		for li, lv := range levels {
			for v := 1; v <= 40; v++ {
				c := qr.Capacity(v, lv.ref, m.ref)
				for _, n := range []int{c, c + 1} {
					cases = append(cases, qrCase{Kind: "auto", Mode: mi, Level: li, N: n, Forced: -1, Margin: -1})
					for _, mg := range []int{-1, 0, 1} {
						wcases = append(wcases, qrCase{Kind: "writer", Mode: mi, Level: li, N: n, Forced: -1, Margin: mg})
					}
				}
			}
		}
	}
	runQRCases("QR automatic version: n = cap(v), cap(v)+1 of all 640 (version, level, mode) triples", byCost(cases), 4)
	runQRCases("QR writer output dimension 17+4v+2*margin at 0x0: the same boundaries x margin {default, 0, 1}", byCost(wcases), 4)
}

func qrForced() {
	var cases []qrCase
	for mi, m := range modes {
		for li, lv := range levels {
			capv := func(v int) int {
				if v < 1 {
					return 0
				}
				if v > 40 {
					v = 40
				}
				return qr.Capacity(v, lv.ref, m.ref)
			}
			for v := 0; v <= 41; v++ {
				set := map[int]bool{}
				for _, n := range []int{1, capv(v) - 1, capv(v), capv(v) + 1, capv(v - 1), capv(v-1) + 1, capv(v + 1), capv(v+1) + 1, capv(v - 2)} {
					if n >= 1 && !set[n] {
						set[n] = true
						cases = append(cases, qrCase{Kind: "forced", Mode: mi, Level: li, N: n, Forced: v, Margin: -1})
					}
				}
			}
		}
	}
	runQRCases("QR forced version 0..41 x 4 modes x 4 levels x n in {1, cap(v)-1, cap(v), cap(v)+1, cap(v-2), cap(v-1), cap(v-1)+1, cap(v+1), cap(v+1)+1}", byCost(cases), 4)
	// the hint as a STRING (the documented alternative), in every spelling of a decimal integer:
	// plain, zero-padded to two and three digits, with a plus sign. "010" is ten, "08" is eight.
	cases = nil
	for v := 1; v <= 40; v++ {
		for _, sp := range []string{"%d", "%02d", "%03d", "+%d"} {
			for li := range []int{0, 3} {
				cp := qr.Capacity(v, levels[li].ref, qr.Numeric)
				cm := 0
				if v > 1 {
					cm = qr.Capacity(v-1, levels[li].ref, qr.Numeric)
				}
				for _, n := range []int{cm + 1, cp, cp + 1} {
					cases = append(cases, qrCase{Kind: "forced", Mode: 0, Level: li, N: n, Forced: v, Margin: -1, Spell: sp})
				}
			}
		}
	}
	runQRCases("QR forced version 1..40 given as a STRING {plain, zero-padded to 2 and 3 digits, with a plus sign} x levels {L, M} x n in {cap(v-1)+1, cap(v), cap(v)+1}, numeric", byCost(cases), 8)
}

// header variants: the library adds an ECI header (12 bits) in byte mode when a character set is
// hinted, and an FNC1 mode indicator (4 bits) with GS1_FORMAT; the smallest version must account
// for them. Boundaries are located with the reference bit stream.
func qrHeaders() {
	var cases []qrCase
	add := func(mi, li int, header string) {
		for v := 1; v <= 40; v++ {
			// largest n that fits version v with this header
			c := qrCase{Kind: "header", Mode: mi, Level: li, Forced: -1, Margin: -1, Header: header}
			lo := 0
			for n := qr.Capacity(v, levels[li].ref, modes[mi].ref); n >= 1; n-- {
				c.N = n
				if refFits(c, v) {
					lo = n
					break
				}
			}
			for _, n := range []int{lo, lo + 1} {
				if n >= 1 {
					c.N = n
					cases = append(cases, c)
					f := c
					f.Kind, f.Forced = "forced", v
					cases = append(cases, f)
				}
			}
		}
	}
	for li := range levels {
		add(2, li, "eci")
		add(2, li, "eci-euro")
		add(2, li, "eci+gs1")
		for mi := 0; mi < 4; mi++ { // Kanji too: the indicator precedes whatever mode the content gets
			add(mi, li, "gs1")
		}
	}
	runQRCases("QR with ECI header (byte, ISO-8859-1 hint; and ISO-8859-15 with the euro sign: one byte in the symbol, three in the UTF-8 string) and FNC1 header (GS1, numeric/alphanumeric/byte/Kanji; and ECI + FNC1 together): largest fitting n and n+1 per version x level, automatic and forced", byCost(cases), 4)
}

// published figures of ISO/IEC 18004 Table 7, asserted literally against the library.
func qrPublished() {
	type fig struct {
		v     int
		level int
		caps  [4]int // numeric, alphanumeric, byte, kanji
	}
	figs := []fig{
		{1, 0, [4]int{41, 25, 17, 10}},
		{1, 3, [4]int{17, 10, 7, 4}},
		{2, 0, [4]int{77, 47, 32, 20}},
		{10, 1, [4]int{513, 311, 213, 131}},
		{27, 2, [4]int{1933, 1172, 805, 496}},
		{40, 0, [4]int{7089, 4296, 2953, 1817}},
		{40, 1, [4]int{5596, 3391, 2331, 1435}},
		{40, 2, [4]int{3993, 2420, 1663, 1024}},
		{40, 3, [4]int{3057, 1852, 1273, 784}},
	}
	type job struct {
		f  fig
		mi int
	}
	var jobs []job
	for _, f := range figs {
		for mi := range modes {
			jobs = append(jobs, job{f, mi})
		}
	}
	chk.Range("QR published capacities (Table 7 literals for 1-L, 1-H, 2-L, 10-M, 27-Q, 40-L/M/Q/H x 4 modes): cap -> that version, cap+1 -> next version or refused", len(jobs),
		func(i int) string { return fmt.Sprint(jobs[i]) },
		func(l *mc.Local, i int) {
			j := jobs[i]
			m, lv := modes[j.mi], levels[j.f.level]
			capN := j.f.caps[j.mi]
			if r := qr.Capacity(j.f.v, lv.ref, m.ref); r != capN {
				chk.Violation("C13/harness/ref-capacity", fmt.Sprintf("reference capacity(%d,%s,%s)=%d differs from the published %d", j.f.v, lv.name, m.name, r, capN), nil)
			}
			for _, d := range []int{0, 1} {
				c := qrCase{Kind: "auto", Mode: j.mi, Level: j.f.level, N: capN + d, Forced: -1, Margin: -1}
				rc := c
				rc.ModeS, rc.LevelS, rc.Comment = m.name, lv.name, "published"
				var code *qrenc.QRCode
				var err error
				pm, site := mc.Guard(func() { code, err = qrenc.Encoder_encode(strings.Repeat(m.unit, c.N), lv.lib, qrHints(c)) })
				l.Count("evaluations", 1)
				if pm != "" {
					chk.Violation("C13/panic/"+site, fmt.Sprintf("panic %q in %v", pm, c), rc)
					continue
				}
				got := 0
				if code != nil && err == nil {
					got = code.GetVersion().GetVersionNumber()
				}
				want := j.f.v + d
				if want > 40 {
					want = 0
				}
				l.Distinct("nontrivial", "p/"+c.String())
				if got != want {
					chk.Violation("C13/qr/published-capacity", fmt.Sprintf("%d %s characters at level %s: version %d (0 = refused), the published capacity of %d-%s is %d so version %d (0 = refused) is expected", c.N, m.name, lv.name, got, j.f.v, lv.name, capN, want), rc)
				}
			}
		})
}

// ------------------------------------------------------------------ Data Matrix

type dmDim struct{ W, H int } // W < 0: nil

func (d dmDim) lib() *gozxing.Dimension {
	if d.W < 0 {
		return nil
	}
	r, _ := gozxing.NewDimension(d.W, d.H)
	return r
}
func (d dmDim) String() string {
	if d.W < 0 {
		return "nil"
	}
	return fmt.Sprintf("%dx%d", d.W, d.H)
}

var shapeNames = []string{"none", "square", "rectangle"}
var shapes = []dmenc.SymbolShapeHint{dmenc.SymbolShapeHint_FORCE_NONE, dmenc.SymbolShapeHint_FORCE_SQUARE, dmenc.SymbolShapeHint_FORCE_RECTANGLE}

// dims: nil, the 30 symbol sizes (width x height), and six sizes that are no symbol size.
func dmDims() []dmDim {
	d := []dmDim{{-1, -1}}
	for _, s := range dm.Symbols {
		d = append(d, dmDim{s.Cols, s.Rows})
	}
	d = append(d, dmDim{0, 0}, dmDim{9, 9}, dmDim{17, 9}, dmDim{145, 145}, dmDim{1000, 7}, dmDim{7, 1000})
	// bounds far beyond the largest symbol: 8-, 16- and 32-bit marks (a bound is an int, not a symbol size)
	d = append(d, dmDim{255, 255}, dmDim{256, 256}, dmDim{300, 300}, dmDim{144, 399}, dmDim{512, 144}, dmDim{65535, 65535}, dmDim{65536, 65536}, dmDim{65580, 65580}, dmDim{1<<31 - 1, 1<<31 - 1}, dmDim{1 << 31, 1 << 31}, dmDim{1<<63 - 1, 1<<63 - 1}, dmDim{1<<63 - 1, 20}, dmDim{1<<63 - 2, 1<<63 - 2})
	// bounds whose Dimension.HashCode (width*32713 + height) or Java-style 31*width + height equals
	// that of a listed size although they admit different symbols
	d = append(d, dmDim{11, 12 + 32713}, dmDim{31, 32 + 32713}, dmDim{17, 8 + 32713}, dmDim{11, 12 + 31}, dmDim{31, 32 + 31}, dmDim{143, 144 + 32713})
	// one-directional bounds: one coordinate zero (no constraint on that axis as a minimum, no symbol
	// at all as a maximum), or one
	d = append(d, dmDim{20, 0}, dmDim{0, 20}, dmDim{40, 0}, dmDim{0, 40}, dmDim{33, 0}, dmDim{0, 9}, dmDim{144, 0}, dmDim{0, 144}, dmDim{145, 0}, dmDim{1, 0}, dmDim{0, 1}, dmDim{10, 1}, dmDim{1, 10})
	return d
}

// refLookup: first row of the reference table (the standard's capacity order) with capacity >= n
// that has the requested shape and lies inside the size bounds: width and height each >= the
// minimum's and <= the maximum's (the library's documented meaning of MIN_SIZE / MAX_SIZE).
func refLookup(n, shape int, min, max dmDim) (dm.Symbol, bool) {
	for _, s := range dm.Symbols {
		if shape == 1 && s.Rect || shape == 2 && !s.Rect {
			continue
		}
		if min.W >= 0 && (s.Cols < min.W || s.Rows < min.H) {
			continue
		}
		if max.W >= 0 && (s.Cols > max.W || s.Rows > max.H) {
			continue
		}
		if s.DataCW >= n {
			return s, true
		}
	}
	return dm.Symbol{}, false
}

type dmCase struct {
	Kind     string // "dm-lookup" | "dm-writer" | "dm-hinted"
	N        int    // data codewords
	Shape    int
	Min, Max dmDim
	Fail     bool
	Family   string `json:",omitempty"`
}

func (c dmCase) String() string {
	return fmt.Sprintf("%s n=%d shape=%s min=%v max=%v fail=%v %s", c.Kind, c.N, shapeNames[c.Shape], c.Min, c.Max, c.Fail, c.Family)
}

func dmLookupOne(l *mc.Local, c dmCase) {
	var si *dmenc.SymbolInfo
	var err error
	pm, site := mc.Guard(func() { si, err = dmenc.SymbolInfo_Lookup(c.N, shapes[c.Shape], c.Min.lib(), c.Max.lib(), c.Fail) })
	l.Count("evaluations", 1)
	if pm != "" {
		chk.Violation("C13/panic/"+site, fmt.Sprintf("panic %q in SymbolInfo_Lookup %v", pm, c), c)
		return
	}
	want, ok := refLookup(c.N, c.Shape, c.Min, c.Max)
	key := "C13/dm/lookup/" + shapeNames[c.Shape]
	if !ok {
		if si != nil {
			chk.Violation(key+"/not-refused", fmt.Sprintf("%v: %dx%d (capacity %d) returned, no symbol is admissible", c, si.GetSymbolWidth(), si.GetSymbolHeight(), si.GetDataCapacity()), c)
		} else if c.Fail && err == nil {
			chk.Violation(key+"/no-error", fmt.Sprintf("%v: fail=true, no admissible symbol, but neither symbol nor error returned", c), c)
		} else if !c.Fail && err != nil {
			chk.Violation(key+"/error-with-fail-false", fmt.Sprintf("%v: fail=false must give nil without error, got %v", c, err), c)
		}
		if c.Fail {
			l.DistinctU("nontrivial", dmClass(c, dm.Symbol{}))
		}
		return
	}
	if c.Fail {
		l.DistinctU("nontrivial", dmClass(c, want))
	}
	if si == nil {
		chk.Violation(key+"/refused", fmt.Sprintf("%v: refused (%v), first admissible symbol is %dx%d (capacity %d)", c, err, want.Cols, want.Rows, want.DataCW), c)
		return
	}
	if si.GetSymbolWidth() != want.Cols || si.GetSymbolHeight() != want.Rows || si.GetDataCapacity() != want.DataCW {
		chk.Violation(key, fmt.Sprintf("%v: %dx%d (capacity %d) chosen, first admissible symbol in the standard's order is %dx%d (capacity %d)", c,
			si.GetSymbolWidth(), si.GetSymbolHeight(), si.GetDataCapacity(), want.Cols, want.Rows, want.DataCW), c)
	}
}

// dmClass packs (shape, min, max, selected row) into one word: the decision class of a lookup.
func dmClass(c dmCase, s dm.Symbol) uint64 {
	f := func(d dmDim) uint64 { return uint64(d.W+1)<<10 | uint64(d.H+1) }
	return uint64(c.Shape)<<62 | f(c.Min)<<40 | f(c.Max)<<18 | uint64(s.Cols)<<9 | uint64(s.Rows)
}

func dmLookups() {
	dims := dmDims()
	type job struct{ shape, min int }
	var jobs []job
	for s := range shapes {
		for i := range dims {
			jobs = append(jobs, job{s, i})
		}
	}
	chk.Range(fmt.Sprintf("DM SymbolInfo_Lookup: codewords 0..1560 x 3 shapes x %d x %d (min,max) pairs over {nil, 30 symbol sizes, 25 off-list sizes incl. 255/256/300/65535/65536/2^31-1/2^31/MaxInt and sizes whose hash code collides with a listed size} x fail {true,false} [%d lookups]",
		len(dims), len(dims), 1561*3*len(dims)*len(dims)*2), len(jobs),
		func(i int) string { return fmt.Sprint(jobs[i]) },
		func(l *mc.Local, i int) {
			j := jobs[i]
			for _, max := range dims {
				for n := 0; n <= 1560; n++ {
					dmLookupOne(l, dmCase{Kind: "dm-lookup", N: n, Shape: j.shape, Min: dims[j.min], Max: max, Fail: true})
					dmLookupOne(l, dmCase{Kind: "dm-lookup", N: n, Shape: j.shape, Min: dims[j.min], Max: max, Fail: false})
				}
			}
		})
	chk.Sample("dm-lookup", dmCase{Kind: "dm-lookup", N: 23, Shape: 0, Min: dmDim{-1, -1}, Max: dmDim{32, 32}, Fail: true})
	// the statement's literal: 1558 codewords for 144x144
	last := dm.Symbols[len(dm.Symbols)-1]
	if last.Rows != 144 || last.Cols != 144 || last.DataCW != 1558 {
		chk.Violation("C13/harness/ref-dm-table", fmt.Sprintf("reference table ends with %v", last), nil)
	}
	si, _ := dmenc.SymbolInfo_Lookup(1558, dmenc.SymbolShapeHint_FORCE_NONE, nil, nil, false)
	si2, _ := dmenc.SymbolInfo_Lookup(1559, dmenc.SymbolShapeHint_FORCE_NONE, nil, nil, false)
	if si == nil || si.GetSymbolWidth() != 144 || si.GetSymbolHeight() != 144 || si2 != nil {
		chk.Violation("C13/dm/published-capacity", "1558 codewords must select 144x144 and 1559 must be refused", dmCase{Kind: "dm-lookup", N: 1558, Min: dmDim{-1, -1}, Max: dmDim{-1, -1}})
	}
}

// dmWriterOne: a string of 2n digits is n data codewords (digit pairs) in every conforming
// encoder (it cannot be shorter: no encodation packs more than two digits per codeword); the
// writer's output at 0x0 must have exactly the size of the first admissible row.
func dmWriterOne(l *mc.Local, c dmCase) {
	content := strings.Repeat("42", c.N)
	if c.Family == "macro05" || c.Family == "macro06" {
		// a macro envelope costs ONE codeword for its nine header and trailer characters: N codewords
		// hold the envelope and 2(N-1) digits - more characters per codeword than any plain text
		content = "[)>\x1e" + c.Family[5:] + "\x1d" + strings.Repeat("42", c.N-1) + "\x1e\x04"
	}
	hints := map[gozxing.EncodeHintType]interface{}{}
	if c.Shape != 0 || c.Family == "explicit-shape" {
		hints[gozxing.EncodeHintType_DATA_MATRIX_SHAPE] = shapes[c.Shape]
	}
	if c.Min.W >= 0 {
		hints[gozxing.EncodeHintType_MIN_SIZE] = c.Min.lib()
	}
	if c.Max.W >= 0 {
		hints[gozxing.EncodeHintType_MAX_SIZE] = c.Max.lib()
	}
	var bm *gozxing.BitMatrix
	var err error
	l.Beat(c.String())
	pm, site := mc.Guard(func() {
		bm, err = datamatrix.NewDataMatrixWriter().Encode(content, gozxing.BarcodeFormat_DATA_MATRIX, 0, 0, hints)
	})
	l.Count("evaluations", 1)
	if pm != "" {
		chk.Violation("C13/panic/"+site, fmt.Sprintf("panic %q in DataMatrixWriter.Encode %v", pm, c), c)
		return
	}
	want, ok := refLookup(c.N, c.Shape, c.Min, c.Max)
	if !ok {
		l.Distinct("outcomes", "dm/refused")
		l.Distinct("nontrivial", fmt.Sprint("dw", c.Shape, c.Min, c.Max, "none", c.N))
		if bm != nil {
			chk.Violation("C13/dm/overflow-not-refused", fmt.Sprintf("%v (%d digits): %dx%d symbol returned although no admissible symbol holds %d codewords", c, 2*c.N, bm.GetWidth(), bm.GetHeight(), c.N), c)
		} else if err == nil {
			chk.Violation("C13/dm/writer-size/nil-without-error", fmt.Sprintf("%v: neither matrix nor error", c), c)
		}
		return
	}
	l.Distinct("outcomes", fmt.Sprint("dm/", want.Cols, "x", want.Rows))
	l.Distinct("nontrivial", fmt.Sprint("dw", c.Shape, c.Min, c.Max, want.Cols, want.Rows, c.N == want.DataCW))
	if bm == nil {
		chk.Violation("C13/dm/writer-size/refused", fmt.Sprintf("%v (%d digits): refused (%v), the first admissible symbol %dx%d holds %d codewords", c, 2*c.N, err, want.Cols, want.Rows, want.DataCW), c)
		return
	}
	if bm.GetWidth() != want.Cols || bm.GetHeight() != want.Rows {
		chk.Violation("C13/dm/writer-size", fmt.Sprintf("%v (%d digits): %dx%d written, smallest admissible symbol is %dx%d", c, 2*c.N, bm.GetWidth(), bm.GetHeight(), want.Cols, want.Rows), c)
	}
}

func dmWriter() {
	dims := dmDims()
	nilD := dmDim{-1, -1}
	// (a) no hints at all, every codeword count
	var cases []dmCase
	for n := 1; n <= 1560; n++ {
		cases = append(cases, dmCase{Kind: "dm-writer", N: n, Shape: 0, Min: nilD, Max: nilD})
	}
	runDM("DM writer, no hints: 2n digits for every n = 1..1560 codewords (1559, 1560 refused)", cases, 8)
	// (b) hints: shape x (min, nil) and (nil, max) over the size list; codeword counts: every n in
	// thorough, every capacity boundary cap(row), cap(row)+1 (and 1) in quick
	var ns []int
	if chk.Quick() {
		set := map[int]bool{1: true}
		for _, s := range dm.Symbols {
			set[s.DataCW] = true
			set[s.DataCW+1] = true
		}
		for n := range set {
			ns = append(ns, n)
		}
		sort.Ints(ns)
	} else {
		for n := 1; n <= 1559; n++ {
			ns = append(ns, n)
		}
	}
	cases = nil
	for s := range shapes {
		for _, n := range ns {
			cases = append(cases, dmCase{Kind: "dm-writer", N: n, Shape: s, Min: nilD, Max: nilD, Family: "explicit-shape"})
			for _, d := range dims[1:] {
				cases = append(cases, dmCase{Kind: "dm-writer", N: n, Shape: s, Min: d, Max: nilD}, dmCase{Kind: "dm-writer", N: n, Shape: s, Min: nilD, Max: d})
			}
		}
	}
	// macro envelopes with digit bodies: every codeword count 2..1559 without hints, and the
	// capacity boundaries under every shape hint
	for _, fam := range []string{"macro05", "macro06"} {
		for n := 2; n <= 1559; n++ {
			if chk.Quick() && n > 60 && n%7 != 0 {
				continue
			}
			cases = append(cases, dmCase{Kind: "dm-writer", N: n, Shape: 0, Min: nilD, Max: nilD, Family: fam})
		}
		for s := range shapes {
			for _, sym := range dm.Symbols {
				for _, n := range []int{sym.DataCW - 1, sym.DataCW, sym.DataCW + 1} {
					if n >= 2 {
						cases = append(cases, dmCase{Kind: "dm-writer", N: n, Shape: s, Min: nilD, Max: nilD, Family: fam})
					}
				}
			}
		}
	}
	sort.SliceStable(cases, func(a, b int) bool { return cases[a].N > cases[b].N })
	runDM(fmt.Sprintf("DM writer with hints (and macro 05/06 envelopes around digit bodies, one codeword for the envelope): %d codeword counts (%s) x 3 shapes x {(min,nil),(nil,max) over 36 sizes, none}", len(ns),
		map[bool]string{true: "1 and cap(row), cap(row)+1 of all 30 rows", false: "every n = 1..1559"}[chk.Quick()]), cases, 16)
	// (c) both bounds: all (min,max) pairs over the symbol sizes at the capacity boundaries of the
	// rows (quick: shape none only and max >= min componentwise or either nil)
	cases = nil
	set := map[int]bool{1: true}
	for _, s := range dm.Symbols {
		set[s.DataCW] = true
		set[s.DataCW+1] = true
	}
	var bn []int
	for n := range set {
		bn = append(bn, n)
	}
	sort.Ints(bn)
	nshape := chk.Pick(1, 3)
	for s := 0; s < nshape; s++ {
		for _, mn := range dims[1:31] {
			for _, mx := range dims[1:31] {
				for _, n := range bn {
					cases = append(cases, dmCase{Kind: "dm-writer", N: n, Shape: s, Min: mn, Max: mx})
				}
			}
		}
	}
	sort.SliceStable(cases, func(a, b int) bool { return cases[a].N > cases[b].N })
	runDM(fmt.Sprintf("DM writer with both bounds: all 30x30 (min,max) pairs of symbol sizes x %d capacity-boundary codeword counts x %d shape(s)", len(bn), nshape), cases, 32)
}

func runDM(name string, cases []dmCase, chunk int) {
	n := (len(cases) + chunk - 1) / chunk
	chk.Range(fmt.Sprintf("%s [%d writer calls]", name, len(cases)), n,
		func(i int) string { return cases[i*chunk].String() },
		func(l *mc.Local, i int) {
			for k := i * chunk; k < (i+1)*chunk && k < len(cases); k++ {
				dmWriterOne(l, cases[k])
			}
		})
	chk.Sample(name, cases[len(cases)/3])
}

// ------------------------------------------------------------------ Data Matrix, non-digit content

// families of content whose codeword count depends on the library's encodation choice. The oracle
// is differential and needs no model of that choice: U = the symbol written with the shape hint
// only (it must decode, with the reference stream decoder, to the content - otherwise the case is
// outside this property and skipped). With size hints added the writer must then either refuse or
// return a symbol that (a) satisfies the hints, (b) still holds the content, and (c) is U's size
// whenever U's size is admissible (U is the smallest symbol for the content).
var dmFamilies = []struct{ name, unit string }{
	{"upper(C40)", "A"}, {"lower(Text)", "a"}, {"x12", ">"}, {"edifact", "@"}, {"latin1(Base256)", "é"}, {"mixed", "Ab1 "},
	{"edifact2", ".@"}, {"digits+upper", "12AB"},
	{"macro05:edifact2", ".@"}, {"macro06:upper(C40)", "A"}, {"macro05:lower(Text)", "a"}, {"macro06:digits", "7"}, {"macro05:x12", ">"}, {"macro06:latin1(Base256)", "é"},
	{"x12 mixed", "AB*"}, {"digit pair + x12", "12AB*CD>EF*"}, {"digit + x12", "1AB*CD>EF*GH>"}, {"digit + upper(C40)", "1ABCDEFGHIJKL"}, {"digit pair + lower(Text)", "12abcdefghijkl"},
}

func dmContent(fam, n int) string {
	u := []rune(dmFamilies[fam].unit)
	var sb strings.Builder
	name := dmFamilies[fam].name
	if strings.HasPrefix(name, "macro05:") {
		sb.WriteString("[)>\x1e05\x1d")
	} else if strings.HasPrefix(name, "macro06:") {
		sb.WriteString("[)>\x1e06\x1d")
	}
	for i := 0; i < n; i++ {
		sb.WriteRune(u[i%len(u)])
	}
	if strings.HasPrefix(name, "macro") {
		sb.WriteString("\x1e\x04")
	}
	return sb.String()
}

type dmRead struct {
	k      int    // number of data codewords before the padding starts (0 when the stream does not decode)
	cw     []byte // the symbol's data codewords (padding included)
	w, h   int
	text   string
	ok     bool // symbol returned
	decErr error
	pm     string
	site   string
	err    error
}

func dmWriteRead(content string, shape int, min, max dmDim) (r dmRead) {
	hints := map[gozxing.EncodeHintType]interface{}{gozxing.EncodeHintType_DATA_MATRIX_SHAPE: shapes[shape]}
	if min.W >= 0 {
		hints[gozxing.EncodeHintType_MIN_SIZE] = min.lib()
	}
	if max.W >= 0 {
		hints[gozxing.EncodeHintType_MAX_SIZE] = max.lib()
	}
	var bm *gozxing.BitMatrix
	r.pm, r.site = mc.Guard(func() {
		bm, r.err = datamatrix.NewDataMatrixWriter().Encode(content, gozxing.BarcodeFormat_DATA_MATRIX, 0, 0, hints)
	})
	if r.pm != "" || bm == nil {
		return
	}
	r.ok, r.w, r.h = true, bm.GetWidth(), bm.GetHeight()
	m := make([][]bool, r.h)
	for y := range m {
		m[y] = make([]bool, r.w)
		for x := range m[y] {
			m[y][x] = bm.Get(x, y)
		}
	}
	cw, sym, e := dm.ReadCodewords(m)
	if e != nil {
		r.decErr = e
		return
	}
	var pad int
	r.cw = cw[:sym.DataCW]
	r.text, pad, r.decErr = dm.DecodeStreamPad(cw[:sym.DataCW])
	if r.decErr == nil {
		r.k = pad
	}
	return
}

func tableIndex(w, h int) int {
	for i, s := range dm.Symbols {
		if s.Cols == w && s.Rows == h {
			return i
		}
	}
	return -1
}

func admissible(w, h, shape int, min, max dmDim) bool {
	if shape == 1 && w != h || shape == 2 && w == h {
		return false
	}
	if min.W >= 0 && (w < min.W || h < min.H) {
		return false
	}
	if max.W >= 0 && (w > max.W || h > max.H) {
		return false
	}
	return true
}

func dmHintedOne(l *mc.Local, c dmCase, fam int, u dmRead) {
	content := dmContent(fam, c.N)
	l.Beat(c.String())
	r := dmWriteRead(content, c.Shape, c.Min, c.Max)
	l.Count("evaluations", 1)
	if r.pm != "" {
		chk.Violation("C13/panic/"+r.site, fmt.Sprintf("%v: DataMatrixWriter.Encode panics: %s", c, r.pm), c)
		return
	}
	l.Distinct("nontrivial", fmt.Sprint("dh", fam, c.Shape, c.Min, c.Max, r.w, r.h))
	uAdm := admissible(u.w, u.h, c.Shape, c.Min, c.Max)
	if !r.ok {
		l.Distinct("outcomes", "dmh/refused")
		if uAdm {
			chk.Violation("C13/dm/writer-size/refused", fmt.Sprintf("%v (%d characters %q...): refused (%v) although the %dx%d symbol chosen without size hints is admissible", c, c.N, dmFamilies[fam].unit, r.err, u.w, u.h), c)
		}
		return
	}
	l.Distinct("outcomes", fmt.Sprint("dmh/", r.w, "x", r.h))
	if !admissible(r.w, r.h, c.Shape, c.Min, c.Max) {
		chk.Violation("C13/dm/hint-violated", fmt.Sprintf("%v: %dx%d symbol written, which violates the shape/size hints", c, r.w, r.h), c)
		return
	}
	if r.decErr != nil || r.text != content {
		l.Count("dm_overflow_not_refused/"+dmFamilies[fam].name, 1)
		chk.Violation("C13/dm/overflow-not-refused", fmt.Sprintf("%v (%d x %q): without size hints the content needs %dx%d; with the hints a %dx%d symbol is returned that does not hold the content (the reference decoder reads %q, err %v) instead of a refusal", c, c.N, dmFamilies[fam].unit, u.w, u.h, r.w, r.h, r.text, r.decErr), c)
		return
	}
	// the symbol chosen without size hints is admissible and holds the content: a later row of the
	// table is then not the first admissible one. (An EARLIER row is possible: the encoder's
	// end-of-data decisions look at the candidate symbols, so excluding some of them can lead to a
	// shorter encodation - counted, not a violation.)
	if uAdm && tableIndex(r.w, r.h) > tableIndex(u.w, u.h) {
		chk.Violation("C13/dm/writer-size/hinted-not-smallest", fmt.Sprintf("%v: %dx%d written although the smaller admissible %dx%d holds the content", c, r.w, r.h, u.w, u.h), c)
	} else if uAdm && (r.w != u.w || r.h != u.h) {
		l.Count("dm_hinted_symbol_earlier_in_table_than_unhinted", 1)
	}
}

func dmNonDigit() {
	dims := dmDims()
	nilD := dmDim{-1, -1}
	maxN := chk.Pick(100, 400)
	type job struct{ fam, n int }
	var jobs []job
	for n := 1; n <= maxN; n++ { // shortest first: the first violation reported is a minimal one
		for f := range dmFamilies {
			jobs = append(jobs, job{f, n})
		}
	}
	chk.Range(fmt.Sprintf("DM writer, non-digit content: 19 families (6 homogeneous, 7 mixed incl. X12/C40/Text runs behind one or two ASCII codewords, 6 inside 05/06 macro envelopes) x length 1..%d x 3 shapes x {(min,nil),(nil,max) over the 30 symbol sizes}: hinted result vs the unhinted symbol (differential); the unhinted symbol is the first admissible one for the writer's own unpadded codeword count, and that count does not include an unlatch at the exact end of a smaller symbol [%d writer calls]", maxN, len(jobs)*3*61), len(jobs),
		func(i int) string { return fmt.Sprint(dmFamilies[jobs[i].fam].name, " n=", jobs[i].n) },
		func(l *mc.Local, i int) {
			j := jobs[i]
			content := dmContent(j.fam, j.n)
			for s := range shapes {
				u := dmWriteRead(content, s, nilD, nilD)
				l.Count("evaluations", 1)
				if u.pm != "" {
					chk.Violation("C13/panic/"+u.site, fmt.Sprintf("DataMatrixWriter.Encode(%d x %q, shape %s) panics: %s", j.n, dmFamilies[j.fam].unit, shapeNames[s], u.pm),
						dmCase{Kind: "dm-hinted", N: j.n, Shape: s, Min: nilD, Max: nilD, Family: dmFamilies[j.fam].name})
					continue
				}
				if !u.ok || u.decErr != nil || u.text != content {
					l.Count("dm_nondigit_premise_not_met", 1) // refused (rectangles are small) or not this property's business
					continue
				}
				// self-consistency: the symbol must be the first admissible one for the number of data
				// codewords the writer itself emitted before the padding
				if want, ok := refLookup(u.k, s, nilD, nilD); ok && u.k > 0 && (want.Cols != u.w || want.Rows != u.h) {
					chk.Violation("C13/dm/writer-size/not-smallest-for-own-codewords", fmt.Sprintf("DataMatrixWriter.Encode(%d x %q in family %s, shape %s): the symbol is %dx%d, but the writer's own data codewords (%d before the padding starts) fit the smaller %dx%d (%d codewords)", j.n, dmFamilies[j.fam].unit, dmFamilies[j.fam].name, shapeNames[s], u.w, u.h, u.k, want.Cols, want.Rows, want.DataCW),
						dmCase{Kind: "dm-hinted", N: j.n, Shape: s, Min: nilD, Max: nilD, Family: dmFamilies[j.fam].name})
				}
				// end-of-data rule of ISO/IEC 16022 (5.2.5.2, 5.2.7): a C40 / Text / X12 run that ends
				// exactly at the end of a symbol needs no unlatch. If the writer's stream ends in an
				// unlatch codeword (254) without which it reads the same and fills an admissible
				// smaller symbol exactly, that smaller symbol is the first one that holds the content.
				if u.k >= 2 && u.k <= len(u.cw) && u.cw[u.k-1] == 254 {
					if want, ok := refLookup(u.k-1, s, nilD, nilD); ok && want.DataCW == u.k-1 && (want.Cols != u.w || want.Rows != u.h) {
						if t, e := dm.DecodeStream(u.cw[:u.k-1]); e == nil && t == content {
							chk.Violation("C13/dm/writer-size/unlatch-at-exact-fit", fmt.Sprintf("DataMatrixWriter.Encode(%d x %q in family %s, shape %s): the symbol is %dx%d because the data ends in an unlatch codeword; without it the %d codewords read the same and fill the smaller %dx%d exactly (no unlatch is needed at the end of a full symbol)", j.n, dmFamilies[j.fam].unit, dmFamilies[j.fam].name, shapeNames[s], u.w, u.h, u.k-1, want.Cols, want.Rows),
								dmCase{Kind: "dm-hinted", N: j.n, Shape: s, Min: nilD, Max: nilD, Family: dmFamilies[j.fam].name})
						}
					}
					l.Count("dm_streams_ending_in_an_unlatch", 1)
				}
				for _, d := range dims[1:31] {
					dmHintedOne(l, dmCase{Kind: "dm-hinted", N: j.n, Shape: s, Min: d, Max: nilD, Family: dmFamilies[j.fam].name}, j.fam, u)
					dmHintedOne(l, dmCase{Kind: "dm-hinted", N: j.n, Shape: s, Min: nilD, Max: d, Family: dmFamilies[j.fam].name}, j.fam, u)
				}
			}
		})
	chk.Sample("dm-hinted", dmCase{Kind: "dm-hinted", N: 6, Shape: 0, Min: nilD, Max: dmDim{10, 10}, Family: "lower(Text)"})
}

func famIndex(name string) int {
	for i, f := range dmFamilies {
		if f.name == name {
			return i
		}
	}
	return 0
}

// ------------------------------------------------------------------ main

type replayCase struct {
	Kind string
}

func main() {
	chk = mc.New("C13", "exploration")
	chk.Rule = "QR: one case = (mode, level, content length n, forced version or none, header variant); all n enumerated (quick: all n up to capacity(10) plus cap(v), cap(v)+1 of every version); non-trivial = distinct case, outcomes = distinct chosen versions. Data Matrix: one case = (codeword count, shape, min, max, fail); non-trivial = distinct (shape, min, max, selected row) decision classes"
	chk.Assume("reference capacities and bit-stream lengths come from verif/ref/qr (written from ISO/IEC 18004), the symbol table order from verif/ref/dm (ISO/IEC 16022 Table 7, square before rectangle at equal capacity)")
	chk.Assume("content of one mode only (the library never mixes modes): digits '7', 'A', 'a' (no CHARACTER_SET hint, so no ECI header), kanji U+6F22 under the Shift_JIS hint; the mask is forced to 0 because it takes no part in the version choice")
	chk.Assume("MIN_SIZE/MAX_SIZE bound width and height separately (symbol.width >= min.width && symbol.height >= min.height, likewise <= for max), as SymbolInfo_Lookup documents by its code; a forced version outside 1..40 can only be refused")
	chk.Assume("Data Matrix writer level: 2n digits are exactly n data codewords (digit pairs). For other content the codeword count depends on the encodation choice, which is not part of this property: there the oracle is differential (symbol written with size hints vs. the symbol written without them, both read with verif/ref/dm's stream decoder): a hinted symbol must satisfy the hints, still hold the content, and equal the unhinted size when that is admissible")
	if chk.ReplayFile() != "" {
		var k replayCase
		mc.LoadReplay(chk.ReplayFile(), &k)
		l := chk.NewLocal()
		switch k.Kind {
		case "auto", "forced", "writer", "header":
			var c qrCase
			if mc.LoadReplay(chk.ReplayFile(), &c) == nil {
				fmt.Printf("replay %v\n", c)
				runQR(l, c)
			}
		case "kanji-char":
			var c kanjiCase
			if mc.LoadReplay(chk.ReplayFile(), &c) == nil {
				fmt.Printf("replay %+v\n", c)
				kanjiCharOne(l, c)
			}
		case "mode-char":
			var c modeCharCase
			if mc.LoadReplay(chk.ReplayFile(), &c) == nil {
				fmt.Printf("replay %+v\n", c)
				modeCharOne(l, c)
			}
		case "dm-lookup":
			var c dmCase
			if mc.LoadReplay(chk.ReplayFile(), &c) == nil {
				fmt.Printf("replay %v\n", c)
				dmLookupOne(l, c)
			}
		case "dm-writer":
			var c dmCase
			if mc.LoadReplay(chk.ReplayFile(), &c) == nil {
				fmt.Printf("replay %v\n", c)
				dmWriterOne(l, c)
			}
		case "dm-base256":
			var c dmCase
			if mc.LoadReplay(chk.ReplayFile(), &c) == nil {
				fmt.Printf("replay %v\n", c)
				dmBase256One(l, c)
			}
		case "dm-hinted":
			var c dmCase
			if mc.LoadReplay(chk.ReplayFile(), &c) == nil {
				fmt.Printf("replay %v\n", c)
				f := famIndex(c.Family)
				u := dmWriteRead(dmContent(f, c.N), c.Shape, dmDim{-1, -1}, dmDim{-1, -1})
				fmt.Printf("without size hints: symbol=%v %dx%d decodes to content=%v\n", u.ok, u.w, u.h, u.text == dmContent(f, c.N))
				dmHintedOne(l, c, f, u)
			}
		}
		l.Merge()
		chk.Finish()
	}
	qrPublished()
	qrBoundaries()
	qrSweep()
	qrForced()
	qrHeaders()
	runKanjiChars()
	runModeChars()
	dmLookups()
	dmWriter()
	dmNonDigit()
	dmBase256()
	chk.Finish()
}
