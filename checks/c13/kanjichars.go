package main

// Kanji capacities for every character of the mode. The length families use ONE kanji (U+6F22, lead
// byte 0x8A); the published capacities - 10 characters at 1-L up to 1817 at 40-L - hold for every
// character the mode can carry: Shift_JIS values 0x8140-0x9FFC and 0xE040-0xEBBF. Here every code
// point of the Basic Multilingual Plane whose Shift_JIS form (golang.org/x/text, the encoder the
// library itself uses) lies in those ranges is written at the capacity of version 1 and one beyond
// at every level, alone and as the first / last character among U+6F22; for the first and last
// character of every lead byte also at the capacity of versions 9, 26, 27 and 40 (where the count
// field widens) and one beyond.

import (
	"fmt"
	"sort"
	"strings"

	"verif/mc"
	"verif/ref/qr"

	"golang.org/x/text/encoding/japanese"

	"github.com/makiuchi-d/gozxing"
	qrenc "github.com/makiuchi-d/gozxing/qrcode/encoder"
)

type kanjiCase struct {
	Kind    string // "kanji-char"
	Rune    int
	SJIS    int
	Level   int
	N       int
	Place   string // "all" | "first" | "last"
	Comment string `json:",omitempty"`
}

func kanjiCharOne(l *mc.Local, c kanjiCase) {
	lv := levels[c.Level]
	var content string
	switch c.Place {
	case "all":
		content = strings.Repeat(string(rune(c.Rune)), c.N)
	case "first":
		content = string(rune(c.Rune)) + strings.Repeat("漢", c.N-1)
	default:
		content = strings.Repeat("漢", c.N-1) + string(rune(c.Rune))
	}
	want := 0
	for v := 1; v <= 40; v++ {
		if c.N <= qr.Capacity(v, lv.ref, qr.Kanji) {
			want = v
			break
		}
	}
	hints := map[gozxing.EncodeHintType]interface{}{gozxing.EncodeHintType_QR_MASK_PATTERN: 0, gozxing.EncodeHintType_CHARACTER_SET: "Shift_JIS"}
	var code *qrenc.QRCode
	var err error
	pm, site := mc.Guard(func() { code, err = qrenc.Encoder_encode(content, lv.lib, hints) })
	l.Count("evaluations", 1)
	l.Count("kanji_char_calls", 1)
	if pm != "" {
		chk.Violation("C13/panic/"+site, fmt.Sprintf("panic %q in Encoder_encode of %d kanji incl. U+%04X", pm, c.N, c.Rune), c)
		return
	}
	got := 0
	mode := "-"
	if code != nil && err == nil {
		got = code.GetVersion().GetVersionNumber()
		mode = fmt.Sprint(code.GetMode())
	}
	l.Distinct("outcomes", fmt.Sprint("kanji-char/v", got))
	what := fmt.Sprintf("%d kanji (U+%04X = Shift_JIS %04X, %s) at level %s", c.N, c.Rune, c.SJIS, c.Place, lv.name)
	switch {
	case want == 0 && got != 0:
		chk.Violation("C13/qr/kanji-char/cap40+1-accepted", fmt.Sprintf("%s: version %d returned although the content exceeds version 40", what, got), c)
	case want != 0 && got == 0:
		chk.Violation("C13/qr/kanji-char/refused-though-fits", fmt.Sprintf("%s: refused (%v) although version %d holds %d kanji", what, err, want, qr.Capacity(want, lv.ref, qr.Kanji)), c)
	case want != got:
		chk.Violation("C13/qr/kanji-char/not-smallest", fmt.Sprintf("%s: version %d (mode %s) chosen, version %d holds %d kanji", what, got, mode, want, qr.Capacity(want, lv.ref, qr.Kanji)), c)
	default:
		l.Distinct("nontrivial", fmt.Sprint("kanji-char/", c.SJIS>>8, c.Level, c.N, c.Place))
	}
}

func runKanjiChars() {
	type kc struct{ r, sjis int }
	var all []kc
	enc := japanese.ShiftJIS.NewEncoder()
	first, last := map[int]kc{}, map[int]kc{}
	for r := 0x80; r <= 0xFFFF; r++ {
		if r >= 0xD800 && r <= 0xDFFF {
			continue
		}
		b, e := enc.Bytes([]byte(string(rune(r))))
		enc.Reset()
		if e != nil || len(b) != 2 {
			continue
		}
		v := int(b[0])<<8 | int(b[1])
		if !(v >= 0x8140 && v <= 0x9FFC) && !(v >= 0xE040 && v <= 0xEBBF) {
			continue
		}
		k := kc{r, v}
		all = append(all, k)
		lead := v >> 8
		if f, ok := first[lead]; !ok || v < f.sjis {
			first[lead] = k
		}
		if f, ok := last[lead]; !ok || v > f.sjis {
			last[lead] = k
		}
	}
	var cases []kanjiCase
	for _, k := range all {
		for lv := range levels {
			c1 := qr.Capacity(1, levels[lv].ref, qr.Kanji)
			for _, n := range []int{c1, c1 + 1} {
				cases = append(cases, kanjiCase{"kanji-char", k.r, k.sjis, lv, n, "all", ""})
				if lv == 0 || lv == 3 {
					cases = append(cases, kanjiCase{"kanji-char", k.r, k.sjis, lv, n, "first", ""}, kanjiCase{"kanji-char", k.r, k.sjis, lv, n, "last", ""})
				}
			}
		}
	}
	leads := 0
	for lead := range first {
		leads++
		for _, k := range []kc{first[lead], last[lead]} {
			for lv := range levels {
				for _, v := range []int{9, 10, 26, 27, 40} {
					cp := qr.Capacity(v, levels[lv].ref, qr.Kanji)
					for _, n := range []int{cp, cp + 1} {
						for _, pl := range []string{"all", "last"} {
							cases = append(cases, kanjiCase{"kanji-char", k.r, k.sjis, lv, n, pl, ""})
						}
					}
				}
			}
		}
	}
	chunk := 64
	n := (len(cases) + chunk - 1) / chunk
	chk.Range(fmt.Sprintf("QR kanji capacity for every character of the mode: %d code points whose Shift_JIS form is in 8140-9FFC / E040-EBBF (%d lead bytes) x levels x {capacity(1), +1} alone and first/last among U+6F22; first and last character of every lead byte x versions {9,10,26,27,40} x {capacity, +1} [%d library calls]", len(all), leads, len(cases)), n,
		func(i int) string { return fmt.Sprintf("%+v", cases[i*chunk]) },
		func(l *mc.Local, i int) {
			for k := i * chunk; k < (i+1)*chunk && k < len(cases); k++ {
				kanjiCharOne(l, cases[k])
			}
		})
	chk.Sample("kanji-char", cases[len(cases)/2])
}

// The same for the other two compact modes: every digit in numeric mode and every one of the 45
// alphanumeric characters, alone and as the first / last character among the length families'
// representative, at the capacity of versions 1, 9, 10, 26, 27, 40 and one beyond, every level.
type modeCharCase struct {
	Kind  string // "mode-char"
	Mode  int    // index into modes
	Char  string
	Level int
	N     int
	Place string
}

func modeCharOne(l *mc.Local, c modeCharCase) {
	m, lv := modes[c.Mode], levels[c.Level]
	var content string
	switch c.Place {
	case "all":
		content = strings.Repeat(c.Char, c.N)
	case "first":
		content = c.Char + strings.Repeat(m.unit, c.N-1)
	default:
		content = strings.Repeat(m.unit, c.N-1) + c.Char
	}
	want := 0
	for v := 1; v <= 40; v++ {
		if c.N <= qr.Capacity(v, lv.ref, m.ref) {
			want = v
			break
		}
	}
	hints := map[gozxing.EncodeHintType]interface{}{gozxing.EncodeHintType_QR_MASK_PATTERN: 0}
	var code *qrenc.QRCode
	var err error
	pm, site := mc.Guard(func() { code, err = qrenc.Encoder_encode(content, lv.lib, hints) })
	l.Count("evaluations", 1)
	l.Count("mode_char_calls", 1)
	if pm != "" {
		chk.Violation("C13/panic/"+site, fmt.Sprintf("panic %q in Encoder_encode of %d %s characters incl. %q", pm, c.N, m.name, c.Char), c)
		return
	}
	got := 0
	mode := "-"
	if code != nil && err == nil {
		got = code.GetVersion().GetVersionNumber()
		mode = fmt.Sprint(code.GetMode())
	}
	what := fmt.Sprintf("%d %s characters (%q %s) at level %s", c.N, m.name, c.Char, c.Place, lv.name)
	switch {
	case want == 0 && got != 0:
		chk.Violation("C13/qr/mode-char/cap40+1-accepted", fmt.Sprintf("%s: version %d returned although the content exceeds version 40", what, got), c)
	case want != 0 && got == 0:
		chk.Violation("C13/qr/mode-char/refused-though-fits", fmt.Sprintf("%s: refused (%v) although version %d holds %d", what, err, want, qr.Capacity(want, lv.ref, m.ref)), c)
	case want != got:
		chk.Violation("C13/qr/mode-char/not-smallest", fmt.Sprintf("%s: version %d (mode %s) chosen, version %d holds %d", what, got, mode, want, qr.Capacity(want, lv.ref, m.ref)), c)
	default:
		l.Distinct("nontrivial", fmt.Sprint("mode-char/", c.Mode, c.Char, c.Level, c.N, c.Place))
	}
}

func runModeChars() {
	var cases []modeCharCase
	for mi, chars := range map[int]string{0: "0123456789", 1: "0123456789ABCDEFGHIJKLMNOPQRSTUVWXYZ $%*+-./:"} {
		for _, ch := range chars {
			for lv := range levels {
				for _, v := range []int{1, 9, 10, 26, 27, 40} {
					cp := qr.Capacity(v, levels[lv].ref, modes[mi].ref)
					for _, n := range []int{cp, cp + 1} {
						for _, pl := range []string{"all", "first", "last"} {
							if mi == 1 && pl == "all" && ch >= '0' && ch <= '9' {
								continue // digits alone are numeric content
							}
							cases = append(cases, modeCharCase{"mode-char", mi, string(ch), lv, n, pl})
						}
					}
				}
			}
		}
	}
	sort.Slice(cases, func(a, b int) bool {
		if cases[a].N != cases[b].N {
			return cases[a].N > cases[b].N
		}
		return fmt.Sprint(cases[a]) < fmt.Sprint(cases[b])
	})
	chunk := 16
	n := (len(cases) + chunk - 1) / chunk
	chk.Range(fmt.Sprintf("QR numeric / alphanumeric capacity for every character of the mode: 10 digits and 45 alphanumeric characters x levels x versions {1,9,10,26,27,40} x {capacity, +1} x {alone, first, last among the representative} [%d library calls]", len(cases)), n,
		func(i int) string { return fmt.Sprintf("%+v", cases[i*chunk]) },
		func(l *mc.Local, i int) {
			for k := i * chunk; k < (i+1)*chunk && k < len(cases); k++ {
				modeCharOne(l, cases[k])
			}
		})
	chk.Sample("mode-char", cases[len(cases)/2])
}
