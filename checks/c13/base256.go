package main

// Data Matrix, binary content: a run of n characters U+00E9 has exactly one shortest encodation
// in ISO/IEC 16022 - Base 256: latch (1) + length field (1 codeword for n <= 249, 2 for
// 250..1555) + n data codewords, where a run that ends exactly at the end of the symbol may use
// the single length codeword 0 ("until the end of the symbol") whatever its length. Every other
// encodation needs at least 2 codewords per character (upper shift). So for every n the
// smallest adequate symbol is known from the table alone, as it is for digit pairs.

import (
	"fmt"
	"strings"

	"verif/mc"
	"verif/ref/dm"
)

func base256Fits(n int, s dm.Symbol) bool {
	if n <= 249 {
		return n+2 <= s.DataCW
	}
	return n+3 <= s.DataCW || n+2 == s.DataCW
}

func base256Want(n, shape int, min, max dmDim) (dm.Symbol, bool) {
	for _, s := range dm.Symbols {
		if shape == 1 && s.Rect || shape == 2 && !s.Rect {
			continue
		}
		if min.W >= 0 && (s.Cols < min.W || s.Rows < min.H) {
			continue
		}
		if max.W >= 0 && (s.Cols > max.W || s.Rows > max.H) {
			continue
		}
		if base256Fits(n, s) {
			return s, true
		}
	}
	return dm.Symbol{}, false
}

func dmBase256One(l *mc.Local, c dmCase) {
	content := strings.Repeat("é", c.N)
	l.Beat(c.String())
	r := dmWriteRead(content, c.Shape, c.Min, c.Max)
	l.Count("evaluations", 1)
	if r.pm != "" {
		chk.Violation("C13/panic/"+r.site, fmt.Sprintf("%v: DataMatrixWriter.Encode panics: %s", c, r.pm), c)
		return
	}
	want, ok := base256Want(c.N, c.Shape, c.Min, c.Max)
	if !ok {
		l.Distinct("outcomes", "dm256/refused")
		l.Distinct("nontrivial", fmt.Sprint("d256", c.Shape, c.Min, c.Max, "none"))
		if r.ok && (r.decErr != nil || r.text != content) {
			chk.Violation("C13/dm/overflow-not-refused", fmt.Sprintf("%v (%d x U+00E9): no admissible symbol holds the %d codewords of the Base 256 run, yet a %dx%d symbol is returned that does not hold the content", c, c.N, c.N+2, r.w, r.h), c)
		}
		return
	}
	l.Distinct("outcomes", fmt.Sprint("dm256/", want.Cols, "x", want.Rows))
	l.Distinct("nontrivial", fmt.Sprint("d256", c.Shape, c.Min, c.Max, want.Cols, want.Rows, c.N+2 == want.DataCW, c.N+3 == want.DataCW))
	if !r.ok {
		chk.Violation("C13/dm/writer-size/refused", fmt.Sprintf("%v (%d x U+00E9, a Base 256 run of %d data codewords): refused (%v); the first admissible symbol %dx%d holds %d codewords", c, c.N, c.N, r.err, want.Cols, want.Rows, want.DataCW), c)
		return
	}
	if r.decErr != nil || r.text != content {
		return // a symbol that does not read back is C02's finding, not a size decision
	}
	if r.w != want.Cols || r.h != want.Rows {
		chk.Violation("C13/dm/writer-size/base256", fmt.Sprintf("%v (%d x U+00E9, a Base 256 run: 1 latch + %d length + %d data codewords, or length codeword 0 when it ends with the symbol): %dx%d written, smallest admissible symbol is %dx%d (%d codewords)", c, c.N, map[bool]int{true: 1, false: 2}[c.N <= 249], c.N, r.w, r.h, want.Cols, want.Rows, want.DataCW), c)
	}
}

func dmBase256() {
	nilD := dmDim{-1, -1}
	var cases []dmCase
	for n := 1560; n >= 6; n-- { // long runs first (they cost most)
		cases = append(cases, dmCase{Kind: "dm-base256", N: n, Shape: 0, Min: nilD, Max: nilD, Family: "base256"})
		if want, ok := base256Want(n, 0, nilD, nilD); ok {
			// the size hints that admit exactly the expected symbol must not change the answer
			d := dmDim{want.Cols, want.Rows}
			cases = append(cases, dmCase{Kind: "dm-base256", N: n, Shape: 0, Min: nilD, Max: d, Family: "base256"})
			if c := n + 2; c == want.DataCW || c+1 == want.DataCW || !chk.Quick() {
				cases = append(cases, dmCase{Kind: "dm-base256", N: n, Shape: 1 + b2i(want.Rect), Min: d, Max: d, Family: "base256"})
			}
		}
		if n <= 60 {
			cases = append(cases, dmCase{Kind: "dm-base256", N: n, Shape: 2, Min: nilD, Max: nilD, Family: "base256"})
		}
		cases = append(cases, dmCase{Kind: "dm-base256", N: n, Shape: 1, Min: nilD, Max: nilD, Family: "base256"})
	}
	n := (len(cases) + 7) / 8
	chk.Range(fmt.Sprintf("DM writer, binary content: EVERY run length 6..1560 of U+00E9 (Base 256; 1556 is the longest that fits) x shape {none, square, rectangle for n <= 60} and MAX_SIZE / MIN_SIZE=MAX_SIZE = the expected symbol: written size == first admissible symbol holding latch + length field + n (exact-fill rule included) [%d writer calls]", len(cases)), n,
		func(i int) string { return cases[i*8].String() },
		func(l *mc.Local, i int) {
			for k := i * 8; k < (i+1)*8 && k < len(cases); k++ {
				dmBase256One(l, cases[k])
			}
		})
	chk.Sample("dm-base256", dmCase{Kind: "dm-base256", N: 278, Shape: 0, Min: nilD, Max: nilD, Family: "base256"})
}

func b2i(b bool) int {
	if b {
		return 1
	}
	return 0
}
