package main

// (b) SampleGrid / SampleGridWithTransform against pixel(floor(T(x+1/2, y+1/2))), plus the grid
// model shared with the nudging sub-spaces.

import (
	"fmt"
	"math/big"

	"verif/mc"

	"github.com/makiuchi-d/gozxing"
	"github.com/makiuchi-d/gozxing/common"
)

// ---------------------------------------------------------------- model of one sampled grid

type cellModel struct {
	px, py     int  // model pixel (valid unless the class is clNF)
	clx, cly   int  // class of the x / y coordinate
	dirx, diry int  // -1 / 0 / +1: beyond the low edge, inside, beyond the high edge
	nearB      bool // an exact coordinate is within 1/64 of a pixel boundary: not compared
}

type gridModel struct {
	dx, dy  int
	w, h    int
	cells   []cellModel // row-major
	anyNF   bool        // some sample point is two or more pixels outside: NotFoundException required
	anyBand bool        // some sample point is in the (-2,-1) band: NotFoundException tolerated
	nfSide  string      // side of the first not-found coordinate (row-major, x before y)
}

// axisClass is the model's view of one coordinate of one sample point.
type axisClass struct {
	cl, pix, dir int
	near         bool
}

func classifyAxis(c *big.Rat, extent int) axisClass {
	cl, pix, dir := classify(c, extent)
	return axisClass{cl, pix, dir, nearBoundary(c)}
}

// buildModel classifies the exact sample points p (row-major, dx*dy of them) against a w x h image.
func buildModel(p []pt, dx, dy, w, h int) *gridModel {
	xc, yc := make([]axisClass, len(p)), make([]axisClass, len(p))
	for i := range p {
		xc[i], yc[i] = classifyAxis(p[i].x, w), classifyAxis(p[i].y, h)
	}
	return buildModelAxes(xc, yc, dx, dy, w, h)
}

// buildModelAxes assembles the grid model from the per-cell classes of the x and y coordinates.
func buildModelAxes(xc, yc []axisClass, dx, dy, w, h int) *gridModel {
	m := &gridModel{dx: dx, dy: dy, w: w, h: h, cells: make([]cellModel, dx*dy)}
	for i := range m.cells {
		c := &m.cells[i]
		c.clx, c.px, c.dirx = xc[i].cl, xc[i].pix, xc[i].dir
		c.cly, c.py, c.diry = yc[i].cl, yc[i].pix, yc[i].dir
		c.nearB = xc[i].near || yc[i].near
		for ax, cl := range []int{c.clx, c.cly} {
			if cl == clNF {
				if !m.anyNF {
					m.nfSide = sideName(ax == 1, []int{c.dirx, c.diry}[ax])
				}
				m.anyNF = true
			}
			if cl == clBand {
				m.anyBand = true
			}
		}
	}
	return m
}

// judge compares one library result with the model. verdict: "" = agrees; "notfound-expected",
// "unexpected-error", "errkind", "dims", "bit" otherwise. cell is the first disagreeing cell.
func (m *gridModel) judge(kind string, res *gozxing.BitMatrix, err error) (verdict, what string, cell int) {
	if m.anyNF {
		if err == nil {
			return "notfound-expected", "no error although a sample point lies two or more pixels outside the image", -1
		}
		if !isNotFound(err) {
			return "errkind", fmt.Sprintf("error %T is not a NotFoundException", err), -1
		}
		return "", "", -1
	}
	if err != nil {
		if !isNotFound(err) {
			return "errkind", fmt.Sprintf("error %T is not a NotFoundException", err), -1
		}
		if m.anyBand {
			return "", "", -1
		}
		return "unexpected-error", fmt.Sprintf("error %q although every sample point is inside the image or less than one pixel outside", firstLine(err.Error())), -1
	}
	if res == nil || res.GetWidth() != m.dx || res.GetHeight() != m.dy {
		return "dims", "result is nil or has the wrong dimensions", -1
	}
	for y := 0; y < m.dy; y++ {
		for x := 0; x < m.dx; x++ {
			c := m.cells[y*m.dx+x]
			if c.nearB {
				continue
			}
			if want := pixel(kind, c.px, c.py, m.w, m.h); res.Get(x, y) != want {
				return "bit", fmt.Sprintf("cell (%d,%d) is %v, the model pixel (%d,%d) of image %s is %v", x, y, res.Get(x, y), c.px, c.py, kind, want), y*m.dx + x
			}
		}
	}
	return "", "", -1
}

func firstLine(s string) string {
	for i := 0; i < len(s); i++ {
		if s[i] == '\n' {
			return s[:i]
		}
	}
	return s
}

// sampleBoth calls the two entry points of the sampler under recover().
func sampleBoth(img *gozxing.BitMatrix, dx, dy int, to, from [8]float64, fn func(api string, res *gozxing.BitMatrix, err error, pm, site string)) {
	var res *gozxing.BitMatrix
	var err error
	pm, site := mc.Guard(func() {
		res, err = common.GridSampler_GetInstance().SampleGrid(img, dx, dy,
			to[0], to[1], to[2], to[3], to[4], to[5], to[6], to[7],
			from[0], from[1], from[2], from[3], from[4], from[5], from[6], from[7])
	})
	fn("SampleGrid", res, err, pm, site)
	res, err = nil, nil
	pm, site = mc.Guard(func() {
		t := q2q(to, from)()
		res, err = common.GridSampler_GetInstance().SampleGridWithTransform(img, dx, dy, t)
	})
	fn("SampleGridWithTransform", res, err, pm, site)
	// the caller's transform object is an argument, not scratch space: a SECOND sampling with the
	// SAME object (as a caller that samples several regions with one transform does) is judged by
	// the same model
	res, err = nil, nil
	pm, site = mc.Guard(func() {
		t := q2q(to, from)()
		common.GridSampler_GetInstance().SampleGridWithTransform(img, dx, dy, t)
		res, err = common.GridSampler_GetInstance().SampleGridWithTransform(img, dx, dy, t)
	})
	fn("SampleGridWithTransform (second sampling with the same transform object)", res, err, pm, site)
}

// ---------------------------------------------------------------- transform classes

type xform struct {
	class, member string
	to, from      [8]float64
}

func gridRect(dx, dy int) [8]float64 {
	X, Y := float64(dx), float64(dy)
	return [8]float64{0, 0, X, 0, X, Y, 0, Y}
}

// orient maps a grid-plane point (X,Y) of a dx x dy grid, scaled by s, through one of the eight
// axis-preserving orientations (used only to construct input quadrilaterals).
func orient(d int, s float64, dx, dy int, X, Y float64) (float64, float64) {
	a, b := s*X, s*Y
	A, B := s*float64(dx), s*float64(dy)
	switch d {
	case 0:
		return a, b
	case 1: // quarter turn
		return B - b, a
	case 2: // half turn
		return A - a, B - b
	case 3: // three-quarter turn
		return b, A - a
	case 4: // transpose
		return b, a
	case 5: // mirror x
		return A - a, b
	case 6: // mirror y
		return a, B - b
	}
	return B - b, A - a // anti-transpose
}

var orientNames = []string{"identity", "rot90", "rot180", "rot270", "transpose", "mirror-x", "mirror-y", "anti-transpose"}

func orientedQuad(d int, s float64, dx, dy int, ox, oy float64) [8]float64 {
	g := gridRect(dx, dy)
	var q [8]float64
	for i := 0; i < 4; i++ {
		x, y := orient(d, s, dx, dy, g[2*i], g[2*i+1])
		q[2*i], q[2*i+1] = x+ox, y+oy
	}
	return q
}

func xforms(dx, dy int) []xform {
	var out []xform
	g := gridRect(dx, dy)
	X, Y := float64(dx), float64(dy)
	for _, ky := range []int{-3, -1, 0, 1, 3} {
		for _, kx := range []int{-3, -1, 0, 1, 3} {
			ox, oy := float64(kx)/8, float64(ky)/8
			out = append(out, xform{"translate", fmt.Sprintf("(%d/8,%d/8)", kx, ky), g, [8]float64{ox, oy, X + ox, oy, X + ox, Y + oy, ox, Y + oy}})
		}
	}
	for _, s := range [][2]float64{{2, 2}, {3, 3}, {4, 4}, {1, 3}, {4, 2}} {
		for _, o := range [][2]float64{{0.125, 0.375}, {0.375, 0.125}} {
			out = append(out, xform{"scale", fmt.Sprintf("%vx%v+(%v,%v)", s[0], s[1], o[0], o[1]), g,
				[8]float64{o[0], o[1], s[0]*X + o[0], o[1], s[0]*X + o[0], s[1]*Y + o[1], o[0], s[1]*Y + o[1]}})
		}
	}
	for d := 1; d < 8; d++ {
		for _, s := range []float64{1, 2} {
			out = append(out, xform{"rotate", fmt.Sprintf("%s x%v", orientNames[d], s), g, orientedQuad(d, s, dx, dy, 0.125, 0.375)})
		}
	}
	out = append(out,
		xform{"shear", "x+=y/4", g, [8]float64{0, 0.375, X, 0.375, X + Y/4, Y + 0.375, Y / 4, Y + 0.375}},
		xform{"shear", "y+=x/4", g, [8]float64{0.375, 0, X + 0.375, X / 4, X + 0.375, X/4 + Y, 0.375, Y}},
		xform{"shear", "2x+y/8,2y", g, [8]float64{0, 0.125, 2 * X, 0.125, 2*X + Y/8, 2*Y + 0.125, Y / 8, 2*Y + 0.125}},
		xform{"shear", "x+y/4,y+x/8", g, [8]float64{0, 0, X, X / 8, X + Y/4, Y + X/8, Y / 4, Y}},
		xform{"perspective", "trapezoid-x", g, [8]float64{0.1875, 0.3125, 2*X + 0.1875, 0.3125, 2*X - X/8 + 0.1875, 2*Y + 0.3125, X/8 + 0.1875, 2*Y + 0.3125}},
		xform{"perspective", "trapezoid-y", g, [8]float64{0.1875, 0.3125, 2*X + 0.1875, Y/8 + 0.3125, 2*X + 0.1875, 2*Y - Y/8 + 0.3125, 0.1875, 2*Y + 0.3125}},
		xform{"perspective", "general", g, [8]float64{0.125, 0.25, 2*X + 0.5, 0.75, 2*X - 0.25, 2*Y + 0.5, -0.375, 2*Y - 0.125}},
	)
	if dx >= 21 && dy >= 21 {
		out = append(out, xform{"perspective", "qr-like-inset", [8]float64{3.5, 3.5, X - 3.5, 3.5, X - 6.5, Y - 6.5, 3.5, Y - 3.5},
			[8]float64{10.5, 10.5, 3*(X-3.5) + 1, 11, 3*(X-6.5) + 0.25, 3*(Y-6.5) + 0.75, 10, 3*(Y-3.5) + 1}})
	}
	return out
}

// exactCells returns T(x+1/2, y+1/2) for every cell, row-major.
func exactCells(ex *proj, dx, dy int) []pt {
	ix := ex.integer()
	p := make([]pt, 0, dx*dy)
	two := big.NewInt(2)
	for y := 0; y < dy; y++ {
		yn := big.NewInt(int64(2*y + 1))
		for x := 0; x < dx; x++ {
			u, v, _ := ix.applyH(big.NewInt(int64(2*x+1)), yn, two)
			if u == nil {
				panic("sample point at infinity")
			}
			p = append(p, pt{u, v})
		}
	}
	return p
}

func runSample() {
	all := []int{1, 2, 3, 8, 21, 57, 177}
	type job struct {
		dx, dy, k int
	}
	var jobs []job
	desc := "grid dimensions {1,2,3,8,21,57,177}^2 (49 pairs)"
	for _, dy := range all {
		for _, dx := range all {
			if chk.Quick() && (dx == 177 || dy == 177) && !(dx == 177 && dy == 177) && !(dx == 1 || dy == 1) {
				continue
			}
			for k := range xforms(dx, dy) {
				jobs = append(jobs, job{dx, dy, k})
			}
		}
	}
	if chk.Quick() {
		desc = "grid dimensions {1,2,3,8,21,57}^2 + 177x177, 177x1, 1x177 (39 pairs)"
	}
	// thin grids with more than 255 cells on one axis (no symbology has them; a cell index is an int)
	for _, d := range [][2]int{{256, 1}, {257, 1}, {1, 257}, {300, 2}, {2, 300}, {259, 3}} {
		for k := range xforms(d[0], d[1]) {
			jobs = append(jobs, job{d[0], d[1], k})
		}
	}
	desc += " + thin grids 256x1, 257x1, 1x257, 300x2, 2x300, 259x3"
	name := fmt.Sprintf("sampling: %s x transform classes {25 translations k/8, 10 scales 1..4, 14 rotations/mirrors, 4 shears, 3-4 perspectives} x images {%d kinds} x {SampleGrid, SampleGridWithTransform}: every cell compared with the exact model", desc, len(imageKinds))
	chk.Range(name, len(jobs), func(i int) string { return fmt.Sprint(jobs[i]) },
		func(l *mc.Local, i int) {
			j := jobs[i]
			sampleCase(l, j.dx, j.dy, xforms(j.dx, j.dy)[j.k], nil)
		})
	// perspective quadrilaterals ANCHORED at the image origin with two sides on the image axes: the
	// transform then has a12 = a21 = 0 exactly (it looks "upright") although a13, a23 != 0 bend the
	// rows - a coefficient pattern that no shifted or rotated placement produces
	type aj struct {
		dx, dy, k int
	}
	anchored := func(dx, dy int) []xform {
		X, Y := float64(dx), float64(dy)
		g := gridRect(dx, dy)
		return []xform{
			{"perspective-anchored", "third corner pulled in", g, [8]float64{0, 0, 4 * X, 0, 3 * X, 2.5 * Y, 0, 4.5 * Y}},
			{"perspective-anchored", "third corner pushed out", g, [8]float64{0, 0, 2 * X, 0, 3.5 * X, 3.25 * Y, 0, 2 * Y}},
			{"perspective-anchored", "keystone on the y axis", g, [8]float64{0, 0, 3 * X, 0, 2.25 * X, 3 * Y, 0, 3 * Y}},
			{"perspective-anchored", "keystone on the x axis", g, [8]float64{0, 0, 3 * X, 0, 3 * X, 2.25 * Y, 0, 3 * Y}},
			{"affine-anchored", "scale only (control)", g, [8]float64{0, 0, 3 * X, 0, 3 * X, 2 * Y, 0, 2 * Y}},
		}
	}
	var ajs []aj
	for _, d := range [][2]int{{2, 2}, {3, 2}, {8, 8}, {8, 3}, {21, 21}, {33, 33}, {57, 21}} {
		for k := range anchored(d[0], d[1]) {
			ajs = append(ajs, aj{d[0], d[1], k})
		}
	}
	chk.Range("sampling: quadrilaterals anchored at the image origin with two sides on the image axes (4 perspective shapes + 1 affine control) x 7 grid dimensions x images {4 kinds} x {SampleGrid, SampleGridWithTransform, second sampling}: every cell compared with the exact model", len(ajs),
		func(i int) string { return fmt.Sprint(ajs[i]) },
		func(l *mc.Local, i int) {
			j := ajs[i]
			xf := anchored(j.dx, j.dy)[j.k]
			maxx, maxy := 0.0, 0.0
			for q := 0; q < 4; q++ {
				if xf.from[2*q] > maxx {
					maxx = xf.from[2*q]
				}
				if xf.from[2*q+1] > maxy {
					maxy = xf.from[2*q+1]
				}
			}
			for _, kind := range imageKinds {
				sampleCase(l, j.dx, j.dy, xf, &rcase{Kind: "sample-fixed", W: int(maxx) + 3, H: int(maxy) + 3, Image: kind})
			}
		})
	// strong perspectives whose vanishing line cuts only the outer HALF-CELL margin of the grid at a
	// corner: every sample point (cell centres 0.5 .. dim-0.5) is on one side of the line and inside
	// the image, while the grid's outer corner (0,0) - which is not sampled - is on the other side.
	// The source quadrilateral is the quadrilateral of the corner cell centres, as the detectors use.
	type hj struct {
		dx, dy, corner int
		c              float64
	}
	var hjs []hj
	for _, d := range [][2]int{{2, 2}, {3, 3}, {3, 2}, {8, 8}, {21, 21}} {
		for corner := 0; corner < 4; corner++ {
			for _, c := range []float64{0.25, 0.5, 0.75, 0.9375} {
				hjs = append(hjs, hj{d[0], d[1], corner, c})
			}
		}
	}
	horizon := func(j hj) (xform, int, int) {
		X, Y := float64(j.dx), float64(j.dy)
		// u, v: coordinates measured from the chosen grid corner; T = ((k u + o)/(u+v-c), (k v + o)/(u+v-c))
		T := func(x, y float64) (float64, float64) {
			u, v := x, y
			if j.corner == 1 || j.corner == 2 {
				u = X - x
			}
			if j.corner >= 2 {
				v = Y - y
			}
			den := u + v - j.c
			return (40*u + 10.25) / den, (40*v + 10.25) / den
		}
		to := [8]float64{0.5, 0.5, X - 0.5, 0.5, X - 0.5, Y - 0.5, 0.5, Y - 0.5}
		var from [8]float64
		maxx, maxy := 0.0, 0.0
		for q := 0; q < 4; q++ {
			from[2*q], from[2*q+1] = T(to[2*q], to[2*q+1])
			if from[2*q] > maxx {
				maxx = from[2*q]
			}
			if from[2*q+1] > maxy {
				maxy = from[2*q+1]
			}
		}
		return xform{"perspective-horizon-in-margin", fmt.Sprintf("corner %d, line u+v=%v", j.corner, j.c), to, from}, int(maxx) + 4, int(maxy) + 4
	}
	chk.Range("sampling: strong perspectives whose vanishing line cuts only the outer half-cell margin at one grid corner (4 corners x line positions {1/4, 1/2, 3/4, 15/16} of a cell x 5 grid dimensions; source quadrilateral = corner cell centres) x images {4 kinds} x 3 calls: every cell compared with the exact model", len(hjs),
		func(i int) string { return fmt.Sprint(hjs[i]) },
		func(l *mc.Local, i int) {
			xf, w, h := horizon(hjs[i])
			for _, kind := range imageKinds {
				sampleCase(l, hjs[i].dx, hjs[i].dy, xf, &rcase{Kind: "sample-fixed", W: w, H: h, Image: kind})
			}
		})
	chk.Sample("sample", rcase{Kind: "sample", DimX: 3, DimY: 2, Class: "rotate", Src: gridRect(3, 2), Dst: orientedQuad(1, 2, 3, 2, 2.125, 2.375), W: 9, H: 11, Image: "hashA"})
}

// sampleCase runs one (dims, transform) on all images. The destination quadrilateral is shifted by
// whole pixels so that every exact sample point has a margin of two pixels inside the image; the
// image is made just large enough. fixed != nil (replay) pins image size and kind instead.
func sampleCase(l *mc.Local, dx, dy int, xf xform, fixed *rcase) {
	if !strictlyConvex(quadF(xf.to)) || !strictlyConvex(quadF(xf.from)) {
		panic(fmt.Sprintf("transform %s/%s for %dx%d is not strictly convex", xf.class, xf.member, dx, dy))
	}
	ex, ok := solveProjective(quadF(xf.to), quadF(xf.from))
	if !ok {
		panic("singular")
	}
	p := exactCells(ex, dx, dy)
	from := xf.from
	var w, h int
	if fixed == nil {
		minx, miny, maxx, maxy := floorRat(p[0].x), floorRat(p[0].y), floorRat(p[0].x), floorRat(p[0].y)
		for _, q := range p {
			fx, fy := floorRat(q.x), floorRat(q.y)
			minx, maxx = min(minx, fx), max(maxx, fx)
			miny, maxy = min(miny, fy), max(maxy, fy)
		}
		sx, sy := 2-minx, 2-miny
		w, h = int(maxx+sx)+3, int(maxy+sy)+3
		if w > 2000 || h > 2000 {
			panic(fmt.Sprintf("transform %s/%s for %dx%d needs a %dx%d image", xf.class, xf.member, dx, dy, w, h))
		}
		// a whole-pixel translation of the destination translates the map by the same amount
		for i := 0; i < 4; i++ {
			from[2*i] += float64(sx)
			from[2*i+1] += float64(sy)
		}
		bx, by := new(big.Rat).SetInt64(sx), new(big.Rat).SetInt64(sy)
		for i := range p {
			p[i] = pt{radd(p[i].x, bx), radd(p[i].y, by)}
		}
	} else {
		w, h = fixed.W, fixed.H
	}
	m := buildModel(p, dx, dy, w, h)
	if fixed == nil && (m.anyNF || m.anyBand) {
		panic("sampling sub-space: a sample point left the image")
	}
	skipped := 0
	for _, c := range m.cells {
		if c.nearB {
			skipped++
		}
	}
	l.Count("cells-skipped-within-1/64-of-a-pixel-boundary", int64(skipped))
	l.Count("cells-compared", int64(len(m.cells)-skipped)*int64(2*len(imageKinds)))
	kinds := imageKinds
	if fixed != nil {
		kinds = []string{fixed.Image}
	}
	for _, kind := range kinds {
		img := makeImage(kind, w, h)
		rc := rcase{Kind: "sample", DimX: dx, DimY: dy, Class: xf.class, Src: xf.to, Dst: from, W: w, H: h, Image: kind}
		sampleBoth(img, dx, dy, xf.to, from, func(api string, res *gozxing.BitMatrix, err error, pm, site string) {
			l.Count("evaluations", 1)
			if pm != "" {
				chk.Violation("C19/panic/"+site, fmt.Sprintf("panic %s in %s, grid %dx%d, %s/%s, image %s %dx%d", pm, api, dx, dy, xf.class, xf.member, kind, w, h), rc)
				return
			}
			verdict, what, _ := m.judge(kind, res, err)
			if fixed != nil && fixed.Kind != "sample-fixed" {
				fmt.Printf("replay %s: err=%v verdict=%q %s\n", api, err, verdict, what)
			}
			switch verdict {
			case "":
				if len(m.cells) > skipped {
					l.Distinct("nontrivial", fmt.Sprint("S", dx, dy, xf.class, xf.member, kind))
				}
			case "bit":
				chk.Violation("C19/sample/bit/"+xf.class, fmt.Sprintf("%s grid %dx%d, %s/%s (to %v from %v), image %dx%d: %s", api, dx, dy, xf.class, xf.member, xf.to, from, w, h, what), rc)
			default:
				chk.Violation("C19/sample/"+verdict+"/"+xf.class, fmt.Sprintf("%s grid %dx%d, %s/%s (to %v from %v), image %dx%d: %s", api, dx, dy, xf.class, xf.member, xf.to, from, w, h, what), rc)
			}
		})
	}
	l.Distinct("outcomes", "S "+xf.class)
}

// runExactLattice: upright grids at an EVEN number of pixels per module with exactly known
// reference points (the detectors' 3.5-module offsets): every cell centre maps exactly onto an
// integer pixel coordinate k, every intermediate value of the documented formula is exactly
// representable, and the pixel under the centre is pixel k (the half-open pixel [k, k+1)). The other
// sampling sub-spaces stay 1/64 pixel away from pixel boundaries; here the boundary itself is the
// subject. Image: a pixel-level checkerboard (every neighbour differs).
type latticeCase struct {
	Kind   string // "exact-lattice"
	Dim    int
	Scale  int
	Ox, Oy int
}

func latticeOne(l *mc.Local, c latticeCase) {
	w, h := c.Ox+c.Scale*c.Dim+3, c.Oy+c.Scale*c.Dim+4
	img, _ := gozxing.NewBitMatrix(w, h)
	for y := 0; y < h; y++ {
		for x := 0; x < w; x++ {
			if (x+y)&1 == 1 {
				img.Set(x, y)
			}
		}
	}
	lo, hi := 3.5, float64(c.Dim)-3.5
	s := float64(c.Scale)
	ox, oy := float64(c.Ox), float64(c.Oy)
	var bits *gozxing.BitMatrix
	var err error
	pm, site := mc.Guard(func() {
		bits, err = common.NewDefaultGridSampler().SampleGrid(img, c.Dim, c.Dim,
			lo, lo, hi, lo, hi, hi, lo, hi,
			ox+s*lo, oy+s*lo, ox+s*hi, oy+s*lo, ox+s*hi, oy+s*hi, ox+s*lo, oy+s*hi)
	})
	l.Count("evaluations", 1)
	switch {
	case pm != "":
		chk.Violation("C19/panic/"+site+"/exact-lattice", fmt.Sprintf("%+v: %s", c, pm), c)
		return
	case err != nil || bits == nil:
		chk.Violation("C19/sample/unexpected-error/exact-lattice", fmt.Sprintf("%+v: every cell centre is inside the image, SampleGrid failed: %v", c, err), c)
		return
	}
	half := c.Scale / 2
	for y := 0; y < c.Dim; y++ {
		for x := 0; x < c.Dim; x++ {
			px, py := c.Ox+c.Scale*x+half, c.Oy+c.Scale*y+half
			if bits.Get(x, y) != img.Get(px, py) {
				chk.Violation("C19/sample/bit/exact-lattice", fmt.Sprintf("%+v: cell (%d,%d), whose centre maps exactly onto (%d,%d), is %v; pixel (%d,%d) is %v", c, x, y, px, py, bits.Get(x, y), px, py, img.Get(px, py)), c)
				return
			}
		}
	}
	l.Distinct("nontrivial", fmt.Sprint("lattice", c))
}

func runExactLattice() {
	var cases []latticeCase
	maxDim := chk.Pick(64, 177)
	for _, sc := range []int{2, 4, 6} {
		for dim := 8; dim <= maxDim; dim++ {
			cases = append(cases, latticeCase{"exact-lattice", dim, sc, 5, 9}, latticeCase{"exact-lattice", dim, sc, 0, 0})
		}
	}
	chk.Range(fmt.Sprintf("sampling: upright grids of %d..%d cells at 2, 4 and 6 pixels per module with exact reference points (every cell centre exactly on an integer pixel coordinate), pixel-level checkerboard image, origins (5,9) and (0,0): every cell == the pixel [k,k+1) that holds its centre", 8, maxDim), len(cases),
		func(i int) string { return fmt.Sprintf("%+v", cases[i]) },
		func(l *mc.Local, i int) { latticeOne(l, cases[i]) })
}
