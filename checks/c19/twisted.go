package main

// "Twisted" projective maps: the vanishing line of the transform crosses the sampled grid between
// two cell centres of a row, so a row's first and last sample points lie inside the image while
// an INTERIOR point lies outside (the end-point nudge does not see it). Source quadrilateral: the
// unit square (convex), destination: a convex trapezoid; the 3x1 (1x3) grid extends beyond the
// source square, as a QR grid extends beyond its finder-pattern quadrilateral.
//
// For EVERY image width 8..80 (height likewise for the transposed variant) and every overshoot
// f in {1/8 .. 7/8, 1 1/4, 2 1/2} of the middle point beyond the right (bottom) edge, and beyond
// the left (top) edge by the same amounts, the sampler must answer NotFoundException, or - if it
// answers at all - with the pixel of the nearest edge column/row for the overshooting cell (what
// nudging does for end points) and the exact pixels for the other two cells. A bit that belongs
// to no pixel of the image is the violation.

import (
	"fmt"

	"verif/mc"

	"github.com/makiuchi-d/gozxing"
	"github.com/makiuchi-d/gozxing/common"
)

type twistCase struct {
	Kind      string // "twisted"
	N         int    // image extent along the overshooting axis
	Over      float64
	LowSide   bool // overshoot beyond the low edge (coordinate -Over) instead of the high edge (N+Over)
	Transpose bool
	Image     string
}

func twistOne(l *mc.Local, c twistCase) {
	// 1-D map t -> (a t + b)/(1 - t/2), pole at t = 2; cell centres t = 0.5, 1.5, 2.5
	target := float64(c.N) - 1 + 1 + c.Over // N + Over - ... written out: the middle point lands at N + Over - 1 + 1
	target = float64(c.N) + c.Over
	if c.LowSide {
		target = -c.Over
	}
	p3 := 3.5
	p1 := (p3 + 2*target) / 3
	if c.LowSide {
		// keep the two end points inside: choose p1 near the high side
		p1 = float64(c.N) - 3.5
		p3 = 3*p1 - 2*target
	}
	a := 0.25*target - 0.75*p1
	b := 0.75*p1 - 0.5*a
	if p3 < 2 || p3 > float64(c.N)-2 || p1 < 2 || p1 > float64(c.N)-2 {
		l.Count("twisted_skipped_ends_not_inside", 1)
		return
	}
	// corners of the unit square under x' = (a x + b)/(1 - x/2), y' = (-2.75 x + y + 5)/(1 - x/2)
	q := [8]float64{b, 5, 2 * (a + b), 4.5, 2 * (a + b), 6.5, b, 6}
	src := [8]float64{0, 0, 1, 0, 1, 1, 0, 1}
	w, h, dx, dy := c.N, 12, 3, 1
	if c.Transpose {
		for i := 0; i < 8; i += 2 {
			q[i], q[i+1] = q[i+1], q[i]
			src[i], src[i+1] = src[i+1], src[i]
		}
		w, h, dx, dy = 12, c.N, 1, 3
	}
	img := makeImage(c.Image, w, h)
	pix := func(x, y int) bool { return pixel(c.Image, x, y, w, h) }
	centre := [3]float64{p1, target, p3}
	var res *gozxing.BitMatrix
	var err error
	l.Beat(fmt.Sprintf("twisted %+v", c))
	pm, site := mc.Guard(func() {
		t := common.PerspectiveTransform_QuadrilateralToQuadrilateral(src[0], src[1], src[2], src[3], src[4], src[5], src[6], src[7], q[0], q[1], q[2], q[3], q[4], q[5], q[6], q[7])
		res, err = common.NewDefaultGridSampler().SampleGridWithTransform(img, dx, dy, t)
	})
	l.Count("evaluations", 1)
	side := map[bool]string{false: "high", true: "low"}[c.LowSide]
	axis := map[bool]string{false: "x", true: "y"}[c.Transpose]
	key := fmt.Sprintf("C19/twisted/%s-%s", axis, side)
	if pm != "" {
		chk.Violation("C19/panic/"+site+"/twisted", fmt.Sprintf("%+v: panic %s", c, pm), c)
		return
	}
	if err != nil {
		if !isNotFound(err) {
			chk.Violation(key+"/errkind", fmt.Sprintf("%+v: error %T is not a NotFoundException", c, err), c)
		}
		l.Distinct("outcomes", "twisted/notfound/"+side)
		l.Distinct("nontrivial", fmt.Sprintf("twisted %+v", c))
		return
	}
	for k := 0; k < 3; k++ {
		coord := centre[k]
		edge := int(coord)
		if coord < 0 {
			edge = 0
		}
		if edge > c.N-1 {
			edge = c.N - 1
		}
		if k == 1 && (c.Over >= 1 && !c.LowSide || c.Over > 1 && c.LowSide) {
			chk.Violation(key+"/notfound-expected", fmt.Sprintf("%+v: no error although the middle sample point lies at %v, more than one pixel outside the %dx%d image", c, coord, w, h), c)
			return
		}
		var got, want bool
		if c.Transpose {
			got, want = res.Get(0, k), pix(5, edge)
		} else {
			got, want = res.Get(k, 0), pix(edge, 5)
		}
		if got != want {
			what := "exact pixel"
			if k == 1 {
				what = "nearest edge pixel (the only pixel a nudge could pull the point onto)"
			}
			chk.Violation(key+"/bit", fmt.Sprintf("%+v: cell %d (sample coordinate %v along %s) is %v without an error; the %s is %v - the sampler reports a bit that is no pixel of the image", c, k, coord, axis, got, what, want), c)
			return
		}
	}
	l.Distinct("outcomes", "twisted/sampled/"+side)
	l.Distinct("nontrivial", fmt.Sprintf("twisted %+v", c))
}

func runTwisted() {
	var cases []twistCase
	overs := []float64{0.125, 0.25, 0.375, 0.5, 0.625, 0.75, 0.875, 1.25, 2.5}
	for n := 8; n <= 80; n++ {
		for _, o := range overs {
			for _, low := range []bool{false, true} {
				for _, tr := range []bool{false, true} {
					for _, im := range []string{"ring", "hashA"} {
						cases = append(cases, twistCase{"twisted", n, o, low, tr, im})
					}
				}
			}
		}
	}
	chk.Range("twisted transforms (vanishing line between two cell centres of a row; convex source and destination quadrilaterals, 3x1 and 1x3 grids): EVERY image extent 8..80 x interior-point overshoot {1/8..7/8, 1 1/4, 2 1/2} beyond the high and the low edge x both axes x images {ring, hashA}: NotFoundException, or the edge pixel - never a bit that is no pixel of the image", len(cases),
		func(i int) string { return fmt.Sprintf("%+v", cases[i]) },
		func(l *mc.Local, i int) { twistOne(l, cases[i]) })
	chk.Sample("twisted", twistCase{"twisted", 32, 0.5, false, false, "ring"})
}
