// C19 — grid sampling and perspective mapping are geometrically exact and bounded.
//
// Three families of sub-spaces, all enumerated completely on the real library code:
//
//	(a) transform.go  PerspectiveTransform_* against the unique projective map through the four point
//	                  pairs, solved exactly over the rationals (exact.go);
//	(b) sample.go     SampleGrid / SampleGridWithTransform against pixel(floor(T(x+1/2, y+1/2)));
//	(c) nudge.go      GridSampler_checkAndNudgePoints directly and through SampleGrid with translated
//	                  and rotated grids, per image edge and per nudge pass.
//
// The oracle is geometry computed exactly (math/big.Rat for the 8x8 system, math/big.Int for the
// homogeneous evaluation of the solved map); nothing of the library is re-used.
package main

import (
	"fmt"
	"os"
	"runtime/debug"
	"strings"

	"verif/mc"

	"github.com/makiuchi-d/gozxing"
)

var chk *mc.Check

// rcase is the replay record of every kind of case of this check.
type rcase struct {
	Kind       string     // transform | s2q | q2s | sample | nudge-direct | nudge-sample
	Src        [8]float64 `json:",omitempty"` // transform: source quadrilateral x0,y0..x3,y3 (sample: grid side, "To")
	Dst        [8]float64 `json:",omitempty"` // transform: destination quadrilateral (sample: image side, "From")
	DimX       int        `json:",omitempty"`
	DimY       int        `json:",omitempty"`
	W          int        `json:",omitempty"` // image size
	H          int        `json:",omitempty"`
	Image      string     `json:",omitempty"` // hashA | hashB | checker | ring
	Class      string     `json:",omitempty"` // transform class (sample) / free text
	Points     []float64  `json:",omitempty"` // nudge-direct: the points handed to checkAndNudgePoints
	PointsText []string   `json:",omitempty"` // the same points as text when one of them is not finite (JSON has no NaN / Inf); Points is empty then
}

func main() {
	debug.SetGCPercent(400) // the oracle allocates many small big.Int values
	chk = mc.New("C19", "exploration")
	chk.Rule = "complete products: (source quadrilateral lattice x destination family) for the transform; (grid dimensions x dyadic transform classes x images) for sampling; (image x point count x first/last point x 1/8-pixel offset lattice on x and y) and (image x grid x 8 orientations x 1/8-pixel 2-D translation lattice) for nudging. non-trivial = distinct (source,destination) pairs; distinct (dims,transform,image) grids with every cell compared; distinct nudge inputs whose outcome class (pixel kept, pulled to an edge, not-found) is decided by the exact model"
	chk.Assume("'1e-6 relative' is read as |library - exact| <= 1e-6 * max(1, |exact x|, |exact y|) per point; probe points whose exact denominator is below 1/16 of the magnitude of its terms (i.e. near the line mapped to infinity, where cancellation is unbounded) are skipped by an exact rational test")
	chk.Assume("nudge band (DESIGN.md section 7): a sample coordinate in (-2,-1) may either be pulled to 0 or be rejected with NotFoundException; <= -2 and >= size+1 must be NotFoundException; [-1,0) -> 0, [size,size+1) -> size-1")
	chk.Assume("GridSampler_checkAndNudgePoints is compared after truncation toward zero (int(coordinate)), which is how the sampler consumes the result; a coordinate in (-1,0) that is left unchanged therefore counts as pulled to 0; points that are neither the first nor the last of the row are kept inside the image")
	chk.Assume("TransformPoints with an odd number of floats: only absence of a panic and correct transformation of the complete pairs is required (the trailing float is not examined)")
	chk.Assume("sampling sub-spaces compare only cells whose exact sample coordinates are at least 1/64 pixel away from a pixel boundary (the count of skipped cells is reported); SampleGrid nudge sweeps use translation lattices on which no sample coordinate is an integer; the direct nudge sub-space includes exact integers, where no floating-point transform precedes the decision")
	chk.Assume("exception to the 1/64-pixel margin: upright grids at an even number of pixels per module with exactly known reference points put every cell centre exactly on an integer coordinate k with every intermediate value exactly representable; there the pixel under the centre is pixel k of the half-open raster [k, k+1) and is required exactly (sub-space 'exact lattice')")
	chk.Assume("all grids used for nudging are images of straight rows under affine maps, so 'some sample point is two or more pixels outside' and 'an end point of its row is' coincide")
	if chk.ReplayFile() != "" {
		replay()
		chk.Finish()
	}
	selfCheck()
	// C19_ONLY=transform,sample,direct,sweep restricts the run for debugging; the run is then
	// recorded as not exhaustive.
	only := os.Getenv("C19_ONLY")
	for _, s := range []struct {
		name string
		run  func()
	}{{"transform", runTransform}, {"sample", runSample}, {"lattice", runExactLattice}, {"direct", runNudgeDirect}, {"sweep", runNudgeSample}, {"slanted", runNudgeAffine}, {"twisted", runTwisted}} {
		if only == "" || strings.Contains(only, s.name) {
			s.run()
		} else {
			chk.Incomplete(s.name, "skipped by C19_ONLY="+only)
		}
	}
	chk.Finish()
}

// ---------------------------------------------------------------- images

var imageKinds = []string{"hashA", "hashB", "ring", "checker"}

func mix(x, y int) uint32 {
	h := uint32(x)*0x9E3779B1 ^ uint32(y)*0x85EBCA77
	h ^= h >> 15
	h *= 0x2C1B3C6D
	h ^= h >> 12
	h *= 0x297A2D39
	h ^= h >> 15
	return h
}

// pixel is the content of image kind at (x,y): position-coded hashes (a displaced sample shows),
// a ring (outermost pixels set, everything else clear: a sample that is not pulled onto the edge
// shows) and a checkerboard.
func pixel(kind string, x, y, w, h int) bool {
	switch kind {
	case "hashA":
		return mix(x, y)&(1<<7) != 0
	case "hashB":
		return mix(x, y)&(1<<19) != 0
	case "ring":
		return x == 0 || y == 0 || x == w-1 || y == h-1
	case "checker":
		return (x+y)&1 != 0
	}
	panic("image kind " + kind)
}

func makeImage(kind string, w, h int) *gozxing.BitMatrix {
	m, err := gozxing.NewBitMatrix(w, h)
	if err != nil {
		panic(err)
	}
	for y := 0; y < h; y++ {
		for x := 0; x < w; x++ {
			if pixel(kind, x, y, w, h) {
				m.Set(x, y)
			}
		}
	}
	return m
}

func isNotFound(err error) bool {
	_, ok := err.(gozxing.NotFoundException)
	return ok
}

// ---------------------------------------------------------------- self checks of the oracle

func selfCheck() {
	// the exact solver reproduces a map that is known in closed form: (x,y) -> (x/(x+y+1), y/(x+y+1))
	src := quadF([8]float64{0, 0, 1, 0, 1, 1, 0, 1})
	dst := [4]pt{{ri(0, 1), ri(0, 1)}, {ri(1, 2), ri(0, 1)}, {ri(1, 3), ri(1, 3)}, {ri(0, 1), ri(1, 2)}}
	p, ok := solveProjective(src, dst)
	if !ok {
		panic("self check: singular")
	}
	u, v, _, _ := p.apply(ri(3, 1), ri(5, 1))
	if u.Cmp(ri(3, 9)) != 0 || v.Cmp(ri(5, 9)) != 0 {
		panic(fmt.Sprintf("self check: exact solver gives %v,%v", u, v))
	}
	// the integer homogeneous form agrees with the rational evaluation (a perspective map, a lattice of points)
	pp, _ := solveProjective(quadF([8]float64{3.5, 3.5, 17.5, 3.5, 14.5, 14.5, 3.5, 17.5}), quadF([8]float64{0.125, 0.25, 42.5, 0.75, 41.75, 42.5, -0.375, 41.875}))
	ip := pp.integer()
	for j := -8; j <= 40; j++ {
		for i := -8; i <= 40; i++ {
			x, y := float64(i)*0.75, float64(j)*0.625
			u1, v1, den, mag := pp.apply(rf(x), rf(y))
			u2, v2, hz := ip.applyH(homog(x, y))
			if (u1 == nil) != (u2 == nil) || (u1 != nil && (u1.Cmp(u2) != 0 || v1.Cmp(v2) != 0 || hz != (rmul(rabs(den), ri(16, 1)).Cmp(mag) < 0))) {
				panic(fmt.Sprintf("self check: integer and rational evaluation differ at (%v,%v)", x, y))
			}
		}
	}
	if floorRat(ri(-1, 8)) != -1 || floorRat(ri(-8, 8)) != -1 || floorRat(ri(15, 8)) != 1 || floorRat(ri(0, 1)) != 0 {
		panic("self check: floor")
	}
	if !nearBoundary(ri(641, 640)) || nearBoundary(ri(5, 8)) || !nearBoundary(ri(3, 1)) || !nearBoundary(ri(-1, 100)) {
		panic("self check: nearBoundary")
	}
	for _, t := range []struct {
		num, den int64
		n        int
		cl, pix  int
		dir      int
	}{
		{-2, 1, 5, clNF, 0, -1}, {-17, 8, 5, clNF, 0, -1}, {-15, 8, 5, clBand, 0, -1}, {-1, 1, 5, clLow, 0, -1}, {-1, 8, 5, clLow, 0, -1},
		{0, 1, 5, clIn, 0, 0}, {39, 8, 5, clIn, 4, 0}, {5, 1, 5, clHigh, 4, 1}, {47, 8, 5, clHigh, 4, 1}, {6, 1, 5, clNF, 0, 1}, {100, 1, 5, clNF, 0, 1},
	} {
		cl, pix, dir := classify(ri(t.num, t.den), t.n)
		if cl != t.cl || dir != t.dir || (cl != clNF && pix != t.pix) {
			panic(fmt.Sprintf("self check: classify(%d/%d,%d) = %d,%d,%d", t.num, t.den, t.n, cl, pix, dir))
		}
	}
	chk.Subspace("oracle self-checks (closed-form projective map, floor, boundary distance, nudge classes)", "passed")
}
