package main

// Exact reference geometry for C19. Everything here is rational arithmetic (math/big.Rat); no
// code of the library is used. Inputs are float64 values that are converted exactly.

import (
	"math/big"
)

type pt struct{ x, y *big.Rat }

func rf(f float64) *big.Rat {
	r := new(big.Rat)
	if r.SetFloat64(f) == nil {
		panic("non-finite input to the exact model")
	}
	return r
}

func ri(n, d int64) *big.Rat { return big.NewRat(n, d) }

func radd(a, b *big.Rat) *big.Rat { return new(big.Rat).Add(a, b) }
func rsub(a, b *big.Rat) *big.Rat { return new(big.Rat).Sub(a, b) }
func rmul(a, b *big.Rat) *big.Rat { return new(big.Rat).Mul(a, b) }
func rabs(a *big.Rat) *big.Rat    { return new(big.Rat).Abs(a) }

// quadF turns x0,y0,...,x3,y3 into four exact points.
func quadF(q [8]float64) [4]pt {
	var p [4]pt
	for i := 0; i < 4; i++ {
		p[i] = pt{rf(q[2*i]), rf(q[2*i+1])}
	}
	return p
}

// cross returns (b-a) x (c-b).
func cross(a, b, c pt) *big.Rat {
	return rsub(rmul(rsub(b.x, a.x), rsub(c.y, b.y)), rmul(rsub(b.y, a.y), rsub(c.x, b.x)))
}

// strictlyConvex: all four turns have the same non-zero sign (either orientation).
func strictlyConvex(q [4]pt) bool {
	s := 0
	for i := 0; i < 4; i++ {
		c := cross(q[i], q[(i+1)%4], q[(i+2)%4]).Sign()
		if c == 0 {
			return false
		}
		if s == 0 {
			s = c
		} else if c != s {
			return false
		}
	}
	return true
}

// proj is the projective map (x,y) -> ((h0 X + h1 Y + h2)/(h6 X + h7 Y + 1), (h3 X + h4 Y + h5)/(same))
// with X = x-ox, Y = y-oy. Shifting the source so that its first corner is the origin makes the
// normalisation h8 = 1 always possible (that corner has a finite image).
type proj struct {
	h      [8]*big.Rat
	ox, oy *big.Rat
}

// solveProjective returns the unique projective map taking src[i] to dst[i]: the 8x8 linear
// system
//
//	h0 X + h1 Y + h2 - u X h6 - u Y h7 = u
//	h3 X + h4 Y + h5 - v X h6 - v Y h7 = v      (one pair of rows per point pair)
//
// solved by Gauss-Jordan elimination over the rationals. ok=false if the system is singular.
func solveProjective(src, dst [4]pt) (*proj, bool) {
	var m [8][9]*big.Rat
	cp := func(r *big.Rat) *big.Rat { return new(big.Rat).Set(r) } // entries are updated in place: no sharing
	for i := 0; i < 4; i++ {
		X := rsub(src[i].x, src[0].x)
		Y := rsub(src[i].y, src[0].y)
		u, v := dst[i].x, dst[i].y
		m[2*i] = [9]*big.Rat{cp(X), cp(Y), ri(1, 1), ri(0, 1), ri(0, 1), ri(0, 1), new(big.Rat).Neg(rmul(u, X)), new(big.Rat).Neg(rmul(u, Y)), cp(u)}
		m[2*i+1] = [9]*big.Rat{ri(0, 1), ri(0, 1), ri(0, 1), cp(X), cp(Y), ri(1, 1), new(big.Rat).Neg(rmul(v, X)), new(big.Rat).Neg(rmul(v, Y)), cp(v)}
	}
	t := new(big.Rat)
	for c := 0; c < 8; c++ {
		p := -1
		for r := c; r < 8; r++ {
			if m[r][c].Sign() != 0 {
				p = r
				break
			}
		}
		if p < 0 {
			return nil, false
		}
		m[c], m[p] = m[p], m[c]
		inv := new(big.Rat).Inv(m[c][c])
		for k := c; k < 9; k++ {
			m[c][k].Mul(m[c][k], inv)
		}
		for r := 0; r < 8; r++ {
			if r == c || m[r][c].Sign() == 0 {
				continue
			}
			f := cp(m[r][c])
			for k := c; k < 9; k++ {
				if m[c][k].Sign() != 0 {
					m[r][k].Sub(m[r][k], t.Mul(f, m[c][k]))
				}
			}
		}
	}
	pr := &proj{ox: src[0].x, oy: src[0].y}
	for i := 0; i < 8; i++ {
		pr.h[i] = m[i][8]
	}
	return pr, true
}

// apply evaluates the map exactly. den is the exact denominator, mag = |h6 x| + |h7 y| + |1 - h6 ox - h7 oy|
// (the size of the terms whose sum is den, written for unshifted x,y): den/mag tells how close the
// point is to the line that is mapped to infinity, independent of the scaling of the matrix.
func (p *proj) apply(x, y *big.Rat) (u, v, den, mag *big.Rat) {
	X := rsub(x, p.ox)
	Y := rsub(y, p.oy)
	den = radd(radd(rmul(p.h[6], X), rmul(p.h[7], Y)), ri(1, 1))
	c := rsub(rsub(ri(1, 1), rmul(p.h[6], p.ox)), rmul(p.h[7], p.oy))
	mag = radd(radd(rabs(rmul(p.h[6], x)), rabs(rmul(p.h[7], y))), rabs(c))
	if den.Sign() == 0 {
		return nil, nil, den, mag
	}
	nu := radd(radd(rmul(p.h[0], X), rmul(p.h[1], Y)), p.h[2])
	nv := radd(radd(rmul(p.h[3], X), rmul(p.h[4], Y)), p.h[5])
	return new(big.Rat).Quo(nu, den), new(big.Rat).Quo(nv, den), den, mag
}

// iproj is the same map as a 3x3 integer matrix acting on homogeneous integer points: the rational
// matrix [h0 h1 h2-h0 ox-h1 oy; h3 h4 h5-h3 ox-h4 oy; h6 h7 1-h6 ox-h7 oy] multiplied by the least
// common multiple of its denominators. It exists only to make evaluation cheap (selfCheck compares
// it with apply).
type iproj struct{ a [9]*big.Int }

func (p *proj) integer() *iproj {
	c := func(a, b, k *big.Rat) *big.Rat { return rsub(rsub(k, rmul(a, p.ox)), rmul(b, p.oy)) }
	rows := [9]*big.Rat{p.h[0], p.h[1], c(p.h[0], p.h[1], p.h[2]), p.h[3], p.h[4], c(p.h[3], p.h[4], p.h[5]), p.h[6], p.h[7], c(p.h[6], p.h[7], ri(1, 1))}
	L := big.NewInt(1)
	for _, r := range rows {
		g := new(big.Int).GCD(nil, nil, L, r.Denom())
		L.Mul(L, new(big.Int).Quo(r.Denom(), g))
	}
	q := &iproj{}
	for i, r := range rows {
		q.a[i] = new(big.Int).Mul(r.Num(), new(big.Int).Quo(L, r.Denom()))
	}
	return q
}

// applyHInt maps the point (xn/d, yn/d) to the homogeneous integer point (U0:U1:U2): u = U0/U2,
// v = U1/U2. horizon reports |U2| < mag/16 with mag = |a6 xn| + |a7 yn| + |a8 d| (the same test as
// in apply, independent of scaling), and also U2 = 0.
func (q *iproj) applyHInt(xn, yn, d *big.Int) (U [3]*big.Int, horizon bool) {
	mag := new(big.Int)
	t := new(big.Int)
	for r := 0; r < 3; r++ {
		s := new(big.Int).Mul(q.a[3*r], xn)
		if r == 2 {
			mag.Abs(s)
		}
		t.Mul(q.a[3*r+1], yn)
		s.Add(s, t)
		if r == 2 {
			mag.Add(mag, new(big.Int).Abs(t))
		}
		t.Mul(q.a[3*r+2], d)
		s.Add(s, t)
		if r == 2 {
			mag.Add(mag, new(big.Int).Abs(t))
		}
		U[r] = s
	}
	if U[2].Sign() == 0 {
		return U, true
	}
	return U, new(big.Int).Lsh(new(big.Int).Abs(U[2]), 4).Cmp(mag) < 0
}

// applyH is applyHInt with the result as exact rationals (nil, nil at infinity).
func (q *iproj) applyH(xn, yn, d *big.Int) (u, v *big.Rat, horizon bool) {
	U, hz := q.applyHInt(xn, yn, d)
	if U[2].Sign() == 0 {
		return nil, nil, true
	}
	return new(big.Rat).SetFrac(U[0], U[2]), new(big.Rat).SetFrac(U[1], U[2]), hz
}

// intF converts an integer to the nearest float64 (relative error <= 2^-53).
func intF(x *big.Int) float64 {
	if x.IsInt64() {
		return float64(x.Int64())
	}
	f, _ := new(big.Float).SetInt(x).Float64()
	return f
}

// quoF is num/den rounded to float64 with relative error below 4 * 2^-53 (two conversions and one
// division), which is ten orders of magnitude below the tolerance it is used with.
func quoF(num, den *big.Int) float64 { return intF(num) / intF(den) }

// homog writes the exactly converted floats x, y over a common denominator.
func homog(x, y float64) (xn, yn, d *big.Int) { return homogR(rf(x), rf(y)) }

func homogR(rx, ry *big.Rat) (xn, yn, d *big.Int) {
	d = new(big.Int).Mul(rx.Denom(), ry.Denom())
	return new(big.Int).Mul(rx.Num(), ry.Denom()), new(big.Int).Mul(ry.Num(), rx.Denom()), d
}

// floorRat returns floor(r) (big.Int.Div is Euclidean; a Rat's denominator is positive).
func floorRat(r *big.Rat) int64 {
	q := new(big.Int).Div(r.Num(), r.Denom())
	if !q.IsInt64() {
		panic("floor out of range")
	}
	return q.Int64()
}

// nearBoundary: r is within 1/64 of an integer.
func nearBoundary(r *big.Rat) bool {
	rem := new(big.Int).Mod(r.Num(), r.Denom()) // 0 <= rem < denom; rem/denom is the fractional part
	rem.Lsh(rem, 6)
	return rem.Cmp(r.Denom()) < 0 || rem.Cmp(new(big.Int).Mul(r.Denom(), big.NewInt(63))) > 0
}

// ---------------------------------------------------------------- nudging model

// Classes of one coordinate c of a sample point against an image extent n (width or height), per
// the property: [-1,0) -> 0; [n,n+1) -> n-1; c <= -2 or c >= n+1 -> not found; (-2,-1): DESIGN.md
// section 7 accepts either not-found or 0.
const (
	clIn   = iota // 0 <= c < n: pixel floor(c)
	clLow         // -1 <= c < 0: pixel 0
	clBand        // -2 < c < -1: pixel 0 or not-found
	clHigh        // n <= c < n+1: pixel n-1
	clNF          // c <= -2 or c >= n+1
)

// classify returns the class, the model pixel index (valid unless clNF) and whether c is beyond the
// low (-1) or the high (+1) edge (0 when inside).
func classify(c *big.Rat, n int) (class int, pix int, dir int) {
	f := floorRat(c)
	switch {
	case f <= -3 || (f == -2 && c.IsInt()): // c <= -2
		return clNF, 0, -1
	case f == -2: // -2 < c < -1
		return clBand, 0, -1
	case f == -1: // -1 <= c < 0
		return clLow, 0, -1
	case f < int64(n):
		return clIn, int(f), 0
	case f == int64(n): // n <= c < n+1
		return clHigh, n - 1, 1
	}
	return clNF, 0, 1
}

func sideName(axisY bool, dir int) string {
	switch {
	case !axisY && dir < 0:
		return "left"
	case !axisY && dir > 0:
		return "right"
	case axisY && dir < 0:
		return "top"
	case axisY && dir > 0:
		return "bottom"
	}
	return "inside"
}
