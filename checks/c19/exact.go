package main

// Exact reference geometry for C19. Everything here is rational arithmetic (math/big.Rat); no
// code of the library is used. Inputs are float64 values that are converted exactly.

import (
	"math/big"
)

type pt struct{ x, y *big.Rat }

func rf(f float64) *big.Rat {
	r := new(big.Rat)
	if r.SetFloat64(f) == nil {
		panic("non-finite input to the exact model")
	}
	return r
}

func ri(n, d int64) *big.Rat { return big.NewRat(n, d) }

func radd(a, b *big.Rat) *big.Rat { return new(big.Rat).Add(a, b) }
func rsub(a, b *big.Rat) *big.Rat { return new(big.Rat).Sub(a, b) }
func rmul(a, b *big.Rat) *big.Rat { return new(big.Rat).Mul(a, b) }
func rabs(a *big.Rat) *big.Rat    { return new(big.Rat).Abs(a) }

// quadF turns x0,y0,...,x3,y3 into four exact points.
func quadF(q [8]float64) [4]pt {
	var p [4]pt
	for i := 0; i < 4; i++ {
		p[i] = pt{rf(q[2*i]), rf(q[2*i+1])}
	}
	return p
}

// cross returns (b-a) x (c-b).
func cross(a, b, c pt) *big.Rat {
	return rsub(rmul(rsub(b.x, a.x), rsub(c.y, b.y)), rmul(rsub(b.y, a.y), rsub(c.x, b.x)))
}

// strictlyConvex: all four turns have the same non-zero sign (either orientation).
func strictlyConvex(q [4]pt) bool {
	s := 0
	for i := 0; i < 4; i++ {
		c := cross(q[i], q[(i+1)%4], q[(i+2)%4]).Sign()
		if c == 0 {
			return false
		}
		if s == 0 {
			s = c
		} else if c != s {
			return false
		}
	}
	return true
}

// proj is the projective map (x,y) -> ((h0 X + h1 Y + h2)/(h6 X + h7 Y + 1), (h3 X + h4 Y + h5)/(same))
// with X = x-ox, Y = y-oy. Shifting the source so that its first corner is the origin makes the
// normalisation h8 = 1 always possible (that corner has a finite image).
type proj struct {
	h      [8]*big.Rat
	ox, oy *big.Rat
}

// solveProjective returns the unique projective map taking src[i] to dst[i]: the 8x8 linear
// system
//
//	h0 X + h1 Y + h2 - u X h6 - u Y h7 = u
//	h3 X + h4 Y + h5 - v X h6 - v Y h7 = v      (one pair of rows per point pair)
//
// solved by Gauss-Jordan elimination over the rationals. ok=false if the system is singular.
func solveProjective(src, dst [4]pt) (*proj, bool) {
	var m [8][9]*big.Rat
	zero := func() *big.Rat { return new(big.Rat) }
	for i := 0; i < 4; i++ {
		X := rsub(src[i].x, src[0].x)
		Y := rsub(src[i].y, src[0].y)
		u, v := dst[i].x, dst[i].y
		m[2*i] = [9]*big.Rat{X, Y, ri(1, 1), zero(), zero(), zero(), new(big.Rat).Neg(rmul(u, X)), new(big.Rat).Neg(rmul(u, Y)), u}
		m[2*i+1] = [9]*big.Rat{zero(), zero(), zero(), X, Y, ri(1, 1), new(big.Rat).Neg(rmul(v, X)), new(big.Rat).Neg(rmul(v, Y)), v}
	}
	for c := 0; c < 8; c++ {
		p := -1
		for r := c; r < 8; r++ {
			if m[r][c].Sign() != 0 {
				p = r
				break
			}
		}
		if p < 0 {
			return nil, false
		}
		m[c], m[p] = m[p], m[c]
		inv := new(big.Rat).Inv(m[c][c])
		for k := c; k < 9; k++ {
			m[c][k] = rmul(m[c][k], inv)
		}
		for r := 0; r < 8; r++ {
			if r == c || m[r][c].Sign() == 0 {
				continue
			}
			f := m[r][c]
			for k := c + 1; k < 9; k++ {
				m[r][k] = rsub(m[r][k], rmul(f, m[c][k]))
			}
			m[r][c] = zero()
		}
	}
	pr := &proj{ox: src[0].x, oy: src[0].y}
	for i := 0; i < 8; i++ {
		pr.h[i] = m[i][8]
	}
	return pr, true
}

// apply evaluates the map exactly. den is the exact denominator, mag = |h6 x| + |h7 y| + |1 - h6 ox - h7 oy|
// (the size of the terms whose sum is den, written for unshifted x,y): den/mag tells how close the
// point is to the line that is mapped to infinity, independent of the scaling of the matrix.
func (p *proj) apply(x, y *big.Rat) (u, v, den, mag *big.Rat) {
	X := rsub(x, p.ox)
	Y := rsub(y, p.oy)
	den = radd(radd(rmul(p.h[6], X), rmul(p.h[7], Y)), ri(1, 1))
	c := rsub(rsub(ri(1, 1), rmul(p.h[6], p.ox)), rmul(p.h[7], p.oy))
	mag = radd(radd(rabs(rmul(p.h[6], x)), rabs(rmul(p.h[7], y))), rabs(c))
	if den.Sign() == 0 {
		return nil, nil, den, mag
	}
	nu := radd(radd(rmul(p.h[0], X), rmul(p.h[1], Y)), p.h[2])
	nv := radd(radd(rmul(p.h[3], X), rmul(p.h[4], Y)), p.h[5])
	return new(big.Rat).Quo(nu, den), new(big.Rat).Quo(nv, den), den, mag
}

// floorRat returns floor(r) (big.Int.Div is Euclidean; a Rat's denominator is positive).
func floorRat(r *big.Rat) int64 {
	q := new(big.Int).Div(r.Num(), r.Denom())
	if !q.IsInt64() {
		panic("floor out of range")
	}
	return q.Int64()
}

var r64th = ri(1, 64)

// nearBoundary: r is within 1/64 of an integer.
func nearBoundary(r *big.Rat) bool {
	fr := rsub(r, new(big.Rat).SetInt64(floorRat(r)))
	return fr.Cmp(r64th) < 0 || fr.Cmp(ri(63, 64)) > 0
}

func f64(r *big.Rat) float64 { f, _ := r.Float64(); return f }

// ---------------------------------------------------------------- nudging model

// Classes of one coordinate c of a sample point against an image extent n (width or height), per
// the property: [-1,0) -> 0; [n,n+1) -> n-1; c <= -2 or c >= n+1 -> not found; (-2,-1): DESIGN.md
// section 7 accepts either not-found or 0.
const (
	clIn   = iota // 0 <= c < n: pixel floor(c)
	clLow         // -1 <= c < 0: pixel 0
	clBand        // -2 < c < -1: pixel 0 or not-found
	clHigh        // n <= c < n+1: pixel n-1
	clNF          // c <= -2 or c >= n+1
)

// classify returns the class, the model pixel index (valid unless clNF) and whether c is beyond the
// low (-1) or the high (+1) edge (0 when inside).
func classify(c *big.Rat, n int) (class int, pix int, dir int) {
	N := new(big.Rat).SetInt64(int64(n))
	switch {
	case c.Cmp(ri(-2, 1)) <= 0:
		return clNF, 0, -1
	case c.Cmp(ri(-1, 1)) < 0:
		return clBand, 0, -1
	case c.Sign() < 0:
		return clLow, 0, -1
	case c.Cmp(N) < 0:
		return clIn, int(floorRat(c)), 0
	case c.Cmp(radd(N, ri(1, 1))) < 0:
		return clHigh, n - 1, 1
	}
	return clNF, 0, 1
}

func sideName(axisY bool, dir int) string {
	switch {
	case !axisY && dir < 0:
		return "left"
	case !axisY && dir > 0:
		return "right"
	case axisY && dir < 0:
		return "top"
	case axisY && dir > 0:
		return "bottom"
	}
	return "inside"
}
