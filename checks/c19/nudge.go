package main

// (c) nudging: GridSampler_checkAndNudgePoints directly, and through SampleGrid with translated
// and rotated grids. Every violation is attributed to one nudge pass (1 = forward from the first
// point of the row, 2 = backward from the last point) and one image side.

import (
	"fmt"
	"math"
	"math/big"
	"sort"
	"strconv"
	"strings"

	"verif/mc"

	"github.com/makiuchi-d/gozxing"
	"github.com/makiuchi-d/gozxing/common"
)

// ---------------------------------------------------------------- direct calls

func insideValue(extent int) float64 { return float64(extent/2) + 0.5 }

// lattice returns the coordinate values tried on an axis of the given extent: one value well
// inside, and edge-1.5 .. edge+1.5 in steps of 1/8 around both edges (exact integers included).
func lattice(extent int) []float64 {
	seen := map[float64]bool{}
	var v []float64
	add := func(f float64) {
		if !seen[f] {
			seen[f] = true
			v = append(v, f)
		}
	}
	add(insideValue(extent))
	for k := -12; k <= 12; k++ {
		add(float64(k) / 8)
		add(float64(extent) + float64(k)/8)
	}
	sort.Float64s(v)
	// far outside, among them values that look like the inside value once cut to 16 / 31 / 32 / 33
	// bits, values beyond the int range, and the three non-finite values (appended after the sort:
	// NaN has no place in an order)
	in := insideValue(extent)
	for _, b := range []float64{1 << 16, 1 << 31, 1 << 32, 1 << 33, 1 << 53, 1 << 62} {
		v = append(v, b, b+in, -b, -b+in)
	}
	v = append(v, 1<<63, -(1 << 63), 1e19, -1e19, math.MaxFloat64, -math.MaxFloat64, math.Inf(1), math.Inf(-1), math.NaN())
	return v
}

// classifyFloat is classifyAxis for any float64: non-finite values and values beyond the range of
// the exact model's integer part are "more than one pixel outside" (NaN is counted to the high side).
func classifyFloat(f float64, extent int) axisClass {
	switch {
	case math.IsNaN(f) || f >= 1<<62:
		return axisClass{cl: clNF, dir: 1}
	case f <= -(1 << 62):
		return axisClass{cl: clNF, dir: -1}
	}
	return classifyAxis(rf(f), extent)
}

func passName(point, n int) string {
	switch {
	case n == 1:
		return "single-point"
	case point == 0:
		return "pass1"
	case point == n-1:
		return "pass2"
	}
	return "interior-point"
}

type directVerdict struct {
	verdict string // "", panic, notfound-expected, errkind, unexpected-error, coord
	coord   int    // index into the float slice of the offending coordinate (coord, notfound-expected)
	what    string
	site    string
	out     []int // indexes of the coordinates that are outside the image per the model
}

// directEval runs checkAndNudgePoints on a copy of in and compares with the model.
func directEval(w, h int, in []float64, cache [2]map[float64]axisClass) directVerdict {
	img, _ := gozxing.NewBitMatrix(w, h)
	pts := append([]float64{}, in...)
	var err error
	pm, site := mc.Guard(func() { err = common.GridSampler_checkAndNudgePoints(img, pts) })
	var v directVerdict
	if pm != "" {
		return directVerdict{verdict: "panic", what: pm, site: site}
	}
	anyBand := false
	firstNF := -1
	pix := make([]int, len(in))
	for i, f := range in {
		ext := w
		if i%2 == 1 {
			ext = h
		}
		ac, hit := cache[i%2][f]
		if !hit {
			ac = classifyFloat(f, ext)
		}
		cl, p := ac.cl, ac.pix
		pix[i] = p
		if cl != clIn {
			v.out = append(v.out, i)
		}
		if cl == clNF && firstNF < 0 {
			firstNF = i
		}
		if cl == clBand {
			anyBand = true
		}
	}
	if firstNF >= 0 {
		if err == nil {
			v.verdict, v.coord = "notfound-expected", firstNF
			v.what = fmt.Sprintf("no error although coordinate %d = %v is two or more pixels outside", firstNF, in[firstNF])
		} else if !isNotFound(err) {
			v.verdict, v.what = "errkind", fmt.Sprintf("error %T is not a NotFoundException", err)
		}
		return v
	}
	if err != nil {
		if !isNotFound(err) {
			v.verdict, v.what = "errkind", fmt.Sprintf("error %T is not a NotFoundException", err)
		} else if !anyBand {
			v.verdict, v.what = "unexpected-error", fmt.Sprintf("error %q although no coordinate is more than one pixel outside", firstLine(err.Error()))
		}
		return v
	}
	for i := range in {
		if got := int(pts[i]); got != pix[i] || pts[i] != pts[i] {
			v.verdict, v.coord = "coord", i
			v.what = fmt.Sprintf("coordinate %d = %v became %v (pixel %d), the model pixel is %d", i, in[i], pts[i], got, pix[i])
			return v
		}
	}
	return v
}

func coordSide(w, h int, in []float64, i int) string {
	ext := w
	if i%2 == 1 {
		ext = h
	}
	return sideName(i%2 == 1, classifyFloat(in[i], ext).dir)
}

// checkDirect evaluates one input and reports a violation under a key that names the pass and side.
func checkDirect(l *mc.Local, w, h int, in []float64, cache [2]map[float64]axisClass) {
	l.Count("evaluations", 1)
	n := len(in) / 2
	v := directEval(w, h, in, cache)
	rc := rcase{Kind: "nudge-direct", W: w, H: h, Points: append([]float64{}, in...)}
	for _, f := range in {
		if math.IsNaN(f) || math.IsInf(f, 0) {
			rc.Points = nil
			for _, g := range in {
				rc.PointsText = append(rc.PointsText, strconv.FormatFloat(g, 'g', -1, 64))
			}
			break
		}
	}
	where := func(i int) string { return passName(i/2, n) + "/" + coordSide(w, h, in, i) }
	desc := fmt.Sprintf("checkAndNudgePoints(image %dx%d, %v): ", w, h, in)
	switch v.verdict {
	case "":
		var o []string
		for _, i := range v.out {
			o = append(o, where(i))
		}
		l.Distinct("outcomes", "D "+strings.Join(o, "+"))
		l.Distinct("nontrivial", fmt.Sprint("D", w, h, in))
	case "panic":
		chk.Violation("C19/panic/"+v.site, desc+"panic "+v.what, rc)
	case "errkind":
		chk.Violation("C19/nudge/errkind", desc+v.what, rc)
	case "notfound-expected":
		chk.Violation("C19/nudge/notfound-expected/"+coordSide(w, h, in, v.coord), desc+v.what+" ("+passName(v.coord/2, n)+")", rc)
	case "coord", "unexpected-error":
		if v.verdict == "coord" && coordSide(w, h, in, v.coord) == "inside" {
			chk.Violation("C19/nudge/inside-changed", desc+v.what, rc)
			return
		}
		if len(v.out) == 1 {
			chk.Violation("C19/nudge/"+where(v.out[0]), desc+v.what, rc)
			return
		}
		// several coordinates are outside the image (a nudged first point makes pass 1 go on to the
		// next point): find one that fails on its own, the offending coordinate first
		order := append([]int{}, v.out...)
		if v.verdict == "coord" {
			order = append([]int{v.coord}, v.out...)
		}
		var all []string
		for _, i := range v.out {
			all = append(all, where(i))
		}
		for _, i := range order {
			red := append([]float64{}, in...)
			for _, j := range v.out {
				if j != i {
					red[j] = insideValue([]int{w, h}[j%2])
				}
			}
			if rv := directEval(w, h, red, cache); rv.verdict != "" {
				chk.Violation("C19/nudge/"+where(i), desc+v.what+" (also alone: "+fmt.Sprint(red)+")", rc)
				return
			}
		}
		chk.Violation("C19/nudge/combined/"+strings.Join(all, "+"), desc+v.what, rc)
	}
}

func runNudgeDirect() {
	images := [][2]int{{5, 7}, {32, 3}, {1, 1}}
	counts := []int{1, 2, 3, 6}
	type job struct {
		w, h, n int
		mode    int // 0: first point (x,y) product; 1: last point (x,y) product; 2..5: first.{x,y} x last.{x,y}
	}
	var jobs []job
	for _, im := range images {
		for _, n := range counts {
			for mode := 0; mode < 6; mode++ {
				if n == 1 && mode > 0 {
					continue
				}
				jobs = append(jobs, job{im[0], im[1], n, mode})
			}
		}
	}
	chk.Range("nudge, direct: images {5x7,32x3,1x1} x rows of {1,2,3,6} points x {first point, last point: every (x,y) of the lattice product; first.{x|y} x last.{x|y}: every pair} on the lattice {inside, edge-1.5..edge+1.5 step 1/8 around both edges, integers included; +-2^b and +-2^b + inside for b in {16,31,32,33,53,62}; +-2^63, +-1e19, +-MaxFloat64, +-Inf, NaN}; other points inside",
		len(jobs), func(i int) string { return fmt.Sprint(jobs[i]) },
		func(l *mc.Local, i int) {
			j := jobs[i]
			lx, ly := lattice(j.w), lattice(j.h)
			cache := [2]map[float64]axisClass{{}, {}}
			for _, x := range lx {
				cache[0][x] = classifyFloat(x, j.w)
			}
			for _, y := range ly {
				cache[1][y] = classifyFloat(y, j.h)
			}
			base := make([]float64, 2*j.n)
			for k := 0; k < j.n; k++ {
				base[2*k], base[2*k+1] = insideValue(j.w), insideValue(j.h)
			}
			last := 2 * (j.n - 1)
			switch j.mode {
			case 0, 1:
				at := 0
				if j.mode == 1 {
					at = last
				}
				for _, y := range ly {
					for _, x := range lx {
						in := append([]float64{}, base...)
						in[at], in[at+1] = x, y
						checkDirect(l, j.w, j.h, in, cache)
					}
				}
			default:
				fa, la := (j.mode-2)&1, (j.mode-2)>>1 // axis of the first / last point that varies
				lf, ll := [][]float64{lx, ly}[fa], [][]float64{lx, ly}[la]
				for _, a := range lf {
					for _, b := range ll {
						in := append([]float64{}, base...)
						in[fa], in[last+la] = a, b
						checkDirect(l, j.w, j.h, in, cache)
					}
				}
			}
		})
	chk.Sample("nudge-direct", rcase{Kind: "nudge-direct", W: 5, H: 7, Points: []float64{2.5, 7.25, 2.5, 3.5}})
}

// ---------------------------------------------------------------- through SampleGrid

// signature lists the (pass, side) pairs of all sample points that are outside the image: points
// of the leading run of outside points of a row belong to pass 1 (a row that is outside as a whole
// is handled completely by pass 1), the others to pass 2.
func (m *gridModel) signature() []string {
	set := map[string]bool{}
	for y := 0; y < m.dy; y++ {
		row := m.cells[y*m.dx : (y+1)*m.dx]
		prefix := 0
		for prefix < m.dx && (row[prefix].dirx != 0 || row[prefix].diry != 0) {
			prefix++
		}
		for x, c := range row {
			pass := "pass2"
			if x < prefix {
				pass = "pass1"
			}
			if c.dirx != 0 {
				set[pass+"/"+sideName(false, c.dirx)] = true
			}
			if c.diry != 0 {
				set[pass+"/"+sideName(true, c.diry)] = true
			}
		}
	}
	var s []string
	for k := range set {
		s = append(s, k)
	}
	sort.Strings(s)
	return s
}

type sweepFail struct {
	verdict, what, api, kind, site string
}

// sweepEval samples the grid (to -> from, exact sample points p) from every image and returns the
// first disagreement with the model, or nil.
func sweepEval(l *mc.Local, imgs map[string]*gozxing.BitMatrix, kinds []string, m *gridModel, to, from [8]float64) *sweepFail {
	var fail *sweepFail
	for _, kind := range kinds {
		sampleBoth(imgs[kind], m.dx, m.dy, to, from, func(api string, res *gozxing.BitMatrix, err error, pm, site string) {
			if l != nil {
				l.Count("evaluations", 1)
			}
			if fail != nil {
				return
			}
			if pm != "" {
				fail = &sweepFail{"panic", "panic " + pm, api, kind, site}
				return
			}
			if verdict, what, _ := m.judge(kind, res, err); verdict != "" {
				fail = &sweepFail{verdict, what, api, kind, ""}
			}
		})
	}
	return fail
}

func shiftQuad(q [8]float64, sx, sy int64) [8]float64 {
	for i := 0; i < 4; i++ {
		q[2*i] += float64(sx)
		q[2*i+1] += float64(sy)
	}
	return q
}

func shiftPts(p []pt, sx, sy int64) []pt {
	bx, by := new(big.Rat).SetInt64(sx), new(big.Rat).SetInt64(sy)
	out := make([]pt, len(p))
	for i := range p {
		out[i] = pt{radd(p[i].x, bx), radd(p[i].y, by)}
	}
	return out
}

// reportSweep turns a disagreement into a violation whose key names pass and side. When points are
// outside on several (pass, side) combinations, the grid is moved by whole pixels along one axis
// until that axis is inside, to find a single combination that fails on its own.
func reportSweep(imgs map[string]*gozxing.BitMatrix, kinds []string, m *gridModel, to, from [8]float64, p []pt, f *sweepFail) {
	rc := rcase{Kind: "nudge-sample", DimX: m.dx, DimY: m.dy, Src: to, Dst: from, W: m.w, H: m.h, Image: f.kind}
	desc := fmt.Sprintf("%s grid %dx%d (to %v from %v), image %s %dx%d: %s", f.api, m.dx, m.dy, to, from, f.kind, m.w, m.h, f.what)
	switch f.verdict {
	case "panic":
		chk.Violation("C19/panic/"+f.site, desc, rc)
		return
	case "errkind":
		chk.Violation("C19/nudge/errkind", desc, rc)
		return
	case "notfound-expected":
		chk.Violation("C19/nudge/notfound-expected/"+m.nfSide, desc, rc)
		return
	}
	sig := m.signature()
	switch len(sig) {
	case 0:
		chk.Violation("C19/sample/"+f.verdict+"/nudge-sweep-inside", desc, rc)
		return
	case 1:
		chk.Violation("C19/nudge/"+sig[0], desc+" ["+f.verdict+"]", rc)
		return
	}
	minx, miny := floorRat(p[0].x), floorRat(p[0].y)
	for _, q := range p {
		minx, miny = min(minx, floorRat(q.x)), min(miny, floorRat(q.y))
	}
	for _, sh := range [][2]int64{{0, -miny}, {-minx, 0}} {
		p2 := shiftPts(p, sh[0], sh[1])
		m2 := buildModel(p2, m.dx, m.dy, m.w, m.h)
		f2 := sweepEval(nil, imgs, kinds, m2, to, shiftQuad(from, sh[0], sh[1]))
		if f2 != nil && f2.verdict != "notfound-expected" && f2.verdict != "errkind" {
			chk.Violation("C19/nudge/"+strings.Join(m2.signature(), "+"), desc+" ["+f.verdict+"; also with the other axis moved inside]", rc)
			return
		}
	}
	chk.Violation("C19/nudge/corner/"+strings.Join(sig, "+"), desc+" ["+f.verdict+"]", rc)
}

// sweepTable holds, for one (grid, image, orientation), the exact base sample points (translation
// 0) and the class of every cell's x coordinate for every x translation k/8 of the lattice, and
// likewise for y: the class of x depends on tx only and the class of y on ty only.
type sweepTable struct {
	to, from0 [8]float64
	base      []pt
	kxs, kys  []int
	xc, yc    map[int][]axisClass
}

func transposing(d int) bool { return d == 1 || d == 3 || d == 4 || d == 7 }

func runNudgeSample() {
	type cfg struct {
		w, h, dx, dy int
	}
	cfgs := []cfg{{9, 7, 4, 3}, {9, 7, 1, 2}, {9, 7, 2, 1}, {32, 5, 4, 3}}
	if !chk.Quick() {
		cfgs = append(cfgs, cfg{32, 5, 1, 2}, cfg{32, 5, 2, 1}, cfg{6, 33, 3, 4})
	}
	kinds := []string{"ring", "hashA", "hashB"}
	// lattice of translations k/8: from 3 pixels outside on the low side to 3 pixels outside on the
	// high side; k = 4 mod 8 would put the sample coordinates (half-integers + k/8) on integers
	span := func(ext, size int) []int {
		var ks []int
		for k := -(ext + 3) * 8; k <= (size+3)*8; k++ {
			if (k%8+8)%8 != 4 {
				ks = append(ks, k)
			}
		}
		return ks
	}
	tabs := make([]*sweepTable, len(cfgs)*8)
	chk.Range("nudge sweep preparation: exact sample points and per-axis classes for every (grid, image, orientation, translation k/8)", len(tabs), nil,
		func(l *mc.Local, i int) {
			c, d := cfgs[i/8], i%8
			t := &sweepTable{to: gridRect(c.dx, c.dy), from0: orientedQuad(d, 1, c.dx, c.dy, 0, 0), xc: map[int][]axisClass{}, yc: map[int][]axisClass{}}
			ex, ok := solveProjective(quadF(t.to), quadF(t.from0))
			if !ok {
				panic("singular")
			}
			t.base = exactCells(ex, c.dx, c.dy)
			exx, exy := c.dx, c.dy
			if transposing(d) {
				exx, exy = c.dy, c.dx
			}
			t.kxs, t.kys = span(exx, c.w), span(exy, c.h)
			// translating the destination by (tx,ty) translates the map by (tx,ty)
			for _, k := range t.kxs {
				for _, b := range t.base {
					ac := classifyAxis(radd(b.x, ri(int64(k), 8)), c.w)
					if ac.near {
						panic("nudge sweep: a sample coordinate is on a pixel boundary")
					}
					t.xc[k] = append(t.xc[k], ac)
				}
			}
			for _, k := range t.kys {
				for _, b := range t.base {
					ac := classifyAxis(radd(b.y, ri(int64(k), 8)), c.h)
					if ac.near {
						panic("nudge sweep: a sample coordinate is on a pixel boundary")
					}
					t.yc[k] = append(t.yc[k], ac)
				}
			}
			tabs[i] = t
		})
	type job struct {
		tab, ky int
	}
	var jobs []job
	for i, t := range tabs {
		for _, ky := range t.kys {
			jobs = append(jobs, job{i, ky})
		}
	}
	var names []string
	for _, c := range cfgs {
		names = append(names, fmt.Sprintf("%dx%d in %dx%d", c.dx, c.dy, c.w, c.h))
	}
	chk.Range("nudge, through SampleGrid and SampleGridWithTransform: (grid in image) {"+strings.Join(names, ", ")+"} x 8 orientations x every translation (tx,ty) on the 1/8-pixel lattice from 3 pixels outside on one side to 3 pixels outside on the other (lattice points that put sample coordinates on integers excluded) x images {ring, hashA, hashB}",
		len(jobs), func(i int) string { return fmt.Sprint(cfgs[jobs[i].tab/8], orientNames[jobs[i].tab%8], jobs[i].ky) },
		func(l *mc.Local, i int) {
			j := jobs[i]
			c, d, t := cfgs[j.tab/8], j.tab%8, tabs[j.tab]
			imgs := map[string]*gozxing.BitMatrix{}
			for _, k := range kinds {
				imgs[k] = makeImage(k, c.w, c.h)
			}
			ty := float64(j.ky) / 8
			for _, kx := range t.kxs {
				tx := float64(kx) / 8
				from := t.from0
				for k := 0; k < 4; k++ {
					from[2*k] += tx
					from[2*k+1] += ty
				}
				m := buildModelAxes(t.xc[kx], t.yc[j.ky], c.dx, c.dy, c.w, c.h)
				sig := m.signature()
				if f := sweepEval(l, imgs, kinds, m, t.to, from); f != nil {
					rx, ry := ri(int64(kx), 8), ri(int64(j.ky), 8)
					p := make([]pt, len(t.base))
					for k := range t.base {
						p[k] = pt{radd(t.base[k].x, rx), radd(t.base[k].y, ry)}
					}
					reportSweep(imgs, kinds, m, t.to, from, p, f)
					continue
				}
				switch {
				case m.anyNF:
					l.Distinct("outcomes", "N notfound "+m.nfSide)
				case m.anyBand:
					l.Distinct("outcomes", "N band "+strings.Join(sig, "+"))
				default:
					l.Distinct("outcomes", "N ok "+strings.Join(sig, "+"))
				}
				if len(sig) > 0 {
					l.Distinct("nontrivial", fmt.Sprint("N", c, d, kx, j.ky))
				}
			}
		})
	chk.Sample("nudge-sample", rcase{Kind: "nudge-sample", DimX: 4, DimY: 3, Src: gridRect(4, 3), Dst: shiftQuad(orientedQuad(1, 1, 4, 3, 0.125, 0.375), 2, 5), W: 9, H: 7, Image: "ring"})
}

// ---------------------------------------------------------------- replay

func replay() {
	var c rcase
	if err := mc.LoadReplay(chk.ReplayFile(), &c); err != nil {
		fmt.Println("cannot read replay file:", err)
		return
	}
	l := chk.NewLocal()
	defer l.Merge()
	fmt.Printf("replay %+v\n", c)
	switch c.Kind {
	case "exact-lattice":
		var lc latticeCase
		if err := mc.LoadReplay(chk.ReplayFile(), &lc); err == nil {
			latticeOne(l, lc)
		}
	case "twisted":
		var t twistCase
		if err := mc.LoadReplay(chk.ReplayFile(), &t); err == nil {
			twistOne(l, t)
		}
	case "transform":
		checkMap(l, "transform", "", c.Src, c.Dst, q2q(c.Src, c.Dst))
	case "s2q":
		d := c.Dst
		checkMap(l, "s2q", "/SquareToQuadrilateral", unitSquare, d, func() *common.PerspectiveTransform {
			return common.PerspectiveTransform_SquareToQuadrilateral(d[0], d[1], d[2], d[3], d[4], d[5], d[6], d[7])
		})
	case "q2s":
		s := c.Src
		checkMap(l, "q2s", "/QuadrilateralToSquare", s, unitSquare, func() *common.PerspectiveTransform {
			return common.PerspectiveTransform_QuadrilateralToSquare(s[0], s[1], s[2], s[3], s[4], s[5], s[6], s[7])
		})
	case "sample":
		sampleCase(l, c.DimX, c.DimY, xform{class: c.Class, member: "replay", to: c.Src, from: c.Dst}, &c)
	case "nudge-direct":
		var none [2]map[float64]axisClass
		if len(c.PointsText) > 0 {
			c.Points = nil
			for _, t := range c.PointsText {
				f, _ := strconv.ParseFloat(t, 64)
				c.Points = append(c.Points, f)
			}
		}
		v := directEval(c.W, c.H, c.Points, none)
		fmt.Printf("library vs model: verdict=%q %s\n", v.verdict, v.what)
		checkDirect(l, c.W, c.H, c.Points, none)
	case "nudge-sample":
		ex, ok := solveProjective(quadF(c.Src), quadF(c.Dst))
		if !ok {
			fmt.Println("singular")
			return
		}
		p := exactCells(ex, c.DimX, c.DimY)
		m := buildModel(p, c.DimX, c.DimY, c.W, c.H)
		kinds := []string{c.Image}
		imgs := map[string]*gozxing.BitMatrix{c.Image: makeImage(c.Image, c.W, c.H)}
		for i, q := range p {
			fmt.Printf("  cell (%d,%d): exact sample point (%s, %s)\n", i%c.DimX, i/c.DimX, q.x.FloatString(4), q.y.FloatString(4))
		}
		fmt.Printf("model: notfound-required=%v band=%v signature=%v\n", m.anyNF, m.anyBand, m.signature())
		if f := sweepEval(l, imgs, kinds, m, c.Src, c.Dst); f != nil {
			fmt.Printf("library disagrees: %s: %s\n", f.verdict, f.what)
			reportSweep(imgs, kinds, m, c.Src, c.Dst, p, f)
		} else {
			fmt.Println("library agrees with the model")
		}
	}
}
