package main

// (a) PerspectiveTransform against the exact projective map.

import (
	"fmt"
	"math"
	"math/big"

	"verif/mc"

	"github.com/makiuchi-d/gozxing/common"
)

const delta = 2

// source lattice: base quadrilaterals with integer corners; each corner is displaced by
// {-delta,0,+delta} in x and in y; only strictly convex results are kept (exact cross products).
var srcBases = []struct {
	name string
	q    [8]int
}{
	{"square", [8]int{0, 0, 8, 0, 8, 8, 0, 8}},
	{"square-rot90", [8]int{8, 0, 8, 8, 0, 8, 0, 0}},
	{"square-rot180", [8]int{8, 8, 0, 8, 0, 0, 8, 0}},
	{"square-rot270", [8]int{0, 8, 0, 0, 8, 0, 8, 8}},
	{"sheared", [8]int{0, 0, 8, 0, 12, 8, 4, 8}},
	{"trapezoid", [8]int{0, 0, 8, 0, 6, 8, 2, 8}},
	{"diamond", [8]int{6, 0, 12, 6, 6, 12, 0, 6}},
}

// destination family. The first quickDst members are the quick tier's family.
const quickDst = 5

var dstFamily = []struct {
	name string
	q    [8]float64
}{
	{"unit-square", [8]float64{0, 0, 1, 0, 1, 1, 0, 1}},
	{"rect-offset", [8]float64{5, 7, 13, 7, 13, 10, 5, 10}},
	{"unit-rot90", [8]float64{1, 0, 1, 1, 0, 1, 0, 0}},
	{"perspective-general", [8]float64{0, 0, 9, 1, 7, 8, -1, 6}},
	{"qr-like-half-integers", [8]float64{3.5, 3.5, 17.5, 3.5, 14.5, 14.5, 3.5, 17.5}},
	// thorough only from here
	{"unit-mirrored", [8]float64{0, 0, 0, 1, 1, 1, 1, 0}},
	{"diamond", [8]float64{4, 0, 8, 4, 4, 8, 0, 4}},
	{"trapezoid-top-wide", [8]float64{0, 0, 10, 0, 8, 6, 2, 6}},
	{"rect-21", [8]float64{0, 0, 21, 0, 21, 21, 0, 21}},
	{"rect-177", [8]float64{0, 0, 177, 0, 177, 177, 0, 177}},
	{"rect-8x3", [8]float64{0, 0, 8, 0, 8, 3, 0, 3}},
	{"unit-rot180", [8]float64{1, 1, 0, 1, 0, 0, 1, 0}},
	{"unit-rot270", [8]float64{0, 1, 0, 0, 1, 0, 1, 1}},
	{"rect-mirrored", [8]float64{5, 7, 5, 10, 13, 10, 13, 7}},
	{"rot-3-4-5-square", [8]float64{0, 0, 4, 3, 1, 7, -3, 4}},
	{"rot-3-4-5-rect", [8]float64{0, 0, 8, 6, 5, 10, -3, 4}},
	{"trapezoid-right", [8]float64{0, 0, 10, 2, 10, 6, 0, 8}},
	{"trapezoid-bottom-wide", [8]float64{2, 0, 8, 0, 10, 6, 0, 6}},
	{"trapezoid-left", [8]float64{0, 2, 10, 0, 10, 8, 0, 6}},
	{"sheared-x", [8]float64{0, 0, 8, 0, 11, 5, 3, 5}},
	{"sheared-y", [8]float64{0, 0, 8, 2, 8, 10, 0, 8}},
	{"perspective-2", [8]float64{1, 1, 12, 0, 15, 9, 0, 5}},
	{"photo-like", [8]float64{100.5, 50.25, 300.75, 80.5, 280.25, 310.5, 90.5, 260.75}},
	{"negative-coordinates", [8]float64{-5, -5, 5, -6, 6, 5, -4, 4}},
	{"far-translate", [8]float64{1000, 2000, 1010, 2000, 1010, 2010, 1000, 2010}},
	{"tiny", [8]float64{0, 0, 0.125, 0, 0.125, 0.125, 0, 0.125}},
	{"strong-perspective-x", [8]float64{0, 0, 16, 0, 10, 4, 6, 4}},
	{"strong-perspective-y", [8]float64{0, 0, 4, 6, 4, 10, 0, 16}},
	{"perspective-general-rot90", [8]float64{9, 1, 7, 8, -1, 6, 0, 0}},
	{"perspective-general-rot180", [8]float64{7, 8, -1, 6, 0, 0, 9, 1}},
	{"perspective-general-rot270", [8]float64{-1, 6, 0, 0, 9, 1, 7, 8}},
	{"perspective-general-mirrored", [8]float64{0, 0, -1, 6, 7, 8, 9, 1}},
	{"rect-64x1", [8]float64{0, 0, 64, 0, 64, 1, 0, 1}},
	{"rect-1x64", [8]float64{0, 0, 1, 0, 1, 64, 0, 64}},
	{"kite-vertical", [8]float64{4, 0, 8, 5, 4, 12, 0, 5}},
	{"kite-horizontal", [8]float64{0, 4, 5, 0, 12, 4, 5, 8}},
	{"dm-like-half-integers", [8]float64{0.5, 0.5, 23.5, 0.5, 23.5, 23.5, 0.5, 23.5}},
	{"perspective-half-integers", [8]float64{10.5, 12.5, 50.5, 14.5, 48.5, 52.5, 8.5, 49.5}},
	{"offset-trapezoid", [8]float64{20, 20, 40, 22, 38, 40, 19, 37}},
	{"near-parallelogram", [8]float64{0, 0, 100, 0, 101, 100, 0, 99}},
}

var unitSquare = [8]float64{0, 0, 1, 0, 1, 1, 0, 1}

const relTol = 1e-6

func within(got, want, scale float64) bool {
	if math.IsNaN(got) || math.IsInf(got, 0) {
		return false
	}
	return math.Abs(got-want) <= relTol*scale
}

func bbox(q [8]float64) (minx, miny, maxx, maxy float64) {
	minx, miny, maxx, maxy = q[0], q[1], q[0], q[1]
	for i := 1; i < 4; i++ {
		minx = math.Min(minx, q[2*i])
		maxx = math.Max(maxx, q[2*i])
		miny = math.Min(miny, q[2*i+1])
		maxy = math.Max(maxy, q[2*i+1])
	}
	return
}

// checkMap compares the library transform built by build() with the exact map src -> dst: the
// four corners, a 9x9 probe lattice over the source's bounding box (through TransformPoints and
// through TransformPointsXY), and odd/zero-length inputs. suffix distinguishes the constructor.
func checkMap(l *mc.Local, kind, suffix string, src, dst [8]float64, build func() *common.PerspectiveTransform, relTo ...float64) {
	rc := rcase{Kind: kind, Src: src, Dst: dst}
	l.Count("evaluations", 1)
	ex, ok := solveProjective(quadF(src), quadF(dst))
	if !ok {
		panic(fmt.Sprintf("exact system singular for convex quadrilaterals %v -> %v", src, dst))
	}
	var t *common.PerspectiveTransform
	if pm, site := mc.Guard(func() { t = build() }); pm != "" {
		chk.Violation("C19/panic/"+site, fmt.Sprintf("panic %s building %s %v -> %v", pm, kind, src, dst), rc)
		return
	}
	// corners (9 floats: the trailing one makes the length odd)
	pts := append(append([]float64{}, src[:]...), 12345.5)
	if pm, site := mc.Guard(func() { t.TransformPoints(pts) }); pm != "" {
		chk.Violation("C19/panic/"+site, fmt.Sprintf("panic %s in TransformPoints (9 floats) of %s %v -> %v", pm, kind, src, dst), rc)
		return
	}
	for i := 0; i < 4; i++ {
		sc := math.Max(1, math.Max(math.Abs(dst[2*i]), math.Abs(dst[2*i+1])))
		if len(relTo) > 0 {
			sc = relTo[0] // scale ladder: errors are judged relative to the extent of the destination quadrilateral
		}
		if !within(pts[2*i], dst[2*i], sc) || !within(pts[2*i+1], dst[2*i+1], sc) {
			chk.Violation("C19/transform/corner"+suffix, fmt.Sprintf("%s %v -> %v: source corner %d (%v,%v) is mapped to (%v,%v), destination is (%v,%v)",
				kind, src, dst, i, src[2*i], src[2*i+1], pts[2*i], pts[2*i+1], dst[2*i], dst[2*i+1]), rc)
			return
		}
	}
	// probes
	minx, miny, maxx, maxy := bbox(src)
	var in, xs, ys, want []float64
	ix := ex.integer()
	var px, py [9]float64
	var rx, ry [9]*big.Rat
	for i := 0; i <= 8; i++ {
		px[i] = minx + (maxx-minx)*float64(i)/8
		py[i] = miny + (maxy-miny)*float64(i)/8
		rx[i], ry[i] = rf(px[i]), rf(py[i]) // the model is evaluated at exactly the floats the library receives
	}
	for j := 0; j <= 8; j++ {
		for i := 0; i <= 8; i++ {
			x, y := px[i], py[j]
			U, horizon := ix.applyHInt(homogR(rx[i], ry[j]))
			if horizon {
				l.Count("probe-skipped-near-horizon", 1)
				continue
			}
			in = append(in, x, y)
			xs = append(xs, x)
			ys = append(ys, y)
			want = append(want, quoF(U[0], U[2]), quoF(U[1], U[2]))
		}
	}
	l.Count("probes-compared", int64(len(xs)))
	got := append([]float64{}, in...)
	if pm, site := mc.Guard(func() { t.TransformPoints(got); t.TransformPointsXY(xs, ys) }); pm != "" {
		chk.Violation("C19/panic/"+site, fmt.Sprintf("panic %s transforming probes of %s %v -> %v", pm, kind, src, dst), rc)
		return
	}
	for k := 0; k < len(xs); k++ {
		sc := math.Max(1, math.Max(math.Abs(want[2*k]), math.Abs(want[2*k+1])))
		if len(relTo) > 0 {
			sc = math.Max(relTo[0], math.Max(math.Abs(want[2*k]), math.Abs(want[2*k+1])))
			if sc > 8*relTo[0] {
				// a probe of the source bounding box that maps far outside the destination quadrilateral lies
				// next to the horizon of the map, where the problem itself is ill-conditioned; the horizon rule
				// of the unscaled families is an absolute one, so it is restated relative to the extent here
				l.Count("probe-skipped-far-outside-scaled-destination", 1)
				continue
			}
		}
		if !within(got[2*k], want[2*k], sc) || !within(got[2*k+1], want[2*k+1], sc) {
			chk.Violation("C19/transform/probe"+suffix, fmt.Sprintf("%s %v -> %v: point (%v,%v) is mapped to (%v,%v), the projective map through the four pairs gives (%v,%v)",
				kind, src, dst, in[2*k], in[2*k+1], got[2*k], got[2*k+1], want[2*k], want[2*k+1]), rc)
			return
		}
		if !within(xs[k], want[2*k], sc) || !within(ys[k], want[2*k+1], sc) {
			chk.Violation("C19/transform/pointsXY"+suffix, fmt.Sprintf("%s %v -> %v: TransformPointsXY maps (%v,%v) to (%v,%v), exact (%v,%v)",
				kind, src, dst, in[2*k], in[2*k+1], xs[k], ys[k], want[2*k], want[2*k+1]), rc)
			return
		}
	}
}

func q2q(s, d [8]float64) func() *common.PerspectiveTransform {
	return func() *common.PerspectiveTransform {
		return common.PerspectiveTransform_QuadrilateralToQuadrilateral(
			s[0], s[1], s[2], s[3], s[4], s[5], s[6], s[7], d[0], d[1], d[2], d[3], d[4], d[5], d[6], d[7])
	}
}

func isAffine(q [8]float64) bool {
	return q[0]-q[2]+q[4]-q[6] == 0 && q[1]-q[3]+q[5]-q[7] == 0
}

func runTransform() {
	nd := chk.Pick(quickDst, len(dstFamily))
	for _, d := range dstFamily {
		if !strictlyConvex(quadF(d.q)) {
			panic("destination family member is not strictly convex: " + d.name)
		}
	}
	nb := len(srcBases)
	name := fmt.Sprintf("transform: %d base quadrilaterals x 3^8 corner displacements {-%d,0,+%d} (strictly convex kept) x %d destination quadrilaterals: 4 corners + 9x9 probes, TransformPoints and TransformPointsXY; SquareToQuadrilateral / QuadrilateralToSquare on every kept source",
		nb, delta, delta, nd)
	chk.Range(name, nb*729, func(i int) string { return fmt.Sprintf("base %s displacement block %d", srcBases[i/729].name, i%729) },
		func(l *mc.Local, idx int) {
			b := srcBases[idx/729]
			code := idx % 729
			for d3 := 0; d3 < 9; d3++ {
				disp := [4]int{code % 9, code / 9 % 9, code / 81 % 9, d3}
				var src [8]float64
				for c := 0; c < 4; c++ {
					src[2*c] = float64(b.q[2*c] + (disp[c]%3-1)*delta)
					src[2*c+1] = float64(b.q[2*c+1] + (disp[c]/3-1)*delta)
				}
				if !strictlyConvex(quadF(src)) {
					l.Count("source-not-strictly-convex-dropped", 1)
					continue
				}
				l.Count("sources-kept", 1)
				for k := 0; k < nd; k++ {
					dst := dstFamily[k].q
					checkMap(l, "transform", "", src, dst, q2q(src, dst))
					l.Distinct("nontrivial", fmt.Sprint("T", src, k))
					l.Distinct("outcomes", fmt.Sprint("T affine-src=", isAffine(src), " affine-dst=", isAffine(dst)))
				}
				checkMap(l, "s2q", "/SquareToQuadrilateral", unitSquare, src, func() *common.PerspectiveTransform {
					return common.PerspectiveTransform_SquareToQuadrilateral(src[0], src[1], src[2], src[3], src[4], src[5], src[6], src[7])
				})
				checkMap(l, "q2s", "/QuadrilateralToSquare", src, unitSquare, func() *common.PerspectiveTransform {
					return common.PerspectiveTransform_QuadrilateralToSquare(src[0], src[1], src[2], src[3], src[4], src[5], src[6], src[7])
				})
			}
		})
	// the destination family as sources too (half-integer, large, tiny coordinates on the source side)
	chk.Range(fmt.Sprintf("transform: destination family x destination family (%d x %d ordered pairs, both directions of every pair)", len(dstFamily), len(dstFamily)), len(dstFamily),
		func(i int) string { return dstFamily[i].name },
		func(l *mc.Local, i int) {
			for k := range dstFamily {
				checkMap(l, "transform", "", dstFamily[i].q, dstFamily[k].q, q2q(dstFamily[i].q, dstFamily[k].q))
				l.Distinct("nontrivial", fmt.Sprint("TF", i, k))
			}
		})
	// scale ladder: the same maps in other units. Projective maps are scale free; the error bound
	// of the property is RELATIVE, so here it is judged against the extent of the destination
	// quadrilateral (the families above floor the scale at one pixel, as pixel coordinates are)
	scales := []float64{1e-9, 1e-7, 1e-6, 1e-5, 1e-3, 1e3, 1e6}
	type lad struct {
		i, k   int
		ss, sd float64
	}
	var lads []lad
	for i := range dstFamily {
		for k := range dstFamily {
			for _, s := range scales {
				lads = append(lads, lad{i, k, s, 1}, lad{i, k, 1, s}, lad{i, k, s, s})
			}
		}
	}
	chk.Range(fmt.Sprintf("transform: scale ladder: destination family x destination family (%d ordered pairs) with the source side, the destination side or both scaled by %v; corner and probe errors relative to the extent of the destination quadrilateral", len(dstFamily)*len(dstFamily), scales), len(lads),
		func(i int) string { return fmt.Sprint(lads[i]) },
		func(l *mc.Local, i int) {
			x := lads[i]
			src, dst := dstFamily[x.i].q, dstFamily[x.k].q
			ext := 0.0
			for c := 0; c < 8; c++ {
				src[c] *= x.ss
				dst[c] *= x.sd
				ext = math.Max(ext, math.Abs(dst[c]))
			}
			checkMap(l, "transform", "/scaled", src, dst, q2q(src, dst), ext)
			checkMap(l, "s2q", "/SquareToQuadrilateral/scaled", unitSquare, dst, func() *common.PerspectiveTransform {
				return common.PerspectiveTransform_SquareToQuadrilateral(dst[0], dst[1], dst[2], dst[3], dst[4], dst[5], dst[6], dst[7])
			}, ext)
			checkMap(l, "q2s", "/QuadrilateralToSquare/scaled", src, unitSquare, func() *common.PerspectiveTransform {
				return common.PerspectiveTransform_QuadrilateralToSquare(src[0], src[1], src[2], src[3], src[4], src[5], src[6], src[7])
			}, 1)
			l.Distinct("nontrivial", fmt.Sprint("TS", x))
		})
	// zero-length and one-float inputs must not panic
	t := q2q(unitSquare, dstFamily[3].q)()
	for _, n := range []int{0, 1} {
		p := make([]float64, n)
		if pm, site := mc.Guard(func() { t.TransformPoints(p); t.TransformPointsXY(nil, nil) }); pm != "" {
			chk.Violation("C19/panic/"+site, fmt.Sprintf("panic %s in TransformPoints on %d floats", pm, n), rcase{Kind: "transform", Src: unitSquare, Dst: dstFamily[3].q})
		}
	}
	chk.Sample("transform", rcase{Kind: "transform", Src: [8]float64{0, 0, 8, 0, 6, 10, 2, 8}, Dst: dstFamily[3].q})
}
