package main

// Nudging through SampleGrid for grids that are NOT axis-aligned: exactly affine shears and the
// 45-degree rotation (x-y, x+y), whose rows and columns are slanted, so the extreme sample points
// of the grid are the top-right / bottom-left corners or single row ends - never what the first and
// the last sample point of the grid alone tell. Every translation of the 1/8-pixel lattice from 3
// pixels outside on one side to 3 pixels outside on the other is sampled and compared with the
// exact model cell by cell (translations that put an exact sample coordinate within 1/64 of a pixel
// boundary are counted and skipped, because the class of such a point depends on float rounding).
// All coefficients are dyadic, so the library's transform is exactly affine as well (a13 = a23 = 0).

import (
	"fmt"
	"strings"

	"verif/mc"

	"github.com/makiuchi-d/gozxing"
)

type affMap struct {
	name string
	quad func(X, Y float64) [8]float64
}

var affMaps = []affMap{
	{"shear x+=y/2", func(X, Y float64) [8]float64 { return [8]float64{0, 0, X, 0, X + Y/2, Y, Y / 2, Y} }},
	{"shear x-=y/2", func(X, Y float64) [8]float64 { return [8]float64{0, 0, X, 0, X - Y/2, Y, -Y / 2, Y} }},
	{"shear y+=x/2", func(X, Y float64) [8]float64 { return [8]float64{0, 0, X, X / 2, X, X/2 + Y, 0, Y} }},
	{"shear y-=x/2", func(X, Y float64) [8]float64 { return [8]float64{0, 0, X, -X / 2, X, Y - X/2, 0, Y} }},
	{"rotate 45 (x-y, x+y)", func(X, Y float64) [8]float64 { return [8]float64{0, 0, X, X, X - Y, X + Y, -Y, Y} }},
	{"rotate -45 (x+y, y-x)", func(X, Y float64) [8]float64 { return [8]float64{0, 0, X, -X, X + Y, Y - X, Y, Y} }},
	{"skew (x+y/4, y-x/4)", func(X, Y float64) [8]float64 { return [8]float64{0, 0, X, -X / 4, X + Y/4, Y - X/4, Y / 4, Y} }},
	{"skew 2x (2x+y/2, 2y+x/4)", func(X, Y float64) [8]float64 {
		return [8]float64{0, 0, 2 * X, X / 4, 2*X + Y/2, 2*Y + X/4, Y / 2, 2 * Y}
	}},
}

func runNudgeAffine() {
	type cfg struct{ w, h, dx, dy int }
	cfgs := []cfg{{9, 7, 4, 3}, {9, 7, 2, 3}}
	if !chk.Quick() {
		cfgs = append(cfgs, cfg{32, 5, 4, 3}, cfg{6, 33, 3, 4}, cfg{9, 7, 1, 3}, cfg{9, 7, 3, 1})
	}
	kinds := []string{"ring", "hashA", "hashB"}
	type tab struct {
		c        cfg
		mp       affMap
		to, from [8]float64
		base     []pt
		kxs, kys []int
	}
	var tabs []*tab
	for _, c := range cfgs {
		for _, mp := range affMaps {
			t := &tab{c: c, mp: mp, to: gridRect(c.dx, c.dy), from: mp.quad(float64(c.dx), float64(c.dy))}
			ex, ok := solveProjective(quadF(t.to), quadF(t.from))
			if !ok {
				panic("singular")
			}
			t.base = exactCells(ex, c.dx, c.dy)
			minx, miny, maxx, maxy := floorRat(t.base[0].x), floorRat(t.base[0].y), floorRat(t.base[0].x), floorRat(t.base[0].y)
			for _, q := range t.base {
				minx, maxx = min(minx, floorRat(q.x)), max(maxx, floorRat(q.x))
				miny, maxy = min(miny, floorRat(q.y)), max(maxy, floorRat(q.y))
			}
			for k := -(int(maxx) + 4) * 8; k <= (c.w+3-int(minx))*8; k++ {
				t.kxs = append(t.kxs, k)
			}
			for k := -(int(maxy) + 4) * 8; k <= (c.h+3-int(miny))*8; k++ {
				t.kys = append(t.kys, k)
			}
			tabs = append(tabs, t)
		}
	}
	type job struct{ tab, ky int }
	var jobs []job
	for i, t := range tabs {
		for _, ky := range t.kys {
			jobs = append(jobs, job{i, ky})
		}
	}
	var names []string
	for _, c := range cfgs {
		names = append(names, fmt.Sprintf("%dx%d in %dx%d", c.dx, c.dy, c.w, c.h))
	}
	chk.Range(fmt.Sprintf("nudge, slanted grids through SampleGrid and SampleGridWithTransform: (grid in image) {%s} x %d exactly affine maps (shears by +-1/2 along x and y, rotations by +-45 degrees, two skews) x every translation (tx,ty) of the 1/8-pixel lattice from 3 pixels outside on one side to 3 pixels outside on the other x images {ring, hashA, hashB}: every cell against the exact model", strings.Join(names, ", "), len(affMaps)),
		len(jobs), func(i int) string { t := tabs[jobs[i].tab]; return fmt.Sprint(t.c, t.mp.name, jobs[i].ky) },
		func(l *mc.Local, i int) {
			j := jobs[i]
			t := tabs[j.tab]
			c := t.c
			imgs := map[string]*gozxing.BitMatrix{}
			for _, k := range kinds {
				imgs[k] = makeImage(k, c.w, c.h)
			}
			ry := ri(int64(j.ky), 8)
			for _, kx := range t.kxs {
				rx := ri(int64(kx), 8)
				p := make([]pt, len(t.base))
				for k := range t.base {
					p[k] = pt{radd(t.base[k].x, rx), radd(t.base[k].y, ry)}
				}
				m := buildModel(p, c.dx, c.dy, c.w, c.h)
				near := false
				for _, cm := range m.cells {
					near = near || cm.nearB
				}
				if near {
					l.Count("slanted-grid translations skipped (a sample coordinate within 1/64 of a pixel boundary)", 1)
					continue
				}
				from := t.from
				for k := 0; k < 4; k++ {
					from[2*k] += float64(kx) / 8
					from[2*k+1] += float64(j.ky) / 8
				}
				if f := sweepEval(l, imgs, kinds, m, t.to, from); f != nil {
					rc := rcase{Kind: "nudge-sample", DimX: c.dx, DimY: c.dy, Src: t.to, Dst: from, W: c.w, H: c.h, Image: f.kind, Class: t.mp.name}
					key := "C19/nudge-slanted/" + f.verdict + "/" + strings.Join(m.signature(), "+")
					if f.verdict == "panic" {
						key = "C19/panic/" + f.site
					}
					chk.Violation(key, fmt.Sprintf("%s grid %dx%d under %s (to %v from %v), image %s %dx%d: %s", f.api, c.dx, c.dy, t.mp.name, t.to, from, f.kind, c.w, c.h, f.what), rc)
					continue
				}
				sig := m.signature()
				switch {
				case m.anyNF:
					l.Distinct("outcomes", "A notfound "+m.nfSide)
				case m.anyBand:
					l.Distinct("outcomes", "A band "+strings.Join(sig, "+"))
				default:
					l.Distinct("outcomes", "A ok "+strings.Join(sig, "+"))
				}
				if len(sig) > 0 {
					l.Distinct("nontrivial", fmt.Sprint("A", j.tab, kx, j.ky))
				}
			}
		})
}
