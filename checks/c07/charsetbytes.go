package main

// Byte segments under EVERY character-set name the writer accepts: the reference reader takes the
// symbol apart and the byte segment must hold the text in the encoding the name stands for
// (golang.org/x/text through the IANA index, independent of the library's table) behind an ECI
// designator. Which names are registered and which designator value they get is C15's subject:
// a refused name is not judged, the designator's value is not compared. Texts: 7-bit texts that
// select byte mode, and non-ASCII texts where the encoding has the characters.

import (
	"bytes"
	"fmt"

	"golang.org/x/text/encoding/ianaindex"

	"verif/mc"
	"verif/ref/qr"

	"github.com/makiuchi-d/gozxing"
	"github.com/makiuchi-d/gozxing/qrcode/encoder"
)

func runCharsetBytes() {
	names := []string{"ISO-8859-1", "ISO-8859-2", "ISO-8859-3", "ISO-8859-4", "ISO-8859-5", "ISO-8859-6", "ISO-8859-7", "ISO-8859-8", "ISO-8859-9", "ISO-8859-10", "ISO-8859-13", "ISO-8859-14", "ISO-8859-15", "ISO-8859-16",
		"windows-1250", "windows-1251", "windows-1252", "windows-1256", "Shift_JIS", "SJIS", "Big5", "GB18030", "GB2312", "EUC-KR", "EUC_KR", "UTF-8", "UTF8", "UTF-16BE", "UnicodeBig", "UnicodeBigUnmarked", "US-ASCII", "ASCII", "Cp437", "IBM437", "KOI8-R"}
	texts := []string{"abc", "a", "hello, world", "x=1;y=2", "tab\there", "é", "Grüße", "Жук", "価格", "한글", "a€b"}
	type job struct{ name, text string }
	var jobs []job
	for _, n := range names {
		for _, t := range texts {
			jobs = append(jobs, job{n, t})
		}
	}
	chk.Range(fmt.Sprintf("byte segments under every accepted character-set name: %d names x %d texts (7-bit byte-mode texts and non-ASCII ones): the byte segment holds the text in the named encoding behind an ECI designator", len(names), len(texts)), len(jobs),
		func(i int) string { return fmt.Sprint(jobs[i]) },
		func(l *mc.Local, i int) {
			j := jobs[i]
			c := cfgCase{"charset-bytes", j.name, j.text, true}
			enc, err := ianaindex.IANA.Encoding(j.name)
			if err != nil || enc == nil {
				switch j.name {
				case "SJIS":
					enc, _ = ianaindex.IANA.Encoding("Shift_JIS")
				case "UTF8":
					enc, _ = ianaindex.IANA.Encoding("UTF-8")
				case "EUC_KR":
					enc, _ = ianaindex.IANA.Encoding("EUC-KR")
				case "UnicodeBig", "UnicodeBigUnmarked":
					enc, _ = ianaindex.IANA.Encoding("UTF-16BE")
				case "Cp437":
					enc, _ = ianaindex.IANA.Encoding("IBM437")
				case "ASCII":
					enc, _ = ianaindex.IANA.Encoding("US-ASCII")
				}
				if enc == nil {
					return
				}
			}
			want, werr := enc.NewEncoder().Bytes([]byte(j.text))
			if werr != nil {
				return // the text has no form in this encoding
			}
			var code *encoder.QRCode
			var e error
			pm, site := mc.Guard(func() {
				q, ee := encoder.Encoder_encode(j.text, levels[1].lib, map[gozxing.EncodeHintType]interface{}{gozxing.EncodeHintType_CHARACTER_SET: j.name})
				code = q
				if ee != nil {
					e = ee
				}
			})
			l.Count("evaluations", 1)
			if pm != "" {
				chk.Violation("C07/panic/"+site, fmt.Sprintf("%+v: panic %s", c, pm), c)
				return
			}
			if e != nil || code == nil {
				l.Count("charset names refused by the writer (not judged)", 1)
				return
			}
			v, _, _, data, rerr := qr.Read(toBoolsBM(code.GetMatrix()))
			if rerr != nil {
				chk.Violation("C07/charset-bytes/unreadable", fmt.Sprintf("%+v: the reference reader cannot read the symbol: %v", c, rerr), c)
				return
			}
			segs, perr := qr.ParseSegments(data, v)
			if perr != nil {
				chk.Violation("C07/charset-bytes/segments", fmt.Sprintf("%+v: the reference parser rejects the stream: %v", c, perr), c)
				return
			}
			if len(segs) != 1 || segs[0].Mode != qr.Byte {
				l.Count("texts written in another mode than byte under a charset name (not judged here)", 1)
				return
			}
			if !bytes.Equal(segs[0].Data, want) || segs[0].ECI < 0 {
				chk.Violation("C07/charset-bytes/"+j.name, fmt.Sprintf("text %q written with CHARACTER_SET %q: the symbol carries bytes % X with ECI %d, the encoding of that name gives % X", j.text, j.name, segs[0].Data, segs[0].ECI, want), c)
				return
			}
			l.Distinct("nontrivial", fmt.Sprint("csbytes", j.name, j.text))
		})
}
