// C07 — QR symbols conform to ISO/IEC 18004.
//
// Every (version, level, mask) configuration x a payload family is encoded by the library with
// forced version and mask, and the module matrix is compared module for module with the symbol
// the independent reference model verif/ref/qr constructs from the standard. The decoder's
// tables (block structure, total codewords, alignment centres, dimensions, character count
// widths), both mask predicate implementations, and the format/version information decoders
// (over ALL 15-bit and ALL 18-bit words) are compared with the reference as well.
//
// Files: main.go (driver, replay), matrix.go (encoder side), tables.go (decoder side).
package main

import (
	"fmt"

	"verif/mc"
)

var chk *mc.Check

func main() {
	chk = mc.New("C07", "exploration")
	chk.Rule = "encoder: every executed (kind, version, level, mask, payload family, length, content pattern) whose library matrix was compared module by module with ref/qr; distinct = that tuple, non-trivial because every symbol carries a different codeword stream or configuration (distinct_outcomes = distinct library matrices). tables: one evaluation per table cell / code word / grid module, distinct = (table, row, column)"
	chk.Assume("verif/ref/qr is the trusted statement of ISO/IEC 18004 (validated separately against the published tables and worked examples)")
	chk.Assume("golang.org/x/text's Shift_JIS table is trusted for Unicode -> Shift JIS (the character set table is not part of ISO 18004); self-checked on the standard's examples U+70B9 -> 0x935F and U+8317 -> 0xE4AA")
	chk.Assume("weaker reading: the reference bit stream uses the mode the library reports (QRCode.GetMode) whenever that mode can represent the payload; the standard does not prescribe mode selection")
	chk.Assume("weaker reading: for byte payloads encoded with the CHARACTER_SET=ISO-8859-1 hint an ECI header with assignment number 1 or 3 is accepted (both designate ISO/IEC 8859-1 in the AIM ECI register)")
	chk.Assume("weaker reading: FormatInformation_DecodeFormatInformation also tries the word without the XOR mask 101010000010010; a word at distance >= 4 from every valid masked word may therefore decode, but only to the valid word whose un-masked BCH code word is within distance 3; everything else must be rejected")
	initKanji()
	initRegions()
	if chk.ReplayFile() != "" {
		replay()
		chk.Finish()
	}
	runDefaultEncoding() // process-wide setting: before anything else, in one worker
	// decoder side (tables, code words, masks)
	runTables()
	runCharCount()
	runDimensions()
	runFormatWords()
	runVersionWords()
	runMasks()
	// encoder side
	runBuildMatrix()
	runConfigProduct()
	runSpecialParity()
	runConflictingLevelHint()
	runGS1()
	runCharsetBytes()
	runTwinSequences()
	runAutoMask()
	runPenaltyRules()
	runCharacterSweeps()
	runAllLengths()
	flushMatrixFailures()
	chk.Finish()
}

func replay() {
	var c mxCase
	if err := mc.LoadReplay(chk.ReplayFile(), &c); err != nil {
		fmt.Println("cannot load replay:", err)
		return
	}
	fmt.Printf("replay %+v\n", c)
	switch c.Kind {
	case "charset-bytes":
		fmt.Println("the charset-bytes family is re-run")
		runCharsetBytes()
	case "default-encoding":
		runDefaultEncoding()
	case "penalty":
		var pc penCase
		if err := mc.LoadReplay(chk.ReplayFile(), &pc); err == nil {
			fmt.Printf("replay %+v: the version's penalty family is re-run\n", pc)
			runPenaltyRules()
		}
	case "automask":
		var a autoCase
		if err := mc.LoadReplay(chk.ReplayFile(), &a); err == nil {
			l := chk.NewLocal()
			autoMaskOne(l, a)
			l.Merge()
		}
	case "encode", "build":
		l := chk.NewLocal()
		cls, what := runMatrixCase(l, c)
		l.Merge()
		if cls != "" {
			key := c.Key
			if key == "" {
				key = "C07/" + cls
			}
			chk.Violation(key, what, c)
		} else {
			fmt.Println("replay: library matrix equals the reference")
		}
	default:
		// table cases are re-evaluated as a whole (they cost milliseconds)
		runTables()
		runCharCount()
		runDimensions()
		runFormatWords()
		runVersionWords()
		runMasks()
	}
}
