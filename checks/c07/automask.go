package main

// Automatic mask choice. Without a QR_MASK_PATTERN hint the encoder evaluates the eight masks and
// keeps one. The symbol it returns must be the standard's symbol for the mask the QRCode object
// REPORTS (GetMaskPattern), and that mask must have the lowest penalty score of the eight (the
// standard does not say which of several equal scores to take). Short contents are enumerated
// exhaustively because equal scores - where the selection logic has its corner cases - occur on
// small symbols: every string of length 1..3 over a 12-character alphabet at every level, and 400
// numbered longer contents on versions up to 10.

import (
	"fmt"

	"verif/mc"
	"verif/ref/qr"

	"github.com/makiuchi-d/gozxing"
	"github.com/makiuchi-d/gozxing/qrcode/encoder"
)

type autoCase struct {
	Kind  string // "automask"
	Text  string
	Level string
}

func autoMaskOne(l *mc.Local, c autoCase) {
	li := levelIndex(c.Level)
	lv := levels[li]
	var code *encoder.QRCode
	var err error
	l.Beat(fmt.Sprintf("automask %+v", c))
	pm, site := mc.Guard(func() {
		q, e := encoder.Encoder_encode(c.Text, lv.lib, map[gozxing.EncodeHintType]interface{}{})
		code = q
		if e != nil {
			err = e
		}
	})
	l.Count("evaluations", 1)
	if pm != "" {
		chk.Violation("C07/panic/"+site, fmt.Sprintf("Encoder_encode(%q, %s) without mask hint panics: %s", c.Text, c.Level, pm), c)
		return
	}
	if err != nil || code == nil {
		chk.Violation("C07/automask/refused", fmt.Sprintf("Encoder_encode(%q, %s) without hints fails: %v", c.Text, c.Level, err), c)
		return
	}
	got := toBoolsBM(code.GetMatrix())
	v, rl, mask, data, rerr := qr.Read(got)
	if rerr != nil {
		chk.Violation("C07/automask/unreadable", fmt.Sprintf("%q level %s: the reference reader cannot read the symbol: %v", c.Text, c.Level, rerr), c)
		return
	}
	rep := code.GetMaskPattern()
	if rep != mask {
		chk.Violation("C07/automask/reported-mask", fmt.Sprintf("%q level %s: QRCode.GetMaskPattern() = %d, but the format information of the matrix names mask %d (the matrix is the complete mask-%d symbol)", c.Text, c.Level, rep, mask, mask), c)
		return
	}
	if code.GetVersion() == nil || code.GetVersion().GetVersionNumber() != v || rl != lv.ref {
		chk.Violation("C07/automask/reported-version-level", fmt.Sprintf("%q level %s: QRCode reports version %v, the matrix is version %d level %v", c.Text, c.Level, code.GetVersion(), v, rl), c)
		return
	}
	ref := qr.Build(data, v, lv.ref, mask)
	if cls, w := diff(v, ref, code.GetMatrix()); cls != "" {
		chk.Violation("C07/automask/"+cls, fmt.Sprintf("%q level %s, automatic mask %d: %s", c.Text, c.Level, mask, w), c)
		return
	}
	best, bestScore, ownScore := -1, 0, 0
	for m := 0; m < 8; m++ {
		cand := qr.Build(data, v, lv.ref, m)
		if !penaltyCompare(l, cand, penCase{"penalty", v, fmt.Sprintf("mask %d symbol of %q level %s", m, c.Text, c.Level), -1}) {
			return
		}
		s := qr.Penalty(cand)
		if best < 0 || s < bestScore {
			best, bestScore = m, s
		}
		if m == mask {
			ownScore = s
		}
	}
	if ownScore != bestScore {
		chk.Violation("C07/automask/not-lowest-penalty", fmt.Sprintf("%q level %s version %d: mask %d was chosen (penalty %d), mask %d scores %d", c.Text, c.Level, v, mask, ownScore, best, bestScore), c)
		return
	}
	l.Distinct("nontrivial", fmt.Sprintf("automask %q %s", c.Text, c.Level))
	l.Distinct("outcomes", fmt.Sprint("automask v", v, " mask ", mask))
}

func toBoolsBM(bm *encoder.ByteMatrix) [][]bool {
	out := make([][]bool, bm.GetHeight())
	for y := range out {
		out[y] = make([]bool, bm.GetWidth())
		for x := range out[y] {
			out[y][x] = bm.Get(x, y) == 1
		}
	}
	return out
}

func runAutoMask() {
	alpha := []string{"0", "1", "7", "8", "A", "Z", " ", "a", "z", "é", ":", "-"}
	var texts []string
	var rec func(cur string, n int)
	rec = func(cur string, n int) {
		if cur != "" {
			texts = append(texts, cur)
		}
		if n == 0 {
			return
		}
		for _, a := range alpha {
			rec(cur+a, n-1)
		}
	}
	rec("", chk.Pick(3, 4))
	for i := 0; i < chk.Pick(400, 3000); i++ {
		texts = append(texts, fmt.Sprintf("HTTP://EXAMPLE.COM/%d", i), fmt.Sprintf("hello, world %d!", i), fmt.Sprintf("%d", i*i*7919+i))
	}
	var cases []autoCase
	for _, t := range texts {
		for _, lv := range levels {
			cases = append(cases, autoCase{"automask", t, lv.name})
		}
	}
	n := (len(cases) + 63) / 64
	chk.Range(fmt.Sprintf("automatic mask: %d contents (every string of length 1..%d over a 12-character alphabet; numbered URLs, sentences and numbers) x 4 levels, no hints: the matrix is the standard's symbol for the mask the QRCode object reports, and that mask has the lowest penalty score", len(texts), chk.Pick(3, 4)), n,
		func(i int) string { return fmt.Sprintf("%+v", cases[i*64]) },
		func(l *mc.Local, i int) {
			for k := i * 64; k < (i+1)*64 && k < len(cases); k++ {
				autoMaskOne(l, cases[k])
			}
		})
	chk.Sample("automask", autoCase{"automask", "27", "Q"})
}
