package main

// The exported default byte-mode encoding. encoder.Encoder_DEFAULT_BYTE_MODE_ENCODING is a
// package-level variable an application may re-assign (the original ZXing default is ISO-8859-1,
// this port's is UTF-8). It is process-wide, so this sub-space runs in ONE worker before all
// others and restores the value: for each of three settings, texts with and without non-ASCII
// characters are encoded without a charset hint (and with the hint naming the same charset), the
// matrix is read by the reference reader and the byte segment must hold the text's bytes in the
// encoding that is in force at the time of the call - with an ECI designator exactly when a
// hint was given.

import (
	"bytes"
	"fmt"

	"golang.org/x/text/encoding"
	"golang.org/x/text/encoding/charmap"
	"golang.org/x/text/encoding/japanese"
	"golang.org/x/text/encoding/unicode"

	"verif/mc"
	"verif/ref/qr"

	"github.com/makiuchi-d/gozxing"
	"github.com/makiuchi-d/gozxing/qrcode/encoder"
)

type cfgCase struct {
	Kind    string // "default-encoding"
	Default string
	Text    string
	Hint    bool
}

func runDefaultEncoding() {
	type setting struct {
		name string
		enc  encoding.Encoding
		hint string
		eci  int
	}
	settings := []setting{
		{"ISO-8859-1", charmap.ISO8859_1, "ISO-8859-1", 1},
		{"UTF-8", unicode.UTF8, "UTF-8", 26},
		{"Shift_JIS", japanese.ShiftJIS, "Shift_JIS", 20},
		{"ISO-8859-1 again", charmap.ISO8859_1, "ISO-8859-1", 1},
		{"UTF-8 (restored)", unicode.UTF8, "UTF-8", 26},
	}
	texts := []string{"abc", "é", "Grüße", "a¥b", "x÷×y"}
	chk.Range("exported default byte-mode encoding re-assigned (ONE worker, value restored afterwards): settings {ISO-8859-1, UTF-8, Shift_JIS, ISO-8859-1 again, UTF-8} x 5 texts x {no hint, hint naming the same charset}: the byte segment of the symbol holds the text in the encoding in force, ECI designator iff hinted", 1,
		func(int) string { return "default encoding" },
		func(l *mc.Local, _ int) {
			saved := encoder.Encoder_DEFAULT_BYTE_MODE_ENCODING
			defer func() { encoder.Encoder_DEFAULT_BYTE_MODE_ENCODING = saved }()
			for _, st := range settings {
				encoder.Encoder_DEFAULT_BYTE_MODE_ENCODING = st.enc
				for _, t := range texts {
					want, err := st.enc.NewEncoder().Bytes([]byte(t))
					if err != nil {
						continue // not representable in this setting
					}
					for _, hinted := range []bool{false, true} {
						h := map[gozxing.EncodeHintType]interface{}{}
						if hinted {
							h[gozxing.EncodeHintType_CHARACTER_SET] = st.hint
						}
						c := cfgCase{"default-encoding", st.name, t, hinted}
						var code *encoder.QRCode
						var e error
						pm, site := mc.Guard(func() {
							q, ee := encoder.Encoder_encode(t, levels[1].lib, h)
							code = q
							if ee != nil {
								e = ee
							}
						})
						l.Count("evaluations", 1)
						if pm != "" {
							chk.Violation("C07/panic/"+site, fmt.Sprintf("%+v: panic %s", c, pm), c)
							continue
						}
						if e != nil || code == nil {
							chk.Violation("C07/default-encoding/refused", fmt.Sprintf("%+v: refused: %v", c, e), c)
							continue
						}
						v, _, _, data, rerr := qr.Read(toBoolsBM(code.GetMatrix()))
						if rerr != nil {
							chk.Violation("C07/default-encoding/unreadable", fmt.Sprintf("%+v: the reference reader cannot read the symbol: %v", c, rerr), c)
							continue
						}
						segs, perr := qr.ParseSegments(data, v)
						if perr != nil || len(segs) != 1 || segs[0].Mode != qr.Byte {
							if perr == nil && len(segs) == 1 && isASCII(t) {
								continue // ASCII text may use another mode; not this sub-space's business
							}
							chk.Violation("C07/default-encoding/segments", fmt.Sprintf("%+v: segments %v (%v), expected one byte segment", c, segs, perr), c)
							continue
						}
						wantECI := -1
						if hinted {
							wantECI = st.eci
						}
						if !bytes.Equal(segs[0].Data, want) || (segs[0].ECI != wantECI && !(hinted && st.eci == 1 && segs[0].ECI == 3)) {
							chk.Violation("C07/default-encoding/bytes", fmt.Sprintf("default byte-mode encoding set to %s, text %q, hint %v: the symbol carries bytes % X with ECI %d, expected % X with ECI %d", st.name, t, hinted, segs[0].Data, segs[0].ECI, want, wantECI), c)
							continue
						}
						l.Distinct("nontrivial", fmt.Sprint("defenc", st.name, t, hinted))
					}
				}
			}
		})
}

func isASCII(s string) bool {
	for i := 0; i < len(s); i++ {
		if s[i] >= 0x80 {
			return false
		}
	}
	return true
}
