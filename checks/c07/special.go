package main

// Algebraically special payloads. Reed-Solomon parity is a linear function of the data, so
// payloads exist whose parity takes special values that no text family and no random payload
// ever produces: ALL-ZERO parity (the data block is a multiple of the generator polynomial: the
// standard then prescribes parity 00..00) and parity starting with zero bytes. With the
// ISO-8859-1 hint the header (ECI 12 + mode 4 + count 8/16 bits) is byte aligned and a text of
// exactly the capacity fills every data codeword with one text byte of any value, so every data
// block can be chosen freely apart from its header bytes: the last ecPerBlock bytes of each block
// are set to the Reed-Solomon remainder of the bytes before them (computed by ref/qr), which makes
// the block a code word of the shorter code and its parity zero.

import (
	"fmt"

	"verif/mc"
	"verif/ref/qr"
	"verif/ref/twin"
)

// specialData returns the data codewords (header included) of the special payload and the text.
// kind 0: zero parity in every block; 1: zero parity in the first block only; 2: in the last
// block only; 3: first parity byte of every block zero (found by trying the 256 values of the
// block's last byte).
func specialData(v int, lv qr.Level, kind int) (text string, payload []byte, ok bool) {
	k := qr.DataCodewords(v, lv)
	hdr := 3
	if v >= 10 {
		hdr = 4
	}
	n := k - hdr
	ec, _ := qr.ECInfo(v, lv)
	sizes := qr.Blocks(v, lv)
	if n < 1 {
		return "", nil, false
	}
	payload = make([]byte, n)
	for i := range payload {
		payload[i] = byte(mix(i, 7+kind+31*v) % 256)
	}
	payload[0] = 0xE9
	header, err := qr.DataCodewordsFor([]qr.Segment{{Mode: qr.Byte, Data: payload, ECI: 1}}, v, lv)
	if err != nil || len(header) != k {
		return "", nil, false
	}
	data := append([]byte{}, header...)
	if kind >= 4 {
		// near-twin blocks (see verif/ref/twin): the second block is the first one - header bytes
		// included, they are ordinary text bytes there - changed by difference (kind-4)/3 at the
		// start / middle / end; with three or more blocks the last block is made a twin of the one
		// before it as well
		if len(sizes) < 2 {
			return "", nil, false
		}
		d := twin.Diffs()[(kind-4)/3]
		pl := (kind - 4) % 3
		pairs := [][2]int{{0, 1}}
		if len(sizes) >= 3 {
			pairs = append(pairs, [2]int{len(sizes) - 2, len(sizes) - 1})
		}
		for _, pr := range pairs {
			a, c := pr[0], pr[1]
			n := sizes[a]
			if m := sizes[c]; m < n {
				n = m
			}
			// blocks are laid out one after the other in the data stream (data part only)
			da, dc := dataStart(sizes, a), dataStart(sizes, c)
			tw := append([]byte{}, data[da:da+n]...)
			p := []int{0, n/2 - 2, n - 5}[pl]
			if p < 0 || p+5 > n || !d.Apply(tw, p) {
				return "", nil, false
			}
			copy(data[dc:dc+n], tw)
		}
		copy(payload, data[hdr:])
		rs := make([]rune, n)
		for i, c := range payload {
			rs[i] = rune(c)
		}
		return string(rs), payload, true
	}
	off := 0
	for b, sz := range sizes {
		blk := data[off : off+sz]
		first := 0
		if b == 0 {
			first = hdr
		}
		apply := kind == 0 || kind == 3 || (kind == 1 && b == 0) || (kind == 2 && b == len(sizes)-1)
		if apply {
			switch {
			case kind == 3:
				for val := 0; val < 256; val++ {
					blk[sz-1] = byte(val)
					if qr.ECC(blk, ec)[0] == 0 {
						break
					}
				}
			case sz-ec >= first+1:
				rem := qr.ECC(blk[:sz-ec], ec) // remainder of the prefix = the tail that makes the whole block a code word
				copy(blk[sz-ec:], rem)
			default:
				return "", nil, false // the block is too short to be chosen freely (header + ec bytes exceed it)
			}
		}
		off += sz
	}
	copy(payload, data[hdr:])
	rs := make([]rune, n)
	for i, c := range payload {
		rs[i] = rune(c)
	}
	return string(rs), payload, true
}

// dataStart is the offset of block b's data codewords in the (un-interleaved) data codeword stream.
func dataStart(sizes []int, b int) int {
	off := 0
	for i := 0; i < b; i++ {
		off += sizes[i]
	}
	return off
}

func runSpecialParity() {
	type job struct{ v, li int }
	var jobs []job
	for v := 1; v <= 40; v++ {
		for li := range levels {
			jobs = append(jobs, job{v, li})
		}
	}
	chk.Range("Encoder_encode on algebraically special payloads: all 160 (version,level), ISO-8859-1 text of exactly the capacity chosen so that the Reed-Solomon parity is ALL ZERO in every block / in the first block only / in the last block only, or starts with a zero byte in every block; and NEAR-TWIN blocks (second block = first block, last = last but one, changed by a difference invisible to CRC-32 x3 / byte sum + Adler-32 / xor / order / the ends, at the start, middle and end of the block); one mask = (version+level) mod 8; library matrix == reference matrix", len(jobs),
		func(i int) string { return fmt.Sprint(jobs[i]) },
		func(l *mc.Local, i int) {
			j := jobs[i]
			lv := levels[j.li]
			for kind := 0; kind < 4+3*len(twin.Diffs()); kind++ {
				c := mxCase{Kind: "encode", V: j.v, Level: lv.name, Mask: (j.v + j.li) % 8, Family: famNames[famByteECI], Len: capOf(famByteECI, j.v, lv.ref), Pat: 2000 + kind}
				if _, _, ok := specialData(j.v, lv.ref, kind); !ok {
					l.Count("special_parity_not_constructible", 1)
					continue
				}
				cls, w := runMatrixCase(l, c)
				report(l, cls, w, c)
			}
		})
	chk.Sample("encode", mxCase{Kind: "encode", V: 1, Level: "L", Mask: 1, Family: famNames[famByteECI], Len: capOf(famByteECI, 1, qr.L), Pat: 2000})
}

var _ = mc.Guard

// runConflictingLevelHint: Encoder_encode takes the error-correction level as an ARGUMENT; a hints map
// that was prepared for the writer may carry an ERROR_CORRECTION entry as well. Every (argument
// level, hinted level) pair, typed and as a string, for versions 1, 7 and 27: the matrix is the
// symbol of the argument's level.
func runConflictingLevelHint() {
	var cases []mxCase
	for _, v := range []int{1, 7, 27} {
		for _, lv := range levels {
			for _, h := range []string{"L", "M", "Q", "H", "sL", "sM", "sQ", "sH"} {
				for _, fam := range []int{famNumeric, famByteECI} {
					cases = append(cases, mxCase{Kind: "encode", V: v, Level: lv.name, Mask: (v + len(h)) % 8, Family: famNames[fam], Len: capOf(fam, v, qr.H) / 2, Pat: 1, ECHint: h})
				}
			}
		}
	}
	chk.Range("Encoder_encode with a hints map that also carries ERROR_CORRECTION (typed and string, every (argument, hint) level pair) x versions {1,7,27} x {numeric, byte+ECI}: the matrix is the symbol of the ARGUMENT's level", len(cases),
		func(i int) string { return caseID(cases[i]) },
		func(l *mc.Local, i int) {
			cls, w := runMatrixCase(l, cases[i])
			report(l, cls, w, cases[i])
		})
}

// runGS1: the GS1_FORMAT hint in every spelling x every content family (the FNC1 indicator stands
// in front of whatever mode the content gets, Kanji included, and behind an ECI header) x versions
// {1, 7, 27, 40} x levels x lengths {1, half, the capacity less the indicator's four bits}.
func runGS1() {
	var cases []mxCase
	for _, v := range []int{1, 7, 27, 40} {
		for _, lv := range levels {
			for _, g := range []string{"true", "strue", "false", "sfalse"} {
				for fam := famNumeric; fam < famRaw; fam++ {
					full := capOf(fam, v, lv.ref)
					for _, n := range []int{1, full / 2, full - 1, full} {
						if n < 1 {
							continue
						}
						cases = append(cases, mxCase{Kind: "encode", V: v, Level: lv.name, Mask: (v + n + len(g)) % 8, Family: famNames[fam], Len: n, Pat: 1, GS1: g})
					}
				}
			}
		}
	}
	chk.Range(fmt.Sprintf("Encoder_encode with the GS1_FORMAT hint {true, \"true\", false, \"false\"} x families {numeric, alphanumeric, byte, byte+ECI, Kanji} x versions {1,7,27,40} x levels x lengths {1, half, capacity-1, capacity}: FNC1 indicator in front of the first mode indicator (behind the ECI header) iff the value is true; a content that fills the symbol to less than four free bits is refused with it [%d cases]", len(cases)), len(cases),
		func(i int) string { return caseID(cases[i]) },
		func(l *mc.Local, i int) {
			cls, w := runMatrixCase(l, cases[i])
			if cls == "encode/error" || cls == "encode/error/terminator-shortened" {
				// with the four bits of the indicator the content may no longer fit: compare with the reference
				c := cases[i]
				if c.GS1 == "true" || c.GS1 == "strue" {
					fam := famIndex(c.Family)
					_, payload := content(fam, c.Len, c.Pat)
					eci := -1
					if fam == famByteECI {
						eci = 1
					}
					li := levelIndex(c.Level)
					if _, e := qr.DataCodewordsFor([]qr.Segment{{Mode: famModes[fam], Data: payload, ECI: eci, FNC1: true}}, c.V, levels[li].ref); e != nil {
						l.Count("gs1_cases_that_no_longer_fit", 1)
						return
					}
				}
			}
			report(l, cls, w, cases[i])
		})
}

// runTwinSequences: requests of the SAME shape (family, version, level, mask, length) with
// different contents, one after the other on ONE goroutine: state keyed by the shape of a request
// (a converted byte string handed from mode selection to bit packing, a memo keyed by length)
// survives from one content to the next only between such twins. Every matrix is compared with the
// reference as usual.
func runTwinSequences() {
	var seqs [][]mxCase
	for fam := famNumeric; fam < famRaw; fam++ {
		for _, vl := range [][2]int{{1, 0}, {7, 1}, {27, 2}, {40, 3}} {
			lv := levels[vl[1]]
			n := capOf(fam, vl[0], lv.ref) / 2
			if n < 1 {
				n = 1
			}
			var seq []mxCase
			for _, pat := range []int{0, 1, 0, 1003, 1} {
				seq = append(seq, mxCase{Kind: "encode", V: vl[0], Level: lv.name, Mask: (vl[0] + fam) % 8, Family: famNames[fam], Len: n, Pat: pat})
			}
			seqs = append(seqs, seq)
		}
	}
	chk.Range(fmt.Sprintf("twin sequences on one goroutine: %d (family, version, level) shapes x five contents of the same length in turn (two fixed patterns alternating, one sweep pattern): every matrix equals the reference", len(seqs)), 1,
		func(i int) string { return "twin sequences" },
		func(l *mc.Local, _ int) {
			for _, seq := range seqs {
				for _, c := range seq {
					cls, w := runMatrixCase(l, c)
					report(l, cls, w, c)
					l.Count("twin_sequence_encodes", 1)
				}
			}
		})
}
