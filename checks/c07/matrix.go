package main

import (
	"fmt"
	"hash/fnv"
	"sort"
	"strings"
	"sync"

	"golang.org/x/text/encoding/japanese"

	"verif/mc"
	"verif/ref/qr"

	"github.com/makiuchi-d/gozxing"
	"github.com/makiuchi-d/gozxing/qrcode/decoder"
	"github.com/makiuchi-d/gozxing/qrcode/encoder"
)

// ---------------------------------------------------------------------------------------
// configuration space

type levelT struct {
	ref  qr.Level
	lib  decoder.ErrorCorrectionLevel
	name string
}

var levels = []levelT{
	{qr.L, decoder.ErrorCorrectionLevel_L, "L"},
	{qr.M, decoder.ErrorCorrectionLevel_M, "M"},
	{qr.Q, decoder.ErrorCorrectionLevel_Q, "Q"},
	{qr.H, decoder.ErrorCorrectionLevel_H, "H"},
}

func levelIndex(name string) int {
	for i, l := range levels {
		if l.name == name {
			return i
		}
	}
	return -1
}

const (
	famNumeric = iota
	famAlnum
	famByte    // no CHARACTER_SET hint: library default (UTF-8), payload is printable ASCII, no ECI
	famByteECI // CHARACTER_SET=ISO-8859-1, payload is all of 0x00..0xFF
	famKanji   // CHARACTER_SET=Shift_JIS, payload is double-byte JIS X 0208 characters
	famRaw     // MatrixUtil_buildMatrix called directly with an arbitrary final codeword stream
	numFam
)

var famNames = []string{"numeric", "alnum", "byte", "byte-eci", "kanji", "raw"}
var famModes = []qr.Mode{qr.Numeric, qr.Alphanumeric, qr.Byte, qr.Byte, qr.Kanji}

func famIndex(name string) int {
	for i, n := range famNames {
		if n == name {
			return i
		}
	}
	return -1
}

// mxCase is one encoder-side case and its replay record.
type mxCase struct {
	Key    string `json:",omitempty"`
	Kind   string // "encode" (Encoder_encode) or "build" (MatrixUtil_buildMatrix)
	V      int
	Level  string
	Mask   int
	Family string // encode: numeric|alnum|byte|byte-eci|kanji; build: always "raw"
	Vec    string `json:",omitempty"` // build: zero|ones|55|aa|count|bit|cw
	Len    int    // encode: number of characters; build: index of the single set bit (Vec "bit") or of the single non-zero codeword (Vec "cw")
	Pat    int    // encode: content pattern (0,1: fixed pseudo patterns; >=1000: sweep starting at unit Pat-1000)
	// ECHint, when not empty, puts an ERROR_CORRECTION entry into the hints map handed to
	// Encoder_encode ("L".."H" typed level, "sL".."sH" the string spelling): a map prepared for the
	// writer and passed on. The level ARGUMENT decides; the matrix is the argument's symbol.
	ECHint string `json:",omitempty"`
	// GS1, when not empty, puts a GS1_FORMAT entry into the hints map: "true" / "false" the bool,
	// "strue" / "sfalse" the string spelling. With a true value the FNC1-in-first-position
	// indicator 0101 precedes the (first) mode indicator, after the ECI header if there is one.
	GS1 string `json:",omitempty"`
}

// alphanumeric character set in value order, written from table 5 of the standard
const alnumSet = "0123456789ABCDEFGHIJKLMNOPQRSTUVWXYZ $%*+-./:"

// kanjiAll: every double-byte Shift JIS code in the two ranges of the standard's Kanji mode
// (0x8140-0x9FFC, 0xE040-0xEBBF) that x/text maps to a rune and back to the same code.
var kanjiRunes []rune
var kanjiCodes [][2]byte

func initKanji() {
	dec := japanese.ShiftJIS.NewDecoder()
	enc := japanese.ShiftJIS.NewEncoder()
	for hi := 0x81; hi <= 0xEB; hi++ {
		if hi > 0x9F && hi < 0xE0 {
			continue
		}
		for lo := 0x40; lo <= 0xFC; lo++ {
			if lo == 0x7F {
				continue
			}
			code := hi<<8 | lo
			if !(code >= 0x8140 && code <= 0x9FFC) && !(code >= 0xE040 && code <= 0xEBBF) {
				continue
			}
			u, err := dec.Bytes([]byte{byte(hi), byte(lo)})
			if err != nil {
				continue
			}
			rs := []rune(string(u))
			if len(rs) != 1 || rs[0] == 0xFFFD || rs[0] < 0x80 {
				continue
			}
			back, err := enc.Bytes([]byte(string(rs)))
			if err != nil || len(back) != 2 || back[0] != byte(hi) || back[1] != byte(lo) {
				continue
			}
			kanjiRunes = append(kanjiRunes, rs[0])
			kanjiCodes = append(kanjiCodes, [2]byte{byte(hi), byte(lo)})
		}
	}
	ok := 0
	for i, r := range kanjiRunes {
		c := int(kanjiCodes[i][0])<<8 | int(kanjiCodes[i][1])
		if (r == 0x70B9 && c == 0x935F) || (r == 0x8317 && c == 0xE4AA) {
			ok++
		}
	}
	if ok != 2 || len(kanjiRunes) < 6000 {
		panic(fmt.Sprintf("harness: Shift JIS table self-check failed (%d characters, %d of 2 standard examples)", len(kanjiRunes), ok))
	}
}

func mix(i, pat int) int {
	x := uint32(i+1)*2654435761 ^ uint32(pat+1)*40503
	x ^= x >> 15
	x *= 2246822519
	x ^= x >> 13
	return int(x >> 4)
}

// content returns the text handed to the library and the payload bytes of the reference
// segment in the family's own mode. It is a pure function of (fam, n, pat).
func content(fam, n, pat int) (string, []byte) {
	sweep := pat >= 1000
	start := pat - 1000
	var sb strings.Builder
	payload := make([]byte, 0, n*2)
	for i := 0; i < n; i++ {
		h := mix(i, pat)
		switch fam {
		case famNumeric:
			d := h % 10
			if sweep { // consecutive three-digit groups start, start+1, ...
				g := (start + i/3) % 1000
				d = []int{g / 100, g / 10 % 10, g % 10}[i%3]
			}
			sb.WriteByte(byte('0' + d))
			payload = append(payload, byte('0'+d))
		case famAlnum:
			x := h % 45
			if i == 0 {
				x = 10 + h%35 // not a digit: the text is not numeric
			}
			if sweep { // consecutive character pairs
				p := (start + i/2) % 2025
				x = []int{p / 45, p % 45}[i%2]
			}
			sb.WriteByte(alnumSet[x])
			payload = append(payload, alnumSet[x])
		case famByte:
			b := 0x20 + h%95
			if i == 0 {
				b = 'a' // not alphanumeric
			}
			if sweep {
				b = 0x20 + (start+i)%95
			}
			sb.WriteByte(byte(b))
			payload = append(payload, byte(b))
		case famByteECI:
			b := h % 256
			if i == 0 {
				b = 0xE9
			}
			if sweep {
				b = (start + i) % 256
			}
			sb.WriteRune(rune(b))
			payload = append(payload, byte(b))
		case famKanji:
			k := h % len(kanjiRunes)
			if sweep {
				k = (start + i) % len(kanjiRunes)
			}
			sb.WriteRune(kanjiRunes[k])
			payload = append(payload, kanjiCodes[k][0], kanjiCodes[k][1])
		}
	}
	return sb.String(), payload
}

// capOf: maximum number of characters of one segment of family fam in version v at level l,
// computed from the standard's bit costs (the ECI header of byte-eci costs 4+8 bits).
func capOf(fam, v int, l qr.Level) int {
	avail := 8*qr.DataCodewords(v, l) - 4 - qr.CharCountBits(famModes[fam], v)
	if fam == famByteECI {
		avail -= 12
	}
	if avail < 0 {
		return 0
	}
	switch fam {
	case famNumeric:
		n := 3 * (avail / 10)
		if r := avail % 10; r >= 7 {
			n += 2
		} else if r >= 4 {
			n++
		}
		return n
	case famAlnum:
		n := 2 * (avail / 11)
		if avail%11 >= 6 {
			n++
		}
		return n
	case famKanji:
		return avail / 13
	}
	return avail / 8
}

// ---------------------------------------------------------------------------------------
// module classes

const (
	regData = iota
	regFinder
	regTiming
	regAlignment
	regDark
	regVersion
	regFormat
)

// class names in order of priority: when several classes differ in one symbol the first
// one in this list names the case (a displaced function pattern displaces the data as well)
var regPriority = []int{regFinder, regTiming, regAlignment, regDark, regVersion, regFormat, regData}
var regClass = map[int]string{
	regFinder:    "matrix/function-patterns/finder",
	regTiming:    "matrix/function-patterns/timing",
	regAlignment: "matrix/function-patterns/alignment",
	regDark:      "matrix/function-patterns/dark-module",
	regVersion:   "matrix/version-info",
	regFormat:    "matrix/format-info",
	regData:      "matrix/data",
}

var regions [41][][]uint8

func initRegions() {
	for v := 1; v <= 40; v++ {
		n := qr.Size(v)
		fm := qr.FunctionModules(v)
		reg := make([][]uint8, n)
		for r := 0; r < n; r++ {
			reg[r] = make([]uint8, n)
			for c := 0; c < n; c++ {
				g := regData
				switch {
				case (r < 8 && c < 8) || (r < 8 && c >= n-8) || (r >= n-8 && c < 8):
					g = regFinder
				case r == n-8 && c == 8:
					g = regDark
				case r == 6 || c == 6:
					g = regTiming
				case (r == 8 && (c <= 8 || c >= n-8)) || (c == 8 && (r <= 8 || r >= n-8)):
					g = regFormat
				case v >= 7 && ((r < 6 && c >= n-11 && c < n-8) || (c < 6 && r >= n-11 && r < n-8)):
					g = regVersion
				case fm[r][c]:
					g = regAlignment
				}
				if (g != regData) != fm[r][c] {
					panic(fmt.Sprintf("harness: region map and qr.FunctionModules disagree at v%d (%d,%d)", v, r, c))
				}
				reg[r][c] = uint8(g)
			}
		}
		regions[v] = reg
	}
}

// diff compares the library matrix with the reference; class "" means identical.
func diff(v int, ref [][]bool, lib *encoder.ByteMatrix) (class string, what string) {
	n := qr.Size(v)
	if lib == nil {
		return "matrix/missing", "library returned no matrix"
	}
	if lib.GetWidth() != n || lib.GetHeight() != n {
		return "matrix/size", fmt.Sprintf("library matrix is %dx%d, version %d has %d modules per side", lib.GetWidth(), lib.GetHeight(), v, n)
	}
	arr := lib.GetArray()
	var cnt [7]int
	var first [7][2]int
	unset := 0
	for r := 0; r < n; r++ {
		row, rr, rg := arr[r], ref[r], regions[v][r]
		for c := 0; c < n; c++ {
			want := int8(0)
			if rr[c] {
				want = 1
			}
			if row[c] != want {
				g := rg[c]
				if cnt[g] == 0 {
					first[g] = [2]int{r, c}
				}
				cnt[g]++
				if row[c] != 0 && row[c] != 1 {
					unset++
				}
			}
		}
	}
	for _, g := range regPriority {
		if cnt[g] > 0 {
			var parts []string
			for _, h := range regPriority {
				if cnt[h] > 0 {
					parts = append(parts, fmt.Sprintf("%s:%d", regClass[h][strings.LastIndex(regClass[h], "/")+1:], cnt[h]))
				}
			}
			w := fmt.Sprintf("first differing module (row %d, col %d): library %d, standard %v; differing modules by class {%s}",
				first[g][0], first[g][1], arr[first[g][0]][first[g][1]], b2i(ref[first[g][0]][first[g][1]]), strings.Join(parts, " "))
			if unset > 0 {
				w += fmt.Sprintf("; %d modules never set by the library", unset)
			}
			return regClass[g], w
		}
	}
	return "", ""
}

func b2i(b bool) int {
	if b {
		return 1
	}
	return 0
}

// explainData locates the first differing codeword of a data-region mismatch.
func explainData(v int, l qr.Level, mask int, refCW []byte, lib *encoder.ByteMatrix) string {
	arr := lib.GetArray()
	mods := qr.CodewordModules(v)
	idx := qr.CodewordIndex(v, l)
	sizes := qr.Blocks(v, l)
	nd := 0
	firstMsg := ""
	for i, m := range mods {
		var cw byte
		for _, p := range m {
			bit := (arr[p[0]][p[1]] == 1) != qr.MaskBit(mask, p[0], p[1])
			cw <<= 1
			if bit {
				cw |= 1
			}
		}
		if cw != refCW[i] {
			if nd == 0 {
				kind := "data"
				k := idx[i][1]
				if k >= sizes[idx[i][0]] {
					kind = "error-correction"
				}
				firstMsg = fmt.Sprintf("first differing codeword: #%d of the final sequence (block %d, %s codeword %d) library 0x%02X, standard 0x%02X", i, idx[i][0], kind, k, cw, refCW[i])
			}
			nd++
		}
	}
	if nd == 0 {
		return "all codewords equal (only remainder modules differ)"
	}
	return fmt.Sprintf("%d of %d codewords differ; %s", nd, len(mods), firstMsg)
}

// ---------------------------------------------------------------------------------------
// one case

func libModeName(m *decoder.Mode) string {
	if m == nil {
		return "nil"
	}
	return m.String()
}

func allIn(p []byte, set string) bool {
	for _, b := range p {
		if strings.IndexByte(set, b) < 0 {
			return false
		}
	}
	return len(p) > 0
}

// refSegments: the candidate reference segmentations for what the library reports.
func refSegments(fam int, libMode *decoder.Mode, payload []byte) [][]qr.Segment {
	one := func(m qr.Mode, eci int) []qr.Segment { return []qr.Segment{{Mode: m, Data: payload, ECI: eci}} }
	switch libMode {
	case decoder.Mode_NUMERIC:
		if fam != famKanji && allIn(payload, alnumSet[:10]) {
			return [][]qr.Segment{one(qr.Numeric, -1)}
		}
	case decoder.Mode_ALPHANUMERIC:
		if fam != famKanji && allIn(payload, alnumSet) {
			return [][]qr.Segment{one(qr.Alphanumeric, -1)}
		}
	case decoder.Mode_KANJI:
		if fam == famKanji {
			return [][]qr.Segment{one(qr.Kanji, -1)}
		}
	case decoder.Mode_BYTE:
		switch fam {
		case famByteECI:
			return [][]qr.Segment{one(qr.Byte, 1), one(qr.Byte, 3), one(qr.Byte, -1)}
		case famKanji:
			return [][]qr.Segment{one(qr.Byte, 20)}
		default:
			return [][]qr.Segment{one(qr.Byte, -1)}
		}
	}
	return nil
}

func hintsFor(c mxCase, fam int) map[gozxing.EncodeHintType]interface{} {
	h := map[gozxing.EncodeHintType]interface{}{
		gozxing.EncodeHintType_QR_VERSION:      c.V,
		gozxing.EncodeHintType_QR_MASK_PATTERN: c.Mask,
	}
	switch fam {
	case famByteECI:
		h[gozxing.EncodeHintType_CHARACTER_SET] = "ISO-8859-1"
	case famKanji:
		h[gozxing.EncodeHintType_CHARACTER_SET] = "Shift_JIS"
	}
	switch c.GS1 {
	case "true":
		h[gozxing.EncodeHintType_GS1_FORMAT] = true
	case "false":
		h[gozxing.EncodeHintType_GS1_FORMAT] = false
	case "strue":
		h[gozxing.EncodeHintType_GS1_FORMAT] = "true"
	case "sfalse":
		h[gozxing.EncodeHintType_GS1_FORMAT] = "false"
	}
	if c.ECHint != "" {
		name := c.ECHint[len(c.ECHint)-1:]
		if li := levelIndex(name); li >= 0 {
			if c.ECHint[0] == 's' {
				h[gozxing.EncodeHintType_ERROR_CORRECTION] = name
			} else {
				h[gozxing.EncodeHintType_ERROR_CORRECTION] = levels[li].lib
			}
		}
	}
	return h
}

func hashMatrix(m *encoder.ByteMatrix) uint64 {
	h := fnv.New64a()
	buf := make([]byte, 0, 180)
	for _, row := range m.GetArray() {
		buf = buf[:0]
		for _, b := range row {
			buf = append(buf, byte(b))
		}
		h.Write(buf)
	}
	return h.Sum64()
}

func caseID(c mxCase) string {
	if c.GS1 != "" {
		return fmt.Sprintf("%s v%d-%s m%d %s%s len%d pat%d gs1=%s", c.Kind, c.V, c.Level, c.Mask, c.Family, c.Vec, c.Len, c.Pat, c.GS1)
	}
	if c.ECHint != "" {
		return fmt.Sprintf("%s v%d-%s m%d %s%s len%d pat%d hint-ec=%s", c.Kind, c.V, c.Level, c.Mask, c.Family, c.Vec, c.Len, c.Pat, c.ECHint)
	}
	return fmt.Sprintf("%s v%d-%s m%d %s%s len%d pat%d", c.Kind, c.V, c.Level, c.Mask, c.Family, c.Vec, c.Len, c.Pat)
}

// runMatrixCase executes one encoder-side case; class "" = conforming.
func runMatrixCase(l *mc.Local, c mxCase) (class, what string) {
	li := levelIndex(c.Level)
	if li < 0 || c.V < 1 || c.V > 40 || c.Mask < 0 || c.Mask > 7 {
		return "harness/bad-case", fmt.Sprint(c)
	}
	if c.Kind == "build" {
		base := qr.Build(make([]byte, qr.DataCodewords(c.V, levels[li].ref)), c.V, levels[li].ref, c.Mask)
		return runBuildVector(l, c, li, base)
	}
	fam := famIndex(c.Family)
	if fam < 0 || fam >= famRaw {
		return "harness/bad-case", fmt.Sprint(c)
	}
	lv := levels[li]
	text, payload := content(fam, c.Len, c.Pat)
	if c.Pat >= 2000 && c.Pat < 2100 && fam == famByteECI {
		var ok bool
		if text, payload, ok = specialData(c.V, lv.ref, c.Pat-2000); !ok {
			return "harness/bad-case", fmt.Sprint(c)
		}
	}
	l.Beat(caseID(c))
	var code *encoder.QRCode
	var err error
	pm, site := mc.Guard(func() {
		q, e := encoder.Encoder_encode(text, lv.lib, hintsFor(c, fam))
		code = q
		if e != nil {
			err = e
		}
	})
	l.Count("evaluations", 1)
	noteTested(c, fam)
	if pm != "" {
		return "panic/" + site, fmt.Sprintf("%s: Encoder_encode panicked: %s", caseID(c), pm)
	}
	if err != nil || code == nil {
		cls := "encode/error"
		if sb, e := qr.SegmentBits([]qr.Segment{{Mode: famModes[fam], Data: payload, ECI: map[bool]int{true: 1, false: -1}[fam == famByteECI]}}, c.V); e == nil && 8*qr.DataCodewords(c.V, lv.ref)-len(sb) < 4 {
			cls = "encode/error/terminator-shortened" // fewer than 4 bits remain after the data
		}
		return cls, fmt.Sprintf("%s: Encoder_encode refused a payload that fits the symbol (%d characters, capacity %d): %v", caseID(c), c.Len, capOf(fam, c.V, lv.ref), err)
	}
	if code.GetVersion() == nil || code.GetVersion().GetVersionNumber() != c.V {
		return "encode/version-hint", fmt.Sprintf("%s: requested version %d, QRCode reports %v", caseID(c), c.V, code.GetVersion())
	}
	cands := refSegments(fam, code.GetMode(), payload)
	if c.GS1 == "true" || c.GS1 == "strue" {
		for _, segs := range cands {
			segs[0].FNC1 = true
		}
	}
	if cands == nil {
		return "encode/mode", fmt.Sprintf("%s: library reports mode %s which cannot represent the payload", caseID(c), libModeName(code.GetMode()))
	}
	l.Distinct("modes", c.Family+"->"+libModeName(code.GetMode()))
	fitted := false
	for _, segs := range cands {
		data, e := qr.DataCodewordsFor(segs, c.V, lv.ref)
		if e != nil {
			continue
		}
		fitted = true
		ref := qr.Build(data, c.V, lv.ref, c.Mask)
		cls, w := diff(c.V, ref, code.GetMatrix())
		if cls == "" {
			l.Distinct("nontrivial", caseID(c))
			l.DistinctU("outcomes", hashMatrix(code.GetMatrix()))
			return "", ""
		}
		if class == "" {
			class, what = cls, caseID(c)+": "+w
			if cls == regClass[regData] {
				what += "; " + explainData(c.V, lv.ref, c.Mask, qr.Interleave(data, c.V, lv.ref), code.GetMatrix())
			}
		}
		if cls != regClass[regData] {
			break // function patterns do not depend on the segmentation
		}
	}
	if !fitted {
		return "harness/capacity", fmt.Sprintf("%s: the reference cannot fit the payload in the mode the library chose (%s)", caseID(c), libModeName(code.GetMode()))
	}
	return class, what
}

// vector returns the final codeword stream of a build case.
func vector(c mxCase) []byte {
	cw := make([]byte, qr.TotalCodewords(c.V))
	for i := range cw {
		switch c.Vec {
		case "ones":
			cw[i] = 0xFF
		case "55":
			cw[i] = 0x55
		case "aa":
			cw[i] = 0xAA
		case "count":
			cw[i] = byte(i*7 + i/256 + 1)
		}
	}
	if c.Vec == "bit" {
		cw[c.Len/8] = 0x80 >> uint(c.Len%8)
	}
	if c.Vec == "cw" { // one codeword with an asymmetric bit pattern, all others zero
		cw[c.Len] = 0xB1
	}
	return cw
}

// runBuildVector: MatrixUtil_buildMatrix on an arbitrary codeword stream. base is the reference
// symbol of the all-zero stream (Reed-Solomon is linear: zero data has zero parity); the
// reference for any other stream flips exactly the modules of its 1 bits.
func runBuildVector(l *mc.Local, c mxCase, li int, base [][]bool) (class, what string) {
	lv := levels[li]
	n := qr.Size(c.V)
	cw := vector(c)
	// the reference is base with the modules of the stream's 1 bits flipped; base is restored
	// before returning (it is private to the calling job)
	mods := qr.CodewordModules(c.V)
	flip := func() {
		for i, b := range cw {
			if b == 0 {
				continue
			}
			for k := 0; k < 8; k++ {
				if b&(0x80>>uint(k)) != 0 {
					p := mods[i][k]
					base[p[0]][p[1]] = !base[p[0]][p[1]]
				}
			}
		}
	}
	flip()
	defer flip()
	ref := base
	bits := gozxing.NewEmptyBitArray()
	for _, b := range cw {
		_ = bits.AppendBits(int(b), 8)
	}
	l.Beat(caseID(c))
	m := encoder.NewByteMatrix(n, n)
	var err error
	pm, site := mc.Guard(func() {
		ver, e := decoder.Version_GetVersionForNumber(c.V)
		if e != nil {
			err = e
			return
		}
		if e := encoder.MatrixUtil_buildMatrix(bits, lv.lib, ver, c.Mask, m); e != nil {
			err = e
		}
	})
	l.Count("evaluations", 1)
	noteTested(c, famRaw)
	if pm != "" {
		return "panic/" + site, fmt.Sprintf("%s: MatrixUtil_buildMatrix panicked: %s", caseID(c), pm)
	}
	if err != nil {
		return "buildMatrix/error", fmt.Sprintf("%s: MatrixUtil_buildMatrix failed on a stream of exactly %d codewords: %v", caseID(c), len(cw), err)
	}
	cls, w := diff(c.V, ref, m)
	if cls == "" {
		l.Distinct("nontrivial", caseID(c))
		l.DistinctU("outcomes", hashMatrix(m))
		return "", ""
	}
	w = caseID(c) + ": " + w
	if cls == regClass[regData] {
		w += "; " + explainData(c.V, lv.ref, c.Mask, cw, m)
	}
	return cls, w
}

// ---------------------------------------------------------------------------------------
// failure aggregation: the key of a matrix mismatch names the module class and only those of
// (version, level, mask, family) on which the failure actually depends.

type tuple struct{ v, l, m, f int }

type failRec struct {
	c    mxCase
	what string
}

var (
	aggMu  sync.Mutex
	tested = map[tuple]struct{}{}
	failed = map[string]map[tuple]failRec{}
)

func noteTested(c mxCase, fam int) {
	t := tuple{c.V, levelIndex(c.Level), c.Mask, fam}
	aggMu.Lock()
	tested[t] = struct{}{}
	aggMu.Unlock()
}

func noteFailure(class, what string, c mxCase) {
	fam := famRaw
	if c.Kind == "encode" {
		fam = famIndex(c.Family)
	}
	t := tuple{c.V, levelIndex(c.Level), c.Mask, fam}
	aggMu.Lock()
	m := failed[class]
	if m == nil {
		m = map[tuple]failRec{}
		failed[class] = m
	}
	if _, ok := m[t]; !ok {
		m[t] = failRec{c, what}
	}
	aggMu.Unlock()
}

func (t tuple) dim(d int) int { return [4]int{t.v, t.l, t.m, t.f}[d] }

func dimName(d, x int) string {
	switch d {
	case 0:
		return fmt.Sprintf("v%d", x)
	case 1:
		return levels[x].name
	case 2:
		return fmt.Sprintf("mask%d", x)
	}
	return famNames[x]
}

func proj(ts []tuple, d int) []int {
	seen := map[int]bool{}
	var out []int
	for _, t := range ts {
		if !seen[t.dim(d)] {
			seen[t.dim(d)] = true
			out = append(out, t.dim(d))
		}
	}
	sort.Ints(out)
	return out
}

func filter(ts []tuple, d, x int) []tuple {
	var out []tuple
	for _, t := range ts {
		if t.dim(d) == x {
			out = append(out, t)
		}
	}
	return out
}

func flushMatrixFailures() {
	aggMu.Lock()
	defer aggMu.Unlock()
	var classes []string
	for c := range failed {
		classes = append(classes, c)
	}
	sort.Strings(classes)
	// versions on which a function pattern, the format or the version information is wrong:
	// there a data-region mismatch is the expected consequence (displaced or overwritten
	// modules shift the whole codeword stream) and is folded into that class's violation
	displaced := map[int]bool{}
	for class, recs := range failed {
		if class != regClass[regData] {
			for t := range recs {
				displaced[t.v] = true
			}
		}
	}
	folded := 0
	for _, class := range classes {
		recs := failed[class]
		var F, T []tuple
		for t := range recs {
			if class == regClass[regData] && displaced[t.v] {
				folded++
				continue
			}
			F = append(F, t)
		}
		if len(F) == 0 {
			continue
		}
		for t := range tested {
			if strings.HasSuffix(class, "version-info") && t.v < 7 {
				continue
			}
			if strings.HasSuffix(class, "alignment") && t.v < 2 {
				continue
			}
			T = append(T, t)
		}
		sort.Slice(F, func(i, j int) bool {
			a, b := F[i], F[j]
			if a.v != b.v {
				return a.v < b.v
			}
			if a.l != b.l {
				return a.l < b.l
			}
			if a.m != b.m {
				return a.m < b.m
			}
			return a.f < b.f
		})
		var rec func(parts []string, F, T []tuple, d int)
		rec = func(parts []string, F, T []tuple, d int) {
			if d == 4 {
				key := "C07/" + class
				if len(parts) > 0 {
					key += "/" + strings.Join(parts, "-")
				}
				r := recs[F[0]]
				r.c.Key = key
				chk.Violation(key, fmt.Sprintf("%s [%d failing (version, level, mask, family) combinations in this class]", r.what, len(F)), r.c)
				return
			}
			// a dimension enters the key only if the failure is confined to a few of its values
			// (a table row, one mask predicate, one level's column); a defect that shows on many
			// versions or masks is a defect of the construction, not of a row
			pf, pt := proj(F, d), proj(T, d)
			specific := len(pf) < len(pt) && len(pf) <= 3
			if d == 3 {
				specific = len(pf) == 1 && len(pt) > 1
			}
			if !specific {
				rec(parts, F, T, d+1)
				return
			}
			for _, x := range pf {
				rec(append(append([]string{}, parts...), dimName(d, x)), filter(F, d, x), filter(T, d, x), d+1)
			}
		}
		rec(nil, F, T, 0)
	}
	if folded > 0 {
		chk.Note(fmt.Sprintf("%d (version, level, mask, family) combinations in which only data modules differ were folded into the function-pattern / format / version information violations of the same versions", folded))
	}
	failed = map[string]map[tuple]failRec{}
}

func report(l *mc.Local, class, what string, c mxCase) {
	if class == "" {
		return
	}
	if strings.HasPrefix(class, "matrix/") && class != "matrix/size" && class != "matrix/missing" {
		noteFailure(class, what, c)
		return
	}
	c.Key = "C07/" + class
	chk.Violation(c.Key, what, c)
}

// ---------------------------------------------------------------------------------------
// sub-spaces

// runBuildMatrix: "forall payload bit streams" at the level of MatrixUtil_buildMatrix.
func runBuildMatrix() {
	type job struct {
		v, li  int
		lo, hi int // single-bit range, or -1 for the five dense vectors
	}
	var jobs []job
	for v := 1; v <= 40; v++ {
		for li := range levels {
			jobs = append(jobs, job{v, li, -1, -1})
		}
	}
	// single-bit streams: every bit of versions 1..20 (quick: of five versions); single-codeword
	// streams (0xB1 in one codeword) for every codeword of versions 21..40 (thorough)
	bitVersions := map[int]bool{1: true, 2: true, 7: true, 14: true, 21: true}
	const bitMaxV = 20
	for v := 1; v <= 40; v++ {
		if chk.Quick() && !bitVersions[v] {
			continue
		}
		nb := 8 * qr.TotalCodewords(v)
		for lo := 0; lo < nb; lo += 512 {
			hi := lo + 512
			if hi > nb {
				hi = nb
			}
			jobs = append(jobs, job{v, v % 4, lo, hi})
		}
	}
	name := "MatrixUtil_buildMatrix on raw codeword streams: all 160 (version,level) x 8 masks x {all-zero, all-ones, 0x55, 0xAA, counting}; " +
		map[bool]string{true: "every single-bit stream for versions {1,2,7,14,21}", false: "every single-bit stream for versions 1..20, every single-codeword (0xB1) stream for versions 21..40"}[chk.Quick()] +
		" (versions 1,2: all 8 masks; others: mask = index mod 8)"
	chk.Range(name, len(jobs),
		func(i int) string { return fmt.Sprint(jobs[i]) },
		func(l *mc.Local, i int) {
			j := jobs[i]
			lv := levels[j.li]
			var bases [8][][]bool
			base := func(mask int) [][]bool {
				if bases[mask] == nil {
					bases[mask] = qr.Build(make([]byte, qr.DataCodewords(j.v, lv.ref)), j.v, lv.ref, mask)
				}
				return bases[mask]
			}
			if j.lo < 0 {
				for mask := 0; mask < 8; mask++ {
					for _, vec := range []string{"zero", "ones", "55", "aa", "count"} {
						c := mxCase{Kind: "build", V: j.v, Level: lv.name, Mask: mask, Family: "raw", Vec: vec}
						cls, w := runBuildVector(l, c, j.li, base(mask))
						report(l, cls, w, c)
					}
				}
				return
			}
			for b := j.lo; b < j.hi; b++ {
				vec, idx := "bit", b
				if !chk.Quick() && j.v > bitMaxV {
					if b%8 != 0 {
						continue
					}
					vec, idx = "cw", b/8
				}
				for mask := 0; mask < 8; mask++ {
					if j.v > 2 && mask != idx%8 {
						continue
					}
					c := mxCase{Kind: "build", V: j.v, Level: lv.name, Mask: mask, Family: "raw", Vec: vec, Len: idx}
					cls, w := runBuildVector(l, c, j.li, base(mask))
					report(l, cls, w, c)
				}
			}
		})
	chk.Sample("build", mxCase{Kind: "build", V: 2, Level: "Q", Mask: 5, Family: "raw", Vec: "bit", Len: 17})
}

func uniqueLens(cap int, ls ...int) []int {
	seen := map[int]bool{}
	var out []int
	for _, n := range ls {
		if n >= 1 && n <= cap && !seen[n] {
			seen[n] = true
			out = append(out, n)
		}
	}
	sort.Ints(out)
	return out
}

// capacitySelfCheck: the reference must accept cap characters and refuse cap+1.
func capacitySelfCheck(fam, v int, lv levelT) {
	cp := capOf(fam, v, lv.ref)
	eci := -1
	if fam == famByteECI {
		eci = 1
	}
	for _, n := range []int{cp, cp + 1} {
		_, p := content(fam, n, 0)
		_, err := qr.DataCodewordsFor([]qr.Segment{{Mode: famModes[fam], Data: p, ECI: eci}}, v, lv.ref)
		if (n == cp) != (err == nil) {
			chk.Violation("C07/harness/capacity", fmt.Sprintf("capacity formula and reference disagree: %s v%d-%s n=%d err=%v", famNames[fam], v, lv.name, n, err), nil)
		}
	}
	if fam != famByteECI && cp != qr.Capacity(v, lv.ref, famModes[fam]) {
		chk.Violation("C07/harness/capacity", fmt.Sprintf("capacity formula %d, qr.Capacity %d: %s v%d-%s", cp, qr.Capacity(v, lv.ref, famModes[fam]), famNames[fam], v, lv.name), nil)
	}
}

// runConfigProduct: the full 40 x 4 x 8 configuration product x payload family.
func runConfigProduct() {
	type job struct{ v, li, fam int }
	var jobs []job
	for v := 1; v <= 40; v++ {
		for li := range levels {
			for fam := 0; fam < famRaw; fam++ {
				jobs = append(jobs, job{v, li, fam})
			}
		}
	}
	pats := chk.Pick(1, 2)
	fullMask := map[int]bool{1: true, 2: true, 6: true, 7: true, 14: true, 21: true, 27: true, 32: true, 36: true, 40: true}
	name := "Encoder_encode, forced version and mask: all 1280 (version,level,mask) x 5 families {numeric, alnum, byte, byte+ECI(ISO-8859-1), kanji(Shift_JIS)} x lengths {1, 2, 3, cap/4, cap/2, 3cap/4, cap-2, cap-1, cap} x 2 content patterns"
	if chk.Quick() {
		name = "Encoder_encode, forced version and mask: 160 (version,level) x 5 families {numeric, alnum, byte, byte+ECI(ISO-8859-1), kanji(Shift_JIS)} x lengths {1, 2, cap/2, cap-1, cap}; all 8 masks on versions {1,2,6,7,14,21,27,32,36,40}, one mask = (version+2*level+3*family+length index) mod 8 elsewhere (all 8 masks occur on every version)"
	}
	chk.Range(name, len(jobs),
		func(i int) string { return fmt.Sprint(jobs[i]) },
		func(l *mc.Local, i int) {
			j := jobs[i]
			lv := levels[j.li]
			capacitySelfCheck(j.fam, j.v, lv)
			cp := capOf(j.fam, j.v, lv.ref)
			lens := uniqueLens(cp, 1, 2, cp/2, cp-1, cp)
			if !chk.Quick() {
				lens = uniqueLens(cp, 1, 2, 3, cp/4, cp/2, 3*cp/4, cp-2, cp-1, cp)
			}
			for k, n := range lens {
				for pat := 0; pat < pats; pat++ {
					for mask := 0; mask < 8; mask++ {
						if chk.Quick() && !fullMask[j.v] && mask != (j.v+2*j.li+3*j.fam+k)%8 {
							continue
						}
						c := mxCase{Kind: "encode", V: j.v, Level: lv.name, Mask: mask, Family: famNames[j.fam], Len: n, Pat: pat}
						cls, w := runMatrixCase(l, c)
						report(l, cls, w, c)
					}
				}
			}
		})
	chk.Sample("encode", mxCase{Kind: "encode", V: 7, Level: "H", Mask: 3, Family: "kanji", Len: capOf(famKanji, 7, qr.H), Pat: 0})
	chk.Sample("encode", mxCase{Kind: "encode", V: 40, Level: "L", Mask: 6, Family: "numeric", Len: capOf(famNumeric, 40, qr.L), Pat: 0})
}

// runCharacterSweeps: every character value of every mode occurs in some symbol: all 1000
// three-digit groups, all 100 two-digit and 10 one-digit tails, all 2025 alphanumeric pairs and
// 45 single tails, all 256 byte values, every double-byte Kanji character.
func runCharacterSweeps() {
	var cases []mxCase
	add := func(fam, v, li, n, start int) {
		cases = append(cases, mxCase{Kind: "encode", V: v, Level: levels[li].name, Mask: (start + n + li) % 8, Family: famNames[fam], Len: n, Pat: 1000 + start})
	}
	units := []int{1000, 2025, 95, 256, len(kanjiRunes)}
	per := []int{3, 2, 1, 1, 1}
	for fam := 0; fam < famRaw; fam++ {
		for li := range levels {
			if chk.Quick() && li != (fam+1)%4 {
				continue
			}
			cp := capOf(fam, 40, levels[li].ref)
			u := cp / per[fam] // whole units per symbol
			for s := 0; s < units[fam]; s += u {
				k := u
				if s+k > units[fam] {
					k = units[fam] - s
				}
				add(fam, 40, li, k*per[fam], s)
			}
		}
	}
	// tails at version 1: numeric remainders of 1 and 2 digits, alphanumeric remainder of 1
	for g := 0; g < 1000; g += 100 {
		add(famNumeric, 1, 1, 1, g)
	}
	for g := 0; g < 1000; g += 10 {
		add(famNumeric, 1, 2, 2, g)
	}
	for g := 0; g < 1000; g++ { // 3k+1 and 3k+2 digits with every leading group
		add(famNumeric, 2, g%4, 4+g%2, g)
	}
	for p := 0; p < 2025; p++ {
		add(famAlnum, 1, p%4, 1+2*(p%3), p) // lengths 1, 3, 5: a single-character tail
	}
	chunk := 16
	nj := (len(cases) + chunk - 1) / chunk
	chk.Range(fmt.Sprintf("Encoder_encode character sweeps: every 3-digit group, 2-digit and 1-digit tail, every alphanumeric pair and single tail, every byte value, all %d double-byte Kanji characters (version 40 x %s, versions 1-2 for tails; mask rotates)", len(kanjiRunes),
		map[bool]string{true: "one level per family", false: "4 levels"}[chk.Quick()]), nj,
		func(i int) string { return fmt.Sprint(cases[i*chunk]) },
		func(l *mc.Local, i int) {
			for k := i * chunk; k < (i+1)*chunk && k < len(cases); k++ {
				cls, w := runMatrixCase(l, cases[k])
				report(l, cls, w, cases[k])
			}
		})
}

// runAllLengths: every payload length 1..capacity (every terminator / bit padding / pad
// codeword situation) for every family.
func runAllLengths() {
	maxV := chk.Pick(9, 20)
	const edge = 48
	type job struct{ v, li, fam, lo, hi int }
	var jobs []job
	for v := 1; v <= 40; v++ {
		if v > maxV && chk.Quick() {
			break
		}
		for li := range levels {
			for fam := 0; fam < famRaw; fam++ {
				cp := capOf(fam, v, levels[li].ref)
				step := 64
				if v > 16 {
					step = 16
				}
				if v > maxV {
					// above maxV only the lengths next to the two ends, where the terminator is
					// shortened and the pad codeword count changes parity
					jobs = append(jobs, job{v, li, fam, 1, edge}, job{v, li, fam, cp - edge + 1, cp})
					continue
				}
				for lo := 1; lo <= cp; lo += step {
					hi := lo + step - 1
					if hi > cp {
						hi = cp
					}
					jobs = append(jobs, job{v, li, fam, lo, hi})
				}
			}
		}
	}
	// expensive (high version) jobs first, so that the tail of the range is made of cheap ones
	sort.SliceStable(jobs, func(a, b int) bool { return jobs[a].v > jobs[b].v })
	name := fmt.Sprintf("Encoder_encode, every payload length 1..capacity: versions 1..%d x 4 levels x 5 families (mask = (length+version) mod 8)", maxV)
	if !chk.Quick() {
		name += fmt.Sprintf("; versions %d..40: the %d shortest and the %d longest lengths", maxV+1, edge, edge)
	}
	chk.Range(name, len(jobs),
		func(i int) string { return fmt.Sprint(jobs[i]) },
		func(l *mc.Local, i int) {
			j := jobs[i]
			for n := j.lo; n <= j.hi; n++ {
				c := mxCase{Kind: "encode", V: j.v, Level: levels[j.li].name, Mask: (n + j.v) % 8, Family: famNames[j.fam], Len: n, Pat: 0}
				cls, w := runMatrixCase(l, c)
				report(l, cls, w, c)
			}
		})
}
