package main

import (
	"fmt"
	"math/bits"
	"sort"
	"sync"

	"verif/mc"
	"verif/ref/qr"

	"github.com/makiuchi-d/gozxing"
	"github.com/makiuchi-d/gozxing/qrcode/decoder"
	"github.com/makiuchi-d/gozxing/qrcode/encoder"
)

// tblCase is the replay record of a table case (replay re-evaluates all table sub-spaces).
type tblCase struct {
	Kind  string
	Table string
	V     int    `json:",omitempty"`
	Level string `json:",omitempty"`
	Word  int    `json:",omitempty"`
	Word2 int    `json:",omitempty"`
	Mask  int    `json:",omitempty"`
	Row   int    `json:",omitempty"`
	Col   int    `json:",omitempty"`
}

func tc(table string) tblCase { return tblCase{Kind: "table", Table: table} }

func eqInts(a, b []int) bool {
	if len(a) != len(b) {
		return false
	}
	for i := range a {
		if a[i] != b[i] {
			return false
		}
	}
	return true
}

// runTables: block structure of all 160 (version, level) pairs; alignment centres, total
// codewords and dimension of all 40 versions.
func runTables() {
	chk.Range("decoder Version table: 40 versions x {dimension, total codewords, alignment centres} and 160 (version,level) x {EC codewords per block, number of blocks, data codewords of every block in order}", 40,
		func(i int) string { return fmt.Sprintf("version %d", i+1) },
		func(l *mc.Local, i int) {
			v := i + 1
			var ver *decoder.Version
			var err error
			pm, site := mc.Guard(func() { ver, err = decoder.Version_GetVersionForNumber(v) })
			if pm != "" || err != nil || ver == nil {
				chk.Violation(fmt.Sprintf("C07/version-table/v%d", v), fmt.Sprintf("Version_GetVersionForNumber(%d): err=%v panic=%q %s", v, err, pm, site), tblCase{Kind: "table", Table: "version", V: v})
				return
			}
			c := tblCase{Kind: "table", Table: "version", V: v}
			if ver.GetVersionNumber() != v {
				chk.Violation(fmt.Sprintf("C07/version-table/v%d", v), fmt.Sprintf("entry %d reports version number %d", v, ver.GetVersionNumber()), c)
			}
			l.Count("evaluations", 1)
			if got, want := ver.GetDimensionForVersion(), qr.Size(v); got != want {
				chk.Violation(fmt.Sprintf("C07/dimension/v%d", v), fmt.Sprintf("GetDimensionForVersion()=%d, standard %d", got, want), c)
			}
			l.Count("evaluations", 1)
			if got, want := ver.GetTotalCodewords(), qr.TotalCodewords(v); got != want {
				chk.Violation(fmt.Sprintf("C07/total-codewords/v%d", v), fmt.Sprintf("GetTotalCodewords()=%d, standard %d", got, want), c)
			}
			l.Count("evaluations", 1)
			if got, want := ver.GetAlignmentPatternCenters(), qr.AlignmentCenters(v); !eqInts(got, want) {
				chk.Violation(fmt.Sprintf("C07/alignment/v%d", v), fmt.Sprintf("GetAlignmentPatternCenters()=%v, standard (Annex E) %v", got, want), c)
			}
			l.Count("evaluations", 1)
			l.Distinct("nontrivial", fmt.Sprint("version-row", v))
			for _, lv := range levels {
				c := tblCase{Kind: "table", Table: "ecblocks", V: v, Level: lv.name}
				key := fmt.Sprintf("C07/ecblocks/v%d-%s", v, lv.name)
				ecb := ver.GetECBlocksForLevel(lv.lib)
				l.Count("evaluations", 1)
				if ecb == nil {
					chk.Violation(key, "GetECBlocksForLevel returned nil", c)
					continue
				}
				wantEC, wantBlocks := qr.ECInfo(v, lv.ref)
				wantSizes := qr.Blocks(v, lv.ref)
				var sizes []int
				for _, g := range ecb.GetECBlocks() {
					for k := 0; k < g.GetCount(); k++ {
						sizes = append(sizes, g.GetDataCodewords())
					}
				}
				if ecb.GetECCodewordsPerBlock() != wantEC || ecb.GetNumBlocks() != wantBlocks || !eqInts(sizes, wantSizes) ||
					ecb.GetTotalECCodewords() != wantEC*wantBlocks {
					chk.Violation(key, fmt.Sprintf("library: %d EC codewords per block, %d blocks, data codewords per block %v (groups %v); standard (table 9): %d, %d, %v",
						ecb.GetECCodewordsPerBlock(), ecb.GetNumBlocks(), sizes, ecb.GetECBlocks(), wantEC, wantBlocks, wantSizes), c)
				}
				sum := 0
				for _, s := range sizes {
					sum += s
				}
				if sum+ecb.GetTotalECCodewords() != qr.TotalCodewords(v) {
					chk.Violation(key, fmt.Sprintf("data (%d) + EC (%d) codewords != %d total codewords of the version", sum, ecb.GetTotalECCodewords(), qr.TotalCodewords(v)), c)
				}
				l.Distinct("nontrivial", fmt.Sprint("ecblocks", v, lv.name))
				l.Distinct("outcomes", fmt.Sprint(wantEC, wantBlocks, sizes))
			}
		})
	chk.Sample("table", tblCase{Kind: "table", Table: "ecblocks", V: 17, Level: "Q"})
}

// runCharCount: character count indicator widths and mode indicators.
func runCharCount() {
	type md struct {
		lib  *decoder.Mode
		ref  qr.Mode
		name string
		ind  int // mode indicator, table 2 of the standard
	}
	modes := []md{
		{decoder.Mode_NUMERIC, qr.Numeric, "numeric", 0x1},
		{decoder.Mode_ALPHANUMERIC, qr.Alphanumeric, "alphanumeric", 0x2},
		{decoder.Mode_BYTE, qr.Byte, "byte", 0x4},
		{decoder.Mode_KANJI, qr.Kanji, "kanji", 0x8},
	}
	l := chk.NewLocal()
	for _, m := range modes {
		if m.lib.GetBits() != m.ind {
			chk.Violation("C07/mode-indicator/"+m.name, fmt.Sprintf("mode indicator %04b, standard %04b", m.lib.GetBits(), m.ind), tc("mode"))
		}
		l.Count("evaluations", 1)
		for v := 1; v <= 40; v++ {
			ver, err := decoder.Version_GetVersionForNumber(v)
			if err != nil {
				continue // reported by runTables
			}
			got := -1
			pm, _ := mc.Guard(func() { got = m.lib.GetCharacterCountBits(ver) })
			want := qr.CharCountBits(m.ref, v)
			l.Count("evaluations", 1)
			l.Distinct("nontrivial", fmt.Sprint("ccbits", m.name, v))
			if got != want {
				band := "v1-9"
				if v >= 27 {
					band = "v27-40"
				} else if v >= 10 {
					band = "v10-26"
				}
				chk.Violation("C07/char-count-bits/"+m.name+"/"+band, fmt.Sprintf("%s mode, version %d: GetCharacterCountBits=%d %s, standard (table 3) %d", m.name, v, got, pm, want), tblCase{Kind: "table", Table: "ccbits", V: v})
			}
		}
	}
	if decoder.Mode_ECI.GetBits() != 0x7 {
		chk.Violation("C07/mode-indicator/eci", fmt.Sprintf("ECI mode indicator %04b, standard 0111", decoder.Mode_ECI.GetBits()), tc("mode"))
	}
	// level indicators of the format information: L=01 M=00 Q=11 H=10
	for i, want := range []int{1, 0, 3, 2} {
		lv := levels[i]
		back, err := decoder.ErrorCorrectionLevel_ForBits(uint(want))
		l.Count("evaluations", 1)
		if lv.lib.GetBits() != want || err != nil || back != lv.lib {
			chk.Violation("C07/level-bits/"+lv.name, fmt.Sprintf("level %s: GetBits()=%02b, ForBits(%02b)=%v err=%v; standard %02b", lv.name, lv.lib.GetBits(), want, back, err, want), tc("level"))
		}
	}
	l.Merge()
	chk.Subspace("character count indicator widths: 4 modes x 40 versions; 5 mode indicators; 4 level indicators", map[string]interface{}{"cases": 169, "complete": true})
}

// runDimensions: Version_GetProvisionalVersionForDimension for every dimension -40..400.
func runDimensions() {
	l := chk.NewLocal()
	for d := -40; d <= 400; d++ {
		var ver *decoder.Version
		var err error
		pm, site := mc.Guard(func() { ver, err = decoder.Version_GetProvisionalVersionForDimension(d) })
		l.Count("evaluations", 1)
		c := tblCase{Kind: "table", Table: "dimension", Word: d}
		if pm != "" {
			chk.Violation("C07/panic/"+site, fmt.Sprintf("Version_GetProvisionalVersionForDimension(%d) panicked: %s", d, pm), c)
			continue
		}
		valid := d >= 21 && d <= 177 && (d-17)%4 == 0
		switch {
		case valid && (err != nil || ver == nil):
			chk.Violation("C07/provisional-version/rejects-valid", fmt.Sprintf("dimension %d (version %d) rejected: %v", d, (d-17)/4, err), c)
		case valid && ver.GetVersionNumber() != (d-17)/4:
			chk.Violation("C07/provisional-version/wrong-version", fmt.Sprintf("dimension %d gives version %d, standard %d", d, ver.GetVersionNumber(), (d-17)/4), c)
		case !valid && err == nil:
			chk.Violation("C07/provisional-version/accepts-invalid", fmt.Sprintf("dimension %d is not 17+4v for any v in 1..40 but was accepted as version %v", d, ver), c)
		}
		if valid {
			l.Distinct("nontrivial", fmt.Sprint("dimension", d))
		}
	}
	l.Merge()
	chk.Subspace("Version_GetProvisionalVersionForDimension: every dimension -40..400", map[string]interface{}{"cases": 441, "complete": true})
}

// ---------------------------------------------------------------------------------------
// code word failures: each failing word implicates one or two table rows (the row the word
// belongs to, the row the library assigned it to). The rows reported are a greedy minimum cover
// of all failures, so that one wrong table entry yields one key.

type cwFail struct {
	cands []int
	what  string
	c     tblCase
}

type cwFails struct {
	mu sync.Mutex
	f  []cwFail
}

func (s *cwFails) add(what string, c tblCase, cands ...int) {
	var cs []int
	for _, x := range cands {
		if x >= 0 {
			cs = append(cs, x)
		}
	}
	s.mu.Lock()
	if len(s.f) < 200000 {
		s.f = append(s.f, cwFail{cs, what, c})
	}
	s.mu.Unlock()
}

func (s *cwFails) report(prefix string, name func(int) string) {
	s.mu.Lock()
	defer s.mu.Unlock()
	rest := s.f
	sort.SliceStable(rest, func(a, b int) bool { return rest[a].what < rest[b].what })
	for len(rest) > 0 {
		count := map[int]int{}
		for _, f := range rest {
			for _, x := range f.cands {
				count[x]++
			}
		}
		best, bn := -1, 0
		for x, n := range count {
			if n > bn || (n == bn && x < best) {
				best, bn = x, n
			}
		}
		if best < 0 { // failures that implicate no row
			chk.Violation(prefix+"unknown-row", fmt.Sprintf("%s [%d failing words]", rest[0].what, len(rest)), rest[0].c)
			return
		}
		var keep []cwFail
		var first *cwFail
		for i := range rest {
			hit := false
			for _, x := range rest[i].cands {
				hit = hit || x == best
			}
			if !hit {
				keep = append(keep, rest[i])
			} else if first == nil {
				first = &rest[i]
			}
		}
		chk.Violation(prefix+name(best), fmt.Sprintf("%s [%d failing words implicate this row]", first.what, bn), first.c)
		rest = keep
	}
	s.f = nil
}

// ---------------------------------------------------------------------------------------
// format information

const formatXOR = 0b101010000010010 // ISO 18004, format information mask pattern

type fmtRow struct {
	li, mask int
	word     int // masked, as it appears in the symbol
}

func fmtRows() []fmtRow {
	var rows []fmtRow
	for li, lv := range levels {
		for m := 0; m < 8; m++ {
			rows = append(rows, fmtRow{li, m, qr.FormatWord(lv.ref, m)})
		}
	}
	return rows
}

func (r fmtRow) name() string { return fmt.Sprintf("%s-mask%d", levels[r.li].name, r.mask) }

// nearest returns the row nearest to w (by Hamming distance to word^x) and the distance.
func nearest(rows []fmtRow, w, x int) (int, int) {
	best, bd := -1, 99
	for i, r := range rows {
		if d := bits.OnesCount(uint(w ^ r.word ^ x)); d < bd {
			best, bd = i, d
		}
	}
	return best, bd
}

func rowOf(rows []fmtRow, fi *decoder.FormatInformation) int {
	for i, r := range rows {
		if fi.GetErrorCorrectionLevel() == levels[r.li].lib && int(fi.GetDataMask()) == r.mask {
			return i
		}
	}
	return -1
}

func fmtStr(rows []fmtRow, fi *decoder.FormatInformation) string {
	if fi == nil {
		return "nil"
	}
	return fmt.Sprintf("(%v, mask %d)", fi.GetErrorCorrectionLevel(), fi.GetDataMask())
}

func runFormatWords() {
	rows := fmtRows()
	// harness self-check: 32 distinct words, minimum distance 7
	for i := range rows {
		for j := 0; j < i; j++ {
			if bits.OnesCount(uint(rows[i].word^rows[j].word)) < 7 {
				panic("harness: reference format words closer than 7")
			}
		}
	}
	fails := &cwFails{}
	chk.Range("format information: FormatInformation_DecodeFormatInformation(w,w) for ALL 32768 15-bit words (nearest valid word iff distance <= 3) and (W,x),(x,W) for all 32 valid words W x all 32768 x", 64,
		func(i int) string { return fmt.Sprint("format job ", i) },
		func(l *mc.Local, i int) {
			if i < 32 { // single word, 1024 words per job
				for w := i * 1024; w < (i+1)*1024; w++ {
					var fi *decoder.FormatInformation
					pm, site := mc.Guard(func() { fi = decoder.FormatInformation_DecodeFormatInformation(uint(w), uint(w)) })
					l.Count("evaluations", 1)
					c := tblCase{Kind: "table", Table: "format", Word: w, Word2: w}
					if pm != "" {
						chk.Violation("C07/panic/"+site, fmt.Sprintf("DecodeFormatInformation(%#x,%#x) panicked: %s", w, w, pm), c)
						continue
					}
					n, d := nearest(rows, w, 0)
					nu, du := nearest(rows, w, formatXOR)
					got := -2
					if fi != nil {
						got = rowOf(rows, fi)
					}
					l.Distinct("outcomes", fmt.Sprint("fmt", got))
					switch {
					case d <= 3:
						l.Distinct("nontrivial", fmt.Sprint("fmt", w))
						if got != n {
							fails.add(fmt.Sprintf("word %015b is at distance %d from the format word %015b of %s but decodes to %s", w, d, rows[n].word, rows[n].name(), fmtStr(rows, fi)), c, n, got)
						}
					case fi == nil:
						// uncorrectable, rejected
					case du <= 3 && got == nu:
						// accepted through the library's second attempt without the XOR mask (see assumptions)
					default:
						fails.add(fmt.Sprintf("word %015b is at distance %d >= 4 from every valid format word (and %d from every un-masked one) but decodes to %s", w, d, du, fmtStr(rows, fi)), c, got)
					}
				}
				return
			}
			r := rows[i-32]
			for x := 0; x < 32768; x++ {
				nx, dx := nearest(rows, x, 0)
				nux, dux := nearest(rows, x, formatXOR)
				for ord := 0; ord < 2; ord++ {
					a, b := r.word, x
					if ord == 1 {
						a, b = x, r.word
					}
					var fi *decoder.FormatInformation
					pm, site := mc.Guard(func() { fi = decoder.FormatInformation_DecodeFormatInformation(uint(a), uint(b)) })
					l.Count("evaluations", 1)
					c := tblCase{Kind: "table", Table: "format", Word: a, Word2: b}
					if pm != "" {
						chk.Violation("C07/panic/"+site, fmt.Sprintf("DecodeFormatInformation(%#x,%#x) panicked: %s", a, b, pm), c)
						continue
					}
					got := -2
					if fi != nil {
						got = rowOf(rows, fi)
					}
					ok := got == i-32 || (dx <= 3 && got == nx) || (dux <= 3 && got == nux)
					if !ok {
						fails.add(fmt.Sprintf("one copy is the exact format word %015b of %s, the other is %015b: decodes to %s", r.word, r.name(), x, fmtStr(rows, fi)), c, i-32, got)
					}
				}
			}
			l.Distinct("nontrivial", fmt.Sprint("fmtpair", i))
		})
	fails.report("C07/format-word/", func(i int) string { return rows[i].name() })
	chk.Sample("format", tblCase{Kind: "table", Table: "format", Word: rows[13].word ^ 0x0111, Word2: rows[13].word ^ 0x0111})
}

// ---------------------------------------------------------------------------------------
// version information

func runVersionWords() {
	var words [41]int
	for v := 7; v <= 40; v++ {
		words[v] = qr.VersionWord(v)
	}
	for a := 7; a <= 40; a++ {
		for b := 7; b < a; b++ {
			if bits.OnesCount(uint(words[a]^words[b])) < 8 {
				panic("harness: reference version words closer than 8")
			}
		}
	}
	l := chk.NewLocal()
	if len(decoder.VERSION_DECODE_INFO) != 34 {
		chk.Violation("C07/version-word/count", fmt.Sprintf("VERSION_DECODE_INFO has %d entries, 34 versions carry version information", len(decoder.VERSION_DECODE_INFO)), tc("version-word"))
	}
	for i, w := range decoder.VERSION_DECODE_INFO {
		l.Count("evaluations", 1)
		if i+7 <= 40 && w != words[i+7] {
			chk.Violation(fmt.Sprintf("C07/version-word/v%d", i+7), fmt.Sprintf("VERSION_DECODE_INFO[%d]=%#x, BCH(18,6) of %d is %#x", i, w, i+7, words[i+7]), tblCase{Kind: "table", Table: "version-word", V: i + 7})
		}
	}
	l.Merge()
	fails := &cwFails{}
	chk.Range("version information: Version_decodeVersionInformation for ALL 262144 18-bit words (the nearest of the 34 valid words iff distance <= 3, error otherwise); VERSION_DECODE_INFO == BCH(18,6) recomputation", 64,
		func(i int) string { return fmt.Sprint("version-word job ", i) },
		func(l *mc.Local, i int) {
			for w := i * 4096; w < (i+1)*4096; w++ {
				var ver *decoder.Version
				var err error
				pm, site := mc.Guard(func() { ver, err = decoder.Version_decodeVersionInformation(w) })
				l.Count("evaluations", 1)
				c := tblCase{Kind: "table", Table: "version-word", Word: w}
				if pm != "" {
					chk.Violation("C07/panic/"+site, fmt.Sprintf("Version_decodeVersionInformation(%#x) panicked: %s", w, pm), c)
					continue
				}
				nv, d := 0, 99
				for v := 7; v <= 40; v++ {
					if x := bits.OnesCount(uint(w ^ words[v])); x < d {
						nv, d = v, x
					}
				}
				got := 0
				if err == nil && ver != nil {
					got = ver.GetVersionNumber()
				}
				l.Distinct("outcomes", fmt.Sprint("ver", got))
				if d <= 3 {
					l.Distinct("nontrivial", fmt.Sprint("verword", w))
					if got != nv {
						fails.add(fmt.Sprintf("word %018b is at distance %d from the version word %018b of version %d but decodes to version %d (0 = rejected, err=%v)", w, d, words[nv], nv, got, err), c, nv, nz(got))
					}
				} else if got != 0 {
					fails.add(fmt.Sprintf("word %018b is at distance %d >= 4 from every valid version word but decodes to version %d", w, d, got), c, got)
				}
			}
		})
	fails.report("C07/version-word/", func(v int) string { return fmt.Sprintf("v%d", v) })
}

func nz(x int) int {
	if x == 0 {
		return -1
	}
	return x
}

// ---------------------------------------------------------------------------------------
// data mask predicates, both copies

func runMasks() {
	if n := len(decoder.DataMaskValues); n != 8 {
		chk.Violation("C07/mask/decoder/count", fmt.Sprintf("decoder.DataMaskValues has %d entries", n), tc("mask"))
	}
	chk.Range("data mask predicates: encoder MaskUtil_getDataMaskBit on the full 177x177 grid x 8 masks; decoder DataMask.UnmaskBitMatrix on an empty symbol of each of the 40 dimensions x 8 masks; against table 10 with i=row, j=column", 16,
		func(i int) string { return fmt.Sprint("mask job ", i) },
		func(l *mc.Local, i int) {
			mask := i % 8
			if i < 8 {
				// encoder copy: argument order is (mask, x = column, y = row), cf. embedDataBits
				for r := 0; r < 177; r++ {
					for c := 0; c < 177; c++ {
						got, err := encoder.MaskUtil_getDataMaskBit(mask, c, r)
						if err != nil || got != qr.MaskBit(mask, r, c) {
							chk.Violation(fmt.Sprintf("C07/mask/encoder/mask%d", mask), fmt.Sprintf("MaskUtil_getDataMaskBit(%d, x=%d, y=%d)=%v err=%v; table 10 with i=%d, j=%d gives %v", mask, c, r, got, err, r, c, qr.MaskBit(mask, r, c)), tblCase{Kind: "table", Table: "mask-encoder", Mask: mask, Row: r, Col: c})
							return
						}
					}
				}
				l.Count("evaluations", 177*177)
				l.Distinct("nontrivial", fmt.Sprint("mask-enc", mask))
				return
			}
			if mask >= len(decoder.DataMaskValues) {
				return
			}
			for v := 1; v <= 40; v++ {
				n := qr.Size(v)
				bm, err := gozxing.NewSquareBitMatrix(n)
				if err != nil {
					chk.Violation("C07/harness/bitmatrix", err.Error(), tc("mask"))
					return
				}
				pm, site := mc.Guard(func() { decoder.DataMaskValues[mask].UnmaskBitMatrix(bm, n) })
				if pm != "" {
					chk.Violation("C07/panic/"+site, fmt.Sprintf("DataMaskValues[%d].UnmaskBitMatrix(%dx%d) panicked: %s", mask, n, n, pm), tblCase{Kind: "table", Table: "mask-decoder", Mask: mask, V: v})
					return
				}
				for r := 0; r < n; r++ {
					for c := 0; c < n; c++ {
						if got := bm.Get(c, r); got != qr.MaskBit(mask, r, c) {
							chk.Violation(fmt.Sprintf("C07/mask/decoder/mask%d", mask), fmt.Sprintf("DataMaskValues[%d].UnmaskBitMatrix, dimension %d: module (row %d, col %d) flipped=%v; table 10 gives %v", mask, n, r, c, got, qr.MaskBit(mask, r, c)), tblCase{Kind: "table", Table: "mask-decoder", Mask: mask, V: v, Row: r, Col: c})
							return
						}
					}
				}
				l.Count("evaluations", int64(n*n))
			}
			l.Distinct("nontrivial", fmt.Sprint("mask-dec", mask))
		})
}
