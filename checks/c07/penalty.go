package main

// The four features of the mask evaluation, compared one by one. The automatic mask is the one with
// the lowest score, so a feature that is off by one weight on a rare matrix changes the symbol only
// when two candidates are that close - which the content families reach by luck or not at all. Here
// the library's rule functions are compared directly with the reference:
//
//   dark-ratio feature (N4): for every version 1..40, matrices with EVERY dark count d in a window
//     of +-2 around each multiple of 5% of the area (where the score steps), and d = 0, 1, area-1,
//     area - in two spatial arrangements (the count is all that matters);
//   N1, N2, N3: on the eight masked symbols of every automatic-mask case (see automask.go) and on
//     structured matrices (stripes of every period 1..8, checkerboards, nested squares, all light /
//     all dark) of every version's size.

import (
	"fmt"

	"verif/mc"
	qr "verif/ref/qr"

	"github.com/makiuchi-d/gozxing/qrcode/encoder"
)

type penCase struct {
	Kind    string // "penalty"
	Version int
	Shape   string
	Dark    int
}

func toByteMatrix(m [][]bool) *encoder.ByteMatrix {
	bm := encoder.NewByteMatrix(len(m[0]), len(m))
	for y := range m {
		for x := range m[y] {
			if m[y][x] {
				bm.Set(x, y, 1)
			} else {
				bm.Set(x, y, 0)
			}
		}
	}
	return bm
}

func libPenaltyParts(bm *encoder.ByteMatrix) (p [4]int, pm, site string) {
	pm, site = mc.Guard(func() {
		p = [4]int{encoder.MaskUtil_applyMaskPenaltyRule1(bm), encoder.MaskUtil_applyMaskPenaltyRule2(bm), encoder.MaskUtil_applyMaskPenaltyRule3(bm), encoder.MaskUtil_applyMaskPenaltyRule4(bm)}
	})
	return
}

func penaltyCompare(l *mc.Local, m [][]bool, c penCase) bool {
	got, pm, site := libPenaltyParts(toByteMatrix(m))
	l.Count("evaluations", 1)
	if pm != "" {
		chk.Violation("C07/panic/"+site, fmt.Sprintf("mask penalty rules panic on %+v: %s", c, pm), c)
		return false
	}
	want := qr.PenaltyParts(m)
	for r := 0; r < 4; r++ {
		if got[r] != want[r] {
			chk.Violation(fmt.Sprintf("C07/penalty/rule%d", r+1), fmt.Sprintf("mask evaluation feature N%d of a %dx%d matrix (%s, %d dark modules): library %d, standard %d", r+1, len(m), len(m), c.Shape, c.Dark, got[r], want[r]), c)
			return false
		}
	}
	return true
}

func penMatrix(size int, shape string, dark int) [][]bool {
	m := make([][]bool, size)
	for y := range m {
		m[y] = make([]bool, size)
	}
	switch shape {
	case "row-major":
		for i := 0; i < dark; i++ {
			m[i/size][i%size] = true
		}
	case "scattered": // a permutation of the cells: i -> i*step mod area with step coprime to the area
		area := size * size
		step := 2*size + 1
		for gcd(step, area) != 1 {
			step += 2
		}
		for i := 0; i < dark; i++ {
			k := (i * step) % area
			m[k/size][k%size] = true
		}
	}
	return m
}

func gcd(a, b int) int {
	for b != 0 {
		a, b = b, a%b
	}
	return a
}

func runPenaltyRules() {
	chk.Range("mask evaluation features against the standard: versions 1..40 x (N4: every dark count within +-2 of each multiple of 5% of the area, and the extremes, in two arrangements; N1-N3: stripes of period 1..8 in both directions, checkerboards of cell 1..4, nested squares, uniform matrices)", 40,
		func(i int) string { return fmt.Sprint("version ", i+1) },
		func(l *mc.Local, i int) {
			v := i + 1
			size := qr.Size(v)
			area := size * size
			counts := map[int]bool{0: true, 1: true, area - 1: true, area: true}
			for k := 0; k <= 20; k++ {
				// the dark ratio is exactly k*5% at d = k*area/20 (when that is an integer)
				for d := k*area/20 - 2; d <= k*area/20+3; d++ {
					if d >= 0 && d <= area {
						counts[d] = true
					}
				}
			}
			for d := range counts {
				for _, sh := range []string{"row-major", "scattered"} {
					if !penaltyCompare(l, penMatrix(size, sh, d), penCase{"penalty", v, sh, d}) {
						return
					}
				}
			}
			for p := 1; p <= 8; p++ {
				for _, sh := range []string{"stripes-h", "stripes-v", "checker", "rings"} {
					m := penMatrix(size, "", 0)
					dark := 0
					for y := 0; y < size; y++ {
						for x := 0; x < size; x++ {
							var b bool
							switch sh {
							case "stripes-h":
								b = (y/p)%2 == 0
							case "stripes-v":
								b = (x/p)%2 == 0
							case "checker":
								b = (x/p+y/p)%2 == 0
							default:
								d := x
								for _, e := range []int{y, size - 1 - x, size - 1 - y} {
									if e < d {
										d = e
									}
								}
								b = (d/p)%2 == 0
							}
							m[y][x] = b
							if b {
								dark++
							}
						}
					}
					if !penaltyCompare(l, m, penCase{"penalty", v, fmt.Sprint(sh, "/", p), dark}) {
						return
					}
				}
			}
			for _, sh := range finderTextures {
				m, dark := textureMatrix(size, sh)
				if !penaltyCompare(l, m, penCase{"penalty", v, sh, dark}) {
					return
				}
			}
			l.Distinct("nontrivial", fmt.Sprint("penalty v", v))
		})
	// Counts beyond 8 and 16 bits. The rule functions take any matrix; a symbol has some twenty
	// finder-like runs, a texture of them has thousands: 128 / 256 of them are passed inside the
	// version sizes above (version 8 up), 32768 / 65536 of them - and as many same-colour runs and
	// 2x2 blocks - need the larger squares here.
	big := []int{300, 720, 900}
	shapes := append(append([]string{}, finderTextures...), "uniform-dark", "uniform-light", "checker/1", "stripes-h/5", "stripes-v/6")
	chk.Range(fmt.Sprintf("mask evaluation features on large textures: sizes %v x %d textures (1:1:3:1:1 runs with four light modules in rows, in columns, in both; uniform; stripes): every feature count passes 2^15 and 2^16", big, len(shapes)), len(big)*len(shapes),
		func(i int) string { return fmt.Sprint(big[i/len(shapes)], shapes[i%len(shapes)]) },
		func(l *mc.Local, i int) {
			size, sh := big[i/len(shapes)], shapes[i%len(shapes)]
			m, dark := textureMatrix(size, sh)
			if penaltyCompare(l, m, penCase{"penalty", -size, sh, dark}) {
				w := qr.PenaltyParts(m)
				l.Distinct("nontrivial", fmt.Sprint("penalty-large ", size, sh, w))
				if w[2]/40 >= 65536 {
					l.Count("matrices_with_65536_or_more_finder_like_runs", 1)
				}
			}
		})
	chk.Sample("penalty", penCase{"penalty", 2, "row-major", 375})
}

var finderTextures = []string{"finders-h", "finders-v", "finders-hv", "finders-h/shifted-rows"}

// textureMatrix: size x size cells of a repeating texture; "finders-*" tile the run 1011101 0000
// (period 11) along rows, columns, diagonals, or along rows with each row shifted by 3.
func textureMatrix(size int, shape string) ([][]bool, int) {
	pat := []bool{true, false, true, true, true, false, true, false, false, false, false}
	m := make([][]bool, size)
	dark := 0
	for y := range m {
		m[y] = make([]bool, size)
		for x := range m[y] {
			var b bool
			switch shape {
			case "finders-h":
				b = pat[x%11]
			case "finders-v":
				b = pat[y%11]
			case "finders-hv":
				b = pat[(x+y)%11]
			case "finders-h/shifted-rows":
				b = pat[(x+3*y)%11]
			case "uniform-dark":
				b = true
			case "uniform-light":
				b = false
			case "checker/1":
				b = (x+y)%2 == 0
			case "stripes-h/5":
				b = (y/5)%2 == 0
			case "stripes-v/6":
				b = (x/6)%2 == 0
			}
			m[y][x] = b
			if b {
				dark++
			}
		}
	}
	return m, dark
}
