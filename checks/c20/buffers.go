package main

// Argument buffers reused by the caller. The decoders hand PatternMatchVariance table rows, but
// the function is public and its contract is a function of the VALUES of its arguments: a caller
// that writes successive candidate patterns into ONE pattern buffer (and successive observations
// into one counters buffer) must get, for every call, the score of the current contents. For
// every pattern length 1..5 the pattern buffer is stepped IN PLACE through every content over
// {1,2,3,4} (odometer order), and at every step several counter vectors (also written in place
// into one buffer) are scored against the exact model.

import (
	"fmt"
	"math"
	"sort"

	"verif/mc"

	"github.com/makiuchi-d/gozxing/oned"
)

type histCase struct {
	Kind    string // "pattern-buffer"
	N       int
	Step    int // odometer step of the failing call (the buffer went through steps 0..Step)
	Variant int
	Limit   float64
}

func patternAt(buf []int, step int) {
	for i := range buf {
		buf[i] = 1 + step%4
		step /= 4
	}
}

func countersVariant(c, p []int, v int) {
	for i := range c {
		switch v {
		case 0:
			c[i] = p[i]
		case 1:
			c[i] = 2 * p[i]
		case 2:
			c[i] = 1
		case 3:
			c[i] = 3*p[i] + i%2
		case 4:
			c[i] = p[len(p)-1-i]
		}
	}
}

var bufLimits = []float64{0.5, 0.7, 5}

// patternHistory runs the history up to (and including) step upto; it checks every call when
// only == nil, else just the one named.
func patternHistory(l *mc.Local, n, upto int, only *histCase) {
	pbuf := make([]int, n, n+3)
	cbuf := make([]int, n, n+3)
	for step := 0; step <= upto; step++ {
		patternAt(pbuf, step)
		for v := 0; v < 5; v++ {
			countersVariant(cbuf, pbuf, v)
			for _, lim := range bufLimits {
				var got float64
				pm, site := mc.Guard(func() { got = oned.PatternMatchVariance(cbuf, pbuf, lim) })
				l.Count("evaluations", 1)
				if only != nil && !(only.Step == step && only.Variant == v && only.Limit == lim) {
					continue
				}
				hc := histCase{"pattern-buffer", n, step, v, lim}
				if pm != "" {
					chk.Violation("C20/PatternMatchVariance/panic/"+site, fmt.Sprintf("panic %s on counters %v pattern %v limit %v (reused buffers, step %d)", pm, cbuf, pbuf, lim, step), hc)
					return
				}
				want, inf, border := model(cbuf, pbuf, lim)
				if border {
					continue // ties are decided by the value family on fresh slices
				}
				bad := false
				if inf {
					bad = !math.IsInf(got, 1)
				} else {
					bad = math.IsInf(got, 0) || math.IsNaN(got) || math.Abs(got-want) > 1e-9
				}
				if bad {
					w := fmt.Sprint(want)
					if inf {
						w = "+Inf"
					}
					chk.Violation("C20/PatternMatchVariance/reused-pattern-buffer", fmt.Sprintf("score=%v, model %s for counters %v pattern %v limit %v: the pattern and counters slices are buffers the caller rewrote in place %d times before this call; with fresh slices of the same contents the library returns %v", got, w, cbuf, pbuf, lim, step, oned.PatternMatchVariance(append([]int{}, cbuf...), append([]int{}, pbuf...), lim)), hc)
					return
				}
				if only != nil {
					fmt.Printf("replay pattern-buffer: counters %v pattern %v limit %v: library %v model %v inf=%v\n", cbuf, pbuf, lim, got, want, inf)
				}
			}
		}
	}
	l.Distinct("nontrivial", fmt.Sprint("pattern-buffer n=", n))
}

func runBuffers() {
	maxN := chk.Pick(5, 6)
	chk.Range(fmt.Sprintf("PatternMatchVariance with caller-reused argument buffers: pattern lengths 1..%d, ONE pattern buffer stepped in place through all 4^n contents over {1,2,3,4}, at every step 5 counter vectors (written in place into one counters buffer) x limits %v", maxN, bufLimits), maxN,
		func(i int) string { return fmt.Sprint("n=", i+1) },
		func(l *mc.Local, i int) {
			n := i + 1
			steps := 1
			for k := 0; k < n; k++ {
				steps *= 4
			}
			l.Beat(fmt.Sprint("pattern-buffer n=", n))
			patternHistory(l, n, steps-1, nil)
		})
	chk.Sample("pattern-buffer", histCase{"pattern-buffer", 4, 37, 1, 0.7})
}

// runLongerPatterns: the pattern slice may be LONGER than the counters (the library itself scores
// six recorded counters against the seven-element Code 128 stop row): only the first len(counters)
// pattern entries take part, in the sums as well as in the comparisons. Every table row and
// synthetic pattern of length >= 2, cut to every shorter counter length, with exact multiples
// k = 1..6 and every single entry one pixel off.
func runLongerPatterns() {
	type pat struct {
		table string
		p     []int
	}
	var pats []pat
	tabs := libraryTables()
	var names []string
	for k := range tabs {
		names = append(names, k)
	}
	sort.Strings(names)
	for _, k := range names {
		for _, p := range tabs[k] {
			if len(p) >= 2 {
				pats = append(pats, pat{k, p})
			}
		}
	}
	for _, p := range [][]int{{1, 2}, {3, 1, 1}, {1, 1, 1, 4}, {2, 3, 3, 1, 1, 1, 2}, {1, 1, 1, 1, 1, 9}} {
		pats = append(pats, pat{"synthetic", p})
	}
	chk.Range(fmt.Sprintf("PatternMatchVariance with a pattern LONGER than the counters: %d patterns x every shorter counter length x exact multiples k=1..6 and every single entry +-1 x %d limits: only the first len(counters) pattern entries count", len(pats), len(limits)), len(pats),
		func(i int) string { return fmt.Sprint(pats[i]) },
		func(l *mc.Local, i int) {
			p := pats[i].p
			for n := 1; n < len(p); n++ {
				for k := 1; k <= 6; k++ {
					c := make([]int, n)
					for x := range c {
						c[x] = k * p[x]
					}
					for _, lim := range limits {
						checkVar(l, c, p, lim, pats[i].table+"/longer")
						for x := range c {
							for _, d := range []int{-1, 1} {
								if c[x]+d < 0 {
									continue
								}
								c[x] += d
								checkVar(l, c, p, lim, pats[i].table+"/longer")
								c[x] -= d
							}
						}
					}
				}
			}
		})
}
