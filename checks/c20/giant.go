package main

// One row wider than 2^32 pixels (a 512 MB bit array): positions no longer fit in 32 bits. The first
// 400 pixels alternate; pixels 2^32-100 .. 2^32+299 carry runs of other lengths; everything between
// is light. RecordPattern is started at every position from 2^32-5 on, RecordPatternInReverse at
// every position from 2^32+40 on, with every counter count whose answer the window alone decides.
// Pixel indices truncated to 32 bits land in the alternating part and give other run lengths.

import (
	"fmt"

	"verif/mc"

	"github.com/makiuchi-d/gozxing"
	"github.com/makiuchi-d/gozxing/oned"
)

type giantCase struct {
	Giant   bool
	Start   int
	N       int
	Reverse bool
}

const giantBase = 1<<32 - 100

func giantRow() (*gozxing.BitArray, []bool) {
	const n = 1<<32 + 300
	r := gozxing.NewBitArray(n)
	for x := 0; x < 400; x += 2 {
		r.Set(x)
	}
	b := make([]bool, n-giantBase)
	seq := []int{7, 3, 5, 2, 9, 4, 6, 1, 8, 2, 2, 11, 3, 1, 1, 4}
	x, dark := 0, true
	for i := 0; x < len(b); i++ {
		for k := 0; k < seq[i%len(seq)] && x < len(b); k++ {
			b[x] = dark
			if dark {
				r.Set(giantBase + x)
			}
			x++
		}
		dark = !dark
	}
	return r, b
}

func giantOne(l *mc.Local, r *gozxing.BitArray, b []bool, c giantCase) {
	counters := make([]int, c.N)
	for i := range counters {
		counters[i] = 99
	}
	var err error
	pm, site := mc.Guard(func() {
		if c.Reverse {
			err = oned.RecordPatternInReverse(r, c.Start, counters)
		} else {
			err = oned.RecordPattern(r, c.Start, counters)
		}
	})
	l.Count("evaluations", 1)
	if pm != "" {
		chk.Violation("C20/RecordPattern/giant-row/panic/"+site, fmt.Sprintf("panic %s on %+v", pm, c), c)
		return
	}
	w := c.Start - giantBase // position inside the window
	if !c.Reverse {
		runs := runsFrom(b, w)
		wantOK := w < len(b) && len(runs) >= c.N
		if wantOK != (err == nil) {
			chk.Violation(fmt.Sprintf("C20/RecordPattern/giant-row/outcome/wantOK=%v", wantOK), fmt.Sprintf("row of 2^32+300 pixels, start 2^32%+d, %d counters: err=%v, model ok=%v (runs %v)", c.Start-(1<<32), c.N, err, wantOK, runs), c)
			return
		}
		if wantOK {
			for i := 0; i < c.N; i++ {
				if counters[i] != runs[i] {
					chk.Violation("C20/RecordPattern/giant-row/counters", fmt.Sprintf("row of 2^32+300 pixels, start 2^32%+d: counters=%v, model %v", c.Start-(1<<32), counters, runs[:c.N]), c)
					return
				}
			}
			l.Distinct("nontrivial", fmt.Sprint("giantF", c.Start, runs[:c.N]))
		}
		return
	}
	all := runsFrom(b, 0)
	pos, k := 0, 0
	for i, ln := range all {
		if w < pos+ln {
			k = i
			break
		}
		pos += ln
	}
	if k < c.N+1 {
		return // the answer depends on pixels in front of the window: not examined
	}
	want := all[k-c.N : k]
	if err != nil {
		chk.Violation("C20/RecordPatternInReverse/giant-row/outcome/wantOK=true", fmt.Sprintf("row of 2^32+300 pixels, start 2^32%+d, %d counters: err=%v, model %v", c.Start-(1<<32), c.N, err, want), c)
		return
	}
	for i := 0; i < c.N; i++ {
		if counters[i] != want[i] {
			chk.Violation("C20/RecordPatternInReverse/giant-row/counters", fmt.Sprintf("row of 2^32+300 pixels, start 2^32%+d: counters=%v, model %v", c.Start-(1<<32), counters, want), c)
			return
		}
	}
	l.Distinct("nontrivial", fmt.Sprint("giantR", c.Start, want))
}

func runGiantRow() {
	chk.Range("RecordPattern/InReverse on ONE row of 2^32+300 pixels (512 MB): forward starts 2^32-5 .. 2^32+300, reverse starts 2^32+40 .. 2^32+299, counter counts 1..8", 1,
		func(i int) string { return "giant row" },
		func(l *mc.Local, i int) {
			r, b := giantRow()
			for s := 1<<32 - 5; s <= 1<<32+300; s++ {
				for n := 1; n <= 8; n++ {
					giantOne(l, r, b, giantCase{true, s, n, false})
					if s >= 1<<32+40 && s < 1<<32+300 {
						giantOne(l, r, b, giantCase{true, s, n, true})
					}
				}
			}
		})
}
