// C20 — 1-D run-length primitives: RecordPattern, RecordPatternInReverse, PatternMatchVariance.
// Bounded-exhaustive enumeration: every row up to a length bound x every start x every counter
// length against a run-length model; every (pattern, counter vector, limit) of a finite product
// against the score formula evaluated on integers.
package main

import (
	"fmt"
	"math"
	"math/big"
	"sort"

	"verif/mc"

	"github.com/makiuchi-d/gozxing"
	"github.com/makiuchi-d/gozxing/oned"
)

var chk *mc.Check

func main() {
	chk = mc.New("C20", "exploration")
	chk.Rule = "complete enumeration of (row bits, start, counter count) and of (pattern, counters, limit) products; non-trivial = distinct (run-length vector, outcome) for recording and distinct (pattern, finite score | inf) classes for matching"
	if chk.ReplayFile() != "" {
		replay()
		chk.Finish()
	}
	runRecord()
	runVariance()
	runBuffers()
	runLongerPatterns()
	chk.Finish()
}

// ------------------------------------------------------------------ RecordPattern

func rowFromBits(bits uint32, n int) (*gozxing.BitArray, []bool) {
	r := gozxing.NewBitArray(n)
	b := make([]bool, n)
	for i := 0; i < n; i++ {
		if bits&(1<<uint(i)) != 0 {
			r.Set(i)
			b[i] = true
		}
	}
	return r, b
}

// runsFrom returns the lengths of the same-colour runs of b starting at start.
func runsFrom(b []bool, start int) []int {
	var runs []int
	i := start
	for i < len(b) {
		j := i
		for j < len(b) && b[j] == b[i] {
			j++
		}
		runs = append(runs, j-i)
		i = j
	}
	return runs
}

type recCase struct {
	Row     string
	Start   int
	N       int
	Reverse bool
	Dirty   int `json:",omitempty"` // the row was loaded with SetBulk from a wider scan line: 1 = every padding bit of the last word set, 2 = alternating padding bits
}

// dirtyRow builds the row b with BitArray.SetBulk from 32-bit words whose bits beyond the row
// width are not zero (a caller loading 32-pixel chunks of a wider packed scan line). Get, GetSize,
// GetNextSet and GetNextUnset treat such a row as exactly len(b) pixels.
func dirtyRow(b []bool, kind int) *gozxing.BitArray {
	r := gozxing.NewBitArray(len(b))
	for w := 0; w*32 < len(b); w++ {
		var v uint32
		for k := 0; k < 32; k++ {
			i := w*32 + k
			switch {
			case i < len(b):
				if b[i] {
					v |= 1 << uint(k)
				}
			case kind == 1:
				v |= 1 << uint(k)
			case kind == 2 && (i-len(b))%2 == 1:
				v |= 1 << uint(k)
			}
		}
		r.SetBulk(w*32, v)
	}
	return r
}

func bitsString(b []bool) string {
	s := make([]byte, len(b))
	for i, v := range b {
		s[i] = '.'
		if v {
			s[i] = 'X'
		}
	}
	return string(s)
}

func checkRecord(l *mc.Local, r *gozxing.BitArray, b []bool, start, n int, dirty ...int) {
	counters := make([]int, n)
	for i := range counters {
		counters[i] = 99 // must be overwritten
	}
	var err error
	pm, site := mc.Guard(func() { err = oned.RecordPattern(r, start, counters) })
	l.Count("evaluations", 1)
	cs := recCase{Row: bitsString(b), Start: start, N: n}
	if len(dirty) > 0 {
		cs.Dirty = dirty[0]
	}
	if pm != "" {
		chk.Violation("C20/RecordPattern/panic/"+site, fmt.Sprintf("panic %s on %+v", pm, cs), cs)
		return
	}
	runs := runsFrom(b, start)
	wantOK := start < len(b) && len(runs) >= n
	if wantOK != (err == nil) {
		chk.Violation(fmt.Sprintf("C20/RecordPattern/outcome/wantOK=%v", wantOK), fmt.Sprintf("err=%v, model ok=%v (runs %v) on %+v", err, wantOK, runs, cs), cs)
		return
	}
	if wantOK {
		for i := 0; i < n; i++ {
			if counters[i] != runs[i] {
				chk.Violation("C20/RecordPattern/counters", fmt.Sprintf("counters=%v, model %v on %+v", counters, runs[:n], cs), cs)
				return
			}
		}
		l.Distinct("nontrivial", fmt.Sprint("F", runs[:n]))
	} else {
		// the property only says "reports that the row ended first": any error value is accepted
		l.Distinct("nontrivial", fmt.Sprint("Fend", runs, n))
	}
}

func checkRecordReverse(l *mc.Local, r *gozxing.BitArray, b []bool, start, n int, dirty ...int) {
	counters := make([]int, n)
	for i := range counters {
		counters[i] = 99
	}
	var err error
	pm, site := mc.Guard(func() { err = oned.RecordPatternInReverse(r, start, counters) })
	l.Count("evaluations", 1)
	cs := recCase{Row: bitsString(b), Start: start, N: n, Reverse: true}
	if len(dirty) > 0 {
		cs.Dirty = dirty[0]
	}
	if pm != "" {
		chk.Violation("C20/RecordPatternInReverse/panic/"+site, fmt.Sprintf("panic %s on %+v", pm, cs), cs)
		return
	}
	// model: run decomposition of the whole row; k = index of the run containing start; the n
	// complete runs before it are returned, provided a further run precedes them.
	all := runsFrom(b, 0)
	pos, k := 0, 0
	for i, ln := range all {
		if start < pos+ln {
			k = i
			break
		}
		pos += ln
	}
	wantOK := k >= n+1
	if wantOK != (err == nil) {
		chk.Violation(fmt.Sprintf("C20/RecordPatternInReverse/outcome/wantOK=%v", wantOK), fmt.Sprintf("err=%v, model ok=%v on %+v", err, wantOK, cs), cs)
		return
	}
	if wantOK {
		want := all[k-n : k]
		for i := 0; i < n; i++ {
			if counters[i] != want[i] {
				chk.Violation("C20/RecordPatternInReverse/counters", fmt.Sprintf("counters=%v, model %v on %+v", counters, want, cs), cs)
				return
			}
		}
		l.Distinct("nontrivial", fmt.Sprint("R", want))
	}
}

func runRecord() {
	maxLen := chk.Pick(12, 17)
	// every row of every length 0..maxLen: shard on (length, low bits)
	type job struct {
		n      int
		lo, hi uint32
	}
	var jobs []job
	for n := 0; n <= maxLen; n++ {
		total := uint32(1) << uint(n)
		step := uint32(1024)
		for lo := uint32(0); lo < total; lo += step {
			hi := lo + step
			if hi > total {
				hi = total
			}
			jobs = append(jobs, job{n, lo, hi})
		}
	}
	chk.Range(fmt.Sprintf("RecordPattern/InReverse: all rows of length 0..%d x all starts (0..len) x counter counts 1..10; starts beyond the row (len+1, len+31..33, k*2^b + r for b in {8,16,31,32,33,62}, MaxInt) x counter counts 1..3; every row also loaded with SetBulk from words whose bits beyond the row width are set (all / alternating) x counter counts 1..4", maxLen), len(jobs),
		func(i int) string { return fmt.Sprint(jobs[i]) },
		func(l *mc.Local, i int) {
			j := jobs[i]
			for bits := j.lo; bits < j.hi; bits++ {
				r, b := rowFromBits(bits, j.n)
				d1, d2 := dirtyRow(b, 1), dirtyRow(b, 2)
				for n := 1; n <= 10; n++ {
					for start := 0; start <= j.n; start++ {
						checkRecord(l, r, b, start, n)
						if start < j.n {
							checkRecordReverse(l, r, b, start, n)
						}
						if start == j.n && n <= 3 {
							// starts beyond the row, including ones that look like a start inside it once cut
							// to 8, 16, 31, 32 or 33 bits: the row has ended
							for _, far := range farStarts(j.n) {
								checkRecord(l, r, b, far, n)
								l.Count("far_start_calls", 1)
							}
						}
						if j.n%32 != 0 && n <= 4 {
							checkRecord(l, d1, b, start, n, 1)
							checkRecord(l, d2, b, start, n, 2)
							if start < j.n {
								checkRecordReverse(l, d1, b, start, n, 1)
							}
						}
					}
				}
			}
		})
	chk.Sample("record", recCase{Row: "..XX.XXX.", Start: 2, N: 3})
	// long rows generated from run lengths: all sequences of <= K runs from {1,2,5,40}
	K := chk.Pick(6, 8)
	menu := []int{1, 2, 5, 40}
	var seqs [][]int
	var gen func(cur []int)
	gen = func(cur []int) {
		if len(cur) > 0 {
			seqs = append(seqs, append([]int{}, cur...))
		}
		if len(cur) == K {
			return
		}
		for _, m := range menu {
			gen(append(cur, m))
		}
	}
	gen(nil)
	runLengthRows(fmt.Sprintf("RecordPattern/InReverse on run-length generated rows: all sequences of <=%d runs from {1,2,5,40} (rows up to %d px), both polarities, starts at every run boundary +-1", K, 40*K), seqs)
	// runs whose ends fall on the 32-bit word boundaries of the row's storage (and one bit beside them)
	K2 := chk.Pick(5, 6)
	menu = []int{1, 31, 32, 33, 64}
	seqs = nil
	K = K2
	gen(nil)
	runLengthRows(fmt.Sprintf("RecordPattern/InReverse on rows whose runs end on storage word boundaries: all sequences of <=%d runs from {1,31,32,33,64} (rows up to %d px), both polarities, starts at every run boundary +-1", K2, 64*K2), seqs)
	runWideRows()
	runGiantRow()
}

// runWideRows: rows of 2040 .. 65536+ pixels: one long run in front of (or behind) every sequence of
// up to four short runs, so that the recording starts, ends, or runs out of row beyond the widths
// where an implementation would switch to a word-wise scan.
func runWideRows() {
	var tails [][]int
	var gen func(cur []int, max int)
	gen = func(cur []int, max int) {
		tails = append(tails, append([]int{}, cur...))
		if len(cur) == max {
			return
		}
		for _, v := range []int{1, 3, 25} {
			gen(append(cur, v), max)
		}
	}
	gen(nil, 4)
	var seqs [][]int
	for _, L := range []int{2040, 2047, 2048, 2049, 4096, 65536} {
		for _, t := range tails {
			if L == 65536 && len(t) > 2 {
				continue
			}
			seqs = append(seqs, append([]int{L}, t...))
			if len(t) > 0 {
				seqs = append(seqs, append(append([]int{}, t...), L))
			}
		}
	}
	runLengthRows(fmt.Sprintf("RecordPattern/InReverse on WIDE rows: one run of {2040, 2047, 2048, 2049, 4096, 65536} pixels in front of / behind every sequence of <=4 runs from {1,3,25} (65536: <=2), both polarities, starts at every run boundary +-1, counter counts {1..7, 10} [%d rows]", len(seqs)), seqs)
}

func runLengthRows(name string, seqs [][]int) {
	chk.Range(name, len(seqs),
		func(i int) string { return fmt.Sprint(seqs[i]) },
		func(l *mc.Local, i int) {
			for pol := 0; pol < 2; pol++ {
				var b []bool
				col := pol == 1
				var bounds []int
				for _, ln := range seqs[i] {
					bounds = append(bounds, len(b))
					for k := 0; k < ln; k++ {
						b = append(b, col)
					}
					col = !col
				}
				r := gozxing.NewBitArray(len(b))
				for x, v := range b {
					if v {
						r.Set(x)
					}
				}
				starts := map[int]bool{}
				for _, p := range bounds {
					for _, d := range []int{-1, 0, 1} {
						if p+d >= 0 && p+d <= len(b) {
							starts[p+d] = true
						}
					}
				}
				starts[len(b)-1] = true
				starts[len(b)] = true
				var ss []int
				for s := range starts {
					ss = append(ss, s)
				}
				sort.Ints(ss)
				d1 := dirtyRow(b, 1)
				for _, s := range ss {
					for _, n := range []int{1, 2, 3, 4, 5, 6, 7, 10} {
						if len(b)%32 != 0 {
							checkRecord(l, d1, b, s, n, 1)
						}
						checkRecord(l, r, b, s, n)
						if s < len(b) {
							checkRecordReverse(l, r, b, s, n)
						}
					}
				}
			}
		})
}

// ------------------------------------------------------------------ PatternMatchVariance

type varCase struct {
	Counters, Pattern []int
	Limit             float64
	LimitNaN          bool `json:",omitempty"` // the allowance is NaN (not representable in JSON); Limit is 0 then
}

// model returns (score, isInf, borderline). Everything up to the final division is integer
// arithmetic: |c_x*P - p_x*T| compared with limit*T, where T = sum counters, P = sum pattern.
func model(c, p []int, limit float64) (float64, bool, bool) {
	T, P := 0, 0
	for i := range c {
		T += c[i]
		P += p[i]
	}
	if T < P {
		return 0, true, false
	}
	border := false
	sum := 0
	R := limit * float64(T)
	for i := range c {
		L := c[i]*P - p[i]*T
		if L < 0 {
			L = -L
		}
		d := float64(L) - R
		if math.IsInf(R, 1) {
			// no finite deviation exceeds an infinite allowance
		} else if math.Abs(d) <= 1e-9*math.Max(1, R) {
			border = true
		} else if d > 0 {
			return 0, true, false
		}
		sum += L
	}
	return float64(sum) / (float64(P) * float64(T)), false, border
}

// exactTie: every borderline run deviates by EXACTLY limit*unit as rationals, and the float
// computation unit=T/P, limit*unit, p*unit involves no rounding (all exactly representable).
func exactTie(c, p []int, limit float64) bool {
	T, P := 0, 0
	for i := range c {
		T += c[i]
		P += p[i]
	}
	unit := new(big.Rat).SetFrac64(int64(T), int64(P))
	uf := float64(T) / float64(P)
	if new(big.Rat).SetFloat64(uf).Cmp(unit) != 0 {
		return false
	}
	lim := new(big.Rat).SetFloat64(limit)
	limUnit := new(big.Rat).Mul(lim, unit)
	if f, exact := limUnit.Float64(); !exact || f != limit*uf {
		return false
	}
	for i := range c {
		pu := new(big.Rat).Mul(new(big.Rat).SetInt64(int64(p[i])), unit)
		if _, exact := pu.Float64(); !exact {
			return false
		}
		dev := new(big.Rat).Sub(new(big.Rat).SetInt64(int64(c[i])), pu)
		dev.Abs(dev)
		if dev.Cmp(limUnit) > 0 {
			return false // strictly beyond: not a tie (cannot happen in the border branch)
		}
	}
	return true
}

func checkVar(l *mc.Local, c, p []int, limit float64, table string) {
	var got float64
	pm, site := mc.Guard(func() { got = oned.PatternMatchVariance(c, p, limit) })
	l.Count("evaluations", 1)
	cs := varCase{append([]int{}, c...), append([]int{}, p...), limit, false}
	if pm != "" {
		chk.Violation("C20/PatternMatchVariance/panic/"+site, fmt.Sprintf("panic %s on %+v", pm, cs), cs)
		return
	}
	want, inf, border := model(c, p, limit)
	switch {
	case inf:
		if !math.IsInf(got, 1) {
			T, P := 0, 0
			for i := range c {
				T += c[i]
				P += p[i]
			}
			k := "C20/PatternMatchVariance/inf-expected/individual"
			if T < P {
				k = "C20/PatternMatchVariance/inf-expected/total<pattern"
			}
			chk.Violation(k, fmt.Sprintf("score=%v, model +Inf on %+v", got, cs), cs)
		}
		l.Distinct("nontrivial", fmt.Sprint(table, p, "inf"))
	case border:
		// a run deviating by exactly the limit is NOT "more than the allowed variance": the score is
		// finite. Float rounding may fall either way only when the arithmetic is inexact; when the
		// unit width total/patternLength and limit*unit are exactly representable the tie is exact in
		// floats as well and the finite value is required.
		if exactTie(c, p, limit) {
			if math.IsInf(got, 0) || math.IsNaN(got) || math.Abs(got-want) > 1e-9 {
				chk.Violation("C20/PatternMatchVariance/exact-tie", fmt.Sprintf("score=%v, model %v: a run deviating by exactly the allowed variance (exactly representable) is not more than it, on %+v", got, want, cs), cs)
			}
			l.Count("exact_ties", 1)
			l.Distinct("nontrivial", fmt.Sprint(table, p, "tie", math.Round(want*1e6)))
		} else {
			if !math.IsInf(got, 1) && math.Abs(got-want) > 1e-9 {
				chk.Violation("C20/PatternMatchVariance/value", fmt.Sprintf("score=%v, model %v (borderline) on %+v", got, want, cs), cs)
			}
			l.Count("borderline_inexact", 1)
		}
	default:
		if math.IsInf(got, 0) || math.IsNaN(got) || math.Abs(got-want) > 1e-9 {
			chk.Violation("C20/PatternMatchVariance/value", fmt.Sprintf("score=%v, model %v on %+v", got, want, cs), cs)
		}
		l.Distinct("nontrivial", fmt.Sprint(table, p, "fin", math.Round(want*1e6)))
	}
}

var limits = []float64{0.25, 0.45, 0.5, 0.7, 0.8, 1.5}

func runVariance() {
	type pat struct {
		table string
		p     []int
	}
	var pats []pat
	tabs := libraryTables()
	var names []string
	for k := range tabs {
		names = append(names, k)
	}
	sort.Strings(names)
	for _, k := range names {
		for _, p := range tabs[k] {
			pats = append(pats, pat{k, p})
		}
	}
	chk.Subspace("library pattern tables reached through the verif accessor", map[string]interface{}{"tables": names, "patterns": len(pats)})
	// synthetic patterns: every pattern of length 1..4 over {1,2,3,4} (independent of the tables)
	var gen func(cur []int, n int)
	gen = func(cur []int, n int) {
		if len(cur) == n {
			pats = append(pats, pat{"synthetic", append([]int{}, cur...)})
			return
		}
		for v := 1; v <= 4; v++ {
			gen(append(cur, v), n)
		}
	}
	for n := 1; n <= chk.Pick(3, 4); n++ {
		gen(nil, n)
	}
	maxEntry := chk.Pick(5, 6)
	chk.Range(fmt.Sprintf("PatternMatchVariance: %d patterns x all counter vectors with entries 0..%d (length<=6; longer: entries 0..3) x %d limits; exact multiples k=1..8; scale invariance k=2..5; two-position sweep 0..40", len(pats), maxEntry, len(limits)), len(pats),
		func(i int) string { return fmt.Sprint(pats[i]) },
		func(l *mc.Local, i int) {
			p := pats[i].p
			n := len(p)
			me := maxEntry
			if n > 6 {
				me = 3
			}
			c := make([]int, n)
			for {
				for _, lim := range limits {
					checkVar(l, c, p, lim, pats[i].table)
				}
				// scale invariance on the real function, for non-borderline vectors
				if _, inf, border := model(c, p, 0.7); !border {
					base := oned.PatternMatchVariance(c, p, 0.7)
					for k := 2; k <= 5; k++ {
						ck := make([]int, n)
						for x := range c {
							ck[x] = c[x] * k
						}
						if _, _, b2 := model(ck, p, 0.7); b2 {
							continue
						}
						g := oned.PatternMatchVariance(ck, p, 0.7)
						l.Count("evaluations", 1)
						same := (math.IsInf(base, 1) && math.IsInf(g, 1)) || math.Abs(base-g) <= 1e-9
						// below one pixel per module the unscaled vector is +Inf by rule while the scaled one may not be
						T, P := 0, 0
						for x := range c {
							T += c[x]
							P += p[x]
						}
						if T < P {
							continue
						}
						if !same && !inf {
							chk.Violation("C20/PatternMatchVariance/scale", fmt.Sprintf("score(c)=%v score(%d*c)=%v for c=%v p=%v", base, k, g, c, p), varCase{ck, p, 0.7, false})
						}
					}
				}
				// odometer
				x := 0
				for x < n {
					c[x]++
					if c[x] <= me {
						break
					}
					c[x] = 0
					x++
				}
				if x == n {
					break
				}
			}
			for k := 1; k <= 8; k++ {
				ck := make([]int, n)
				for x := range p {
					ck[x] = p[x] * k
				}
				for _, lim := range limits {
					g := oned.PatternMatchVariance(ck, p, lim)
					l.Count("evaluations", 1)
					if g != 0 {
						chk.Violation("C20/PatternMatchVariance/exact-multiple", fmt.Sprintf("score(%d*p)=%v for p=%v", k, g, p), varCase{ck, p, lim, false})
					}
				}
			}
			// very wide modules with ONE run a pixel or two on either side of the allowance: the decision
			// needs more than single precision (allowed deviation beyond 2^24 pixels)
			if n >= 2 {
				for _, lim := range limits {
					for _, k := range []int{1 << 24, 1 << 25, 30000000, 1 << 27, 100000007} {
						d0 := int(math.Floor(lim * float64(k)))
						for _, ab := range [][2]int{{0, n - 1}, {n / 2, 0}, {n - 1, 0}} {
							a, b := ab[0], ab[1]
							if a == b {
								continue
							}
							for dd := d0 - 2; dd <= d0+3; dd++ {
								ck := make([]int, n)
								for x := range p {
									ck[x] = p[x] * k
								}
								if dd < 0 || ck[b] < dd {
									continue
								}
								ck[a] += dd
								ck[b] -= dd
								checkVar(l, ck, p, lim, pats[i].table)
								l.Count("wide_module_near_limit_calls", 1)
							}
						}
					}
				}
			}
			// counters beyond 2^53 that are NOT exactly representable in float64 (k = 2^53 + odd): the
			// statement's clauses within float accuracy - an exact multiple scores (nearly) zero, never
			// +Inf, and scaling a vector by k leaves a non-borderline score unchanged. Bases: the pattern
			// itself, doubled, and with one run one module wider / narrower.
			if n <= 8 {
				var bases [][]int
				bases = append(bases, append([]int{}, p...))
				for x := range p {
					up := append([]int{}, p...)
					up[x]++
					bases = append(bases, up)
					if p[x] > 1 {
						dn := append([]int{}, p...)
						dn[x]--
						bases = append(bases, dn)
					}
				}
				for _, k := range []int{1<<53 + 1, 1<<53 + 3, 1<<54 + 5, 3<<52 + 7} {
					for bi, c := range bases {
						ck := make([]int, n)
						for x := range c {
							ck[x] = c[x] * k
						}
						for _, lim := range []float64{0.5, 0.7} {
							want, inf, border := model(c, p, lim)
							tc, tp := 0, 0
							for x := range c {
								tc += c[x]
								tp += p[x]
							}
							if border || tc < tp { // below one pixel per module the unscaled vector is +Inf by rule
								continue
							}
							g := oned.PatternMatchVariance(ck, p, lim)
							l.Count("evaluations", 1)
							l.Count("beyond_2^53_calls", 1)
							switch {
							case bi == 0 && (math.IsInf(g, 0) || math.IsNaN(g) || math.Abs(g) > 1e-9):
								chk.Violation("C20/PatternMatchVariance/exact-multiple/beyond-2^53", fmt.Sprintf("score(%d*p)=%v for p=%v (limit %v)", k, g, p, lim), varCase{ck, p, lim, false})
							case inf != math.IsInf(g, 1) || (!inf && math.Abs(g-want) > 1e-9):
								chk.Violation("C20/PatternMatchVariance/scale/beyond-2^53", fmt.Sprintf("score(c)=%v (infinite=%v) but score(%d*c)=%v for c=%v p=%v (limit %v)", want, inf, k, g, c, p, lim), varCase{ck, p, lim, false})
							}
						}
					}
				}
			}
			// an allowance that is not a number: no deviation is "more than" NaN, and the zero score of
			// an exact multiple is stated without condition - only that clause is demanded here
			for k := 1; k <= 8; k++ {
				ck := make([]int, n)
				for x := range p {
					ck[x] = p[x] * k
				}
				g := oned.PatternMatchVariance(ck, p, math.NaN())
				l.Count("evaluations", 1)
				l.Count("nan_allowance_calls", 1)
				if g != 0 {
					chk.Violation("C20/PatternMatchVariance/exact-multiple/nan-allowance", fmt.Sprintf("score(%d*p)=%v for p=%v with a NaN allowance", k, g, p), varCase{ck, p, 0, true})
				}
			}
			// extreme limits and magnitudes: "no per-run limit" (+Inf, MaxFloat64, 1e19, 1e15), a zero
			// limit, and counters scaled by 10^4 and 10^6; the model compares integers with limit*total
			for _, lim := range []float64{0, 1e-300, 1e15, 1e19, math.MaxFloat64, math.Inf(1)} {
				for _, k := range []int{1, 7, 10000, 1000000} {
					for v := 0; v < 3; v++ {
						ck := make([]int, n)
						for x := range p {
							ck[x] = p[x] * k
						}
						switch v {
						case 1:
							ck[0] += k
							ck[n-1] += k / 2
						case 2:
							ck[n/2] = 0
						}
						checkVar(l, ck, p, lim, pats[i].table)
					}
				}
			}
			// two positions at a time over 0..40, others at 2x the pattern
			for a := 0; a < n; a++ {
				for b := a + 1; b < n; b++ {
					for va := 0; va <= 40; va++ {
						for vb := 0; vb <= 40; vb++ {
							ck := make([]int, n)
							for x := range p {
								ck[x] = 2 * p[x]
							}
							ck[a], ck[b] = va, vb
							checkVar(l, ck, p, 0.7, pats[i].table)
							checkVar(l, ck, p, 0.5, pats[i].table)
						}
					}
				}
			}
		})
	chk.Sample("variance", varCase{[]int{1, 1, 1}, []int{2, 2, 2}, 0.7, false})
	chk.Sample("variance", varCase{[]int{6, 4, 2, 2}, []int{3, 2, 1, 1}, 0.7, false})
}

func replay() {
	var raw map[string]interface{}
	mc.LoadReplay(chk.ReplayFile(), &raw)
	l := chk.NewLocal()
	defer l.Merge()
	if k, _ := raw["Kind"].(string); k == "pattern-buffer" {
		var h histCase
		mc.LoadReplay(chk.ReplayFile(), &h)
		patternHistory(l, h.N, h.Step, &h)
		return
	}
	if _, ok := raw["Pattern"]; ok {
		var c varCase
		mc.LoadReplay(chk.ReplayFile(), &c)
		if c.LimitNaN {
			got := oned.PatternMatchVariance(c.Counters, c.Pattern, math.NaN())
			fmt.Printf("replay %+v: library=%v with a NaN allowance\n", c, got)
			if got != 0 {
				chk.Violation("C20/PatternMatchVariance/exact-multiple/nan-allowance", fmt.Sprintf("score=%v for c=%v p=%v with a NaN allowance", got, c.Counters, c.Pattern), c)
			}
			return
		}
		got := oned.PatternMatchVariance(c.Counters, c.Pattern, c.Limit)
		w, inf, b := model(c.Counters, c.Pattern, c.Limit)
		fmt.Printf("replay %+v: library=%v model=%v inf=%v borderline=%v\n", c, got, w, inf, b)
		checkVar(l, c.Counters, c.Pattern, c.Limit, "replay")
		return
	}
	var g giantCase
	if mc.LoadReplay(chk.ReplayFile(), &g) == nil && g.Giant {
		fmt.Printf("replay %+v\n", g)
		r, b := giantRow()
		giantOne(l, r, b, g)
		return
	}
	var c recCase
	mc.LoadReplay(chk.ReplayFile(), &c)
	b := make([]bool, len(c.Row))
	r := gozxing.NewBitArray(len(c.Row))
	for i := range c.Row {
		if c.Row[i] == 'X' {
			b[i] = true
			r.Set(i)
		}
	}
	fmt.Printf("replay %+v\n", c)
	if c.Dirty != 0 {
		r = dirtyRow(b, c.Dirty)
	}
	if c.Reverse {
		checkRecordReverse(l, r, b, c.Start, c.N, c.Dirty)
	} else {
		checkRecord(l, r, b, c.Start, c.N, c.Dirty)
	}
}

// farStarts lists start positions beyond a row of n pixels.
func farStarts(n int) []int {
	const maxInt = int(^uint(0) >> 1)
	out := []int{n + 1, n + 31, n + 32, n + 33, n + 64, maxInt, maxInt - 31}
	for _, b := range []uint{8, 16, 31, 32, 33, 62} {
		for _, r := range []int{0, 1, n / 2, n - 1, n} {
			if r < 0 {
				continue
			}
			if y := 1<<b + r; y > n {
				out = append(out, y)
			}
		}
	}
	return out
}
