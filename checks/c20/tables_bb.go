//go:build !verif || blackbox

package main

func libraryTables() map[string][][]int { return nil }
