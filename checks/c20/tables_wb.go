//go:build verif && !blackbox

package main

import (
	"github.com/makiuchi-d/gozxing/oned"
	"github.com/makiuchi-d/gozxing/oned/rss"
)

func libraryTables() map[string][][]int {
	t := oned.VerifPatternTables()
	t["rss14_FINDER"] = rss.VerifFinderPatterns()
	return t
}
