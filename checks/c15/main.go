// C15 — character sets and ECI: text survives in every supported encoding.
//
// Sub-spaces (all enumerated completely, no sampling):
//
//	(1) registry: every expected name/alias/value of the literal registration table, and every name
//	    and value the library really holds (white-box hook), through the three lookups; every ECI
//	    number through GetCharacterSetECIByValue and as a designator (1-, 2- and 3-byte form) in front
//	    of a byte segment of a QR bit stream; ECI persistence over a second byte segment and ECI switch.
//	(2) write with CHARACTER_SET hint -> read: every code point of every registered character set
//	    (single bytes: alone, doubled, tripled, embedded in ASCII; double-byte sets: lead x trail),
//	    ECI header read back with the reference reader; unrepresentable text must be refused.
//	(3) Kanji mode: every Shift_JIS code point of the two Kanji ranges alone and next to range-boundary
//	    neighbours.
//	(4) no hint: all strings up to length 3/4 over twelve characters whose UTF-8 bytes feed every
//	    counter of the charset guesser.
//	(5) decode-side CHARACTER_SET hint on reference-built symbols with undesignated bytes.
//	(6) the documented 10 % rule of the legacy Latin-1 / Shift_JIS guess (pinned behaviour, see Assume).
//
// Oracles: golang.org/x/text codecs used directly (trusted third-party library), verif/ref/qr to
// build symbols with arbitrary ECI designators and to read the ECI header back.
package main

import (
	"bytes"
	"encoding/hex"
	"fmt"
	"sort"
	"strings"
	"unicode/utf8"

	"verif/mc"
	"verif/ref/qr"

	"golang.org/x/text/encoding"
	"golang.org/x/text/encoding/charmap"
	"golang.org/x/text/encoding/ianaindex"
	"golang.org/x/text/encoding/japanese"
	"golang.org/x/text/encoding/korean"
	"golang.org/x/text/encoding/simplifiedchinese"
	"golang.org/x/text/encoding/traditionalchinese"
	"golang.org/x/text/encoding/unicode"

	"github.com/makiuchi-d/gozxing"
	"github.com/makiuchi-d/gozxing/common"
	"github.com/makiuchi-d/gozxing/qrcode"
	qrdec "github.com/makiuchi-d/gozxing/qrcode/decoder"
	qrenc "github.com/makiuchi-d/gozxing/qrcode/encoder"
)

var chk *mc.Check

// ------------------------------------------------------------------ expected registrations

// csDef is one line of the literal table of registrations: the character sets of ZXing's
// CharacterSetECI that golang.org/x/text supports, with the names character_set_eci.go declares
// (canonical name first) plus the IANA name that newCharsetECI registers in addition.
type csDef struct {
	values []int
	enc    encoding.Encoding
	names  []string
	multi  string // "" = single-byte set; otherwise the family of the multi-byte set
}

func (d *csDef) key() string { return d.names[0] }

var asciiEnc, _ = ianaindex.IANA.Encoding("US-ASCII")

var expectedSets = []*csDef{
	{[]int{0, 2}, charmap.CodePage437, []string{"Cp437", "IBM437"}, ""},
	{[]int{1, 3}, charmap.ISO8859_1, []string{"ISO-8859-1", "ISO8859_1", "ISO_8859-1:1987"}, ""},
	{[]int{4}, charmap.ISO8859_2, []string{"ISO-8859-2", "ISO8859_2", "ISO_8859-2:1987"}, ""},
	{[]int{5}, charmap.ISO8859_3, []string{"ISO-8859-3", "ISO8859_3", "ISO_8859-3:1988"}, ""},
	{[]int{6}, charmap.ISO8859_4, []string{"ISO-8859-4", "ISO8859_4", "ISO_8859-4:1988"}, ""},
	{[]int{7}, charmap.ISO8859_5, []string{"ISO-8859-5", "ISO8859_5", "ISO_8859-5:1988"}, ""},
	{[]int{9}, charmap.ISO8859_7, []string{"ISO-8859-7", "ISO8859_7", "ISO_8859-7:1987"}, ""},
	{[]int{11}, charmap.ISO8859_9, []string{"ISO-8859-9", "ISO8859_9", "ISO_8859-9:1989"}, ""},
	{[]int{15}, charmap.ISO8859_13, []string{"ISO-8859-13", "ISO8859_13"}, ""},
	{[]int{17}, charmap.ISO8859_15, []string{"ISO-8859-15", "ISO8859_15"}, ""},
	{[]int{18}, charmap.ISO8859_16, []string{"ISO-8859-16", "ISO8859_16"}, ""},
	{[]int{20}, japanese.ShiftJIS, []string{"Shift_JIS", "SJIS"}, "sjis"},
	{[]int{21}, charmap.Windows1250, []string{"windows-1250", "Cp1250"}, ""},
	{[]int{22}, charmap.Windows1251, []string{"windows-1251", "Cp1251"}, ""},
	{[]int{23}, charmap.Windows1252, []string{"windows-1252", "Cp1252"}, ""},
	{[]int{24}, charmap.Windows1256, []string{"windows-1256", "Cp1256"}, ""},
	{[]int{25}, unicode.UTF16(unicode.BigEndian, unicode.IgnoreBOM), []string{"UTF-16BE", "UnicodeBig", "UnicodeBigUnmarked"}, "utf16be"},
	{[]int{26}, unicode.UTF8, []string{"UTF-8", "UTF8"}, "utf8"},
	{[]int{27, 170}, asciiEnc, []string{"ASCII", "US-ASCII"}, ""},
	{[]int{28}, traditionalchinese.Big5, []string{"Big5"}, "big5"},
	{[]int{29}, simplifiedchinese.GB18030, []string{"GB18030", "GB2312", "EUC_CN", "GBK"}, "gb18030"},
	{[]int{30}, korean.EUCKR, []string{"EUC-KR", "EUC_KR"}, "euckr"},
}

var defByValue = map[int]*csDef{}
var defByName = map[string]*csDef{}

func decodeWith(enc encoding.Encoding, b []byte) string {
	out, _ := enc.NewDecoder().Bytes(b)
	return string(out)
}

func encodeWith(enc encoding.Encoding, s string) ([]byte, error) {
	return enc.NewEncoder().Bytes([]byte(s))
}

// oneRune reports the single rune b decodes to under enc if it decodes to exactly one rune that is
// not U+FFFD and that encodes back to exactly b (the code point "round-trips" in x/text's tables).
func oneRune(enc encoding.Encoding, b []byte) (rune, bool) {
	s := decodeWith(enc, b)
	r, n := utf8.DecodeRuneInString(s)
	if n == 0 || n != len(s) || r == utf8.RuneError {
		return 0, false
	}
	back, err := encodeWith(enc, s)
	if err != nil || !bytes.Equal(back, b) {
		return 0, false
	}
	return r, true
}

// singles: the single-byte code points of the set (for multi-byte sets: their single-byte part).
func singles(d *csDef) []rune {
	var out []rune
	if d.multi == "utf16be" {
		return nil
	}
	for c := 0; c < 256; c++ {
		if r, ok := oneRune(d.enc, []byte{byte(c)}); ok {
			out = append(out, r)
		}
	}
	return out
}

var trailMenu = []int{0x30, 0x39, 0x40, 0x41, 0x5A, 0x5B, 0x60, 0x61, 0x7A, 0x7B, 0x7E, 0x7F, 0x80, 0x81, 0x9E, 0x9F, 0xA0, 0xA1, 0xA2, 0xFB, 0xFC, 0xFD, 0xFE, 0xFF}

// doubles: the double-byte code points lead x trail that round-trip in x/text's tables; all trail
// bytes when full, the range-boundary menu otherwise.
func doubles(d *csDef, full bool) []rune {
	var out []rune
	seen := map[rune]bool{}
	add := func(r rune) {
		if !seen[r] {
			seen[r] = true
			out = append(out, r)
		}
	}
	switch d.multi {
	case "":
		return nil
	case "utf8":
		// every lead byte with its smallest, a middle and its largest continuation
		for lead := 0xC2; lead <= 0xDF; lead++ {
			for _, t := range []int{0x00, 0x15, 0x3F} {
				add(rune((lead&0x1F)<<6 | t))
			}
		}
		for lead := 0xE0; lead <= 0xEF; lead++ {
			lo, hi := rune((lead&0x0F)<<12), rune((lead&0x0F)<<12|0xFFF)
			if lead == 0xE0 {
				lo = 0x800
			}
			if lead == 0xED {
				hi = 0xD7FF
			}
			for _, r := range []rune{lo, lo + 1, (lo + hi) / 2, hi - 1, hi} {
				if r != utf8.RuneError {
					add(r)
				}
			}
		}
		for lead := 0xF0; lead <= 0xF4; lead++ {
			lo, hi := rune((lead&0x07)<<18), rune((lead&0x07)<<18|0x3FFFF)
			if lead == 0xF0 {
				lo = 0x10000
			}
			if lead == 0xF4 {
				hi = 0x10FFFF
			}
			for _, r := range []rune{lo, lo + 1, (lo + hi) / 2, hi - 1, hi} {
				add(r)
			}
		}
		return out
	case "utf16be":
		for lead := 0; lead < 256; lead++ {
			for t := 0; t < 256; t++ {
				if !full && !inMenu(t) && t != 0 && t != 1 {
					continue
				}
				if r, ok := oneRune(d.enc, []byte{byte(lead), byte(t)}); ok {
					add(r)
				}
			}
		}
		for _, r := range []rune{0x10000, 0x10001, 0x1F600, 0x2FFFF, 0x10FFFE, 0x10FFFF} { // surrogate pairs
			add(r)
		}
		return out
	}
	for lead := 0x80; lead <= 0xFF; lead++ {
		for t := 0; t < 256; t++ {
			if !full && !inMenu(t) {
				continue
			}
			if r, ok := oneRune(d.enc, []byte{byte(lead), byte(t)}); ok {
				add(r)
			}
		}
	}
	if d.multi == "gb18030" { // four-byte forms
		for _, r := range []rune{0x80, 0xFF, 0x100, 0x2000, 0xFFFC, 0x10000, 0x1F600, 0x10FFFF} {
			if b, err := encodeWith(d.enc, string(r)); err == nil && len(b) == 4 {
				add(r)
			}
		}
	}
	return out
}

func inMenu(t int) bool {
	for _, m := range trailMenu {
		if m == t {
			return true
		}
	}
	return false
}

// ------------------------------------------------------------------ library access

func hx(s string) string { return hex.EncodeToString([]byte(s)) }

func toBools(bm *qrenc.ByteMatrix) [][]bool {
	out := make([][]bool, bm.GetHeight())
	for y := range out {
		out[y] = make([]bool, bm.GetWidth())
		for x := range out[y] {
			out[y][x] = bm.Get(x, y) == 1
		}
	}
	return out
}

func toBitMatrix(m [][]bool) *gozxing.BitMatrix {
	out, _ := gozxing.NewBitMatrix(len(m[0]), len(m))
	for y := range m {
		for x := range m[y] {
			if m[y][x] {
				out.Set(x, y)
			}
		}
	}
	return out
}

type decoded struct {
	text     string
	err      error
	pm, site string
}

func libDecode(m [][]bool, hints map[gozxing.DecodeHintType]interface{}) (r decoded) {
	bits := toBitMatrix(m)
	r.pm, r.site = mc.Guard(func() {
		res, e := qrdec.NewDecoder().Decode(bits, hints)
		if e != nil {
			r.err = e
			return
		}
		r.text = res.GetText()
	})
	return
}

func encHints(name string) map[gozxing.EncodeHintType]interface{} {
	h := map[gozxing.EncodeHintType]interface{}{gozxing.EncodeHintType_QR_MASK_PATTERN: 0}
	if name != "" {
		h[gozxing.EncodeHintType_CHARACTER_SET] = name
	}
	return h
}

func isFormat(e error) bool { _, ok := e.(gozxing.FormatException); return ok }

// ------------------------------------------------------------------ (1) registry

type regCase struct {
	Sub   string
	Name  string `json:",omitempty"`
	Value int
}

func runRegistry() {
	l := chk.NewLocal()
	defer l.Merge()
	viol := func(name, what string) {
		chk.Violation("C15/registry/"+name, what, regCase{Sub: "registry", Name: name})
	}
	for _, d := range expectedSets {
		var entry *common.CharacterSetECI
		for _, n := range d.names {
			l.Count("evaluations", 1)
			l.Distinct("nontrivial", "name/"+n)
			e, ok := common.GetCharacterSetECIByName(n)
			if !ok || e == nil {
				viol(n, fmt.Sprintf("name %q of character set %s is not registered (GetCharacterSetECIByName gives nothing)", n, d.key()))
				continue
			}
			if entry == nil {
				entry = e
			} else if e != entry {
				viol(n, fmt.Sprintf("alias %q resolves to a different entry (%s) than %q (%s)", n, e.Name(), d.names[0], entry.Name()))
			}
			if e.Name() != d.names[0] {
				viol(n, fmt.Sprintf("entry reached by %q has canonical name %q, expected %q", n, e.Name(), d.names[0]))
			}
			if back, ok := common.GetCharacterSetECIByName(e.Name()); !ok || back != e {
				viol(n, fmt.Sprintf("%q -> entry -> Name() %q -> does not resolve back to the same entry", n, e.Name()))
			}
			if e.GetValue() != d.values[0] {
				viol(n, fmt.Sprintf("entry reached by %q has value %d, expected %d", n, e.GetValue(), d.values[0]))
			}
			if back, err := common.GetCharacterSetECIByValue(e.GetValue()); err != nil || back != e {
				viol(n, fmt.Sprintf("%q -> entry -> GetValue() %d -> GetCharacterSetECIByValue gives another entry (err %v)", n, e.GetValue(), err))
			}
			if back, ok := common.GetCharacterSetECI(e.GetCharset()); !ok || back != e {
				viol(n, fmt.Sprintf("%q -> entry -> GetCharset() -> GetCharacterSetECI does not give the same entry back", n))
			}
			if back, ok := common.GetCharacterSetECI(d.enc); !ok || back != e {
				viol(n, fmt.Sprintf("GetCharacterSetECI(x/text codec of %s) does not give the entry that %q names", d.key(), n))
			}
			if diff := codecDiff(e.GetCharset(), d.enc); diff != "" {
				viol(n, fmt.Sprintf("the charset of the entry reached by %q does not behave as x/text's %s: %s", n, d.key(), diff))
			}
			l.Distinct("outcomes", fmt.Sprint("reg/", e.GetValue()))
		}
		for _, v := range d.values {
			l.Count("evaluations", 1)
			e, err := common.GetCharacterSetECIByValue(v)
			if err != nil || e == nil {
				chk.Violation(fmt.Sprintf("C15/registry/value-%d", v), fmt.Sprintf("ECI value %d (%s) is not registered: entry nil=%v err=%v", v, d.key(), e == nil, err), regCase{Sub: "registry", Value: v})
			} else if entry != nil && e != entry {
				chk.Violation(fmt.Sprintf("C15/registry/value-%d", v), fmt.Sprintf("ECI value %d resolves to %s, the names of %s resolve to another entry", v, e.Name(), d.key()), regCase{Sub: "registry", Value: v})
			}
		}
	}
	// what the library really holds (white-box): every key resolves, and resolves back
	names, values, ok := actualRegistry()
	if !ok {
		chk.Note("built without the white-box hook: only the literal table of expected registrations was checked")
	}
	extra := 0
	for _, n := range names {
		l.Count("evaluations", 1)
		e, ok := common.GetCharacterSetECIByName(n)
		if !ok || e == nil {
			viol(n, fmt.Sprintf("registry key %q maps to no entry", n))
			continue
		}
		if defByName[n] == nil {
			extra++
			chk.Note(fmt.Sprintf("registry holds name %q (-> %s) that is not in the expected table", n, e.Name()))
		}
		if back, ok := common.GetCharacterSetECIByName(e.Name()); !ok || back != e {
			viol(n, fmt.Sprintf("registry key %q -> entry %q -> Name() does not resolve back to it", n, e.Name()))
		}
		if back, err := common.GetCharacterSetECIByValue(e.GetValue()); err != nil || back != e {
			viol(n, fmt.Sprintf("registry key %q -> entry -> GetValue() %d resolves to another entry", n, e.GetValue()))
		}
		if back, ok := common.GetCharacterSetECI(e.GetCharset()); !ok || back != e {
			viol(n, fmt.Sprintf("registry key %q -> entry -> GetCharset() resolves to another entry", n))
		}
		if dv, dn, ok := declared(e); ok {
			for _, v := range dv {
				if back, err := common.GetCharacterSetECIByValue(v); err != nil || back != e {
					viol(n, fmt.Sprintf("entry %q declares value %d which resolves elsewhere", e.Name(), v))
				}
			}
			for _, nn := range dn {
				if back, ok := common.GetCharacterSetECIByName(nn); !ok || back != e {
					viol(n, fmt.Sprintf("entry %q declares name %q which resolves elsewhere", e.Name(), nn))
				}
			}
		}
	}
	for _, v := range values {
		l.Count("evaluations", 1)
		e, err := common.GetCharacterSetECIByValue(v)
		if err != nil || e == nil {
			chk.Violation(fmt.Sprintf("C15/registry/value-%d", v), fmt.Sprintf("registry key %d is not reachable through GetCharacterSetECIByValue (err %v)", v, err), regCase{Sub: "registry", Value: v})
			continue
		}
		if defByValue[v] == nil {
			chk.Note(fmt.Sprintf("registry holds value %d (-> %s) that is not in the expected table", v, e.Name()))
		}
		if dv, _, ok := declared(e); ok {
			found := false
			for _, x := range dv {
				found = found || x == v
			}
			if !found {
				chk.Violation(fmt.Sprintf("C15/registry/value-%d", v), fmt.Sprintf("value %d resolves to %s which does not declare it", v, e.Name()), regCase{Sub: "registry", Value: v})
			}
		}
	}
	total := 0
	for _, d := range expectedSets {
		total += len(d.names)
	}
	chk.Subspace("(1a) registry: expected names/aliases/values through ByName, ByValue, GetCharacterSetECI(charset), all mutually inverse; charset behaviour == x/text codec; every key the library holds resolves back",
		map[string]interface{}{"expected_sets": len(expectedSets), "expected_names": total, "actual_names": len(names), "actual_values": len(values), "names_outside_expected_table": extra, "complete": true})
	chk.Sample("registry", regCase{Sub: "registry", Name: "UnicodeBigUnmarked", Value: 25})
}

// codecDiff compares two codecs on every single byte and on lead x menu-trail pairs.
func codecDiff(a, b encoding.Encoding) string {
	for c := 0; c < 256; c++ {
		if x, y := decodeWith(a, []byte{byte(c)}), decodeWith(b, []byte{byte(c)}); x != y {
			return fmt.Sprintf("byte %02X decodes to %q vs %q", c, x, y)
		}
	}
	for c := 0x80; c < 256; c++ {
		for _, t := range trailMenu {
			p := []byte{byte(c), byte(t)}
			if x, y := decodeWith(a, p), decodeWith(b, p); x != y {
				return fmt.Sprintf("bytes %X decode to %q vs %q", p, x, y)
			}
		}
	}
	for _, s := range []string{"A", "é", "Ж", "α", "あ", "漢", "한", "€", "ｱ", "\U0001F600"} {
		x, ex := encodeWith(a, s)
		y, ey := encodeWith(b, s)
		if (ex == nil) != (ey == nil) || (ex == nil && !bytes.Equal(x, y)) {
			return fmt.Sprintf("%q encodes to %X (%v) vs %X (%v)", s, x, ex, y, ey)
		}
	}
	return ""
}

// (1b) every ECI number through GetCharacterSetECIByValue.
func runECIValues() {
	const lo, hi = -1000, 1001000
	const chunk = 4096
	n := (hi - lo + chunk) / chunk
	chk.Range("(1b) GetCharacterSetECIByValue for every value -1000..1001000: registered -> its entry; unregistered 0..899 -> nothing, no error; <0 or >=900 -> FormatException", n,
		func(i int) string { return fmt.Sprint("value chunk ", lo+i*chunk) },
		func(l *mc.Local, i int) {
			for v := lo + i*chunk; v < lo+(i+1)*chunk && v <= hi; v++ {
				var e *common.CharacterSetECI
				var err error
				pm, site := mc.Guard(func() { e, err = common.GetCharacterSetECIByValue(v) })
				l.Count("evaluations", 1)
				rc := regCase{Sub: "eci-value", Value: v}
				if pm != "" {
					chk.Violation("C15/panic/"+site, fmt.Sprintf("GetCharacterSetECIByValue(%d) panics: %s", v, pm), rc)
					continue
				}
				d := defByValue[v]
				switch {
				case v < 0 || v >= 900:
					l.Distinct("outcomes", "value/out-of-range")
					if err == nil || e != nil || !isFormat(err) {
						chk.Violation("C15/eci-value/out-of-range", fmt.Sprintf("GetCharacterSetECIByValue(%d): entry nil=%v err=%v, a FormatException is expected", v, e == nil, err), rc)
					}
				case d != nil:
					l.Distinct("nontrivial", fmt.Sprint("value/", v))
					l.Distinct("outcomes", "value/registered")
					if err != nil || e == nil || e.Name() != d.key() {
						chk.Violation("C15/eci-value/registered", fmt.Sprintf("GetCharacterSetECIByValue(%d): entry %v err=%v, expected %s", v, e, err, d.key()), rc)
					}
				default:
					l.Distinct("outcomes", "value/unregistered")
					if err != nil {
						chk.Violation("C15/eci-value/unregistered", fmt.Sprintf("GetCharacterSetECIByValue(%d): error %v for an in-range unregistered value (nothing, without error, is documented by the code)", v, err), rc)
					} else if e != nil {
						if _, _, wb := actualRegistry(); !wb || !holds(v) {
							chk.Violation("C15/eci-value/unregistered", fmt.Sprintf("GetCharacterSetECIByValue(%d) gives %s, the value is not registered", v, e.Name()), rc)
						}
					}
				}
			}
		})
}

func holds(v int) bool {
	_, values, _ := actualRegistry()
	for _, x := range values {
		if x == v {
			return true
		}
	}
	return false
}

// ------------------------------------------------------------------ (1c) ECI designators in a bit stream

type bw struct{ bits []bool }

func (w *bw) put(v, n int) {
	for i := n - 1; i >= 0; i-- {
		w.bits = append(w.bits, v>>uint(i)&1 == 1)
	}
}

func (w *bw) eci(v, form int) {
	w.put(7, 4)
	switch form {
	case 1:
		w.put(v, 8)
	case 2:
		w.put(0x8000|v, 16)
	case 3:
		w.put(0xC00000|v, 24)
	case 4: // NOT a designator: first byte 111xxxxx (ISO/IEC 18004 knows 0, 10 and 110 prefixes only)
		w.put(0xE00000|v, 24)
	}
}

func (w *bw) byteSeg(p []byte) { // versions 1..9: 8-bit count
	w.put(4, 4)
	w.put(len(p), 8)
	for _, b := range p {
		w.put(int(b), 8)
	}
}

// codewords: terminator, bit padding, pad codewords (ISO/IEC 18004 7.4.9/7.4.10).
func (w *bw) codewords(total int) []byte {
	b := append([]bool(nil), w.bits...)
	for i := 0; i < 4 && len(b) < total*8; i++ {
		b = append(b, false)
	}
	for len(b)%8 != 0 {
		b = append(b, false)
	}
	out := make([]byte, 0, total)
	for i := 0; i < len(b); i += 8 {
		v := 0
		for k := 0; k < 8; k++ {
			v <<= 1
			if b[i+k] {
				v |= 1
			}
		}
		out = append(out, byte(v))
	}
	for pad := byte(0xEC); len(out) < total; pad ^= 0xEC ^ 0x11 {
		out = append(out, pad)
	}
	return out
}

// universal payload: decodes differently under every registered character set (self-checked).
var universal = []byte{'A', 0x80, 0xA4, 0xD0, 0xE9, 0xFE, 0xB1, 'z', 0xC3, 0xA9}

type eciCase struct {
	Sub   string
	Value int
	Form  int
	Full  bool
	Kind  string `json:",omitempty"` // "" | "persist" | "switch"
	Other int    `json:",omitempty"`
	// Follow: what stands behind the designator: "" a byte segment; "numeric" 123; "alnum" AB;
	// "kanji" one double-byte character; "none" the terminator; "eci" a second, registered,
	// designator (3) and the byte segment
	Follow string `json:",omitempty"`
}

var version1, _ = qrdec.Version_GetVersionForNumber(1)

func eciClass(v int) string {
	switch {
	case defByValue[v] != nil:
		return "registered"
	case v >= 900:
		return "out-of-range"
	}
	return "unregistered"
}

func eciOne(l *mc.Local, c eciCase) {
	var w bw
	w.eci(c.Value, c.Form)
	followText := ""
	switch c.Follow {
	case "":
		w.byteSeg(universal)
	case "numeric":
		w.put(1, 4)
		w.put(3, 10)
		w.put(123, 10)
		followText = "123"
	case "alnum":
		w.put(2, 4)
		w.put(2, 9)
		w.put(10*45+11, 11)
		followText = "AB"
	case "kanji":
		w.put(8, 4)
		w.put(1, 8)
		w.put((0x935F-0x8140)>>8*0xC0+(0x935F-0x8140)&0xFF, 13)
		followText = "\u70b9"
	case "none":
	case "eci":
		w.eci(3, 1)
		w.byteSeg(universal)
	}
	data := w.codewords(qr.DataCodewords(1, qr.L))
	var text string
	var err error
	var pm, site string
	if c.Full {
		r := libDecode(qr.Build(data, 1, qr.L, 0), nil)
		text, err, pm, site = r.text, r.err, r.pm, r.site
	} else {
		pm, site = mc.Guard(func() {
			res, e := qrdec.DecodedBitStreamParser_Decode(data, version1, qrdec.ErrorCorrectionLevel_L, nil)
			if e != nil {
				err = e
				return
			}
			text = res.GetText()
		})
	}
	l.Count("evaluations", 1)
	cls := eciClass(c.Value)
	if c.Form == 4 {
		cls = "malformed-prefix"
	}
	if pm != "" {
		chk.Violation("C15/panic/"+site+"/eci-"+cls, fmt.Sprintf("ECI designator %d (%d-byte form) in a symbol: panic %s", c.Value, c.Form, pm), c)
		return
	}
	if d := defByValue[c.Value]; d != nil && c.Form != 4 {
		want := decodeWith(d.enc, universal)
		switch c.Follow {
		case "":
		case "eci":
			want = decodeWith(defByValue[3].enc, universal)
		default:
			want = followText // numeric / alphanumeric / Kanji data does not depend on the ECI
		}
		cls += "/" + c.Follow
		l.Distinct("nontrivial", fmt.Sprint("eci/", c.Value, "/", c.Form, c.Full))
		l.Distinct("outcomes", "eci/"+d.key())
		if err != nil || text != want {
			chk.Violation("C15/eci-value/registered/"+d.key(), fmt.Sprintf("symbol with ECI %d (%d-byte form) + bytes %X: text %q err %v, expected %q (%s)", c.Value, c.Form, universal, text, err, want, d.key()), c)
		}
		return
	}
	if c.Follow != "" {
		cls += "/followed-by-" + c.Follow
	}
	l.Distinct("outcomes", "eci/"+cls)
	if err == nil {
		chk.Violation("C15/eci-value/"+cls+"/accepted", fmt.Sprintf("symbol with %s ECI %d (%d-byte form) decoded to %q instead of a FormatException", cls, c.Value, c.Form, text), c)
	} else if !isFormat(err) {
		chk.Violation("C15/eci-value/"+cls+"/error-kind", fmt.Sprintf("symbol with %s ECI %d (%d-byte form): error %T %v is not a FormatException", cls, c.Value, c.Form, err, err), c)
	}
}

func formsOf(v int) []int {
	f := []int{3}
	if v <= 16383 {
		f = append(f, 2)
	}
	if v <= 127 {
		f = append(f, 1)
	}
	return f
}

func runECIStream() {
	// harness self-checks: the universal payload separates all sets; the bit builder agrees with ref/qr
	seen := map[string]string{}
	for _, d := range expectedSets {
		s := decodeWith(d.enc, universal)
		if o, dup := seen[s]; dup {
			chk.Violation("C15/harness/universal-payload", fmt.Sprintf("payload decodes identically under %s and %s", o, d.key()), nil)
		}
		seen[s] = d.key()
	}
	for _, v := range []int{0, 26, 127, 128, 899, 16383, 16384, 999999} {
		var w bw
		f := formsOf(v)
		w.eci(v, f[len(f)-1])
		w.byteSeg(universal)
		ref, err := qr.DataCodewordsFor([]qr.Segment{{Mode: qr.Byte, Data: universal, ECI: v}}, 1, qr.L)
		if err != nil || !bytes.Equal(ref, w.codewords(19)) {
			chk.Violation("C15/harness/bit-builder", fmt.Sprintf("ECI %d: check's bit builder %X, ref/qr %X (%v)", v, w.codewords(19), ref, err), nil)
		}
	}
	// parser level: every 21-bit value in the 3-byte form, every 14-bit value in the 2-byte form,
	// every 7-bit value in the 1-byte form
	var cases []eciCase
	const chunk = 8192
	nChunks := (1<<21)/chunk + (1<<14)/chunk + 1 + (1<<21)/chunk
	chk.Range("(1c) bit-stream parser: ECI designator + byte segment for every value of the 3-byte form (0..2097151), of the 2-byte form (0..16383) and of the 1-byte form (0..127); and every 24-bit word with the ILLEGAL first byte 111xxxxx (2^21 words): format error", nChunks,
		func(i int) string { return fmt.Sprint("chunk ", i) },
		func(l *mc.Local, i int) {
			switch {
			case i < (1<<21)/chunk:
				for v := i * chunk; v < (i+1)*chunk; v++ {
					eciOne(l, eciCase{Sub: "eci-stream", Value: v, Form: 3})
				}
			case i < (1<<21)/chunk+(1<<14)/chunk:
				j := i - (1<<21)/chunk
				for v := j * chunk; v < (j+1)*chunk; v++ {
					eciOne(l, eciCase{Sub: "eci-stream", Value: v, Form: 2})
				}
			case i == (1<<21)/chunk+(1<<14)/chunk:
				for v := 0; v < 128; v++ {
					eciOne(l, eciCase{Sub: "eci-stream", Value: v, Form: 1})
				}
			default:
				j := i - (1<<21)/chunk - (1<<14)/chunk - 1
				for v := j * chunk; v < (j+1)*chunk; v++ {
					eciOne(l, eciCase{Sub: "eci-stream", Value: v, Form: 4})
				}
			}
		})
	// full symbols (reference-built matrix -> library decoder)
	top := chk.Pick(20000, 999999)
	set := map[int]bool{}
	for v := 0; v <= top; v++ {
		set[v] = true
	}
	for p := 10; p <= 1000000; p *= 10 {
		for _, v := range []int{p - 1, p, p + 1} {
			if v <= 999999 {
				set[v] = true
			}
		}
	}
	for _, v := range []int{127, 128, 899, 900, 16383, 16384, 65535, 65536, 999999, 1048575, 1048576, 2097151} {
		set[v] = true
	}
	var vs []int
	for v := range set {
		vs = append(vs, v)
	}
	sort.Ints(vs)
	for _, v := range vs {
		for _, f := range formsOf(v) {
			cases = append(cases, eciCase{Sub: "eci-stream", Value: v, Form: f, Full: true})
		}
	}
	const ch2 = 16
	chk.Range(fmt.Sprintf("(1c) full symbols (ref/qr-built, version 1-L) with ECI designator 0..%d, decade boundaries up to 999999 and form boundaries, in every form that can express the value [%d symbols]", top, len(cases)), (len(cases)+ch2-1)/ch2,
		func(i int) string { return fmt.Sprint(cases[i*ch2]) },
		func(l *mc.Local, i int) {
			for k := i * ch2; k < (i+1)*ch2 && k < len(cases); k++ {
				eciOne(l, cases[k])
			}
		})
	chk.Sample("eci-stream", eciCase{Sub: "eci-stream", Value: 170, Form: 2, Full: true})

	// what stands behind the designator: an unregistered or out-of-range number is a format error
	// whether or not a byte segment ever uses it
	var fc []eciCase
	fset := map[int]bool{}
	for v := 0; v <= 1100; v++ {
		fset[v] = true
	}
	for _, v := range []int{16383, 16384, 65535, 65536, 999999, 1000000, 1048576, 2097151} {
		fset[v] = true
	}
	var fvs []int
	for v := range fset {
		fvs = append(fvs, v)
	}
	sort.Ints(fvs)
	for _, v := range fvs {
		for _, f := range formsOf(v) {
			for _, fo := range []string{"numeric", "alnum", "kanji", "none", "eci"} {
				for _, full := range []bool{false, true} {
					fc = append(fc, eciCase{Sub: "eci-stream", Value: v, Form: f, Full: full, Follow: fo})
				}
			}
		}
	}
	chk.Range(fmt.Sprintf("(1c') ECI designator 0..1100 (and form / decade boundaries) in every form, FOLLOWED by a numeric, alphanumeric or Kanji segment, by nothing, or by a second (registered) designator and the byte segment; bit stream and full version 1-L symbol: registered -> the data behind it, anything else -> format error [%d cases]", len(fc)), (len(fc)+ch2-1)/ch2,
		func(i int) string { return fmt.Sprint(fc[i*ch2]) },
		func(l *mc.Local, i int) {
			for k := i * ch2; k < (i+1)*ch2 && k < len(fc); k++ {
				eciOne(l, fc[k])
			}
		})

	// persistence and switch: [ECI v, bytes][bytes] and [ECI v, bytes][ECI w, bytes]
	var regs []int
	for v := range defByValue {
		regs = append(regs, v)
	}
	sort.Ints(regs)
	var pc []eciCase
	for _, v := range regs {
		pc = append(pc, eciCase{Sub: "eci-stream", Value: v, Kind: "persist", Full: true})
		for _, w := range regs {
			pc = append(pc, eciCase{Sub: "eci-stream", Value: v, Kind: "switch", Other: w, Full: true})
		}
	}
	chk.Range(fmt.Sprintf("(1c) ECI scope in ref/qr-built version 2-L symbols: [ECI v, bytes][bytes] for every registered value (the ECI stays in effect) and [ECI v, bytes][ECI w, bytes] for every ordered pair [%d symbols]", len(pc)), len(pc),
		func(i int) string { return fmt.Sprint(pc[i]) },
		func(l *mc.Local, i int) { eciScope(l, pc[i]) })
}

var second = []byte{0xC4, 0xA1, 'q', 0xE0, 0x41}

func eciScope(l *mc.Local, c eciCase) {
	d := defByValue[c.Value]
	segs := []qr.Segment{{Mode: qr.Byte, Data: universal, ECI: c.Value}, {Mode: qr.Byte, Data: second, ECI: -1}}
	want := decodeWith(d.enc, universal) + decodeWith(d.enc, second)
	key := "C15/eci-value/registered/second-segment"
	if c.Kind == "switch" {
		segs[1].ECI = c.Other
		want = decodeWith(d.enc, universal) + decodeWith(defByValue[c.Other].enc, second)
		key = "C15/eci-value/registered/switch"
	}
	data, err := qr.DataCodewordsFor(segs, 2, qr.L)
	if err != nil {
		chk.Violation("C15/harness/scope-build", err.Error(), c)
		return
	}
	r := libDecode(qr.Build(data, 2, qr.L, 0), nil)
	l.Count("evaluations", 1)
	l.Distinct("nontrivial", fmt.Sprint("scope/", c.Kind, c.Value, "/", c.Other))
	if r.pm != "" {
		chk.Violation("C15/panic/"+r.site+"/eci-scope", fmt.Sprintf("%+v: panic %s", c, r.pm), c)
		return
	}
	if r.err != nil || r.text != want {
		chk.Violation(key, fmt.Sprintf("symbol [ECI %d, %X][%s%X]: text %q err %v, expected %q (an ECI stays in effect until the next ECI or the end of the data)", c.Value, universal,
			map[bool]string{true: fmt.Sprintf("ECI %d, ", c.Other), false: ""}[c.Kind == "switch"], second, r.text, r.err, want), c)
	}
}

// ------------------------------------------------------------------ (2)(3) write with hint -> read

type rtCase struct {
	Sub     string // "roundtrip" | "refuse" | "kanji" | "nohint" | "alias"
	Name    string // CHARACTER_SET hint ("" = none)
	TextHex string
	Text    string
	Class   string
}

func keyPart(s string) string { return strings.ReplaceAll(s, "/", "_") }

// roundTrip: encoder -> (reference reader for the header) -> decoder.
func roundTrip(l *mc.Local, d *csDef, name, text, class, keyBase string) {
	rc := rtCase{Sub: "roundtrip", Name: name, TextHex: hx(text), Text: fmt.Sprintf("%+q", text), Class: class}
	var code *qrenc.QRCode
	var err error
	l.Beat(fmt.Sprint(rc))
	pm, site := mc.Guard(func() { code, err = qrenc.Encoder_encode(text, qrdec.ErrorCorrectionLevel_L, encHints(name)) })
	l.Count("evaluations", 1)
	if pm != "" {
		chk.Violation("C15/panic/"+site+"/encode", fmt.Sprintf("Encoder_encode(%+q, CHARACTER_SET=%q) panics: %s", text, name, pm), rc)
		return
	}
	if err != nil || code == nil {
		chk.Violation(keyBase+"/refused", fmt.Sprintf("text %+q is representable in %s (x/text encodes it) but CHARACTER_SET=%q refuses it: %v", text, d.key(), name, err), rc)
		return
	}
	m := toBools(code.GetMatrix())
	checkHeader(l, d, name, text, m, rc)
	r := libDecode(m, nil)
	if r.pm != "" {
		chk.Violation("C15/panic/"+r.site+"/decode", fmt.Sprintf("decoding the symbol of %+q (CHARACTER_SET=%q) panics: %s", text, name, r.pm), rc)
		return
	}
	l.Distinct("nontrivial", name+"|"+text)
	if r.err != nil || r.text != text {
		chk.Violation(keyBase, fmt.Sprintf("CHARACTER_SET=%q, text %+q (%s bytes %X): read back %+q err %v", name, text, d.key(), mustEnc(d, text), r.text, r.err), rc)
	}
}

func mustEnc(d *csDef, s string) []byte { b, _ := encodeWith(d.enc, s); return b }

// checkHeader reads the symbol with the reference reader: a byte segment must be preceded by an
// ECI designator registered for the hinted character set; numeric, alphanumeric and Kanji
// segments need none (their interpretation does not depend on a character set).
func checkHeader(l *mc.Local, d *csDef, name, text string, m [][]bool, rc rtCase) {
	v, _, _, data, err := qr.Read(m)
	var segs []qr.Segment
	if err == nil {
		segs, err = qr.ParseSegments(data, v)
	}
	if err != nil {
		chk.Violation("C15/eci-header/"+keyPart(d.key())+"/unreadable", fmt.Sprintf("CHARACTER_SET=%q, text %+q: the reference reader cannot parse the symbol: %v", name, text, err), rc)
		return
	}
	eci := -1
	modes := ""
	for _, s := range segs {
		if s.ECI >= 0 {
			eci = s.ECI
		}
		modes += s.Mode.String()[:1]
		if s.Mode == qr.Byte {
			if eci < 0 {
				chk.Violation("C15/eci-header/"+keyPart(d.key())+"/missing", fmt.Sprintf("CHARACTER_SET=%q, text %+q: byte segment %X without ECI designator", name, text, s.Data), rc)
				return
			}
		}
	}
	if eci >= 0 {
		ok := false
		for _, x := range d.values {
			ok = ok || x == eci
		}
		if !ok {
			chk.Violation("C15/eci-header/"+keyPart(d.key()), fmt.Sprintf("CHARACTER_SET=%q, text %+q: the symbol carries ECI designator %d, registered for %s are %v", name, text, eci, d.key(), d.values), rc)
		}
	}
	l.Distinct("outcomes", fmt.Sprint("hdr/", d.key(), "/", modes, "/", eci))
}

type rtJob struct {
	d     *csDef
	name  string
	texts []string
	class string
}

func runJobs(title string, jobs []rtJob, total int, fn func(l *mc.Local, j rtJob)) {
	chk.Range(fmt.Sprintf("%s [%d texts]", title, total), len(jobs),
		func(i int) string { return fmt.Sprintf("%s %s %+q", jobs[i].name, jobs[i].class, jobs[i].texts[0]) },
		func(l *mc.Local, i int) { fn(l, jobs[i]) })
}

func chunkTexts(d *csDef, name, class string, texts []string, n int, jobs []rtJob) []rtJob {
	for i := 0; i < len(texts); i += n {
		e := i + n
		if e > len(texts) {
			e = len(texts)
		}
		jobs = append(jobs, rtJob{d, name, texts[i:e], class})
	}
	return jobs
}

func runRoundTrips() {
	var jobs []rtJob
	total := 0
	for _, d := range expectedSets {
		var single, double []string
		for _, r := range singles(d) {
			s := string(r)
			single = append(single, s, s+s, s+s+s, "a"+s+"b")
		}
		for _, r := range doubles(d, true) {
			s := string(r)
			double = append(double, s, "a"+s+"b")
			if !chk.Quick() {
				double = append(double, s+s, s+s+s, s+"1")
			}
		}
		total += len(single) + len(double)
		jobs = chunkTexts(d, d.names[0], "single-byte", single, 32, jobs)
		jobs = chunkTexts(d, d.names[0], "double-byte", double, 32, jobs)
		if len(single) > 0 {
			chk.Sample("roundtrip", rtCase{Sub: "roundtrip", Name: d.names[0], Text: fmt.Sprintf("%+q", single[len(single)-1]), TextHex: hx(single[len(single)-1]), Class: "single-byte"})
		}
	}
	runJobs(fmt.Sprintf("(2) write with CHARACTER_SET=<canonical name of each of the %[2]d sets> -> read: every single-byte code point alone, doubled, tripled and as a<c>b; every multi-byte code point (every lead x every trail byte that x/text defines; UTF-16BE: the whole BMP and six surrogate pairs; GB18030: plus eight four-byte forms; UTF-8: every lead byte with boundary continuations) alone and as a<c>b%[1]s", map[bool]string{true: "", false: ", doubled, tripled and followed by a digit"}[chk.Quick()], len(expectedSets)),
		jobs, total, func(l *mc.Local, j rtJob) {
			for _, t := range j.texts {
				roundTrip(l, j.d, j.name, t, j.class, "C15/roundtrip/"+keyPart(j.d.key())+"/"+j.class)
			}
		})
}

// aliases: every registered spelling through the public writer and reader.
func runAliases() {
	var jobs []rtJob
	total := 0
	for _, d := range expectedSets {
		var hi rune = 'A'
		for _, r := range append(singles(d), doubles(d, false)...) {
			if r >= 0x80 {
				hi = r
				break
			}
		}
		for _, n := range d.names {
			texts := []string{string(hi), "a" + string(hi) + "b", "Az09 ~", string(hi) + string(hi) + string(hi)}
			jobs = append(jobs, rtJob{d, n, texts, "alias"})
			total += len(texts)
		}
	}
	runJobs("(2) every registered spelling (names, aliases, IANA names) as CHARACTER_SET through QRCodeWriter.Encode -> image -> QRCodeReader.Decode(PURE_BARCODE)", jobs, total,
		func(l *mc.Local, j rtJob) {
			for _, t := range j.texts {
				topLevel(l, j.d, j.name, t)
			}
		})
}

func topLevel(l *mc.Local, d *csDef, name, text string) {
	rc := rtCase{Sub: "alias", Name: name, TextHex: hx(text), Text: fmt.Sprintf("%+q", text), Class: "alias"}
	hints := map[gozxing.EncodeHintType]interface{}{gozxing.EncodeHintType_MARGIN: 4}
	if name != "" {
		hints[gozxing.EncodeHintType_CHARACTER_SET] = name
	}
	var img *gozxing.BitMatrix
	var err error
	pm, site := mc.Guard(func() { img, err = qrcode.NewQRCodeWriter().Encode(text, gozxing.BarcodeFormat_QR_CODE, 0, 0, hints) })
	l.Count("evaluations", 1)
	key := "C15/roundtrip/" + keyPart(d.key()) + "/alias-" + keyPart(name)
	if name == "" {
		key = "C15/nohint/writer-reader"
	}
	if pm != "" {
		chk.Violation("C15/panic/"+site+"/writer", fmt.Sprintf("QRCodeWriter.Encode(%+q, CHARACTER_SET=%q) panics: %s", text, name, pm), rc)
		return
	}
	if err != nil {
		chk.Violation(key+"/refused", fmt.Sprintf("QRCodeWriter refuses %+q with CHARACTER_SET=%q: %v", text, name, err), rc)
		return
	}
	if name != "" {
		n := img.GetWidth() - 8
		m := make([][]bool, n)
		for y := range m {
			m[y] = make([]bool, n)
			for x := range m[y] {
				m[y][x] = img.Get(x+4, y+4)
			}
		}
		checkHeader(l, d, name, text, m, rc)
	}
	var got string
	pm, site = mc.Guard(func() {
		bmp, e := gozxing.NewBinaryBitmapFromImage(img)
		if e != nil {
			err = e
			return
		}
		res, e := qrcode.NewQRCodeReader().Decode(bmp, map[gozxing.DecodeHintType]interface{}{gozxing.DecodeHintType_PURE_BARCODE: true})
		if e != nil {
			err = e
			return
		}
		got = res.GetText()
	})
	if pm != "" {
		chk.Violation("C15/panic/"+site+"/reader", fmt.Sprintf("QRCodeReader on the symbol of %+q (CHARACTER_SET=%q) panics: %s", text, name, pm), rc)
		return
	}
	l.Distinct("nontrivial", "top|"+name+"|"+text)
	if err != nil || got != text {
		chk.Violation(key, fmt.Sprintf("CHARACTER_SET=%q, text %+q through QRCodeWriter/QRCodeReader: read back %+q err %v", name, text, got, err), rc)
	}
}

// refusals: text outside the repertoire of the hinted set must give an error, never a symbol.
func runRefusals() {
	cand := map[rune]bool{}
	for _, d := range expectedSets {
		for _, r := range singles(d) {
			if r >= 0x80 {
				cand[r] = true
			}
		}
	}
	for _, r := range "あ漢ｱ한€ǅ\u0080ÿĀ\u2028\uFEFF\U00020000\U0001F600" {
		cand[r] = true
	}
	var runes []rune
	for r := range cand {
		runes = append(runes, r)
	}
	sort.Slice(runes, func(a, b int) bool { return runes[a] < runes[b] })
	var jobs []rtJob
	total := 0
	for _, d := range expectedSets {
		var texts []string
		for _, r := range runes {
			if _, err := encodeWith(d.enc, string(r)); err != nil {
				texts = append(texts, string(r), "a"+string(r)+"b", "12"+string(r))
			}
		}
		total += len(texts)
		jobs = chunkTexts(d, d.names[0], "refuse", texts, 64, jobs)
	}
	runJobs(fmt.Sprintf("(2) refusal: each of the %d runes (all non-ASCII code points of all single-byte sets plus CJK, Hangul, supplementary-plane characters) that x/text cannot encode in the hinted set, alone, as a<c>b and as 12<c>", len(runes)), jobs, total,
		func(l *mc.Local, j rtJob) {
			for _, t := range j.texts {
				rc := rtCase{Sub: "refuse", Name: j.name, TextHex: hx(t), Text: fmt.Sprintf("%+q", t), Class: "refuse"}
				var code *qrenc.QRCode
				var err error
				pm, site := mc.Guard(func() { code, err = qrenc.Encoder_encode(t, qrdec.ErrorCorrectionLevel_L, encHints(j.name)) })
				l.Count("evaluations", 1)
				if pm != "" {
					chk.Violation("C15/panic/"+site+"/encode", fmt.Sprintf("Encoder_encode(%+q, CHARACTER_SET=%q) panics: %s", t, j.name, pm), rc)
					continue
				}
				l.Distinct("nontrivial", "refuse|"+j.name+"|"+t)
				l.Distinct("outcomes", "refused/"+j.name)
				if err == nil && code != nil {
					r := libDecode(toBools(code.GetMatrix()), nil)
					chk.Violation("C15/refuse/"+keyPart(j.d.key()), fmt.Sprintf("text %+q is not representable in %s, yet CHARACTER_SET=%q produced a symbol (it reads back as %+q, err %v)", t, j.d.key(), j.name, r.text, r.err), rc)
				}
			}
		})
}

// (3) Kanji mode
func runKanji() {
	sj := defByName["Shift_JIS"]
	type rng struct {
		lo, hi int
		name   string
	}
	ranges := []rng{{0x8140, 0x9FFC, "8140-9FFC"}, {0xE040, 0xEBBF, "E040-EBBF"}}
	var jobs []rtJob
	total := 0
	var all [][]string
	var bounds []string
	for _, rg := range ranges {
		var pts []string
		for c := rg.lo; c <= rg.hi; c++ {
			if r, ok := oneRune(sj.enc, []byte{byte(c >> 8), byte(c)}); ok {
				pts = append(pts, string(r))
			}
		}
		all = append(all, pts)
		bounds = append(bounds, pts[0], pts[len(pts)-1])
	}
	nb := bounds
	if chk.Quick() {
		nb = []string{bounds[1], bounds[2]} // last of the first range, first of the second
	}
	for i, rg := range ranges {
		var texts []string
		for _, p := range all[i] {
			texts = append(texts, p)
			for _, b := range nb {
				texts = append(texts, p+b, b+p)
			}
		}
		total += len(texts)
		jobs = chunkTexts(sj, "Shift_JIS", rg.name, texts, 48, jobs)
	}
	runJobs(fmt.Sprintf("(3) Kanji mode: every Shift_JIS double-byte code point of 0x8140-0x9FFC and 0xE040-0xEBBF that x/text defines, alone and before/after %d range-boundary neighbour(s), CHARACTER_SET=Shift_JIS", len(nb)), jobs, total,
		func(l *mc.Local, j rtJob) {
			for _, t := range j.texts {
				roundTrip(l, j.d, j.name, t, j.class, "C15/kanji/"+j.class)
			}
		})
}

// (4) no hint
var nohintAlphabet = []string{"a", "é", "×", "÷", "ｱ", "ｶ", "あ", "漢", "€", "\u0080", "\uFEFF", "\U0001F600"}

func runNoHint() {
	maxLen := chk.Pick(4, 5)
	var texts []string
	var gen func(prefix string, n int)
	gen = func(prefix string, n int) {
		if n > 0 {
			texts = append(texts, prefix)
		}
		if n == maxLen {
			return
		}
		for _, a := range nohintAlphabet {
			gen(prefix+a, n+1)
		}
	}
	gen("", 0)
	const chunk = 32
	chk.Range(fmt.Sprintf("(4) no hint: all %d strings of length 1..%d over {a é × ÷ ｱ ｶ あ 漢 € U+0080 U+FEFF U+1F600}: write -> read == text", len(texts), maxLen), (len(texts)+chunk-1)/chunk,
		func(i int) string { return fmt.Sprintf("%+q", texts[i*chunk]) },
		func(l *mc.Local, i int) {
			for k := i * chunk; k < (i+1)*chunk && k < len(texts); k++ {
				noHintOne(l, texts[k])
				if utf8.RuneCountInString(texts[k]) <= 2 {
					topLevel(l, defByName["UTF-8"], "", texts[k])
				}
			}
		})
	chk.Sample("nohint", rtCase{Sub: "nohint", Text: fmt.Sprintf("%+q", "ｱｶa"), TextHex: hx("ｱｶa")})

	// COUNTS: the guess tallies two-, three- and four-byte characters; texts with n non-ASCII
	// characters for every n = 1..64 and around 128, 256, 512, 768, 1024, 1280 (one fill character
	// of each length class, a mix of the three, bare and inside ASCII text), as far as a symbol holds
	var counted []string
	fills := []string{"\u00e9", "\u20ac", "\U0001F600"}
	var ns []int
	for n := 1; n <= 64; n++ {
		ns = append(ns, n)
	}
	for _, c := range []int{128, 256, 512, 768, 1024, 1280} {
		ns = append(ns, c-2, c-1, c, c+1, c+2)
	}
	for _, n := range ns {
		for fi, f := range fills {
			if n*len(f) > 2900 {
				continue
			}
			counted = append(counted, strings.Repeat(f, n))
			if n*len(f) < 2800 && n >= 120 {
				counted = append(counted, "ascii text "+strings.Repeat(f, n)+" end", strings.Repeat(f, n/2)+" middle "+strings.Repeat(f, n-n/2))
			}
			_ = fi
		}
		// a mix: n characters in total, a third of each class
		if n >= 3 && n*3 < 2900 {
			a, b := n/3, n/3
			counted = append(counted, strings.Repeat(fills[0], a)+strings.Repeat(fills[1], b)+strings.Repeat(fills[2], n-a-b))
		}
	}
	chk.Range(fmt.Sprintf("(4') no hint, character COUNTS: n non-ASCII characters for n = 1..64 and n within 2 of 128, 256, 512, 768, 1024, 1280 x fill {2-byte, 3-byte, 4-byte, mixed}, bare and inside ASCII text: write -> read == text [%d texts]", len(counted)), len(counted),
		func(i int) string {
			return fmt.Sprintf("%d bytes, %d runes", len(counted[i]), utf8.RuneCountInString(counted[i]))
		},
		func(l *mc.Local, i int) { noHintOne(l, counted[i]) })

	// every code point: the guess of the encoding of an undesignated byte segment looks at byte
	// patterns, and whole blocks of the code space share one pattern (e.g. U+0800..U+0FFF: lead byte
	// E0, second byte A0..BF) that no character of the small alphabet above has. Every code point of
	// the Basic Multilingual Plane (thorough: of all planes) alone and in six contexts
	type span struct{ lo, hi rune }
	var spans []span
	top := rune(0xFFFF)
	if !chk.Quick() {
		top = 0x10FFFF
	}
	for lo := rune(0); lo <= top; lo += 512 {
		spans = append(spans, span{lo, lo + 511})
	}
	ctxs := []string{"%s", "a%s", "%sa", "%s%s", "a%sb", "%sé", "x%s%sy"}
	chk.Range(fmt.Sprintf("(4c) no hint: EVERY code point U+0000..U+%04X (surrogates excluded) alone and in %d contexts (after / before a letter, doubled, between letters, before an accented letter, doubled between letters): write -> read == text", top, len(ctxs)-1), len(spans),
		func(i int) string { return fmt.Sprintf("U+%04X..U+%04X", spans[i].lo, spans[i].hi) },
		func(l *mc.Local, i int) {
			for r := spans[i].lo; r <= spans[i].hi && r <= top; r++ {
				if r >= 0xD800 && r <= 0xDFFF {
					continue
				}
				for _, c := range ctxs {
					noHintOne(l, strings.ReplaceAll(c, "%s", string(r)))
				}
			}
		})

	// long texts: lower-case ASCII filler of every listed total length with ONE or TWO non-ASCII
	// characters at the start, near the middle, and at the very end (a decoder that judges the
	// encoding from part of the bytes, or whose counters overflow/saturate, shows only here)
	lengths := []int{64, 255, 256, 257, 1000, 1023, 1024, 1025, 1031, 2000, 2047, 2048, 2049, 2940}
	type lj struct {
		L   int
		c   string
		pos int // 0 start, 1 second byte, 2 middle, 3 just before the end, 4 end, 5 start+end, 6 only in the last 16 bytes twice
	}
	var ljs []lj
	for _, L := range lengths {
		for _, c := range nohintAlphabet[1:] {
			for pos := 0; pos <= 6; pos++ {
				ljs = append(ljs, lj{L, c, pos})
			}
		}
	}
	filler := func(n int) string {
		b := make([]byte, n)
		for i := range b {
			b[i] = "abcdefghijklmnopqrstuvwxyz 0123456789"[i%37]
		}
		return string(b)
	}
	chk.Range(fmt.Sprintf("(4b) no hint, long texts: total byte lengths %v x 11 non-ASCII characters x 7 placements (start, second byte, middle, before the end, end, start+end, twice near the end) in lower-case ASCII filler: write -> read == text", lengths), len(ljs),
		func(i int) string { return fmt.Sprintf("%+v", ljs[i]) },
		func(l *mc.Local, i int) {
			j := ljs[i]
			n := j.L - len(j.c)
			var text string
			switch j.pos {
			case 0:
				text = j.c + filler(n)
			case 1:
				text = "a" + j.c + filler(n-1)
			case 2:
				text = filler(n/2) + j.c + filler(n-n/2)
			case 3:
				text = filler(n-1) + j.c + "z"
			case 4:
				text = filler(n) + j.c
			case 5:
				text = j.c + filler(n-len(j.c)) + j.c
			case 6:
				text = filler(n-len(j.c)-5) + j.c + "zzzzz" + j.c
			}
			noHintOne(l, text)
		})
}

// noHintOne: no CHARACTER_SET hint. The text is written twice: with no further hint, and with
// GS1_FORMAT (which puts an FNC1 header in front of the segments and says nothing about character
// sets; texts with a per-cent sign, which FNC1 mode re-interprets in alphanumeric segments, are left
// out of that second writing).
func noHintOne(l *mc.Local, text string) {
	noHintWith(l, text, false)
	if !strings.Contains(text, "%") {
		noHintWith(l, text, true)
	}
}

func noHintWith(l *mc.Local, text string, gs1 bool) {
	rc := rtCase{Sub: "nohint", TextHex: hx(text), Text: fmt.Sprintf("%+q", text)}
	var code *qrenc.QRCode
	var err error
	eh := encHints("")
	if gs1 {
		rc.Text += " +GS1_FORMAT"
		eh[gozxing.EncodeHintType_GS1_FORMAT] = true
	}
	pm, site := mc.Guard(func() { code, err = qrenc.Encoder_encode(text, qrdec.ErrorCorrectionLevel_L, eh) })
	l.Count("evaluations", 1)
	if pm != "" {
		chk.Violation("C15/panic/"+site+"/encode", fmt.Sprintf("Encoder_encode(%+q) panics: %s", text, pm), rc)
		return
	}
	if err != nil {
		chk.Violation("C15/nohint/refused", fmt.Sprintf("valid UTF-8 text %+q refused without hint: %v", text, err), rc)
		return
	}
	r := libDecode(toBools(code.GetMatrix()), nil)
	if r.pm != "" {
		chk.Violation("C15/panic/"+r.site+"/decode", fmt.Sprintf("decoding the symbol of %+q panics: %s", text, r.pm), rc)
		return
	}
	l.Distinct("nontrivial", fmt.Sprint("nohint|", gs1, "|", text))
	if r.err != nil || r.text != text {
		guess, _ := common.StringUtils_guessEncoding([]byte(text), nil)
		if gs1 {
			guess += "/gs1"
		}
		chk.Violation("C15/nohint/guess/"+guess, fmt.Sprintf("text %+q (UTF-8 bytes %X) written without hint reads back as %+q (err %v); the decoder guessed %s for the undesignated bytes", text, []byte(text), r.text, r.err, guess), rc)
	}
	l.Distinct("outcomes", "nohint/ok")
}

// ------------------------------------------------------------------ (5) decode-side hint, (6) legacy guess

type hintCase struct {
	Sub        string // "decode-hint" | "legacy"
	Name       string
	AsEncoding bool
	PayloadHex string
	Mirrored   bool `json:",omitempty"` // the symbol is transposed: it decodes on the decoder's mirrored retry only
}

func buildUndesignated(p []byte) ([][]bool, error) {
	data, err := qr.DataCodewordsFor([]qr.Segment{{Mode: qr.Byte, Data: p, ECI: -1}}, 2, qr.L)
	if err != nil {
		return nil, err
	}
	return qr.Build(data, 2, qr.L, 0), nil
}

func runDecodeHints() {
	payloads := [][]byte{universal, {0xA3, '1', '0', '0'}, []byte("é漢"), {0xB1, 0xB6}, {0x8A, 0xBF, 0x8E, 0x9A}, []byte("plain"), {0xC3, 0xA9, 0xC3, 0xA9, 0xC3, 0xA9}, {0xFE, 0xFF, 0x00, 0x41}}
	var cases []hintCase
	for _, d := range expectedSets {
		for _, n := range d.names {
			for _, p := range payloads {
				cases = append(cases, hintCase{Sub: "decode-hint", Name: n, PayloadHex: hex.EncodeToString(p)})
			}
		}
		for _, p := range payloads {
			cases = append(cases, hintCase{Sub: "decode-hint", Name: d.names[0], AsEncoding: true, PayloadHex: hex.EncodeToString(p)})
		}
		if hi := append(singles(d), doubles(d, false)...); len(hi) > 0 {
			p := mustEnc(d, "x"+string(hi[len(hi)-1])+string(hi[len(hi)/2]))
			cases = append(cases, hintCase{Sub: "decode-hint", Name: d.names[0], PayloadHex: hex.EncodeToString(p)})
		}
	}
	for _, c := range append([]hintCase{}, cases...) {
		c.Mirrored = true
		cases = append(cases, c)
	}
	chk.Range(fmt.Sprintf("(5) decode-side CHARACTER_SET hint (every registered spelling as string, every set as encoding.Encoding value) on ref/qr-built version 2-L symbols with one undesignated byte segment from a menu of %d payloads (Latin-1, Shift_JIS, UTF-8, BOM-prefixed, mixed), each symbol upright and mirrored (transposed: read on the decoder's second attempt) [%d symbols]", len(payloads)+1, len(cases)), len(cases),
		func(i int) string { return fmt.Sprint(cases[i]) },
		func(l *mc.Local, i int) { decodeHintOne(l, cases[i]) })
	chk.Sample("decode-hint", cases[1])

	// spellings in another LETTER CASE: the registry lookup is case-sensitive, the IANA index is not.
	// A lower- or upper-cased registered name that is not itself registered is resolved through the
	// IANA index (x/text): "gbk" is x/text's GBK while the registered alias "GBK" is GB18030. What a
	// spelling means must not depend on which other spelling was used earlier in the process.
	var vcases []hintCase
	gb4 := []byte{'a', 0x95, 0x32, 0x82, 0x36, 0xA8, 0xBF, 'z'} // U+20000 is a four-byte GB18030 sequence
	seenV := map[string]bool{}
	for _, d := range expectedSets {
		for _, n := range d.names {
			for _, v := range []string{strings.ToLower(n), strings.ToUpper(n), strings.Title(strings.ToLower(n))} {
				if defByName[v] != nil || seenV[v] {
					continue
				}
				seenV[v] = true
				for _, p := range [][]byte{universal, gb4, {0x8A, 0xBF, 0x8E, 0x9A}} {
					vcases = append(vcases, hintCase{Sub: "decode-hint-case", Name: v, PayloadHex: hex.EncodeToString(p)})
				}
			}
		}
	}
	// the exact spellings again with the GB18030 payload (interleaved with the variants above)
	for _, d := range expectedSets {
		for _, n := range d.names {
			vcases = append(vcases, hintCase{Sub: "decode-hint", Name: n, PayloadHex: hex.EncodeToString(gb4)})
		}
	}
	chk.Range(fmt.Sprintf("(5c) decode-side CHARACTER_SET hint spelled in another letter case (lower, upper, title) than registered: resolved through the IANA index like any unregistered name (or an error), independently of the spellings used before; and every registered spelling on a four-byte GB18030 payload [%d symbols]", len(vcases)), len(vcases),
		func(i int) string { return fmt.Sprint(vcases[i]) },
		func(l *mc.Local, i int) {
			if vcases[i].Sub == "decode-hint" {
				decodeHintOne(l, vcases[i])
			} else {
				decodeHintCaseOne(l, vcases[i])
			}
		})
}

func decodeHintCaseOne(l *mc.Local, c hintCase) {
	p, _ := hex.DecodeString(c.PayloadHex)
	m, err := buildUndesignated(p)
	if err != nil {
		chk.Violation("C15/harness/build", err.Error(), c)
		return
	}
	r := libDecode(m, map[gozxing.DecodeHintType]interface{}{gozxing.DecodeHintType_CHARACTER_SET: c.Name})
	l.Count("evaluations", 1)
	if r.pm != "" {
		chk.Violation("C15/panic/"+r.site+"/decode-hint", fmt.Sprintf("%+v: panic %s", c, r.pm), c)
		return
	}
	enc, ierr := ianaindex.IANA.Encoding(c.Name)
	if ierr != nil || enc == nil {
		l.Distinct("outcomes", "dhc/unresolvable")
		if r.err == nil {
			l.Count("decode hints that no index resolves and the library ignores (not judged)", 1)
		}
		return
	}
	want := decodeWith(enc, p)
	l.Distinct("outcomes", "dhc/resolved")
	l.Distinct("nontrivial", fmt.Sprint("dhc/", c))
	if r.err != nil || r.text != want {
		chk.Violation("C15/decode-hint/letter-case", fmt.Sprintf("undesignated bytes %X decoded with CHARACTER_SET hint %q (not a registered spelling; the IANA index resolves it to %v): %+q err %v, expected %+q", p, c.Name, enc, r.text, r.err, want), c)
	}
}

// runDesignatedWithHints (5b): an ECI designator fixes the interpretation of the bytes that follow it,
// "whatever the decoder would otherwise have guessed" - and whatever CHARACTER_SET decode hint the
// caller passes: a registered name of another set, a name the IANA index knows but x/text does
// not implement, an unknown name, the empty string, nil, an encoding value.
func runDesignatedWithHints() {
	hintVals := []interface{}{"ISO-8859-1", "UTF-8", "Shift_JIS", "SJIS", "UTF-16BE", "GB18030", "UTF-7", "ISO-8859-11", "ISO-10646-UCS-2", "dummy", "", " ", nil, 5,
		encoding.Encoding(charmap.ISO8859_1), encoding.Encoding(unicode.UTF16(unicode.BigEndian, unicode.ExpectBOM))}
	type job struct {
		d    *csDef
		text string
	}
	var jobs []job
	for _, d := range expectedSets {
		var t []rune
		t = append(t, 'a')
		if hi := append(singles(d), doubles(d, false)...); len(hi) > 0 {
			t = append(t, hi[len(hi)-1], hi[len(hi)/2], hi[len(hi)/3])
		}
		jobs = append(jobs, job{d, string(t)})
	}
	chk.Range(fmt.Sprintf("(5b) ECI-designated symbols under decode-side CHARACTER_SET hints: %d character sets (symbol written with the set's hint, text a + three code points of its upper half) x %d hint values (other registered names, IANA names without implementation, unknown and empty names, nil, non-string values, encoding values): the text read back is the text written", len(jobs), len(hintVals)), len(jobs),
		func(i int) string { return jobs[i].d.key() },
		func(l *mc.Local, i int) {
			j := jobs[i]
			var code *qrenc.QRCode
			var err error
			pm, _ := mc.Guard(func() { code, err = qrenc.Encoder_encode(j.text, qrdec.ErrorCorrectionLevel_L, encHints(j.d.names[0])) })
			if pm != "" || err != nil || code == nil {
				return // judged by the round-trip family
			}
			m := toBools(code.GetMatrix())
			if _, _, _, data, e := qr.Read(m); e == nil {
				if segs, e := qr.ParseSegments(data, code.GetVersion().GetVersionNumber()); e == nil {
					designated := false
					for _, sg := range segs {
						designated = designated || sg.ECI >= 0
					}
					if !designated {
						l.Count("designated_hint_cases_without_eci_segment", 1)
						return
					}
				}
			}
			for _, hv := range hintVals {
				r := libDecode(m, map[gozxing.DecodeHintType]interface{}{gozxing.DecodeHintType_CHARACTER_SET: hv})
				l.Count("evaluations", 1)
				rc := rtCase{Sub: "designated-hint", Name: j.d.names[0], TextHex: hx(j.text), Text: fmt.Sprintf("%+q", j.text), Class: fmt.Sprintf("hint=%T(%v)", hv, hv)}
				if r.pm != "" {
					chk.Violation("C15/panic/"+r.site+"/designated-hint", fmt.Sprintf("ECI-designated %s symbol read with CHARACTER_SET hint %T(%v) panics: %s", j.d.key(), hv, hv, r.pm), rc)
					continue
				}
				if r.err != nil || r.text != j.text {
					chk.Violation("C15/designated-hint/"+keyPart(j.d.key()), fmt.Sprintf("ECI-designated %s symbol of %+q read with CHARACTER_SET hint %T(%v): %+q err %v - the designator decides, not the hint", j.d.key(), j.text, hv, hv, r.text, r.err), rc)
					break
				}
				l.Distinct("nontrivial", fmt.Sprint("dh-eci/", j.d.key(), hv))
			}
		})
}

func decodeHintOne(l *mc.Local, c hintCase) {
	d := defByName[c.Name]
	p, _ := hex.DecodeString(c.PayloadHex)
	m, err := buildUndesignated(p)
	if err != nil {
		chk.Violation("C15/harness/build", err.Error(), c)
		return
	}
	if c.Mirrored {
		t := make([][]bool, len(m))
		for y := range t {
			t[y] = make([]bool, len(m))
			for x := range t[y] {
				t[y][x] = m[x][y]
			}
		}
		m = t
	}
	var hv interface{} = c.Name
	if c.AsEncoding {
		hv = d.enc
	}
	r := libDecode(m, map[gozxing.DecodeHintType]interface{}{gozxing.DecodeHintType_CHARACTER_SET: hv})
	l.Count("evaluations", 1)
	l.Distinct("nontrivial", fmt.Sprint("dh/", c))
	if r.pm != "" {
		chk.Violation("C15/panic/"+r.site+"/decode-hint", fmt.Sprintf("%+v: panic %s", c, r.pm), c)
		return
	}
	want := decodeWith(d.enc, p)
	l.Distinct("outcomes", "dh/"+d.key())
	if r.err != nil || r.text != want {
		chk.Violation("C15/decode-hint/"+keyPart(d.key()), fmt.Sprintf("undesignated bytes %X (symbol mirrored: %v) decoded with CHARACTER_SET hint %q (as encoding value: %v): %+q err %v, %s gives %+q", p, c.Mirrored, c.Name, c.AsEncoding, r.text, r.err, d.key(), want), c)
	}
}

// (6) pinned: the rule documented in common/string_utils.go for undesignated bytes that are valid
// both as ISO-8859-1 and as Shift_JIS (and not UTF-8): Shift_JIS iff the bytes that could be "upper
// not-alphanumeric Latin-1" (0xA1..0xBF, 0xD7, 0xF7) are at least 10 % of the bytes, else ISO-8859-1.
func runLegacyGuess() {
	var cases []hintCase
	for h := 0xA1; h <= 0xD7; h++ {
		if h > 0xBF && h != 0xD7 {
			continue
		}
		for L := 1; L <= 29; L++ {
			for _, pos := range []int{0, L / 2, L - 1} {
				p := bytes.Repeat([]byte{'a'}, L)
				p[pos] = byte(h)
				cases = append(cases, hintCase{Sub: "legacy", PayloadHex: hex.EncodeToString(p)})
			}
			if L >= 3 { // two separated high bytes
				p := bytes.Repeat([]byte{'a'}, L)
				p[0], p[2] = byte(h), byte(h)
				cases = append(cases, hintCase{Sub: "legacy", PayloadHex: hex.EncodeToString(p)})
			}
		}
	}
	uniq := map[string]bool{}
	var cs []hintCase
	for _, c := range cases {
		if !uniq[c.PayloadHex] {
			uniq[c.PayloadHex] = true
			cs = append(cs, c)
		}
	}
	chk.Range(fmt.Sprintf("(6) legacy guess, documented 10%% rule: undesignated payloads 'a'*L (L=1..29) with one byte h in {A1..BF, D7} at the start/middle/end, or two at positions 0 and 2: Shift_JIS iff 10*count >= L, else ISO-8859-1 [%d symbols]", len(cs)), len(cs),
		func(i int) string { return cs[i].PayloadHex },
		func(l *mc.Local, i int) { legacyOne(l, cs[i]) })
}

func legacyOne(l *mc.Local, c hintCase) {
	p, _ := hex.DecodeString(c.PayloadHex)
	high := 0
	for _, b := range p {
		if b >= 0xA1 {
			high++
		}
	}
	m, err := buildUndesignated(p)
	if err != nil {
		chk.Violation("C15/harness/build", err.Error(), c)
		return
	}
	r := libDecode(m, nil)
	l.Count("evaluations", 1)
	l.Distinct("nontrivial", "legacy/"+c.PayloadHex)
	if r.pm != "" {
		chk.Violation("C15/panic/"+r.site+"/legacy", fmt.Sprintf("%+v: panic %s", c, r.pm), c)
		return
	}
	cs, enc := "ISO-8859-1", encoding.Encoding(charmap.ISO8859_1)
	if high*10 >= len(p) {
		cs, enc = "Shift_JIS", japanese.ShiftJIS
	}
	want := decodeWith(enc, p)
	l.Distinct("outcomes", "legacy/"+cs)
	// Informational only: which legacy charset an undesignated non-UTF-8 byte string is guessed
	// as is not promised by the property (DESIGN.md section 7), so a different guess is counted and
	// noted, never reported as a violation. A decode ERROR on such bytes would still be a totality
	// matter (C06), not C15's.
	if r.err != nil || r.text != want {
		l.Count("legacy_guess_differs_from_documented_rule", 1)
		l.Distinct("outcomes", "legacy-differs/"+cs)
	}
}

// ------------------------------------------------------------------ main

type anyCase struct {
	Sub string
}

func replay() {
	var a anyCase
	mc.LoadReplay(chk.ReplayFile(), &a)
	l := chk.NewLocal()
	defer l.Merge()
	switch a.Sub {
	case "registry":
		runRegistry()
	case "eci-value":
		runECIValues()
	case "eci-stream":
		var c eciCase
		mc.LoadReplay(chk.ReplayFile(), &c)
		fmt.Printf("replay %+v\n", c)
		if c.Kind != "" {
			eciScope(l, c)
		} else {
			eciOne(l, c)
		}
	case "roundtrip", "refuse", "kanji", "alias", "nohint":
		var c rtCase
		mc.LoadReplay(chk.ReplayFile(), &c)
		b, _ := hex.DecodeString(c.TextHex)
		fmt.Printf("replay %+v\n", c)
		d := defByName[c.Name]
		switch {
		case a.Sub == "nohint":
			noHintOne(l, string(b))
		case a.Sub == "alias":
			if d == nil {
				d = defByName["UTF-8"]
			}
			topLevel(l, d, c.Name, string(b))
		case a.Sub == "refuse":
			code, err := qrenc.Encoder_encode(string(b), qrdec.ErrorCorrectionLevel_L, encHints(c.Name))
			fmt.Printf("encode: symbol=%v err=%v\n", code != nil, err)
			if err == nil {
				chk.Violation("C15/refuse/"+keyPart(d.key()), "symbol produced for unrepresentable text", c)
			}
		default:
			roundTrip(l, d, c.Name, string(b), c.Class, "C15/roundtrip/"+keyPart(d.key())+"/"+c.Class)
		}
	case "decode-hint-case":
		var c hintCase
		mc.LoadReplay(chk.ReplayFile(), &c)
		decodeHintCaseOne(l, c)
	case "decode-hint":
		var c hintCase
		mc.LoadReplay(chk.ReplayFile(), &c)
		decodeHintOne(l, c)
	case "legacy":
		var c hintCase
		mc.LoadReplay(chk.ReplayFile(), &c)
		legacyOne(l, c)
	}
}

func main() {
	chk = mc.New("C15", "exploration")
	for _, d := range expectedSets {
		for _, v := range d.values {
			defByValue[v] = d
		}
		for _, n := range d.names {
			defByName[n] = d
		}
	}
	chk.Rule = "one case = (character-set spelling or none, text) for the write->read sub-spaces, (ECI value, designator form) for bit streams, (hint, payload) for decode hints; texts are enumerated from x/text's own tables (every code point that round-trips there); non-trivial = distinct (spelling, text) / (value, form) actually executed on the library; outcomes = distinct (set, segment modes, ECI designator) read back from the symbols"
	chk.Assume("golang.org/x/text codecs are trusted (the library uses the same package): a text is 'representable in cs' iff x/text's encoder for cs accepts it, and the repertoire of cs is every byte sequence that x/text decodes to one rune and encodes back identically")
	chk.Assume("expected registrations = the literal table in this check (ZXing's CharacterSetECI restricted to the sets x/text supports, with the spellings character_set_eci.go declares and the IANA name it adds); names the library holds beyond the table are noted, not reported")
	chk.Assume("'carries the registered ECI designator' is read weakly: any value registered for the hinted set (e.g. 1 or 3 for ISO-8859-1) in front of the first byte segment; symbols without byte segment (numeric, alphanumeric, Kanji mode under Shift_JIS) need no designator because their interpretation does not depend on a character set")
	chk.Assume("GetCharacterSetECIByValue: registered -> entry; unregistered 0..899 -> nil without error (what the code documents); negative or >= 900 -> FormatException. Inside a symbol both unregistered and >= 900 must give a FormatException")
	chk.Assume("which legacy charset an undesignated non-UTF-8 byte string is guessed as is NOT an oracle of the property (DESIGN.md section 7); sub-space (6) only COUNTS how often the rule that common/string_utils.go documents (>= 10 % high Latin-1 punctuation -> Shift_JIS, else ISO-8859-1) is followed; it never reports a violation")
	if chk.ReplayFile() != "" {
		replay()
		chk.Finish()
	}
	runRegistry()
	runECIValues()
	runECIStream()
	runRoundTrips()
	runLongTexts()
	runAliases()
	runRefusals()
	runKanji()
	runNoHint()
	runDecodeHints()
	runDesignatedWithHints()
	runLegacyGuess()
	chk.Finish()
}
