//go:build !verif || blackbox

package main

import "github.com/makiuchi-d/gozxing/common"

// Black-box fallback: the registry maps cannot be enumerated; only the literal table of
// expected registrations (expectedSets in main.go) is checked.
func actualRegistry() (names []string, values []int, ok bool) { return nil, nil, false }

func declared(e *common.CharacterSetECI) (values []int, names []string, ok bool) {
	return nil, nil, false
}
