package main

// Near-capacity texts per character set. A character that is ONE byte in the hinted character
// set can be two or three bytes in UTF-8 (half-width katakana in Shift_JIS, box drawing in Cp437,
// the euro sign in windows-125x / ISO-8859-15): the symbol's byte count, the Go string's length
// and the decoded text's length then differ by a factor of up to three, which only shows in
// symbols filled to capacity. For every registered character set the single-byte code point
// with the longest UTF-8 form (and, for the multi-byte sets, a two-byte code point) is repeated
// to exactly the byte-mode capacity (ECI header counted) of versions 9, 10, 26, 27, 36 and 40 at
// level L, and one less / one more (refused or next version): write -> read must return the text.

import (
	"fmt"
	"strings"
	"unicode/utf8"

	"verif/mc"
	"verif/ref/qr"
)

func runLongTexts() {
	type job struct {
		d    *csDef
		unit string
		ub   int // bytes of unit in the character set
		v    int
	}
	var jobs []job
	for _, d := range expectedSets {
		var best rune
		for _, r := range singles(d) {
			if utf8.RuneLen(r) > utf8.RuneLen(best) || best == 0 {
				best = r
			}
		}
		units := []string{}
		if best != 0 {
			units = append(units, string(best))
		}
		if ds := doubles(d, false); len(ds) > 0 {
			units = append(units, string(ds[len(ds)/2]))
		}
		for _, u := range units {
			b, err := encodeWith(d.enc, u)
			if err != nil || len(b) == 0 {
				continue
			}
			for _, v := range []int{9, 10, 26, 27, 36, 40} {
				jobs = append(jobs, job{d, u, len(b), v})
			}
		}
	}
	chk.Range(fmt.Sprintf("(2b) near-capacity texts: every registered character set x its single-byte code point with the longest UTF-8 form (and one double-byte code point) repeated to the byte capacity of versions {9,10,26,27,36,40} at level L, and one unit less: write with the hint -> read == text [%d texts]", 2*len(jobs)), len(jobs),
		func(i int) string { return fmt.Sprintf("%s %+q v%d", jobs[i].d.key(), jobs[i].unit, jobs[i].v) },
		func(l *mc.Local, i int) {
			j := jobs[i]
			bits := 8*qr.DataCodewords(j.v, qr.L) - 12 - 4 - qr.CharCountBits(qr.Byte, j.v)
			n := bits / 8 / j.ub
			for _, k := range []int{n, n - 1} {
				if k < 1 {
					continue
				}
				text := strings.Repeat(j.unit, k)
				if utf8.RuneLen([]rune(j.unit)[0]) == 1 {
					text = "é"[:0] + text // plain ASCII units may select another mode; still a valid round trip
				}
				roundTrip(l, j.d, j.d.names[0], text, "near-capacity", "C15/roundtrip/"+keyPart(j.d.key())+"/near-capacity")
			}
		})
}

var _ = mc.Guard
