//go:build verif && !blackbox

package main

import "github.com/makiuchi-d/gozxing/common"

// actualRegistry enumerates the library's unexported registry maps through the add-only hook
// /verif/hooks/common/zz_verif_c15.go.
func actualRegistry() (names []string, values []int, ok bool) {
	return common.VerifECINames(), common.VerifECIValues(), true
}

// declared returns the values and names an entry was constructed with.
func declared(e *common.CharacterSetECI) (values []int, names []string, ok bool) {
	v, n := common.VerifECIEntry(e)
	return v, n, true
}
