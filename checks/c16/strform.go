package main

// String form of a matrix as an ARGUMENT product. The history search renders with "X" and "." only;
// ToString / ToStringWithLineSeparator take arbitrary strings for a set cell, a clear cell and the
// line end, and ParseStringToBitMatrix takes the same two cell strings. Every matrix of up to 3x3
// cells (and six larger ones) x every ordered pair of cell strings from a menu holding one-byte,
// multi-byte (one rune, several bytes), multi-rune, empty and mixed-length strings x four line
// separators: the rendering equals the concatenation the documentation describes, String() equals
// ToString("X ", "  "), and where the cell strings can be told apart the text parses back to the
// same matrix.

import (
	"fmt"
	"strings"

	"verif/mc"

	"github.com/makiuchi-d/gozxing"
)

type strCase struct {
	Kind       string // "strform"
	W, H       int
	Bits       uint64 // cell (x,y) is bit y*W+x (small matrices); larger ones use Init
	Init       int
	Set, Unset string
	Sep        string
}

var strCells = []string{"X", ".", " ", "■", "□", "█", "é", "##", "  ", "X ", "■■", "a□", "", "10", "1", " X", "ab", "a", "X\n", ".\n", "#\n#", "1\r"}
var strSeps = []string{"\n", "\r\n", "|", ""}

func strMatrix(c strCase) (*gozxing.BitMatrix, *mmodel) {
	if c.Init >= 0 {
		return initMatrix(c.W, c.H, c.Init)
	}
	r, _ := gozxing.NewBitMatrix(c.W, c.H)
	m := &mmodel{c.W, c.H, make([]bool, c.W*c.H)}
	for i := 0; i < c.W*c.H; i++ {
		if c.Bits>>uint(i)&1 == 1 {
			r.Set(i%c.W, i/c.W)
			m.b[i] = true
		}
	}
	return r, m
}

func strOne(l *mc.Local, c strCase) {
	r, m := strMatrix(c)
	var sb strings.Builder
	for y := 0; y < m.h; y++ {
		for x := 0; x < m.w; x++ {
			if m.b[y*m.w+x] {
				sb.WriteString(c.Set)
			} else {
				sb.WriteString(c.Unset)
			}
		}
		sb.WriteString(c.Sep)
	}
	want := sb.String()
	var got string
	l.Count("evaluations", 1)
	if pm, site := mc.Guard(func() { got = r.ToStringWithLineSeparator(c.Set, c.Unset, c.Sep) }); pm != "" {
		chk.Violation("C16/BitMatrix/panic/"+site+"/strform", fmt.Sprintf("ToStringWithLineSeparator(%q,%q,%q) on a %dx%d matrix panics: %s", c.Set, c.Unset, c.Sep, c.W, c.H, pm), c)
		return
	}
	class := "ascii"
	if len(c.Set) != len([]rune(c.Set)) || len(c.Unset) != len([]rune(c.Unset)) {
		class = "multibyte"
	}
	if len([]rune(c.Set)) != 1 || len([]rune(c.Unset)) != 1 {
		class += "/cells-not-one-character"
	}
	if got != want {
		chk.Violation("C16/BitMatrix/strform/render/"+class, fmt.Sprintf("ToStringWithLineSeparator(%q,%q,%q) on the %dx%d matrix %v = %q, expected %q", c.Set, c.Unset, c.Sep, c.W, c.H, m.b, got, want), c)
		return
	}
	if c.Sep == "\n" {
		if s := r.ToString(c.Set, c.Unset); s != want {
			chk.Violation("C16/BitMatrix/strform/ToString/"+class, fmt.Sprintf("ToString(%q,%q) = %q, expected %q", c.Set, c.Unset, s, want), c)
			return
		}
	}
	if c.Set == "X " && c.Unset == "  " && c.Sep == "\n" {
		if s := r.String(); s != want {
			chk.Violation("C16/BitMatrix/strform/String", fmt.Sprintf("String() = %q, expected %q", s, want), c)
			return
		}
	}
	// parse back where the text is unambiguous: distinct non-empty cell strings, neither a prefix of
	// the other, rows separated by CR / LF (a cell string may CONTAIN a line end behind its first
	// byte: the parser looks for a row end only where a cell starts)
	if c.Set == "" || c.Unset == "" || c.Set == c.Unset || (c.Sep != "\n" && c.Sep != "\r\n") {
		return
	}
	if strings.HasPrefix(c.Set, c.Unset) || strings.HasPrefix(c.Unset, c.Set) {
		// one cell string starts with the other (" X" / " "): the text is still demanded to parse
		// back where every row splits into cell strings in exactly ONE way and the documented
		// order of the parser (the set string is tried first) finds that split
		if strings.ContainsAny(c.Set+c.Unset, "\r\n") || !prefixRowsDecodable(m, c.Set, c.Unset) {
			return
		}
		class += "/one-cell-string-prefix-of-the-other"
		l.Count("prefix_cell_parses", 1)
	}
	var p *gozxing.BitMatrix
	var e error
	if pm, site := mc.Guard(func() { p, e = gozxing.ParseStringToBitMatrix(got, c.Set, c.Unset) }); pm != "" {
		chk.Violation("C16/BitMatrix/panic/"+site+"/strform", fmt.Sprintf("ParseStringToBitMatrix(%q,%q,%q) panics: %s", got, c.Set, c.Unset, pm), c)
		return
	}
	if e != nil || p == nil || p.GetWidth() != m.w || p.GetHeight() != m.h {
		chk.Violation("C16/BitMatrix/strform/parse/"+class, fmt.Sprintf("ParseStringToBitMatrix(ToString(m,%q,%q)) of a %dx%d matrix: error %v", c.Set, c.Unset, c.W, c.H, e), c)
		return
	}
	for y := 0; y < m.h; y++ {
		for x := 0; x < m.w; x++ {
			if p.Get(x, y) != m.b[y*m.w+x] {
				chk.Violation("C16/BitMatrix/strform/parse/"+class, fmt.Sprintf("ParseStringToBitMatrix(ToString(m,%q,%q)): cell (%d,%d) differs", c.Set, c.Unset, x, y), c)
				return
			}
		}
	}
	l.Distinct("nontrivial", fmt.Sprint("strform", c.W, c.H, c.Bits, c.Init, c.Set, c.Unset))
}

func runStringForms() {
	type mx struct {
		w, h, init int
		bits       uint64
	}
	var ms []mx
	for h := 1; h <= 3; h++ {
		for w := 1; w <= 3; w++ {
			for b := uint64(0); b < 1<<uint(w*h); b++ {
				ms = append(ms, mx{w, h, -1, b})
			}
		}
	}
	for _, s := range [][2]int{{33, 2}, {32, 1}, {65, 3}, {1, 40}, {31, 5}, {64, 2}} {
		for _, init := range []int{2, 3} {
			ms = append(ms, mx{s[0], s[1], init, 0})
		}
	}
	chk.Range(fmt.Sprintf("BitMatrix string form, argument product: every matrix up to 3x3 and 12 larger ones (%d matrices) x every ordered pair of cell strings from %d (one-byte, multi-byte single rune, multi-rune, empty, mixed lengths) x line separators {LF, CRLF, '|', empty}: rendering == concatenation, String() == ToString(\"X \",\"  \"), parse round trip where the cell strings are distinguishable", len(ms), len(strCells)), len(ms),
		func(i int) string { return fmt.Sprint(ms[i]) },
		func(l *mc.Local, i int) {
			m := ms[i]
			for _, set := range strCells {
				for _, unset := range strCells {
					for _, sep := range strSeps {
						strOne(l, strCase{"strform", m.w, m.h, m.bits, m.init, set, unset, sep})
					}
				}
			}
		})
	chk.Sample("BitMatrix string form", strCase{"strform", 3, 2, 0x19, -1, "■", "□", "\n"})
}

// prefixRowsDecodable: every row of m, rendered with the two cell strings, has exactly one
// decomposition into cell strings, and trying the set string first at every position finds it.
func prefixRowsDecodable(m *mmodel, set, unset string) bool {
	for y := 0; y < m.h; y++ {
		var sb strings.Builder
		for x := 0; x < m.w; x++ {
			if m.b[y*m.w+x] {
				sb.WriteString(set)
			} else {
				sb.WriteString(unset)
			}
		}
		t := sb.String()
		ways := make([]int, len(t)+1) // decompositions of t[i:], capped at 2
		ways[len(t)] = 1
		for i := len(t) - 1; i >= 0; i-- {
			for _, cell := range []string{set, unset} {
				if strings.HasPrefix(t[i:], cell) {
					ways[i] += ways[i+len(cell)]
				}
			}
			if ways[i] > 2 {
				ways[i] = 2
			}
		}
		if ways[0] != 1 {
			return false
		}
		pos, x := 0, 0
		for pos < len(t) {
			switch {
			case strings.HasPrefix(t[pos:], set):
				if x >= m.w || !m.b[y*m.w+x] {
					return false
				}
				pos += len(set)
			case strings.HasPrefix(t[pos:], unset):
				if x >= m.w || m.b[y*m.w+x] {
					return false
				}
				pos += len(unset)
			default:
				return false
			}
			x++
		}
		if x != m.w {
			return false
		}
	}
	return true
}
