package main

// The image view of a BitMatrix (image.Image: set bit = black, clear bit = white) read in every
// way the standard library reads an image: At, the colour model, the optional fast-path interface
// image.RGBA64Image when the type offers it, image/draw into destinations of 8 and 16 bits per
// channel, and a PNG round trip. Every pixel of every shape is compared with the model.

import (
	"bytes"
	"fmt"
	"image"
	"image/color"
	"image/draw"
	"image/png"

	"verif/mc"

	"github.com/makiuchi-d/gozxing"
)

type viewCase struct {
	Kind       string // "view"
	W, H, Init int
}

func want16(set bool) uint32 {
	if set {
		return 0
	}
	return 0xffff
}

func viewCheck(r *gozxing.BitMatrix, m *mmodel) string {
	var im image.Image = r
	bd := im.Bounds()
	if bd != image.Rect(0, 0, m.w, m.h) {
		return fmt.Sprintf("Bounds=%v, model %v", bd, image.Rect(0, 0, m.w, m.h))
	}
	cm := im.ColorModel()
	fast, hasFast := im.(image.RGBA64Image)
	for y := 0; y < m.h; y++ {
		for x := 0; x < m.w; x++ {
			w := want16(m.b[y*m.w+x])
			c := im.At(x, y)
			if rr, g, b, a := c.RGBA(); rr != w || g != w || b != w || a != 0xffff {
				return fmt.Sprintf("At(%d,%d).RGBA() = %#x,%#x,%#x,%#x, model %#x (opaque)", x, y, rr, g, b, a, w)
			}
			if rr, g, b, a := cm.Convert(c).RGBA(); rr != w || g != w || b != w || a != 0xffff {
				return fmt.Sprintf("ColorModel().Convert(At(%d,%d)) = %#x,%#x,%#x,%#x, model %#x", x, y, rr, g, b, a, w)
			}
			if hasFast {
				if p := fast.RGBA64At(x, y); uint32(p.R) != w || uint32(p.G) != w || uint32(p.B) != w || p.A != 0xffff {
					return fmt.Sprintf("RGBA64At(%d,%d) = %v, model %#x (opaque); At gives the model's colour", x, y, p, w)
				}
			}
		}
	}
	dsts := []draw.Image{image.NewRGBA64(bd), image.NewGray16(bd), image.NewNRGBA64(bd), image.NewRGBA(bd), image.NewGray(bd), image.NewNRGBA(bd)}
	for _, d := range dsts {
		draw.Draw(d, bd, im, image.Point{}, draw.Src)
		for y := 0; y < m.h; y++ {
			for x := 0; x < m.w; x++ {
				w := want16(m.b[y*m.w+x])
				if rr, g, b, a := d.At(x, y).RGBA(); rr != w || g != w || b != w || a != 0xffff {
					return fmt.Sprintf("image/draw copy into %T: pixel (%d,%d) = %#x,%#x,%#x,%#x, model %#x", d, x, y, rr, g, b, a, w)
				}
			}
		}
	}
	var buf bytes.Buffer
	if err := png.Encode(&buf, im); err != nil {
		return "png.Encode of the view: " + err.Error()
	}
	back, err := png.Decode(&buf)
	if err != nil {
		return "png.Decode of the encoded view: " + err.Error()
	}
	if back.Bounds() != bd {
		return fmt.Sprintf("PNG round trip bounds %v", back.Bounds())
	}
	for y := 0; y < m.h; y++ {
		for x := 0; x < m.w; x++ {
			w := want16(m.b[y*m.w+x])
			if rr, g, b, _ := back.At(x, y).RGBA(); rr != w || g != w || b != w {
				return fmt.Sprintf("PNG round trip: pixel (%d,%d) = %#x,%#x,%#x, model %#x", x, y, rr, g, b, w)
			}
		}
	}
	return ""
}

func viewOne(l *mc.Local, c viewCase) {
	r, m := initMatrix(c.W, c.H, c.Init)
	var dis string
	pm, site := mc.Guard(func() { dis = viewCheck(r, m) })
	l.Count("evaluations", 1)
	if pm != "" {
		chk.Violation("C16/BitMatrix/panic/image-view/"+site, fmt.Sprintf("image view of a %dx%d matrix (content %d) panics: %s", c.W, c.H, c.Init, pm), c)
	} else if dis != "" {
		chk.Violation("C16/BitMatrix/image-view", fmt.Sprintf("%dx%d matrix (content %d): %s", c.W, c.H, c.Init, dis), c)
	} else {
		l.Distinct("nontrivial", fmt.Sprint("view", c))
	}
}

func runViews() {
	var cases []viewCase
	for w := 1; w <= 130; w++ {
		for _, h := range []int{1, 2, 3, 8} {
			for init := 0; init < 6; init++ {
				cases = append(cases, viewCase{"view", w, h, init})
			}
		}
	}
	for _, s := range [][2]int{{33, 33}, {64, 64}, {65, 40}, {97, 100}} {
		for init := 0; init < 6; init++ {
			cases = append(cases, viewCase{"view", s[0], s[1], init})
		}
	}
	chk.Range("BitMatrix image view: every width 1..130 x heights {1,2,3,8} (and four shapes with both sides above 32) x 6 contents: EVERY pixel through At, ColorModel, the optional RGBA64At fast path, image/draw into RGBA64 / Gray16 / NRGBA64 / RGBA / Gray / NRGBA, and a PNG round trip", len(cases),
		func(i int) string { return fmt.Sprint(cases[i]) },
		func(l *mc.Local, i int) { viewOne(l, cases[i]) })
	chk.Sample("BitMatrix view", viewCase{"view", 37, 5, 3})
}

var _ = color.Gray{}
