// C16 — BitMatrix / BitArray behave as plain bit containers.
// Explicit-state search: a state is the operation history reaching it; every successor is
// built by replaying the history on a fresh real object and applying one more operation from
// a finite menu to both the real object and a naive []bool model; every query is compared
// after every step; states are deduplicated on the complete observable+hidden content
// (dimensions and raw words including padding).
package main

import (
	"fmt"
	"strings"

	"verif/mc"

	"github.com/makiuchi-d/gozxing"
)

var chk *mc.Check

func main() {
	chk = mc.New("C16", "model_checking")
	chk.Rule = "BFS over operation histories on the real BitMatrix/BitArray with a naive bool-grid model; a state is (dims, raw words); non-trivial = distinct canonical states reached in which at least one bit is set and at least one is clear"
	chk.Assume("operations are called with in-range arguments, as the property states; SetBulk values have no bits beyond the array size; rows given to SetRow have at least the matrix width (a longer row contributes its first `width` bits; shorter rows have no unambiguous model and are not used)")
	if chk.ReplayFile() != "" {
		replay(chk.ReplayFile())
		chk.Finish()
	}
	runMatrix()
	runArgProducts()
	runViews()
	runBoolMaps()
	runStringForms()
	runArray()
	runArrayArgProducts(chk.Pick(2, 4))
	runDirtyOperands()
	runWide()
	chk.Finish()
}

// ---------------------------------------------------------------------------- model: matrix

type mmodel struct {
	w, h int
	b    []bool // row-major
}

func (m *mmodel) get(x, y int) bool {
	if x < 0 || y < 0 || x >= m.w || y >= m.h {
		return false
	}
	return m.b[y*m.w+x]
}

type mop struct {
	name string
	// apply performs the operation on both; returns a description of a disagreement in the
	// immediate return values ("" if none).
	apply func(r *gozxing.BitMatrix, m *mmodel) string
}

func initMatrix(w, h, kind int) (*gozxing.BitMatrix, *mmodel) {
	r, _ := gozxing.NewBitMatrix(w, h)
	m := &mmodel{w, h, make([]bool, w*h)}
	set := func(x, y int) {
		if x >= 0 && x < w && y >= 0 && y < h {
			r.Set(x, y)
			m.b[y*w+x] = true
		}
	}
	switch kind {
	case 0:
	case 1:
		for y := 0; y < h; y++ {
			for x := 0; x < w; x++ {
				set(x, y)
			}
		}
	case 2:
		for y := 0; y < h; y++ {
			for _, x := range []int{0, 31, 32, 63, 64, w - 1} {
				if (x+y)%2 == 0 || y == 0 {
					set(x, y)
				}
			}
		}
	case 3:
		for y := 0; y < h; y++ {
			for x := 0; x < w; x++ {
				if (x+2*y)%3 == 0 {
					set(x, y)
				}
			}
		}
	case 4: // sparse: one bit far right in a low row (whole words before it are empty)
		set(w-1-w/8, 3%h)
	case 5: // sparse: opposite corners plus one bit in the middle
		set(w-1, 0)
		set(0, h-1)
		set(w/2, h/2)
	}
	return r, m
}

func uniq(xs []int, lim int) []int {
	var out []int
	for _, x := range xs {
		if x < 0 || x >= lim {
			continue
		}
		dup := false
		for _, o := range out {
			if o == x {
				dup = true
			}
		}
		if !dup {
			out = append(out, x)
		}
	}
	return out
}

func errStr(e error) string {
	if e == nil {
		return "nil"
	}
	return "err"
}

// matrixMenu returns the operations enabled in a state of the given dimensions.
func matrixMenu(w, h int, full bool) []mop {
	var ops []mop
	xb := 32
	if w <= 32 {
		xb = w / 2
	}
	pts := [][2]int{{0, 0}, {w - 1, h - 1}, {xb, h / 2}}
	if full {
		for _, x := range uniq([]int{31, 63, 64, w - 2}, w) {
			pts = append(pts, [2]int{x, (x / 7) % h})
		}
	}
	seen := map[[2]int]bool{}
	for _, p := range pts {
		if p[0] < 0 || p[0] >= w || p[1] < 0 || p[1] >= h || seen[p] {
			continue
		}
		seen[p] = true
		x, y := p[0], p[1]
		ops = append(ops,
			mop{fmt.Sprintf("Set(%d,%d)", x, y), func(r *gozxing.BitMatrix, m *mmodel) string { r.Set(x, y); m.b[y*m.w+x] = true; return "" }},
			mop{fmt.Sprintf("Unset(%d,%d)", x, y), func(r *gozxing.BitMatrix, m *mmodel) string { r.Unset(x, y); m.b[y*m.w+x] = false; return "" }},
			mop{fmt.Sprintf("Flip(%d,%d)", x, y), func(r *gozxing.BitMatrix, m *mmodel) string {
				r.Flip(x, y)
				m.b[y*m.w+x] = !m.b[y*m.w+x]
				return ""
			}})
	}
	region := func(l, t, rw, rh int) mop {
		return mop{fmt.Sprintf("SetRegion(%d,%d,%d,%d)", l, t, rw, rh), func(r *gozxing.BitMatrix, m *mmodel) string {
			e := r.SetRegion(l, t, rw, rh)
			ok := l >= 0 && t >= 0 && rw >= 1 && rh >= 1 && l+rw <= m.w && t+rh <= m.h
			if ok {
				for y := t; y < t+rh; y++ {
					for x := l; x < l+rw; x++ {
						m.b[y*m.w+x] = true
					}
				}
			}
			if ok != (e == nil) {
				return fmt.Sprintf("SetRegion returned %v, model in-range=%v", e, ok)
			}
			return ""
		}}
	}
	ops = append(ops, region(0, 0, w, h), region(0, h-1, w, 1))
	if w >= 2 {
		ops = append(ops, region(0, 0, w/2, h))
	}
	if xb >= 1 && xb+2 <= w {
		ops = append(ops, region(xb-1, 0, 3, h))
	}
	ops = append(ops, region(1, 0, w, 1), region(-1, 0, 1, 1), region(0, 0, 0, 1), region(0, 1, 1, h))
	ops = append(ops,
		mop{"FlipAll", func(r *gozxing.BitMatrix, m *mmodel) string {
			r.FlipAll()
			for i := range m.b {
				m.b[i] = !m.b[i]
			}
			return ""
		}},
		mop{"Clear", func(r *gozxing.BitMatrix, m *mmodel) string {
			r.Clear()
			for i := range m.b {
				m.b[i] = false
			}
			return ""
		}},
		mop{"Rotate180", func(r *gozxing.BitMatrix, m *mmodel) string {
			r.Rotate180()
			n := make([]bool, len(m.b))
			for y := 0; y < m.h; y++ {
				for x := 0; x < m.w; x++ {
					n[(m.h-1-y)*m.w+(m.w-1-x)] = m.b[y*m.w+x]
				}
			}
			m.b = n
			return ""
		}},
		mop{"Rotate90", func(r *gozxing.BitMatrix, m *mmodel) string {
			// 90 degrees counter-clockwise: (x,y) -> (y, w-1-x); new width = h, new height = w
			r.Rotate90()
			nw, nh := m.h, m.w
			n := make([]bool, len(m.b))
			for y := 0; y < m.h; y++ {
				for x := 0; x < m.w; x++ {
					n[(m.w-1-x)*nw+y] = m.b[y*m.w+x]
				}
			}
			m.w, m.h, m.b = nw, nh, n
			return ""
		}},
	)
	xorOp := func(kind int) mop {
		return mop{fmt.Sprintf("Xor(mask%d)", kind), func(r *gozxing.BitMatrix, m *mmodel) string {
			mr, mm := initMatrix(m.w, m.h, kind)
			e := r.Xor(mr)
			for i := range m.b {
				m.b[i] = m.b[i] != mm.b[i]
			}
			if e != nil {
				return "Xor with an equally sized mask returned " + e.Error()
			}
			return ""
		}}
	}
	ops = append(ops, xorOp(3), xorOp(1))
	ops = append(ops,
		mop{"Xor(self)", func(r *gozxing.BitMatrix, m *mmodel) string {
			// the argument aliases the receiver: x xor x == 0
			e := r.Xor(r)
			for i := range m.b {
				m.b[i] = false
			}
			if e != nil {
				return "Xor(self) returned " + e.Error()
			}
			return ""
		}},
		mop{"Xor(wrong-size)", func(r *gozxing.BitMatrix, m *mmodel) string {
			mr, _ := gozxing.NewBitMatrix(m.w+1, m.h)
			if e := r.Xor(mr); e == nil {
				return "Xor with a differently sized mask returned nil"
			}
			return ""
		}},
		mop{"SetRow(0,reverse(GetRow(0)))", func(r *gozxing.BitMatrix, m *mmodel) string {
			row := r.GetRow(0, nil)
			row.Reverse()
			r.SetRow(0, row)
			for x := 0; x < m.w/2; x++ {
				m.b[x], m.b[m.w-1-x] = m.b[m.w-1-x], m.b[x]
			}
			return ""
		}},
		mop{"SetRow(h-1,GetRow(0))", func(r *gozxing.BitMatrix, m *mmodel) string {
			row := r.GetRow(0, gozxing.NewBitArray(m.w))
			r.SetRow(m.h-1, row)
			copy(m.b[(m.h-1)*m.w:], m.b[:m.w])
			return ""
		}},
	)
	return ops
}

// compareMatrix checks every query against the model; returns the first disagreement.
func compareMatrix(r *gozxing.BitMatrix, m *mmodel) string {
	if r.GetWidth() != m.w || r.GetHeight() != m.h {
		return fmt.Sprintf("dimensions %dx%d, model %dx%d", r.GetWidth(), r.GetHeight(), m.w, m.h)
	}
	l, t, rt, bt := m.w, m.h, -1, -1
	tlx, tly, brx, bry := -1, -1, -1, -1
	for y := 0; y < m.h; y++ {
		for x := 0; x < m.w; x++ {
			v := m.b[y*m.w+x]
			if r.Get(x, y) != v {
				return fmt.Sprintf("Get(%d,%d)=%v, model %v", x, y, !v, v)
			}
			if v {
				if x < l {
					l = x
				}
				if x > rt {
					rt = x
				}
				if y < t {
					t = y
				}
				if y > bt {
					bt = y
				}
				if tlx < 0 {
					tlx, tly = x, y
				}
				brx, bry = x, y
			}
		}
	}
	for _, p := range [][2]int{{-1, 0}, {m.w, 0}, {0, -1}, {0, m.h}, {m.w, m.h - 1}} {
		if r.Get(p[0], p[1]) {
			return fmt.Sprintf("Get(%d,%d) outside the matrix is true", p[0], p[1])
		}
	}
	er := r.GetEnclosingRectangle()
	if rt < 0 {
		if er != nil {
			return fmt.Sprintf("GetEnclosingRectangle=%v on an empty matrix", er)
		}
		if v := r.GetTopLeftOnBit(); v != nil {
			return fmt.Sprintf("GetTopLeftOnBit=%v on an empty matrix", v)
		}
		if v := r.GetBottomRightOnBit(); v != nil {
			return fmt.Sprintf("GetBottomRightOnBit=%v on an empty matrix", v)
		}
	} else {
		want := []int{l, t, rt - l + 1, bt - t + 1}
		if fmt.Sprint(er) != fmt.Sprint(want) {
			return fmt.Sprintf("GetEnclosingRectangle=%v, model %v", er, want)
		}
		if v := r.GetTopLeftOnBit(); fmt.Sprint(v) != fmt.Sprint([]int{tlx, tly}) {
			return fmt.Sprintf("GetTopLeftOnBit=%v, model [%d %d]", v, tlx, tly)
		}
		if v := r.GetBottomRightOnBit(); fmt.Sprint(v) != fmt.Sprint([]int{brx, bry}) {
			return fmt.Sprintf("GetBottomRightOnBit=%v, model [%d %d]", v, brx, bry)
		}
	}
	// rows: into nil, into an exactly sized array, into an oversized dirty array
	over := gozxing.NewBitArray(m.w + 40)
	exact := gozxing.NewBitArray(m.w)
	for y := 0; y < m.h; y++ {
		for variant := 0; variant < 3; variant++ {
			var row *gozxing.BitArray
			switch variant {
			case 0:
				row = r.GetRow(y, nil)
			case 1:
				exact.Set(0)
				exact.Set(m.w - 1)
				row = r.GetRow(y, exact)
			case 2:
				over.Set(m.w + 39)
				over.Set(m.w)
				over.Set(m.w + 1)
				over.Set(0)
				row = r.GetRow(y, over)
			}
			if row == nil || row.GetSize() < m.w {
				return fmt.Sprintf("GetRow(%d) variant %d returned a row shorter than the width", y, variant)
			}
			for x := 0; x < m.w; x++ {
				if row.Get(x) != m.b[y*m.w+x] {
					return fmt.Sprintf("GetRow(%d)[%d]=%v (variant %d), model %v", y, x, row.Get(x), variant, m.b[y*m.w+x])
				}
			}
			// a row array longer than the matrix is wide holds nothing beyond the width
			for x := m.w; x < row.GetSize(); x++ {
				if row.Get(x) {
					return fmt.Sprintf("GetRow(%d) into a longer array (variant %d) leaves bit %d set beyond the width %d", y, variant, x, m.w)
				}
			}
			if ns := row.GetNextSet(m.w); ns != row.GetSize() {
				return fmt.Sprintf("GetRow(%d) (variant %d): GetNextSet(width)=%d, row size %d", y, variant, ns, row.GetSize())
			}
			// next set bit inside the row, restricted to the width
			if variant == 0 {
				ns := row.GetNextSet(0)
				want := m.w
				for x := 0; x < m.w; x++ {
					if m.b[y*m.w+x] {
						want = x
						break
					}
				}
				if ns < m.w && ns != want || ns >= m.w && want != m.w {
					return fmt.Sprintf("GetRow(%d).GetNextSet(0)=%d, model %d", y, ns, want)
				}
			}
		}
	}
	// string form and parse round trip
	s := r.ToString("X", ".")
	var sb strings.Builder
	for y := 0; y < m.h; y++ {
		for x := 0; x < m.w; x++ {
			if m.b[y*m.w+x] {
				sb.WriteByte('X')
			} else {
				sb.WriteByte('.')
			}
		}
		sb.WriteByte('\n')
	}
	if s != sb.String() {
		return "ToString differs from the model's rendering"
	}
	p, e := gozxing.ParseStringToBitMatrix(s, "X", ".")
	if e != nil || p.GetWidth() != m.w || p.GetHeight() != m.h {
		return fmt.Sprintf("Parse(ToString(m)) failed: %v", e)
	}
	for y := 0; y < m.h; y++ {
		for x := 0; x < m.w; x++ {
			if p.Get(x, y) != m.b[y*m.w+x] {
				return fmt.Sprintf("Parse(ToString(m)).Get(%d,%d) differs", x, y)
			}
		}
	}
	// image view
	bd := r.Bounds()
	if bd.Min.X != 0 || bd.Min.Y != 0 || bd.Max.X != m.w || bd.Max.Y != m.h {
		return fmt.Sprintf("Bounds=%v", bd)
	}
	for _, pt := range [][2]int{{0, 0}, {m.w - 1, m.h - 1}, {m.w / 2, m.h / 2}, {tlx, tly}, {brx, bry}} {
		if pt[0] < 0 {
			continue
		}
		c, g, b, a := r.At(pt[0], pt[1]).RGBA()
		if w := want16(m.b[pt[1]*m.w+pt[0]]); c != w || g != w || b != w || a != 0xffff {
			return fmt.Sprintf("At(%d,%d) colour %#x,%#x,%#x,%#x disagrees with the bit (model %#x, opaque)", pt[0], pt[1], c, g, b, a, w)
		}
	}
	return ""
}

func matrixKey(r *gozxing.BitMatrix) string {
	var sb strings.Builder
	fmt.Fprintf(&sb, "%d,%d", r.GetWidth(), r.GetHeight())
	for y := 0; y < r.GetHeight(); y++ {
		for _, wd := range r.GetRow(y, nil).GetBitArray() {
			fmt.Fprintf(&sb, ",%x", wd)
		}
	}
	return sb.String()
}

type mcase struct {
	W, H, Init int
	Ops        []string
}

func matrixClass(op string, w int) string {
	name := op
	if i := strings.Index(name, "("); i > 0 {
		name = name[:i]
	}
	cls := "w%32!=0"
	if w%32 == 0 {
		cls = "w%32==0"
	}
	return name + "/" + cls
}

// replayMatrix rebuilds the state reached by hist; returns nil,nil,msg on divergence.
func replayMatrix(w, h, init int, hist []string, full bool) (*gozxing.BitMatrix, *mmodel, string, string) {
	r, m := initMatrix(w, h, init)
	for _, name := range hist {
		var found *mop
		menu := matrixMenu(m.w, m.h, full)
		for i := range menu {
			if menu[i].name == name {
				found = &menu[i]
				break
			}
		}
		if found == nil {
			return nil, nil, "replay: operation " + name + " not in menu", name
		}
		if d := found.apply(r, m); d != "" {
			return r, m, d, name
		}
	}
	return r, m, "", ""
}

func searchMatrix(l *mc.Local, w, h, init, depth int, full bool, stateCap int) {
	type node struct{ hist []string }
	seen := map[string]bool{}
	r0, m0 := initMatrix(w, h, init)
	if d := compareMatrix(r0, m0); d != "" {
		chk.Violation("C16/BitMatrix/init/"+matrixClass("init", w), d, mcase{w, h, init, nil})
		return
	}
	seen[matrixKey(r0)] = true
	frontier := []node{{nil}}
	l.Count("states", 1)
	for d := 0; d < depth && len(frontier) > 0; d++ {
		var next []node
		for _, nd := range frontier {
			_, mcur, _, _ := replayMatrix(w, h, init, nd.hist, full)
			menu := matrixMenu(mcur.w, mcur.h, full)
			for _, op := range menu {
				l.Beat("")
				r, m, msg, _ := replayMatrix(w, h, init, nd.hist, full)
				if msg != "" {
					continue // already reported when first reached
				}
				hist := append(append([]string{}, nd.hist...), op.name)
				var dis string
				pmsg, site := mc.Guard(func() {
					dis = op.apply(r, m)
					if dis == "" {
						dis = compareMatrix(r, m)
					}
				})
				l.Count("transitions", 1)
				l.Count("evaluations", 1)
				if pmsg != "" {
					chk.Violation("C16/BitMatrix/panic/"+site+"/"+matrixClass(op.name, mcur.w), fmt.Sprintf("panic %s after %v on %dx%d init %d", pmsg, hist, w, h, init), mcase{w, h, init, hist})
					continue
				}
				if dis != "" {
					chk.Violation("C16/BitMatrix/"+matrixClass(op.name, mcur.w), fmt.Sprintf("%s after %v on %dx%d init %d", dis, hist, w, h, init), mcase{w, h, init, hist})
					continue
				}
				k := matrixKey(r)
				if seen[k] {
					continue
				}
				seen[k] = true
				l.Count("states", 1)
				any, all := false, true
				for _, v := range m.b {
					any = any || v
					all = all && v
				}
				if any && !all {
					l.Distinct("nontrivial", "M"+k)
				}
				if len(seen) < stateCap {
					next = append(next, node{hist})
				} else {
					l.Count("state_cap_hits", 1)
				}
			}
		}
		frontier = next
	}
}

func runMatrix() {
	type shape struct{ w, h, init int }
	var shapes []shape
	for w := 1; w <= 130; w++ {
		for h := 1; h <= 8; h++ {
			for init := 0; init < 5; init++ {
				shapes = append(shapes, shape{w, h, init})
			}
		}
	}
	depth := chk.Pick(2, 3)
	chk.Range(fmt.Sprintf("BitMatrix all widths 1..130 x heights 1..8 x 5 contents, depth %d", depth), len(shapes),
		func(i int) string { return fmt.Sprint(shapes[i]) },
		func(l *mc.Local, i int) {
			s := shapes[i]
			searchMatrix(l, s.w, s.h, s.init, depth, false, 1<<30)
		})
	chk.Sample("BitMatrix history", mcase{64, 3, 2, []string{"FlipAll", "Rotate180", "Set(32,1)"}})
	// shapes with BOTH sides above one word (rows and columns of several words), incl. sparse contents
	var big []shape
	for _, w := range []int{33, 40, 64, 65, 97} {
		for _, h := range []int{33, 40, 64, 65, 100} {
			for init := 0; init < 6; init++ {
				big = append(big, shape{w, h, init})
			}
		}
	}
	bd := chk.Pick(2, 3)
	chk.Range(fmt.Sprintf("BitMatrix with both sides above 32: widths {33,40,64,65,97} x heights {33,40,64,65,100} x 6 contents (incl. sparse: single far bit, opposite corners), depth %d", bd), len(big),
		func(i int) string { return fmt.Sprint(big[i]) },
		func(l *mc.Local, i int) {
			s := big[i]
			searchMatrix(l, s.w, s.h, s.init, bd, false, 1<<30)
		})
	// size ladder: fast paths chosen by a size threshold sit at powers of two; every operation once
	var lad []shape
	for _, wh := range [][2]int{{255, 257}, {256, 256}, {257, 255}, {1025, 2}, {2, 1025}, {512, 33}} {
		for _, init := range []int{2, 3, 5} {
			lad = append(lad, shape{wh[0], wh[1], init})
		}
	}
	ld := chk.Pick(1, 2)
	chk.Range(fmt.Sprintf("BitMatrix size ladder {255x257,256x256,257x255,1025x2,2x1025,512x33} x 3 contents, every operation of the menu, depth %d", ld), len(lad),
		func(i int) string { return fmt.Sprint(lad[i]) },
		func(l *mc.Local, i int) {
			s := lad[i]
			searchMatrix(l, s.w, s.h, s.init, ld, false, 1<<30)
		})
	// deep search around the word boundaries, full menu
	var deep []shape
	for _, w := range []int{31, 32, 33, 63, 64, 65, 96, 128} {
		for _, h := range []int{1, 2, 3} {
			for _, init := range []int{0, 2} {
				deep = append(deep, shape{w, h, init})
			}
		}
	}
	dd := chk.Pick(3, 6)
	cap := chk.Pick(3000, 40000)
	chk.Range(fmt.Sprintf("BitMatrix word-boundary shapes {31,32,33,63,64,65,96,128}x{1,2,3}, full menu, depth %d, state cap %d per root", dd, cap), len(deep),
		func(i int) string { return fmt.Sprint(deep[i]) },
		func(l *mc.Local, i int) {
			s := deep[i]
			searchMatrix(l, s.w, s.h, s.init, dd, true, cap)
		})
}

// ---------------------------------------------------------------------------- model: array

type amodel struct{ b []bool }

type aop struct {
	name  string
	apply func(r *gozxing.BitArray, m *amodel) string
}

func initArray(size, kind int) (*gozxing.BitArray, *amodel) {
	var r *gozxing.BitArray
	if kind == 4 {
		r = gozxing.NewEmptyBitArray()
		return r, &amodel{}
	}
	r = gozxing.NewBitArray(size)
	m := &amodel{make([]bool, size)}
	for i := 0; i < size; i++ {
		v := false
		switch kind {
		case 1:
			v = true
		case 2:
			v = i == 0 || i == 31 || i == 32 || i == 63 || i == 64 || i == size-1
		case 3:
			v = i%3 == 0
		}
		if v {
			r.Set(i)
			m.b[i] = true
		}
	}
	return r, m
}

func arrayMenu(size int) []aop {
	var ops []aop
	for _, i := range uniq([]int{0, size - 1, 31, 32, 64}, size) {
		i := i
		ops = append(ops,
			aop{fmt.Sprintf("Set(%d)", i), func(r *gozxing.BitArray, m *amodel) string { r.Set(i); m.b[i] = true; return "" }},
			aop{fmt.Sprintf("Flip(%d)", i), func(r *gozxing.BitArray, m *amodel) string { r.Flip(i); m.b[i] = !m.b[i]; return "" }})
	}
	for _, i := range uniq([]int{0, 32}, size) {
		i := i
		ops = append(ops, aop{fmt.Sprintf("SetBulk(%d,pattern)", i), func(r *gozxing.BitArray, m *amodel) string {
			v := uint32(0xA5C3F00F)
			n := len(m.b) - i
			if n < 32 {
				v &= (uint32(1) << uint(n)) - 1
			}
			r.SetBulk(i, v)
			for k := 0; k < 32 && i+k < len(m.b); k++ {
				m.b[i+k] = v&(1<<uint(k)) != 0
			}
			return ""
		}})
	}
	rng := func(s, e int) aop {
		return aop{fmt.Sprintf("SetRange(%d,%d)", s, e), func(r *gozxing.BitArray, m *amodel) string {
			err := r.SetRange(s, e)
			ok := s >= 0 && e >= s && e <= len(m.b)
			if ok {
				for k := s; k < e; k++ {
					m.b[k] = true
				}
			}
			if ok != (err == nil) {
				return fmt.Sprintf("SetRange(%d,%d) returned %v, model in-range=%v", s, e, err, ok)
			}
			return ""
		}}
	}
	ops = append(ops, rng(0, size), rng(size/2, size), rng(0, 0), rng(0, size+1), rng(-1, size), rng(1, 0))
	if size > 33 {
		ops = append(ops, rng(31, 33), rng(1, size-1))
	}
	ops = append(ops,
		aop{"AppendBit(true)", func(r *gozxing.BitArray, m *amodel) string { r.AppendBit(true); m.b = append(m.b, true); return "" }},
		aop{"AppendBit(false)", func(r *gozxing.BitArray, m *amodel) string { r.AppendBit(false); m.b = append(m.b, false); return "" }})
	for _, n := range []int{0, 1, 7, 8, 31, 32, 33, -1} {
		n := n
		ops = append(ops, aop{fmt.Sprintf("AppendBits(0x9A5C33F1,%d)", n), func(r *gozxing.BitArray, m *amodel) string {
			v := 0x9A5C33F1
			err := r.AppendBits(v, n)
			ok := n >= 0 && n <= 32
			if ok {
				for k := n - 1; k >= 0; k-- {
					m.b = append(m.b, v&(1<<uint(k)) != 0)
				}
			}
			if ok != (err == nil) {
				return fmt.Sprintf("AppendBits(_,%d) returned %v", n, err)
			}
			return ""
		}})
	}
	for _, n := range []int{0, 1, 33} {
		n := n
		ops = append(ops, aop{fmt.Sprintf("AppendBitArray(alt%d)", n), func(r *gozxing.BitArray, m *amodel) string {
			o, om := initArray(n, 3)
			r.AppendBitArray(o)
			m.b = append(m.b, om.b...)
			return ""
		}})
	}
	ops = append(ops,
		aop{"Xor(alt)", func(r *gozxing.BitArray, m *amodel) string {
			o, om := initArray(len(m.b), 3)
			err := r.Xor(o)
			for k := range m.b {
				m.b[k] = m.b[k] != om.b[k]
			}
			if err != nil {
				return "Xor with an equally sized array returned " + err.Error()
			}
			return ""
		}},
		aop{"Xor(self)", func(r *gozxing.BitArray, m *amodel) string {
			err := r.Xor(r)
			for k := range m.b {
				m.b[k] = false
			}
			if err != nil {
				return "Xor(self) returned " + err.Error()
			}
			return ""
		}},
		aop{"AppendBitArray(self)", func(r *gozxing.BitArray, m *amodel) string {
			// the argument aliases the receiver: the array is doubled
			r.AppendBitArray(r)
			m.b = append(m.b, append([]bool{}, m.b...)...)
			return ""
		}},
		aop{"Xor(wrong-size)", func(r *gozxing.BitArray, m *amodel) string {
			o := gozxing.NewBitArray(len(m.b) + 1)
			if err := r.Xor(o); err == nil {
				return "Xor with a differently sized array returned nil"
			}
			return ""
		}},
		aop{"Reverse", func(r *gozxing.BitArray, m *amodel) string {
			r.Reverse()
			for a, b := 0, len(m.b)-1; a < b; a, b = a+1, b-1 {
				m.b[a], m.b[b] = m.b[b], m.b[a]
			}
			return ""
		}},
		aop{"Clear", func(r *gozxing.BitArray, m *amodel) string {
			r.Clear()
			for k := range m.b {
				m.b[k] = false
			}
			return ""
		}})
	return ops
}

func compareArray(r *gozxing.BitArray, m *amodel) string {
	n := len(m.b)
	if r.GetSize() != n {
		return fmt.Sprintf("GetSize=%d, model %d", r.GetSize(), n)
	}
	if r.GetSizeInBytes() != (n+7)/8 {
		return fmt.Sprintf("GetSizeInBytes=%d for size %d", r.GetSizeInBytes(), n)
	}
	for i := 0; i < n; i++ {
		if r.Get(i) != m.b[i] {
			return fmt.Sprintf("Get(%d)=%v, model %v", i, r.Get(i), m.b[i])
		}
	}
	// next set / unset from every index, incl. size and size+1
	ns, nu := n, n
	wantS := make([]int, n+1)
	wantU := make([]int, n+1)
	wantS[n], wantU[n] = n, n
	for i := n - 1; i >= 0; i-- {
		if m.b[i] {
			ns = i
		} else {
			nu = i
		}
		wantS[i], wantU[i] = ns, nu
	}
	for i := 0; i <= n; i++ {
		if g := r.GetNextSet(i); g != wantS[i] {
			return fmt.Sprintf("GetNextSet(%d)=%d, model %d", i, g, wantS[i])
		}
		if g := r.GetNextUnset(i); g != wantU[i] {
			return fmt.Sprintf("GetNextUnset(%d)=%d, model %d", i, g, wantU[i])
		}
	}
	if r.GetNextSet(n+5) != n || r.GetNextUnset(n+5) != n {
		return "GetNextSet/GetNextUnset beyond the size does not return the size"
	}
	// positions far beyond the size, among them ones that look like a position inside once cut to
	// 16 / 31 / 32 / 33 bits
	const maxInt = int(^uint(0) >> 1)
	for _, far := range []int{n + 1, n + 31, n + 32, n + 33, 1 << 16, 1<<16 + n/2, 1 << 31, 1<<31 + n/2, 1 << 32, 1<<32 + 1, 1<<32 + n/2, 1<<32 + n - 1, 1<<33 + n/2, maxInt - 31, maxInt} {
		if far <= n {
			continue
		}
		if g := r.GetNextSet(far); g != n {
			return fmt.Sprintf("GetNextSet(%d)=%d on an array of %d bits, expected the size", far, g, n)
		}
		if g := r.GetNextUnset(far); g != n {
			return fmt.Sprintf("GetNextUnset(%d)=%d on an array of %d bits, expected the size", far, g, n)
		}
		if _, err := r.IsRange(0, far, false); err == nil {
			return fmt.Sprintf("IsRange(0,%d) on an array of %d bits returned no error", far, n)
		}
		if far > 1<<30 {
			if _, err := r.IsRange(far-1, far, true); err == nil {
				return fmt.Sprintf("IsRange(%d,%d) on an array of %d bits returned no error", far-1, far, n)
			}
		}
	}
	// IsRange over boundary ranges
	cands := uniq([]int{0, 1, 31, 32, 33, 63, 64, n / 2, n - 1, n}, n+1)
	for _, s := range cands {
		for _, e := range cands {
			for _, val := range []bool{false, true} {
				got, err := r.IsRange(s, e, val)
				ok := e >= s
				if ok != (err == nil) {
					return fmt.Sprintf("IsRange(%d,%d) error=%v", s, e, err)
				}
				if !ok {
					continue
				}
				want := true
				for k := s; k < e; k++ {
					if m.b[k] != val {
						want = false
					}
				}
				if got != want {
					return fmt.Sprintf("IsRange(%d,%d,%v)=%v, model %v", s, e, val, got, want)
				}
			}
		}
	}
	if _, err := r.IsRange(0, n+1, true); err == nil {
		return "IsRange past the end returned no error"
	}
	if _, err := r.IsRange(-1, n, true); err == nil {
		return "IsRange from -1 returned no error"
	}
	// ToBytes of every whole byte, from offsets 0 and (if possible) 3
	for _, off := range []int{0, 3} {
		nb := (n - off) / 8
		if nb <= 0 {
			continue
		}
		buf := make([]byte, nb+2)
		r.ToBytes(off, buf, 1, nb)
		for k := 0; k < nb; k++ {
			var want byte
			for j := 0; j < 8; j++ {
				if m.b[off+k*8+j] {
					want |= 1 << uint(7-j)
				}
			}
			if buf[1+k] != want {
				return fmt.Sprintf("ToBytes(%d,...)[%d]=%02x, model %02x", off, k, buf[1+k], want)
			}
		}
		if buf[0] != 0 || buf[nb+1] != 0 {
			return "ToBytes wrote outside the requested byte range"
		}
	}
	// string form
	var sb strings.Builder
	for i := 0; i < n; i++ {
		if i%8 == 0 {
			sb.WriteByte(' ')
		}
		if m.b[i] {
			sb.WriteByte('X')
		} else {
			sb.WriteByte('.')
		}
	}
	if r.String() != sb.String() {
		return "String() differs from the model's rendering"
	}
	return ""
}

func arrayKey(r *gozxing.BitArray) string {
	var sb strings.Builder
	fmt.Fprintf(&sb, "%d", r.GetSize())
	for _, wd := range r.GetBitArray() {
		fmt.Fprintf(&sb, ",%x", wd)
	}
	return sb.String()
}

type acase struct {
	Size, Init int
	Ops        []string
}

func arrayClass(op string, size int) string {
	name := op
	if i := strings.Index(name, "("); i > 0 {
		name = name[:i]
	}
	cls := "size%32!=0"
	if size == 0 {
		cls = "size==0"
	} else if size%32 == 0 {
		cls = "size%32==0"
	}
	return name + "/" + cls
}

func replayArray(size, init int, hist []string) (*gozxing.BitArray, *amodel, string) {
	r, m := initArray(size, init)
	for _, name := range hist {
		var found *aop
		menu := arrayMenu(len(m.b))
		for i := range menu {
			if menu[i].name == name {
				found = &menu[i]
			}
		}
		if found == nil {
			return nil, nil, "replay: operation " + name + " not in menu"
		}
		if d := found.apply(r, m); d != "" {
			return r, m, d
		}
	}
	return r, m, ""
}

func searchArray(l *mc.Local, size, init, depth, stateCap int) {
	seen := map[string]bool{}
	r0, m0 := initArray(size, init)
	if pm, site := mc.Guard(func() {
		if d := compareArray(r0, m0); d != "" {
			chk.Violation("C16/BitArray/init/"+arrayClass("init", size), d, acase{size, init, nil})
		}
	}); pm != "" {
		chk.Violation("C16/BitArray/panic/"+site+"/"+arrayClass("init", size), pm, acase{size, init, nil})
		return
	}
	seen[arrayKey(r0)] = true
	l.Count("states", 1)
	frontier := [][]string{nil}
	for d := 0; d < depth && len(frontier) > 0; d++ {
		var next [][]string
		for _, h := range frontier {
			_, mcur, _ := replayArray(size, init, h)
			curSize := len(mcur.b)
			for _, op := range arrayMenu(curSize) {
				l.Beat("")
				r, m, msg := replayArray(size, init, h)
				if msg != "" {
					continue
				}
				hist := append(append([]string{}, h...), op.name)
				var dis string
				pmsg, site := mc.Guard(func() {
					dis = op.apply(r, m)
					if dis == "" {
						dis = compareArray(r, m)
					}
				})
				l.Count("transitions", 1)
				l.Count("evaluations", 1)
				if pmsg != "" {
					chk.Violation("C16/BitArray/panic/"+site+"/"+arrayClass(op.name, curSize), fmt.Sprintf("panic %s after %v on size %d init %d", pmsg, hist, size, init), acase{size, init, hist})
					continue
				}
				if dis != "" {
					chk.Violation("C16/BitArray/"+arrayClass(op.name, curSize), fmt.Sprintf("%s after %v on size %d init %d", dis, hist, size, init), acase{size, init, hist})
					continue
				}
				k := arrayKey(r)
				if seen[k] {
					continue
				}
				seen[k] = true
				l.Count("states", 1)
				any, all := false, true
				for _, v := range m.b {
					any = any || v
					all = all && v
				}
				if any && !all {
					l.Distinct("nontrivial", "A"+k)
				}
				if len(seen) < stateCap {
					next = append(next, hist)
				} else {
					l.Count("state_cap_hits", 1)
				}
			}
		}
		frontier = next
	}
}

func runArray() {
	type root struct{ size, init int }
	var roots []root
	for size := 0; size <= 200; size++ {
		for init := 0; init < 4; init++ {
			if size == 0 && init > 0 {
				continue
			}
			roots = append(roots, root{size, init})
		}
	}
	roots = append(roots, root{0, 4}) // NewEmptyBitArray
	for _, size := range []int{255, 256, 257, 511, 512, 1000, 1023, 1024, 1025, 4096} {
		roots = append(roots, root{size, 2}, root{size, 3})
	}
	depth := chk.Pick(2, 3)
	chk.Range(fmt.Sprintf("BitArray all sizes 0..200 x 4 contents (+NewEmptyBitArray, + sizes {255..257,511,512,1000,1023..1025,4096} x 2 contents), depth %d", depth), len(roots),
		func(i int) string { return fmt.Sprint(roots[i]) },
		func(l *mc.Local, i int) { searchArray(l, roots[i].size, roots[i].init, depth, 1<<30) })
	var deep []root
	for _, s := range []int{0, 1, 31, 32, 33, 64, 65} {
		deep = append(deep, root{s, 2})
	}
	deep = append(deep, root{0, 4})
	dd := chk.Pick(3, 5)
	cap := chk.Pick(3000, 30000)
	chk.Range(fmt.Sprintf("BitArray word-boundary sizes, depth %d, state cap %d per root", dd, cap), len(deep),
		func(i int) string { return fmt.Sprint(deep[i]) },
		func(l *mc.Local, i int) { searchArray(l, deep[i].size, deep[i].init, dd, cap) })
	chk.Sample("BitArray history", acase{32, 2, []string{"AppendBits(0x9A5C33F1,7)", "Reverse", "Xor(alt)"}})
}

// ---------------------------------------------------------------------------- replay

func replay(path string) {
	var raw map[string]interface{}
	if err := mc.LoadReplay(path, &raw); err != nil {
		fmt.Println("cannot load replay:", err)
		return
	}
	if k, _ := raw["Kind"].(string); k == "args" {
		var c argcase
		mc.LoadReplay(path, &c)
		argOne(chk.NewLocal(), c)
		fmt.Printf("replay %s%v on %dx%d content %d\n", c.Op, c.Args, c.W, c.H, c.Init)
		chk.Count("evaluations", 1)
		return
	} else if k == "dirty-operand" {
		var c dirtyCase
		mc.LoadReplay(path, &c)
		dirtyOne(chk.NewLocal(), c)
		fmt.Printf("replay %+v\n", c)
		return
	} else if k == "wide" {
		var c wideCase
		mc.LoadReplay(path, &c)
		wideOne(chk.NewLocal(), c)
		fmt.Printf("replay %+v\n", c)
		return
	} else if k == "strform" {
		var c strCase
		mc.LoadReplay(path, &c)
		strOne(chk.NewLocal(), c)
		fmt.Printf("replay string form %+v\n", c)
		return
	} else if k == "boolmap" {
		var c boolMapCase
		mc.LoadReplay(path, &c)
		boolMapOne(chk.NewLocal(), c)
		fmt.Printf("replay ParseBoolMap %+v\n", c)
		return
	} else if k == "view" {
		var c viewCase
		mc.LoadReplay(path, &c)
		viewOne(chk.NewLocal(), c)
		fmt.Printf("replay image view %dx%d content %d\n", c.W, c.H, c.Init)
		return
	} else if k == "array-args" {
		var c aargcase
		mc.LoadReplay(path, &c)
		aargOne(chk.NewLocal(), c)
		fmt.Printf("replay BitArray %s%v size %d content %d\n", c.Op, c.Args, c.Size, c.Init)
		chk.Count("evaluations", 1)
		return
	}
	if _, ok := raw["W"]; ok {
		var c mcase
		mc.LoadReplay(path, &c)
		var dis string
		pm, site := mc.Guard(func() {
			r, m, msg, _ := replayMatrix(c.W, c.H, c.Init, c.Ops, true)
			dis = msg
			if dis == "" && r != nil {
				dis = compareMatrix(r, m)
			}
		})
		fmt.Printf("replay BitMatrix %dx%d init=%d ops=%v -> disagreement=%q panic=%q %s\n", c.W, c.H, c.Init, c.Ops, dis, pm, site)
		if dis != "" || pm != "" {
			chk.Violation("C16/replay", dis+pm, c)
		}
		chk.Count("evaluations", 1)
		return
	}
	var c acase
	mc.LoadReplay(path, &c)
	var dis string
	pm, site := mc.Guard(func() {
		r, m, msg := replayArray(c.Size, c.Init, c.Ops)
		dis = msg
		if dis == "" && r != nil {
			dis = compareArray(r, m)
		}
	})
	fmt.Printf("replay BitArray size=%d init=%d ops=%v -> disagreement=%q panic=%q %s\n", c.Size, c.Init, c.Ops, dis, pm, site)
	if dis != "" || pm != "" {
		chk.Violation("C16/replay", dis+pm, c)
	}
	chk.Count("evaluations", 1)
}
