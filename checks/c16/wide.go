package main

// Very wide and very long containers. Word-wise fast paths work in blocks (a table of 256 words, a
// 64 KiB buffer, a 16-bit word count): the block boundaries lie at 2^13, 2^16 and 2^21 BITS, far
// beyond the sizes of the history search. For matrix widths and array sizes around those marks the
// range operations (SetRegion, SetRange, IsRange, AppendBits/AppendBitArray, Reverse, Xor, Rotate180,
// FlipAll, GetEnclosingRectangle, GetNextSet/Unset) are run with ranges that start and end at and
// beside word and block boundaries, and compared with the bool model.

import (
	"fmt"

	"verif/mc"

	"github.com/makiuchi-d/gozxing"
)

type wideCase struct {
	Kind        string // "wide"
	What        string
	Size        int
	Start, Stop int
}

func wideOne(l *mc.Local, c wideCase) {
	l.Count("evaluations", 1)
	bad := func(what string) {
		chk.Violation("C16/wide/"+c.What, fmt.Sprintf("%s on size %d, range [%d,%d): %s", c.What, c.Size, c.Start, c.Stop, what), c)
	}
	pm, site := mc.Guard(func() {
		switch c.What {
		case "BitMatrix.SetRegion":
			r, _ := gozxing.NewBitMatrix(c.Size, 3)
			m := &mmodel{c.Size, 3, make([]bool, c.Size*3)}
			if e := r.SetRegion(c.Start, 1, c.Stop-c.Start, 1); e != nil {
				bad("refused: " + e.Error())
				return
			}
			for x := c.Start; x < c.Stop; x++ {
				m.b[c.Size+x] = true
			}
			if d := lightMatrix(r, m); d != "" {
				bad(d)
				return
			}
			if er := r.GetEnclosingRectangle(); len(er) != 4 || er[0] != c.Start || er[1] != 1 || er[2] != c.Stop-c.Start || er[3] != 1 {
				bad(fmt.Sprint("GetEnclosingRectangle = ", er))
				return
			}
			r.Rotate180()
			r.FlipAll()
			for i := range m.b {
				m.b[i] = !m.b[i]
			}
			for y := 0; y < 3/2+1; y++ { // rotate the model by 180 degrees
				for x := 0; x < c.Size; x++ {
					i, j := y*c.Size+x, (2-y)*c.Size+(c.Size-1-x)
					if i < j {
						m.b[i], m.b[j] = m.b[j], m.b[i]
					}
				}
			}
			if d := lightMatrix(r, m); d != "" {
				bad("after Rotate180 and FlipAll: " + d)
			}
		case "BitMatrix.Tall/w=3", "BitMatrix.Tall/w=33":
			// Size is the HEIGHT here; the region covers rows [Start, Stop) and columns 1..w-2
			w := 3
			if c.What == "BitMatrix.Tall/w=33" {
				w = 33
			}
			h := c.Size
			r, _ := gozxing.NewBitMatrix(w, h)
			m := &mmodel{w, h, make([]bool, w*h)}
			if e := r.SetRegion(1, c.Start, w-2, c.Stop-c.Start); e != nil {
				bad("refused: " + e.Error())
				return
			}
			for y := c.Start; y < c.Stop; y++ {
				for x := 1; x < w-1; x++ {
					m.b[y*w+x] = true
				}
			}
			if d := lightMatrix(r, m); d != "" {
				bad(d)
				return
			}
			if er := r.GetEnclosingRectangle(); len(er) != 4 || er[0] != 1 || er[1] != c.Start || er[2] != w-2 || er[3] != c.Stop-c.Start {
				bad(fmt.Sprint("GetEnclosingRectangle = ", er))
				return
			}
			if tl := r.GetTopLeftOnBit(); len(tl) != 2 || tl[0] != 1 || tl[1] != c.Start {
				bad(fmt.Sprint("GetTopLeftOnBit = ", tl))
				return
			}
			if br := r.GetBottomRightOnBit(); len(br) != 2 || br[0] != w-2 || br[1] != c.Stop-1 {
				bad(fmt.Sprint("GetBottomRightOnBit = ", br))
				return
			}
			for _, y := range []int{c.Start, c.Stop - 1, h - 1} {
				row := r.GetRow(y, nil)
				for x := 0; x < w; x++ {
					if row.Get(x) != m.b[y*w+x] {
						bad(fmt.Sprintf("GetRow(%d)[%d] = %v", y, x, row.Get(x)))
						return
					}
				}
			}
			r.Rotate180()
			rot := &mmodel{w, h, make([]bool, w*h)}
			for y := 0; y < h; y++ {
				for x := 0; x < w; x++ {
					rot.b[(h-1-y)*w+(w-1-x)] = m.b[y*w+x]
				}
			}
			if d := lightMatrix(r, rot); d != "" {
				bad("after Rotate180: " + d)
				return
			}
			r.Rotate90() // counter-clockwise: the matrix becomes h wide and w tall
			if r.GetWidth() != h || r.GetHeight() != w {
				bad(fmt.Sprintf("after Rotate90 the matrix is %dx%d", r.GetWidth(), r.GetHeight()))
				return
			}
			for y := 0; y < h; y += 1 + h/997 {
				for x := 0; x < w; x++ {
					// new(x', y') = old(y', h... ) : Rotate90 maps old (x, y) to (y, w-1-x)
					if r.Get(y, w-1-x) != rot.b[y*w+x] {
						bad(fmt.Sprintf("after Rotate90: cell (%d,%d) differs", y, w-1-x))
						return
					}
				}
			}
		case "BitMatrix.Xor":
			// Size is the WIDTH; heights 3; row y of the mask is handed to Xor as the BitArray the API takes
			// (BitMatrix.Xor takes another matrix of the same size): non-periodic contents on both sides
			w, h := c.Size, 3
			a, _ := gozxing.NewBitMatrix(w, h)
			b, _ := gozxing.NewBitMatrix(w, h)
			m := &mmodel{w, h, make([]bool, w*h)}
			for y := 0; y < h; y++ {
				for x := 0; x < w; x++ {
					va := (x*x+7*y+x/13+c.Start)%5 < 2
					vb := (x*3+y*11+x/29+x*x/97+c.Stop)%7 < 3
					if va {
						a.Set(x, y)
					}
					if vb {
						b.Set(x, y)
					}
					m.b[y*w+x] = va != vb
				}
			}
			if e := a.Xor(b); e != nil {
				bad("Xor of equally sized matrices refused: " + e.Error())
				return
			}
			if d := lightMatrix(a, m); d != "" {
				bad(d)
			}
		case "BitArray.SetRange":
			r := gozxing.NewBitArray(c.Size)
			m := &amodel{make([]bool, c.Size)}
			if e := r.SetRange(c.Start, c.Stop); e != nil {
				bad("refused: " + e.Error())
				return
			}
			for x := c.Start; x < c.Stop; x++ {
				m.b[x] = true
			}
			if d := lightArray(r, m); d != "" {
				bad(d)
				return
			}
			if ok, e := r.IsRange(c.Start, c.Stop, true); e != nil || !ok {
				bad(fmt.Sprint("IsRange(start, stop, true) = ", ok, e))
				return
			}
			if c.Stop < c.Size {
				if ok, _ := r.IsRange(c.Start, c.Stop+1, true); ok {
					bad("IsRange(start, stop+1, true) = true")
					return
				}
			}
			if c.Stop > c.Start {
				if n := r.GetNextSet(0); n != c.Start {
					bad(fmt.Sprint("GetNextSet(0) = ", n))
					return
				}
				if n := r.GetNextUnset(c.Start); n != c.Stop {
					bad(fmt.Sprint("GetNextUnset(start) = ", n))
					return
				}
			}
			r.Reverse()
			for i, j := 0, c.Size-1; i < j; i, j = i+1, j-1 {
				m.b[i], m.b[j] = m.b[j], m.b[i]
			}
			if d := lightArray(r, m); d != "" {
				bad("after Reverse: " + d)
				return
			}
			o := gozxing.NewBitArray(c.Size)
			o.SetRange(0, c.Size)
			if e := r.Xor(o); e != nil {
				bad("Xor refused: " + e.Error())
				return
			}
			for i := range m.b {
				m.b[i] = !m.b[i]
			}
			if d := lightArray(r, m); d != "" {
				bad("after Xor with all ones: " + d)
			}
		case "BitArray.AppendBitArray":
			src := gozxing.NewBitArray(c.Size)
			src.SetRange(c.Start, c.Stop)
			dst := gozxing.NewEmptyBitArray()
			dst.AppendBits(5, 3)
			dst.AppendBitArray(src)
			dst.AppendBit(true)
			m := &amodel{make([]bool, 3+c.Size+1)}
			m.b[0], m.b[2] = true, true
			for x := c.Start; x < c.Stop; x++ {
				m.b[3+x] = true
			}
			m.b[3+c.Size] = true
			if d := lightArray(dst, m); d != "" {
				bad(d)
			}
		}
	})
	if pm != "" {
		chk.Violation("C16/wide/panic/"+site, fmt.Sprintf("%+v panics: %s", c, pm), c)
		return
	}
	l.Distinct("nontrivial", fmt.Sprint("wide", c))
}

func runWide() {
	sizes := []int{8191, 8192, 8193, 8250, 9000, 16384, 16385, 65535, 65536, 65537, 70000}
	if !chk.Quick() {
		sizes = append(sizes, 131072, 1<<21-1, 1<<21, 1<<21+1)
	}
	var cases []wideCase
	for _, n := range sizes {
		marks := []int{0, 1, 31, 32, 33, 8191, 8192, 8193, 8224, 65535, 65536, 65537, n / 2, n - 33, n - 32, n - 1, n}
		for _, what := range []string{"BitMatrix.SetRegion", "BitArray.SetRange", "BitArray.AppendBitArray"} {
			for _, a := range marks {
				for _, b := range marks {
					if a < 0 || b > n || a >= b || (what == "BitMatrix.SetRegion" && b-a < 1) {
						continue
					}
					if chk.Quick() && (a+b+n)%3 == 0 && b-a < 8000 {
						continue
					}
					cases = append(cases, wideCase{"wide", what, n, a, b})
				}
			}
		}
	}
	// BitMatrix.Xor with non-periodic contents on every width 1..520 (row sizes of 1..17 words: every
	// residue of the word count modulo 4 and 8 several times) and around the block marks
	for w := 1; w <= 520; w++ {
		cases = append(cases, wideCase{"wide", "BitMatrix.Xor", w, w % 5, w % 7})
	}
	for _, w := range []int{1000, 1023, 1024, 1025, 2047, 2048, 2049, 8191, 8192, 8193} {
		cases = append(cases, wideCase{"wide", "BitMatrix.Xor", w, 1, 2})
	}
	// the widths between the history search (<= 130) and the block marks (>= 8191): every width
	// 131..520 through the region / rectangle / Rotate180 / FlipAll case and the array cases
	for w := 131; w <= 520; w++ {
		cases = append(cases, wideCase{"wide", "BitMatrix.SetRegion", w, w / 3, w - 5}, wideCase{"wide", "BitArray.SetRange", w, w / 4, w - 3}, wideCase{"wide", "BitArray.AppendBitArray", w, w / 5, w - 1})
	}
	// tall matrices: more than 2^16 ROWS (a row index or a word offset divided by the row size)
	for _, h := range []int{65535, 65536, 65537, 70000, 131073} {
		marks := []int{0, 1, 255, 256, 32767, 32768, 65534, 65535, 65536, h / 2, h - 2, h - 1, h}
		for _, what := range []string{"BitMatrix.Tall/w=3", "BitMatrix.Tall/w=33"} {
			for _, a := range marks {
				for _, b := range marks {
					if a < 0 || b > h || a >= b {
						continue
					}
					if (a+b+h)%3 != 0 && b-a > 2 && b-a < h/2 {
						continue
					}
					cases = append(cases, wideCase{"wide", what, h, a, b})
				}
			}
		}
	}
	const chunk = 8
	chk.Range(fmt.Sprintf("very wide / long containers (and matrices of 65535..131073 ROWS, 3 and 33 wide: region + enclosing rectangle + corner bits + GetRow + Rotate180 + Rotate90): sizes %v x ranges starting and ending at word and block boundaries (0, 1, 31..33, 8191..8193, 8224, 65535..65537, middle, size-33..size) x {SetRegion + GetEnclosingRectangle + Rotate180 + FlipAll, SetRange + IsRange + GetNextSet/Unset + Reverse + Xor, AppendBitArray} [%d cases]", sizes, len(cases)), (len(cases)+chunk-1)/chunk,
		func(i int) string { return fmt.Sprintf("%+v", cases[i*chunk]) },
		func(l *mc.Local, i int) {
			for k := i * chunk; k < (i+1)*chunk && k < len(cases); k++ {
				wideOne(l, cases[k])
			}
		})
	chk.Sample("wide", wideCase{"wide", "BitMatrix.SetRegion", 9000, 10, 8910})
}
