package main

// Argument products: the history search above draws its operations from a small menu of
// arguments (corners, word boundaries). Here every operation that takes a position or a region
// is called ONCE on a fresh matrix/array for EVERY in-range argument value, for every width
// 1..130 (matrices of height 3) and every array size 0..200, on two initial contents, and the
// whole state is compared with the model afterwards. Out-of-range regions must be refused and
// leave the matrix unchanged.

import (
	"fmt"

	"verif/mc"

	"github.com/makiuchi-d/gozxing"
)

type argcase struct {
	Kind string // "args"
	W, H int
	Init int
	Op   string
	Args []int
}

func argApply(c argcase) string {
	r, m := initMatrix(c.W, c.H, c.Init)
	a := c.Args
	switch c.Op {
	case "SetRegion":
		e := r.SetRegion(a[0], a[1], a[2], a[3])
		// written without sums: the arguments may be near the end of the int range
		ok := a[0] >= 0 && a[1] >= 0 && a[2] >= 1 && a[3] >= 1 && a[0] <= m.w && a[2] <= m.w-a[0] && a[1] <= m.h && a[3] <= m.h-a[1]
		if ok {
			for y := a[1]; y < a[1]+a[3]; y++ {
				for x := a[0]; x < a[0]+a[2]; x++ {
					m.b[y*m.w+x] = true
				}
			}
		}
		if ok != (e == nil) {
			return fmt.Sprintf("SetRegion returned %v, model in-range=%v", e, ok)
		}
	case "Set":
		r.Set(a[0], a[1])
		m.b[a[1]*m.w+a[0]] = true
	case "Unset":
		r.Unset(a[0], a[1])
		m.b[a[1]*m.w+a[0]] = false
	case "Flip":
		r.Flip(a[0], a[1])
		m.b[a[1]*m.w+a[0]] = !m.b[a[1]*m.w+a[0]]
	case "SetRow":
		// row a[0] := the bits of row a[1] of a second matrix with content kind a[2]
		src, sm := initMatrix(c.W, c.H, a[2])
		row := src.GetRow(a[1], nil)
		r.SetRow(a[0], row)
		for x := 0; x < m.w; x++ {
			m.b[a[0]*m.w+x] = sm.b[a[1]*m.w+x]
		}
	case "SetRowLonger":
		// row a[0] := a scratch row that is LONGER than the matrix is wide (a[1] extra bits; one
		// scratch BitArray serving matrices of several widths - GetRow invites that reuse). Its first
		// `width` bits are the new row; what lies beyond the width does not exist in the matrix.
		row := gozxing.NewBitArray(m.w + a[1])
		for x := 0; x < m.w+a[1]; x++ {
			if (x*7+a[2]*3+x/5)%3 != 0 || x >= m.w {
				row.Set(x)
			}
		}
		r.SetRow(a[0], row)
		for x := 0; x < m.w; x++ {
			m.b[a[0]*m.w+x] = row.Get(x)
		}
	case "SetRowTwins":
		// two rows with the SAME size and bits but different histories (allocated at that size /
		// grown bit by bit / grown in chunks / cut down from a longer array by Reverse-free means):
		// SetRow is a function of the row's value, so the matrices must come out identical. The row
		// is a[1] bits long (shorter than, equal to, or longer than the width).
		n := a[1]
		bit := func(x int) bool { return (x*5+a[2]*3+x/7)%3 != 0 }
		rowA := gozxing.NewBitArray(n)
		rowB := gozxing.NewEmptyBitArray()
		rowC := gozxing.NewEmptyBitArray()
		for x := 0; x < n; x++ {
			if bit(x) {
				rowA.Set(x)
			}
			rowB.AppendBit(bit(x))
		}
		for x := 0; x < n; {
			k := 13
			if n-x < k {
				k = n - x
			}
			v := 0
			for q := 0; q < k; q++ {
				v <<= 1
				if bit(x + q) {
					v |= 1
				}
			}
			rowC.AppendBits(v, k)
			x += k
		}
		rB, _ := initMatrix(c.W, c.H, c.Init)
		rC, _ := initMatrix(c.W, c.H, c.Init)
		r.SetRow(a[0], rowA)
		rB.SetRow(a[0], rowB)
		rC.SetRow(a[0], rowC)
		for y := 0; y < m.h; y++ {
			for x := 0; x < m.w; x++ {
				if r.Get(x, y) != rB.Get(x, y) || r.Get(x, y) != rC.Get(x, y) {
					return fmt.Sprintf("SetRow(%d, row of %d bits): cell (%d,%d) is %v with a row allocated at its size, %v with the same row grown bit by bit, %v grown in 13-bit chunks", a[0], n, x, y, r.Get(x, y), rB.Get(x, y), rC.Get(x, y))
				}
			}
		}
		return ""
	case "GetRow":
		row := r.GetRow(a[0], nil)
		if row.GetSize() != m.w {
			return fmt.Sprintf("GetRow(%d) has size %d, width %d", a[0], row.GetSize(), m.w)
		}
		for x := 0; x < m.w; x++ {
			if row.Get(x) != m.b[a[0]*m.w+x] {
				return fmt.Sprintf("GetRow(%d).Get(%d)=%v, model %v", a[0], x, row.Get(x), m.b[a[0]*m.w+x])
			}
		}
	}
	if c.Op == "SetRegion" && (c.Args[0]+c.Args[2])%8 != 0 && c.Args[0]+c.Args[2] != c.W {
		return lightMatrix(r, m) // the full comparison (all queries) runs on one region in eight and on every region touching the right edge
	}
	return compareMatrix(r, m)
}

// lightMatrix compares dimensions, every bit, and the padding bits of every row word.
func lightMatrix(r *gozxing.BitMatrix, m *mmodel) string {
	if r.GetWidth() != m.w || r.GetHeight() != m.h {
		return fmt.Sprintf("dimensions %dx%d, model %dx%d", r.GetWidth(), r.GetHeight(), m.w, m.h)
	}
	for y := 0; y < m.h; y++ {
		for x := 0; x < m.w; x++ {
			if r.Get(x, y) != m.b[y*m.w+x] {
				return fmt.Sprintf("Get(%d,%d)=%v, model %v", x, y, r.Get(x, y), m.b[y*m.w+x])
			}
		}
		if m.w%32 != 0 {
			words := r.GetRow(y, nil).GetBitArray()
			if last := words[(m.w-1)/32]; last>>uint(m.w%32) != 0 {
				return fmt.Sprintf("row %d has bits set beyond the width (last word %#x)", y, last)
			}
		}
	}
	return ""
}

func lightArray(r *gozxing.BitArray, m *amodel) string {
	if r.GetSize() != len(m.b) {
		return fmt.Sprintf("size %d, model %d", r.GetSize(), len(m.b))
	}
	for i, v := range m.b {
		if r.Get(i) != v {
			return fmt.Sprintf("Get(%d)=%v, model %v", i, !v, v)
		}
	}
	if n := len(m.b); n%32 != 0 {
		if last := r.GetBitArray()[(n-1)/32]; last>>uint(n%32) != 0 {
			return fmt.Sprintf("bits set beyond the size (last word %#x)", last)
		}
	}
	return ""
}

func argOne(l *mc.Local, c argcase) {
	var dis string
	pm, site := mc.Guard(func() { dis = argApply(c) })
	l.Count("evaluations", 1)
	l.Count("transitions", 1)
	if pm != "" {
		chk.Violation("C16/BitMatrix/panic/"+c.Op+"/args/"+site, fmt.Sprintf("%s%v on a %dx%d matrix (content %d) panics: %s", c.Op, c.Args, c.W, c.H, c.Init, pm), c)
		return
	}
	if dis != "" {
		chk.Violation("C16/BitMatrix/"+c.Op+"/args", fmt.Sprintf("%s%v on a %dx%d matrix (content %d): %s", c.Op, c.Args, c.W, c.H, c.Init, dis), c)
	}
}

func runArgProducts() {
	const h = 3
	const maxInt = int(^uint(0) >> 1)
	chk.Range("BitMatrix argument products: for every width 1..130 (height 3, contents empty and striped): SetRegion for EVERY (left,width) with left+width <= w x (top,height) in {(0,3),(1,1),(2,1),(0,2)}, Set/Unset/Flip at EVERY (x,y), SetRow/GetRow for every row pair, SetRow from scratch rows 1..w+3 bits LONGER than the width (all bits beyond the width set); SetRow from equal rows with different histories (allocated / grown bit by bit / grown in chunks; shorter, equal, longer than the width) gives equal matrices; out-of-range regions (negative origin, zero/negative size, one past the edge, origin + size wrapping around the int range, 2^32 look-alikes) refused without effect", 130,
		func(i int) string { return fmt.Sprint("w=", i+1) },
		func(l *mc.Local, i int) {
			w := i + 1
			l.Beat(fmt.Sprint("args w=", w))
			for _, init := range []int{0, 3} {
				for left := 0; left < w; left++ {
					for rw := 1; left+rw <= w; rw++ {
						for _, th := range [][2]int{{0, 3}, {1, 1}, {2, 1}, {0, 2}} {
							argOne(l, argcase{"args", w, h, init, "SetRegion", []int{left, th[0], rw, th[1]}})
						}
					}
				}
				for _, bad := range [][]int{{-1, 0, 1, 1}, {0, -1, 1, 1}, {0, 0, 0, 1}, {0, 0, 1, 0}, {0, 0, -1, 1}, {0, 0, w + 1, 1}, {1, 0, w, 1}, {0, 0, 1, h + 1}, {0, 1, 1, h}, {w, 0, 1, 1},
					// origin + size beyond the int range, and arguments that look in-range once cut to 32 bits
					{maxInt, 0, 1, 1}, {0, maxInt, 1, 1}, {1, 0, maxInt, 1}, {0, 1, 1, maxInt}, {maxInt - w + 1, 0, w, 1}, {maxInt, maxInt, maxInt, maxInt},
					{maxInt/2 + 1, 0, maxInt/2 + 1, 1}, {0, maxInt/2 + 1, 1, maxInt/2 + 1}, {1 << 32, 0, 1, 1}, {0, 1 << 32, 1, 1}, {0, 0, 1<<32 + w, 1}, {0, 0, 1, 1<<32 + 1}} {
					argOne(l, argcase{"args", w, h, init, "SetRegion", bad})
				}
				for y := 0; y < h; y++ {
					for x := 0; x < w; x++ {
						for _, op := range []string{"Set", "Unset", "Flip"} {
							argOne(l, argcase{"args", w, h, init, op, []int{x, y}})
						}
					}
					for y2 := 0; y2 < h; y2++ {
						for _, k := range []int{1, 2, 3} {
							argOne(l, argcase{"args", w, h, init, "SetRow", []int{y, y2, k}})
						}
					}
					for _, extra := range []int{1, 6, 31, 32, 33, w + 3} {
						argOne(l, argcase{"args", w, h, init, "SetRowLonger", []int{y, extra, y + init}})
					}
					for _, n := range []int{1, w / 2, w - 33, w - 32, w - 1, w, w + 1, w + 40} {
						if n >= 1 {
							argOne(l, argcase{"args", w, h, init, "SetRowTwins", []int{y, n, y + init}})
						}
					}
					argOne(l, argcase{"args", w, h, init, "GetRow", []int{y}})
				}
			}
			l.Distinct("nontrivial", fmt.Sprint("args w=", w))
		})
	chk.Sample("BitMatrix args", argcase{"args", 97, 3, 0, "SetRegion", []int{31, 0, 34, 3}})

	// taller and wider: regions as the renderers draw them (module blocks up to 70 pixels wide)
	type big struct{ w, h int }
	var bigs []big
	for _, w := range []int{131, 160, 192, 200, 257} {
		bigs = append(bigs, big{w, 5})
	}
	chk.Range("BitMatrix SetRegion on wide matrices {131,160,192,200,257}x5: EVERY (left,width) with width <= 100, full height and one inner row", len(bigs),
		func(i int) string { return fmt.Sprint(bigs[i]) },
		func(l *mc.Local, i int) {
			b := bigs[i]
			for left := 0; left < b.w; left++ {
				l.Beat(fmt.Sprint("args wide ", b, left))
				for rw := 1; rw <= 100 && left+rw <= b.w; rw++ {
					argOne(l, argcase{"args", b.w, b.h, 0, "SetRegion", []int{left, 0, rw, b.h}})
					argOne(l, argcase{"args", b.w, b.h, 3, "SetRegion", []int{left, 2, rw, 1}})
				}
			}
			l.Distinct("nontrivial", fmt.Sprint("args wide ", b))
		})
}

// ---------------------------------------------------------------------------- arrays

type aargcase struct {
	Kind string // "array-args"
	Size int
	Init int
	Op   string
	Args []int
}

func aargApply(c aargcase) string {
	r, m := initArray(c.Size, c.Init)
	a := c.Args
	switch c.Op {
	case "Set":
		r.Set(a[0])
		m.b[a[0]] = true
	case "Flip":
		r.Flip(a[0])
		m.b[a[0]] = !m.b[a[0]]
	case "SetRange":
		e := r.SetRange(a[0], a[1])
		ok := a[1] >= a[0] && a[0] >= 0 && a[1] <= len(m.b)
		if ok {
			for i := a[0]; i < a[1]; i++ {
				m.b[i] = true
			}
		}
		if ok != (e == nil) {
			return fmt.Sprintf("SetRange returned %v, model in-range=%v", e, ok)
		}
	case "IsRange":
		for _, v := range []bool{false, true} {
			got, e := r.IsRange(a[0], a[1], v)
			ok := a[1] >= a[0] && a[0] >= 0 && a[1] <= len(m.b)
			if ok != (e == nil) {
				return fmt.Sprintf("IsRange(%d,%d,%v) returned error %v, model in-range=%v", a[0], a[1], v, e, ok)
			}
			if !ok {
				continue
			}
			want := true
			for i := a[0]; i < a[1]; i++ {
				if m.b[i] != v {
					want = false
				}
			}
			if got != want {
				return fmt.Sprintf("IsRange(%d,%d,%v)=%v, model %v", a[0], a[1], v, got, want)
			}
		}
		return ""
	case "GetNextSet":
		got, want := r.GetNextSet(a[0]), len(m.b)
		for i := a[0]; i < len(m.b); i++ {
			if m.b[i] {
				want = i
				break
			}
		}
		if got != want {
			return fmt.Sprintf("GetNextSet(%d)=%d, model %d", a[0], got, want)
		}
		got, want = r.GetNextUnset(a[0]), len(m.b)
		for i := a[0]; i < len(m.b); i++ {
			if !m.b[i] {
				want = i
				break
			}
		}
		if got != want {
			return fmt.Sprintf("GetNextUnset(%d)=%d, model %d", a[0], got, want)
		}
		return ""
	}
	if c.Op == "SetRange" && c.Args[1]%8 != 0 && c.Args[1] != c.Size {
		return lightArray(r, m)
	}
	return compareArray(r, m)
}

func aargOne(l *mc.Local, c aargcase) {
	var dis string
	pm, site := mc.Guard(func() { dis = aargApply(c) })
	l.Count("evaluations", 1)
	l.Count("transitions", 1)
	if pm != "" {
		chk.Violation("C16/BitArray/panic/"+c.Op+"/args/"+site, fmt.Sprintf("%s%v on a BitArray of size %d (content %d) panics: %s", c.Op, c.Args, c.Size, c.Init, pm), c)
		return
	}
	if dis != "" {
		chk.Violation("C16/BitArray/"+c.Op+"/args", fmt.Sprintf("%s%v on a BitArray of size %d (content %d): %s", c.Op, c.Args, c.Size, c.Init, dis), c)
	}
}

func runArrayArgProducts(kinds int) {
	chk.Range("BitArray argument products: for every size 0..200 and every initial content: Set/Flip/GetNextSet/GetNextUnset at EVERY index, SetRange/IsRange for EVERY (start,end) with 0 <= start <= end <= size, and the out-of-range pairs (end < start, end = size+1, start = -1)", 201,
		func(i int) string { return fmt.Sprint("size=", i) },
		func(l *mc.Local, size int) {
			l.Beat(fmt.Sprint("array args size=", size))
			for init := 0; init < kinds; init++ {
				for i := 0; i < size; i++ {
					aargOne(l, aargcase{"array-args", size, init, "Set", []int{i}})
					aargOne(l, aargcase{"array-args", size, init, "Flip", []int{i}})
				}
				for i := 0; i <= size; i++ {
					aargOne(l, aargcase{"array-args", size, init, "GetNextSet", []int{i}})
					for e := i; e <= size; e++ {
						aargOne(l, aargcase{"array-args", size, init, "SetRange", []int{i, e}})
						aargOne(l, aargcase{"array-args", size, init, "IsRange", []int{i, e}})
					}
				}
				for _, bad := range [][2]int{{1, 0}, {0, size + 1}, {-1, 0}, {size, size + 1}} {
					aargOne(l, aargcase{"array-args", size, init, "SetRange", []int{bad[0], bad[1]}})
					aargOne(l, aargcase{"array-args", size, init, "IsRange", []int{bad[0], bad[1]}})
				}
			}
			l.Distinct("nontrivial", fmt.Sprint("array args size=", size))
		})
	chk.Sample("BitArray args", aargcase{"array-args", 70, 1, "SetRange", []int{31, 65}})
}

var _ = gozxing.NewBitArray

// ---------------------------------------------------------------------------- ParseBoolMap

type boolMapCase struct {
	Kind  string // "boolmap"
	W, H  int
	Init  int
	Extra int // later rows carry this many extra cells (all true) beyond the width of the first row
}

// boolMapOne: ParseBoolMapToBitMatrix takes the width from the first row; cells of later rows
// beyond that width are outside the image and must not end up anywhere in the matrix.
func boolMapOne(l *mc.Local, c boolMapCase) {
	_, m := initMatrix(c.W, c.H, c.Init)
	rows := make([][]bool, c.H)
	for y := range rows {
		rows[y] = append([]bool{}, m.b[y*c.W:(y+1)*c.W]...)
		if y > 0 {
			for k := 0; k < c.Extra; k++ {
				rows[y] = append(rows[y], true)
			}
		}
	}
	var r *gozxing.BitMatrix
	var err error
	var dis string
	pm, site := mc.Guard(func() {
		r, err = gozxing.ParseBoolMapToBitMatrix(rows)
		if err == nil && r != nil {
			dis = compareMatrix(r, m)
		}
	})
	l.Count("evaluations", 1)
	switch {
	case pm != "":
		chk.Violation("C16/BitMatrix/panic/ParseBoolMap/"+site, fmt.Sprintf("ParseBoolMapToBitMatrix of %d rows of %d cells (later rows %d cells longer) panics: %s", c.H, c.W, c.Extra, pm), c)
	case err != nil || r == nil:
		chk.Violation("C16/BitMatrix/ParseBoolMap", fmt.Sprintf("ParseBoolMapToBitMatrix of %d rows of %d cells (later rows %d cells longer) fails: %v", c.H, c.W, c.Extra, err), c)
	case dis != "":
		chk.Violation("C16/BitMatrix/ParseBoolMap", fmt.Sprintf("ParseBoolMapToBitMatrix of %d rows of %d cells (content %d; later rows carry %d extra true cells beyond the first row's width): %s", c.H, c.W, c.Init, c.Extra, dis), c)
	default:
		l.Distinct("nontrivial", fmt.Sprint("boolmap", c))
	}
}

func runBoolMaps() {
	var cases []boolMapCase
	for w := 1; w <= 70; w++ {
		for _, h := range []int{1, 2, 3, 5} {
			for _, init := range []int{0, 2, 3} {
				for _, extra := range []int{0, 1, 2, 31, 32, 33, 70} {
					if extra > 0 && h == 1 {
						continue
					}
					cases = append(cases, boolMapCase{"boolmap", w, h, init, extra})
				}
			}
		}
	}
	chk.Range("ParseBoolMapToBitMatrix: every width 1..70 x heights {1,2,3,5} x 3 contents x later rows longer than the first by {0,1,2,31,32,33,70} true cells (cells outside the image): the matrix equals the model of the first row's width", len(cases),
		func(i int) string { return fmt.Sprint(cases[i]) },
		func(l *mc.Local, i int) { boolMapOne(l, cases[i]) })
	chk.Sample("BitMatrix boolmap", boolMapCase{"boolmap", 3, 2, 0, 2})
}

// ---------------------------------------------------------------------------- dirty operands

type dirtyCase struct {
	Kind    string // "dirty-operand"
	DstSize int
	SrcSize int
	Tail    int // what is appended afterwards: 0 nothing, 1 AppendBit(false), 2 AppendBits(0,3), 3 AppendBits(1,8)
}

// dirtyOne: AppendBitArray reads its argument through Get/size; an argument whose last storage word
// carries set bits beyond its size (loaded with SetBulk from a wider word) must contribute exactly
// its size bits - also as seen one step LATER, when further bits are appended behind them.
func dirtyOne(l *mc.Local, c dirtyCase) {
	dst, dm := initArray(c.DstSize, 3)
	src := gozxing.NewBitArray(c.SrcSize)
	sm := make([]bool, c.SrcSize)
	for w := 0; w*32 < c.SrcSize || (w == 0 && c.SrcSize == 0 && false); w++ {
		var v uint32
		for k := 0; k < 32; k++ {
			i := w*32 + k
			if i >= c.SrcSize || i%2 == 1 {
				v |= 1 << uint(k)
			}
			if i < c.SrcSize && i%2 == 1 {
				sm[i] = true
			}
		}
		src.SetBulk(w*32, v)
	}
	var dis string
	pm, site := mc.Guard(func() {
		dst.AppendBitArray(src)
		dm.b = append(dm.b, sm...)
		switch c.Tail {
		case 1:
			dst.AppendBit(false)
			dm.b = append(dm.b, false)
		case 2:
			dst.AppendBits(0, 3)
			dm.b = append(dm.b, false, false, false)
		case 3:
			dst.AppendBits(1, 8)
			dm.b = append(dm.b, false, false, false, false, false, false, false, true)
		}
		dis = compareArray(dst, dm)
	})
	l.Count("evaluations", 1)
	if pm != "" {
		chk.Violation("C16/BitArray/panic/AppendBitArray/dirty-operand/"+site, fmt.Sprintf("%+v panics: %s", c, pm), c)
	} else if dis != "" {
		chk.Violation("C16/BitArray/AppendBitArray/dirty-operand", fmt.Sprintf("destination of %d bits, AppendBitArray(argument of %d bits whose last word has set bits beyond its size), then tail %d: %s", c.DstSize, c.SrcSize, c.Tail, dis), c)
	} else {
		l.Distinct("nontrivial", fmt.Sprint("dirty", c))
	}
}

func runDirtyOperands() {
	var cases []dirtyCase
	for d := 0; d <= 100; d++ {
		for _, sz := range []int{1, 5, 31, 32, 33, 40, 63, 64, 70} {
			for tail := 0; tail < 4; tail++ {
				cases = append(cases, dirtyCase{"dirty-operand", d, sz, tail})
			}
		}
	}
	chk.Range("BitArray.AppendBitArray with an argument whose padding bits are set: every destination size 0..100 x argument sizes {1,5,31,32,33,40,63,64,70} x what is appended afterwards {nothing, one clear bit, three clear bits, the byte 0x01}", len(cases),
		func(i int) string { return fmt.Sprint(cases[i]) },
		func(l *mc.Local, i int) { dirtyOne(l, cases[i]) })
	chk.Sample("BitArray dirty operand", dirtyCase{"dirty-operand", 32, 5, 2})
}
