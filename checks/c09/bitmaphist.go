package main

// Histories on ONE BinaryBitmap. Applications hand the same bitmap to several readers in turn (the
// multi-format pattern: try one symbology after the other) and read it again after a failure. The
// other sub-spaces build a fresh bitmap for every read. Here one bitmap of a turned image answers
// every sequence of up to three reads from the menu {matching reader, matching reader with
// TRY_HARDER, the reader of another 1-D symbology, the QR reader}; every outcome - text,
// ORIENTATION metadata, error class - must be what the same read gives on a fresh bitmap of the
// same image. Poses: upright, upside down, sideways; image heights 30 and 1 (a one-row image, where
// every read starts on the same line).

import (
	"fmt"

	"verif/mc"

	"github.com/makiuchi-d/gozxing"
	"github.com/makiuchi-d/gozxing/oned"
	"github.com/makiuchi-d/gozxing/qrcode"
)

type bmhCase struct {
	Mode  string // "bitmap-history"
	Spec  spec
	T     transform
	Reads []int
}

var bmhMenu = []string{"matching reader", "matching reader TRY_HARDER", "other 1-D reader", "QR reader"}

// bmhHints: the hint maps of one history - ONE map per kind of read, reused by every read of that
// kind (the caller's maps are the caller's: whatever a reader notes in them would reach the next read)
type bmhHints struct {
	plain, tryHarder map[gozxing.DecodeHintType]interface{}
}

func newBmhHints() *bmhHints {
	return &bmhHints{map[gozxing.DecodeHintType]interface{}{}, map[gozxing.DecodeHintType]interface{}{gozxing.DecodeHintType_TRY_HARDER: true}}
}

func bmhRead(s spec, k int, bmp *gozxing.BinaryBitmap, hs *bmhHints) (o outcome) {
	o.orient = -1
	var rd gozxing.Reader
	hints := hs.plain
	switch k {
	case 0:
		rd = s.reader()
	case 1:
		rd, hints = s.reader(), hs.tryHarder
	case 2:
		if s.Sym == "code128" || s.Sym == "Code128" {
			rd = oned.NewCode39Reader()
		} else {
			rd = oned.NewCode128Reader()
		}
	default:
		rd = qrcode.NewQRCodeReader()
	}
	var res *gozxing.Result
	var err error
	pm, site := mc.Guard(func() { res, err = rd.Decode(bmp, hints) })
	switch {
	case pm != "":
		o.kind, o.err, o.site = "panic", pm, site
	case err != nil:
		o.kind = errKind(err)
	case res == nil:
		o.kind = "other"
	default:
		o.kind, o.text, o.format = "ok", res.GetText(), res.GetBarcodeFormat()
		if v, ok := res.GetResultMetadata()[gozxing.ResultMetadataType_ORIENTATION]; ok {
			if n, ok := v.(int); ok {
				o.orient = n
			} else {
				o.orient = -2
			}
		}
	}
	return o
}

func bmhOne(l *mc.Local, c bmhCase, base *grid) {
	img := c.T.apply(base).gray()
	mk := func() *gozxing.BinaryBitmap {
		b, e := gozxing.NewBinaryBitmapFromImage(img)
		if e != nil {
			panic(e)
		}
		return b
	}
	shared := mk()
	sharedHints := newBmhHints()
	for i, k := range c.Reads {
		got := bmhRead(c.Spec, k, shared, sharedHints)
		want := bmhRead(c.Spec, k, mk(), newBmhHints())
		l.Count("evaluations", 2)
		if got.kind == "panic" {
			chk.Violation("C09/panic/"+got.site, fmt.Sprintf("panic %q in read %d of %v on one bitmap of %v %v", got.err, i+1, c.Reads, c.Spec, c.T), c)
			return
		}
		if got.kind != want.kind || got.text != want.text || got.orient != want.orient || got.format != want.format {
			what := "outcome"
			switch {
			case got.kind == "ok" && want.kind == "ok" && got.text != want.text:
				what = "different-text"
			case got.kind == "ok" && want.kind == "ok" && got.orient != want.orient:
				what = "orientation"
			}
			chk.Violation("C09/bitmap-history/"+what, fmt.Sprintf("%v %v: read %d (%s) of the sequence %v on ONE bitmap gives %s %q orientation %s; the same read on a fresh bitmap gives %s %q orientation %s", c.Spec, c.T, i+1, bmhMenu[k], c.Reads, got.kind, got.text, orientStr(got.orient), want.kind, want.text, orientStr(want.orient)), c)
			return
		}
		l.Distinct("outcomes", fmt.Sprint("bmh ", c.Spec.Sym, c.T.Rot, k, got.kind, got.orient))
	}
	l.Distinct("nontrivial", fmt.Sprint("bmh", c.Spec, c.T, c.Reads))
}

func runBitmapHistories() {
	specs := oneDSpecs([]int{30, 1}, 30)
	var seqs [][]int
	for a := 0; a < 4; a++ {
		seqs = append(seqs, []int{a})
		for b := 0; b < 4; b++ {
			seqs = append(seqs, []int{a, b})
			for c := 0; c < 4; c++ {
				seqs = append(seqs, []int{a, b, c})
			}
		}
	}
	chk.Range(fmt.Sprintf("histories on ONE BinaryBitmap: %s at heights {30, 1} x poses {upright, upside down, sideways} x scale 2 x EVERY sequence of <= 3 reads from {matching reader, matching reader TRY_HARDER, another 1-D reader, QR reader} (84 sequences): every outcome (text, ORIENTATION, error class) equals that of the same read on a fresh bitmap with fresh hint maps (the history reuses ONE hints map per kind of read)", countNames(specs)), len(specs),
		func(i int) string { return specs[i].String() },
		func(l *mc.Local, i int) {
			s, base, err := drawFitting(specs[i])
			if err != nil {
				cannotDraw(specs[i], err)
				return
			}
			for _, rot := range []int{0, 180, 90} {
				if rot == 90 && s.Height == 1 {
					continue
				}
				for _, q := range seqs {
					l.Beat("")
					bmhOne(l, bmhCase{"bitmap-history", s, transform{Pad: 3, Scale: 2, Rot: rot}, q}, base)
				}
			}
		})
}
