package main

import (
	"fmt"
	"strings"

	refoned "verif/ref/oned"

	"github.com/makiuchi-d/gozxing"
	"github.com/makiuchi-d/gozxing/datamatrix"
	dmenc "github.com/makiuchi-d/gozxing/datamatrix/encoder"
	"github.com/makiuchi-d/gozxing/oned"
	"github.com/makiuchi-d/gozxing/qrcode"
	qrdec "github.com/makiuchi-d/gozxing/qrcode/decoder"
)

// spec names one symbol completely (it is also the replay record): everything needed to have
// the library's writer draw it again.
type spec struct {
	Sym     string // "qr" | "dm" | one of the nine 1-D names
	Content string
	Version int    `json:",omitempty"` // QR
	Level   string `json:",omitempty"` // QR
	DMW     int    `json:",omitempty"` // Data Matrix requested symbol width (modules)
	DMH     int    `json:",omitempty"`
	Height  int    `json:",omitempty"` // 1-D bar height (modules before scaling)
	Margin  int    `json:",omitempty"` // EncodeHintType_MARGIN, -1 = writer default
}

func (s spec) String() string {
	switch s.Sym {
	case "qr":
		return fmt.Sprintf("QR v%d-%s margin %d %q", s.Version, s.Level, s.Margin, clip(s.Content, 40))
	case "dm":
		return fmt.Sprintf("DataMatrix %dx%d %q", s.DMW, s.DMH, clip(s.Content, 40))
	}
	return fmt.Sprintf("%s height %d margin %d %q", s.Sym, s.Height, s.Margin, s.Content)
}

func clip(s string, n int) string {
	if len(s) > n {
		return fmt.Sprintf("%s…(len %d)", s[:n], len(s))
	}
	return s
}

// keyName is the <qr|dm|1d:sym> part of a violation key.
func (s spec) keyName() string {
	if s.Sym == "qr" || s.Sym == "dm" {
		return s.Sym
	}
	return "1d:" + s.Sym
}

type oneD struct {
	name     string
	format   gozxing.BarcodeFormat
	mkWriter func() gozxing.Writer
	mkReader func() gozxing.Reader
	contents []string
	// expect gives the text a reader must deliver for content c (canonical form: the 1-D
	// writers append a missing check digit, Codabar readers drop the start/stop characters).
	expect func(c string) string
	// minMargin: the smallest EncodeHintType_MARGIN used for this symbology (UPC-E: the
	// reader needs a wider trailing quiet zone than the writer's default, which is C03's finding).
	minMargin int
}

func withCheck(c string) string { return c + fmt.Sprint(refoned.Mod10Check(c)) }

// upce8 appends the UPC-E check digit (that of the UPC-A expansion) to number system + 6 digits.
func upce8(u7 string) string { return u7 + fmt.Sprint(refoned.Mod10Check(refoned.UPCEExpand(u7))) }

func same(c string) string { return c }

func codabarData(c string) string {
	if len(c) >= 2 && strings.ContainsAny(strings.ToUpper(c[:1]), "ABCDTN*E") {
		return c[1 : len(c)-1]
	}
	return c
}

func mapStr(in []string, f func(string) string) []string {
	out := make([]string, len(in))
	for i, s := range in {
		out[i] = f(s)
	}
	return out
}

// The nine linear symbologies. The first four contents of each list form the quick tier.
var oneDs = []oneD{
	{"EAN13", gozxing.BarcodeFormat_EAN_13, oned.NewEAN13Writer, oned.NewEAN13Reader,
		[]string{"590123412345", "000000000000", "978020137962", "123456789012", "999999999999", "471234567890", "800000000001", "212345678901", "312345678901", "690123456789", "750123456789", "400638133393"},
		withCheck, -1},
	{"EAN8", gozxing.BarcodeFormat_EAN_8, oned.NewEAN8Writer, oned.NewEAN8Reader,
		[]string{"9638507", "0000000", "1234567", "7351353", "9999999", "5512345", "2000001", "4012345", "8076800", "0123456", "6291041", "3141592"},
		withCheck, -1},
	{"UPCA", gozxing.BarcodeFormat_UPC_A, oned.NewUPCAWriter, oned.NewUPCAReader,
		[]string{"03600029145", "00000000000", "12345678901", "72527273070", "99999999999", "04210000526", "88888888888", "01234567890", "61414100003", "10000000001", "51000012517", "20123456789"},
		withCheck, -1},
	{"UPCE", gozxing.BarcodeFormat_UPC_E, oned.NewUPCEWriter, oned.NewUPCEReader,
		mapStr([]string{"0123456", "1123456", "0000000", "0425261", "0999999", "1999999", "0654321", "1000003", "0123454", "0123453", "0555550", "1987651"}, upce8),
		same, 14},
	{"Code39", gozxing.BarcodeFormat_CODE_39, oned.NewCode39Writer, oned.NewCode39Reader,
		[]string{"CODE39", "A", "-. $/+%", "0123456789", "HELLO WORLD", "ZZZZZZ", "ABCDEFGHIJKLM", "NOPQRSTUVWXYZ", "1", "A1B2C3", "$$$", "TEST-123.45"},
		same, -1},
	{"Code93", gozxing.BarcodeFormat_CODE_93, oned.NewCode93Writer, oned.NewCode93Reader,
		[]string{"CODE93", "a", "Code 93!", "0123456789", "HELLO", "abc xyz", "-. $/+%", "ZZZ", "12", "A1b2C3", "~tilde~", "TEST-123.45"},
		same, -1},
	{"Code128", gozxing.BarcodeFormat_CODE_128, oned.NewCode128Writer, oned.NewCode128Reader,
		[]string{"Code128", "123456", "12345", "Hello, World!", "12", "1234", "A", "a", "ABC123456DEF", "0000000000", "aB1", "99x88"},
		same, -1},
	{"ITF", gozxing.BarcodeFormat_ITF, oned.NewITFWriter, oned.NewITFReader,
		[]string{"123456", "00112233", "1234567890", "12345678901234", "000000", "999999", "12345678", "0987654321", "123456789012", "998877665544", "00000000000000", "31415926535897"},
		same, -1},
	{"Codabar", gozxing.BarcodeFormat_CODABAR, oned.NewCodaBarWriter, oned.NewCodaBarReader,
		[]string{"A1234B", "123", "C$:/.+D", "T12N", "A0000A", "B9999B", "D1-2$3D", "A12345678901234B", "*99E", "5558675309", "A1:2/3.4+5B", "C00D"},
		codabarData, -1},
}

func oneDByName(n string) *oneD {
	for i := range oneDs {
		if oneDs[i].name == n {
			return &oneDs[i]
		}
	}
	return nil
}

// ------------------------------------------------------------------ QR

var qrLevels = []struct {
	name string
	lvl  qrdec.ErrorCorrectionLevel
}{{"L", qrdec.ErrorCorrectionLevel_L}, {"M", qrdec.ErrorCorrectionLevel_M}, {"Q", qrdec.ErrorCorrectionLevel_Q}, {"H", qrdec.ErrorCorrectionLevel_H}}

// data codewords of QR versions 1..10 at levels L, M, Q, H (ISO/IEC 18004 table 7), used only to
// size the texts so that they fill the symbol; a text that does not fit is shortened until it does.
var qrDataCodewords = [11][4]int{{}, {19, 16, 13, 9}, {34, 28, 22, 16}, {55, 44, 34, 26}, {80, 64, 48, 36}, {108, 86, 62, 46},
	{136, 108, 76, 60}, {156, 124, 88, 66}, {194, 154, 110, 86}, {232, 182, 132, 100}, {274, 216, 154, 122}}

func cycle(alpha string, n, phase int) string {
	b := make([]byte, n)
	for i := range b {
		b[i] = alpha[(i*7+phase+i/len(alpha))%len(alpha)]
	}
	return string(b)
}

// qrText builds text family f for a symbol with d data codewords.
//
//	0 short text (the symbol is mostly pad codewords)      1 digits filling the symbol (numeric mode)
//	2 upper-case/digits filling it (alphanumeric mode)      3 mixed-case ASCII filling it (byte mode)
//	4 "U" repeated, bit pattern 01010101, filling it        5 URL-like text filling about half
func qrText(f, version, d int) string {
	bits := 8*d - 4 // mode indicator
	cc := func(a, b int) int {
		if version >= 10 {
			return b
		}
		return a
	}
	switch f {
	case 0:
		return "C09"
	case 1:
		bits -= cc(10, 12)
		n := bits / 10 * 3
		switch r := bits % 10; {
		case r >= 7:
			n += 2
		case r >= 4:
			n++
		}
		return cycle("0123456789", n, version)
	case 2:
		bits -= cc(9, 11)
		n := bits / 11 * 2
		if bits%11 >= 6 {
			n++
		}
		return cycle("ABCDEFGHIJKLMNOPQRSTUVWXYZ0123456789 $%*+-./:", n, version)
	case 3:
		n := (bits - cc(8, 16)) / 8
		return cycle("abcdefghijklmnopqrstuvwxyzABCDEFGHIJKLMNOPQRSTUVWXYZ0123456789,;!?()", n, version)
	case 4:
		n := (bits - cc(8, 16)) / 8
		return strings.Repeat("U", n)
	default:
		n := (bits - cc(8, 16)) / 16
		s := "http://example.com/c09?v=" + cycle("0123456789abcdef", 200, version)
		if n < 4 {
			n = 4
		}
		return s[:n]
	}
}

func levelByName(n string) qrdec.ErrorCorrectionLevel {
	for _, l := range qrLevels {
		if l.name == n {
			return l.lvl
		}
	}
	return qrdec.ErrorCorrectionLevel_L
}

// ------------------------------------------------------------------ Data Matrix

type dmSize struct{ w, h, cap int }

// twelve ECC 200 sizes (symbol width x height in modules incl. finder, data codewords); the
// first six form the quick tier. Multi-region symbols (32, 40, 52, 32x8, 48x16) are included.
var dmSizes = []dmSize{{10, 10, 3}, {16, 16, 12}, {24, 24, 36}, {32, 32, 62}, {18, 8, 5}, {48, 16, 49},
	{12, 12, 5}, {20, 20, 22}, {40, 40, 114}, {52, 52, 204}, {32, 8, 10}, {26, 12, 16}}

// dmText builds text family f for a symbol with cap data codewords: 0 one letter (mostly pad
// codewords), 1 digits (two per codeword), 2 upper-case text (C40), 3 mixed ASCII.
func dmText(f int, sz dmSize) string {
	switch f {
	case 0:
		return "A"
	case 1:
		return cycle("0123456789", 2*(sz.cap-1), sz.w)
	case 2:
		n := (sz.cap - 2) * 3 / 2
		if n < 1 {
			n = 1
		}
		return cycle("ABCDEFGHIJKLMNOPQRSTUVWXYZ", n, sz.h)
	default:
		n := sz.cap - 1
		return cycle("aB3-Zq7.Xy", n, sz.w+sz.h)
	}
}

// ------------------------------------------------------------------ drawing

// draw has the library's writer produce the symbol (size 0x0 = one pixel per module).
func draw(s spec) (*gozxing.BitMatrix, error) {
	hints := map[gozxing.EncodeHintType]interface{}{}
	if s.Margin >= 0 {
		hints[gozxing.EncodeHintType_MARGIN] = s.Margin
	}
	switch s.Sym {
	case "qr":
		hints[gozxing.EncodeHintType_ERROR_CORRECTION] = levelByName(s.Level)
		hints[gozxing.EncodeHintType_QR_VERSION] = s.Version
		return qrcode.NewQRCodeWriter().Encode(s.Content, gozxing.BarcodeFormat_QR_CODE, 0, 0, hints)
	case "dm":
		d, _ := gozxing.NewDimension(s.DMW, s.DMH)
		hints[gozxing.EncodeHintType_MIN_SIZE] = d
		if s.DMW == s.DMH {
			hints[gozxing.EncodeHintType_DATA_MATRIX_SHAPE] = dmenc.SymbolShapeHint_FORCE_SQUARE
		} else {
			hints[gozxing.EncodeHintType_DATA_MATRIX_SHAPE] = dmenc.SymbolShapeHint_FORCE_RECTANGLE
		}
		delete(hints, gozxing.EncodeHintType_MARGIN)
		return datamatrix.NewDataMatrixWriter().Encode(s.Content, gozxing.BarcodeFormat_DATA_MATRIX, 0, 0, hints)
	}
	od := oneDByName(s.Sym)
	if od == nil {
		return nil, fmt.Errorf("unknown symbology %q", s.Sym)
	}
	var h map[gozxing.EncodeHintType]interface{}
	if len(hints) > 0 {
		h = hints
	}
	return od.mkWriter().Encode(s.Content, od.format, 0, s.Height, h)
}

func (s spec) format() gozxing.BarcodeFormat {
	switch s.Sym {
	case "qr":
		return gozxing.BarcodeFormat_QR_CODE
	case "dm":
		return gozxing.BarcodeFormat_DATA_MATRIX
	}
	return oneDByName(s.Sym).format
}

func (s spec) expect() string {
	if s.Sym == "qr" || s.Sym == "dm" {
		return s.Content
	}
	return oneDByName(s.Sym).expect(s.Content)
}

func (s spec) reader() gozxing.Reader {
	switch s.Sym {
	case "qr":
		return qrcode.NewQRCodeReader()
	case "dm":
		return datamatrix.NewDataMatrixReader()
	}
	return oneDByName(s.Sym).mkReader()
}
