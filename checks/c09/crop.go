package main

// Cropped pages: a symbol (scaled, padded, rotated) is pasted off-centre into a larger white page
// that also holds a DIFFERENT symbol elsewhere; the reader is given BinaryBitmap.Crop(window) of
// the page. What it reads must be exactly what it reads from a fresh image holding the same
// window pixels — in particular never the other symbol's content, and sideways 1-D symbols must
// still be read under TRY_HARDER. (The library's crop and rotate views are index arithmetic on the
// page; every asymmetric placement is enumerated.)

import (
	"fmt"

	"verif/mc"

	"github.com/makiuchi-d/gozxing"
)

type cropCase struct {
	Spec       spec
	Other      spec
	Scale, Rot int
	Left, Top  int
	PageW      int
	PageH      int
	TryHarder  bool
}

func runCropped() {
	var specs []spec
	q := qrSpecs()
	d := dmSpecs()
	o := oneDSpecs([]int{20}, 30)
	specs = append(specs, q[0], q[len(q)/2], d[0], d[len(d)-1])
	for i := 0; i < len(o); i += chk.Pick(4, 2) {
		specs = append(specs, o[i])
	}
	type job struct {
		si  int
		rot int
	}
	var jobs []job
	for si := range specs {
		for _, rot := range []int{0, 90, 180, 270} {
			jobs = append(jobs, job{si, rot})
		}
	}
	chk.Range(fmt.Sprintf("cropped pages: %d symbols x 4 rotations x scale {2,3} x 9 asymmetric placements in a page that also holds another symbol x TRY_HARDER {off,on}: read(BinaryBitmap.Crop(window)) == read(fresh image of the window pixels)", len(specs)), len(jobs),
		func(i int) string { return fmt.Sprint(specs[jobs[i].si], " rot ", jobs[i].rot) },
		func(l *mc.Local, i int) {
			j := jobs[i]
			s := specs[j.si]
			s2, base, err := drawFitting(s)
			if err != nil {
				return
			}
			s = s2
			other := specs[(j.si+1)%len(specs)]
			other, obase, err := drawFitting(other)
			if err != nil {
				return
			}
			for _, scale := range []int{2, 3} {
				sym := base.scalePad(scale, 6).rotate(j.rot)
				osym := obase.scalePad(2, 4)
				for _, place := range [][2]int{{0, 0}, {1, 0}, {0, 3}, {17, 0}, {0, 29}, {40, 7}, {5, 33}, {64, 64}, {31, 2}} {
					left, top := place[0], place[1]
					pageW := left + sym.w + osym.w + 23
					pageH := top + imaxc(sym.h, osym.h) + 11
					page := newGrid(pageW, pageH)
					for y := 0; y < sym.h; y++ {
						for x := 0; x < sym.w; x++ {
							page.px[(top+y)*pageW+left+x] = sym.at(x, y)
						}
					}
					ox := left + sym.w + 20
					for y := 0; y < osym.h; y++ {
						for x := 0; x < osym.w; x++ {
							page.px[(3+y)*pageW+ox+x] = osym.at(x, y)
						}
					}
					for _, th := range []bool{false, true} {
						cc := cropCase{s, other, scale, j.rot, left, top, pageW, pageH, th}
						want := readImage(l, s, sym, th, nil)
						got := readCropped(l, s, page, left, top, sym.w, sym.h, th)
						if got.kind != want.kind || got.text != want.text || got.format != want.format {
							cls := "differs"
							if got.kind == "ok" && got.text == other.expect() {
								cls = "reads-the-other-symbol"
							} else if got.kind == "panic" {
								cls = "panic/" + got.site
							}
							chk.Violation("C09/cropped/"+cls, fmt.Sprintf("%v scale %d rot %d placed at (%d,%d) in a %dx%d page, TRY_HARDER=%v: through BinaryBitmap.Crop the reader gives %s %q %s, from the same pixels as a fresh image it gives %s %q", s, scale, j.rot, left, top, pageW, pageH, th, got.kind, got.text, got.err, want.kind, want.text), cc)
						} else if got.kind == "ok" {
							l.Distinct("nontrivial", fmt.Sprint("crop", s.keyName(), scale, j.rot, left, top, th))
						}
					}
				}
			}
		})
	chk.Sample("cropped page", map[string]interface{}{"symbol": "Code 128 rotated 90, scale 2", "placement": "(17,0) in a page that also holds a QR symbol", "hint": "TRY_HARDER"})
}

func imaxc(a, b int) int {
	if a > b {
		return a
	}
	return b
}

func readCropped(l *mc.Local, s spec, page *grid, left, top, w, h int, tryHarder bool) (o outcome) {
	o.orient = -1
	var res *gozxing.Result
	var err error
	pm, site := mc.Guard(func() {
		bmp, e := gozxing.NewBinaryBitmapFromImage(page.gray())
		if e != nil {
			err = e
			return
		}
		if !bmp.IsCropSupported() {
			err = fmt.Errorf("crop not supported")
			return
		}
		c, e := bmp.Crop(left, top, w, h)
		if e != nil {
			err = e
			return
		}
		res, err = s.reader().Decode(c, hintsFor(tryHarder, w+h))
	})
	l.Count("evaluations", 1)
	switch {
	case pm != "":
		o.kind, o.err, o.site = "panic", pm, site
	case err != nil:
		o.kind, o.err = errKind(err), fmt.Sprintf("%T %v", err, err)
	case res == nil:
		o.kind, o.err = "other", "nil result and nil error"
	default:
		o.kind, o.text, o.format = "ok", res.GetText(), res.GetBarcodeFormat()
	}
	return o
}

// Reader-object histories: the 2-D readers (and every 1-D reader) must give for an image what a
// fresh reader object gives, whatever the same object read before. ALL sequences of up to three
// reads from a menu of poses of two symbols of the reader's own symbology plus a blank page and
// another symbology are made on ONE reader object.
func runReaderHistories() {
	type fam struct {
		name  string
		a, b  spec
		alien spec
	}
	q := qrSpecs()
	d := dmSpecs()
	o := oneDSpecs([]int{20}, 30)
	var fams []fam
	fams = append(fams, fam{"qr", q[0], q[len(q)-1], d[0]}, fam{"dm", d[0], d[len(d)-1], q[0]})
	seen := map[string]bool{}
	for i := range o {
		if seen[o[i].Sym] {
			continue
		}
		seen[o[i].Sym] = true
		other := o[i]
		for k := i + 1; k < len(o); k++ {
			if o[k].Sym == o[i].Sym && o[k].Content != o[i].Content {
				other = o[k]
				break
			}
		}
		fams = append(fams, fam{o[i].Sym, o[i], other, q[0]})
	}
	depth := chk.Pick(3, 3)
	chk.Range(fmt.Sprintf("reader-object histories: %d readers x ALL sequences of <=%d reads from an 8-image menu (two symbols upright / rotated 90 / rotated 180, a blank page, another symbology) x TRY_HARDER on ONE reader object (Reset() before the third read): the last outcome == a fresh reader's outcome", len(fams), depth), len(fams)*2,
		func(i int) string { return fmt.Sprint(fams[i/2].name, " tryHarder=", i%2 == 1) },
		func(l *mc.Local, i int) {
			f := fams[i/2]
			th := i%2 == 1
			var menu []*grid
			var names []string
			for _, sp := range []spec{f.a, f.b} {
				_, base, err := drawFitting(sp)
				if err != nil {
					return
				}
				g := base.scalePad(2, 8)
				menu = append(menu, g, g.rotate(90), g.rotate(180))
				names = append(names, sp.keyName()+"/0", sp.keyName()+"/90", sp.keyName()+"/180")
			}
			menu = append(menu, newGrid(90, 60))
			names = append(names, "blank")
			if _, ab, err := drawFitting(f.alien); err == nil {
				menu = append(menu, ab.scalePad(2, 8))
				names = append(names, "other-symbology")
			}
			key := func(o outcome) string { return fmt.Sprintf("%s %q %v", o.kind, o.text, o.format) }
			readWith := func(rd gozxing.Reader, g *grid) (o outcome) {
				var res *gozxing.Result
				var err error
				pm, site := mc.Guard(func() {
					bmp, e := gozxing.NewBinaryBitmapFromImage(g.gray())
					if e != nil {
						err = e
						return
					}
					res, err = rd.Decode(bmp, hintsFor(th, 0))
				})
				l.Count("evaluations", 1)
				switch {
				case pm != "":
					o.kind, o.err, o.site = "panic", pm, site
				case err != nil:
					o.kind = errKind(err)
				case res == nil:
					o.kind = "other"
				default:
					o.kind, o.text, o.format = "ok", res.GetText(), res.GetBarcodeFormat()
				}
				return o
			}
			fresh := make([]string, len(menu))
			for k, g := range menu {
				fresh[k] = key(readWith(f.a.reader(), g))
			}
			var rec func(seq []int)
			rec = func(seq []int) {
				rd := f.a.reader()
				var last outcome
				for step, k := range seq {
					if step == 2 {
						mc.Guard(func() { rd.Reset() }) // the documented call between uses: before the third read of a sequence
					}
					last = readWith(rd, menu[k])
				}
				final := seq[len(seq)-1]
				if got := key(last); got != fresh[final] {
					var ns []string
					for _, k := range seq {
						ns = append(ns, names[k])
					}
					chk.Violation("C09/reader-history/"+f.name, fmt.Sprintf("%s reader, TRY_HARDER=%v, after reading %v on the same object: the last image gives %s, a fresh reader gives %s", f.name, th, ns, got, fresh[final]), map[string]interface{}{"reader": f.name, "sequence": ns, "tryHarder": th})
				} else if len(seq) > 1 && last.kind == "ok" {
					l.Distinct("nontrivial", fmt.Sprint("rhist", f.name, th, seq))
				}
				if len(seq) < depth {
					for k := range menu {
						rec(append(append([]int{}, seq...), k))
					}
				}
			}
			for k := range menu {
				rec([]int{k})
			}
		})
}
