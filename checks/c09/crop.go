package main

// Cropped pages: a symbol (scaled, padded, rotated) is pasted off-centre into a larger white page
// that also holds a DIFFERENT symbol elsewhere; the reader is given BinaryBitmap.Crop(window) of
// the page. What it reads must be exactly what it reads from a fresh image holding the same
// window pixels — in particular never the other symbol's content, and sideways 1-D symbols must
// still be read under TRY_HARDER. (The library's crop and rotate views are index arithmetic on the
// page; every asymmetric placement is enumerated.)

import (
	"fmt"

	"verif/mc"

	"github.com/makiuchi-d/gozxing"
)

type cropCase struct {
	Spec       spec
	Other      spec
	Scale, Rot int
	Left, Top  int
	PageW      int
	PageH      int
	TryHarder  bool
}

func runCropped() {
	var specs []spec
	q := qrSpecs()
	d := dmSpecs()
	o := oneDSpecs([]int{20}, 30)
	specs = append(specs, q[0], q[len(q)/2], d[0], d[len(d)-1])
	for i := 0; i < len(o); i += chk.Pick(4, 2) {
		specs = append(specs, o[i])
	}
	type job struct {
		si  int
		rot int
	}
	var jobs []job
	for si := range specs {
		for _, rot := range []int{0, 90, 180, 270} {
			jobs = append(jobs, job{si, rot})
		}
	}
	chk.Range(fmt.Sprintf("cropped pages: %d symbols x 4 rotations x scale {2,3} x 9 asymmetric placements in a page that also holds another symbol x TRY_HARDER {off,on}: read(BinaryBitmap.Crop(window)) == read(fresh image of the window pixels)", len(specs)), len(jobs),
		func(i int) string { return fmt.Sprint(specs[jobs[i].si], " rot ", jobs[i].rot) },
		func(l *mc.Local, i int) {
			j := jobs[i]
			s := specs[j.si]
			s2, base, err := drawFitting(s)
			if err != nil {
				return
			}
			s = s2
			other := specs[(j.si+1)%len(specs)]
			other, obase, err := drawFitting(other)
			if err != nil {
				return
			}
			for _, scale := range []int{2, 3} {
				sym := base.scalePad(scale, 6).rotate(j.rot)
				osym := obase.scalePad(2, 4)
				for _, place := range [][2]int{{0, 0}, {1, 0}, {0, 3}, {17, 0}, {0, 29}, {40, 7}, {5, 33}, {64, 64}, {31, 2}} {
					left, top := place[0], place[1]
					pageW := left + sym.w + osym.w + 23
					pageH := top + imaxc(sym.h, osym.h) + 11
					page := newGrid(pageW, pageH)
					for y := 0; y < sym.h; y++ {
						for x := 0; x < sym.w; x++ {
							page.px[(top+y)*pageW+left+x] = sym.at(x, y)
						}
					}
					ox := left + sym.w + 20
					for y := 0; y < osym.h; y++ {
						for x := 0; x < osym.w; x++ {
							page.px[(3+y)*pageW+ox+x] = osym.at(x, y)
						}
					}
					for _, th := range []bool{false, true} {
						cc := cropCase{s, other, scale, j.rot, left, top, pageW, pageH, th}
						want := readImage(l, s, sym, th, nil)
						got := readCropped(l, s, page, left, top, sym.w, sym.h, th)
						if got.kind != want.kind || got.text != want.text || got.format != want.format {
							cls := "differs"
							if got.kind == "ok" && got.text == other.expect() {
								cls = "reads-the-other-symbol"
							} else if got.kind == "panic" {
								cls = "panic/" + got.site
							}
							chk.Violation("C09/cropped/"+cls, fmt.Sprintf("%v scale %d rot %d placed at (%d,%d) in a %dx%d page, TRY_HARDER=%v: through BinaryBitmap.Crop the reader gives %s %q %s, from the same pixels as a fresh image it gives %s %q", s, scale, j.rot, left, top, pageW, pageH, th, got.kind, got.text, got.err, want.kind, want.text), cc)
						} else if got.kind == "ok" {
							l.Distinct("nontrivial", fmt.Sprint("crop", s.keyName(), scale, j.rot, left, top, th))
						}
					}
				}
			}
		})
	chk.Sample("cropped page", map[string]interface{}{"symbol": "Code 128 rotated 90, scale 2", "placement": "(17,0) in a page that also holds a QR symbol", "hint": "TRY_HARDER"})
}

func imaxc(a, b int) int {
	if a > b {
		return a
	}
	return b
}

func readCropped(l *mc.Local, s spec, page *grid, left, top, w, h int, tryHarder bool) (o outcome) {
	o.orient = -1
	var res *gozxing.Result
	var err error
	pm, site := mc.Guard(func() {
		bmp, e := gozxing.NewBinaryBitmapFromImage(page.gray())
		if e != nil {
			err = e
			return
		}
		if !bmp.IsCropSupported() {
			err = fmt.Errorf("crop not supported")
			return
		}
		c, e := bmp.Crop(left, top, w, h)
		if e != nil {
			err = e
			return
		}
		res, err = s.reader().Decode(c, hintsFor(tryHarder))
	})
	l.Count("evaluations", 1)
	switch {
	case pm != "":
		o.kind, o.err, o.site = "panic", pm, site
	case err != nil:
		o.kind, o.err = errKind(err), fmt.Sprintf("%T %v", err, err)
	case res == nil:
		o.kind, o.err = "other", "nil result and nil error"
	default:
		o.kind, o.text, o.format = "ok", res.GetText(), res.GetBarcodeFormat()
	}
	return o
}
