package main

import (
	"fmt"
	"image"

	"github.com/makiuchi-d/gozxing"
)

// grid is a plain module/pixel raster, true = dark. It is the check's own representation; the
// library's BitMatrix is only read through Get(x,y) when a writer's output is copied into it.
type grid struct {
	w, h int
	px   []bool // row-major
}

func newGrid(w, h int) *grid { return &grid{w, h, make([]bool, w*h)} }

func (g *grid) at(x, y int) bool { return g.px[y*g.w+x] }

func gridOf(m *gozxing.BitMatrix) *grid {
	g := newGrid(m.GetWidth(), m.GetHeight())
	for y := 0; y < g.h; y++ {
		for x := 0; x < g.w; x++ {
			g.px[y*g.w+x] = m.Get(x, y)
		}
	}
	return g
}

// toBitMatrix builds a library BitMatrix from a grid (used for the bit-level decoder obligation).
func (g *grid) toBitMatrix() *gozxing.BitMatrix {
	m, _ := gozxing.NewBitMatrix(g.w, g.h)
	for y := 0; y < g.h; y++ {
		for x := 0; x < g.w; x++ {
			if g.at(x, y) {
				m.Set(x, y)
			}
		}
	}
	return m
}

// transpose mirrors the raster about its main diagonal: out(x,y) = in(y,x).
func (g *grid) transpose() *grid {
	o := newGrid(g.h, g.w)
	for y := 0; y < o.h; y++ {
		for x := 0; x < o.w; x++ {
			o.px[y*o.w+x] = g.at(y, x)
		}
	}
	return o
}

// scalePad enlarges every module to s x s pixels and then adds p white pixels on every side.
func (g *grid) scalePad(s, p int) *grid {
	o := newGrid(g.w*s+2*p, g.h*s+2*p)
	for y := 0; y < g.h; y++ {
		for x := 0; x < g.w; x++ {
			if !g.at(x, y) {
				continue
			}
			for dy := 0; dy < s; dy++ {
				row := (p + y*s + dy) * o.w
				for dx := 0; dx < s; dx++ {
					o.px[row+p+x*s+dx] = true
				}
			}
		}
	}
	return o
}

// rot90 turns the raster clockwise by a quarter turn: the old top-left pixel becomes the new
// top-right pixel.  out has size h x w and out(x', y') = in(y', h-1-x').
func (g *grid) rot90() *grid {
	o := newGrid(g.h, g.w)
	for y := 0; y < o.h; y++ {
		for x := 0; x < o.w; x++ {
			o.px[y*o.w+x] = g.at(y, g.h-1-x)
		}
	}
	return o
}

// rotate turns the raster clockwise by deg in {0,90,180,270}.
func (g *grid) rotate(deg int) *grid {
	o := g
	for k := 0; k < deg/90; k++ {
		o = o.rot90()
	}
	return o
}

func (g *grid) gray() *image.Gray {
	img := image.NewGray(image.Rect(0, 0, g.w, g.h))
	for y := 0; y < g.h; y++ {
		for x := 0; x < g.w; x++ {
			v := byte(255)
			if g.at(x, y) {
				v = 0
			}
			img.Pix[y*img.Stride+x] = v
		}
	}
	return img
}

func (g *grid) dark() int {
	n := 0
	for _, v := range g.px {
		if v {
			n++
		}
	}
	return n
}

func (g *grid) equal(o *grid) bool {
	if g.w != o.w || g.h != o.h {
		return false
	}
	for i := range g.px {
		if g.px[i] != o.px[i] {
			return false
		}
	}
	return true
}

// transform is one element of the enumerated group.
type transform struct {
	Pad, Scale, Rot int
	Mirror          bool
	Extra           [4]int `json:",omitempty"` // further white pixels left, top, right, bottom (before the rotation): asymmetric placement
}

// apply: mirror (transpose of the module matrix), upscale, pad, rotate clockwise.
func (t transform) apply(g *grid) *grid {
	if t.Mirror {
		g = g.transpose()
	}
	g = g.scalePad(t.Scale, t.Pad)
	if t.Extra != [4]int{} {
		o := newGrid(g.w+t.Extra[0]+t.Extra[2], g.h+t.Extra[1]+t.Extra[3])
		for y := 0; y < g.h; y++ {
			copy(o.px[(y+t.Extra[1])*o.w+t.Extra[0]:], g.px[y*g.w:(y+1)*g.w])
		}
		g = o
	}
	return g.rotate(t.Rot)
}

// selfTestTransforms checks the check's own image algebra on an asymmetric raster, so that a
// mistake in the harness cannot be reported as a library defect. Returns "" when consistent.
func selfTestTransforms() string {
	g := newGrid(5, 3)
	for _, p := range [][2]int{{0, 0}, {1, 0}, {4, 0}, {2, 1}, {0, 2}, {3, 2}} {
		g.px[p[1]*g.w+p[0]] = true
	}
	if !g.rotate(90).rotate(270).equal(g) || !g.rotate(180).rotate(180).equal(g) || !g.rotate(90).rotate(90).equal(g.rotate(180)) {
		return "rotations do not compose"
	}
	r := g.rotate(180)
	for i := range g.px {
		if g.px[i] != r.px[len(r.px)-1-i] {
			return "rotate(180) is not the pixel reversal"
		}
	}
	q := g.rotate(90)
	if q.w != 3 || q.h != 5 || !q.at(2, 0) || !q.at(2, 1) || !q.at(2, 4) || !q.at(0, 0) {
		// (0,0)->(2,0), (1,0)->(2,1), (4,0)->(2,4), (0,2)->(0,0)
		return "rot90 is not a clockwise quarter turn"
	}
	if !g.transpose().transpose().equal(g) || g.transpose().w != 3 || !g.transpose().at(1, 2) {
		return "transpose is wrong"
	}
	// a transposition is a quarter turn followed by a left-right flip: it must NOT equal any rotation
	for _, d := range []int{0, 90, 180, 270} {
		if g.transpose().equal(g.rotate(d)) {
			return "test raster is too symmetric"
		}
	}
	sp := g.scalePad(3, 2)
	if sp.w != 19 || sp.h != 13 || sp.dark() != 9*g.dark() || sp.at(1, 1) || !sp.at(2, 2) || !sp.at(4, 4) || !sp.at(5, 2) || sp.at(8, 2) {
		return "scalePad is wrong"
	}
	for y := 0; y < sp.h; y++ {
		for x := 0; x < sp.w; x++ {
			in := x >= 2 && y >= 2 && x < sp.w-2 && y < sp.h-2
			if !in && sp.at(x, y) {
				return "padding is not white"
			}
			if in && sp.at(x, y) != g.at((x-2)/3, (y-2)/3) {
				return "scaled pixel does not show its module"
			}
		}
	}
	img := sp.gray()
	if img.Bounds().Dx() != 19 || img.GrayAt(2, 2).Y != 0 || img.GrayAt(0, 0).Y != 255 {
		return "gray conversion is wrong"
	}
	m := g.toBitMatrix()
	if !gridOf(m).equal(g) {
		return "BitMatrix copy is wrong"
	}
	return ""
}

func (t transform) String() string {
	if t.Extra != [4]int{} {
		return fmt.Sprintf("pad%d+ltrb%v/x%d/rot%d/mirror=%v", t.Pad, t.Extra, t.Scale, t.Rot, t.Mirror)
	}
	return fmt.Sprintf("pad%d/x%d/rot%d/mirror=%v", t.Pad, t.Scale, t.Rot, t.Mirror)
}
