// C09 — located symbols are never misread; orientation and mirroring are handled.
//
// Symbols are drawn by the library's own writers, transformed by this check's own raster code
// (pad p white pixels per side, integer upscale, clockwise rotation by k*90 degrees, transpose
// for QR) and read through the normal locating path (no PURE_BARCODE), with and without
// TRY_HARDER. The whole transform group is enumerated for every symbol. The oracle is the
// statement itself: the outcome is exactly the encoded content, or a NotFound / Checksum /
// Format error. Every outcome class is counted per transform class so that a group in which
// nothing was ever read is visible (flagged as vacuous, not as a violation).
//
// Positive obligations (violations when they fail): a 1-D symbol with comfortable quiet zones
// turned by 180 degrees reads with ORIENTATION 180; turned by 90/270 degrees it reads under
// TRY_HARDER; the QR decoder reads the transposed module matrix and flags it as mirrored; a
// transposed QR image reads whenever the untransposed image of the same pose reads.
package main

import (
	"errors"
	"fmt"
	"sort"
	"strings"
	"sync"

	"verif/mc"

	"github.com/makiuchi-d/gozxing"
	"github.com/makiuchi-d/gozxing/oned"
	qrdec "github.com/makiuchi-d/gozxing/qrcode/decoder"
)

var chk *mc.Check

// rcase is the replay record of one read.
type rcase struct {
	Mode      string // "image" (transform + reader) | "image-mirror-any" (whole group on one QR symbol) | "bits-mirror" (QR decoder on the transposed module matrix)
	Spec      spec
	T         transform
	TryHarder bool
}

func (c rcase) String() string {
	if c.Mode == "bits-mirror" {
		return fmt.Sprintf("qrcode/decoder.Decode(transpose(%v))", c.Spec)
	}
	return fmt.Sprintf("%v %v tryHarder=%v", c.Spec, c.T, c.TryHarder)
}

type outcome struct {
	kind   string // ok | notfound | checksum | format | other | panic
	text   string
	format gozxing.BarcodeFormat
	orient int // ORIENTATION metadata, -1 when absent
	err    string
	site   string
}

const (
	kOK = iota
	kNotFound
	kChecksum
	kFormat
	kOther
	kPanic
	nKinds
)

var kindNames = [nKinds]string{"ok", "notfound", "checksum", "format", "other", "panic"}

func kindIndex(k string) int {
	for i, n := range kindNames {
		if n == k {
			return i
		}
	}
	return kOther
}

func errKind(err error) string {
	var nf gozxing.NotFoundException
	var ce gozxing.ChecksumException
	var fe gozxing.FormatException
	switch {
	case errors.As(err, &nf):
		return "notfound"
	case errors.As(err, &ce):
		return "checksum"
	case errors.As(err, &fe):
		return "format"
	}
	return "other"
}

// flagValues: TRY_HARDER is documented as "Doesn't matter what it maps to": a caller may use the
// hint map as a set. The value given rotates with the image size over true, untyped nil, struct{}{}
// and 1, so that every value is used on every symbology and pose class.
var flagValues = []interface{}{true, nil, struct{}{}, 1}

func hintsFor(tryHarder bool, variant int) map[gozxing.DecodeHintType]interface{} {
	if tryHarder {
		return map[gozxing.DecodeHintType]interface{}{gozxing.DecodeHintType_TRY_HARDER: flagValues[variant%len(flagValues)]}
	}
	return nil
}

// readImage is the observation point of the property: a fresh reader on a fresh bitmap of the
// transformed raster, through the normal locating path.
func readImage(l *mc.Local, s spec, g *grid, tryHarder bool, extra map[gozxing.DecodeHintType]interface{}) (o outcome) {
	o.orient = -1
	var res *gozxing.Result
	var err error
	hints := hintsFor(tryHarder, g.w+g.h)
	if extra != nil {
		if hints == nil {
			hints = map[gozxing.DecodeHintType]interface{}{}
		}
		for k, v := range extra {
			hints[k] = v
		}
	}
	pm, site := mc.Guard(func() {
		bmp, e := gozxing.NewBinaryBitmapFromImage(g.gray())
		if e != nil {
			err = e
			return
		}
		res, err = s.reader().Decode(bmp, hints)
	})
	l.Count("evaluations", 1)
	switch {
	case pm != "":
		o.kind, o.err, o.site = "panic", pm, site
	case err != nil:
		o.kind, o.err = errKind(err), fmt.Sprintf("%T %v", err, err)
	case res == nil:
		o.kind, o.err = "other", "nil result and nil error"
	default:
		o.kind, o.text, o.format = "ok", res.GetText(), res.GetBarcodeFormat()
		if v, ok := res.GetResultMetadata()[gozxing.ResultMetadataType_ORIENTATION]; ok {
			if n, ok := v.(int); ok {
				o.orient = n
			} else {
				o.orient = -2
			}
		}
	}
	return o
}

// unlocated reads the untransformed symbol without the locating heuristics (PURE_BARCODE for the
// 2-D readers, a comfortable plain pose for 1-D). It is used only to classify a wrong text.
func unlocated(l *mc.Local, s spec, base *grid) outcome {
	if s.Sym == "qr" || s.Sym == "dm" {
		return readImage(l, s, transform{Pad: 16, Scale: 4}.apply(base), false, map[gozxing.DecodeHintType]interface{}{gozxing.DecodeHintType_PURE_BARCODE: true})
	}
	return readImage(l, s, transform{Pad: 16, Scale: 4}.apply(base), false, nil)
}

// judge applies the negative guarantee (and the orientation clause for upside-down 1-D reads)
// to one outcome.
func judge(l *mc.Local, c rcase, base *grid, o outcome) {
	s := c.Spec
	kn := s.keyName()
	switch o.kind {
	case "panic":
		chk.Violation("C09/panic/"+o.site, fmt.Sprintf("panic %q reading %v", o.err, c), c)
	case "other":
		chk.Violation("C09/error-kind/"+kn, fmt.Sprintf("error %s is not a NotFound/Checksum/Format exception, reading %v", o.err, c), c)
	case "ok":
		want := s.expect()
		if o.text != want {
			key := "C09/" + kn + "/different-text"
			note := ""
			if u := unlocated(l, s, base); u.kind == "ok" && u.text != want {
				key += "/also-unlocated"
				note = fmt.Sprintf(" (the untransformed symbol read without locating gives %q too: the cause is in the writer or decoder, not in locating)", u.text)
			}
			chk.Violation(key, fmt.Sprintf("read %q instead of %q from %v%s", o.text, want, c, note), c)
			return
		}
		if o.format != s.format() {
			chk.Violation("C09/"+kn+"/wrong-format", fmt.Sprintf("format %v instead of %v from %v", o.format, s.format(), c), c)
		}
		if s.Sym != "qr" && s.Sym != "dm" && c.T.Rot == 180 && o.orient != 180 {
			chk.Violation("C09/1d/"+s.Sym+"/rot180-orientation", fmt.Sprintf("upside-down symbol read correctly but ORIENTATION is %s, not 180: %v", orientStr(o.orient), c), c)
		}
	}
}

func orientStr(o int) string {
	if o == -1 {
		return "absent"
	}
	return fmt.Sprint(o)
}

// ------------------------------------------------------------------ outcome table

type tkey struct {
	sym             string
	rot, scale, pad int
	mirror, th      bool
}

type table map[tkey]*[nKinds]int

var (
	tableMu sync.Mutex
	global  = table{}
)

func (t table) add(k tkey, kind string) {
	a := t[k]
	if a == nil {
		a = new([nKinds]int)
		t[k] = a
	}
	a[kindIndex(kind)]++
}

func (t table) mergeIntoGlobal() {
	tableMu.Lock()
	for k, a := range t {
		g := global[k]
		if g == nil {
			g = new([nKinds]int)
			global[k] = g
		}
		for i := range a {
			g[i] += a[i]
		}
	}
	tableMu.Unlock()
}

// ------------------------------------------------------------------ the transform group

type group struct {
	pads, scales []int
	rots         []int
}

func theGroup() group {
	if chk.Quick() {
		return group{[]int{0, 4, 16}, []int{1, 2, 3, 5}, []int{0, 90, 180, 270}}
	}
	return group{[]int{0, 1, 4, 16, 40}, []int{1, 2, 3, 4, 5, 6}, []int{0, 90, 180, 270}}
}

func (g group) name() string {
	return fmt.Sprintf("padding %v px x scale %v x rotation %v x TRY_HARDER {off,on}", g.pads, g.scales, g.rots)
}

// runGroup enumerates the whole group on one symbol.
func runGroup(l *mc.Local, s spec, base *grid, g group, withMirror bool) {
	tb := table{}
	mirrors := []bool{false}
	if withMirror {
		mirrors = []bool{false, true}
	}
	plainAny, mirrorAny := 0, 0 // poses at scale >= 3 that read the content, untransposed / transposed
	var lost []string           // poses whose untransposed image reads but whose transposed twin does not
	for _, sc := range g.scales {
		for _, pad := range g.pads {
			for _, rot := range g.rots {
				for _, th := range []bool{false, true} {
					plainOK := false
					for _, mir := range mirrors {
						t := transform{Pad: pad, Scale: sc, Rot: rot, Mirror: mir}
						c := rcase{"image", s, t, th}
						l.Beat(c.String())
						o := readImage(l, s, t.apply(base), th, nil)
						judge(l, c, base, o)
						tb.add(tkey{s.tableName(), rot, sc, pad, mir, th}, o.kind)
						good := o.kind == "ok" && o.text == s.expect()
						l.Distinct("outcomes", fmt.Sprint(s.tableName(), rot, mir, th, o.kind, o.orient))
						if o.kind != "notfound" {
							l.Distinct("nontrivial", fmt.Sprint(s, t, th))
						}
						if sc < 3 {
							continue
						}
						switch {
						case !mir:
							plainOK = good
							if good {
								plainAny++
							}
						case good:
							mirrorAny++
						case plainOK:
							lost = append(lost, fmt.Sprintf("%v tryHarder=%v: %s", t, th, o.kind))
						}
					}
				}
			}
		}
	}
	tb.mergeIntoGlobal()
	if withMirror {
		l.Count("qr_poses_scale>=3_read_untransposed", int64(plainAny))
		l.Count("qr_poses_scale>=3_read_transposed", int64(mirrorAny))
		l.Count("qr_poses_scale>=3_read_untransposed_but_not_transposed", int64(len(lost)))
		if len(lost) > 0 {
			chk.Sample("transposed pose lost to the locating heuristics (accepted: an error outcome)", map[string]interface{}{"symbol": s.String(), "poses": lost})
		}
		if plainAny > 0 && mirrorAny == 0 {
			c := rcase{"image-mirror-any", s, transform{}, false}
			chk.Violation("C09/qr/mirrored-not-read", fmt.Sprintf("%d untransposed poses at scale >= 3 read %q but not one of the transposed (mirrored) poses of the same symbol does (e.g. %s): %v", plainAny, clip(s.expect(), 40), lost[0], s), c)
		}
	}
}

// ------------------------------------------------------------------ symbol construction

// drawFitting draws s; while the writer refuses the text as too long (QR at a forced version) or
// returns a larger symbol than requested (Data Matrix), the text is shortened by one character.
func drawFitting(s spec) (spec, *grid, error) {
	for {
		var m *gozxing.BitMatrix
		var err error
		pm, _ := mc.Guard(func() { m, err = draw(s) })
		if pm != "" {
			return s, nil, fmt.Errorf("writer panicked: %s", pm)
		}
		fits := err == nil && m != nil
		if fits && s.Sym == "dm" && (m.GetWidth() != s.DMW || m.GetHeight() != s.DMH) {
			fits = false
			err = fmt.Errorf("writer chose %dx%d", m.GetWidth(), m.GetHeight())
		}
		if fits {
			return s, gridOf(m), nil
		}
		if (s.Sym != "qr" && s.Sym != "dm") || len(s.Content) <= 1 {
			return s, nil, err
		}
		s.Content = s.Content[:len(s.Content)-1]
	}
}

var notDrawn struct {
	sync.Mutex
	n     int
	first string
}

func cannotDraw(s spec, err error) {
	notDrawn.Lock()
	notDrawn.n++
	if notDrawn.first == "" {
		notDrawn.first = fmt.Sprintf("%v: %v", s, err)
	}
	notDrawn.Unlock()
}

// tableName is the symbology label of the outcome table (QR is split by the writer's quiet zone).
func (s spec) tableName() string {
	if s.Sym == "qr" && s.Margin >= 0 {
		return fmt.Sprintf("qr(margin %d)", s.Margin)
	}
	return s.Sym
}

func withMargin(ss []spec, m int) []spec {
	out := append([]spec{}, ss...)
	for i := range out {
		out[i].Margin = m
	}
	return out
}

func qrSpecs() []spec {
	versions := []int{1, 2, 3, 4, 5, 6, 7, 8, 9, 10}
	levels := []int{0, 1, 2, 3}
	fams := []int{0, 1, 2, 3, 4, 5}
	if chk.Quick() {
		versions, levels, fams = []int{1, 2, 3, 5, 7, 10}, []int{0, 3}, []int{1, 3}
	}
	var out []spec
	for _, v := range versions {
		for _, li := range levels {
			for _, f := range fams {
				out = append(out, spec{Sym: "qr", Content: qrText(f, v, qrDataCodewords[v][li]), Version: v, Level: qrLevels[li].name, Margin: -1})
			}
		}
	}
	return out
}

func dmSpecs() []spec {
	sizes, fams := dmSizes, []int{0, 1, 2, 3}
	if chk.Quick() {
		sizes, fams = dmSizes[:6], []int{1, 3}
	}
	var out []spec
	for _, sz := range sizes {
		for _, f := range fams {
			out = append(out, spec{Sym: "dm", Content: dmText(f, sz), DMW: sz.w, DMH: sz.h, Margin: -1})
		}
	}
	return out
}

func oneDSpecs(heights []int, margin int) []spec {
	var out []spec
	for _, od := range oneDs {
		n := chk.Pick(4, len(od.contents))
		for _, c := range od.contents[:n] {
			for _, h := range heights {
				m := margin
				if m < od.minMargin {
					m = od.minMargin
				}
				out = append(out, spec{Sym: od.name, Content: c, Height: h, Margin: m})
			}
		}
	}
	return out
}

func countNames(ss []spec) string {
	texts := map[string]bool{}
	for _, s := range ss {
		texts[s.Sym+"\x00"+s.Content] = true
	}
	return fmt.Sprintf("%d symbols (%d distinct contents)", len(ss), len(texts))
}

// ------------------------------------------------------------------ sub-spaces

func runFamily(name string, specs []spec, withMirror bool) {
	g := theGroup()
	per := len(g.pads) * len(g.scales) * len(g.rots) * 2
	if withMirror {
		per *= 2
	}
	full := fmt.Sprintf("%s: %s x full transform group [%s%s] = %d reads per symbol", name, countNames(specs), g.name(), map[bool]string{true: " x mirror {no,yes}", false: ""}[withMirror], per)
	chk.Range(full, len(specs),
		func(i int) string { return specs[i].String() },
		func(l *mc.Local, i int) {
			s, base, err := drawFitting(specs[i])
			if err != nil {
				cannotDraw(specs[i], err)
				return
			}
			l.Count("symbols", 1)
			runGroup(l, s, base, g, withMirror)
			if i%17 == 0 {
				chk.Sample("symbol:"+s.Sym, map[string]interface{}{"spec": s, "expect": s.expect(), "modules": fmt.Sprintf("%dx%d", base.w, base.h), "reads": per})
			}
		})
}

// run1DObligations: comfortable symbols (margin 30 = 15 modules per side, height 30, scale >= 2):
// upside down -> content with ORIENTATION 180 (plain and TRY_HARDER); sideways -> content under TRY_HARDER.
func run1DObligations() {
	specs := oneDSpecs([]int{30}, 30)
	// paddings 0..16: with an even scale the image width takes every even residue modulo 32, so
	// that the word-boundary cases of the row reversal (width a multiple of 32) are inside the bound
	scales, pads := []int{2, 3, 4}, []int{0, 1, 2, 3, 4, 5, 6, 7, 8, 9, 10, 11, 12, 13, 14, 15, 16}
	name := fmt.Sprintf("1-D positive obligations: %s, MARGIN 30, height 30 x scale %v x padding %v x {rot180 plain, rot180 TRY_HARDER, rot90 TRY_HARDER, rot270 TRY_HARDER, rot0 plain (control)}", countNames(specs), scales, pads)
	chk.Range(name, len(specs),
		func(i int) string { return specs[i].String() },
		func(l *mc.Local, i int) {
			s, base, err := drawFitting(specs[i])
			if err != nil {
				cannotDraw(specs[i], err)
				return
			}
			want := s.expect()
			for _, sc := range scales {
				for _, pad := range pads {
					ctl := readImage(l, s, transform{Pad: pad, Scale: sc}.apply(base), false, nil)
					judge(l, rcase{"image", s, transform{Pad: pad, Scale: sc}, false}, base, ctl)
					ctlS := fmt.Sprintf("; the upright image gives %s %q", ctl.kind, ctl.text)
					for _, p := range []struct {
						rot int
						th  bool
					}{{180, false}, {180, true}, {90, true}, {270, true}} {
						t := transform{Pad: pad, Scale: sc, Rot: p.rot}
						c := rcase{"image", s, t, p.th}
						l.Beat(c.String())
						o := readImage(l, s, t.apply(base), p.th, nil)
						judge(l, c, base, o) // wrong text, wrong format, wrong orientation of a successful upside-down read
						l.Distinct("outcomes", fmt.Sprint("oblig", s.Sym, p.rot, p.th, o.kind, o.orient))
						l.Distinct("nontrivial", fmt.Sprint("oblig", s, t, p.th))
						if o.kind == "ok" && o.text == want {
							continue
						}
						if o.kind == "ok" || o.kind == "panic" || o.kind == "other" {
							continue // already reported by judge under its own key
						}
						if p.rot == 180 {
							chk.Violation("C09/1d/"+s.Sym+"/rot180-not-read", fmt.Sprintf("upside-down symbol not read (%s %s): %v%s", o.kind, o.err, c, ctlS), c)
						} else {
							chk.Violation("C09/1d/"+s.Sym+"/rot90-tryharder-not-read", fmt.Sprintf("sideways symbol not read under TRY_HARDER (%s %s): %v%s", o.kind, o.err, c, ctlS), c)
						}
					}
				}
			}
		})
}

// run1DHintCombos: an upside-down or sideways symbol is read on a second attempt (reversed row,
// rotated image) for which the reader rebuilds its hint map when a result-point callback is
// given. Whatever hints the caller passed must act on that attempt exactly as on an upright
// symbol: for every symbol the read of the turned image under a hint set must give the text the
// upright image gives under the SAME hint set (row-level hints change the text: Codabar start/end
// characters, the GS1 prefix of Code 128, the lengths ITF accepts).
func run1DHintCombos() {
	specs := oneDSpecs([]int{30}, 30)
	cb := gozxing.ResultPointCallback(func(gozxing.ResultPoint) {})
	type hs struct {
		name string
		mk   func(s spec) map[gozxing.DecodeHintType]interface{}
	}
	rowHints := func(s spec) map[gozxing.DecodeHintType]interface{} {
		return map[gozxing.DecodeHintType]interface{}{
			gozxing.DecodeHintType_RETURN_CODABAR_START_END: true,
			gozxing.DecodeHintType_ASSUME_GS1:               true,
			gozxing.DecodeHintType_ALLOWED_LENGTHS:          []int{len(s.expect()), len(s.Content)},
			gozxing.DecodeHintType_ALLOWED_EAN_EXTENSIONS:   []int{0, 2, 5}[:0],
		}
	}
	sets := []hs{
		{"callback", func(s spec) map[gozxing.DecodeHintType]interface{} {
			return map[gozxing.DecodeHintType]interface{}{gozxing.DecodeHintType_NEED_RESULT_POINT_CALLBACK: cb}
		}},
		{"row-hints", rowHints},
		{"callback+row-hints", func(s spec) map[gozxing.DecodeHintType]interface{} {
			h := rowHints(s)
			h[gozxing.DecodeHintType_NEED_RESULT_POINT_CALLBACK] = cb
			return h
		}},
	}
	// the flag hints are switched on by PRESENCE ("doesn't matter what it maps to"): the same sets
	// with the flags mapped to nil, to struct{}{} and to false
	for _, fv := range []struct {
		name string
		v    interface{}
	}{{"nil", nil}, {"struct{}", struct{}{}}, {"false", false}} {
		fv := fv
		withFlags := func(s spec, callback bool) map[gozxing.DecodeHintType]interface{} {
			h := rowHints(s)
			h[gozxing.DecodeHintType_RETURN_CODABAR_START_END] = fv.v
			h[gozxing.DecodeHintType_ASSUME_GS1] = fv.v
			if callback {
				h[gozxing.DecodeHintType_NEED_RESULT_POINT_CALLBACK] = cb
			}
			return h
		}
		sets = append(sets,
			hs{"row-hints/flags=" + fv.name, func(s spec) map[gozxing.DecodeHintType]interface{} { return withFlags(s, false) }},
			hs{"callback+row-hints/flags=" + fv.name, func(s spec) map[gozxing.DecodeHintType]interface{} { return withFlags(s, true) }})
	}
	chk.Range(fmt.Sprintf("1-D hint combinations on turned symbols: %s, MARGIN 30, height 30, scale 2, padding 5 x rotation {180 plain, 180 / 90 / 270 TRY_HARDER} x hint sets {result-point callback, row-level hints (Codabar start/end, GS1, allowed lengths), both; the flag hints mapped to true, nil, struct{}{} and false}: the text equals the text of the upright image under the same hints", countNames(specs)), len(specs),
		func(i int) string { return specs[i].String() },
		func(l *mc.Local, i int) {
			s, base, err := drawFitting(specs[i])
			if err != nil {
				cannotDraw(specs[i], err)
				return
			}
			for _, set := range sets {
				delete(set.mk(s), gozxing.DecodeHintType_ALLOWED_EAN_EXTENSIONS)
				h := set.mk(s)
				delete(h, gozxing.DecodeHintType_ALLOWED_EAN_EXTENSIONS)
				up := readImage(l, s, transform{Pad: 5, Scale: 2}.apply(base), false, h)
				if up.kind != "ok" {
					l.Count("hint_combo_upright_not_read", 1)
					continue
				}
				for _, p := range []struct {
					rot int
					th  bool
				}{{180, false}, {180, true}, {90, true}, {270, true}} {
					t := transform{Pad: 5, Scale: 2, Rot: p.rot}
					c := rcase{"image", s, t, p.th}
					l.Beat(c.String() + " hints " + set.name)
					o := readImage(l, s, t.apply(base), p.th, h)
					l.Distinct("outcomes", fmt.Sprint("hintcombo", s.Sym, set.name, p.rot, o.kind))
					l.Distinct("nontrivial", fmt.Sprint("hintcombo", s, set.name, t, p.th))
					if o.kind == "panic" {
						chk.Violation("C09/panic/"+o.site, fmt.Sprintf("%v hints %s: %s", c, set.name, o.err), c)
						continue
					}
					if o.kind != "ok" || o.text != up.text {
						chk.Violation(fmt.Sprintf("C09/1d/%s/turned-hints-differ/%s/rot%d", s.Sym, set.name, p.rot), fmt.Sprintf("%v with hint set %q: the turned image gives %s %q, the upright image under the same hints gives %q", c, set.name, o.kind, o.text, up.text), c)
					}
				}
			}
		})
}

// run1DAsymmetric: the same comfortable symbols placed off-centre - up to five symbol heights of
// extra white on any subset of the four sides - and read under TRY_HARDER (which looks at every
// row, not only the middle ones) in all four orientations.
func run1DAsymmetric() {
	specs := oneDSpecs([]int{30}, 30)
	const scale = 2
	big := 5 * 30 * scale
	var extras [][4]int
	for m := 1; m < 16; m++ {
		var e [4]int
		for k := 0; k < 4; k++ {
			if m&(1<<uint(k)) != 0 {
				e[k] = big
			}
		}
		extras = append(extras, e)
	}
	extras = append(extras, [4]int{7, 0, big + 13, 1}, [4]int{big/2 + 5, big, 0, 3})
	chk.Range(fmt.Sprintf("1-D off-centre placements: %s, MARGIN 30, height 30, scale %d, padding 4 plus %d px of extra white on every non-empty subset of {left, top, right, bottom} (and two uneven mixes) x rotation {0,90,180,270}, all under TRY_HARDER: must be read", countNames(specs), scale, big), len(specs),
		func(i int) string { return specs[i].String() },
		func(l *mc.Local, i int) {
			s, base, err := drawFitting(specs[i])
			if err != nil {
				cannotDraw(specs[i], err)
				return
			}
			want := s.expect()
			for _, e := range extras {
				for _, rot := range []int{0, 90, 180, 270} {
					t := transform{Pad: 4, Scale: scale, Rot: rot, Extra: e}
					c := rcase{"image", s, t, true}
					l.Beat(c.String())
					o := readImage(l, s, t.apply(base), true, nil)
					judge(l, c, base, o)
					l.Distinct("outcomes", fmt.Sprint("offcentre", s.Sym, rot, o.kind, o.orient))
					l.Distinct("nontrivial", fmt.Sprint("offcentre", s, t))
					if o.kind == "ok" && o.text == want || o.kind == "ok" || o.kind == "panic" || o.kind == "other" {
						continue // read, or already reported by judge under its own key
					}
					chk.Violation(fmt.Sprintf("C09/1d/%s/off-centre-tryharder-not-read/rot%d", s.Sym, rot), fmt.Sprintf("symbol placed off-centre not read under TRY_HARDER (%s %s): %v", o.kind, o.err, c), c)
				}
			}
		})
}

// runQRBitsMirror: the decoder itself on the transposed module matrix (no image, no detector).
func runQRBitsMirror() {
	specs := withMargin(qrSpecs(), 0)
	chk.Range(fmt.Sprintf("QR decoder on the transposed module matrix: %s, MARGIN 0 (bare modules); content and mirrored flag", countNames(specs)), len(specs),
		func(i int) string { return specs[i].String() },
		func(l *mc.Local, i int) {
			s, base, err := drawFitting(specs[i])
			if err != nil {
				cannotDraw(specs[i], err)
				return
			}
			c := rcase{Mode: "bits-mirror", Spec: s}
			bitsMirror(l, c, base)
		})
}

func bitsMirror(l *mc.Local, c rcase, base *grid) {
	s := c.Spec
	decode := func(g *grid) (text string, mirrored, hasMeta bool, err error, pm, site string) {
		pm, site = mc.Guard(func() {
			r, e := qrdec.NewDecoder().Decode(g.toBitMatrix(), nil)
			l.Count("evaluations", 1)
			if e != nil {
				err = e
				return
			}
			text = r.GetText()
			if md, ok := r.GetOther().(*qrdec.QRCodeDecoderMetaData); ok && md != nil {
				hasMeta, mirrored = true, md.IsMirrored()
			}
		})
		return
	}
	ptext, pmir, _, perr, ppm, _ := decode(base)
	control := fmt.Sprintf("; the untransposed matrix gives %q mirrored=%v err=%v %s", clip(ptext, 30), pmir, perr, ppm)
	text, mir, hasMeta, err, pm, site := decode(base.transpose())
	l.Distinct("outcomes", fmt.Sprint("bits-mirror", err == nil, mir, hasMeta, pm != ""))
	l.Distinct("nontrivial", fmt.Sprint("bits-mirror", s))
	switch {
	case pm != "":
		chk.Violation("C09/panic/"+site, fmt.Sprintf("panic %q in %v", pm, c), c)
	case err != nil:
		if k := errKind(err); k == "other" {
			chk.Violation("C09/error-kind/qr-decoder", fmt.Sprintf("error %T %v is not a NotFound/Checksum/Format exception in %v", err, err, c), c)
		}
		chk.Violation("C09/qr/mirrored-not-read", fmt.Sprintf("%v failed: %T %v%s", c, err, err, control), c)
	case text != s.Content:
		chk.Violation("C09/qr/different-text", fmt.Sprintf("%v gave %q instead of %q%s", c, clip(text, 60), clip(s.Content, 60), control), c)
	case !mir:
		chk.Violation("C09/qr/mirrored-flag", fmt.Sprintf("%v read the content but is not flagged as mirrored: GetOther() is %s%s", c, map[bool]string{true: "a QRCodeDecoderMetaData with IsMirrored()==false", false: "not a *QRCodeDecoderMetaData (nil)"}[hasMeta], control), c)
	}
}

// ------------------------------------------------------------------ reporting

func reportTable() {
	// (a) vacuity per transform class (symbology x rotation x scale>=3 x padding>=4 [x mirror x TRY_HARDER])
	type gk struct {
		sym        string
		rot        int
		mirror, th bool
	}
	vac := map[gk][]string{}
	// (b) compact table for the evidence: paddings collapsed
	type ck struct {
		sym        string
		rot        int
		mirror, th bool
		scale      int
	}
	compact := map[ck]*[nKinds]int{}
	var keys []tkey
	for k := range global {
		keys = append(keys, k)
	}
	sort.Slice(keys, func(i, j int) bool { return fmt.Sprint(keys[i]) < fmt.Sprint(keys[j]) })
	totals := [nKinds]int{}
	for _, k := range keys {
		a := global[k]
		c := ck{k.sym, k.rot, k.mirror, k.th, k.scale}
		if compact[c] == nil {
			compact[c] = new([nKinds]int)
		}
		for i := range a {
			compact[c][i] += a[i]
			totals[i] += a[i]
		}
		if k.scale >= 3 && k.pad >= 4 && a[kOK] == 0 {
			g := gk{k.sym, k.rot, k.mirror, k.th}
			vac[g] = append(vac[g], fmt.Sprintf("x%d/pad%d", k.scale, k.pad))
		}
	}
	out := map[string]string{}
	for c, a := range compact {
		out[fmt.Sprintf("%s rot%03d mirror=%v tryHarder=%v scale%d", c.sym, c.rot, c.mirror, c.th, c.scale)] = fmt.Sprintf("ok %d notfound %d checksum %d format %d", a[kOK], a[kNotFound], a[kChecksum], a[kFormat])
	}
	chk.Subspace("outcome classes per (symbology, rotation, mirror, TRY_HARDER, scale), paddings summed", out)
	chk.Count("reads_ok", int64(totals[kOK]))
	chk.Count("reads_notfound", int64(totals[kNotFound]))
	chk.Count("reads_checksum", int64(totals[kChecksum]))
	chk.Count("reads_format", int64(totals[kFormat]))
	var gks []gk
	for g := range vac {
		gks = append(gks, g)
	}
	sort.Slice(gks, func(i, j int) bool { return fmt.Sprint(gks[i]) < fmt.Sprint(gks[j]) })
	var byDesign []string
	for _, g := range gks {
		sort.Strings(vac[g])
		is1D := !strings.HasPrefix(g.sym, "qr") && g.sym != "dm"
		if is1D && (g.rot == 90 || g.rot == 270) && !g.th {
			byDesign = append(byDesign, fmt.Sprintf("%s/rot%d", g.sym, g.rot))
			continue
		}
		note := fmt.Sprintf("VACUOUS transform class (no successful read, so the negative guarantee was exercised only through errors): %s rot%d mirror=%v tryHarder=%v at %s", g.sym, g.rot, g.mirror, g.th, strings.Join(vac[g], " "))
		chk.Note(note)
		fmt.Println("NOTE", note)
	}
	if len(byDesign) > 0 {
		chk.Note("vacuous by design (OneDReader does not try the rotated image without TRY_HARDER; every read was NotFound): " + strings.Join(byDesign, " "))
	}
	notDrawn.Lock()
	if notDrawn.n > 0 {
		chk.Note(fmt.Sprintf("%d symbols could not be drawn by the writer and were skipped (a writer matter, not C09): first %s", notDrawn.n, notDrawn.first))
		chk.Incomplete("symbols the writer refused", fmt.Sprintf("%d symbols, first: %s", notDrawn.n, notDrawn.first))
	}
	notDrawn.Unlock()
}

func main() {
	chk = mc.New("C09", "exploration")
	chk.Rule = "every symbol (symbology x size/level x content family) x every element of the transform group (padding x integer scale x rotation x mirror(QR) x TRY_HARDER), read on the real locating path; non-trivial = distinct (symbol, transform, hint) reads in which something was located (outcome other than NotFound)"
	chk.Assume("not finding a symbol is never a violation: any error whose chain contains a NotFound/Checksum/Format exception is an accepted outcome of every read outside the positive obligations")
	chk.Assume("expected text is the canonical form: EAN/UPC contents with the check digit appended (computed by ref/oned Mod10Check, UPC-E on its UPC-A expansion), Codabar without its start/stop characters; every symbology is read with its own reader (no multi-format guessing)")
	chk.Assume("padding is applied in output pixels after upscaling; rotation is clockwise; mirroring is the transposition of the module matrix")
	chk.Assume("'a mirrored QR Code is read' is required unconditionally of the decoder on the transposed module matrix (the statement's quantifier); for images the weaker reading is encoded: a symbol that reads in some untransposed pose at scale >= 3 must read in at least one transposed pose at scale >= 3 (a single transposed pose may be lost to the finder heuristics, e.g. payload or alignment modules imitating a finder pattern; such poses are counted and sampled, not reported)")
	chk.Assume("'sideways is read when asked to try harder' and 'upside down is read with orientation 180' are required unconditionally only for symbols with comfortable quiet zones (15 modules per side, height 30, scale 2..4); in the general group a successful upside-down read must still carry ORIENTATION 180")
	chk.Assume("UPC-E symbols are always drawn with MARGIN >= 14 (the default-margin quiet-zone problem belongs to C03); Data Matrix and QR texts are ASCII so that charset guessing (C15) cannot interfere")
	if msg := selfTestTransforms(); msg != "" {
		fmt.Println("HARNESS SELF-TEST FAILED:", msg)
		chk.Incomplete("harness", msg)
		chk.Finish()
	}
	if chk.ReplayFile() != "" {
		replay()
		chk.Finish()
	}
	runQRBitsMirror()
	run1DObligations()
	run1DAsymmetric()
	runBitmapHistories()
	run1DContentSweep()
	runRowSweep()
	run1DHintCombos()
	runFamily("QR (writer default quiet zone 4)", qrSpecs(), true)
	runFamily("QR (MARGIN 0: the padding is the only quiet zone)", withMargin(qrSpecs(), 0), true)
	runFamily("Data Matrix (writer draws no quiet zone)", dmSpecs(), false)
	runFamily("1-D, nine symbologies, heights {20,60}, writer default margin (UPC-E 14)", oneDSpecs([]int{20, 60}, -1), false)
	runCropped()
	runReaderHistories()
	reportTable()
	chk.Finish()
}

func replay() {
	var c rcase
	if err := mc.LoadReplay(chk.ReplayFile(), &c); err != nil {
		fmt.Println("cannot load replay:", err)
		return
	}
	l := chk.NewLocal()
	defer l.Merge()
	if c.Mode == "row-sweep" {
		var rc rowSweepCase
		mc.LoadReplay(chk.ReplayFile(), &rc)
		od := oneDByName(rc.Sym)
		fmt.Printf("replay row sweep %+v\n", rc)
		rowSweepOne(l, od, od.mkReader().(oned.RowDecoder), rc.Content, true)
		return
	}
	s, base, err := drawFitting(c.Spec)
	if err != nil {
		fmt.Println("cannot draw:", err)
		return
	}
	c.Spec = s
	if c.Mode == "bitmap-history" {
		var b bmhCase
		mc.LoadReplay(chk.ReplayFile(), &b)
		b.Spec = s
		fmt.Printf("replay bitmap history %+v\n", b)
		bmhOne(l, b, base)
		return
	}
	fmt.Printf("replay %v (expect %q)\n", c, s.expect())
	if c.Mode == "bits-mirror" {
		bitsMirror(l, c, base)
		return
	}
	if c.Mode == "image-mirror-any" {
		runGroup(l, s, base, theGroup(), true)
		return
	}
	o := readImage(l, s, c.T.apply(base), c.TryHarder, nil)
	fmt.Printf("  outcome %s text=%q format=%v orientation=%s err=%s\n", o.kind, o.text, o.format, orientStr(o.orient), o.err)
	judge(l, c, base, o)
	if s.Sym != "qr" && s.Sym != "dm" && s.Margin >= 30 && !(o.kind == "ok" && o.text == s.expect()) && (o.kind == "notfound" || o.kind == "checksum" || o.kind == "format") {
		if c.T.Rot == 180 {
			chk.Violation("C09/1d/"+s.Sym+"/rot180-not-read", fmt.Sprintf("upside-down symbol not read (%s %s): %v", o.kind, o.err, c), c)
		} else if c.T.Rot != 0 && c.TryHarder {
			chk.Violation("C09/1d/"+s.Sym+"/rot90-tryharder-not-read", fmt.Sprintf("sideways symbol not read under TRY_HARDER (%s %s): %v", o.kind, o.err, c), c)
		}
	}
}
