package main

// Content sweep of the upside-down obligation. Whether a reader finds a false start pattern in the
// un-reversed row of an upside-down symbol - and what it does after that false start - depends on
// the CONTENT: single contents out of thousands qualify. The obligation families use a dozen
// contents per symbology; here the content spaces are enumerated: Code 128 every printable ASCII
// string of length 1 and 2 and every 4-digit string (thorough: every 6-digit string with a stride),
// Code 39 every string of length 1..2 over its 43 characters, Code 93 every ASCII character and
// every pair over 24 of them, ITF 10000 six-digit strings, Codabar every pair of data characters,
// EAN-8 / EAN-13 / UPC-A / UPC-E 2000 numbers each - each symbol (MARGIN 30, height 30, scale 2,
// padding 3) upside down: read with its content and ORIENTATION 180.

import (
	"fmt"

	"verif/mc"
)

func sweepContents(sym string) []string {
	var out []string
	ascii := func(lo, hi int) []string {
		var a []string
		for c := lo; c <= hi; c++ {
			a = append(a, string(rune(c)))
		}
		return a
	}
	pairs := func(a []string) {
		for _, x := range a {
			out = append(out, x)
		}
		for _, x := range a {
			for _, y := range a {
				out = append(out, x+y)
			}
		}
	}
	digits := func(n, count, stride int) {
		for i := 0; i < count; i++ {
			out = append(out, fmt.Sprintf("%0*d", n, (i*stride)%pow10(n)))
		}
	}
	switch sym {
	case "Code128":
		pairs(ascii(32, 126))
		digits(4, 10000, 1)
		if !chk.Quick() {
			digits(6, 100000, 7)
		}
	case "Code39":
		var a []string
		for _, c := range "0123456789ABCDEFGHIJKLMNOPQRSTUVWXYZ-. $/+%" {
			a = append(a, string(c))
		}
		pairs(a)
	case "Code93":
		out = append(out, ascii(0, 127)...)
		var a []string
		for _, c := range "09AZaz -.$/+%!~@[{`_\x01\x1b\x7f" {
			a = append(a, string(c))
		}
		pairs(a)
	case "ITF":
		digits(6, 10000, 97)
	case "Codabar":
		for _, x := range "0123456789-$:/.+" {
			for _, y := range "0123456789-$:/.+" {
				out = append(out, "A"+string(x)+string(y)+"B")
			}
		}
	case "EAN8":
		digits(7, 2000, 4999)
	case "EAN13":
		digits(12, 2000, 499999999)
	case "UPCA":
		digits(11, 2000, 49999999)
	case "UPCE":
		for i := 0; i < 2000; i++ {
			out = append(out, upce8(fmt.Sprintf("%d%06d", i%2, (i*499)%1000000)))
		}
	}
	return out
}

func pow10(n int) int {
	p := 1
	for i := 0; i < n; i++ {
		p *= 10
	}
	return p
}

func run1DContentSweep() {
	type job struct {
		sym  string
		from int
	}
	const chunk = 256
	var jobs []job
	total := 0
	all := map[string][]string{}
	for _, od := range oneDs {
		cs := sweepContents(od.name)
		all[od.name] = cs
		total += len(cs)
		for f := 0; f < len(cs); f += chunk {
			jobs = append(jobs, job{od.name, f})
		}
	}
	chk.Range(fmt.Sprintf("1-D upside-down obligation, CONTENT sweep (%d symbols): Code 128 every printable string of length 1..2 and every 4-digit string, Code 39 every string of length 1..2, Code 93 every ASCII character and pairs over 24, ITF 10000 six-digit strings, Codabar every data pair, EAN/UPC 2000 numbers each; MARGIN 30, height 30, scale 2, padding 3, rot180: content + ORIENTATION 180", total), len(jobs),
		func(i int) string { return fmt.Sprint(jobs[i]) },
		func(l *mc.Local, i int) {
			j := jobs[i]
			od := oneDByName(j.sym)
			cs := all[j.sym]
			for k := j.from; k < j.from+chunk && k < len(cs); k++ {
				m := 30
				if m < od.minMargin {
					m = od.minMargin
				}
				sp := spec{Sym: j.sym, Content: cs[k], Height: 30, Margin: m}
				s, base, err := drawFitting(sp)
				if err != nil {
					l.Count("content sweep: contents the writer refuses (not judged here)", 1)
					continue
				}
				t := transform{Pad: 3, Scale: 2, Rot: 180}
				c := rcase{"image", s, t, false}
				l.Beat("")
				o := readImage(l, s, t.apply(base), false, nil)
				if o.kind == "ok" && o.text != s.expect() {
					// keyed by the instance: a listed known finding must never hide another content
					chk.Violation(fmt.Sprintf("C09/%s/different-text/upside-down/scale2/%q", s.keyName(), cs[k]), fmt.Sprintf("read %q (format %v, ORIENTATION %s) instead of %q from %v", o.text, o.format, orientStr(o.orient), s.expect(), c), c)
					continue
				}
				judge(l, c, base, o)
				if o.kind == "ok" {
					if o.text == s.expect() {
						l.Distinct("nontrivial", fmt.Sprint("sweep", j.sym, cs[k]))
					}
					continue
				}
				if o.kind == "panic" || o.kind == "other" {
					continue
				}
				chk.Violation("C09/1d/"+s.Sym+"/rot180-not-read", fmt.Sprintf("upside-down symbol not read (%s %s): %v", o.kind, o.err, c), c)
			}
		})
}
