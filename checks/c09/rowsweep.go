package main

// Row-level sweep of the upside-down obligation for the EAN/UPC family. An upside-down symbol is
// read correctly only if the FIRST attempt of the row scan - the un-reversed row - finds nothing:
// whatever that attempt returns is delivered without ORIENTATION 180. Whether it finds a false
// symbol depends on the number (the reversed end guard supplies a start guard, the digit patterns
// must match out of step, a false end guard must follow) and on how far the image border is from
// the false end guard, i.e. on the quiet zone in pixels. The image families read a dozen numbers,
// the content sweep 2000 per symbology at one comfortable quiet zone; here the un-reversed attempt
// itself is run (RowDecoder.DecodeRow on the mirrored pixel row, the call the row scan makes first)
// for a stride through the whole number space x every quiet zone of 7..9 modules per side in pixel
// steps (and 10 and 15 modules) at 1, 2 and 3 pixels per module, symmetric and lopsided.
//
// A number for which the attempt succeeds at some geometry is a violation keyed by the number and
// the bit mask of the geometries, so that a listed finding never hides another number or another
// geometry of the same number.

import (
	"fmt"

	"verif/mc"

	"github.com/makiuchi-d/gozxing"
	"github.com/makiuchi-d/gozxing/oned"
)

type rowGeo struct{ Scale, Left, Right int } // pixels per module, white pixels left / right of the upright symbol

var rowGeos = func() []rowGeo {
	var out []rowGeo
	for _, s := range []int{1, 2, 3} {
		for px := 7 * s; px <= 9*s; px++ {
			out = append(out, rowGeo{s, px, px})
		}
		out = append(out, rowGeo{s, 10 * s, 10 * s}, rowGeo{s, 15 * s, 15 * s})
	}
	for _, s := range []int{2, 3} {
		out = append(out, rowGeo{s, 7 * s, 9 * s}, rowGeo{s, 9 * s, 7 * s}, rowGeo{s, 8*s - 1, 15 * s}, rowGeo{s, 15 * s, 8*s - 1})
	}
	return out
}()

type rowSweepCase struct {
	Mode    string // "row-sweep"
	Sym     string
	Content string
	Mask    uint64 `json:",omitempty"`
}

// upsideDownRow: the pixel row of the symbol turned by 180 degrees.
func upsideDownRow(mods []bool, g rowGeo) *gozxing.BitArray {
	w := g.Left + len(mods)*g.Scale + g.Right
	r := gozxing.NewBitArray(w)
	for i, b := range mods {
		if !b {
			continue
		}
		for k := 0; k < g.Scale; k++ {
			r.Set(w - 1 - (g.Left + i*g.Scale + k))
		}
	}
	return r
}

func rowSweepOne(l *mc.Local, od *oneD, dec oned.RowDecoder, content string, verbose bool) {
	var m *gozxing.BitMatrix
	var err error
	pm, _ := mc.Guard(func() {
		m, err = od.mkWriter().Encode(content, od.format, 0, 1, map[gozxing.EncodeHintType]interface{}{gozxing.EncodeHintType_MARGIN: 0})
	})
	if pm != "" || err != nil || m == nil {
		l.Count("row sweep: contents the writer refuses (not judged here)", 1)
		return
	}
	mods := make([]bool, m.GetWidth())
	for x := range mods {
		mods[x] = m.Get(x, 0)
	}
	want := od.expect(content)
	var mask uint64
	first := ""
	for gi, g := range rowGeos {
		row := upsideDownRow(mods, g)
		var res *gozxing.Result
		var e error
		pm, site := mc.Guard(func() { res, e = dec.DecodeRow(0, row, nil) })
		l.Count("evaluations", 1)
		if pm != "" {
			chk.Violation("C09/panic/"+site+"/row-sweep/"+od.name, fmt.Sprintf("DecodeRow panics on the upside-down row of %s %q (%+v): %s", od.name, content, g, pm), rowSweepCase{"row-sweep", od.name, content, 0})
			return
		}
		if verbose {
			fmt.Printf("  %+v: un-reversed attempt -> %v %v\n", g, res, e)
		}
		if e == nil && res != nil {
			mask |= 1 << uint(gi)
			if first == "" {
				first = fmt.Sprintf("%+v reads %q", g, res.GetText())
			}
			continue
		}
		if gi == 0 || gi == len(rowGeos)-1 {
			// control: the same row the right way round is the symbol
			row.Reverse()
			if r2, e2 := dec.DecodeRow(0, row, nil); e2 == nil && r2.GetText() == want {
				l.Count("row sweep: upright control reads", 1)
			}
		}
	}
	if mask != 0 {
		chk.Violation(fmt.Sprintf("C09/1d:%s/row-sweep/unreversed-attempt-succeeds/%q/geometries=%#x", od.name, content, mask),
			fmt.Sprintf("upside-down %s symbol %q: the un-reversed attempt of the row scan returns a result (first: %s), so the image is read without ORIENTATION 180 as that text; geometries (scale,left,right px) with bit set in %#x of %v", od.name, want, first, mask, rowGeos),
			rowSweepCase{"row-sweep", od.name, content, mask})
		return
	}
	l.Distinct("nontrivial", "rowsweep/"+od.name+"/"+content)
}

// rowSweepContents: the k-th number of the stride through the symbology's number space.
func rowSweepContent(sym string, k, stride int) string {
	switch sym {
	case "UPCE":
		v := k * stride // 0 .. 1999999: number system digit + six digits
		return upce8(fmt.Sprintf("%d%06d", v/1000000, v%1000000))
	case "EAN8":
		return fmt.Sprintf("%07d", (k*stride)%10000000)
	case "EAN13":
		return fmt.Sprintf("%012d", (k*stride)%1000000000000)
	default:
		return fmt.Sprintf("%011d", (k*stride)%100000000000)
	}
}

func runRowSweep() {
	type fam struct {
		sym           string
		count, stride int
	}
	fams := []fam{
		{"UPCE", chk.Pick(95239, 285715), chk.Pick(21, 7)},
		{"EAN8", chk.Pick(50000, 500000), chk.Pick(199, 19)},
		{"EAN13", chk.Pick(50000, 500000), chk.Pick(19999999, 1999993)},
		{"UPCA", chk.Pick(50000, 500000), chk.Pick(1999993, 199999)},
	}
	const chunk = 1000
	type job struct {
		f    int
		from int
	}
	var jobs []job
	total := 0
	for fi, f := range fams {
		total += f.count
		for k := 0; k < f.count; k += chunk {
			jobs = append(jobs, job{fi, k})
		}
	}
	chk.Range(fmt.Sprintf("EAN/UPC upside-down obligation at row level: the un-reversed attempt (RowDecoder.DecodeRow on the mirrored row) must find nothing: UPC-E %d numbers (stride %d through all 2,000,000), EAN-8 / EAN-13 / UPC-A %d numbers each (strides %d, %d, %d) x %d quiet-zone geometries (7..9 modules per side in pixel steps, 10, 15; 1-3 px per module; lopsided) [%d numbers]", fams[0].count, fams[0].stride, fams[1].count, fams[1].stride, fams[2].stride, fams[3].stride, len(rowGeos), total), len(jobs),
		func(i int) string { return fmt.Sprint(fams[jobs[i].f].sym, " from ", jobs[i].from) },
		func(l *mc.Local, i int) {
			j := jobs[i]
			f := fams[j.f]
			od := oneDByName(f.sym)
			dec := od.mkReader().(oned.RowDecoder)
			for k := j.from; k < j.from+chunk && k < f.count; k++ {
				rowSweepOne(l, od, dec, rowSweepContent(f.sym, k, f.stride), false)
			}
			l.Beat("")
		})
	chk.Sample("row-sweep", rowSweepCase{"row-sweep", "UPCE", "01234565", 0})
}
