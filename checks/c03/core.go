package main

import (
	"errors"
	"fmt"
	"strings"

	ref "verif/ref/oned"

	"verif/mc"

	"github.com/makiuchi-d/gozxing"
	"github.com/makiuchi-d/gozxing/oned"
)

// ------------------------------------------------------------------ symbologies

type symDef struct {
	name   string
	format gozxing.BarcodeFormat
	mk     func() gozxing.Writer
	reader func() gozxing.Reader
}

var symList = []symDef{
	{"ean13", gozxing.BarcodeFormat_EAN_13, oned.NewEAN13Writer, oned.NewEAN13Reader},
	{"ean8", gozxing.BarcodeFormat_EAN_8, oned.NewEAN8Writer, oned.NewEAN8Reader},
	{"upca", gozxing.BarcodeFormat_UPC_A, oned.NewUPCAWriter, oned.NewUPCAReader},
	{"upce", gozxing.BarcodeFormat_UPC_E, oned.NewUPCEWriter, oned.NewUPCEReader},
	{"itf", gozxing.BarcodeFormat_ITF, oned.NewITFWriter, oned.NewITFReader},
	{"code39", gozxing.BarcodeFormat_CODE_39, oned.NewCode39Writer, oned.NewCode39Reader},
	{"code93", gozxing.BarcodeFormat_CODE_93, oned.NewCode93Writer, oned.NewCode93Reader},
	{"code128", gozxing.BarcodeFormat_CODE_128, oned.NewCode128Writer, oned.NewCode128Reader},
	{"codabar", gozxing.BarcodeFormat_CODABAR, oned.NewCodaBarWriter, oned.NewCodaBarReader},
}

var syms = func() map[string]symDef {
	m := map[string]symDef{}
	for _, s := range symList {
		m[s.name] = s
	}
	return m
}()

// rcase is one executed case; it is also the replay record.
type rcase struct {
	Sym     string // ean13 ean8 upca upce itf code39 code93 code128 codabar
	Content []byte
	Q       string     // quoted content, for the reader of the replay file
	W, H    int        // requested size, literal
	Margin  int        // -1: no MARGIN hint (writer default)
	CodeSet string     `json:",omitempty"` // Code 128 FORCE_CODE_SET
	Reader  string     // own | ext | ean13 | multi | multi+own | multi+all | startend
	Path    string     // image | row
	Reject  string     `json:",omitempty"` // label of the rejection class that generated the case
	big     bool       // member of an exhaustive digit sweep: distinct-counting by class
	inst    *instances // non-nil: writer and reader objects are REUSED across the cases of a sequence
	Seq     []string   `json:",omitempty"` // reuse sub-space: the contents that went through the same objects before this one
}

// instances caches one writer per symbology and one reader per (symbology, reader kind): the
// reuse sub-space drives a whole sequence of contents through the same objects, so state left
// behind by an earlier call (buffers, counters, row caches) is visible in a later result.
type instances struct {
	w map[string]gozxing.Writer
	r map[string]gozxing.Reader
}

func (in *instances) writer(sd symDef) gozxing.Writer {
	if in.w[sd.name] == nil {
		in.w[sd.name] = sd.mk()
	}
	return in.w[sd.name]
}

func (rc *rcase) finish() *rcase {
	rc.Q = abbreviate(fmt.Sprintf("%q", rc.Content))
	return rc
}

func quote(s string) string { return abbreviate(fmt.Sprintf("%q", s)) }

func abbreviate(s string) string {
	if len(s) > 120 {
		return fmt.Sprintf("%s…(%d bytes)", s[:100], len(s))
	}
	return s
}

// ------------------------------------------------------------------ canonical(c): what the symbol must read as

const (
	stAccept  = 1  // inside the accepted set of the property: the writer must accept, the reader must return text
	stReject  = -1 // wrong length / alphabet / check digit: the writer must return an error and no matrix
	stEither  = 0  // the writer may refuse; if it accepts, the symbol must read as text
	stOutside = 2  // outside the reader's acceptance set (DESIGN section 7): only required not to crash
)

func allDigits(s string) bool {
	if s == "" {
		return false
	}
	for i := 0; i < len(s); i++ {
		if s[i] < '0' || s[i] > '9' {
			return false
		}
	}
	return true
}

func mod10(s string) string { return string(rune('0' + ref.Mod10Check(s))) }

func allNative39(s string) bool {
	for i := 0; i < len(s); i++ {
		if strings.IndexByte(ref.Code39Alphabet, s[i]) < 0 {
			return false
		}
	}
	return true
}

func ascii7(s string) bool {
	for i := 0; i < len(s); i++ {
		if s[i] >= 128 {
			return false
		}
	}
	return true
}

const codabarData = "0123456789-$:/.+"

// codabarSplit applies the writer's documented spellings of the start/stop characters
// (ABCD or TN*E, either case, both of the same family; none = default A..A).
func codabarSplit(c string) (st int, start, stop byte, data string) {
	norm := func(b byte) (byte, int) { // canonical guard letter, family (1 normal, 2 alternative, 0 none)
		u := b
		if u >= 'a' && u <= 'z' {
			u -= 32
		}
		if i := strings.IndexByte("ABCD", u); i >= 0 {
			return "ABCD"[i], 1
		}
		if i := strings.IndexByte("TN*E", u); i >= 0 {
			return "ABCD"[i], 2
		}
		return 0, 0
	}
	if c == "" {
		return stReject, 0, 0, ""
	}
	start, stop, data = 'A', 'A', c
	st = stAccept
	if len(c) >= 2 {
		s, sf := norm(c[0])
		e, ef := norm(c[len(c)-1])
		switch {
		case sf != 0 && ef != 0:
			start, stop, data = s, e, c[1:len(c)-1]
			if sf != ef {
				st = stEither // mixed families: not a documented spelling, the writer may refuse
			}
		case sf != 0 || ef != 0:
			return stReject, 0, 0, "" // a guard at one end only: no reading of it is a Codabar message
		}
	}
	for i := 0; i < len(data); i++ {
		if strings.IndexByte(codabarData, data[i]) < 0 {
			return stReject, 0, 0, ""
		}
	}
	if len(data) < 2 {
		return stOutside, start, stop, data
	}
	return st, start, stop, data
}

// canonical returns the status of content c for symbology sym and the text the written
// symbol has to read as (for Codabar: the data without start/stop).
func canonical(sym, c, codeSet string) (st int, text, why string) {
	switch sym {
	case "ean13", "ean8", "upca":
		n := map[string]int{"ean13": 12, "ean8": 7, "upca": 11}[sym]
		if len(c) != n && len(c) != n+1 {
			return stReject, "", "length"
		}
		if !allDigits(c) {
			return stReject, "", "non-digit"
		}
		if len(c) == n {
			return stAccept, c + mod10(c), ""
		}
		if mod10(c[:n]) != c[n:] {
			return stReject, "", "check-digit"
		}
		return stAccept, c, ""
	case "upce":
		if len(c) != 7 && len(c) != 8 {
			return stReject, "", "length"
		}
		if !allDigits(c) {
			return stReject, "", "non-digit"
		}
		if c[0] != '0' && c[0] != '1' {
			return stReject, "", "number-system"
		}
		chk := mod10(ref.UPCEExpand(c[:7]))
		if len(c) == 7 {
			return stAccept, c + chk, ""
		}
		if chk != c[7:] {
			return stReject, "", "check-digit"
		}
		return stAccept, c, ""
	case "itf":
		if len(c) == 0 || len(c)%2 != 0 || len(c) > 80 {
			return stReject, "", "length"
		}
		if !allDigits(c) {
			return stReject, "", "non-digit"
		}
		if len(c) < 6 {
			return stOutside, c, ""
		}
		return stAccept, c, ""
	case "code39":
		if c == "" {
			return stReject, "", "length"
		}
		if !ascii7(c) {
			return stReject, "", "non-ascii"
		}
		if allNative39(c) {
			if len(c) > 80 {
				return stReject, "", "length"
			}
			return stAccept, c, ""
		}
		enc, err := ref.Code39ExtendedEncode(c)
		if err != nil {
			return stReject, "", "non-ascii"
		}
		if len(enc) > 80 {
			return stReject, "", "length"
		}
		return stAccept, c, ""
	case "code93":
		if c == "" {
			return stReject, "", "length"
		}
		if !ascii7(c) {
			return stReject, "", "non-ascii"
		}
		v, err := ref.Code93Values(c)
		if err != nil {
			return stReject, "", "non-ascii"
		}
		if len(v) > 80 {
			return stReject, "", "length"
		}
		return stAccept, c, ""
	case "code128":
		r := []rune(c)
		if len(r) < 1 || len(r) > 80 {
			return stReject, "", "length"
		}
		esc := false
		for _, x := range r {
			if x >= 0xf1 && x <= 0xf4 {
				esc = true
			} else if x > 127 {
				return stReject, "", "non-ascii"
			}
		}
		if esc {
			return stOutside, "", "" // FNC escapes: outside "accepted content" (DESIGN section 7)
		}
		if codeSet == "" {
			return stAccept, c, ""
		}
		if codeSet != "A" && codeSet != "B" && codeSet != "C" {
			return stReject, "", "code-set-hint"
		}
		if _, err := ref.Code128Plan(c, strings.Repeat(codeSet, len(c))); err != nil {
			return stReject, "", "not-in-set-" + codeSet
		}
		if codeSet == "B" && strings.IndexByte(c, ' ') >= 0 {
			return stEither, c, ""
		}
		return stAccept, c, ""
	case "codabar":
		st, _, _, data := codabarSplit(c)
		if st == stReject {
			return st, "", "alphabet-or-guards"
		}
		return st, data, ""
	}
	panic("unknown symbology " + sym)
}

type tf struct {
	text   string
	format gozxing.BarcodeFormat
}

var allUPCEAN = []gozxing.BarcodeFormat{gozxing.BarcodeFormat_EAN_13, gozxing.BarcodeFormat_UPC_A, gozxing.BarcodeFormat_EAN_8, gozxing.BarcodeFormat_UPC_E}

var formatByName = map[string]gozxing.BarcodeFormat{"EAN_13": gozxing.BarcodeFormat_EAN_13, "UPC_A": gozxing.BarcodeFormat_UPC_A, "EAN_8": gozxing.BarcodeFormat_EAN_8, "UPC_E": gozxing.BarcodeFormat_UPC_E}

func orderFormats(reader string) []gozxing.BarcodeFormat {
	var out []gozxing.BarcodeFormat
	for _, n := range strings.Split(strings.TrimPrefix(reader, "multi+order="), ",") {
		out = append(out, formatByName[n])
	}
	return out
}

// formatOrders lists every ordered list of distinct UPC/EAN formats that contains must.
func formatOrders(must string) []string {
	names := []string{"EAN_13", "UPC_A", "EAN_8", "UPC_E"}
	var out []string
	var rec func(cur []string, used int)
	rec = func(cur []string, used int) {
		has := false
		for _, c := range cur {
			has = has || c == must
		}
		if has {
			out = append(out, "multi+order="+strings.Join(cur, ","))
		}
		for i, n := range names {
			if used&(1<<uint(i)) == 0 {
				rec(append(append([]string{}, cur...), n), used|1<<uint(i))
			}
		}
	}
	rec(nil, 0)
	return out
}

// acceptable lists the (text, format) results that satisfy the property for this reader.
func acceptable(rc *rcase, text string) []tf {
	sd := syms[rc.Sym]
	own := tf{text, sd.format}
	if strings.HasPrefix(rc.Reader, "multi+order=") {
		hasA := strings.Contains(rc.Reader, "UPC_A")
		switch rc.Sym {
		case "ean13":
			if text[0] == '0' && hasA {
				return []tf{own, {text[1:], gozxing.BarcodeFormat_UPC_A}}
			}
		case "upca":
			if strings.Contains(rc.Reader, "EAN_13") {
				return []tf{own, {"0" + text, gozxing.BarcodeFormat_EAN_13}}
			}
		}
		return []tf{own}
	}
	switch rc.Sym {
	case "ean13":
		// a 13-digit number with leading 0 and the 12-digit UPC-A number are the same symbol
		if text[0] == '0' && (rc.Reader == "multi" || rc.Reader == "multi+all") {
			return []tf{own, {text[1:], gozxing.BarcodeFormat_UPC_A}}
		}
	case "upca":
		asEAN := tf{"0" + text, gozxing.BarcodeFormat_EAN_13}
		switch rc.Reader {
		case "ean13":
			return []tf{asEAN}
		case "multi", "multi+all":
			return []tf{own, asEAN}
		}
	case "codabar":
		if rc.Reader == "startend" {
			_, s, e, data := codabarSplit(string(rc.Content))
			return []tf{{string(s) + data + string(e), sd.format}}
		}
	}
	return []tf{own}
}

// ------------------------------------------------------------------ reading back

type rowDecoder interface {
	DecodeRow(rowNumber int, row *gozxing.BitArray, hints map[gozxing.DecodeHintType]interface{}) (*gozxing.Result, error)
}

func makeReader(rc *rcase) (gozxing.Reader, map[gozxing.DecodeHintType]interface{}) {
	sd := syms[rc.Sym]
	switch rc.Reader {
	case "own":
		if rc.Sym == "code39" && !allNative39(string(rc.Content)) {
			return oned.NewCode39ReaderWithFlags(false, true), nil
		}
		return sd.reader(), nil
	case "own+gs1": // the symbology's own reader told to assume GS1 (changes how FNC1 is reported - and nothing else)
		return sd.reader(), map[gozxing.DecodeHintType]interface{}{gozxing.DecodeHintType_ASSUME_GS1: true}
	case "ext":
		return oned.NewCode39ReaderWithFlags(false, true), nil
	case "ean13":
		return oned.NewEAN13Reader(), nil
	case "startend":
		return oned.NewCodaBarReader(), map[gozxing.DecodeHintType]interface{}{gozxing.DecodeHintType_RETURN_CODABAR_START_END: true}
	case "multi":
		return oned.NewMultiFormatUPCEANReader(nil), nil
	case "multi+own":
		h := map[gozxing.DecodeHintType]interface{}{gozxing.DecodeHintType_POSSIBLE_FORMATS: []gozxing.BarcodeFormat{sd.format}}
		return oned.NewMultiFormatUPCEANReader(h), h
	case "multi+all":
		h := map[gozxing.DecodeHintType]interface{}{gozxing.DecodeHintType_POSSIBLE_FORMATS: allUPCEAN}
		return oned.NewMultiFormatUPCEANReader(h), h
	}
	if strings.HasPrefix(rc.Reader, "multi+order=") { // POSSIBLE_FORMATS in the given ORDER
		h := map[gozxing.DecodeHintType]interface{}{gozxing.DecodeHintType_POSSIBLE_FORMATS: orderFormats(rc.Reader)}
		return oned.NewMultiFormatUPCEANReader(h), h
	}
	panic("unknown reader kind " + rc.Reader)
}

// decoyImage: stripes that start like many symbologies but complete none
var decoyImage = func() *gozxing.BitMatrix {
	m, _ := gozxing.NewBitMatrix(140, 3)
	for x := 10; x < 130; x++ {
		if (x/2+x/7)%3 == 0 {
			for y := 0; y < 3; y++ {
				m.Set(x, y)
			}
		}
	}
	return m
}()

func errKind(err error) string {
	var nf gozxing.NotFoundException
	var ce gozxing.ChecksumException
	var fe gozxing.FormatException
	switch {
	case errors.As(err, &nf):
		return "notfound"
	case errors.As(err, &ce):
		return "checksum"
	case errors.As(err, &fe):
		return "format"
	}
	return "other"
}

func rowModules(m *gozxing.BitMatrix) []bool {
	lo, hi := -1, -1
	for x := 0; x < m.GetWidth(); x++ {
		if m.Get(x, 0) {
			if lo < 0 {
				lo = x
			}
			hi = x
		}
	}
	if lo < 0 {
		return nil
	}
	out := make([]bool, hi-lo+1)
	for x := lo; x <= hi; x++ {
		out[x-lo] = m.Get(x, 0)
	}
	return out
}

func sameMods(a, b []bool) bool {
	if len(a) != len(b) {
		return false
	}
	for i := range a {
		if a[i] != b[i] {
			return false
		}
	}
	return true
}

// upceDrawnCheck identifies, by comparison with the ten reference symbols, which check
// digit the library drew for content (size 0x0, margin 0). -1 if none of them.
func upceDrawnCheck(content string) int {
	var m *gozxing.BitMatrix
	mc.Guard(func() {
		m, _ = oned.NewUPCEWriter().Encode(content, gozxing.BarcodeFormat_UPC_E, 0, 0, map[gozxing.EncodeHintType]interface{}{gozxing.EncodeHintType_MARGIN: 0})
	})
	if m == nil {
		return -1
	}
	mods := rowModules(m)
	for d := 0; d < 10; d++ {
		if sameMods(mods, ref.UPCE(content[:7]+string(rune('0'+d)))) {
			return d
		}
	}
	return -1
}

func cfgClass(rc *rcase) string {
	s := "default"
	if rc.W != 0 || rc.H != 0 || rc.Margin >= 0 {
		s = "sized"
	}
	if rc.CodeSet != "" {
		s += "/set" + rc.CodeSet
	}
	return s
}

func describe(rc *rcase) string {
	if rc.Q == "" {
		rc.finish()
	}
	s := fmt.Sprintf("%s writer, content %s, size %dx%d", rc.Sym, rc.Q, rc.W, rc.H)
	if rc.Margin >= 0 {
		s += fmt.Sprintf(", MARGIN %d", rc.Margin)
	} else {
		s += ", default margin"
	}
	if rc.CodeSet != "" {
		s += ", FORCE_CODE_SET " + rc.CodeSet
	}
	return s + fmt.Sprintf(", reader %s (%s path)", rc.Reader, rc.Path)
}

// exec runs one case on the real writer and reader and evaluates the oracle.
func exec(l *mc.Local, rc *rcase) {
	content := string(rc.Content)
	st, text, why := canonical(rc.Sym, content, rc.CodeSet)
	sd := syms[rc.Sym]
	var hints map[gozxing.EncodeHintType]interface{}
	if rc.Margin >= 0 || rc.CodeSet != "" {
		hints = map[gozxing.EncodeHintType]interface{}{}
		if rc.Margin >= 0 {
			hints[gozxing.EncodeHintType_MARGIN] = rc.Margin
		}
		if rc.CodeSet != "" {
			hints[gozxing.EncodeHintType_FORCE_CODE_SET] = rc.CodeSet
		}
	}
	var m *gozxing.BitMatrix
	var err error
	wr := sd.mk
	if rc.inst != nil {
		wr = func() gozxing.Writer { return rc.inst.writer(sd) }
	}
	pm, site := mc.Guard(func() { m, err = wr().Encode(content, sd.format, rc.W, rc.H, hints) })
	l.Count("evaluations", 1)
	if pm != "" {
		chk.Violation("C03/panic/"+site, fmt.Sprintf("panic %q: %s", pm, describe(rc)), rc)
		return
	}
	if (m == nil) == (err == nil) {
		chk.Violation("C03/"+rc.Sym+"/error-and-matrix", fmt.Sprintf("matrix nil=%v together with err=%v: %s", m == nil, err, describe(rc)), rc)
		return
	}
	if err != nil {
		l.Count("writer refusals", 1)
		if st == stAccept {
			chk.Violation("C03/"+rc.Sym+"/writer-refuses-accepted-content/"+cfgClass(rc), fmt.Sprintf("writer error %q for content inside the accepted set: %s", err.Error(), describe(rc)), rc)
			return
		}
		l.Distinct("outcomes", rc.Sym+"/refused/"+why)
		if !rc.big {
			l.Distinct("nontrivial", "refused\x00"+rc.Sym+"\x00"+content+"\x00"+rc.CodeSet)
		}
		return
	}
	if st == stReject {
		cls := why
		if rc.Reject != "" {
			cls = rc.Reject
		}
		chk.Violation("C03/"+rc.Sym+"/accepts-invalid/"+cls, fmt.Sprintf("writer returned a %dx%d matrix for content it has to refuse (%s): %s", m.GetWidth(), m.GetHeight(), why, describe(rc)), rc)
		return
	}

	rd, dh := makeReader(rc)
	if rc.inst != nil {
		k := rc.Sym + "/" + rc.Reader + fmt.Sprint(rc.Sym == "code39" && !allNative39(content))
		if rc.inst.r[k] == nil {
			rc.inst.r[k] = rd
		}
		rd = rc.inst.r[k]
		// a decoy: the same reader object first fails on an image that is not its symbol
		mc.Guard(func() {
			if bmp, e := gozxing.NewBinaryBitmapFromImage(decoyImage); e == nil {
				rd.Decode(bmp, dh)
			}
		})
		// Reset() is the documented call between uses of one reader object: every second read of the
		// sequence is preceded by it (a reader configured by flags must keep its configuration)
		if len(rc.Seq)%2 == 1 {
			mc.Guard(func() { rd.Reset() })
		}
	}
	var res *gozxing.Result
	var rerr error
	pm, site = mc.Guard(func() {
		if rc.Path == "row" {
			row := m.GetRow(m.GetHeight()/2, nil)
			res, rerr = rd.(rowDecoder).DecodeRow(m.GetHeight()/2, row, dh)
		} else {
			var bmp *gozxing.BinaryBitmap
			bmp, rerr = gozxing.NewBinaryBitmapFromImage(m)
			if rerr == nil {
				res, rerr = rd.Decode(bmp, dh)
			}
		}
	})
	l.Count("symbols read back", 1)
	if pm != "" {
		chk.Violation("C03/panic/"+site, fmt.Sprintf("panic %q while reading: %s", pm, describe(rc)), rc)
		return
	}
	if st == stOutside {
		l.Distinct("outcomes", rc.Sym+"/outside-reader-acceptance")
		return
	}
	if rerr == nil && res == nil {
		chk.Violation("C03/"+rc.Sym+"/"+rc.Reader+"/nil-result", "reader returned neither result nor error: "+describe(rc), rc)
		return
	}
	want := acceptable(rc, text)
	if rerr == nil {
		for _, w := range want {
			if res.GetText() == w.text && res.GetBarcodeFormat() == w.format {
				l.Distinct("outcomes", rc.Sym+"/"+rc.Reader+"/read/"+w.format.String())
				if !rc.big {
					l.Distinct("nontrivial", rc.Sym+"\x00"+content+"\x00"+rc.Reader+rc.CodeSet+fmt.Sprint(rc.W, rc.H, rc.Margin))
				}
				return
			}
		}
	}
	// failure: classify
	got := ""
	kind := ""
	if rerr != nil {
		got = fmt.Sprintf("error %q", rerr.Error())
		kind = "unreadable-" + errKind(rerr)
	} else {
		got = fmt.Sprintf("%s (%v)", quote(res.GetText()), res.GetBarcodeFormat())
		kind = "wrong-text"
		for _, w := range want {
			if res.GetText() == w.text {
				kind = "wrong-format"
			}
		}
	}
	wantS := fmt.Sprintf("%s (%v)", quote(want[0].text), want[0].format)
	if rc.Sym == "upce" {
		if d := upceDrawnCheck(content); d >= 0 && d != int(text[7]-'0') {
			chk.Violation(fmt.Sprintf("C03/upce/%d-digit-check-digit", len(content)),
				fmt.Sprintf("the symbol drawn for %q carries check digit %d, the check digit of the expanded number %s is %s; read back: %s, want %s: %s",
					content, d, ref.UPCEExpand(content[:7]), text[7:], got, wantS, describe(rc)), rc)
			return
		}
		if rerr != nil {
			mods := rowModules(m)
			mult := len(mods) / 51
			trailing := m.GetWidth() - 1
			for trailing >= 0 && !m.Get(trailing, 0) {
				trailing--
			}
			trailing = m.GetWidth() - 1 - trailing
			if mult >= 1 && trailing <= 6*mult {
				chk.Violation("C03/upce/default-margin-unreadable",
					fmt.Sprintf("%d pixel(s) of quiet zone follow the 6-module end guard (module = %d px), the UPC-E reader insists on more than 6 modules; read back: %s, want %s: %s", trailing, mult, got, wantS, describe(rc)), rc)
				return
			}
		}
	}
	chk.Violation("C03/"+rc.Sym+"/"+rc.Reader+"/"+kind+"/"+cfgClass(rc),
		fmt.Sprintf("read back %s, want %s: %s", got, wantS, describe(rc)), rc)
}

// natural returns (number of modules of the symbol, the writer's default margin) for content.
func natural(sym, content, codeSet string) (codeLen, defMargin int, ok bool) {
	sd := syms[sym]
	h0 := map[gozxing.EncodeHintType]interface{}{gozxing.EncodeHintType_MARGIN: 0}
	var hd map[gozxing.EncodeHintType]interface{}
	if codeSet != "" {
		h0[gozxing.EncodeHintType_FORCE_CODE_SET] = codeSet
		hd = map[gozxing.EncodeHintType]interface{}{gozxing.EncodeHintType_FORCE_CODE_SET: codeSet}
	}
	mc.Guard(func() {
		a, e1 := sd.mk().Encode(content, sd.format, 0, 0, h0)
		b, e2 := sd.mk().Encode(content, sd.format, 0, 0, hd)
		if e1 == nil && e2 == nil && a != nil && b != nil {
			codeLen, defMargin, ok = a.GetWidth(), b.GetWidth()-a.GetWidth(), true
		}
	})
	return
}
