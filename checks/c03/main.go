// C03 — 1-D symbologies: a written barcode reads back as the same content and format.
//
// Every case goes through the real writer (oned.New*Writer().Encode), the rendered BitMatrix
// is handed as an image to gozxing.NewBinaryBitmapFromImage and read by the matching reader
// (and, for UPC/EAN, by the multi-format UPC/EAN reader). The expected text canonical(c) is
// computed by the independent reference verif/ref/oned (check digits, UPC-E expansion,
// full-ASCII encodings, Code 128 set admissibility). All sub-spaces are enumerated
// completely; nothing is sampled.
package main

import (
	"fmt"
	"github.com/makiuchi-d/gozxing"
	"github.com/makiuchi-d/gozxing/oned"
	"sort"
	"strings"

	"verif/mc"
)

var chk *mc.Check

// sweep runs f for every index in [0,n), chunked so that one Range case is 1 ms .. 1 s of work.
func sweep(name string, n, chunk int, f func(l *mc.Local, i int)) {
	nch := (n + chunk - 1) / chunk
	chk.Range(name, nch,
		func(c int) string { return fmt.Sprintf("%s: items %d..%d", name, c*chunk, min(n, (c+1)*chunk)-1) },
		func(l *mc.Local, c int) {
			for i := c * chunk; i < n && i < (c+1)*chunk; i++ {
				f(l, i)
			}
		})
}

func dig(v, n int) string {
	b := make([]byte, n)
	for i := n - 1; i >= 0; i-- {
		b[i] = byte('0' + v%10)
		v /= 10
	}
	return string(b)
}

func mk(sym, content, reader string) *rcase {
	return (&rcase{Sym: sym, Content: []byte(content), Margin: -1, Reader: reader, Path: "image"}).finish()
}

// run executes one content with default settings through the given readers.
func run(l *mc.Local, sym, content string, margin int, big bool, readers ...string) {
	for _, r := range readers {
		rc := rcase{Sym: sym, Content: []byte(content), Margin: margin, Reader: r, Path: "image", big: big}
		exec(l, rc.finish())
	}
}

// ------------------------------------------------------------------ digit families

// upceStrat: both number systems, all ten last digits (classes 0-2/3/4/5-9), d1..d4 free,
// d5 = (d1+d2+d3+d4) mod 10 — an orthogonal array of strength 4 on the five leading digits.
func upceStrat(i int) string { // i in [0, 200000)
	ns, r := i/100000, i%100000
	d6, q := r%10, r/10
	d1, d2, d3, d4 := q/1000, q/100%10, q/10%10, q%10
	d5 := (d1 + d2 + d3 + d4) % 10
	return string([]byte{byte('0' + ns), byte('0' + d1), byte('0' + d2), byte('0' + d3), byte('0' + d4), byte('0' + d5), byte('0' + d6)})
}

// ean8Strat: d1..d5 free, d6 = (2*d1+d2) mod 10, d7 = (d3+2*d4) mod 10. The check digit is then
// -(5*d1+2*d2+6*d3+7*d4+3*d5): with any one of the seven positions fixed a unit coefficient stays
// free, so every (position, digit, check digit) triple occurs.
func ean8Strat(i int) string { // i in [0, 100000)
	d := []int{i / 10000, i / 1000 % 10, i / 100 % 10, i / 10 % 10, i % 10, 0, 0}
	d[5] = (2*d[0] + d[1]) % 10
	d[6] = (d[2] + 2*d[3]) % 10
	b := make([]byte, 7)
	for k := range d {
		b[k] = byte('0' + d[k])
	}
	return string(b)
}

// itfStrat: d1..d4 free, d5 = d1+d2+d3+d4, d6 = d1+2*d2+3*d3+4*d4 (mod 10): every digit pair
// value occurs at every pair position.
func itfStrat(i int) string { // i in [0,10000)
	d1, d2, d3, d4 := i/1000, i/100%10, i/10%10, i%10
	return dig(i, 4) + string([]byte{byte('0' + (d1+d2+d3+d4)%10), byte('0' + (d1+2*d2+3*d3+4*d4)%10)})
}

// le2 lists all n-digit strings with at most two non-zero digits.
func le2(n int) []string {
	var out []string
	base := strings.Repeat("0", n)
	out = append(out, base)
	for p := 0; p < n; p++ {
		for d := 1; d <= 9; d++ {
			b := []byte(base)
			b[p] = byte('0' + d)
			out = append(out, string(b))
			for q := p + 1; q < n; q++ {
				for e := 1; e <= 9; e++ {
					c := append([]byte(nil), b...)
					c[q] = byte('0' + e)
					out = append(out, string(c))
				}
			}
		}
	}
	return out
}

// triples lists, for every first digit f, digit d and position p >= 1, the n-digit strings
// that are f at position 0, d at position p and a filler (0, then 5) elsewhere.
func triples(n int) []string {
	var out []string
	for _, fill := range []byte{'0', '5'} {
		for f := 0; f <= 9; f++ {
			for p := 1; p < n; p++ {
				for d := 0; d <= 9; d++ {
					b := []byte(strings.Repeat(string(fill), n))
					b[0] = byte('0' + f)
					b[p] = byte('0' + d)
					out = append(out, string(b))
				}
			}
		}
	}
	return out
}

// quad lists the 1000 n-digit strings d_i = (a*i*i + b*i + c) mod 10.
func quad(n int) []string {
	var out []string
	for a := 0; a < 10; a++ {
		for b := 0; b < 10; b++ {
			for c := 0; c < 10; c++ {
				s := make([]byte, n)
				for i := range s {
					s[i] = byte('0' + (a*i*i+b*i+c)%10)
				}
				out = append(out, string(s))
			}
		}
	}
	return out
}

func uniq(lists ...[]string) []string {
	seen := map[string]bool{}
	var out []string
	for _, l := range lists {
		for _, s := range l {
			if !seen[s] {
				seen[s] = true
				out = append(out, s)
			}
		}
	}
	sort.Strings(out)
	return out
}

// strs lists all strings of length lo..hi over alpha (alpha entries may be multi-byte).
func strs(alpha []string, lo, hi int) []string {
	var out []string
	var rec func(cur string, n int)
	rec = func(cur string, n int) {
		if n >= lo {
			out = append(out, cur)
		}
		if n == hi {
			return
		}
		for _, a := range alpha {
			rec(cur+a, n+1)
		}
	}
	rec("", 0)
	return out
}

func chars(s string) []string {
	var out []string
	for i := 0; i < len(s); i++ {
		out = append(out, s[i:i+1])
	}
	return out
}

// ------------------------------------------------------------------ sub-spaces: UPC/EAN

func runUPCE() {
	// margin 14 so that the digit logic is decided independently of the default quiet zone (defect #18)
	n := chk.Pick(200000, 2000000)
	name := "UPC-E, MARGIN 14: all 2*10^6 seven-digit inputs (number system 0/1) and their eight-digit forms, own reader"
	gen := func(i int) string { return dig(i, 7) }
	if chk.Quick() {
		name = "UPC-E, MARGIN 14: stratified family of 2*10^5 seven-digit inputs (both number systems, every last digit, d1..d4 free, d5 = their sum mod 10) and their eight-digit forms, own reader"
		gen = upceStrat
	}
	sweep(name, n, 2000, func(l *mc.Local, i int) {
		u := gen(i)
		run(l, "upce", u, 14, true, "own")
		_, full, _ := canonical("upce", u, "")
		run(l, "upce", full, 14, true, "own")
		for k := 0; k < 7; k++ {
			l.DistinctU("upce (position,digit,check) classes", uint64(k)<<16|uint64(u[k])<<8|uint64(full[7]))
		}
		if chk.Quick() {
			l.DistinctU("nontrivial", uint64(i)|1<<40)
		} else {
			l.DistinctU("nontrivial", uint64(i/10)|1<<40) // one per (number system, five leading digits)
		}
	})
	// multi-format reader and the default margin on a smaller family
	fam := le2(6)
	sweep(fmt.Sprintf("UPC-E, MARGIN 14: %d six-digit bodies with <=2 non-zero digits x number system 0/1 x 7/8-digit form x multi-format reader (no hint, own format, all four formats)", len(fam)), len(fam)*2, 50, func(l *mc.Local, i int) {
		u := string(rune('0'+i%2)) + fam[i/2]
		_, full, _ := canonical("upce", u, "")
		for _, c := range []string{u, full} {
			run(l, "upce", c, 14, false, "multi", "multi+own", "multi+all")
		}
	})
	sweep(fmt.Sprintf("UPC-E, DEFAULT margin: %d six-digit bodies with <=2 non-zero digits x number system 0/1 x 7/8-digit form, own reader and multi-format reader", len(fam)), len(fam)*2, 50, func(l *mc.Local, i int) {
		u := string(rune('0'+i%2)) + fam[i/2]
		_, full, _ := canonical("upce", u, "")
		for _, c := range []string{u, full} {
			run(l, "upce", c, -1, false, "own", "multi")
		}
	})
}

func runEAN8() {
	n := chk.Pick(100000, 10000000)
	name := "EAN-8: all 10^7 seven-digit payloads (eight-digit form for the 10^5 stratified ones), own reader"
	gen := func(i int) string { return dig(i, 7) }
	if chk.Quick() {
		name = "EAN-8: stratified family of 10^5 seven-digit payloads (d1..d5 free, d6 = 2*d1+d2, d7 = d3+2*d4 mod 10: every (position, digit, check digit) triple), seven- and eight-digit form, own reader"
		gen = ean8Strat
	}
	sweep(name, n, 5000, func(l *mc.Local, i int) {
		p := gen(i)
		run(l, "ean8", p, -1, true, "own")
		full := p + mod10(p)
		for k := 0; k < 7; k++ {
			l.DistinctU("ean8 (position,digit,check) classes", uint64(k)<<16|uint64(p[k])<<8|uint64(full[7]))
		}
		if chk.Quick() {
			l.DistinctU("nontrivial", uint64(i)|2<<40)
		} else {
			l.DistinctU("nontrivial", uint64(i/100)|2<<40) // one per five leading digits
		}
	})
	sweep("EAN-8: eight-digit form of the stratified 10^5 payloads, own reader", 100000, 5000, func(l *mc.Local, i int) {
		p := ean8Strat(i)
		run(l, "ean8", p+mod10(p), -1, true, "own")
	})
	fam := uniq(le2(7), quad(7))
	sweep(fmt.Sprintf("EAN-8: %d payloads (<=2 non-zero digits; quadratic family) x 7/8-digit form x multi-format reader (no hint, own format, all four formats)", len(fam)), len(fam), 50, func(l *mc.Local, i int) {
		p := fam[i]
		for _, c := range []string{p, p + mod10(p)} {
			run(l, "ean8", c, -1, false, "multi", "multi+own", "multi+all")
		}
	})
}

func runEAN13UPCA() {
	f13 := uniq(le2(12), triples(12), quad(12))
	sweep(fmt.Sprintf("EAN-13: %d payloads (all with <=2 non-zero digits; every (first digit, digit, position) triple over two fillers; quadratic family) x 12/13-digit form x own reader and multi-format reader (no hint, own format, all four formats)", len(f13)), len(f13), 50, func(l *mc.Local, i int) {
		p := f13[i]
		for _, c := range []string{p, p + mod10(p)} {
			run(l, "ean13", c, -1, false, "own", "multi", "multi+own", "multi+all")
		}
	})
	// POSSIBLE_FORMATS is an ORDERED list: the multi-format reader tries the formats in that order, so a
	// reader for a shorter symbology sees every EAN-13 row first when it is listed first. Every ordered
	// list of distinct UPC/EAN formats that contains EAN_13 (49 lists) x numbers whose first digit, two
	// left-half digits and first right-half digit run over all values
	orders := formatOrders("EAN_13")
	sweep(fmt.Sprintf("EAN-13 under every ordered POSSIBLE_FORMATS list containing EAN_13 (%d lists): first digit 1..9 x digits 2,3 of the left half 0..9 x first digit of the right half 0..9 (9000 numbers)", len(orders)), 9000, 20, func(l *mc.Local, i int) {
		d0, a, b, r := 1+i/1000, i/100%10, i/10%10, i%10
		p := fmt.Sprintf("%d%d%d1403%d6165", d0, a, b, r)
		run(l, "ean13", p, -1, false, orders...)
	})
	ordersA := formatOrders("UPC_A")
	sweep(fmt.Sprintf("UPC-A under every ordered POSSIBLE_FORMATS list containing UPC_A (%d lists): 1000 numbers", len(ordersA)), 1000, 20, func(l *mc.Local, i int) {
		p := fmt.Sprintf("%d%d7103%d9165", i/100, i/10%10, i%10)
		run(l, "upca", p+"0"[:11-len(p)], -1, false, ordersA...)
	})
	f12 := uniq(le2(11), triples(11), quad(11))
	sweep(fmt.Sprintf("UPC-A: %d payloads (same three families on 11 digits) x 11/12-digit form x UPC-A reader, EAN-13 reader and multi-format reader (no hint, own format, all four formats)", len(f12)), len(f12), 50, func(l *mc.Local, i int) {
		p := f12[i]
		for _, c := range []string{p, p + mod10(p)} {
			run(l, "upca", c, -1, false, "own", "ean13", "multi", "multi+own", "multi+all")
		}
	})
}

// ------------------------------------------------------------------ ITF

func runITF() {
	n := chk.Pick(10000, 1000000)
	name := "ITF: all 10^6 six-digit strings"
	gen := func(i int) string { return dig(i, 6) }
	if chk.Quick() {
		name = "ITF: stratified 10^4 six-digit strings (d1..d4 free, two derived digits; every pair value at every pair position)"
		gen = itfStrat
	}
	sweep(name, n, 2000, func(l *mc.Local, i int) {
		run(l, "itf", gen(i), -1, true, "own")
		l.DistinctU("nontrivial", uint64(i)|3<<40)
	})
	// every digit pair at every pair position for every other accepted length, two backgrounds
	type job struct {
		length, pos int
		bg          string
	}
	var jobs []job
	for length := 8; length <= 80; length += 2 {
		for pos := 0; pos < length/2; pos++ {
			jobs = append(jobs, job{length, pos, "00"}, job{length, pos, "3816495072"})
		}
	}
	sweep(fmt.Sprintf("ITF: lengths 8,10,..,80: every digit pair 00..99 at every pair position over two backgrounds (%d x 100 symbols)", len(jobs)), len(jobs), 8, func(l *mc.Local, i int) {
		j := jobs[i]
		base := []byte(strings.Repeat(j.bg, 80/len(j.bg)+1)[:j.length])
		for v := 0; v < 100; v++ {
			base[2*j.pos], base[2*j.pos+1] = byte('0'+v/10), byte('0'+v%10)
			run(l, "itf", string(base), -1, false, "own")
		}
	})
	short := append(strs(chars("0123456789"), 2, 2), "0000", "1234", "9999", "0918")
	sweep(fmt.Sprintf("ITF: %d strings of length 2 and 4 (writer accepts, reader's length set does not): no crash", len(short)), len(short), 20, func(l *mc.Local, i int) {
		run(l, "itf", short[i], -1, false, "own")
	})
}

// ------------------------------------------------------------------ Code 39 / Code 93

func ascii(i int) string { return string([]byte{byte(i)}) }

func lengthFamily(lo, hi int) []string {
	// repeated characters and a rolling alphabet, every length lo..hi
	var out []string
	roll := strings.Repeat("0123456789ABCDEFGHIJKLMNOPQRSTUVWXYZ-. $/+%", 3)
	for n := lo; n <= hi; n++ {
		out = append(out, strings.Repeat("A", n), strings.Repeat("1", n), strings.Repeat("Z", n), strings.Repeat("%", n), strings.Repeat("-", n), roll[:n], roll[7:7+n])
	}
	return out
}

func runCode39() {
	nat := chars("0123456789ABCDEFGHIJKLMNOPQRSTUVWXYZ-. $/+%")
	var list []string
	list = append(list, strs(nat, 1, 2)...)
	list = append(list, strs(chars("09AZ-. $%"), 3, 3)...)
	for i := 0; i < 128; i++ {
		list = append(list, ascii(i), ascii(i)+ascii(i), "A"+ascii(i)+"Z", "7"+ascii(i))
	}
	for i := 0; i < 128; i++ {
		for j := 0; j < 128; j++ {
			list = append(list, ascii(i)+ascii(j))
		}
	}
	list = append(list, lengthFamily(77, 81)...)
	for n := 38; n <= 41; n++ { // full-ASCII: two symbol characters per input character
		list = append(list, strings.Repeat("a", n), strings.Repeat("a", n)+"B", strings.Repeat("\x01~", n/2)+"b"[:n%2])
	}
	list = uniq(list)
	sweep(fmt.Sprintf("Code 39: %d contents: all strings <=2 over the 43 native characters, length 3 over nine representatives, every ASCII 0..127 alone/doubled/between natives, every ordered ASCII pair, native lengths 77..81, full-ASCII lengths around the 80-character limit; standard reader for native contents, extended reader otherwise (and also for native contents without $ %% / +)", len(list)), len(list), 100, func(l *mc.Local, i int) {
		c := list[i]
		run(l, "code39", c, -1, false, "own")
		if allNative39(c) && !strings.ContainsAny(c, "$%/+") {
			run(l, "code39", c, -1, false, "ext")
		}
	})
}

func runCode93() {
	var list []string
	for i := 0; i < 128; i++ {
		list = append(list, ascii(i))
		for j := 0; j < 128; j++ {
			list = append(list, ascii(i)+ascii(j))
		}
	}
	// long inputs: the C weights wrap after 20, the K weights after 15 symbol characters
	roll := strings.Repeat("Z9%Y8+X7/W6$V5 U4.T3-S2", 4)
	for n := 1; n <= 81; n++ {
		list = append(list, strings.Repeat("1", n), strings.Repeat("Z", n), strings.Repeat("%", n), roll[:n], roll[5:5+n])
		if n <= 41 {
			list = append(list, strings.Repeat("a", n), strings.Repeat("\x7f", n), strings.Repeat("a", n)+"1")
		}
	}
	list = uniq(list)
	sweep(fmt.Sprintf("Code 93: %d contents: every ASCII character, every ordered ASCII pair, every length 1..81 symbol characters over five fillers (weights wrap at 20 and 15), full-ASCII lengths 1..41", len(list)), len(list), 100, func(l *mc.Local, i int) {
		run(l, "code93", list[i], -1, false, "own")
	})
}

// ------------------------------------------------------------------ Code 128

var c128Alpha = []string{"1", "9", "A", "a", " ", "_", "`", "\x01", "\x1f", "\x7f"}

func runCode128() {
	maxLen := chk.Pick(5, 6)
	// enumerate by index without materialising 1.1 M strings
	total := 0
	pow := 1
	var offs []int
	for n := 1; n <= maxLen; n++ {
		pow *= 10
		offs = append(offs, total)
		total += pow
	}
	nth := func(i int) string {
		n := 1
		for n < maxLen && i >= offs[n] {
			n++
		}
		i -= offs[n-1]
		var sb strings.Builder
		d := dig(i, n)
		for k := 0; k < n; k++ {
			sb.WriteString(c128Alpha[d[k]-'0'])
		}
		return sb.String()
	}
	sweep(fmt.Sprintf("Code 128: all %d strings of length 1..%d over {1, 9, A, a, space, _, `, 0x01, 0x1F, DEL} (every A/B/C transition of the code-set chooser)", total, maxLen), total, 1000, func(l *mc.Local, i int) {
		run(l, "code128", nth(i), -1, !chk.Quick(), "own")
		if !chk.Quick() {
			l.DistinctU("nontrivial", uint64(i)|4<<40)
		}
	})
	var list []string
	for i := 0; i < 128; i++ {
		list = append(list, ascii(i))
		for j := 0; j < 128; j++ {
			list = append(list, ascii(i)+ascii(j))
		}
	}
	// digit runs of every length 1..14 between every pair of neighbours
	nb := []string{"", "A", "a", "\x01", " "}
	for n := 1; n <= 14; n++ {
		for _, p := range nb {
			for _, s := range nb {
				list = append(list, p+"12345678901234"[:n]+s, p+"98765432109876"[:n]+s+"55")
			}
		}
	}
	// every value of the packed groups: code set C carries a digit PAIR per symbol character; every
	// four-digit string (two pairs, each with every value 00..99), and every pair behind a letter
	for v := 0; v < 10000; v++ {
		list = append(list, fmt.Sprintf("%04d", v))
	}
	for v := 0; v < 100; v++ {
		list = append(list, fmt.Sprintf("A%02d%02d", v, 99-v), fmt.Sprintf("%02d%02d%02d", v, v, v))
	}
	roll := strings.Repeat("Code 128 ~ROLL\x01\x02 12345 abc|", 4)
	for n := 77; n <= 81; n++ {
		list = append(list, strings.Repeat("7", n), strings.Repeat("A", n), strings.Repeat("a", n), strings.Repeat("\x05", n), roll[:n], strings.Repeat("12a", 27)[:n])
	}
	// many code-set switches: a content of 80 characters can need up to 160 symbol characters (a switch
	// or shift before every character), far beyond 103, where the mod-103 check weights come round
	for _, unit := range []string{"a\x01", "\x01a", "ab\x01\x02", "a\x011", "12\x01a", "a\x01\x7f", "`\x1f"} {
		long := strings.Repeat(unit, 80)
		for _, n := range []int{40, 50, 51, 52, 53, 60, 70, 78, 79, 80} {
			list = append(list, long[:n])
		}
	}
	list = uniq(list)
	sweep(fmt.Sprintf("Code 128: %d contents: every ASCII character, every ordered ASCII pair, every four-digit string, digit runs of length 1..14 between 5x5 neighbours, lengths 77..81 over six fillers, contents of 40..80 characters alternating between code sets A and B (up to 160 symbol characters); each read by the Code 128 reader without hints and with ASSUME_GS1 (no content holds an FNC1, so the hint changes nothing)", len(list)), len(list), 100, func(l *mc.Local, i int) {
		run(l, "code128", list[i], -1, false, "own", "own+gs1")
	})
	// forced code sets
	fl := chk.Pick(3, 4)
	forced := strs(c128Alpha, 1, fl)
	for i := 0; i < 128; i++ {
		forced = append(forced, ascii(i), "A"+ascii(i), "12"+ascii(i)+"34")
	}
	forced = append(forced, "1234567890", "123456789", strings.Repeat("1", 80), strings.Repeat("A", 80), strings.Repeat("a", 80), strings.Repeat("\x01", 80), strings.Repeat("1", 81))
	forced = uniq(forced)
	sweep(fmt.Sprintf("Code 128 with FORCE_CODE_SET A, B and C: %d contents (all strings <=%d over the ten-character alphabet; every ASCII character alone, after a letter and between digit pairs; 80/81 characters): refused when the reference cannot encode the content in that set, otherwise read back", len(forced), fl), len(forced), 50, func(l *mc.Local, i int) {
		for _, set := range []string{"A", "B", "C"} {
			rc := rcase{Sym: "code128", Content: []byte(forced[i]), Margin: -1, CodeSet: set, Reader: "own", Path: "image"}
			exec(l, rc.finish())
		}
	})
}

// ------------------------------------------------------------------ Codabar

func runCodabar() {
	maxLen := chk.Pick(2, 3)
	data := strs(chars(codabarData), 2, maxLen)
	// spellings: family (ABCD / TN*E) x case of the start x case of the stop
	type sp struct{ s, e string }
	var spell []sp
	for a := 0; a < 4; a++ {
		for b := 0; b < 4; b++ {
			for _, fam := range []string{"ABCD", "TN*E"} {
				for _, ls := range []bool{false, true} {
					for _, le := range []bool{false, true} {
						s, e := fam[a:a+1], fam[b:b+1]
						if ls {
							s = strings.ToLower(s)
						}
						if le {
							e = strings.ToLower(e)
						}
						spell = append(spell, sp{s, e})
					}
				}
			}
		}
	}
	// "*" has no lower case: duplicates are removed
	seen := map[sp]bool{}
	var sps []sp
	for _, s := range spell {
		if !seen[s] {
			seen[s] = true
			sps = append(sps, s)
		}
	}
	sweep(fmt.Sprintf("Codabar: 16 start/stop pairs in %d spellings (ABCD, TN*E, either case at either end) x all %d data strings of length 2..%d over the 16 data characters", len(sps), len(data), maxLen), len(data), 4, func(l *mc.Local, i int) {
		for _, s := range sps {
			run(l, "codabar", s.s+data[i]+s.e, -1, false, "own")
		}
	})
	bare := strs(chars(codabarData), 2, 3)
	sweep(fmt.Sprintf("Codabar: %d data strings of length 2..3 without start/stop (default A..A); and the 16 ABCD pairs with RETURN_CODABAR_START_END", len(bare)), len(bare), 50, func(l *mc.Local, i int) {
		run(l, "codabar", bare[i], -1, false, "own", "startend")
		for a := 0; a < 4; a++ {
			for b := 0; b < 4; b++ {
				run(l, "codabar", "ABCD"[a:a+1]+bare[i]+"abcd"[b:b+1], -1, false, "startend")
			}
		}
	})
	var short []string
	for _, d := range strs(chars(codabarData), 0, 1) {
		short = append(short, d, "A"+d+"B", "t"+d+"*", "C"+d+"D")
	}
	short = uniq(short)
	sweep(fmt.Sprintf("Codabar: %d contents with fewer than two data characters (outside the reader's acceptance): no crash", len(short)), len(short), 20, func(l *mc.Local, i int) {
		if short[i] != "" {
			run(l, "codabar", short[i], -1, false, "own")
		}
	})
}

// ------------------------------------------------------------------ sizes and margins

type sized struct {
	sym, content, set string
	readers           []string
}

func runSizes() {
	var fam []sized
	add := func(sym string, readers []string, contents ...string) {
		for _, c := range contents {
			fam = append(fam, sized{sym, c, "", readers})
		}
	}
	ue := []string{"own", "multi", "multi+own", "multi+all"}
	add("ean13", ue, "000000000000", "590123412345", "978020137962", "123456789012", "999999999999", "4006381333931", "012345678905", "800000000009", "314159265358", "271828182845")
	add("ean8", ue, "0000000", "9638507", "1234567", "9999999", "55123457", "7351353", "0246813", "8080808")
	add("upca", append([]string{"ean13"}, ue...), "00000000000", "03600029145", "12345678901", "99999999999", "725272730706", "01010101010", "98765432109")
	add("upce", ue, "0000000", "0425261", "01234565", "1999999", "0123453", "1000004", "0654321", "1111111", "0987659", "1203040")
	add("itf", []string{"own"}, "000000", "123456", "99999999", "0123456789", "30712345000010", "00000000000000000000", "9876543210987654321098765432109876543210", strings.Repeat("47", 40))
	add("code39", []string{"own"}, "A", "CODE 39", "0123456789", "-. $/+%", "a", "Code 39!", "\x00\x1f\x7f", strings.Repeat("W", 80), strings.Repeat("z", 40))
	add("code93", []string{"own"}, "A", "CODE 93", "0123456789", "-. $/+%", "a", "Code 93!", "\x00\x1f\x7f", strings.Repeat("W", 80), strings.Repeat("z", 40))
	add("code128", []string{"own"}, "A", "Code 128", "12", "123", "1234", "12345", "A1234", "1234A", "ab1234cd", "\x01\x02", "a\x01b", "A\x7fB", strings.Repeat("12", 40), strings.Repeat("x", 80), strings.Repeat("\x1f", 80))
	fam = append(fam, sized{"code128", "1234", "A", []string{"own"}}, sized{"code128", "1234", "B", []string{"own"}}, sized{"code128", "1234", "C", []string{"own"}}, sized{"code128", "AB\x01", "A", []string{"own"}}, sized{"code128", "ab~", "B", []string{"own"}})
	add("codabar", []string{"own", "startend"}, "A12B", "12", "C-$:/.+D", "t0123456789n", "*99*", "d00a", "B+.+.+.A", "A"+strings.Repeat("8", 40)+"A")
	type cfg struct{ w, h, m int } // w: 0, 1=natural-1, 2=natural, 3=natural+1, 4=2*natural+5; m: 0 default, 1 default+1, 2 3*default
	var cfgs []cfg
	for w := 0; w < 5; w++ {
		for _, h := range []int{0, 1, 40} {
			for m := 0; m < 3; m++ {
				cfgs = append(cfgs, cfg{w, h, m})
			}
		}
	}
	sweep(fmt.Sprintf("sizes: %d contents of the nine symbologies x width {0, natural-1, natural, natural+1, 2*natural+5} x height {0,1,40} x margin {default, default+1, 3*default} x matching readers (UPC/EAN also multi-format)", len(fam)), len(fam), 1, func(l *mc.Local, i int) {
		f := fam[i]
		codeLen, def, ok := natural(f.sym, f.content, f.set)
		if !ok {
			chk.Violation("C03/"+f.sym+"/writer-refuses-accepted-content/default", fmt.Sprintf("writer refuses %q at size 0x0", f.content), mk(f.sym, f.content, "own"))
			return
		}
		l.Distinct("default margins", fmt.Sprint(f.sym, def))
		for _, c := range cfgs {
			margin := []int{-1, def + 1, 3 * def}[c.m]
			eff := def
			if margin >= 0 {
				eff = margin
			}
			nat := codeLen + eff
			w := []int{0, nat - 1, nat, nat + 1, 2*nat + 5}[c.w]
			for _, r := range f.readers {
				rc := rcase{Sym: f.sym, Content: []byte(f.content), W: w, H: c.h, Margin: margin, CodeSet: f.set, Reader: r, Path: "image"}
				exec(l, rc.finish())
			}
		}
	})
}

// runReuse: per symbology ONE writer object and ONE reader object per reader kind are driven
// through a whole sequence of contents (valid, refused, short, long, in a fixed order, each read
// preceded by a failing decoy read on the same reader object); every result must be what fresh
// objects give. Histories of calls on one instance are thereby part of the explored space.
func runReuse() {
	type seq struct {
		sym      string
		contents []string
		readers  []string
	}
	var seqs []seq
	add := func(sym string, readers []string, lists ...[]string) {
		var c []string
		for _, l := range lists {
			c = append(c, l...)
		}
		// forward, then backward: every content follows two different predecessors
		n := len(c)
		for i := n - 1; i >= 0; i-- {
			c = append(c, c[i])
		}
		seqs = append(seqs, seq{sym, c, readers})
	}
	digits := func(n, count int) []string {
		var o []string
		for i := 0; i < count; i++ {
			o = append(o, dig(i*7919+i*i*31, n))
		}
		return o
	}
	k := chk.Pick(60, 400)
	add("ean13", []string{"own", "multi"}, digits(12, k), []string{"5901234123457", "5901234123450", "59012341234"})
	add("ean8", []string{"own", "multi"}, digits(7, k), []string{"96385074", "96385070", "963850"})
	add("upca", []string{"own", "ean13"}, digits(11, k), []string{"036000291452", "036000291450"})
	add("upce", []string{"own"}, digits(6, k))
	add("itf", []string{"own"}, digits(6, k/2), digits(14, k/4), digits(30, k/8), []string{"123", "12345678901234567890"})
	add("code39", []string{"own"}, []string{"A", "CODE 39", "+A", "a", "abc", "-. $/+%", "0123456789", "A*", "é"}, lengthFamily(1, chk.Pick(20, 79)))
	add("code93", []string{"own"}, []string{"A", "a", "Code 93", "\x01", "%", "+", "é"}, lengthFamily(1, chk.Pick(20, 79)))
	add("code128", []string{"own"}, []string{"A", "12", "123", "a1234b", "\x01`", "AB\x01cd", "1234567890123", "é", "ñ12"}, lengthFamily(1, chk.Pick(20, 79)))
	add("codabar", []string{"own", "startend"}, []string{"A12B", "12", "T1N", "a-$b", "C:/.+D", "A1", "1"})
	for i := range seqs {
		if seqs[i].sym == "upce" {
			for j, c := range seqs[i].contents {
				seqs[i].contents[j] = "0" + c
			}
		}
	}
	chk.Range(fmt.Sprintf("reuse: %d sequences (one per symbology), each driven through ONE writer object and ONE reader object per reader kind, forward then backward, every read preceded by a failing decoy read on the same object, every second one also by Reset()", len(seqs)), len(seqs),
		func(i int) string { return "reuse " + seqs[i].sym },
		func(l *mc.Local, i int) {
			q := seqs[i]
			in := &instances{w: map[string]gozxing.Writer{}, r: map[string]gozxing.Reader{}}
			var before []string
			for _, c := range q.contents {
				for _, r := range q.readers {
					margin := -1
					if q.sym == "upce" {
						margin = 14
					}
					rc := rcase{Sym: q.sym, Content: []byte(c), Margin: margin, Reader: r, Path: "image", inst: in}
					if len(before) > 3 {
						rc.Seq = append([]string{}, before[len(before)-3:]...)
					} else {
						rc.Seq = append([]string{}, before...)
					}
					exec(l, rc.finish())
				}
				before = append(before, c)
			}
		})
}

func main() {
	chk = mc.New("C03", "exploration")
	chk.Rule = "per symbology, complete enumeration of the stated content families (exhaustive digit spaces in the thorough tier, orthogonal stratified families in the quick tier), each written by the real writer, rendered, and read back through the image path; non-trivial = distinct (symbology, content, reader, size/margin/code-set) cases that were written AND read back as canonical(c), plus distinct refused contents; in the digit sweeps one per enumerated number (thorough tier, to bound memory: one per block of 10 UPC-E / 100 EAN-8 consecutive numbers; the (position, digit, check digit) class sets are complete in both tiers)"
	chk.Assume("canonical(c) comes from verif/ref/oned: UPC/EAN inputs without check digit gain Mod10Check (for UPC-E: of the reference expansion of the number); Code 39/93/128 and ITF read back as the content itself; Codabar reads back as the data characters without start/stop unless RETURN_CODABAR_START_END is given, then with the upper-case ABCD spelling of the guards")
	chk.Assume("a UPC-A symbol and the EAN-13 symbol of the same number with a leading 0 are the same bars: the UPC-A writer's symbol read by the EAN-13 reader must give '0'+number as EAN_13; through the multi-format reader either (number, UPC_A) or ('0'+number, EAN_13) is accepted unless POSSIBLE_FORMATS names only one of them (weaker reading: which of the two names is returned when both are possible is not part of the property)")
	chk.Assume("matching reader for Code 39: the standard reader when every character is one of the 43 native ones, the extended (full ASCII) reader otherwise, because the writer switches to full-ASCII encoding exactly then")
	chk.Assume("reader acceptance sets (DESIGN section 7): ITF of length 2 and 4, Codabar with fewer than two data characters and Code 128 FNC escape characters (U+00F1..U+00F4) are outside 'accepted content' and only have to not crash")
	chk.Assume("Code 128 with FORCE_CODE_SET: contents the reference cannot encode in that set alone must be refused; contents it can encode must be written and read back, except that set B with a space may be refused (the writer excludes character 32 from set B; a refusal is not a wrong symbol)")
	chk.Assume("Codabar start/stop spellings: ABCD or TN*E in either case, both ends of the same family, or none (default A..A); an input with a guard letter at one end only has no reading as a Codabar message and must be refused; mixed families may be refused")
	chk.Assume("'margin >= default' is taken literally: a symbol written with the writer's own default margin must be readable")
	if chk.ReplayFile() != "" {
		var rc rcase
		var mh mhCase
		if err := mc.LoadReplay(chk.ReplayFile(), &mh); err == nil && mh.Kind == "multi-history" {
			fmt.Printf("replay %+v\n", mh)
			shared := oned.NewMultiFormatUPCEANReader(mhHints(mh.Hints))
			mhRead(shared, mhImage(mh.Prime, mh.PrimeNum), mhHints(mh.Hints))
			img := mhImage(mh.Target, mh.TargetNum)
			got := mhRead(shared, img, mhHints(mh.Hints))
			want := mhRead(oned.NewMultiFormatUPCEANReader(mhHints(mh.Hints)), img, mhHints(mh.Hints))
			fmt.Printf("shared reader: %s; fresh reader: %s\n", got, want)
			if got != want {
				chk.Violation("C03/multi-history/"+mh.Target+"-after-"+mh.Prime, "replay: "+got+" vs fresh "+want, mh)
			}
		} else if err := mc.LoadReplay(chk.ReplayFile(), &rc); err != nil {
			fmt.Println("cannot load replay:", err)
		} else {
			l := chk.NewLocal()
			fmt.Println("replay:", describe(rc.finish()))
			exec(l, &rc)
			l.Merge()
		}
		chk.Finish()
	}
	runSizes()
	runUPCE()
	runEAN8()
	runEAN13UPCA()
	runITF()
	runCode39()
	runCode93()
	runCode128()
	runCodabar()
	runRejections()
	runReuse()
	runMultiHistories()
	chk.Sample("round trip", mk("upce", "0425261", "own"))
	chk.Sample("round trip", mk("code128", "A12345\x01b", "own"))
	chk.Sample("rejection", mk("ean13", "5901234123450", "own"))
	chk.Finish()
}
