package main

import (
	"fmt"
	"strings"

	"verif/mc"
)

// Rejection sub-spaces: wrong length, a character of every out-of-alphabet class at every
// position, every wrong supplied check digit. canonical() decides what each generated content
// is (a generated content that happens to be valid is simply round-tripped).

func reject(l *mc.Local, sym, content, class string) {
	rc := rcase{Sym: sym, Content: []byte(content), Margin: -1, Reader: "own", Path: "image", Reject: class}
	exec(l, rc.finish())
}

// out-of-alphabet classes for the numeric symbologies: the neighbours of '0'..'9' in ASCII,
// letters, space, punctuation, NUL, DEL, a byte >= 0x80 that is not UTF-8
var nonDigits = []string{"/", ":", "A", "a", " ", "-", ".", "\x00", "\x7f", "\xff", "\xb2"}

func runRejections() {
	type num struct {
		sym  string
		n    int // payload length without check digit
		base []string
	}
	nums := []num{
		{"ean13", 12, []string{"590123412345", "000000000000", "978020137962"}},
		{"ean8", 7, []string{"9638507", "0000000", "1234567"}},
		{"upca", 11, []string{"03600029145", "00000000000", "12345678901"}},
		{"upce", 7, []string{"0123456", "1000000", "0425261"}},
	}
	long := strings.Repeat("1234567890", 10)
	// 1. wrong lengths 0..30 (prefixes of three digit strings) for the four UPC/EAN writers
	sweep("rejection: UPC/EAN writers x every length 0..30 other than the two valid ones x three digit fillers", len(nums)*31, 4, func(l *mc.Local, i int) {
		nm, n := nums[i/31], i%31
		for _, s := range []string{long[:n], strings.Repeat("0", n), strings.Repeat("9", n)} {
			reject(l, nm.sym, s, "length")
		}
	})
	// 2. non-digit classes at every position of the n- and n+1-digit forms
	sweep(fmt.Sprintf("rejection: UPC/EAN writers x %d non-digit classes at every position of the short and the long form of three numbers", len(nonDigits)), len(nums)*3, 1, func(l *mc.Local, i int) {
		nm := nums[i/3]
		p := nm.base[i%3]
		_, full, _ := canonical(nm.sym, p, "")
		for _, c := range []string{p, full} {
			for pos := 0; pos < len(c); pos++ {
				for _, x := range nonDigits {
					reject(l, nm.sym, c[:pos]+x+c[pos+1:], "non-digit")
				}
			}
		}
	})
	// 3. every wrong supplied check digit (9 per number) on the stratified families
	sweep("rejection: EAN-8, all 9 wrong check digits for each of the 10^5 stratified payloads", 100000, 2000, func(l *mc.Local, i int) {
		p := ean8Strat(i)
		ok := mod10(p)[0]
		for d := byte('0'); d <= '9'; d++ {
			if d != ok {
				rc := rcase{Sym: "ean8", Content: []byte(p + string(d)), Margin: -1, Reader: "own", Path: "image", Reject: "check-digit", big: true}
				exec(l, &rc)
			}
		}
	})
	sweep("rejection: UPC-E, all 9 wrong check digits for each of the 2*10^5 stratified numbers", 200000, 2000, func(l *mc.Local, i int) {
		u := upceStrat(i)
		_, full, _ := canonical("upce", u, "")
		for d := byte('0'); d <= '9'; d++ {
			if d != full[7] {
				rc := rcase{Sym: "upce", Content: []byte(u + string(d)), Margin: -1, Reader: "own", Path: "image", Reject: "check-digit", big: true}
				exec(l, &rc)
			}
		}
	})
	f13 := uniq(le2(12), triples(12), quad(12))
	f12 := uniq(le2(11), triples(11), quad(11))
	sweep(fmt.Sprintf("rejection: EAN-13 (%d payloads) and UPC-A (%d payloads), all 9 wrong check digits each", len(f13), len(f12)), len(f13)+len(f12), 100, func(l *mc.Local, i int) {
		sym, p := "ean13", ""
		if i < len(f13) {
			p = f13[i]
		} else {
			sym, p = "upca", f12[i-len(f13)]
		}
		ok := mod10(p)[0]
		for d := byte('0'); d <= '9'; d++ {
			if d != ok {
				reject(l, sym, p+string(d), "check-digit")
			}
		}
	})
	// 4. UPC-E number systems 2..9
	fam := le2(6)
	sweep(fmt.Sprintf("rejection: UPC-E number system 2..9 x %d six-digit bodies x 7-digit form and all ten 8-digit forms", len(fam)), len(fam), 20, func(l *mc.Local, i int) {
		for ns := 2; ns <= 9; ns++ {
			u := string(rune('0'+ns)) + fam[i]
			reject(l, "upce", u, "number-system")
			for d := 0; d <= 9; d++ {
				reject(l, "upce", u+string(rune('0'+d)), "number-system")
			}
		}
	})
	// 5. ITF
	var itf []string
	for n := 1; n <= 121; n++ {
		if n%2 == 1 || n > 80 {
			itf = append(itf, long[:min(n, 100)]+strings.Repeat("7", max(0, n-100)))
		}
	}
	for _, base := range []string{"123456", "00000000", "98765432109876"} {
		for pos := 0; pos < len(base); pos++ {
			for _, x := range nonDigits {
				itf = append(itf, base[:pos]+x+base[pos+1:])
			}
		}
	}
	itf = append(itf, "")
	sweep(fmt.Sprintf("rejection: ITF: %d contents: empty, every odd length 1..121, every even length 82..120, %d non-digit classes at every position of three numbers", len(itf), len(nonDigits)), len(itf), 20, func(l *mc.Local, i int) {
		reject(l, "itf", itf[i], "length-or-non-digit")
	})
	// 6. Code 39, Code 93, Code 128: lengths and non-ASCII
	nonASCII := []string{"\x80", "\xe9", "\xff", "é", "ð", "õ", "日", "€"}
	var txt []struct{ sym, c, class string }
	addT := func(sym, c, class string) { txt = append(txt, struct{ sym, c, class string }{sym, c, class}) }
	for _, sym := range []string{"code39", "code93", "code128"} {
		addT(sym, "", "length")
		for _, base := range []string{"A", "AB", "CODE", "12a", "a\x01"} {
			for pos := 0; pos <= len(base); pos++ {
				for _, x := range nonASCII {
					addT(sym, base[:pos]+x+base[pos:], "non-ascii")
					if pos < len(base) {
						addT(sym, base[:pos]+x+base[pos+1:], "non-ascii")
					}
				}
			}
		}
		for n := 81; n <= 90; n++ {
			addT(sym, strings.Repeat("A", n), "length")
			addT(sym, strings.Repeat("7", n), "length")
			addT(sym, long[:n], "length")
		}
		addT(sym, strings.Repeat("A", 200), "length")
	}
	for n := 41; n <= 50; n++ { // full-ASCII: two symbol characters each
		addT("code39", strings.Repeat("a", n), "length")
		addT("code93", strings.Repeat("a", n), "length")
		addT("code39", strings.Repeat("A", 81-n)+strings.Repeat("!", n), "length")
		addT("code93", strings.Repeat("A", 81-n)+strings.Repeat("!", n), "length")
	}
	for _, set := range []string{"", "D", "a", "AB"} {
		if set != "" {
			txt = append(txt, struct{ sym, c, class string }{"code128", "AB12", "code-set-hint=" + set})
		}
	}
	sweep(fmt.Sprintf("rejection: Code 39 / Code 93 / Code 128: %d contents: empty, eight non-ASCII classes inserted and substituted at every position of five bases, lengths 81..90 and 200, full-ASCII lengths beyond 80 symbol characters, unknown FORCE_CODE_SET values", len(txt)), len(txt), 50, func(l *mc.Local, i int) {
		t := txt[i]
		if strings.HasPrefix(t.class, "code-set-hint=") {
			rc := rcase{Sym: t.sym, Content: []byte(t.c), Margin: -1, CodeSet: strings.TrimPrefix(t.class, "code-set-hint="), Reader: "own", Path: "image", Reject: "code-set-hint"}
			exec(l, rc.finish())
			return
		}
		reject(l, t.sym, t.c, t.class)
	})
	// 7. Codabar: every non-data class at every position of guarded and bare messages; one-sided guards
	bad := []string{"A", "B", "C", "D", "T", "N", "*", "E", "a", "e", "F", "Z", "z", " ", ",", "%", "#", "_", "\x00", "\x7f", "\xff", "é"}
	var cb []string
	for _, base := range []string{"12", "A12B", "T1234N", "c-$:/.+d", "0123456789"} {
		for pos := 0; pos <= len(base); pos++ {
			for _, x := range bad {
				cb = append(cb, base[:pos]+x+base[pos:])
				if pos < len(base) {
					cb = append(cb, base[:pos]+x+base[pos+1:])
				}
			}
		}
	}
	for _, g := range []string{"A", "b", "T", "n", "*", "e", "D"} {
		cb = append(cb, g+"12", "12"+g, g+"1", "1"+g, g+"-$:/.+", "0123456789"+g)
	}
	cb = uniq(cb)
	sweep(fmt.Sprintf("rejection: Codabar: %d contents: 22 non-data classes inserted and substituted at every position of five messages; a guard letter at one end only", len(cb)), len(cb), 50, func(l *mc.Local, i int) {
		reject(l, "codabar", cb[i], "alphabet-or-guards")
	})
}
