package main

// Cross-symbology histories on ONE multi-format UPC/EAN reader. The reuse sub-space keeps one
// reader object per symbology; an application has ONE multi-format reader and shows it whatever
// comes: an EAN-8, then a UPC-A, then a UPC-E. Whatever the reader remembers of an earlier success
// must not change what it makes of the next symbol. Every target symbol is read by the shared
// object right after a PRIMING symbol of another symbology, and the outcome (text, format, error
// class) must equal that of a fresh reader on the same image.
//
// Targets are chosen where a confusion is possible at all: a UPC-A / EAN-13 symbol decodes as an
// EAN-8 when its digits 1-4 and 7-10 pass the EAN-8 check (the EAN-8 decoder finds the real middle
// and end guards by searching forward), so the family holds UPC-A numbers d1..d11 with
// (d1..d4, d7..d10) a valid EAN-8 number x all 100 values of (d5, d6); plus EAN-13 numbers with
// every first digit, EAN-8 and UPC-E numbers as targets behind every other priming symbology.

import (
	"fmt"

	"verif/mc"

	"github.com/makiuchi-d/gozxing"
	"github.com/makiuchi-d/gozxing/oned"
)

type mhCase struct {
	Kind      string // "multi-history"
	Prime     string // symbology of the priming symbol
	PrimeNum  string
	Target    string
	TargetNum string
	Hints     string
}

func mhImage(sym, num string) *gozxing.BinaryBitmap {
	sd := syms[sym]
	m, err := sd.mk().Encode(num, sd.format, 0, 12, map[gozxing.EncodeHintType]interface{}{gozxing.EncodeHintType_MARGIN: 14})
	if err != nil {
		panic(fmt.Sprintf("harness: %s writer refuses %q: %v", sym, num, err))
	}
	bmp, err := gozxing.NewBinaryBitmapFromImage(m)
	if err != nil {
		panic(err)
	}
	return bmp
}

func mhRead(rd gozxing.Reader, bmp *gozxing.BinaryBitmap, h map[gozxing.DecodeHintType]interface{}) string {
	var res *gozxing.Result
	var err error
	if pm, site := mc.Guard(func() { res, err = rd.Decode(bmp, h) }); pm != "" {
		return "panic " + site + " " + pm
	}
	if err != nil {
		return "error " + errKind(err)
	}
	return fmt.Sprintf("%v %q", res.GetBarcodeFormat(), res.GetText())
}

func mhHints(label string) map[gozxing.DecodeHintType]interface{} {
	switch label {
	case "all":
		return map[gozxing.DecodeHintType]interface{}{gozxing.DecodeHintType_POSSIBLE_FORMATS: []gozxing.BarcodeFormat{gozxing.BarcodeFormat_EAN_13, gozxing.BarcodeFormat_UPC_A, gozxing.BarcodeFormat_EAN_8, gozxing.BarcodeFormat_UPC_E}}
	case "ean":
		return map[gozxing.DecodeHintType]interface{}{gozxing.DecodeHintType_POSSIBLE_FORMATS: []gozxing.BarcodeFormat{gozxing.BarcodeFormat_EAN_8, gozxing.BarcodeFormat_EAN_13}}
	}
	return nil
}

func runMultiHistories() {
	primes := map[string]string{"ean8": "1234567", "upce": "01234565", "ean13": "590123412345", "upca": "03600029145"}
	heads := []string{"4469", "0000", "1234", "9999", "0101", "7310", "5012", "8080", "2468", "1357", "9090", "3003"}
	mids := []string{"107", "000", "999", "123", "505", "860", "271", "048", "636", "919"}
	type job struct {
		head string
		d56  int
	}
	var jobs []job
	for _, h := range heads {
		for d := 0; d < 100; d++ {
			if chk.Quick() && (d+int(h[0]))%2 == 1 {
				continue
			}
			jobs = append(jobs, job{h, d})
		}
	}
	chk.Range(fmt.Sprintf("ONE multi-format UPC/EAN reader across symbologies: UPC-A numbers whose digits 1-4 and 7-10 form a valid EAN-8 number (%d heads x all 100 (d5,d6) (quick: half) x %d middles x all 10 last digits), the same as EAN-13, and EAN-8 / UPC-E targets, each read right after a priming symbol of every other symbology, hints {none, all four formats, EAN only}: outcome == fresh reader", len(heads), len(mids)), len(jobs),
		func(i int) string { return fmt.Sprint(jobs[i]) },
		func(l *mc.Local, i int) {
			j := jobs[i]
			for _, mid := range mids {
				e8 := j.head + mid
				d10 := mod10(e8)
				for _, d11 := range []string{"0", "1", "2", "3", "4", "5", "6", "7", "8", "9"} {
					upca := j.head + dig(j.d56, 2) + mid + d10 + d11
					targets := [][2]string{{"upca", upca}}
					hls := []string{""}
					if d11 == "0" {
						targets = append(targets, [2]string{"ean13", "0" + upca}, [2]string{"ean13", dig(j.d56%10, 1) + upca}, [2]string{"ean8", e8}, [2]string{"upce", "0" + (j.head + mid)[:6]})
						hls = []string{"", "all", "ean"}
					}
					for _, hl := range hls {
						shared := oned.NewMultiFormatUPCEANReader(mhHints(hl))
						for _, t := range targets {
							for _, p := range []string{"ean8", "upce", "ean13", "upca"} {
								if p == t[0] {
									continue
								}
								cs := mhCase{"multi-history", p, primes[p], t[0], t[1], hl}
								l.Beat("")
								mhRead(shared, mhImage(p, primes[p]), mhHints(hl))
								img := mhImage(t[0], t[1])
								got := mhRead(shared, img, mhHints(hl))
								want := mhRead(oned.NewMultiFormatUPCEANReader(mhHints(hl)), img, mhHints(hl))
								l.Count("evaluations", 3)
								if got != want {
									chk.Violation("C03/multi-history/"+t[0]+"-after-"+p, fmt.Sprintf("one multi-format UPC/EAN reader (hints %q): %s %s read right after %s %s gives %s; a fresh reader gives %s", hl, t[0], t[1], p, primes[p], got, want), cs)
									return
								}
								if want[0] != 'e' {
									l.Distinct("nontrivial", fmt.Sprint("mh", t, p, hl))
								}
								l.Distinct("outcomes", "mh/"+t[0]+"/"+p+"/"+want[:5])
							}
						}
					}
				}
			}
		})
	chk.Sample("multi-history", mhCase{"multi-history", "ean8", "1234567", "upca", "44697410736", ""})
}
