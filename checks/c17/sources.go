package main

// Construction of the luminance sources under test, together with the luminance each pixel
// should have according to the formula documented for its source kind.

import (
	"image"
	"image/color"

	"github.com/makiuchi-d/gozxing"
)

var kinds = []string{"Gray", "GraySub0", "GraySubOff", "RGBA", "RGBASub", "NRGBA", "Paletted", "PalettedSub", "YCbCr", "YCbCrSubOff", "Custom", "RGBints", "YUV", "YUVrev", "YUVoff", "YUVoffrev"}

// baseOf names the implementation class behind a source kind (used in violation keys: the Go
// image kinds share one implementation, so do the YUV kinds).
func baseOf(kind string) string {
	switch kind {
	case "RGBints":
		return "RGB"
	case "YUV", "YUVrev", "YUVoff", "YUVoffrev":
		return "YUV"
	}
	return "GoImage"
}

// code is the position code of a pixel of an image of n = w*h pixels: distinct for every pixel
// when n <= 256 (multiplication by an odd number is a bijection modulo 256), otherwise a
// non-linear hash, so that no uniform displacement maps the whole image onto itself.
func code(x, y, w, h int) uint8 {
	if w*h <= 256 {
		return uint8((y*w+x)*37 + 11)
	}
	return uint8(x*x*3 + y*y*7 + x*y*5 + x*11 + y*29 + 1)
}

// colourFor returns an (R,G,B) whose green-favouring average floor((R+2G+B)/4) is exactly v,
// varied by idx so that the three channels differ and the division has a remainder.
func colourFor(v uint8, idx int) (r, g, b uint8) {
	d := idx * 5 % 64
	if int(v) < d {
		d = int(v)
	}
	if 255-int(v) < d {
		d = 255 - int(v)
	}
	R, G, B := int(v), int(v), int(v)
	switch idx % 3 {
	case 0:
		R, B = R+d, B-d
	case 1:
		R, G, B = R+d, G-d, B+d
	case 2:
		R, B = R-d, B+d
	}
	if e := idx % 4; B+e <= 255 {
		B += e // remainder of the division by 4
	}
	if (R+2*G+B)/4 != int(v) || R < 0 || G < 0 || B < 0 || R > 255 || G > 255 || B > 255 {
		panic("harness: colourFor")
	}
	return uint8(R), uint8(G), uint8(B)
}

// customImage implements only image.Image (none of the optimised interfaces).
type customImage struct {
	rect image.Rectangle
	at   func(x, y int) color.Color
}

func (c *customImage) ColorModel() color.Model { return color.RGBAModel }
func (c *customImage) Bounds() image.Rectangle { return c.rect }
func (c *customImage) At(x, y int) color.Color { return c.at(x, y) }

type built struct {
	src   gozxing.LuminanceSource
	err   error
	want  [][]uint8 // the underlying image by formula: uh rows of uw
	exact [][]bool  // false where the formula is not documented (partly transparent pixels)
	uw    int
	uh    int
	l, t  int // where the w x h view sits inside the underlying image
	rotOK bool
}

// buildSource constructs a fresh source of the given kind and view size with position-coded pixels.
func buildSource(kind string, w, h int) *built {
	b := &built{uw: w, uh: h, rotOK: baseOf(kind) == "GoImage"}
	if kind == "YUVoff" || kind == "YUVoffrev" {
		b.uw, b.uh, b.l, b.t = w+5, h+3, 2, 1
	}
	b.want = grid(b.uw, b.uh)
	b.exact = make([][]bool, b.uh)
	for y := 0; y < b.uh; y++ {
		b.exact[y] = make([]bool, b.uw)
		for x := 0; x < b.uw; x++ {
			b.want[y][x] = code(x, y, b.uw, b.uh)
			b.exact[y][x] = true
		}
	}
	switch kind {
	case "Gray":
		img := image.NewGray(image.Rect(2, 3, 2+w, 3+h))
		for y := 0; y < h; y++ {
			for x := 0; x < w; x++ {
				img.SetGray(2+x, 3+y, color.Gray{Y: b.want[y][x]})
			}
		}
		b.src = gozxing.NewLuminanceSourceFromImage(img)
	case "GraySub0", "GraySubOff":
		// a sub-image of a larger Gray image: Stride differs from the view width; "Sub0" keeps the
		// origin at (0,0), "SubOff" starts inside the parent. Parent pixels outside the view carry
		// other values, so a row fetched with the wrong stride or origin is visible.
		ox, oy := 0, 0
		if kind == "GraySubOff" {
			ox, oy = 3, 2
		}
		parent := image.NewGray(image.Rect(0, 0, ox+w+4, oy+h+3))
		for i := range parent.Pix {
			parent.Pix[i] = uint8(37 + 11*i)
		}
		for y := 0; y < h; y++ {
			for x := 0; x < w; x++ {
				parent.SetGray(ox+x, oy+y, color.Gray{Y: b.want[y][x]})
			}
		}
		b.src = gozxing.NewLuminanceSourceFromImage(parent.SubImage(image.Rect(ox, oy, ox+w, oy+h)))
	case "YCbCr", "YCbCrSubOff":
		// what image/jpeg decodes to; grey content (Cb = Cr = 128), so the colour conversion gives
		// R = G = B = Y and the luminance is the Y sample. "SubOff" is a window with a non-zero
		// origin into a larger 4:2:0 frame whose other samples differ.
		ox, oy, ratio := 0, 0, image.YCbCrSubsampleRatio444
		pw, ph := w, h
		if kind == "YCbCrSubOff" {
			ox, oy, ratio = 3, 2, image.YCbCrSubsampleRatio420
			pw, ph = ox+w+4, oy+h+3
		}
		parent := image.NewYCbCr(image.Rect(0, 0, pw, ph), ratio)
		for i := range parent.Y {
			parent.Y[i] = uint8(53 + 13*i)
		}
		for i := range parent.Cb {
			parent.Cb[i], parent.Cr[i] = 128, 128
		}
		for y := 0; y < h; y++ {
			for x := 0; x < w; x++ {
				parent.Y[parent.YOffset(ox+x, oy+y)] = b.want[y][x]
			}
		}
		b.src = gozxing.NewLuminanceSourceFromImage(parent.SubImage(image.Rect(ox, oy, ox+w, oy+h)))
	case "RGBASub":
		parent := image.NewRGBA(image.Rect(0, 0, w+5, h+2))
		for i := range parent.Pix {
			parent.Pix[i] = uint8(91 + 7*i)
			if i%4 == 3 {
				parent.Pix[i] = 255
			}
		}
		for y := 0; y < h; y++ {
			for x := 0; x < w; x++ {
				r, g, bl := colourFor(b.want[y][x], y*w+x)
				parent.SetRGBA(x, y+1, color.RGBA{r, g, bl, 255})
			}
		}
		b.src = gozxing.NewLuminanceSourceFromImage(parent.SubImage(image.Rect(0, 1, w, 1+h)))
	case "PalettedSub":
		pal := make(color.Palette, 256)
		for i := 0; i < 256; i++ {
			r, g, bl := colourFor(uint8(i), i)
			pal[i] = color.RGBA{r, g, bl, 255}
		}
		parent := image.NewPaletted(image.Rect(0, 0, w+3, h+1), pal)
		for i := range parent.Pix {
			parent.Pix[i] = uint8(5 + 3*i)
		}
		for y := 0; y < h; y++ {
			for x := 0; x < w; x++ {
				parent.SetColorIndex(x+2, y, b.want[y][x])
			}
		}
		b.src = gozxing.NewLuminanceSourceFromImage(parent.SubImage(image.Rect(2, 0, 2+w, h)))
	case "RGBA":
		img := image.NewRGBA(image.Rect(0, 0, w, h))
		for y := 0; y < h; y++ {
			for x := 0; x < w; x++ {
				idx := y*w + x
				if idx%11 == 10 {
					img.SetRGBA(x, y, color.RGBA{0, 0, 0, 0}) // fully transparent: the white background shows
					b.want[y][x] = 255
					continue
				}
				r, g, bl := colourFor(b.want[y][x], idx)
				img.SetRGBA(x, y, color.RGBA{r, g, bl, 255})
			}
		}
		b.src = gozxing.NewLuminanceSourceFromImage(img)
	case "NRGBA":
		img := image.NewNRGBA(image.Rect(-1, -2, w-1, h-2))
		for y := 0; y < h; y++ {
			for x := 0; x < w; x++ {
				idx := y*w + x
				r, g, bl := colourFor(b.want[y][x], idx)
				a := uint8(255)
				if idx%5 == 4 {
					a = []uint8{0, 1, 128, 254}[idx/5%4]
				}
				img.SetNRGBA(x-1, y-2, color.NRGBA{r, g, bl, a})
				if a == 0 {
					b.want[y][x] = 255
				} else if a != 255 {
					b.exact[y][x] = false
				}
			}
		}
		b.src = gozxing.NewLuminanceSourceFromImage(img)
	case "Paletted":
		pal := make(color.Palette, 256)
		for i := 0; i < 255; i++ {
			r, g, bl := colourFor(uint8(i), i)
			pal[i] = color.RGBA{r, g, bl, 255}
		}
		pal[255] = color.RGBA{0, 0, 0, 0} // transparent entry: white background
		img := image.NewPaletted(image.Rect(0, 0, w, h), pal)
		for y := 0; y < h; y++ {
			for x := 0; x < w; x++ {
				img.SetColorIndex(x, y, b.want[y][x])
			}
		}
		b.src = gozxing.NewLuminanceSourceFromImage(img)
	case "Custom":
		want := b.want
		img := &customImage{image.Rect(5, 1, 5+w, 1+h), func(x, y int) color.Color {
			x, y = x-5, y-1
			r, g, bl := colourFor(want[y][x], y*w+x)
			return color.RGBA{r, g, bl, 255}
		}}
		b.src = gozxing.NewLuminanceSourceFromImage(img)
	case "RGBints":
		px := make([]int, w*h)
		for y := 0; y < h; y++ {
			for x := 0; x < w; x++ {
				idx := y*w + x
				r, g, bl := colourFor(b.want[y][x], idx)
				top := []int{0xff, 0x00, 0x80}[idx%3] // the top byte is not part of the colour
				px[idx] = top<<24 | int(r)<<16 | int(g)<<8 | int(bl)
			}
		}
		b.src = gozxing.NewRGBLuminanceSource(w, h, px)
	case "YUV", "YUVrev", "YUVoff", "YUVoffrev":
		rev := kind == "YUVrev" || kind == "YUVoffrev"
		data := make([]byte, b.uw*b.uh+b.uw*b.uh/2)
		for i := range data {
			data[i] = 0x80 // chroma planes
		}
		for y := 0; y < b.uh; y++ {
			for x := 0; x < b.uw; x++ {
				data[y*b.uw+x] = b.want[y][x]
			}
		}
		if rev { // the view (and only the view) is mirrored left-right
			for y := b.t; y < b.t+h; y++ {
				for i, j := b.l, b.l+w-1; i < j; i, j = i+1, j-1 {
					b.want[y][i], b.want[y][j] = b.want[y][j], b.want[y][i]
				}
			}
		}
		b.src, b.err = gozxing.NewPlanarYUVLuminanceSource(data, b.uw, b.uh, b.l, b.t, w, h, rev)
	default:
		panic("harness: unknown kind " + kind)
	}
	return b
}
