package main

// Grey rows. The bilevel families decide the black/white behaviour; the sharpened-threshold row
// model (-1 4 -1 filter against the row's own histogram valley) is a statement about GREY pixels,
// and its comparisons have exact-tie cases that bilevel rows never reach. Every row
//   [b b | L v R | b b a a b b b]   (a = dark level, b = light level of the background)
// is built for EVERY centre value v = 0..255, neighbours L, R from {a, b, 0, 255, v, 1} and six
// backgrounds (whose valleys differ), through three source kinds, and GetBlackRow of the global
// and the hybrid binariser is compared bit for bit with the model.

import (
	"fmt"
	"image"

	"verif/mc"

	"github.com/makiuchi-d/gozxing"
)

type grayCase struct {
	Part   string // "grayrow"
	Row    []int
	Source string
	Bin    string
}

func graySource(kind string, lum []uint8) gozxing.LuminanceSource {
	w := len(lum)
	switch kind {
	case "RGBints":
		px := make([]int, w)
		for i, v := range lum {
			px[i] = 0xff000000 | int(v)<<16 | int(v)<<8 | int(v)
		}
		return gozxing.NewRGBLuminanceSource(w, 1, px)
	case "YUV":
		s, err := gozxing.NewPlanarYUVLuminanceSource(append([]byte{}, lum...), w, 1, 0, 0, w, 1, false)
		if err != nil {
			panic(err)
		}
		return s
	}
	g := image.NewGray(image.Rect(0, 0, w, 1))
	copy(g.Pix, lum)
	return gozxing.NewLuminanceSourceFromImage(g)
}

func grayRowOne(l *mc.Local, c grayCase) {
	lum := make([]uint8, len(c.Row))
	for i, v := range c.Row {
		lum[i] = uint8(v)
	}
	model, ok := modelBlackRow(lum)
	var row *gozxing.BitArray
	var err error
	pm, site := mc.Guard(func() { row, err = newBin(c.Bin, graySource(c.Source, lum)).GetBlackRow(0, nil) })
	l.Count("evaluations", 1)
	key := "C17/grayrow/" + c.Bin
	switch {
	case pm != "":
		chk.Violation("C17/panic/"+site+"/grayrow", fmt.Sprintf("GetBlackRow panics on the grey row %v (%s source): %s", c.Row, c.Source, pm), c)
	case err != nil:
		if !isNotFound(err) {
			chk.Violation(key+"/error-kind", fmt.Sprintf("GetBlackRow on %v fails with %T %v", c.Row, err, err), c)
		} else if ok {
			chk.Violation(key+"/notfound-despite-valley", fmt.Sprintf("GetBlackRow reports NotFound on %v although the documented estimate finds a valley", c.Row), c)
		}
		l.Distinct("outcomes", "grayrow/notfound")
	case !ok:
		l.Count("grayrow_library_accepts_where_model_finds_no_valley", 1) // weaker oracle: not compared
	case row == nil || row.GetSize() < len(lum):
		chk.Violation(key+"/short", fmt.Sprintf("GetBlackRow on %v returns a row shorter than the width", c.Row), c)
	default:
		for x := range lum {
			if row.Get(x) != model[x] {
				chk.Violation(key+"/bit", fmt.Sprintf("GetBlackRow(%v, %s source)[%d] = %v, sharpened-threshold model %v (centre %d, neighbours %d and %d)", c.Row, c.Source, x, row.Get(x), model[x], lum[x], lum[imaxg(x-1, 0)], lum[iming(x+1, len(lum)-1)]), c)
				return
			}
		}
		if len(c.Row) >= 8 && c.Part == "grayrow" {
			l.Distinct("nontrivial", fmt.Sprint("grayrow", c.Row[2:5], c.Row[0], c.Row[7]))
		} else {
			l.Distinct("nontrivial", fmt.Sprint("grayrow", c.Row))
		}
	}
}

func imaxg(a, b int) int {
	if a > b {
		return a
	}
	return b
}

func iming(a, b int) int {
	if a < b {
		return a
	}
	return b
}

func runGrayRows() {
	bgs := [][2]int{{0, 255}, {0, 128}, {64, 255}, {40, 200}, {100, 180}, {0, 16}}
	type job struct{ a, b, v int }
	var jobs []job
	for _, bg := range bgs {
		for v := 0; v < 256; v++ {
			jobs = append(jobs, job{bg[0], bg[1], v})
		}
	}
	rng("binarisers: grey rows [b b L v R b b a a b b b]: 6 backgrounds (dark a, light b) x EVERY centre value v = 0..255 x neighbours L, R from {a, b, 0, 255, v, 1} x sources {Gray image, RGB ints, planar YUV} x {global, hybrid}: GetBlackRow == sharpened-threshold model, bit for bit", len(jobs),
		func(i int) string { return fmt.Sprint(jobs[i]) },
		func(l *mc.Local, i int) {
			j := jobs[i]
			nb := []int{j.a, j.b, 0, 255, j.v, 1}
			for _, L := range nb {
				for _, R := range nb {
					row := []int{j.b, j.b, L, j.v, R, j.b, j.b, j.a, j.a, j.b, j.b, j.b}
					for _, src := range []string{"Gray", "RGBints", "YUV"} {
						for _, bin := range []string{"global", "hybrid"} {
							grayRowOne(l, grayCase{"grayrow", row, src, bin})
						}
					}
				}
			}
		})
	chk.Sample("grayrow", grayCase{"grayrow", []int{255, 255, 0, 84, 0, 255, 255, 0, 0, 255, 255, 255}, "Gray", "global"})
}

// runValleyTies: rows whose histogram makes the two best valley candidates score EXACTLY the same.
// The documented estimate scans from the white side and keeps the first maximum, so a tie goes to the
// bucket nearer the white peak; bilevel rows and the short grey rows above never tie. For every pair
// of peak buckets (dark d, light w, w - d >= 4) the best bucket x1 of the valley and the runner-up
// x2 get n1 and n2 pixels and the tallest peak M pixels with g(x1)(M - n1) = g(x2)(M - n2),
// g(x) = (x-d)^2 (w-x), found by a small search; the lower of the two buckets holds a flat run of
// at least three pixels, whose interior is black under one candidate black point and white under
// the other. Both polarities of which peak is the taller one.
func runValleyTies() {
	type tie struct{ d, w, x1, x2, M, n1, n2 int }
	var ties []tie
	g := func(d, w, x int) int { return (x - d) * (x - d) * (w - x) }
	for d := 0; d < 28; d++ {
		for w := d + 4; w < 32; w++ {
			x1, x2, x3 := -1, -1, -1
			for x := d + 1; x < w; x++ {
				if x1 < 0 || g(d, w, x) > g(d, w, x1) {
					x1 = x
				}
			}
			for x := d + 1; x < w; x++ {
				if x != x1 && (x2 < 0 || g(d, w, x) > g(d, w, x2)) {
					x2 = x
				}
			}
			for x := d + 1; x < w; x++ {
				if x != x1 && x != x2 && (x3 < 0 || g(d, w, x) > g(d, w, x3)) {
					x3 = x
				}
			}
			g1, g2, g3 := g(d, w, x1), g(d, w, x2), 0
			if x3 >= 0 {
				g3 = g(d, w, x3)
			}
			found := false
			for M := 8; M <= 900 && !found; M++ {
				for n2 := 0; n2 <= 8 && !found; n2++ {
					if x2 < x1 && n2 < 3 {
						continue // the probe run lives in the lower bucket
					}
					if g2*(M-n2)%g1 != 0 {
						continue
					}
					n1 := M - g2*(M-n2)/g1
					if n1 < 0 || n1 > M/3 || (x1 < x2 && n1 < 3) || g2*(M-n2) <= g3*M {
						continue
					}
					ties = append(ties, tie{d, w, x1, x2, M, n1, n2})
					found = true
				}
			}
		}
	}
	rng(fmt.Sprintf("binarisers: grey rows whose two best valley buckets tie exactly (%d (dark, light) peak pairs with a constructible tie; tallest peak dark or light; a flat probe run in the lower of the two buckets) x {global, hybrid}: GetBlackRow == sharpened-threshold model (the tie goes to the bucket nearer the white peak)", len(ties)), len(ties),
		func(i int) string { return fmt.Sprint(ties[i]) },
		func(l *mc.Local, i int) {
			t := ties[i]
			for _, tallLight := range []bool{true, false} {
				tall, other := t.w, t.d
				if !tallLight {
					tall, other = t.d, t.w
				}
				var row []int
				for k := 0; k < t.M-1; k++ {
					row = append(row, other*8+3)
				}
				for k := 0; k < t.M-1; k++ { // the M-th pixel of the tallest peak closes the row
					row = append(row, tall*8+3)
				}
				for k := 0; k < t.n1; k++ {
					row = append(row, t.x1*8+4)
				}
				for k := 0; k < t.n2; k++ {
					row = append(row, t.x2*8+4)
				}
				row = append(row, tall*8+3) // the probe runs are interior pixels
				for _, bin := range []string{"global", "hybrid"} {
					grayRowOne(l, grayCase{"grayrow", row, "Gray", bin})
				}
			}
		})
}

// runHistogramShapes: the black-point estimate walks over the histogram buckets between the two
// peaks; which bucket wins depends on the SHAPE of the histogram (a valley directly above the dark
// peak, directly below the light one, plateaus, a second peak next to the first). Every row made of
// up to five runs, each run one of four adjacent grey levels (buckets d .. d+3) and 1, 3 or 10
// pixels long, for d = 2, 14 and 27: GetBlackRow of both binarisers == the model, bit for bit.
func runHistogramShapes() {
	type run struct{ level, n int }
	var rows [][]run
	var gen func(cur []run)
	gen = func(cur []run) {
		if len(cur) >= 2 {
			rows = append(rows, append([]run{}, cur...))
		}
		if len(cur) == 5 {
			return
		}
		for lv := 0; lv < 4; lv++ {
			if len(cur) > 0 && cur[len(cur)-1].level == lv {
				continue
			}
			for _, n := range []int{1, 3, 10} {
				gen(append(cur, run{lv, n}))
			}
		}
	}
	gen(nil)
	const chunk = 512
	rng(fmt.Sprintf("binarisers: histogram shapes: every row of 2..5 runs, each run one of four adjacent grey levels (buckets d..d+3) x 1, 3 or 10 pixels, for d in {2, 14, 27} x {global, hybrid}: GetBlackRow == sharpened-threshold model [%d rows x 3 offsets]", len(rows)), (len(rows)+chunk-1)/chunk,
		func(i int) string { return fmt.Sprint("rows from ", i*chunk) },
		func(l *mc.Local, i int) {
			for k := i * chunk; k < (i+1)*chunk && k < len(rows); k++ {
				for _, d := range []int{2, 14, 27} {
					var row []int
					for _, r := range rows[k] {
						for q := 0; q < r.n; q++ {
							row = append(row, (d+r.level)*8+4)
						}
					}
					for _, bin := range []string{"global", "hybrid"} {
						grayRowOne(l, grayCase{"grayrow-shape", row, "YUV", bin})
					}
				}
			}
		})
}
