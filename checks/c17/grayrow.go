package main

// Grey rows. The bilevel families decide the black/white behaviour; the sharpened-threshold row
// model (-1 4 -1 filter against the row's own histogram valley) is a statement about GREY pixels,
// and its comparisons have exact-tie cases that bilevel rows never reach. Every row
//   [b b | L v R | b b a a b b b]   (a = dark level, b = light level of the background)
// is built for EVERY centre value v = 0..255, neighbours L, R from {a, b, 0, 255, v, 1} and six
// backgrounds (whose valleys differ), through three source kinds, and GetBlackRow of the global
// and the hybrid binariser is compared bit for bit with the model.

import (
	"fmt"
	"image"

	"verif/mc"

	"github.com/makiuchi-d/gozxing"
)

type grayCase struct {
	Part   string // "grayrow"
	Row    []int
	Source string
	Bin    string
}

func graySource(kind string, lum []uint8) gozxing.LuminanceSource {
	w := len(lum)
	switch kind {
	case "RGBints":
		px := make([]int, w)
		for i, v := range lum {
			px[i] = 0xff000000 | int(v)<<16 | int(v)<<8 | int(v)
		}
		return gozxing.NewRGBLuminanceSource(w, 1, px)
	case "YUV":
		s, err := gozxing.NewPlanarYUVLuminanceSource(append([]byte{}, lum...), w, 1, 0, 0, w, 1, false)
		if err != nil {
			panic(err)
		}
		return s
	}
	g := image.NewGray(image.Rect(0, 0, w, 1))
	copy(g.Pix, lum)
	return gozxing.NewLuminanceSourceFromImage(g)
}

func grayRowOne(l *mc.Local, c grayCase) {
	lum := make([]uint8, len(c.Row))
	for i, v := range c.Row {
		lum[i] = uint8(v)
	}
	model, ok := modelBlackRow(lum)
	var row *gozxing.BitArray
	var err error
	pm, site := mc.Guard(func() { row, err = newBin(c.Bin, graySource(c.Source, lum)).GetBlackRow(0, nil) })
	l.Count("evaluations", 1)
	key := "C17/grayrow/" + c.Bin
	switch {
	case pm != "":
		chk.Violation("C17/panic/"+site+"/grayrow", fmt.Sprintf("GetBlackRow panics on the grey row %v (%s source): %s", c.Row, c.Source, pm), c)
	case err != nil:
		if !isNotFound(err) {
			chk.Violation(key+"/error-kind", fmt.Sprintf("GetBlackRow on %v fails with %T %v", c.Row, err, err), c)
		} else if ok {
			chk.Violation(key+"/notfound-despite-valley", fmt.Sprintf("GetBlackRow reports NotFound on %v although the documented estimate finds a valley", c.Row), c)
		}
		l.Distinct("outcomes", "grayrow/notfound")
	case !ok:
		l.Count("grayrow_library_accepts_where_model_finds_no_valley", 1) // weaker oracle: not compared
	case row == nil || row.GetSize() < len(lum):
		chk.Violation(key+"/short", fmt.Sprintf("GetBlackRow on %v returns a row shorter than the width", c.Row), c)
	default:
		for x := range lum {
			if row.Get(x) != model[x] {
				chk.Violation(key+"/bit", fmt.Sprintf("GetBlackRow(%v, %s source)[%d] = %v, sharpened-threshold model %v (centre %d, neighbours %d and %d)", c.Row, c.Source, x, row.Get(x), model[x], lum[x], lum[imaxg(x-1, 0)], lum[iming(x+1, len(lum)-1)]), c)
				return
			}
		}
		l.Distinct("nontrivial", fmt.Sprint("grayrow", c.Row[2:5], c.Row[0], c.Row[7]))
	}
}

func imaxg(a, b int) int {
	if a > b {
		return a
	}
	return b
}

func iming(a, b int) int {
	if a < b {
		return a
	}
	return b
}

func runGrayRows() {
	bgs := [][2]int{{0, 255}, {0, 128}, {64, 255}, {40, 200}, {100, 180}, {0, 16}}
	type job struct{ a, b, v int }
	var jobs []job
	for _, bg := range bgs {
		for v := 0; v < 256; v++ {
			jobs = append(jobs, job{bg[0], bg[1], v})
		}
	}
	rng("binarisers: grey rows [b b L v R b b a a b b b]: 6 backgrounds (dark a, light b) x EVERY centre value v = 0..255 x neighbours L, R from {a, b, 0, 255, v, 1} x sources {Gray image, RGB ints, planar YUV} x {global, hybrid}: GetBlackRow == sharpened-threshold model, bit for bit", len(jobs),
		func(i int) string { return fmt.Sprint(jobs[i]) },
		func(l *mc.Local, i int) {
			j := jobs[i]
			nb := []int{j.a, j.b, 0, 255, j.v, 1}
			for _, L := range nb {
				for _, R := range nb {
					row := []int{j.b, j.b, L, j.v, R, j.b, j.b, j.a, j.a, j.b, j.b, j.b}
					for _, src := range []string{"Gray", "RGBints", "YUV"} {
						for _, bin := range []string{"global", "hybrid"} {
							grayRowOne(l, grayCase{"grayrow", row, src, bin})
						}
					}
				}
			}
		})
	chk.Sample("grayrow", grayCase{"grayrow", []int{255, 255, 0, 84, 0, 255, 255, 0, 0, 255, 255, 255}, "Gray", "global"})
}
