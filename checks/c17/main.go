// C17 — luminance views are consistent and bilevel images binarise exactly.
//
// Part 1 (explicit-state search): a state is the history of view operations that reaches it; a
// successor is built by replaying the history on a fresh real source and applying one more
// operation (crop with in- and out-of-range rectangles, invert, quarter turn) to the real object
// and to a naive pixel-array model; after every step all queries are compared; states are
// deduplicated on geometry + inversion parity + pixel content.
// Part 2 (exhaustive image enumeration): both binarisers on every tiny bilevel image, on
// single flipped pixels in five fills at all sizes around the 40-pixel switch, and on the
// rendered symbols of all writers; the oracle is "black matrix == (luminance == 0), or
// NotFound", and the re-stated sharpened-threshold row model.
package main

import (
	"fmt"
	"image"
	"image/color"
	"runtime/debug"

	"verif/mc"

	"github.com/makiuchi-d/gozxing"
)

var chk *mc.Check

func main() {
	debug.SetGCPercent(800) // many short-lived pixel copies on 16 workers: collect less often
	chk = mc.New("C17", "model_checking")
	chk.Rule = "views: BFS over operation histories on the real LuminanceSource with a naive pixel-array model, state = (view size, position in the underlying image, inversion parity, pixels); non-trivial = distinct canonical states with at least two different pixel values (plus each base-luminance image). binarisers: every image of the stated finite families is enumerated once; non-trivial = distinct images containing both colours"
	chk.Assume("base luminance formulas: Gray images use Y; RGB ints and opaque Go-image colours use the green-favouring average floor((R+2G+B)/4) (the top byte of an RGB int is ignored); a fully transparent pixel shows the white background (255); planar YUV uses the Y plane, mirrored inside the view rectangle when reverseHorizontal is set. Partly transparent pixels have no documented formula and get no oracle in the base-luminance sub-space (the value the library produced is used as the base for the view operations)")
	chk.Assume("view operations are compared against the GetMatrix() of the freshly constructed source (read once), so the view oracle is independent of the colour formula")
	chk.Assume("crop: a negative origin, or a rectangle reaching outside the underlying image, must be an error. Weaker readings chosen: a rectangle that leaves the current view but stays inside the underlying image may either be an error or show the underlying pixels at the offset position (the underlying image is rotated along with the view); a zero or negative width/height needs only 'error, or a consistent empty view, never a panic' (consistent = non-negative size with zero area, rows inside it readable, rows outside it errors)")
	chk.Assume("RotateCounterClockwise45 has no pixel oracle: it must not panic and must return a source or an error")
	chk.Assume("binarisers: NotFound is accepted for any bilevel image ('rejected as having no contrast') except images at least 10 pixels wide in which every 4 adjacent pixels of every row contain both colours; any other error kind is a violation")
	chk.Assume("black rows (both binarisers use the global one-row method): 32-bucket histogram, tallest peak, second peak by count x distance^2, NotFound when the peaks are <= 2 buckets apart, valley score (x-black)^2 x (white-x) x (tallest-count[x]) scanned from the white side, black point = valley*8; rows narrower than 3 are thresholded directly, otherwise interior pixels are black iff (4c-l-r)/2 < black point and the first and last pixel are never set (ZXing's documented edge handling). For a single-coloured row NotFound is also accepted, and if the library returns a row where the estimate finds no contrast only the black-point-independent expectation is required")
	if chk.ReplayFile() != "" {
		replay(chk.ReplayFile())
		flush()
		chk.Finish()
	}
	runBase()
	runViews()
	runTiny()
	runFlipped()
	runSymbols()
	runGrayRows()
	runValleyTies()
	runWideGrayRows()
	runHistogramShapes()
	runBinHistories()
	runBitmapViews()
	chk.Finish()
}

// rng runs one sub-space and then reports its buffered violations.
func rng(name string, n int, desc func(i int) string, fn func(l *mc.Local, i int)) {
	chk.Range(name, n, desc, fn)
	flush()
}

type size struct{ w, h int }

func pickS(q, t string) string {
	if chk.Quick() {
		return q
	}
	return t
}

func smallSizes() []size {
	var out []size
	n := chk.Pick(10, 12)
	for w := 1; w <= n; w++ {
		for h := 1; h <= n; h++ {
			out = append(out, size{w, h})
		}
	}
	if chk.Quick() {
		out = append(out, size{7, 12}, size{12, 7})
	}
	return out
}

var largeSizes = []size{{39, 40}, {40, 40}, {41, 47}, {48, 48}, {200, 3}, {3, 200}}

type root struct {
	kind string
	size
}

func roots(sizes []size) []root {
	var out []root
	for _, k := range kinds {
		for _, s := range sizes {
			out = append(out, root{k, s})
		}
	}
	return out
}

func runBase() {
	rs := roots(append(smallSizes(), largeSizes...))
	rng(fmt.Sprintf("base luminance: %d source kinds x %d sizes, position-coded colours, every pixel against the documented formula", len(kinds), len(rs)/len(kinds)), len(rs),
		func(i int) string { return fmt.Sprint(rs[i]) },
		func(l *mc.Local, i int) { checkBase(l, rs[i].kind, rs[i].w, rs[i].h) })
	// colour cube: every (R,G,B) in {0,1,2,3,127,128,254,255}^3 through every colour source kind
	cube := []string{"RGBints", "RGBA", "NRGBA", "NRGBA-transparent", "Custom-NRGBA64"}
	rng("base luminance: colour cube {0,1,2,3,127,128,254,255}^3 as a 32x16 image through RGB ints, RGBA, NRGBA (opaque and fully transparent) and a custom image type with 16-bit colours", len(cube),
		func(i int) string { return cube[i] },
		func(l *mc.Local, i int) { checkCube(l, cube[i]) })
}

func checkCube(l *mc.Local, kind string) {
	vals := []int{0, 1, 2, 3, 127, 128, 254, 255}
	const w, h = 32, 16
	rgb := func(x, y int) (int, int, int) {
		i := y*w + x
		return vals[i/64], vals[i/8%8], vals[i%8]
	}
	var d string
	pm, site := mc.Guard(func() {
		var src gozxing.LuminanceSource
		transparent := false
		switch kind {
		case "RGBints":
			px := make([]int, w*h)
			for i := range px {
				r, g, b := rgb(i%w, i/w)
				px[i] = 0xff<<24 | r<<16 | g<<8 | b
			}
			src = gozxing.NewRGBLuminanceSource(w, h, px)
		case "RGBA":
			img := image.NewRGBA(image.Rect(0, 0, w, h))
			for i := 0; i < w*h; i++ {
				r, g, b := rgb(i%w, i/w)
				img.SetRGBA(i%w, i/w, color.RGBA{uint8(r), uint8(g), uint8(b), 255})
			}
			src = gozxing.NewLuminanceSourceFromImage(img)
		case "NRGBA", "NRGBA-transparent":
			transparent = kind == "NRGBA-transparent"
			img := image.NewNRGBA(image.Rect(0, 0, w, h))
			for i := 0; i < w*h; i++ {
				r, g, b := rgb(i%w, i/w)
				a := uint8(255)
				if transparent {
					a = 0
				}
				img.SetNRGBA(i%w, i/w, color.NRGBA{uint8(r), uint8(g), uint8(b), a})
			}
			src = gozxing.NewLuminanceSourceFromImage(img)
		case "Custom-NRGBA64":
			src = gozxing.NewLuminanceSourceFromImage(&customImage{image.Rect(0, 0, w, h), func(x, y int) color.Color {
				r, g, b := rgb(x, y)
				return color.NRGBA64{uint16(r * 0x101), uint16(g * 0x101), uint16(b * 0x101), 0xffff}
			}})
		}
		mat := src.GetMatrix()
		for y := 0; y < h; y++ {
			for x := 0; x < w; x++ {
				r, g, b := rgb(x, y)
				want := uint8((r + 2*g + b) / 4)
				if transparent {
					want = 255
				}
				if mat[y*w+x] != want {
					d = fmt.Sprintf("colour (%d,%d,%d): luminance %d, formula %d", r, g, b, mat[y*w+x], want)
					return
				}
			}
		}
	})
	l.Count("evaluations", 1)
	cs := vcase{Part: "cube", Kind: kind, W: w, H: h}
	if pm != "" {
		chk.Violation("C17/panic/"+site+"/construct-cube-"+kind, pm, cs)
	} else if d != "" {
		chk.Violation("C17/base-luminance/"+kind, "colour cube: "+d, cs)
	} else {
		l.Distinct("nontrivial", "cube/"+kind)
	}
}

func runViews() {
	small := roots(smallSizes())
	d1 := chk.Pick(3, 3)
	rng(fmt.Sprintf("views: %d source kinds x sizes %s, full menu (<= 24 operations per state), all histories of length <= %d", len(kinds), pickS("1..10 x 1..10 + (7,12),(12,7)", "1..12 x 1..12"), d1), len(small),
		func(i int) string { return fmt.Sprint(small[i]) },
		func(l *mc.Local, i int) { search(l, small[i].kind, small[i].w, small[i].h, d1, true) })
	large := roots(largeSizes)
	d2 := d1
	rng(fmt.Sprintf("views: %d source kinds x sizes {39x40,40x40,41x47,48x48,200x3,3x200}, full menu, all histories of length <= %d", len(kinds), d2), len(large),
		func(i int) string { return fmt.Sprint(large[i]) },
		func(l *mc.Local, i int) { search(l, large[i].kind, large[i].w, large[i].h, d2, true) })
	all := roots(append(smallSizes(), largeSizes...))
	d3 := chk.Pick(5, 6)
	rng(fmt.Sprintf("views: %d source kinds x all %d sizes, six-operation sub-menu {crop(1,1,w-2,h-2), crop(0,0,w-1,h), invert, rotate, crop(1,0,w-1,h), crop(0,1,w,h-1)}, all histories of length <= %d", len(kinds), len(all)/len(kinds), d3), len(all),
		func(i int) string { return fmt.Sprint(all[i]) },
		func(l *mc.Local, i int) { search(l, all[i].kind, all[i].w, all[i].h, d3, false) })
	// size ladder: fast paths chosen by a size threshold (tiles, strides, buffers) sit at powers of two
	ladder := roots([]size{{255, 257}, {256, 256}, {258, 259}, {300, 290}, {513, 260}, {1025, 3}, {3, 1025}})
	dl := chk.Pick(2, 3)
	rng(fmt.Sprintf("views: %d source kinds x ladder sizes {255x257,256x256,258x259,300x290,513x260,1025x3,3x1025}, six-operation sub-menu, all histories of length <= %d", len(kinds), dl), len(ladder),
		func(i int) string { return fmt.Sprint(ladder[i]) },
		func(l *mc.Local, i int) { search(l, ladder[i].kind, ladder[i].w, ladder[i].h, dl, false) })
	// more than 2^16 rows or columns (a row or column index in something narrower than an int)
	tall := roots([]size{{3, 65537}, {65537, 3}, {2, 70001}})
	rng(fmt.Sprintf("views: %d source kinds x sizes {3x65537, 65537x3, 2x70001}, six-operation sub-menu, all histories of length <= 1", len(kinds)), len(tall),
		func(i int) string { return fmt.Sprint(tall[i]) },
		func(l *mc.Local, i int) { search(l, tall[i].kind, tall[i].w, tall[i].h, 1, false) })
	var tiny []size
	nt := chk.Pick(5, 7)
	for w := 1; w <= nt; w++ {
		for h := 1; h <= nt; h++ {
			tiny = append(tiny, size{w, h})
		}
	}
	tr := roots(tiny)
	rng(fmt.Sprintf("views: argument product of Crop: %d source kinds x sizes 1..%d x 1..%d x 7 prefixes (fresh, rotate, invert, two crops, two rotations, crop+rotate) x EVERY (left,top,width,height) with left in -1..w, top in -1..h, width in -1..w+2, height in -1..h+2", len(kinds), nt, nt), len(tr),
		func(i int) string { return fmt.Sprint(tr[i]) },
		func(l *mc.Local, i int) { allCrops(l, tr[i].kind, tr[i].w, tr[i].h) })
	chk.Sample("view history", vcase{"view", "RGBints", 5, 4, []string{"crop(1,0,4,4)", "invert", "crop(1,0,4,4)"}})
	chk.Sample("view history", vcase{"view", "Gray", 41, 47, []string{"crop(1,1,39,45)", "rotate", "crop(0,1,45,38)", "invert"}})
}

// ------------------------------------------------------------------ replay

func replay(path string) {
	var raw map[string]interface{}
	if err := mc.LoadReplay(path, &raw); err != nil {
		fmt.Println("cannot load replay:", err)
		return
	}
	l := chk.NewLocal()
	defer l.Merge()
	switch raw["Part"] {
	case "grayrow", "grayrow-shape":
		var c grayCase
		mc.LoadReplay(path, &c)
		fmt.Printf("replay grey row %v (%s, %s)\n", c.Row, c.Source, c.Bin)
		grayRowOne(l, c)
	case "widegray":
		var c wideGrayCase
		mc.LoadReplay(path, &c)
		fmt.Printf("replay wide grey row %+v\n", c)
		wideGrayOne(l, c)
	case "bitmapview":
		var c bvCase
		mc.LoadReplay(path, &c)
		fmt.Printf("replay bitmap view %+v\n", c)
		bvOne(l, c)
	case "binhist":
		var c binHistCase
		mc.LoadReplay(path, &c)
		fmt.Printf("replay binariser history %+v\n", c)
		binHistOne(l, c)
	case "bin":
		var c bcase
		mc.LoadReplay(path, &c)
		im := bimgFromRows(c.Rows)
		fmt.Printf("replay binarisers on a %dx%d bilevel image (%s)\n", im.w, im.h, c.Class)
		checkBilevel(l, im, c.Class, true)
	case "base":
		var c vcase
		mc.LoadReplay(path, &c)
		fmt.Printf("replay base luminance %s %dx%d\n", c.Kind, c.W, c.H)
		checkBase(l, c.Kind, c.W, c.H)
	case "cube":
		var c vcase
		mc.LoadReplay(path, &c)
		fmt.Printf("replay colour cube %s\n", c.Kind)
		checkCube(l, c.Kind)
	default:
		var c vcase
		mc.LoadReplay(path, &c)
		fmt.Printf("replay view %s %dx%d ops=%v\n", c.Kind, c.W, c.H, c.Ops)
		l.Count("evaluations", 1)
		s := &stepper{l: l, kind: c.Kind, w: c.W, h: c.H}
		src, m, msg := initial(c.Kind, c.W, c.H)
		if msg != "" {
			chk.Violation("C17/init/"+c.Kind, msg, c)
			return
		}
		if !s.check(src, m, "init") {
			return
		}
		for i, os := range c.Ops {
			o, err := parseOp(os)
			if err != nil {
				fmt.Println("bad operation in replay:", err)
				return
			}
			cls := ""
			if o.Op == "crop" {
				cls = " [" + m.cropClass(o.L, o.T, o.W, o.H) + "]"
			}
			src, m = s.step(src, m, o, false)
			s.hist = append(s.hist, o)
			if src == nil {
				fmt.Printf("  step %d %s%s: no successor state (error returned, terminal view, or violation reported above)\n", i+1, os, cls)
				return
			}
			fmt.Printf("  step %d %s%s: view %dx%d agrees with the model\n", i+1, os, cls, m.w, m.h)
		}
	}
}
