package main

// Part 2: binarisers on bilevel images (exhaustive enumeration of images).

import (
	"fmt"
	"image"
	"strings"

	"verif/mc"

	"github.com/makiuchi-d/gozxing"
	"github.com/makiuchi-d/gozxing/datamatrix"
	"github.com/makiuchi-d/gozxing/oned"
	"github.com/makiuchi-d/gozxing/qrcode"
)

type bimg struct {
	w, h  int
	black []bool // row-major; true = luminance 0, false = luminance 255
}

func newBimg(w, h int) *bimg { return &bimg{w, h, make([]bool, w*h)} }

func (b *bimg) rows() []string {
	out := make([]string, b.h)
	for y := 0; y < b.h; y++ {
		var sb strings.Builder
		for x := 0; x < b.w; x++ {
			if b.black[y*b.w+x] {
				sb.WriteByte('#')
			} else {
				sb.WriteByte('.')
			}
		}
		out[y] = sb.String()
	}
	return out
}

func bimgFromRows(rows []string) *bimg {
	if len(rows) == 0 {
		return newBimg(0, 0)
	}
	b := newBimg(len(rows[0]), len(rows))
	for y, r := range rows {
		for x := 0; x < b.w && x < len(r); x++ {
			b.black[y*b.w+x] = r[x] == '#'
		}
	}
	return b
}

func (b *bimg) source() gozxing.LuminanceSource {
	img := image.NewGray(image.Rect(0, 0, b.w, b.h))
	for i, k := range b.black {
		if !k {
			img.Pix[i] = 255
		}
	}
	return gozxing.NewLuminanceSourceFromImage(img)
}

func (b *bimg) crop(l, t, w, h int) *bimg {
	n := newBimg(w, h)
	for y := 0; y < h; y++ {
		for x := 0; x < w; x++ {
			n.black[y*w+x] = b.black[(t+y)*b.w+l+x]
		}
	}
	return n
}

func (b *bimg) rotate() *bimg { // quarter turn counter-clockwise
	n := newBimg(b.h, b.w)
	for y := 0; y < n.h; y++ {
		for x := 0; x < n.w; x++ {
			n.black[y*n.w+x] = b.black[x*b.w+(b.w-1-y)]
		}
	}
	return n
}

func (b *bimg) both() bool {
	for _, k := range b.black {
		if k != b.black[0] {
			return true
		}
	}
	return false
}

// contrastEverywhere: at least 10 pixels wide and every 4 consecutive pixels of every row hold
// both colours. Such an image cannot be "rejected as having no contrast", whichever rows and
// columns a binariser chooses to sample.
func (b *bimg) contrastEverywhere() bool {
	if b.w < 10 || b.h < 1 {
		return false
	}
	for y := 0; y < b.h; y++ {
		for x := 0; x+4 <= b.w; x++ {
			r := b.black[y*b.w+x : y*b.w+x+4]
			if r[0] == r[1] && r[1] == r[2] && r[2] == r[3] {
				return false
			}
		}
	}
	return true
}

type bcase struct {
	Part  string
	Class string
	W, H  int
	Rows  []string
}

func isNotFound(e error) bool {
	_, ok := e.(gozxing.NotFoundException)
	return ok
}

func newBin(bin string, src gozxing.LuminanceSource) gozxing.Binarizer {
	if bin == "hybrid" {
		return gozxing.NewHybridBinarizer(src)
	}
	return gozxing.NewGlobalHistgramBinarizer(src)
}

// judgeMatrix returns ("", outcome) when the result is acceptable (outcome "exact" or "notfound"),
// otherwise a key suffix and a description.
func judgeMatrix(im *bimg, m *gozxing.BitMatrix, e error) (suffix, detail string) {
	if e != nil {
		if !isNotFound(e) {
			return "error-kind", fmt.Sprintf("GetBlackMatrix failed with %T %v, which is not a NotFoundException", e, e)
		}
		if im.contrastEverywhere() {
			return "notfound-despite-contrast", "GetBlackMatrix reported NotFound although every 4 adjacent pixels of every row contain black and white"
		}
		return "", "notfound"
	}
	if m == nil {
		return "error-kind", "GetBlackMatrix returned neither a matrix nor an error"
	}
	if m.GetWidth() != im.w || m.GetHeight() != im.h {
		return "dims", fmt.Sprintf("black matrix is %dx%d for a %dx%d image", m.GetWidth(), m.GetHeight(), im.w, im.h)
	}
	for y := 0; y < im.h; y++ {
		for x := 0; x < im.w; x++ {
			want := im.black[y*im.w+x]
			if m.Get(x, y) != want {
				pos := "inner"
				switch {
				case y == im.h-1:
					pos = "last-row"
				case x == im.w-1:
					pos = "last-column"
				case y == 0:
					pos = "first-row"
				case x == 0:
					pos = "first-column"
				}
				if want {
					return "black-missed-" + pos, fmt.Sprintf("pixel (%d,%d) has luminance 0 but is white in the black matrix", x, y)
				}
				return "white-set-" + pos, fmt.Sprintf("pixel (%d,%d) has luminance 255 but is black in the black matrix", x, y)
			}
		}
	}
	return "", "exact"
}

func sameResult(m1 *gozxing.BitMatrix, e1 error, m2 *gozxing.BitMatrix, e2 error) bool {
	if (e1 == nil) != (e2 == nil) {
		return false
	}
	if e1 != nil {
		return isNotFound(e1) == isNotFound(e2)
	}
	if m1 == nil || m2 == nil || m1.GetWidth() != m2.GetWidth() || m1.GetHeight() != m2.GetHeight() {
		return false
	}
	for y := 0; y < m1.GetHeight(); y++ {
		for x := 0; x < m1.GetWidth(); x++ {
			if m1.Get(x, y) != m2.Get(x, y) {
				return false
			}
		}
	}
	return true
}

// judgeRow compares one black row with the sharpened-threshold model.
func judgeRow(im *bimg, y int, row *gozxing.BitArray, e error) (suffix, detail string) {
	w := im.w
	lum := make([]uint8, w)
	hasBlack, hasWhite := false, false
	for x := 0; x < w; x++ {
		if im.black[y*w+x] {
			hasBlack = true
		} else {
			lum[x] = 255
			hasWhite = true
		}
	}
	model, ok := modelBlackRow(lum)
	if hasBlack && hasWhite && !ok {
		panic("harness: the row model finds no contrast in a row with both colours")
	}
	if e != nil {
		if !isNotFound(e) {
			return "row/error-kind", fmt.Sprintf("GetBlackRow(%d) failed with %T %v", y, e, e)
		}
		if hasBlack && hasWhite {
			return "row/notfound-despite-contrast", fmt.Sprintf("GetBlackRow(%d) reported NotFound for a row with black and white pixels", y)
		}
		return "", "notfound"
	}
	if row == nil || row.GetSize() < w {
		return "row/short", fmt.Sprintf("GetBlackRow(%d) returned a row shorter than the width", y)
	}
	if !ok {
		// single-coloured row that the documented estimate rejects but the library accepted:
		// weaker oracle, any black point strictly between 0 and 255 gives the same bits
		model = make([]bool, w)
		for x := 0; x < w; x++ {
			model[x] = im.black[y*w+x] && (w < 3 || (x > 0 && x < w-1))
		}
	}
	for x := 0; x < w; x++ {
		if row.Get(x) != model[x] {
			cls := "interior"
			switch {
			case w < 3:
				cls = "narrow"
			case x == 0:
				cls = "first-pixel"
			case x == w-1:
				cls = "last-pixel"
			}
			return "row/" + cls, fmt.Sprintf("GetBlackRow(%d)[%d] = %v, sharpened-threshold model %v", y, x, row.Get(x), model[x])
		}
	}
	return "", "row"
}

// runBin performs every check of one binariser on one image; the first problem is returned.
func runBin(l *mc.Local, im *bimg, bin string, extras bool) (suffix, detail string) {
	src := im.source()
	b := newBin(bin, src)
	bb, err := gozxing.NewBinaryBitmap(b)
	if err != nil {
		return "error-kind", "NewBinaryBitmap: " + err.Error()
	}
	if bb.GetWidth() != im.w || bb.GetHeight() != im.h {
		return "dims", fmt.Sprintf("bitmap reports %dx%d", bb.GetWidth(), bb.GetHeight())
	}
	m1, e1 := bb.GetBlackMatrix()
	s, d := judgeMatrix(im, m1, e1)
	if s != "" {
		return s, d
	}
	l.Distinct("outcomes", bin+":matrix:"+d)
	l.Count("matrix_"+d, 1)
	m2, e2 := bb.GetBlackMatrix()
	if !sameResult(m1, e1, m2, e2) {
		return "cache", "the second GetBlackMatrix() of the same bitmap differs from the first"
	}
	reuse := gozxing.NewBitArray(im.w + 3)
	for y := 0; y < im.h; y++ {
		if bin == "hybrid" && !extras {
			// the local binariser inherits the one-row method of the global one; where the
			// image family is large the rows are fetched through the global binariser only
			break
		}
		var buf *gozxing.BitArray
		if y%2 == 1 {
			reuse.SetRange(0, im.w+3)
			buf = reuse
		}
		row, er := bb.GetBlackRow(y, buf)
		s, d := judgeRow(im, y, row, er)
		if s != "" {
			return s, d
		}
		l.Count("black_rows", 1)
		l.Distinct("outcomes", bin+":"+d)
	}
	for _, y := range farRows(im.w, im.h) {
		if _, er := bb.GetBlackRow(y, nil); er == nil {
			return "row/out-of-range", fmt.Sprintf("GetBlackRow(%d) on height %d returned no error", y, im.h)
		}
	}
	// once more after the rows, straight from the binariser (the global method recomputes with
	// the buffers the rows just used; the local method must return its cache)
	m3, e3 := b.GetBlackMatrix()
	if !sameResult(m1, e1, m3, e3) {
		return "cache", "GetBlackMatrix() after fetching the rows differs from the first result"
	}
	if m1 != nil {
		if s, d := judgeMatrix(im, m1, nil); s != "" {
			return "cache", "the first matrix changed after later calls: " + d
		}
	}
	if !extras {
		return "", ""
	}
	// BinaryBitmap.Crop / RotateCounterClockwise agree with binarising the cropped/rotated source
	type rect struct{ l, t, w, h int }
	var rects []rect
	if im.w >= 2 {
		rects = append(rects, rect{1, 0, im.w - 1, im.h})
	}
	if im.h >= 2 {
		rects = append(rects, rect{0, 1, im.w, im.h - 1})
	}
	if im.w > 40 || im.h > 40 {
		cw, ch := min(im.w, 40), min(im.h, 40)
		rects = append(rects, rect{im.w - cw, im.h - ch, cw, ch})
	}
	if im.w > 39 {
		rects = append(rects, rect{0, 0, 39, im.h})
	}
	if !bb.IsCropSupported() || !bb.IsRotateSupported() {
		return "bitmap-flags", "BinaryBitmap over a Go image source does not report crop and rotate support"
	}
	for _, r := range rects {
		want := im.crop(r.l, r.t, r.w, r.h)
		bc, ec := bb.Crop(r.l, r.t, r.w, r.h)
		if ec != nil || bc == nil {
			return "bitmap-crop", fmt.Sprintf("BinaryBitmap.Crop(%d,%d,%d,%d) failed: %v", r.l, r.t, r.w, r.h, ec)
		}
		mc1, ec1 := bc.GetBlackMatrix()
		if s, d := judgeMatrix(want, mc1, ec1); s != "" {
			return "bitmap-crop", fmt.Sprintf("after BinaryBitmap.Crop(%d,%d,%d,%d): %s", r.l, r.t, r.w, r.h, d)
		}
		sc, _ := src.Crop(r.l, r.t, r.w, r.h)
		direct, _ := gozxing.NewBinaryBitmap(newBin(bin, sc))
		md, ed := direct.GetBlackMatrix()
		if !sameResult(mc1, ec1, md, ed) {
			return "bitmap-crop", fmt.Sprintf("BinaryBitmap.Crop(%d,%d,%d,%d) and binarising the cropped source disagree", r.l, r.t, r.w, r.h)
		}
		l.Count("bitmap_crops", 1)
	}
	want := im.rotate()
	br, erot := bb.RotateCounterClockwise()
	if erot != nil || br == nil {
		return "bitmap-rotate", fmt.Sprintf("BinaryBitmap.RotateCounterClockwise failed: %v", erot)
	}
	mr, er := br.GetBlackMatrix()
	if s, d := judgeMatrix(want, mr, er); s != "" {
		return "bitmap-rotate", "after BinaryBitmap.RotateCounterClockwise: " + d
	}
	sr, _ := src.RotateCounterClockwise()
	direct, _ := gozxing.NewBinaryBitmap(newBin(bin, sr))
	md, ed := direct.GetBlackMatrix()
	if !sameResult(mr, er, md, ed) {
		return "bitmap-rotate", "BinaryBitmap.RotateCounterClockwise and binarising the rotated source disagree"
	}
	l.Count("bitmap_rotations", 1)
	return "", ""
}

func checkBilevel(l *mc.Local, im *bimg, class string, extras bool) {
	l.Count("evaluations", 1)
	for _, bin := range []string{"hybrid", "global"} {
		mode := "small"
		if bin == "hybrid" && im.w >= 40 && im.h >= 40 {
			mode = "local"
		}
		var s, d string
		pm, site := mc.Guard(func() { s, d = runBin(l, im, bin, extras) })
		if pm == "" && s == "" {
			continue
		}
		cs := bcase{"bin", class, im.w, im.h, im.rows()}
		rank := fmt.Sprintf("%07d/%s/%v", im.w*im.h, class, cs.Rows)
		if pm != "" {
			what := fmt.Sprintf("%s binariser panicked on a %dx%d bilevel image (%s): %s", bin, im.w, im.h, class, pm)
			report("C17/panic/"+site+"/binarize-"+bin+"-"+mode, rank, func() string { return what }, cs)
			continue
		}
		what := fmt.Sprintf("%s binariser, %dx%d bilevel image (%s): %s", bin, im.w, im.h, class, d)
		key := "C17/binarize/" + bin + "/" + mode + "/" + s
		if strings.HasPrefix(s, "bitmap-") {
			key = "C17/binarize/" + bin + "/" + s // BinaryBitmap.Crop / RotateCounterClockwise: one key each
		}
		report(key, rank, func() string { return what }, cs)
	}
}

// ------------------------------------------------------------------ (a) every tiny bilevel image

func runTiny() {
	maxPix := chk.Pick(15, 16)
	type chunk struct{ w, h, from, to int }
	var chunks []chunk
	total := 0
	for w := 1; w <= maxPix; w++ {
		for h := 1; w*h <= maxPix; h++ {
			n := 1 << uint(w*h)
			total += n
			for from := 0; from < n; from += 1024 {
				chunks = append(chunks, chunk{w, h, from, min(n, from+1024)})
			}
		}
	}
	rng(fmt.Sprintf("binarisers: every bilevel image of every shape w x h with w*h <= %d (%d images), incl. BinaryBitmap crop/rotate", maxPix, total), len(chunks),
		func(i int) string { return fmt.Sprint(chunks[i]) },
		func(l *mc.Local, i int) {
			c := chunks[i]
			for bits := c.from; bits < c.to; bits++ {
				im := newBimg(c.w, c.h)
				for p := 0; p < c.w*c.h; p++ {
					im.black[p] = bits>>uint(p)&1 == 1
				}
				checkBilevel(l, im, "tiny", true)
				if im.both() {
					l.Distinct("nontrivial", fmt.Sprintf("tiny/%d/%d/%d", c.w, c.h, bits))
				}
			}
		})
	chk.Sample("tiny bilevel image", bcase{"bin", "tiny", 4, 3, []string{"#..#", ".##.", "...#"}})
}

// ------------------------------------------------------------------ (b) one flipped pixel around the 40-pixel switch

var fillNames = []string{"white", "black", "checker", "vstripe", "hstripe"}

func fillImage(w, h, fill int) *bimg {
	im := newBimg(w, h)
	for y := 0; y < h; y++ {
		for x := 0; x < w; x++ {
			switch fill {
			case 1:
				im.black[y*w+x] = true
			case 2:
				im.black[y*w+x] = (x+y)%2 == 0
			case 3:
				im.black[y*w+x] = x%2 == 0
			case 4:
				im.black[y*w+x] = y%2 == 0
			}
		}
	}
	return im
}

// lattice: image corners and edges, the pixels next to them, every 8-pixel block boundary and
// the start of the clamped last block.
func onLattice(x, n int) bool {
	return x%8 == 0 || x%8 == 7 || x == 1 || x == n-2 || x == n-8 || x == n-9
}

func runFlipped() {
	var sizes [][2]int
	if chk.Quick() {
		for _, w := range []int{39, 40, 41, 47, 48} {
			for _, h := range []int{39, 40, 41, 47, 48} {
				sizes = append(sizes, [2]int{w, h})
			}
		}
	} else {
		for w := 38; w <= 58; w++ {
			for h := 38; h <= 58; h++ {
				sizes = append(sizes, [2]int{w, h})
			}
		}
	}
	type job struct{ w, h, fill int }
	var jobs []job
	for _, s := range sizes {
		for f := range fillNames {
			jobs = append(jobs, job{s[0], s[1], f})
		}
	}
	name := "binarisers: sizes 38..58 x 38..58, fills white/black with one flipped pixel at every position, fills checker/vstripe/hstripe with one flipped pixel at every lattice position (edges, +-1, multiples of 8, clamped last block), plus the unflipped fill; BinaryBitmap crop/rotate and black rows through the local binariser at lattice positions only"
	if chk.Quick() {
		name = "binarisers: sizes {39,40,41,47,48}^2, fills white/black/checker/vstripe/hstripe with one flipped pixel at every lattice position (edges, +-1, multiples of 8, clamped last block), plus the unflipped fill; BinaryBitmap crop/rotate"
	}
	quick := chk.Quick()
	rng(name, len(jobs),
		func(i int) string { return fmt.Sprint(jobs[i]) },
		func(l *mc.Local, i int) {
			j := jobs[i]
			im := fillImage(j.w, j.h, j.fill)
			class := "flipped-pixel/" + fillNames[j.fill]
			checkBilevel(l, im, class, true)
			if im.both() {
				l.Distinct("nontrivial", fmt.Sprintf("fill/%d/%d/%d", j.w, j.h, j.fill))
			}
			for y := 0; y < j.h; y++ {
				for x := 0; x < j.w; x++ {
					lat := onLattice(x, j.w) && onLattice(y, j.h)
					if !lat && (quick || j.fill >= 2) {
						continue
					}
					l.Beat("")
					im.black[y*j.w+x] = !im.black[y*j.w+x]
					checkBilevel(l, im, class, lat)
					im.black[y*j.w+x] = !im.black[y*j.w+x]
					l.Distinct("nontrivial", fmt.Sprintf("flip/%d/%d/%d/%d/%d", j.w, j.h, j.fill, x, y))
				}
			}
		})
}

// ------------------------------------------------------------------ (c) rendered symbols of the library's writers

type symSpec struct {
	name     string
	mk       func() gozxing.Writer
	format   gozxing.BarcodeFormat
	contents []string
}

func symbolSpecs() []symSpec {
	return []symSpec{
		{"QR", func() gozxing.Writer { return qrcode.NewQRCodeWriter() }, gozxing.BarcodeFormat_QR_CODE, []string{"HELLO", "https://example.com/verif?c=17", "12345678901234567890123456789012345678901234567890"}},
		{"DataMatrix", datamatrix.NewDataMatrixWriter, gozxing.BarcodeFormat_DATA_MATRIX, []string{"A", "Hello World 123", "123456789012345678901234567890"}},
		{"EAN13", oned.NewEAN13Writer, gozxing.BarcodeFormat_EAN_13, []string{"5901234123457", "4006381333931"}},
		{"EAN8", oned.NewEAN8Writer, gozxing.BarcodeFormat_EAN_8, []string{"96385074", "55123457"}},
		{"UPCA", oned.NewUPCAWriter, gozxing.BarcodeFormat_UPC_A, []string{"036000291452", "123456789012"}},
		{"UPCE", oned.NewUPCEWriter, gozxing.BarcodeFormat_UPC_E, []string{"01234565", "04252614"}},
		{"Code128", oned.NewCode128Writer, gozxing.BarcodeFormat_CODE_128, []string{"Code-128", "123456"}},
		{"Code39", oned.NewCode39Writer, gozxing.BarcodeFormat_CODE_39, []string{"CODE39", "A-1"}},
		{"Code93", oned.NewCode93Writer, gozxing.BarcodeFormat_CODE_93, []string{"CODE93", "A-1"}},
		{"ITF", oned.NewITFWriter, gozxing.BarcodeFormat_ITF, []string{"123456", "00"}},
		{"Codabar", oned.NewCodaBarWriter, gozxing.BarcodeFormat_CODABAR, []string{"A1234B", "C9-$D"}},
	}
}

func padOptions(d int) []int {
	opts := []int{d, d + 1, d + 5}
	for _, t := range []int{38, 39, 40, 41, 47, 48} {
		if t > d {
			dup := false
			for _, o := range opts {
				dup = dup || o == t
			}
			if !dup {
				opts = append(opts, t)
			}
		}
	}
	return opts
}

func runSymbols() {
	type job struct {
		spec    symSpec
		content string
		scale   int
	}
	var jobs []job
	for _, sp := range symbolSpecs() {
		cs := sp.contents
		if chk.Quick() {
			cs = cs[:1]
		}
		for _, c := range cs {
			for scale := 1; scale <= 4; scale++ {
				jobs = append(jobs, job{sp, c, scale})
			}
		}
	}
	rng(fmt.Sprintf("binarisers: symbols rendered by the 11 writers (Encode(content, format, 0, 0, nil); %d symbol contents), scales 1..4, 1-D symbols at bar heights {1, 37}, padded with white to every width and height in {d, d+1, d+5} and {38,39,40,41,47,48} above d; BinaryBitmap crop/rotate", len(jobs)/4), len(jobs),
		func(i int) string { return fmt.Sprintf("%s %q x%d", jobs[i].spec.name, jobs[i].content, jobs[i].scale) },
		func(l *mc.Local, i int) {
			j := jobs[i]
			var m *gozxing.BitMatrix
			var err error
			pm, _ := mc.Guard(func() { m, err = j.spec.mk().Encode(j.content, j.spec.format, 0, 0, nil) })
			if pm != "" || err != nil || m == nil {
				chk.Note(fmt.Sprintf("writer %s could not encode %q (%v %s): symbol skipped (writers are the subject of other properties)", j.spec.name, j.content, err, pm))
				return
			}
			heights := []int{m.GetHeight() * j.scale}
			if m.GetHeight() == 1 {
				heights = []int{1, 37}
			}
			for _, sh := range heights {
				sw := m.GetWidth() * j.scale
				sym := newBimg(sw, sh)
				for y := 0; y < sh; y++ {
					for x := 0; x < sw; x++ {
						my := y / j.scale
						if m.GetHeight() == 1 {
							my = 0
						}
						sym.black[y*sw+x] = m.Get(x/j.scale, my)
					}
				}
				for _, W := range padOptions(sw) {
					for _, H := range padOptions(sh) {
						l.Beat("")
						im := newBimg(W, H)
						ox, oy := (W-sw)/2, (H-sh)/2
						for y := 0; y < sh; y++ {
							copy(im.black[(oy+y)*W+ox:(oy+y)*W+ox+sw], sym.black[y*sw:(y+1)*sw])
						}
						checkBilevel(l, im, "symbol/"+j.spec.name, true)
						l.Distinct("nontrivial", fmt.Sprintf("sym/%s/%s/%d/%d/%d/%d", j.spec.name, j.content, j.scale, sh, W, H))
					}
				}
			}
		})
}
