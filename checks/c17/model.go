package main

// The reference model of a luminance view: a naive full pixel copy of the current view plus the
// underlying image and the rectangle the view occupies in it (needed only to classify crop
// rectangles and to give the weaker reading of "crop reaching outside the current view but
// inside the underlying image"). Every operation produces a new full copy by index arithmetic.

import (
	"fmt"
	"strconv"
	"strings"
)

type vop struct {
	Op         string // "crop" | "invert" | "rotate" | "rotate45"
	L, T, W, H int
}

func (o vop) String() string {
	if o.Op == "crop" {
		return fmt.Sprintf("crop(%d,%d,%d,%d)", o.L, o.T, o.W, o.H)
	}
	return o.Op
}

func parseOp(s string) (vop, error) {
	if strings.HasPrefix(s, "crop(") && strings.HasSuffix(s, ")") {
		parts := strings.Split(s[5:len(s)-1], ",")
		if len(parts) != 4 {
			return vop{}, fmt.Errorf("bad crop %q", s)
		}
		var v [4]int
		for i, p := range parts {
			n, err := strconv.Atoi(strings.TrimSpace(p))
			if err != nil {
				return vop{}, err
			}
			v[i] = n
		}
		return vop{"crop", v[0], v[1], v[2], v[3]}, nil
	}
	switch s {
	case "invert", "rotate", "rotate45":
		return vop{Op: s}, nil
	}
	return vop{}, fmt.Errorf("unknown operation %q", s)
}

type vmodel struct {
	pix        [][]uint8 // the current view: h rows of w pixels (the oracle for every pixel query)
	w, h       int
	under      [][]uint8 // the underlying image: uh rows of uw pixels
	uw, uh     int
	l, t       int  // position of the view inside under
	inv        bool // odd number of inversions so far
	rotOK      bool // the source kind supports counter-clockwise rotation
	base       string
	transposed bool // odd number of quarter turns so far (informational)
}

func grid(w, h int) [][]uint8 {
	g := make([][]uint8, h)
	flat := make([]uint8, w*h)
	for y := range g {
		g[y] = flat[y*w : (y+1)*w : (y+1)*w]
	}
	return g
}

// selfCheck panics (harness error, not a library finding) if the view copy and the underlying
// image ever disagree: the two formulations of the model check each other.
func (m *vmodel) selfCheck() {
	if m.l < 0 || m.t < 0 || m.l+m.w > m.uw || m.t+m.h > m.uh || len(m.pix) != m.h {
		panic("harness: model rectangle outside its underlying image")
	}
	for y := 0; y < m.h; y++ {
		if len(m.pix[y]) != m.w {
			panic("harness: model row length")
		}
		for x := 0; x < m.w; x++ {
			if m.pix[y][x] != m.under[m.t+y][m.l+x] {
				panic("harness: model view and underlying image disagree")
			}
		}
	}
}

// cropClass classifies a crop rectangle relative to the current view, in priority order.
func (m *vmodel) cropClass(L, T, W, H int) string {
	switch {
	case L < 0 || T < 0:
		return "negative-origin"
	case W < 0 || H < 0:
		return "negative-size"
	case W == 0 || H == 0:
		return "zero-size"
	case satAdd(satAdd(m.l, L), W) > m.uw || satAdd(satAdd(m.t, T), H) > m.uh:
		return "overflow-underlying"
	case satAdd(L, W) > m.w || satAdd(T, H) > m.h:
		return "overflow-view"
	}
	return "in-range"
}

// crop requires a rectangle of positive size that lies inside the underlying image.
func (m *vmodel) crop(L, T, W, H int) *vmodel {
	n := *m
	n.w, n.h, n.l, n.t = W, H, m.l+L, m.t+T
	n.pix = grid(W, H)
	for y := 0; y < H; y++ {
		for x := 0; x < W; x++ {
			if T+y < m.h && L+x < m.w {
				n.pix[y][x] = m.pix[T+y][L+x] // the original pixel at the offset position
			} else {
				n.pix[y][x] = m.under[m.t+T+y][m.l+L+x] // weaker reading: outside the view, inside the image
			}
		}
	}
	n.selfCheck()
	return &n
}

func (m *vmodel) invert() *vmodel {
	n := *m
	n.inv = !m.inv
	n.pix = grid(m.w, m.h)
	for y := 0; y < m.h; y++ {
		for x := 0; x < m.w; x++ {
			n.pix[y][x] = 255 - m.pix[y][x]
		}
	}
	n.under = grid(m.uw, m.uh)
	for y := 0; y < m.uh; y++ {
		for x := 0; x < m.uw; x++ {
			n.under[y][x] = 255 - m.under[y][x]
		}
	}
	n.selfCheck()
	return &n
}

// rotate is a quarter turn counter-clockwise: the old top-right pixel becomes the new top-left
// pixel; new(x', y') = old(w-1-y', x').
func (m *vmodel) rotate() *vmodel {
	n := *m
	n.transposed = !m.transposed
	n.w, n.h = m.h, m.w
	n.pix = grid(n.w, n.h)
	for y := 0; y < n.h; y++ {
		for x := 0; x < n.w; x++ {
			n.pix[y][x] = m.pix[x][m.w-1-y]
		}
	}
	n.uw, n.uh = m.uh, m.uw
	n.under = grid(n.uw, n.uh)
	for y := 0; y < n.uh; y++ {
		for x := 0; x < n.uw; x++ {
			n.under[y][x] = m.under[x][m.uw-1-y]
		}
	}
	n.l, n.t = m.t, m.uw-m.l-m.w
	n.selfCheck()
	return &n
}

// key is the canonical state: geometry (incl. the hidden position inside the underlying image,
// which decides the outcome of later out-of-view crops), inversion parity and pixel content.
func (m *vmodel) key() string {
	var sb strings.Builder
	fmt.Fprintf(&sb, "%d,%d,%d,%d,%d,%d,%v|", m.w, m.h, m.l, m.t, m.uw, m.uh, m.inv)
	for y := 0; y < m.h; y++ {
		sb.Write(m.pix[y])
	}
	return sb.String()
}

func (m *vmodel) varied() bool {
	if m.w*m.h < 2 {
		return false
	}
	for y := 0; y < m.h; y++ {
		for x := 0; x < m.w; x++ {
			if m.pix[y][x] != m.pix[0][0] {
				return true
			}
		}
	}
	return false
}

// ------------------------------------------------------------------ global-histogram row model
//
// Re-statement of the documented one-row method: build a 32-bucket histogram of the row
// (bucket = luminance / 8); the tallest bucket is one peak; the other peak is the bucket that
// maximises count x (distance to the tallest)^2; the darker of the two is the black peak. If
// the peaks are at most two buckets apart there is no contrast (NotFound). The black point is
// the bucket strictly between the peaks that maximises
//     (distance from the black peak)^2 x (distance to the white peak) x (tallest count - own count),
// scanning from the white side (ties keep the bucket nearer the white peak), times 8.
// A row narrower than 3 pixels is thresholded directly (luminance < black point). Otherwise only
// interior pixels are classified, after the -1 4 -1 sharpening filter of weight 2:
// black iff (4*centre - left - right)/2 < black point; the first and last pixel are never set.

func modelBlackPoint(hist [32]int) (int, bool) {
	tall, tallN := 0, 0
	for b := 0; b < 32; b++ {
		if hist[b] > tallN {
			tall, tallN = b, hist[b]
		}
	}
	other, otherScore := 0, 0
	for b := 0; b < 32; b++ {
		d := b - tall
		if s := hist[b] * d * d; s > otherScore {
			other, otherScore = b, s
		}
	}
	dark, light := tall, other
	if dark > light {
		dark, light = light, dark
	}
	if light-dark <= 2 {
		return 0, false
	}
	best, bestScore := light-1, -1
	for b := light - 1; b > dark; b-- {
		f := b - dark
		if s := f * f * (light - b) * (tallN - hist[b]); s > bestScore {
			best, bestScore = b, s
		}
	}
	return best * 8, true
}

func modelBlackRow(lum []uint8) ([]bool, bool) {
	var hist [32]int
	for _, v := range lum {
		hist[v/8]++
	}
	bp, ok := modelBlackPoint(hist)
	if !ok {
		return nil, false
	}
	out := make([]bool, len(lum))
	if len(lum) < 3 {
		for x, v := range lum {
			out[x] = int(v) < bp
		}
		return out, true
	}
	for x := 1; x < len(lum)-1; x++ {
		out[x] = (4*int(lum[x])-int(lum[x-1])-int(lum[x+1]))/2 < bp
	}
	return out, true
}

// satAdd adds two non-negative ints, saturating at the largest int (the rectangle arithmetic of
// the model must not wrap for arguments near the end of the int range).
func satAdd(a, b int) int {
	const maxInt = int(^uint(0) >> 1)
	if a > maxInt-b {
		return maxInt
	}
	return a + b
}
