package main

// Binariser object histories on GREY images. The bilevel families call GetBlackMatrix and the rows
// of one bitmap in a fixed order, and on bilevel pixels every black point between the two peaks
// gives the same bits; here ONE binariser object answers every sequence of up to three requests
// from the menu {GetBlackMatrix, GetBlackRow(0), GetBlackRow(middle), GetBlackRow(last)} - including
// requests that are REFUSED with NotFound - on grey images whose first row differs in kind from the
// body (so a refused 2-D request is followed by a row request that succeeds, and the other way
// round). Oracle (differential, no hand-written expectation): every answer equals the answer a
// fresh binariser over a fresh source gives to that request alone.

import (
	"fmt"
	"image"

	"verif/mc"

	"github.com/makiuchi-d/gozxing"
)

type binHistCase struct {
	Part     string // "binhist"
	W, H     int
	Top      int // kind of row 0
	Body     int // kind of the other rows
	Bin      string
	Requests []int // 0 = GetBlackMatrix, 1.. = GetBlackRow(rowsOf[k-1])
}

// row kinds: (low, high, period) blocks
var binHistKinds = [][3]int{
	{200, 208, 1}, // faint texture: no usable valley
	{40, 120, 5},  // grey blocks
	{0, 255, 3},   // bilevel
	{90, 90, 1},   // uniform
	{16, 240, 7},  // wide blocks, near-extreme greys
	{120, 40, 2},  // grey, phase reversed
	{100, 140, 4}, // two peaks 5 buckets apart
	{60, 200, 1},  // alternating pixels
}

func binHistImage(w, h, top, body int) *image.Gray {
	g := image.NewGray(image.Rect(0, 0, w, h))
	for y := 0; y < h; y++ {
		k := binHistKinds[body]
		if y == 0 {
			k = binHistKinds[top]
		}
		for x := 0; x < w; x++ {
			v := k[0]
			if ((x+y%2)/k[2])%2 == 1 {
				v = k[1]
			}
			g.Pix[y*g.Stride+x] = uint8(v)
		}
	}
	return g
}

type binAnswer struct {
	rows []string
	err  string
}

func (a binAnswer) String() string {
	if a.err != "" {
		return "error " + a.err
	}
	return fmt.Sprint(a.rows)
}

func binHistAsk(b gozxing.Binarizer, req int, ys []int, w int) (a binAnswer) {
	if req == 0 {
		m, err := b.GetBlackMatrix()
		if err != nil {
			return binAnswer{err: fmt.Sprintf("%T", err)}
		}
		for y := 0; y < m.GetHeight(); y++ {
			s := make([]byte, m.GetWidth())
			for x := range s {
				s[x] = '.'
				if m.Get(x, y) {
					s[x] = 'X'
				}
			}
			a.rows = append(a.rows, string(s))
		}
		return a
	}
	row, err := b.GetBlackRow(ys[req-1], nil)
	if err != nil {
		return binAnswer{err: fmt.Sprintf("%T", err)}
	}
	s := make([]byte, w)
	for x := range s {
		s[x] = '.'
		if row.Get(x) {
			s[x] = 'X'
		}
	}
	return binAnswer{rows: []string{string(s)}}
}

func binHistOne(l *mc.Local, c binHistCase) {
	ys := []int{0, c.H / 2, c.H - 1}
	img := binHistImage(c.W, c.H, c.Top, c.Body)
	var got, want []binAnswer
	pm, site := mc.Guard(func() {
		b := newBin(c.Bin, gozxing.NewLuminanceSourceFromImage(img))
		for _, r := range c.Requests {
			got = append(got, binHistAsk(b, r, ys, c.W))
		}
		for _, r := range c.Requests {
			want = append(want, binHistAsk(newBin(c.Bin, gozxing.NewLuminanceSourceFromImage(img)), r, ys, c.W))
		}
	})
	l.Count("evaluations", 1)
	if pm != "" {
		chk.Violation("C17/panic/"+site+"/binhist", fmt.Sprintf("binariser history %v on a %dx%d grey image (top kind %d, body kind %d, %s) panics: %s", c.Requests, c.W, c.H, c.Top, c.Body, c.Bin, pm), c)
		return
	}
	names := []string{"GetBlackMatrix", "GetBlackRow(0)", "GetBlackRow(middle)", "GetBlackRow(last)"}
	for i := range got {
		if got[i].String() != want[i].String() {
			prev := "first request"
			if i > 0 {
				prev = "after " + names[c.Requests[i-1]]
				if got[i-1].err != "" {
					prev += " was refused"
				}
			}
			kind := "row"
			if c.Requests[i] == 0 {
				kind = "matrix"
			}
			chk.Violation("C17/binhist/"+c.Bin+"/"+kind+"-depends-on-history", fmt.Sprintf("%s binariser, %dx%d grey image (row 0 kind %v, body kind %v): request %d %s (%s) answers %.80s, a fresh binariser answers %.80s", c.Bin, c.W, c.H, binHistKinds[c.Top], binHistKinds[c.Body], i+1, names[c.Requests[i]], prev, got[i], want[i]), c)
			return
		}
		o := "ok"
		if got[i].err != "" {
			o = "refused"
		}
		l.Distinct("outcomes", fmt.Sprint("binhist/", c.Bin, "/", names[c.Requests[i]], "/", o))
	}
	refusedThenOK := false
	for i := 1; i < len(got); i++ {
		if got[i-1].err != "" && got[i].err == "" {
			refusedThenOK = true
		}
	}
	if refusedThenOK {
		l.Distinct("nontrivial", fmt.Sprint("binhist", c.W, c.H, c.Top, c.Body, c.Bin, c.Requests))
		l.Count("binariser histories with a refused request followed by an answered one", 1)
	}
}

func runBinHistories() {
	sizes := [][2]int{{30, 5}, {30, 30}, {50, 9}, {44, 44}}
	var seqs [][]int
	for a := 0; a < 4; a++ {
		seqs = append(seqs, []int{a})
		for b := 0; b < 4; b++ {
			seqs = append(seqs, []int{a, b})
			for c := 0; c < 4; c++ {
				seqs = append(seqs, []int{a, b, c})
			}
		}
	}
	type job struct{ sz, top, body int }
	var jobs []job
	for s := range sizes {
		for t := range binHistKinds {
			for b := range binHistKinds {
				jobs = append(jobs, job{s, t, b})
			}
		}
	}
	rng(fmt.Sprintf("binarisers: object histories on grey images: sizes %v x row-0 kind x body kind (%d^2 grey/bilevel/faint/uniform kinds) x {global, hybrid} x EVERY sequence of <= 3 requests from {GetBlackMatrix, GetBlackRow(0), GetBlackRow(middle), GetBlackRow(last)} (84 sequences): every answer, refusals included, equals that of a fresh binariser", sizes, len(binHistKinds)), len(jobs),
		func(i int) string { return fmt.Sprint(jobs[i]) },
		func(l *mc.Local, i int) {
			j := jobs[i]
			for _, bin := range []string{"global", "hybrid"} {
				for _, s := range seqs {
					binHistOne(l, binHistCase{"binhist", sizes[j.sz][0], sizes[j.sz][1], j.top, j.body, bin, s})
				}
			}
		})
	chk.Sample("binhist", binHistCase{"binhist", 30, 30, 1, 0, "global", []int{0, 1}})
}
