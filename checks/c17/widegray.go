package main

// Grey rows wider than 2^16 pixels. The black-point estimate multiplies bucket counts by squared
// distances; with more than 65535 pixels in the tallest bucket the products leave 32 bits and the
// low bits of small counts decide the ranking of second-peak and valley candidates. Rows of 70001
// and 140003 pixels: one dominant light (or, inverted, dark) level, two small dark clusters of
// n1 and n2 pixels (every pair 1..8 x 1..8) at bucket 0 and at bucket 8, 10 or 12, and a run of
// three pixels in every bucket 12..30, whose interior pixel is black under one candidate black
// point and white under another. GetBlackRow of both binarisers == the sharpened-threshold model.

import (
	"fmt"

	"verif/mc"

	"github.com/makiuchi-d/gozxing"
)

type wideGrayCase struct {
	Part   string // "widegray"
	Width  int
	N1, N2 int
	D2     int
	Invert bool
	Source string
	Bin    string
}

func wideGrayRow(c wideGrayCase) []uint8 {
	lum := make([]uint8, 0, c.Width)
	for i := 0; i < c.N1; i++ {
		lum = append(lum, 2)
	}
	for i := 0; i < c.N2; i++ {
		lum = append(lum, uint8(c.D2*8+3))
	}
	for b := 12; b <= 30; b++ {
		lum = append(lum, uint8(b*8+4), uint8(b*8+4), uint8(b*8+4))
	}
	for len(lum) < c.Width {
		lum = append(lum, 252)
	}
	if c.Invert {
		for i := range lum {
			lum[i] = 255 - lum[i]
		}
	}
	return lum
}

func wideGrayOne(l *mc.Local, c wideGrayCase) {
	lum := wideGrayRow(c)
	model, ok := modelBlackRow(lum)
	var row *gozxing.BitArray
	var err error
	pm, site := mc.Guard(func() { row, err = newBin(c.Bin, graySource(c.Source, lum)).GetBlackRow(0, nil) })
	l.Count("evaluations", 1)
	l.Count("wide_grey_rows", 1)
	key := "C17/widegray/" + c.Bin
	switch {
	case pm != "":
		chk.Violation("C17/panic/"+site+"/widegray", fmt.Sprintf("GetBlackRow panics on the wide grey row %+v: %s", c, pm), c)
	case err != nil:
		if !isNotFound(err) {
			chk.Violation(key+"/error-kind", fmt.Sprintf("GetBlackRow on %+v fails with %T %v", c, err, err), c)
		} else if ok {
			chk.Violation(key+"/notfound-despite-valley", fmt.Sprintf("GetBlackRow reports NotFound on %+v although the documented estimate finds a valley", c), c)
		}
	case !ok:
		l.Count("grayrow_library_accepts_where_model_finds_no_valley", 1)
	case row == nil || row.GetSize() < len(lum):
		chk.Violation(key+"/short", fmt.Sprintf("GetBlackRow on %+v returns a row shorter than the width", c), c)
	default:
		for x := range lum {
			if row.Get(x) != model[x] {
				chk.Violation(key+"/bit", fmt.Sprintf("GetBlackRow(%+v)[%d] = %v, sharpened-threshold model %v (luminance %d)", c, x, row.Get(x), model[x], lum[x]), c)
				return
			}
		}
		black := 0
		for _, b := range model {
			if b {
				black++
			}
		}
		l.Distinct("nontrivial", fmt.Sprint("widegray", c.Width, c.N1, c.N2, c.D2, c.Invert))
		l.Distinct("outcomes", fmt.Sprint("widegray/black=", black))
	}
}

func runWideGrayRows() {
	var cases []wideGrayCase
	for _, w := range []int{70001, 140003} {
		for n1 := 1; n1 <= 8; n1++ {
			for n2 := 1; n2 <= 8; n2++ {
				for _, d2 := range []int{8, 10, 12} {
					for _, inv := range []bool{false, true} {
						src := "YUV"
						if (n1+n2)%2 == 1 {
							src = "RGBints"
						}
						for _, bin := range []string{"global", "hybrid"} {
							cases = append(cases, wideGrayCase{"widegray", w, n1, n2, d2, inv, src, bin})
						}
					}
				}
			}
		}
	}
	rng(fmt.Sprintf("binarisers: grey rows of 70001 and 140003 pixels (tallest bucket beyond 2^16): dominant level + dark clusters of n1, n2 = 1..8 pixels at bucket 0 and bucket {8,10,12} + a 3-pixel run in every bucket 12..30, both polarities, {global, hybrid}: GetBlackRow == sharpened-threshold model [%d rows]", len(cases)), len(cases),
		func(i int) string { return fmt.Sprintf("%+v", cases[i]) },
		func(l *mc.Local, i int) { wideGrayOne(l, cases[i]) })
	chk.Sample("widegray", cases[0])
}
