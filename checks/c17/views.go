package main

// Part 1: explicit-state search over histories of view operations.

import (
	"fmt"
	"sort"
	"strings"
	"sync"

	"verif/mc"

	"github.com/makiuchi-d/gozxing"
)

type vcase struct {
	Part string
	Kind string
	W, H int
	Ops  []string
}

func mkcase(kind string, w, h int, hist []vop, extra ...vop) vcase {
	c := vcase{Part: "view", Kind: kind, W: w, H: h}
	for _, o := range hist {
		c.Ops = append(c.Ops, o.String())
	}
	for _, o := range extra {
		c.Ops = append(c.Ops, o.String())
	}
	return c
}

// Violations are buffered per key during a sub-space and flushed when it ends, so that the
// example printed for a key is the smallest failing case (fewest operations, then smallest
// image) rather than whichever worker happened to come first. Descriptions that need extra
// probing of the library (what a wrongly accepted crop leads to) are computed at flush time,
// once per key.
type pending struct {
	rank string
	what func() string
	cs   interface{}
	n    int
}

var (
	pendMu sync.Mutex
	pend   = map[string]*pending{}
)

func report(key, rank string, what func() string, cs interface{}) {
	pendMu.Lock()
	if p := pend[key]; p == nil {
		pend[key] = &pending{rank, what, cs, 1}
	} else {
		p.n++
		if rank < p.rank {
			p.rank, p.what, p.cs = rank, what, cs
		}
	}
	pendMu.Unlock()
}

func flush() {
	pendMu.Lock()
	defer pendMu.Unlock()
	keys := make([]string, 0, len(pend))
	for k := range pend {
		keys = append(keys, k)
	}
	sort.Strings(keys)
	for _, k := range keys {
		p := pend[k]
		chk.Violation(k, p.what(), p.cs)
		for i := 1; i < p.n; i++ {
			chk.Violation(k, "", nil) // keeps the total count; only the first call per key prints
		}
	}
	pend = map[string]*pending{}
}

func kindIndex(kind string) int {
	for i, k := range kinds {
		if k == kind {
			return i
		}
	}
	return len(kinds)
}

type diff struct{ aspect, detail string }

// compareView compares every query of the real view with the model. Library panics propagate
// to the caller (which runs this under mc.Guard).
func compareView(src gozxing.LuminanceSource, m *vmodel) *diff {
	return compareViewRows(src, m, false)
}

// compareViewRows: allFar asks for every row number of farRows; otherwise the two neighbours and
// three entries of that list chosen by the view's size and first pixel (every view of the search is
// compared, so the whole list is passed many times over per source kind).
func compareViewRows(src gozxing.LuminanceSource, m *vmodel, allFar bool) *diff {
	w, h := src.GetWidth(), src.GetHeight()
	if w != m.w || h != m.h {
		return &diff{"dims", fmt.Sprintf("GetWidth/GetHeight = %dx%d, model %dx%d", w, h, m.w, m.h)}
	}
	if !src.IsCropSupported() {
		return &diff{"flags", "IsCropSupported() = false for a source kind that implements Crop"}
	}
	if src.IsRotateSupported() != m.rotOK {
		return &diff{"flags", fmt.Sprintf("IsRotateSupported() = %v, expected %v for this source kind", src.IsRotateSupported(), m.rotOK)}
	}
	mat := src.GetMatrix()
	if len(mat) < w*h {
		return &diff{"pixels", fmt.Sprintf("GetMatrix() has %d bytes for a %dx%d view", len(mat), w, h)}
	}
	short := make([]byte, 0)
	if w > 1 {
		short = make([]byte, w-1)
	}
	exact := make([]byte, w)
	over := make([]byte, w+5)
	for y := 0; y < h; y++ {
		for variant := 0; variant < 4; variant++ {
			var buf []byte
			switch variant {
			case 1:
				buf = short
			case 2:
				buf = exact
			case 3:
				buf = over
			}
			for x := range buf { // stale content that differs from the expected pixel
				if x < w {
					buf[x] = 255 - m.pix[y][x]
				} else {
					buf[x] = 0x5a
				}
			}
			bufName := "nil"
			if buf != nil {
				bufName = fmt.Sprintf("buffer of %d", len(buf))
			}
			row, err := src.GetRow(y, buf)
			if err != nil {
				return &diff{"pixels", fmt.Sprintf("GetRow(%d, %s) inside the view returned error %v", y, bufName, err)}
			}
			if len(row) < w {
				return &diff{"pixels", fmt.Sprintf("GetRow(%d, %s) returned %d bytes for width %d", y, bufName, len(row), w)}
			}
			for x := 0; x < w; x++ {
				if row[x] != mat[y*w+x] {
					return &diff{"row-vs-matrix", fmt.Sprintf("GetRow(%d, %s)[%d] = %d but GetMatrix()[%d*%d+%d] = %d (model %d)", y, bufName, x, row[x], y, w, x, mat[y*w+x], m.pix[y][x])}
				}
			}
		}
	}
	for y := 0; y < h; y++ {
		for x := 0; x < w; x++ {
			if mat[y*w+x] != m.pix[y][x] {
				return &diff{"pixels", fmt.Sprintf("pixel (%d,%d) = %d, model %d", x, y, mat[y*w+x], m.pix[y][x])}
			}
		}
	}
	far := farRows(w, h)
	if !allFar {
		start := w*31 + h*17
		if len(mat) > 0 {
			start += int(mat[0])
		}
		n := len(far)
		far = []int{-1, h, far[start%n], far[(start+n/3)%n], far[(start+2*n/3)%n]}
	}
	for _, y := range far {
		for _, buf := range [][]byte{nil, exact} {
			if _, err := src.GetRow(y, buf); err == nil {
				return &diff{"row-out-of-range", fmt.Sprintf("GetRow(%d) on a view of height %d returned no error", y, h)}
			}
		}
	}
	return nil
}

// stepper applies one operation to the real object and the model, reports what the property
// forbids, and returns the successor (nil, nil when the step does not produce a state to expand).
type stepper struct {
	l    *mc.Local
	kind string
	w, h int
	hist []vop
}

func (s *stepper) viol(key, what string, op ...vop) {
	s.violf(key, func() string { return what }, op...)
}

func (s *stepper) violf(key string, what func() string, op ...vop) {
	cs := mkcase(s.kind, s.w, s.h, s.hist, op...)
	tiny := 0
	if s.w < 4 || s.h < 4 {
		tiny = 1 // prefer an illustrative example over a degenerate 1x1 image
	}
	area := 0 // among equally short histories prefer the larger final crop rectangle: it shows more pixels
	if n := len(op); n > 0 && op[n-1].Op == "crop" && op[n-1].W > 0 && op[n-1].H > 0 {
		area = op[n-1].W * op[n-1].H
	}
	rank := fmt.Sprintf("%d/%02d/%07d/%02d/%07d/%v", tiny, len(cs.Ops), s.w*s.h, kindIndex(s.kind), 9999999-area, cs.Ops)
	kind, w, h := s.kind, s.w, s.h
	report(key, rank, func() string { return fmt.Sprintf("%s [%s %dx%d after %v]", what(), kind, w, h, cs.Ops) }, cs)
}

// check compares a freshly produced view with its model; opclass names the operation class for the key.
func (s *stepper) check(ns gozxing.LuminanceSource, nm *vmodel, opclass string, op ...vop) bool {
	var d *diff
	pm, site := mc.Guard(func() { d = compareViewRows(ns, nm, opclass == "init" || len(s.hist) == 0) })
	base := nm.base
	if pm != "" {
		s.viol("C17/panic/"+site+"/"+opclass, "panic while querying the view: "+pm, op...)
		return false
	}
	if d == nil {
		return true
	}
	switch d.aspect {
	case "row-vs-matrix":
		key := "C17/row-vs-matrix/" + base
		if nm.inv {
			// is the un-inverted delegate consistent? then the inverting wrapper is at fault
			var dd *diff
			pm2, _ := mc.Guard(func() { dd = compareView(ns.Invert(), nm.invert()) })
			if pm2 == "" && dd == nil {
				key = "C17/invert/" + base
			}
		}
		s.viol(key, d.detail, op...)
	case "row-out-of-range":
		s.viol("C17/row-out-of-range/"+base, d.detail, op...)
	default:
		key := "C17/" + opclass + "/" + base
		if nm.inv && d.aspect == "pixels" && opclass != "invert" {
			// does the view show the un-inverted pixels? then the inversion was lost on the way
			var dd *diff
			pm2, _ := mc.Guard(func() { dd = compareView(ns, nm.invert()) })
			if pm2 == "" && dd == nil {
				key = "C17/invert/" + base
				d.detail += " (the view shows the pixels without the inversion)"
			}
		}
		s.viol(key, d.detail, op...)
	}
	return false
}

// consequences describes what a wrongly accepted crop leads to (for the violation text): the
// first row whose fetch panics and the first row that returns pixels although the requested
// rectangle has none there, with the place in the image those pixels really come from.
func consequences(ns gozxing.LuminanceSource, m *vmodel, o vop) string {
	if ns == nil {
		return "returned a nil source without error"
	}
	var out string
	pm, _ := mc.Guard(func() {
		w, h := ns.GetWidth(), ns.GetHeight()
		out = fmt.Sprintf("the new view reports %dx%d", w, h)
		panicked, elsewhere := false, false
		for y := 0; y < h && y < 4096 && !(panicked && elsewhere); y++ { // a wrongly accepted view may report any height
			var row []byte
			var err error
			pr, _ := mc.Guard(func() { row, err = ns.GetRow(y, nil) })
			uy := m.t + o.T + y
			inside := uy >= 0 && uy < m.uh && m.l+o.L >= 0 && m.l+o.L+w <= m.uw
			switch {
			case pr != "":
				if !panicked {
					out += fmt.Sprintf("; GetRow(%d) panics: %s", y, pr)
					panicked = true
				}
			case err != nil || inside || elsewhere || len(row) < w || w == 0:
			default:
				elsewhere = true
				n := min(w, 6)
				out += fmt.Sprintf("; GetRow(%d) = %v although the rectangle leaves the image there", y, row[:n])
				var flat []uint8
				for Y := 0; Y < m.uh; Y++ {
					flat = append(flat, m.under[Y]...)
				}
				if k := strings.Index(string(flat), string(row[:n])); k >= 0 {
					out += fmt.Sprintf(" (these are the pixels of image row %d from column %d", k/m.uw, k%m.uw)
					if k%m.uw+n > m.uw {
						out += " running on into the next row"
					}
					out += fmt.Sprintf("; the rectangle asked for row %d from column %d)", uy, m.l+o.L)
				}
			}
		}
		pg, _ := mc.Guard(func() { ns.GetMatrix() })
		if pg != "" {
			out += "; GetMatrix() panics: " + pg
		}
	})
	if pm != "" {
		out += "; panic: " + pm
	}
	return out
}

// emptyOK decides "error or a consistent empty view, no panic" for an accepted zero/negative size crop.
func emptyOK(ns gozxing.LuminanceSource) string {
	if ns == nil {
		return "returned a nil source without error"
	}
	var bad string
	pm, _ := mc.Guard(func() {
		w, h := ns.GetWidth(), ns.GetHeight()
		if w < 0 || h < 0 {
			bad = fmt.Sprintf("the accepted view reports the size %dx%d", w, h)
			pr, _ := mc.Guard(func() { ns.GetRow(0, nil) })
			if pr != "" {
				bad += "; GetRow(0) panics: " + pr
			}
			pg, _ := mc.Guard(func() { ns.GetMatrix() })
			if pg != "" {
				bad += "; GetMatrix() panics: " + pg
			}
			return
		}
		if w*h != 0 {
			bad = fmt.Sprintf("the accepted view is %dx%d, not empty", w, h)
			return
		}
		for y := 0; y < h; y++ {
			row, err := ns.GetRow(y, nil)
			if err == nil && len(row) < w {
				bad = "GetRow returned fewer bytes than the width"
				return
			}
		}
		if mat := ns.GetMatrix(); len(mat) < w*h {
			bad = "GetMatrix shorter than width*height"
			return
		}
		for _, y := range farRows(w, h) {
			if _, err := ns.GetRow(y, nil); err == nil {
				bad = fmt.Sprintf("GetRow(%d) on an empty view of height %d returned no error", y, h)
				return
			}
		}
	})
	if pm != "" {
		return "panic while querying the accepted empty view: " + pm
	}
	return bad
}

func (s *stepper) step(src gozxing.LuminanceSource, m *vmodel, o vop, quiet bool) (gozxing.LuminanceSource, *vmodel) {
	base := m.base
	switch o.Op {
	case "invert":
		var ns gozxing.LuminanceSource
		pm, site := mc.Guard(func() { ns = src.Invert() })
		if pm != "" || ns == nil {
			if !quiet {
				s.viol("C17/panic/"+site+"/invert", "Invert() panicked or returned nil: "+pm, o)
			}
			return nil, nil
		}
		nm := m.invert()
		if quiet || s.check(ns, nm, "invert", o) {
			return ns, nm
		}
		return nil, nil
	case "rotate":
		var ns gozxing.LuminanceSource
		var err error
		pm, site := mc.Guard(func() { ns, err = src.RotateCounterClockwise() })
		if pm != "" {
			if !quiet {
				s.viol("C17/panic/"+site+"/rotate", "RotateCounterClockwise() panicked: "+pm, o)
			}
			return nil, nil
		}
		if !m.rotOK {
			if err == nil && !quiet {
				s.viol("C17/rotate/"+base, "RotateCounterClockwise() on a source that reports IsRotateSupported()=false returned no error", o)
			}
			return nil, nil
		}
		if err != nil || ns == nil {
			if !quiet {
				s.viol("C17/rotate/"+base, fmt.Sprintf("RotateCounterClockwise() on a source that supports rotation failed: %v", err), o)
			}
			return nil, nil
		}
		nm := m.rotate()
		if quiet || s.check(ns, nm, "rotate", o) {
			return ns, nm
		}
		return nil, nil
	case "rotate45":
		var ns gozxing.LuminanceSource
		var err error
		pm, site := mc.Guard(func() { ns, err = src.RotateCounterClockwise45() })
		if quiet {
			return nil, nil
		}
		if pm != "" {
			s.viol("C17/panic/"+site+"/rotate45", "RotateCounterClockwise45() panicked: "+pm, o)
		} else if err == nil && ns == nil {
			s.viol("C17/rotate/"+base, "RotateCounterClockwise45() returned neither a source nor an error", o)
		} else if err == nil && !m.rotOK {
			s.viol("C17/rotate/"+base, "RotateCounterClockwise45() succeeded on a source that reports IsRotateSupported()=false", o)
		}
		if err != nil {
			s.l.Distinct("outcomes", "rotate45:error")
		} else {
			s.l.Distinct("outcomes", "rotate45:supported")
		}
		return nil, nil // no pixel oracle for an eighth turn: not a state of this search
	case "crop":
		class := m.cropClass(o.L, o.T, o.W, o.H)
		var ns gozxing.LuminanceSource
		var err error
		pm, site := mc.Guard(func() { ns, err = src.Crop(o.L, o.T, o.W, o.H) })
		if pm != "" {
			if !quiet {
				s.viol("C17/panic/"+site+"/crop-"+class, "Crop panicked: "+pm, o)
			}
			return nil, nil
		}
		if !quiet {
			if err != nil {
				s.l.Distinct("outcomes", "crop:"+class+":error")
			} else {
				s.l.Distinct("outcomes", "crop:"+class+":accepted")
			}
		}
		switch class {
		case "negative-origin", "overflow-underlying":
			if err == nil && !quiet {
				what := fmt.Sprintf("Crop(%d,%d,%d,%d) on a %dx%d view at (%d,%d) of a %dx%d image was accepted instead of reported as an error", o.L, o.T, o.W, o.H, m.w, m.h, m.l, m.t, m.uw, m.uh)
				s.violf("C17/crop/"+class+"/"+base, func() string { return what + ": " + consequences(ns, m, o) }, o)
			}
			return nil, nil
		case "negative-size", "zero-size":
			if err == nil && !quiet {
				if bad := emptyOK(ns); bad != "" {
					s.viol("C17/crop/"+class+"/"+base, fmt.Sprintf("Crop(%d,%d,%d,%d) on a %dx%d view was accepted but is not a consistent empty view: %s", o.L, o.T, o.W, o.H, m.w, m.h, bad), o)
				}
			}
			return nil, nil // an empty view is terminal
		case "overflow-view":
			if err != nil {
				return nil, nil
			}
		case "in-range":
			if err != nil {
				if !quiet {
					s.viol("C17/crop/in-range/"+base, fmt.Sprintf("Crop(%d,%d,%d,%d) inside a %dx%d view was rejected: %v", o.L, o.T, o.W, o.H, m.w, m.h, err), o)
				}
				return nil, nil
			}
		}
		if ns == nil {
			if !quiet {
				s.viol("C17/crop/"+class+"/"+base, "Crop returned neither a source nor an error", o)
			}
			return nil, nil
		}
		nm := m.crop(o.L, o.T, o.W, o.H)
		if quiet || s.check(ns, nm, "crop/"+class, o) {
			return ns, nm
		}
		return nil, nil
	}
	panic("harness: unknown op " + o.Op)
}

// initial builds the fresh full source and its model. The base luminance matrix is read from
// the library once (GetMatrix of the fresh source); the formula is compared with it in the
// separate base-luminance sub-space, so a wrong formula cannot disturb the view oracle.
func initial(kind string, w, h int) (gozxing.LuminanceSource, *vmodel, string) {
	var b *built
	var mat []byte
	pm, _ := mc.Guard(func() {
		b = buildSource(kind, w, h)
		if b.err == nil {
			mat = b.src.GetMatrix()
		}
	})
	if pm != "" {
		return nil, nil, "panic while constructing the source: " + pm
	}
	if b.err != nil {
		return nil, nil, "constructor returned " + b.err.Error()
	}
	if len(mat) < w*h {
		return nil, nil, fmt.Sprintf("GetMatrix() of the fresh source has %d bytes for %dx%d", len(mat), w, h)
	}
	m := &vmodel{w: w, h: h, under: b.want, uw: b.uw, uh: b.uh, l: b.l, t: b.t, rotOK: b.rotOK, base: baseOf(kind)}
	m.pix = grid(w, h)
	for y := 0; y < h; y++ {
		for x := 0; x < w; x++ {
			m.pix[y][x] = mat[y*w+x]
			m.under[b.t+y][b.l+x] = mat[y*w+x]
		}
	}
	m.selfCheck()
	return b.src, m, ""
}

func (s *stepper) replay(hist []vop) (gozxing.LuminanceSource, *vmodel) {
	src, m, msg := initial(s.kind, s.w, s.h)
	if msg != "" {
		return nil, nil
	}
	for _, o := range hist {
		src, m = s.step(src, m, o, true)
		if src == nil {
			return nil, nil
		}
	}
	return src, m
}

func dedupOps(ops []vop) []vop {
	seen := map[vop]bool{}
	var out []vop
	for _, o := range ops {
		if !seen[o] {
			seen[o] = true
			out = append(out, o)
		}
	}
	return out
}

// menu lists the operations tried in a state. The full menu is a deliberately bounded set of
// crops covering every class (origins -1, 0, 1, last, one past the last; sizes 0, 1, exact fit,
// one beyond the view, one beyond the underlying image, -1) plus invert and the rotations.
func menu(m *vmodel, full bool) []vop {
	w, h := m.w, m.h
	c := func(l, t, cw, ch int) vop { return vop{"crop", l, t, cw, ch} }
	if !full {
		return dedupOps([]vop{c(1, 1, w-2, h-2), c(0, 0, w-1, h), {Op: "invert"}, {Op: "rotate"}, c(1, 0, w-1, h), c(0, 1, w, h-1)})
	}
	return dedupOps(append([]vop{
		c(0, 0, w, h), c(1, 1, w-2, h-2), c(0, 0, w-1, h), c(1, 0, w-1, h), c(0, 1, w, h-1), c(w-1, h-1, 1, 1),
		c(-1, 0, min(w, 3), min(h, 3)), c(0, -1, min(w, 3), min(h, 3)), c(-1, -1, 1, 1),
		c(0, 0, w+1, h), c(0, 0, w, h+1), c(1, 0, w, h), c(0, 1, w, h), c(w, 0, 1, 1), c(0, h, 1, 1),
		c(0, 0, m.uw-m.l+1, 1), c(0, 0, 1, m.uh-m.t+1),
		c(0, 0, 0, h), c(0, 0, w, 0), c(0, 0, -1, h), c(0, 0, w, -1),
		{Op: "invert"}, {Op: "rotate"}, {Op: "rotate45"},
	}, farCrops(w, h)...))
}

// identities runs the extra transitions of a newly reached state: Invert twice and (where
// supported) four quarter turns must lead back to the very same canonical state.
func (s *stepper) identities(hist []vop, nm *vmodel) {
	src, m := s.replay(hist)
	if src == nil {
		return
	}
	saved := s.hist
	s.hist = hist
	defer func() { s.hist = saved }()
	inv := vop{Op: "invert"}
	a, am := s.step(src, m, inv, false)
	s.l.Count("transitions", 1)
	if a != nil {
		old := s.hist
		s.hist = append(append([]vop{}, hist...), inv)
		b, bm := s.step(a, am, inv, false)
		s.hist = old
		s.l.Count("transitions", 1)
		if b != nil {
			if bm.key() != nm.key() {
				panic("harness: model of Invert twice is not the identity")
			}
			var d *diff
			pm, site := mc.Guard(func() { d = compareView(b, nm) })
			if pm != "" {
				s.viol("C17/panic/"+site+"/invert", "panic after Invert twice: "+pm, inv, inv)
			} else if d != nil {
				s.viol("C17/invert/"+nm.base, "Invert twice is not the identity: "+d.detail, inv, inv)
			}
		}
	}
	if !nm.rotOK {
		return
	}
	src, m = s.replay(hist)
	rot := vop{Op: "rotate"}
	var done []vop
	for i := 0; i < 4 && src != nil; i++ {
		old := s.hist
		s.hist = append(append([]vop{}, hist...), done...)
		src, m = s.step(src, m, rot, false)
		s.hist = old
		done = append(done, rot)
		s.l.Count("transitions", 1)
	}
	if src != nil {
		if m.key() != nm.key() {
			panic("harness: model of four quarter turns is not the identity")
		}
		var d *diff
		pm, site := mc.Guard(func() { d = compareView(src, nm) })
		if pm != "" {
			s.viol("C17/panic/"+site+"/rotate", "panic after four quarter turns: "+pm, done...)
		} else if d != nil {
			s.viol("C17/rotate/"+nm.base, "four quarter turns are not the identity: "+d.detail, done...)
		}
	}
}

func search(l *mc.Local, kind string, w, h, depth int, full bool) {
	s := &stepper{l: l, kind: kind, w: w, h: h}
	src0, m0, msg := initial(kind, w, h)
	if msg != "" {
		chk.Violation("C17/init/"+kind, fmt.Sprintf("%s %dx%d: %s", kind, w, h, msg), mkcase(kind, w, h, nil))
		return
	}
	if !s.check(src0, m0, "init") {
		return
	}
	rootID := fmt.Sprintf("%s/%dx%d/", kind, w, h)
	seen := map[string]bool{m0.key(): true}
	l.Count("states", 1)
	if m0.varied() {
		l.Distinct("nontrivial", rootID+m0.key())
	}
	s.identities(nil, m0)
	frontier := [][]vop{nil}
	queried := 0
	for d := 0; d < depth && len(frontier) > 0; d++ {
		var next [][]vop
		for _, hist := range frontier {
			_, mcur := s.replay(hist)
			if mcur == nil {
				panic("harness: history does not replay")
			}
			for _, o := range menu(mcur, full) {
				src, m := s.replay(hist) // a fresh real object for every transition
				if src == nil {
					panic("harness: history does not replay")
				}
				s.hist = hist
				l.Beat("")
				// every second transition starts from a parent that has already been QUERIED (its matrix
				// and a row fetched): whatever a view memoises must not leak into the views derived from it
				if queried++; queried%2 == 0 {
					mc.Guard(func() {
						src.GetMatrix()
						src.GetRow(0, nil)
					})
				}
				ns, nm := s.step(src, m, o, false)
				l.Count("transitions", 1)
				l.Count("evaluations", 1)
				if ns == nil {
					continue
				}
				k := nm.key()
				if seen[k] {
					continue
				}
				seen[k] = true
				l.Count("states", 1)
				if nm.varied() {
					l.Distinct("nontrivial", rootID+k)
				}
				nh := append(append([]vop{}, hist...), o)
				s.identities(nh, nm)
				next = append(next, nh)
			}
		}
		frontier = next
	}
}

// ------------------------------------------------------------------ base luminance sub-space

func checkBase(l *mc.Local, kind string, w, h int) {
	var b *built
	var d string
	pm, site := mc.Guard(func() {
		b = buildSource(kind, w, h)
		if b.err != nil {
			d = "constructor returned " + b.err.Error()
			return
		}
		if b.src.GetWidth() != w || b.src.GetHeight() != h {
			d = fmt.Sprintf("fresh source reports %dx%d", b.src.GetWidth(), b.src.GetHeight())
			return
		}
		mat := b.src.GetMatrix()
		if len(mat) < w*h {
			d = fmt.Sprintf("GetMatrix() has %d bytes", len(mat))
			return
		}
		for y := 0; y < h && d == ""; y++ {
			row, err := b.src.GetRow(y, nil)
			if err != nil || len(row) < w {
				d = fmt.Sprintf("GetRow(%d) of the fresh source: %v, %d bytes", y, err, len(row))
				return
			}
			for x := 0; x < w; x++ {
				if !b.exact[b.t+y][b.l+x] {
					l.Count("partly_transparent_pixels_without_oracle", 1)
					continue
				}
				want := b.want[b.t+y][b.l+x]
				if mat[y*w+x] != want || row[x] != want {
					d = fmt.Sprintf("pixel (%d,%d): GetMatrix %d, GetRow %d, formula %d", x, y, mat[y*w+x], row[x], want)
					return
				}
			}
		}
	})
	l.Count("evaluations", 1)
	cs := vcase{Part: "base", Kind: kind, W: w, H: h}
	if pm != "" {
		what := fmt.Sprintf("%s %dx%d: %s", kind, w, h, pm)
		report("C17/panic/"+site+"/construct-"+kind, fmt.Sprintf("%07d/%d", w*h, w), func() string { return what }, cs)
	} else if d != "" {
		what := fmt.Sprintf("%s %dx%d: %s", kind, w, h, d)
		report("C17/base-luminance/"+kind, fmt.Sprintf("%07d/%d", w*h, w), func() string { return what }, cs)
	} else if w*h >= 2 {
		l.Distinct("nontrivial", fmt.Sprintf("base/%s/%dx%d", kind, w, h))
	}
}

// ------------------------------------------------------------------ argument product of Crop

// allCrops applies, to the fresh source and to the views reached by a few short histories, a crop
// with EVERY argument combination: left in -1..w, top in -1..h, width in -1..w+2, height in
// -1..h+2 (w, h the size of the view), each on a fresh real object; in-range crops must agree
// with the model pixel for pixel, every other rectangle must be refused.
func allCrops(l *mc.Local, kind string, w, h int) {
	s := &stepper{l: l, kind: kind, w: w, h: h}
	if _, _, msg := initial(kind, w, h); msg != "" {
		return // reported by the history search
	}
	c := func(l, t, cw, ch int) vop { return vop{"crop", l, t, cw, ch} }
	prefixes := [][]vop{nil, {{Op: "rotate"}}, {{Op: "invert"}}, {c(1, 0, w-1, h)}, {c(0, 1, w, h-1)}, {{Op: "rotate"}, {Op: "rotate"}}, {c(1, 1, w-2, h-2), {Op: "rotate"}}}
	for _, hist := range prefixes {
		_, mcur := s.replay(hist)
		if mcur == nil {
			continue // the prefix is not applicable to this source kind / size
		}
		vw, vh := mcur.w, mcur.h
		for left := -1; left <= vw; left++ {
			for top := -1; top <= vh; top++ {
				for cw := -1; cw <= vw+2; cw++ {
					for ch := -1; ch <= vh+2; ch++ {
						src, m := s.replay(hist)
						if src == nil {
							panic("harness: history does not replay")
						}
						s.hist = hist
						l.Beat("")
						s.step(src, m, c(left, top, cw, ch), false)
						l.Count("transitions", 1)
						l.Count("evaluations", 1)
					}
				}
			}
		}
		for _, o := range farCrops(vw, vh) {
			src, m := s.replay(hist)
			s.hist = hist
			s.step(src, m, o, false)
			l.Count("transitions", 1)
			l.Count("evaluations", 1)
			l.Count("far_crops", 1)
		}
		l.Distinct("nontrivial", fmt.Sprintf("allcrops/%s/%dx%d/%d", kind, w, h, len(hist)))
	}
}

// farRows lists row numbers outside a view of the given size: the two neighbours, and rows that
// look like a valid row r once the number (or the offset r*w derived from it) is cut to 8, 16, 31,
// 32, 48 or 63-log2(w) bits - k*2^b + r for both signs of k - plus the ends of the int range.
func farRows(w, h int) []int {
	const maxInt = int(^uint(0) >> 1)
	out := []int{-1, h, h + 1, maxInt, maxInt - 1, -maxInt - 1, -maxInt}
	rs := []int{0, 1, 2, h - 1, h / 2}
	shifts := []uint{8, 16, 31, 32, 33, 48, 56, 58, 60, 62}
	for lw := uint(0); lw < 16; lw++ { // 2^(64-lw) / 2^lw-wide rows wraps to offset 0
		if w > 0 && 1<<lw >= w {
			shifts = append(shifts, 64-lw, 63-lw, 32-lw)
			break
		}
	}
	for _, b := range shifts {
		if b >= 63 {
			continue
		}
		for _, r := range rs {
			if r < 0 {
				continue
			}
			for _, k := range []int{1, -1, 3} {
				y := k<<b + r
				if y >= 0 && y < h {
					continue
				}
				out = append(out, y)
			}
		}
	}
	return out
}

// farCrops: rectangles far outside the view whose origin + size wraps around the int range, or
// that look like a rectangle inside the view once an argument is cut to 32 bits.
func farCrops(w, h int) []vop {
	const maxInt = int(^uint(0) >> 1)
	c := func(l, t, cw, ch int) vop { return vop{"crop", l, t, cw, ch} }
	return []vop{
		c(maxInt, 0, 1, 1), c(0, maxInt, 1, 1), c(1, 0, maxInt, 1), c(0, 1, 1, maxInt),
		c(maxInt-w+1, 0, w, 1), c(0, maxInt-h+1, 1, h), c(maxInt, maxInt, maxInt, maxInt),
		c(1, 1, maxInt, maxInt), c(maxInt/2+1, 0, maxInt/2+1, 1), c(0, maxInt/2+1, 1, maxInt/2+1),
		c(1<<32, 0, 1, 1), c(0, 1<<32, 1, 1), c(0, 0, 1<<32+w, 1), c(0, 0, 1, 1<<32+h),
		c(1<<32, 1<<32, w, h), c(0, 0, 1<<32, 1<<32),
	}
}
