package main

import (
	"os"
	"runtime/pprof"
)

func init() {
	if p := os.Getenv("C17PROF"); p != "" {
		f, _ := os.Create(p)
		pprof.StartCPUProfile(f)
		stopProf = pprof.StopCPUProfile
	}
}

var stopProf = func() {}
