package main

import (
	"fmt"
	"os"
	"runtime/pprof"
	"time"
)

func init() {
	if p := os.Getenv("C17PROF"); p != "" {
		f, _ := os.Create(p)
		pprof.StartCPUProfile(f)
		stopProf = pprof.StopCPUProfile
	}
}

var stopProf = func() {}

func only() bool {
	s := os.Getenv("C17ONLY")
	if s == "" {
		return false
	}
	var kind string
	var w, h, d, full int
	fmt.Sscanf(s, "%s %d %d %d %d", &kind, &w, &h, &d, &full)
	l := chk.NewLocal()
	t0 := time.Now()
	search(l, kind, w, h, d, full == 1)
	l.Merge()
	fmt.Println("took", time.Since(t0))
	return true
}
