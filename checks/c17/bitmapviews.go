package main

// Views of a BinaryBitmap. BinaryBitmap.Crop and RotateCounterClockwise derive a new bitmap from
// the bitmap's luminance source; the bitmap also caches its black matrix. Every sequence of up to
// four operations from {GetBlackMatrix, six crops (same-size shifted by one pixel right / down /
// both, inset by one, first column dropped, last column dropped), RotateCounterClockwise} is
// applied to a bitmap whose source is a WINDOW of a larger bilevel image (so that a shifted crop of
// the window's own size stays inside the underlying image), for both binarisers and for windows
// below and above the 40-pixel switch. Oracle: the view model of the luminance sources (crop
// classes as for the sources: out of the underlying image = error; out of the view but inside the
// image = error or the underlying pixels) and, for every bitmap reached, GetBlackMatrix == the
// black pixels of the modelled view (or NotFound where the bilevel families accept it).

import (
	"fmt"
	"image"

	"verif/mc"

	"github.com/makiuchi-d/gozxing"
)

type bvCase struct {
	Part   string // "bitmapview"
	UW, UH int    // underlying image
	Win    [4]int // window of the first source
	Bin    string
	Ops    []int
}

var bvOpNames = []string{"GetBlackMatrix", "crop same size +1,0", "crop same size 0,+1", "crop same size +1,+1", "crop inset 1", "crop without first column", "crop without last column", "rotate"}

func bvUnder(w, h int) [][]uint8 {
	g := grid(w, h)
	for y := 0; y < h; y++ {
		for x := 0; x < w; x++ {
			// dense two-colour texture: both colours within every 4 adjacent pixels of a row
			if (x*7+y*3+(x*y)%5)%4 < 2 == ((x+y)%3 != 0) {
				g[y][x] = 255
			}
		}
	}
	return g
}

func bvJudge(bb *gozxing.BinaryBitmap, m *vmodel) (suffix, detail string) {
	im := newBimg(m.w, m.h)
	for y := 0; y < m.h; y++ {
		for x := 0; x < m.w; x++ {
			im.black[y*m.w+x] = m.pix[y][x] == 0
		}
	}
	if bb.GetWidth() != m.w || bb.GetHeight() != m.h {
		return "dims", fmt.Sprintf("bitmap reports %dx%d, model %dx%d", bb.GetWidth(), bb.GetHeight(), m.w, m.h)
	}
	mat, e := bb.GetBlackMatrix()
	return judgeMatrix(im, mat, e)
}

func bvOne(l *mc.Local, c bvCase) {
	under := bvUnder(c.UW, c.UH)
	img := image.NewGray(image.Rect(0, 0, c.UW, c.UH))
	for y := 0; y < c.UH; y++ {
		copy(img.Pix[y*img.Stride:], under[y])
	}
	m := &vmodel{pix: under, w: c.UW, h: c.UH, under: under, uw: c.UW, uh: c.UH, rotOK: true, base: "bitmapview"}
	src, err := gozxing.NewLuminanceSourceFromImage(img).Crop(c.Win[0], c.Win[1], c.Win[2], c.Win[3])
	l.Count("evaluations", 1)
	fail := func(key, what string) {
		var names []string
		for _, o := range c.Ops {
			names = append(names, bvOpNames[o])
		}
		chk.Violation("C17/bitmapview/"+c.Bin+"/"+key, fmt.Sprintf("%s bitmap over window %v of a %dx%d bilevel image after %v: %s", c.Bin, c.Win, c.UW, c.UH, names, what), c)
	}
	if err != nil {
		fail("window", "the source refuses the window: "+err.Error())
		return
	}
	m = m.crop(c.Win[0], c.Win[1], c.Win[2], c.Win[3])
	var bb *gozxing.BinaryBitmap
	pm, site := mc.Guard(func() {
		bb, err = gozxing.NewBinaryBitmap(newBin(c.Bin, src))
		if err != nil {
			return
		}
		for i, o := range c.Ops {
			switch {
			case o == 0:
				if s, d := bvJudge(bb, m); s != "" {
					fail(s, fmt.Sprintf("step %d GetBlackMatrix: %s", i+1, d))
					bb = nil
					return
				}
			case o == 7:
				nb, e := bb.RotateCounterClockwise()
				if e != nil || nb == nil {
					fail("rotate", fmt.Sprintf("step %d RotateCounterClockwise failed: %v", i+1, e))
					bb = nil
					return
				}
				bb, m = nb, m.rotate()
			default:
				r := [][4]int{{1, 0, m.w, m.h}, {0, 1, m.w, m.h}, {1, 1, m.w, m.h}, {1, 1, m.w - 2, m.h - 2}, {1, 0, m.w - 1, m.h}, {0, 0, m.w - 1, m.h}}[o-1]
				cls := m.cropClass(r[0], r[1], r[2], r[3])
				nb, e := bb.Crop(r[0], r[1], r[2], r[3])
				switch cls {
				case "in-range":
					if e != nil || nb == nil {
						fail("crop-refused", fmt.Sprintf("step %d Crop%v inside the view failed: %v", i+1, r, e))
						bb = nil
						return
					}
					bb, m = nb, m.crop(r[0], r[1], r[2], r[3])
				case "overflow-view":
					if e != nil || nb == nil {
						l.Distinct("outcomes", "bitmapview/crop-beyond-view-refused")
						return // terminal: the weaker reading allows a refusal
					}
					bb, m = nb, m.crop(r[0], r[1], r[2], r[3])
				default:
					if e == nil {
						fail("crop-accepted/"+cls, fmt.Sprintf("step %d Crop%v (%s) was accepted", i+1, r, cls))
						bb = nil
					}
					return
				}
			}
		}
	})
	if pm != "" {
		fail("panic/"+site, pm)
		return
	}
	if bb == nil {
		return
	}
	// whatever was reached: its matrix is the black pixels of the modelled view
	pm, site = mc.Guard(func() {
		if s, d := bvJudge(bb, m); s != "" {
			fail(s, "final GetBlackMatrix: "+d)
		}
	})
	if pm != "" {
		fail("panic/"+site, pm)
		return
	}
	l.Distinct("nontrivial", fmt.Sprint("bitmapview", c.UW, c.Win, c.Bin, c.Ops))
	l.Distinct("outcomes", fmt.Sprint("bitmapview/ok/", m.w >= 40 && m.h >= 40))
}

func runBitmapViews() {
	type base struct {
		uw, uh int
		win    [4]int
	}
	bases := []base{{16, 13, [4]int{2, 1, 11, 9}}, {16, 13, [4]int{0, 0, 16, 13}}, {60, 56, [4]int{3, 2, 48, 45}}, {48, 44, [4]int{1, 1, 41, 41}}}
	depth := chk.Pick(4, 5)
	var seqs [][]int
	var gen func(cur []int)
	gen = func(cur []int) {
		if len(cur) > 0 {
			seqs = append(seqs, append([]int{}, cur...))
		}
		if len(cur) == depth {
			return
		}
		for o := 0; o < len(bvOpNames); o++ {
			if len(cur) > 0 && o == 0 && cur[len(cur)-1] == 0 {
				continue
			}
			gen(append(cur, o))
		}
	}
	gen(nil)
	type job struct{ b, first int }
	var jobs []job
	for b := range bases {
		for f := 0; f < len(bvOpNames); f++ {
			jobs = append(jobs, job{b, f})
		}
	}
	rng(fmt.Sprintf("BinaryBitmap views: bitmaps over a window of a larger bilevel image (%d bases: small and above the 40-pixel switch) x {global, hybrid} x EVERY sequence of <= %d operations from {GetBlackMatrix, 6 crops incl. same-size crops shifted by one pixel, RotateCounterClockwise} (%d sequences): crop classes as for the sources, every black matrix == black pixels of the modelled view", len(bases), depth, len(seqs)), len(jobs),
		func(i int) string { return fmt.Sprint(bases[jobs[i].b], " first op ", bvOpNames[jobs[i].first]) },
		func(l *mc.Local, i int) {
			b := bases[jobs[i].b]
			for _, q := range seqs {
				if q[0] != jobs[i].first {
					continue
				}
				for _, bin := range []string{"global", "hybrid"} {
					bvOne(l, bvCase{"bitmapview", b.uw, b.uh, b.win, bin, q})
				}
			}
		})
	chk.Sample("bitmapview", bvCase{"bitmapview", 16, 13, [4]int{2, 1, 11, 9}, "global", []int{0, 1, 0}})
}
